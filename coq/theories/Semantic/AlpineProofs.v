From Coq Require Import List ZArith NArith Bool Lia Arith.
From Scalibr Require Import Semantic.Cmp Semantic.LexPad Semantic.Bytes Semantic.Alpine Semantic.PypiProofs.
Import ListNotations.
Open Scope Z_scope.

(* (thenO_opp and thenc_opp come from PypiProofs) *)

(* ------------------------------------------------------------------ small facts *)
Lemma thenc_eq_r : forall c, thenc c Eq = c.
Proof. destruct c; reflexivity. Qed.

Lemma all_digits_cons : forall s, all_digits s = true -> exists c r, s = c :: r /\ is_digit c = true.
Proof.
  intros [|c r] H; unfold all_digits in H; simpl in H; [discriminate|].
  apply andb_true_iff in H as [H _]. exists c, r. split; [reflexivity | exact H].
Qed.

Lemma digit_ge_48 : forall c, is_digit c = true -> (c =? 48)%N = false -> N.compare 48 c = Lt.
Proof.
  intros c H E. unfold is_digit in H. apply andb_true_iff in H as [H _].
  apply N.leb_le in H. apply N.eqb_neq in E. apply N.compare_lt_iff. lia.
Qed.

(* ------------------------------------------------------------------ suffixes *)
Definition skey (s : asuffix) : Z * Z := (as_weight s, oval (as_number s)).
Definition skey_cmp : Z * Z -> Z * Z -> comparison := lexprod Z.compare Z.compare.
Definition sgood (s : asuffix) : bool := is_some (as_number s).

Lemma asuffix_cmp_antisym : forall a b, asuffix_cmp b a = oppO (asuffix_cmp a b).
Proof.
  intros a b. unfold asuffix_cmp. rewrite (Z.compare_antisym (as_weight a) (as_weight b)).
  destruct (as_weight a ?= as_weight b); simpl; try reflexivity. apply ocmp_antisym.
Qed.

Lemma asuffix_cmp_refl : forall a, asuffix_cmp a a = Ok Eq.
Proof. intros a. unfold asuffix_cmp. rewrite Z.compare_refl. apply ocmp_refl. Qed.

Lemma asuffix_cmp_pure : forall a b, sgood a = true -> sgood b = true ->
  asuffix_cmp a b = Ok (by_key skey skey_cmp a b).
Proof.
  intros a b Ha Hb. unfold asuffix_cmp, by_key, skey, skey_cmp, lexprod, sgood in *. simpl.
  destruct (as_number a), (as_number b); try discriminate. simpl.
  destruct (as_weight a ?= as_weight b); reflexivity.
Qed.

Lemma skey_cmp_tp : TotalPreorder skey_cmp.
Proof. apply lexprod_tp; apply Zcompare_tp. Qed.

(* ------------------------------------------------------------------ number components *)
Definition ckey := (nat * (bytes * Z))%type.
Definition ckey_cmp : ckey -> ckey -> comparison := lexprod Nat.compare (lexprod bytes_cmp Z.compare).
Definition kzero : ckey := (0%nat, ([], 0)).

Lemma ckey_cmp_tp : TotalPreorder ckey_cmp.
Proof. apply lexprod_tp; [apply Natcompare_tp|]. apply lexprod_tp; [apply bytes_cmp_tp | apply Zcompare_tp]. Qed.

Definition lead0 (c : anc) : bool := match an_original c with x :: _ => (x =? 48)%N | [] => false end.

(* key of a component after the first (or of the padding, which has index 0) *)
Definition keyT (c : anc) : ckey :=
  if an_index c =? 0 then kzero
  else if lead0 c then (if bytes_eqb (an_original c) [48%N] then kzero else (1%nat, (an_original c, 0)))
  else (2%nat, ([], oval (an_value c))).

(* key of the first component (always numeric) *)
Definition keyH (c : anc) : ckey :=
  if oval (an_value c) =? 0 then kzero else (2%nat, ([], oval (an_value c))).

Definition is_padlike (c : anc) : bool := (an_index c =? 0) && optZ_eqb (an_value c) (Some 0).
Definition tgood (c : anc) : bool := anc_tail_ok c || is_padlike c.

Lemma optZ_eqb_eq : forall a b, optZ_eqb a b = true -> a = b.
Proof. intros [x|] [y|]; simpl; intros H; try discriminate; [apply Z.eqb_eq in H; subst|]; reflexivity. Qed.

(* facts extracted from anc_tail_ok *)
Lemma tail_ok_facts : forall c, anc_tail_ok c = true ->
  exists x r v, an_original c = x :: r /\ is_digit x = true /\ an_value c = Some v /\ 0 <= v /\
                (an_index c =? 0) = false /\ (v <> 0 \/ an_original c = [48%N]).
Proof.
  intros c H. unfold anc_tail_ok, anc_parsed in H.
  apply andb_true_iff in H as [H D]. apply andb_true_iff in H as [H I]. apply andb_true_iff in H as [Dg V].
  destruct (all_digits_cons _ Dg) as (x & r & E & Dx).
  apply optZ_eqb_eq in V. apply negb_true_iff in I.
  exists x, r, (Z.of_N (digits_val (an_original c) 0)). repeat split; try assumption; [lia|].
  apply orb_true_iff in D as [D|D].
  - left. apply negb_true_iff, Z.eqb_neq in D. exact D.
  - right. apply bytes_eqb_eq in D. exact D.
Qed.

Lemma padlike_facts : forall c, is_padlike c = true -> (an_index c =? 0) = true /\ an_value c = Some 0.
Proof. intros c H. unfold is_padlike in H. apply andb_true_iff in H as [I V]. apply optZ_eqb_eq in V. tauto. Qed.

Lemma bytes_cmp_0_0x : forall r, r <> [] -> bytes_cmp [48%N] (48%N :: r) = Lt.
Proof. intros [|y r] H; [congruence | reflexivity]. Qed.

Lemma bytes_cmp_0x_0 : forall r, r <> [] -> bytes_cmp (48%N :: r) [48%N] = Gt.
Proof. intros [|y r] H; [congruence | reflexivity]. Qed.

(* the comparison of two tail-position components (or paddings) is the comparison of their keys *)
Lemma anc_cmp_tail_pure : forall a b, tgood a = true -> tgood b = true ->
  anc_cmp a b = Ok (by_key keyT ckey_cmp a b).
Proof.
  intros a b Ga Gb. unfold tgood in *.
  apply orb_true_iff in Ga. apply orb_true_iff in Gb.
  unfold anc_cmp, by_key, keyT, ckey_cmp, lexprod, kzero, lead0.
  destruct Ga as [Ta|Pa], Gb as [Tb|Pb].
  - (* both real *)
    destruct (tail_ok_facts a Ta) as (x & r & v & Ea & Dx & Va & Nv & Ia & Da).
    destruct (tail_ok_facts b Tb) as (y & s & w & Eb & Dy & Vb & Nw & Ib & Db).
    rewrite Ia, Ib, Ea, Eb, Va, Vb. cbn [negb andb oval fst snd].
    destruct (x =? 48)%N eqn:X; destruct (y =? 48)%N eqn:Y.
    + apply N.eqb_eq in X, Y. subst x y.
      destruct (bytes_eqb (48%N :: r) [48%N]) eqn:A1; destruct (bytes_eqb (48%N :: s) [48%N]) eqn:B1; cbn [thenc fst snd Nat.compare].
      * apply bytes_eqb_eq in A1, B1. rewrite A1, B1. reflexivity.
      * apply bytes_eqb_eq in A1. injection A1 as ->.
        rewrite bytes_cmp_0_0x; [reflexivity|]. intros ->. discriminate.
      * apply bytes_eqb_eq in B1. injection B1 as ->.
        rewrite bytes_cmp_0x_0; [reflexivity|]. intros ->. discriminate.
      * rewrite Z.compare_refl, thenc_eq_r. reflexivity.
    + apply N.eqb_eq in X. subst x.
      assert (bytes_cmp (48%N :: r) (y :: s) = Lt) as -> by (unfold bytes_cmp; cbn [shortlex]; rewrite (digit_ge_48 y Dy Y); reflexivity).
      destruct (bytes_eqb (48%N :: r) [48%N]); reflexivity.
    + apply N.eqb_eq in Y. subst y.
      assert (bytes_cmp (x :: r) (48%N :: s) = Gt) as ->.
      { unfold bytes_cmp; cbn [shortlex]. rewrite N.compare_antisym, (digit_ge_48 x Dx X). reflexivity. }
      destruct (bytes_eqb (48%N :: s) [48%N]); reflexivity.
    + simpl. reflexivity.
  - (* a real, b padding *)
    destruct (tail_ok_facts a Ta) as (x & r & v & Ea & Dx & Va & Nv & Ia & Da).
    destruct (padlike_facts b Pb) as [Ib Vb].
    rewrite Ia, Ib, Va, Vb. cbn [negb andb oval ocmp].
    rewrite Ea. destruct (x =? 48)%N eqn:X.
    + destruct (bytes_eqb (x :: r) [48%N]) eqn:A1; cbn [thenc fst snd Nat.compare].
      * apply bytes_eqb_eq in A1. rewrite <- Ea in A1.
        destruct Da as [Da|Da]; [|].
        -- (* value of "0" is 0 *) rewrite A1 in Ea.
           unfold anc_tail_ok, anc_parsed in Ta. rewrite A1, Va in Ta. simpl in Ta.
           apply andb_true_iff in Ta as [Ta _]. apply andb_true_iff in Ta as [Ta _].
           apply Z.eqb_eq in Ta. subst v. congruence.
        -- unfold anc_tail_ok, anc_parsed in Ta. rewrite A1, Va in Ta. simpl in Ta.
           apply andb_true_iff in Ta as [Ta _]. apply andb_true_iff in Ta as [Ta _].
           apply Z.eqb_eq in Ta. subst v. reflexivity.
      * destruct Da as [Da|Da]; [|rewrite <- Ea, Da in A1; discriminate].
        assert (v ?= 0 = Gt) as -> by (apply Z.compare_gt_iff; lia). reflexivity.
    + destruct Da as [Da|Da]; [|rewrite Ea in Da; injection Da as -> _; discriminate].
      assert (v ?= 0 = Gt) as -> by (apply Z.compare_gt_iff; lia). reflexivity.
  - (* a padding, b real *)
    destruct (padlike_facts a Pa) as [Ia Va].
    destruct (tail_ok_facts b Tb) as (y & s & w & Eb & Dy & Vb & Nw & Ib & Db).
    rewrite Ia, Ib, Va, Vb. cbn [negb andb oval ocmp].
    rewrite Eb. destruct (y =? 48)%N eqn:Y.
    + destruct (bytes_eqb (y :: s) [48%N]) eqn:B1; cbn [thenc fst snd Nat.compare].
      * apply bytes_eqb_eq in B1. rewrite <- Eb in B1.
        unfold anc_tail_ok, anc_parsed in Tb. rewrite B1, Vb in Tb. simpl in Tb.
        apply andb_true_iff in Tb as [Tb _]. apply andb_true_iff in Tb as [Tb _].
        apply Z.eqb_eq in Tb. subst w. reflexivity.
      * destruct Db as [Db|Db]; [|rewrite <- Eb, Db in B1; discriminate].
        assert (0 ?= w = Lt) as -> by (apply Z.compare_lt_iff; lia). reflexivity.
    + destruct Db as [Db|Db]; [|rewrite Eb in Db; injection Db as -> _; discriminate].
      assert (0 ?= w = Lt) as -> by (apply Z.compare_lt_iff; lia). reflexivity.
  - (* both paddings *)
    destruct (padlike_facts a Pa) as [Ia Va]. destruct (padlike_facts b Pb) as [Ib Vb].
    rewrite Ia, Ib, Va, Vb. reflexivity.
Qed.

(* first position: index 0 on at least one side, numeric comparison of non-negative values *)
Definition hgood (c : anc) : bool := anc_head_ok c || is_padlike c.

Lemma hgood_facts : forall c, hgood c = true -> exists v, (an_index c =? 0) = true /\ an_value c = Some v /\ 0 <= v.
Proof.
  intros c H. unfold hgood in H. apply orb_true_iff in H as [H|H].
  - unfold anc_head_ok, anc_parsed in H. apply andb_true_iff in H as [H I]. apply andb_true_iff in H as [_ V].
    apply optZ_eqb_eq in V. eexists. repeat split; [exact I | exact V | lia].
  - destruct (padlike_facts c H) as [I V]. exists 0. repeat split; [exact I | exact V | lia].
Qed.

Lemma anc_cmp_head_pure : forall a b, hgood a = true -> hgood b = true ->
  anc_cmp a b = Ok (ckey_cmp (keyH a) (keyH b)).
Proof.
  intros a b Ha Hb.
  destruct (hgood_facts a Ha) as (v & Ia & Va & Nv). destruct (hgood_facts b Hb) as (w & Ib & Vb & Nw).
  unfold anc_cmp, keyH, ckey_cmp, lexprod, kzero. rewrite Ia, Va, Vb. cbn [negb andb oval ocmp].
  destruct (v =? 0) eqn:E1; destruct (w =? 0) eqn:E2; cbn [thenc fst snd Nat.compare].
  - apply Z.eqb_eq in E1, E2. subst. reflexivity.
  - apply Z.eqb_eq in E1. apply Z.eqb_neq in E2. subst. assert (0 ?= w = Lt) as -> by (apply Z.compare_lt_iff; lia). reflexivity.
  - apply Z.eqb_eq in E2. apply Z.eqb_neq in E1. subst. assert (v ?= 0 = Gt) as -> by (apply Z.compare_gt_iff; lia). reflexivity.
  - reflexivity.
Qed.

Definition norm (l : list anc) : list ckey :=
  match l with [] => [] | h :: t => keyH h :: map keyT t end.

Lemma tail_ok_tgood : forall l, forallb anc_tail_ok l = true -> forallb tgood l = true.
Proof.
  induction l; simpl; [reflexivity|]. intros H. apply andb_true_iff in H as [H1 H2].
  unfold tgood at 1. rewrite H1. simpl. apply IHl; exact H2.
Qed.

Lemma keyT_pad : keyT anc_pad = kzero. Proof. reflexivity. Qed.
Lemma keyH_pad : keyH anc_pad = kzero. Proof. reflexivity. Qed.

Lemma tails_pure : forall a b, forallb anc_tail_ok a = true -> forallb anc_tail_ok b = true ->
  lexpadO anc_pad anc_cmp a b = Ok (lexpad kzero ckey_cmp (map keyT a) (map keyT b)).
Proof.
  intros a b Ha Hb.
  rewrite (lexpadO_pure anc_pad anc_cmp tgood (by_key keyT ckey_cmp) anc_cmp_tail_pure eq_refl a b
             (tail_ok_tgood a Ha) (tail_ok_tgood b Hb)).
  rewrite lexpad_map, keyT_pad. reflexivity.
Qed.

Lemma comps_pure : forall a b, comps_ok a = true -> comps_ok b = true ->
  lexpadO anc_pad anc_cmp a b = Ok (lexpad kzero ckey_cmp (norm a) (norm b)).
Proof.
  intros [|x a] [|y b] Ha Hb; simpl in Ha, Hb.
  - reflexivity.
  - apply andb_true_iff in Hb as [Hy Hb].
    rewrite lexpadO_nil_cons. cbn [norm]. rewrite lexpad_nil_cons.
    rewrite (anc_cmp_head_pure anc_pad y eq_refl) by (unfold hgood; rewrite Hy; reflexivity).
    rewrite keyH_pad. rewrite (tails_pure [] b eq_refl Hb). simpl map.
    destruct (ckey_cmp kzero (keyH y)); reflexivity.
  - apply andb_true_iff in Ha as [Hx Ha].
    rewrite lexpadO_cons_nil. cbn [norm]. rewrite lexpad_cons_nil.
    rewrite (anc_cmp_head_pure x anc_pad) by (unfold hgood; try rewrite Hx; reflexivity).
    rewrite keyH_pad. rewrite (tails_pure a [] Ha eq_refl). simpl map.
    destruct (ckey_cmp (keyH x) kzero); reflexivity.
  - apply andb_true_iff in Ha as [Hx Ha]. apply andb_true_iff in Hb as [Hy Hb].
    rewrite lexpadO_cons_cons. cbn [norm]. rewrite lexpad_cons_cons.
    rewrite (anc_cmp_head_pure x y) by (unfold hgood; try rewrite Hx; try rewrite Hy; reflexivity).
    rewrite (tails_pure a b Ha Hb).
    destruct (ckey_cmp (keyH x) (keyH y)); reflexivity.
Qed.

(* ------------------------------------------------------------------ the whole comparison on the domain *)
Definition al_build_pure (v w : alpine) : comparison := by_key (fun v => oval (al_build v)) Z.compare v w.

Lemma al_remainder_cmp_as_key : forall v w,
  al_remainder_cmp v w = by_key (fun v => is_nil (al_remainder v)) bool_cmp v w.
Proof. intros v w. unfold al_remainder_cmp, by_key. destruct (al_remainder v), (al_remainder w); reflexivity. Qed.

Lemma al_remainder_cmp_tp : TotalPreorder al_remainder_cmp.
Proof. eapply tp_ext; [apply al_remainder_cmp_as_key|]. apply by_key_tp, bool_cmp_tp. Qed.

Definition cmp_alpine_pure : alpine -> alpine -> comparison :=
  lex2 (by_key (fun v => norm (al_components v)) (lexpad kzero ckey_cmp))
 (lex2 al_letter_cmp
 (lex2 (by_key (fun v => map skey (al_suffixes v)) (lexpad (skey asuffix_pad) skey_cmp))
 (lex2 al_build_pure al_remainder_cmp))).

Lemma cmp_alpine_pure_tp : TotalPreorder cmp_alpine_pure.
Proof.
  apply lex2_tp; [apply by_key_tp, lexpad_total_preorder, ckey_cmp_tp|].
  apply lex2_tp; [apply (by_key_tp al_letter), bytes_cmp_tp|].
  apply lex2_tp; [apply by_key_tp, lexpad_total_preorder, skey_cmp_tp|].
  apply lex2_tp; [apply by_key_tp, Zcompare_tp | apply al_remainder_cmp_tp].
Qed.

Lemma cmp_alpine_on_valid : forall v w, valid_alpine v = true -> valid_alpine w = true ->
  cmp_alpine v w = Ok (cmp_alpine_pure v w).
Proof.
  intros v w Hv Hw. unfold valid_alpine, alpine_rest_ok in *.
  apply andb_true_iff in Hv as [Hv Cv]. apply andb_true_iff in Hv as [Hv Bv]. apply andb_true_iff in Hv as [Iv Sv].
  apply andb_true_iff in Hw as [Hw Cw]. apply andb_true_iff in Hw as [Hw Bw]. apply andb_true_iff in Hw as [Iw Sw].
  apply negb_true_iff in Iv. unfold cmp_alpine. rewrite Iv. cbn [andb].
  unfold al_comps_cmp, al_suffixes_cmp. rewrite (comps_pure _ _ Cv Cw).
  rewrite (lexpadO_pure asuffix_pad asuffix_cmp sgood (by_key skey skey_cmp) asuffix_cmp_pure eq_refl _ _ Sv Sw).
  rewrite lexpad_map.
  unfold cmp_alpine_pure, lex2, by_key.
  destruct (lexpad kzero ckey_cmp (norm (al_components v)) (norm (al_components w))); simpl; try reflexivity.
  destruct (al_letter_cmp v w); simpl; try reflexivity.
  destruct (lexpad (skey asuffix_pad) skey_cmp (map skey (al_suffixes v)) (map skey (al_suffixes w))); simpl; try reflexivity.
  unfold al_build_cmp, al_build_pure, by_key.
  destruct (al_build v), (al_build w); try discriminate. reflexivity.
Qed.

Lemma cmp_alpine_laws_on_valid : trans_law_on valid_alpine cmp_alpine /\ eq_equiv_law_on valid_alpine cmp_alpine.
Proof. apply (laws_of_tp _ _ cmp_alpine_pure); [apply cmp_alpine_pure_tp | apply cmp_alpine_on_valid]. Qed.

Lemma cmp_alpine_total_on_valid : forall v w, valid_alpine v = true -> valid_alpine w = true -> exists c, cmp_alpine v w = Ok c.
Proof. intros v w Hv Hw. rewrite (cmp_alpine_on_valid v w Hv Hw). eexists; reflexivity. Qed.

(* ------------------------------------------------------------------ antisymmetry / reflexivity on every structure with non-empty originals *)
Definition ogood (c : anc) : bool := negb (is_nil (an_original c)).

Lemma anc_cmp_antisym_on : forall a b, ogood a = true -> ogood b = true -> anc_cmp b a = oppO (anc_cmp a b).
Proof.
  intros a b Ha Hb. unfold anc_cmp, ogood in *.
  rewrite (andb_comm (negb (an_index b =? 0))).
  destruct (negb (an_index a =? 0) && negb (an_index b =? 0)); [|apply ocmp_antisym].
  destruct (an_original a) as [|x r] eqn:Ea; [discriminate|]. destruct (an_original b) as [|y s] eqn:Eb; [discriminate|].
  destruct (x =? 48)%N, (y =? 48)%N; simpl oppO;
    try (rewrite (tp_antisym _ bytes_cmp_tp (x :: r) (y :: s)); reflexivity).
  apply ocmp_antisym.
Qed.

Lemma anc_cmp_refl_on : forall a, ogood a = true -> anc_cmp a a = Ok Eq.
Proof.
  intros a Ha. unfold anc_cmp, ogood in *.
  destruct (negb (an_index a =? 0) && negb (an_index a =? 0)); [|apply ocmp_refl].
  destruct (an_original a) as [|x r] eqn:Ea; [discriminate|].
  destruct (x =? 48)%N; [rewrite (tp_refl _ bytes_cmp_tp); reflexivity | apply ocmp_refl].
Qed.

Lemma al_build_cmp_antisym : forall v w, al_build_cmp w v = CompOpp (al_build_cmp v w).
Proof. intros v w. unfold al_build_cmp. destruct (al_build v), (al_build w); try reflexivity. apply Z.compare_antisym. Qed.

Lemma cmp_alpine_antisym : forall v w, alpine_wf v = true -> alpine_wf w = true ->
  cmp_alpine w v = oppO (cmp_alpine v w).
Proof.
  intros v w Hv Hw. unfold cmp_alpine. rewrite (andb_comm (al_invalid w)).
  destruct (al_invalid v && al_invalid w).
  - simpl. rewrite (tp_antisym _ bytes_cmp_tp (al_original v) (al_original w)). reflexivity.
  - apply thenO_opp; [apply (lexpadO_antisym_on anc_pad anc_cmp ogood eq_refl anc_cmp_antisym_on); assumption|].
    apply thenO_opp; [simpl; unfold al_letter_cmp; rewrite (tp_antisym _ bytes_cmp_tp (al_letter v) (al_letter w)); reflexivity|].
    apply thenO_opp; [apply lexpadO_antisym; apply asuffix_cmp_antisym|].
    simpl. rewrite al_build_cmp_antisym, (tp_antisym _ al_remainder_cmp_tp v w), thenc_opp. reflexivity.
Qed.

Lemma cmp_alpine_refl : forall v, alpine_wf v = true -> cmp_alpine v v = Ok Eq.
Proof.
  intros v Hv. unfold cmp_alpine. destruct (al_invalid v && al_invalid v).
  - rewrite (tp_refl _ bytes_cmp_tp). reflexivity.
  - unfold al_comps_cmp, al_suffixes_cmp.
    rewrite (lexpadO_refl_on anc_pad anc_cmp ogood eq_refl anc_cmp_refl_on _ Hv). simpl.
    unfold al_letter_cmp. rewrite (tp_refl _ bytes_cmp_tp). simpl.
    rewrite (lexpadO_refl asuffix_pad asuffix_cmp asuffix_cmp_refl). simpl.
    rewrite (tp_refl _ al_remainder_cmp_tp). unfold al_build_cmp.
    destruct (al_build v); [rewrite Z.compare_refl|]; reflexivity.
Qed.

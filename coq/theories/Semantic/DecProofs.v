(* Decimal printing is inverted by decimal parsing: big.Int.SetString(z.String(), 10) = z. *)
From Coq Require Import List ZArith NArith Bool Lia.
From Scalibr Require Import Semantic.Cmp Semantic.LexPad Semantic.Bytes.
Import ListNotations.
Open Scope N_scope.

Lemma digits_val_app : forall a c acc, digits_val (a ++ c) acc = digits_val c (digits_val a acc).
Proof. induction a; intros; simpl; [reflexivity|]. apply IHa. Qed.

Lemma is_digit_of : forall d, d < 10 -> is_digit (48 + d) = true.
Proof. intros d H. unfold is_digit. apply andb_true_iff. split; apply N.leb_le; lia. Qed.

(* dec_digits with enough fuel prepends the digits of n, most significant first *)
Lemma dec_digits_spec : forall f n acc, n < 10 ^ N.of_nat (S f) ->
  exists ds, dec_digits (S f) n acc = ds ++ acc /\ ds <> [] /\ forallb is_digit ds = true /\ digits_val ds 0 = n.
Proof.
  induction f; intros n acc H.
  - assert (n < 10) as L by (simpl in H; lia).
    exists [48 + n]. cbn [dec_digits]. destruct (N.ltb_spec n 10); [|lia].
    repeat split; [discriminate | cbn [forallb]; rewrite (is_digit_of n L); reflexivity | cbn [digits_val]; lia].
  - change (dec_digits (S (S f)) n acc) with (if n <? 10 then (48 + n) :: acc else dec_digits (S f) (n / 10) ((48 + n mod 10) :: acc)).
    destruct (N.ltb_spec n 10) as [L|L].
    + exists [48 + n]. repeat split; [discriminate | cbn [forallb]; rewrite (is_digit_of n L); reflexivity | cbn [digits_val]; lia].
    + assert (n / 10 < 10 ^ N.of_nat (S f)) as B.
      { apply (N.div_lt_upper_bound n 10 (10 ^ N.of_nat (S f))); [discriminate|]. rewrite <- N.pow_succ_r'. rewrite <- Nat2N.inj_succ. exact H. }
      destruct (IHf (n / 10) ((48 + n mod 10) :: acc) B) as (ds & E & NE & D & V).
      exists (ds ++ [48 + n mod 10]). rewrite E. rewrite <- app_assoc. repeat split.
      * destruct ds; discriminate.
      * rewrite forallb_app, D. cbn [forallb]. rewrite is_digit_of; [reflexivity | apply N.mod_lt; lia].
      * rewrite digits_val_app, V. cbn [digits_val].
        pose proof (N.div_mod' n 10) as DM. clear - DM. set (q := n / 10) in *. set (r := n mod 10) in *. clearbody q r. replace (48 + r - 48) with r by lia. lia.
Qed.

Lemma pow2_le_pow10 : forall k, 2 ^ k <= 10 ^ k.
Proof. intros k. apply N.pow_le_mono_l. lia. Qed.

Lemma N_to_dec_spec : forall n,
  N_to_dec n <> [] /\ forallb is_digit (N_to_dec n) = true /\ digits_val (N_to_dec n) 0 = n.
Proof.
  intros n. unfold N_to_dec.
  assert (n < 10 ^ N.of_nat (S (N.to_nat (N.size n)))) as B.
  { rewrite Nat2N.inj_succ, N2Nat.id, N.pow_succ_r'.
    pose proof (N.size_gt n). pose proof (pow2_le_pow10 (N.size n)).
    assert (0 < 10 ^ N.size n) by (apply N.lt_le_trans with (2 ^ N.size n); [lia | assumption]). lia. }
  destruct (dec_digits_spec _ n [] B) as (ds & E & NE & D & V).
  rewrite E, app_nil_r. auto.
Qed.

Lemma unsigned_of_N_to_dec : forall n, unsigned_of_string (N_to_dec n) = Some (Z.of_N n).
Proof.
  intros n. destruct (N_to_dec_spec n) as (NE & D & V). unfold unsigned_of_string, all_digits.
  rewrite D, V. destruct (N_to_dec n); [contradiction | reflexivity].
Qed.

Lemma N_to_dec_head_digit : forall n, exists c r, N_to_dec n = c :: r /\ is_digit c = true.
Proof.
  intros n. destruct (N_to_dec_spec n) as (NE & D & _). destruct (N_to_dec n) as [|c r]; [contradiction|].
  simpl in D. apply andb_true_iff in D as [D _]. eauto.
Qed.

(* SetString(z.String(), 10) = z *)
Theorem big_of_string_Z_to_dec : forall z, big_of_string (Z_to_dec z) = Some z.
Proof.
  intros [|p|p]; [reflexivity| |].
  - unfold Z_to_dec. pose proof (unsigned_of_N_to_dec (Npos p)) as U.
    destruct (N_to_dec_head_digit (Npos p)) as (c & r & E & D). rewrite E in *. unfold big_of_string.
    unfold is_digit in D. apply andb_true_iff in D as [D1 D2]. apply N.leb_le in D1.
    destruct (N.eqb_spec c 45); [lia|]. destruct (N.eqb_spec c 43); [lia|]. exact U.
  - unfold Z_to_dec. cbn [big_of_string]. rewrite N.eqb_refl, unsigned_of_N_to_dec. reflexivity.
Qed.

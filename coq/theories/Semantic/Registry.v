(* Which model serves which ecosystem name of semantic.Parse; used by the generated cases files. *)
From Coq Require Import List ZArith NArith Bool.
From Scalibr Require Import Semantic.Cmp Semantic.Bytes Semantic.Cases.
From Scalibr Require Import Semantic.Semver Semantic.Nuget Semantic.Cran Semantic.Rubygems Semantic.Debian Semantic.Redhat.
From Scalibr Require Import Semantic.Pypi Semantic.PypiParse Semantic.Packagist Semantic.Alpine Semantic.AlpineParse Semantic.Maven.
Import ListNotations.

Definition all_true {V} (_ : V) : bool := true.
Definition all_true3 {V} (_ _ _ : V) : bool := true.

(* npm, crates.io, Go, Hex, Pub, ConanCenter *)
Definition eco_semver : ecosys semver := {|
  ec_parse := Some parse_semver; ec_cmp := cmp_semver; ec_valid := valid_semver;
  ec_rel := all_true3;
  ec_total_dom := all_true; ec_eqb := semver_eqb |}.

Definition eco_nuget : ecosys semver := {|
  ec_parse := Some parse_nuget; ec_cmp := cmp_nuget; ec_valid := valid_nuget;
  ec_rel := all_true3;
  ec_total_dom := all_true; ec_eqb := semver_eqb |}.

Definition eco_cran : ecosys cran := {|
  ec_parse := Some parse_cran; ec_cmp := cmp_cran; ec_valid := valid_cran;
  ec_rel := all_true3;
  ec_total_dom := all_true; ec_eqb := cran_eqb |}.

Definition eco_rubygems : ecosys rubygems := {|
  ec_parse := Some parse_rubygems; ec_cmp := cmp_rubygems; ec_valid := valid_rubygems;
  ec_rel := all_true3;
  ec_total_dom := all_true; ec_eqb := rubygems_eqb |}.

(* Debian, Ubuntu *)
Definition eco_debian : ecosys debian := {|
  ec_parse := Some parse_debian; ec_cmp := cmp_debian; ec_valid := valid_debian;
  ec_rel := all_true3;
  ec_total_dom := all_true; ec_eqb := debian_eqb |}.

Definition eco_redhat : ecosys redhat := {|
  ec_parse := Some parse_redhat; ec_cmp := cmp_redhat; ec_valid := valid_redhat;
  ec_rel := all_true3;
  ec_total_dom := all_true; ec_eqb := redhat_eqb |}.

(* structure-level models: the regex front ends are not modelled, structures come from the hook *)
Definition eco_pypi : ecosys pypi := {|
  ec_parse := Some parse_pypi; ec_cmp := cmp_pypi; ec_valid := valid_pypi;
  ec_rel := all_true3;
  ec_total_dom := valid_pypi; ec_eqb := pypi_eqb |}.

(* Packagist: transitivity only claimed without '#...' qualifiers (packagist_hash_eq_not_transitive_refuted) *)
Definition eco_packagist : ecosys packagist := {|
  ec_parse := Some parse_packagist; ec_cmp := cmp_packagist; ec_valid := valid_packagist;
  ec_rel := all_true3;
  ec_total_dom := all_true; ec_eqb := packagist_eqb |}.

(* Alpine: transitivity only claimed without multi-digit zero components after the first (alpine_eq_not_transitive_refuted) *)
Definition eco_alpine : ecosys alpine := {|
  ec_parse := Some parse_alpine; ec_cmp := cmp_alpine; ec_valid := valid_alpine;
  ec_rel := all_true3;
  ec_total_dom := alpine_wf; ec_eqb := alpine_eqb |}.

(* Maven: transitivity only claimed on D = valid_maven (per version) /\ maven_rel (separators agree) *)
Definition eco_maven : ecosys maven := {|
  ec_parse := Some parse_maven; ec_cmp := cmp_maven; ec_valid := valid_maven;
  ec_rel := maven_rel;
  ec_total_dom := all_true; ec_eqb := maven_eqb |}.

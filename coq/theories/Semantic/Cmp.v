(* Three-way comparison algebra used by every ecosystem model of C07.
   Results are Coq's [comparison] (Lt = -1, Eq = 0, Gt = +1); [cmp_to_Z] gives the Go integer.
   This file has definitions AND their (small, generic) proofs: it is a library, not a model. *)
From Coq Require Import List ZArith NArith Bool Lia.
Import ListNotations.

(* ------------------------------------------------------------------ outcomes *)
(* What a Go call can do: return a value, return an error, or panic. *)
Inductive outcome (A : Type) : Type :=
| Ok (a : A)
| Err
| Panic.
Arguments Ok {A} a.
Arguments Err {A}.
Arguments Panic {A}.

Definition obind {A B} (o : outcome A) (f : A -> outcome B) : outcome B :=
  match o with Ok a => f a | Err => Err | Panic => Panic end.

Definition omap {A B} (f : A -> B) (o : outcome A) : outcome B :=
  match o with Ok a => Ok (f a) | Err => Err | Panic => Panic end.

Definition cmp_to_Z (c : comparison) : Z :=
  match c with Lt => (-1)%Z | Eq => 0%Z | Gt => 1%Z end.

Definition comparison_eqb (a b : comparison) : bool :=
  match a, b with Lt, Lt | Eq, Eq | Gt, Gt => true | _, _ => false end.

Definition outcome_cmp_eqb (a b : outcome comparison) : bool :=
  match a, b with
  | Ok x, Ok y => comparison_eqb x y
  | Err, Err => true
  | Panic, Panic => true
  | _, _ => false
  end.

(* "if diff != 0 { return diff }; <rest>" *)
Definition thenc (r1 r2 : comparison) : comparison :=
  match r1 with Eq => r2 | _ => r1 end.

(* the same when the first step may fail; the second is only evaluated after Ok Eq *)
Definition thenO (r1 : outcome comparison) (r2 : outcome comparison) : outcome comparison :=
  match r1 with Ok Eq => r2 | _ => r1 end.

(* negation of an outcome (errors and panics are symmetric) *)
Definition oppO (r : outcome comparison) : outcome comparison :=
  match r with Ok c => Ok (CompOpp c) | Err => Err | Panic => Panic end.

Definition leO (r : outcome comparison) : bool :=
  match r with Ok Lt | Ok Eq => true | _ => false end.

(* ------------------------------------------------------------------ total preorders *)
Record TotalPreorder {A : Type} (c : A -> A -> comparison) : Prop := {
  tp_refl : forall x, c x x = Eq;
  tp_antisym : forall x y, c y x = CompOpp (c x y);
  tp_trans_le : forall x y z, c x y <> Gt -> c y z <> Gt -> c x z <> Gt
}.

Section Derived.
  Context {A : Type} (c : A -> A -> comparison) (TP : TotalPreorder c).

  Lemma tp_eq_sym : forall x y, c x y = Eq -> c y x = Eq.
  Proof. intros x y H. rewrite (tp_antisym c TP x y), H. reflexivity. Qed.

  Lemma tp_gt_lt : forall x y, c x y = Gt -> c y x = Lt.
  Proof. intros x y H. rewrite (tp_antisym c TP x y), H. reflexivity. Qed.

  Lemma tp_lt_gt : forall x y, c x y = Lt -> c y x = Gt.
  Proof. intros x y H. rewrite (tp_antisym c TP x y), H. reflexivity. Qed.

  (* equal elements are interchangeable on the left ... *)
  Lemma tp_eq_compat_l : forall x y z, c x y = Eq -> c x z = c y z.
  Proof.
    intros x y z H.
    pose proof (tp_eq_sym x y H) as H'.
    destruct (c x z) eqn:E1, (c y z) eqn:E2; try reflexivity; exfalso.
    - (* x=z, y<z : z<=x, x<=y -> z<=y, but z>y *)
      apply (tp_trans_le c TP z x y); [rewrite (tp_eq_sym _ _ E1); discriminate | rewrite H; discriminate | apply tp_lt_gt; exact E2].
    - apply (tp_trans_le c TP y x z); [rewrite H'; discriminate | rewrite E1; discriminate | exact E2].
    - apply (tp_trans_le c TP z y x); [rewrite (tp_eq_sym _ _ E2); discriminate | rewrite H'; discriminate | apply tp_lt_gt; exact E1].
    - apply (tp_trans_le c TP y x z); [rewrite H'; discriminate | rewrite E1; discriminate | exact E2].
    - apply (tp_trans_le c TP x y z); [rewrite H; discriminate | rewrite E2; discriminate | exact E1].
    - apply (tp_trans_le c TP x y z); [rewrite H; discriminate | rewrite E2; discriminate | exact E1].
  Qed.

  (* ... and on the right *)
  Lemma tp_eq_compat_r : forall x y z, c x y = Eq -> c z x = c z y.
  Proof.
    intros x y z H. rewrite (tp_antisym c TP x z), (tp_antisym c TP y z).
    f_equal. apply tp_eq_compat_l. exact H.
  Qed.

  Lemma tp_eq_trans : forall x y z, c x y = Eq -> c y z = Eq -> c x z = Eq.
  Proof. intros x y z H1 H2. rewrite (tp_eq_compat_l x y z H1). exact H2. Qed.

  Lemma tp_lt_trans : forall x y z, c x y = Lt -> c y z = Lt -> c x z = Lt.
  Proof.
    intros x y z H1 H2.
    destruct (c x z) eqn:E; [exfalso | reflexivity | exfalso].
    - (* x = z: then c z y = c x y = Lt, but c z y = Gt *)
      pose proof (tp_eq_compat_l x z y E) as K. rewrite H1 in K.
      rewrite (tp_lt_gt y z H2) in K. discriminate.
    - apply (tp_trans_le c TP x y z); [rewrite H1; discriminate | rewrite H2; discriminate | exact E].
  Qed.

  Lemma tp_lt_le_trans : forall x y z, c x y = Lt -> c y z <> Gt -> c x z = Lt.
  Proof.
    intros x y z H1 H2. destruct (c y z) eqn:E.
    - rewrite <- (tp_eq_compat_r y z x E). exact H1.
    - eapply tp_lt_trans; eauto.
    - congruence.
  Qed.

  Lemma tp_le_lt_trans : forall x y z, c x y <> Gt -> c y z = Lt -> c x z = Lt.
  Proof.
    intros x y z H1 H2. destruct (c x y) eqn:E.
    - rewrite (tp_eq_compat_l x y z E). exact H2.
    - eapply tp_lt_trans; eauto.
    - congruence.
  Qed.
End Derived.

(* A convenient way to establish a TotalPreorder: refl, antisym, and the three "strict" facts. *)
Lemma TotalPreorder_intro {A} (c : A -> A -> comparison) :
  (forall x, c x x = Eq) ->
  (forall x y, c y x = CompOpp (c x y)) ->
  (forall x y z, c x y = Eq -> c x z = c y z) ->
  (forall x y z, c x y = Lt -> c y z = Lt -> c x z = Lt) ->
  TotalPreorder c.
Proof.
  intros R AS EC LT. constructor; auto.
  intros x y z H1 H2 H3.
  destruct (c x y) eqn:E1; [| | congruence].
  - rewrite (EC x y z E1) in H3. congruence.
  - destruct (c y z) eqn:E2; [| | congruence].
    + assert (c z y = Eq) as E2' by (rewrite (AS y z), E2; reflexivity).
      assert (c z x = Gt) as K by (rewrite (EC z y x E2'), (AS x y), E1; reflexivity).
      rewrite (AS z x), K in H3. discriminate.
    + rewrite (LT x y z E1 E2) in H3. discriminate.
Qed.

(* ------------------------------------------------------------------ constructions *)
(* order induced by a key *)
Definition by_key {A B} (f : A -> B) (c : B -> B -> comparison) (x y : A) : comparison := c (f x) (f y).

Lemma by_key_tp {A B} (f : A -> B) c : TotalPreorder c -> TotalPreorder (by_key f c).
Proof.
  intros TP. unfold by_key. constructor; intros.
  - apply (tp_refl c TP).
  - apply (tp_antisym c TP).
  - eapply (tp_trans_le c TP); eauto.
Qed.

(* sequential composition on the same carrier: first c1, on a tie c2 *)
Definition lex2 {A} (c1 c2 : A -> A -> comparison) (x y : A) : comparison := thenc (c1 x y) (c2 x y).

Lemma lex2_tp {A} (c1 c2 : A -> A -> comparison) :
  TotalPreorder c1 -> TotalPreorder c2 -> TotalPreorder (lex2 c1 c2).
Proof.
  intros T1 T2. apply TotalPreorder_intro; unfold lex2, thenc.
  - intros x. rewrite (tp_refl c1 T1). apply (tp_refl c2 T2).
  - intros x y. rewrite (tp_antisym c1 T1 x y), (tp_antisym c2 T2 x y).
    destruct (c1 x y); reflexivity.
  - intros x y z H. destruct (c1 x y) eqn:E1; try discriminate.
    rewrite (tp_eq_compat_l c1 T1 x y z E1). destruct (c1 y z); try reflexivity.
    apply (tp_eq_compat_l c2 T2); exact H.
  - intros x y z H1 H2.
    destruct (c1 x y) eqn:E1; try discriminate.
    + rewrite (tp_eq_compat_l c1 T1 x y z E1).
      destruct (c1 y z) eqn:E2; try discriminate; try reflexivity.
      apply (tp_lt_trans c2 T2 x y z); assumption.
    + destruct (c1 y z) eqn:E2; try discriminate.
      * rewrite <- (tp_eq_compat_r c1 T1 y z x E2), E1. reflexivity.
      * rewrite (tp_lt_trans c1 T1 x y z E1 E2). reflexivity.
Qed.

(* lexicographic product *)
Definition lexprod {A B} (c1 : A -> A -> comparison) (c2 : B -> B -> comparison) (p q : A * B) : comparison :=
  thenc (c1 (fst p) (fst q)) (c2 (snd p) (snd q)).

Lemma lexprod_tp {A B} (c1 : A -> A -> comparison) (c2 : B -> B -> comparison) :
  TotalPreorder c1 -> TotalPreorder c2 -> TotalPreorder (lexprod c1 c2).
Proof.
  intros T1 T2.
  change (lexprod c1 c2) with (lex2 (by_key (@fst A B) c1) (by_key (@snd A B) c2)).
  apply lex2_tp; apply by_key_tp; assumption.
Qed.

(* ------------------------------------------------------------------ base orders *)
Lemma Zcompare_tp : TotalPreorder Z.compare.
Proof.
  constructor; intros.
  - apply Z.compare_refl.
  - apply Z.compare_antisym.
  - rewrite Z.compare_gt_iff in *. lia.
Qed.

Lemma Ncompare_tp : TotalPreorder N.compare.
Proof.
  constructor; intros.
  - apply N.compare_refl.
  - apply N.compare_antisym.
  - rewrite N.compare_gt_iff in *. lia.
Qed.

Lemma Natcompare_tp : TotalPreorder Nat.compare.
Proof.
  constructor; intros.
  - apply Nat.compare_refl.
  - apply Nat.compare_antisym.
  - rewrite Nat.compare_gt_iff in *. lia.
Qed.

Definition bool_cmp (a b : bool) : comparison :=
  match a, b with false, true => Lt | true, false => Gt | _, _ => Eq end.
Lemma bool_cmp_tp : TotalPreorder bool_cmp.
Proof.
  constructor; intros.
  - destruct x; reflexivity.
  - destruct x, y; reflexivity.
  - destruct x, y, z; simpl in *; congruence.
Qed.

(* the constant comparator (fields that are ignored) *)
Lemma const_eq_tp {A} : TotalPreorder (fun _ _ : A => Eq).
Proof. constructor; intros; simpl; congruence. Qed.

(* ------------------------------------------------------------------ the three laws, on outcomes *)
(* used to state the per-ecosystem theorems uniformly *)
Definition antisym_law {A} (c : A -> A -> outcome comparison) : Prop :=
  forall x y, c y x = oppO (c x y).
Definition refl_law_on {A} (ok : A -> bool) (c : A -> A -> outcome comparison) : Prop :=
  forall x, ok x = true -> c x x = Ok Eq.
Definition trans_law_on {A} (valid : A -> bool) (c : A -> A -> outcome comparison) : Prop :=
  forall x y z, valid x = true -> valid y = true -> valid z = true ->
    leO (c x y) = true -> leO (c y z) = true -> leO (c x z) = true.
Definition eq_equiv_law_on {A} (valid : A -> bool) (c : A -> A -> outcome comparison) : Prop :=
  forall x y z, valid x = true -> valid y = true -> valid z = true ->
    c x y = Ok Eq -> c x z = c y z.

(* from a pure total preorder to the laws *)
Lemma laws_of_tp {A} (valid : A -> bool) (co : A -> A -> outcome comparison) (c : A -> A -> comparison) :
  TotalPreorder c ->
  (forall x y, valid x = true -> valid y = true -> co x y = Ok (c x y)) ->
  trans_law_on valid co /\ eq_equiv_law_on valid co.
Proof.
  intros TP H. split.
  - intros x y z vx vy vz. rewrite (H x y vx vy), (H y z vy vz), (H x z vx vz).
    unfold leO. intros H1 H2.
    pose proof (tp_trans_le c TP x y z) as T.
    destruct (c x y); try discriminate; destruct (c y z); try discriminate;
      destruct (c x z); try reflexivity; exfalso; apply T; first [discriminate | reflexivity].
  - intros x y z vx vy vz. rewrite (H x y vx vy), (H y z vy vz), (H x z vx vz).
    intros E. assert (c x y = Eq) as E' by congruence. f_equal. apply (tp_eq_compat_l c TP); exact E'.
Qed.

(* Model of semantic/version-maven.go. No proofs here. *)
From Coq Require Import List ZArith NArith Bool.
From Scalibr Require Import Semantic.Cmp Semantic.LexPad Semantic.Bytes Semantic.Generated_Tables.
Import ListNotations.
Open Scope N_scope.

(* Keyword order, alias rewrites, null values: taken from Generated_Tables.v, which harness/cmd/semtables
   regenerates from version-maven.go on every run. *)

(* type mavenVersionToken struct { prefix string; value string; isNull bool } *)
Record mtok := { mt_prefix : bytes; mt_value : bytes; mt_null : bool }.
(* type mavenVersion struct { tokens []mavenVersionToken } *)
Record maven := { mv_tokens : list mtok }.

Definition s_dot : bytes := [46].
Definition s_dash : bytes := [45].
Definition s_zero : bytes := [48].
Definition s_sp : bytes := [115; 112].

(* ------------------------------------------------------------------ tokeniser (newMavenVersion) *)
(* splitCharsInclusive(str, "-."): (preceding separator, raw token) pairs; cur is reversed *)
Fixpoint raw_split (s : bytes) (pfx : bytes) (cur : bytes) : list (bytes * bytes) :=
  match s with
  | [] => [(pfx, rev cur)]
  | c :: r => if (c =? 45) || (c =? 46) then (pfx, rev cur) :: raw_split r [c] [] else raw_split r pfx (c :: cur)
  end.

Definition rune_is_digit (r : bytes * N * bool) : bool :=
  match fst (fst r) with [c] => is_digit c | _ => false end.

(* mavenFindTransitions + slicing.  The regexes \D\d and \d\D see runes; a transition is recorded
   at (start of the match)+1, i.e. after a digit, or ONE BYTE into a non-digit rune that precedes a
   digit (a multi-byte rune is cut after its first byte).
   cur: bytes of the current piece before the last rune; prev: the last rune and whether it is a digit *)
Fixpoint trans_split (rs : list (bytes * N * bool)) (cur : bytes) (prev : option (bytes * bool)) : list bytes :=
  match rs with
  | [] => [cur ++ match prev with Some (pb, _) => pb | None => [] end]
  | r :: rest =>
    let bs := fst (fst r) in
    let d := rune_is_digit r in
    match prev with
    | None => trans_split rest cur (Some (bs, d))
    | Some (pb, pd) =>
      if pd && negb d then (cur ++ pb) :: trans_split rest [] (Some (bs, d))
      else if negb pd && d then (cur ++ firstn 1 pb) :: trans_split rest (skipn 1 pb) (Some (bs, d))
      else trans_split rest (cur ++ pb) (Some (bs, d))
    end
  end.

Definition pieces (raw : bytes) : list bytes := trans_split (runes raw) [] None.

Definition str_in (s : bytes) (l : list bytes) : bool := existsb (bytes_eqb s) l.

(* spelling table lookup: the value the implementation gives this (lower-cased) piece, or the piece itself *)
Fixpoint spelling (tbl : list (bytes * bytes)) (c : bytes) : option bytes :=
  match tbl with
  | [] => None
  | (f, t) :: r => if bytes_eqb f c then Some t else spelling r c
  end.

(* normalisation of one piece; [last] = it is the last piece of its raw token.
   gen_maven_aliases (probed at the end of a part): "" -> "0", cr -> rc, ga / final / release -> "";
   gen_maven_aliases_before_digit (probed directly before a digit): a -> alpha, b -> beta, m -> milestone *)
Definition norm_piece (p : bytes) (last : bool) : bytes :=
  let q := to_lower p in
  let at_end := match spelling gen_maven_aliases q with Some v => v | None => q end in
  let c := if last then at_end
           else match spelling gen_maven_aliases_before_digit q with Some v => v | None => at_end end in
  match big_of_string c with Some z => Z_to_dec z | None => c end.

Fixpoint toks_of_pieces (pfx : bytes) (ps : list bytes) : list mtok :=
  match ps with
  | [] => []
  | p :: r => {| mt_prefix := pfx; mt_value := norm_piece p (is_nil r); mt_null := false |} :: toks_of_pieces s_dash r
  end.

Definition tokenise (s : bytes) : list mtok :=
  flat_map (fun pr : bytes * bytes => toks_of_pieces (fst pr) (pieces (snd pr))) (raw_split s [] []).

(* shouldTrim *)
Definition should_trim (t : mtok) : bool := str_in (mt_value t) gen_maven_should_trim.

Definition dummy_tok : mtok := {| mt_prefix := []; mt_value := []; mt_null := false |}.

Fixpoint remove_at {A} (i : nat) (l : list A) : list A :=
  match i, l with
  | _, [] => []
  | O, _ :: r => r
  | S i', x :: r => x :: remove_at i' r
  end.

(* for i >= 0 && tokens[i].prefix != "-" { i-- }: the largest j <= i whose prefix is "-" *)
Fixpoint skip_left (toks : list mtok) (i : nat) : option nat :=
  if bytes_eqb (mt_prefix (nth i toks dummy_tok)) s_dash then Some i
  else match i with O => None | S i' => skip_left toks i' end.

(* the trimming loop: for i > 0 { if shouldTrim { remove; i--; continue }; skip to the hyphen; i-- } *)
Fixpoint trim_loop (fuel : nat) (toks : list mtok) (i : nat) : list mtok :=
  match fuel with
  | O => toks
  | S f =>
    match i with
    | O => toks
    | S i' =>
      if should_trim (nth i toks dummy_tok) then trim_loop f (remove_at i toks) i'
      else match skip_left toks i with
           | Some (S j') => trim_loop f toks j'
           | _ => toks
           end
    end
  end.

Definition parse_maven (s : bytes) : outcome maven :=
  let toks := tokenise s in
  Ok {| mv_tokens := trim_loop (length toks) toks (length toks - 1) |}.

(* ------------------------------------------------------------------ comparison *)
Definition kw_alpha : bytes := [97; 108; 112; 104; 97].
Definition kw_beta : bytes := [98; 101; 116; 97].
Definition kw_milestone : bytes := [109; 105; 108; 101; 115; 116; 111; 110; 101].
Definition kw_rc : bytes := [114; 99].
Definition kw_snapshot : bytes := [115; 110; 97; 112; 115; 104; 111; 116].
(* var keywordOrder: the generated table (the constants above are only used to STATE lemmas about it) *)
Definition keyword_order : list bytes := gen_maven_keyword_order.

Fixpoint find_idx (k : bytes) (l : list bytes) (i : nat) : nat :=
  match l with [] => i | x :: r => if bytes_eqb x k then i else find_idx k r (S i) end.
Definition kw_idx (k : bytes) : nat := find_idx k keyword_order 0.      (* findKeywordOrder; unknown = 7 *)

Definition tok_equal (x y : mtok) : bool :=
  bytes_eqb (mt_prefix x) (mt_prefix y) && bytes_eqb (mt_value x) (mt_value y).

(* qualifierOrder: ".qualifier" 0 < "-qualifier" 1 < "-number" 2 < ".number" 3; other prefixes: error *)
Definition qual_order (t : mtok) : outcome nat :=
  let num := is_some (big_of_string (mt_value t)) in
  if bytes_eqb (mt_prefix t) s_dash then Ok (if num then 2 else 1)%nat
  else if bytes_eqb (mt_prefix t) s_dot then Ok (if num then 3 else 0)%nat
  else Err.

Definition bytes_ltb (a b : bytes) : bool := match bytes_cmp a b with Lt => true | _ => false end.

(* mavenVersionToken.lessThan *)
Definition tok_lt (x y : mtok) : outcome bool :=
  if bytes_eqb (mt_prefix x) (mt_prefix y) then
    match big_of_string (mt_value x), big_of_string (mt_value y) with
    | Some a, Some c => Ok (Z.ltb a c)
    | vx, vy =>
      if is_some vx && negb (mt_null x) then Ok false
      else if is_some vy && negb (mt_null y) then Ok true
      else let l := kw_idx (mt_value x) in
           let r := kw_idx (mt_value y) in
           if Nat.eqb l 7 && Nat.eqb r 7 then Ok (bytes_ltb (mt_value x) (mt_value y))
           else Ok (Nat.ltb l r)
    end
  else obind (qual_order x) (fun vo => obind (qual_order y) (fun wo => Ok (Nat.ltb vo wo))).

(* newMavenNullVersionToken *)
Definition null_of (t : mtok) : outcome mtok :=
  if bytes_eqb (mt_prefix t) s_dot
  then Ok {| mt_prefix := s_dot; mt_value := if str_in (mt_value t) gen_maven_empty_dot_padding_for then [] else s_zero; mt_null := true |}
  else if bytes_eqb (mt_prefix t) s_dash then Ok {| mt_prefix := s_dash; mt_value := []; mt_null := true |}
  else Err.

(* mavenVersion.lessThan: n = max(len, len) iterations *)
Fixpoint lt_loop (n : nat) (a b : list mtok) : outcome bool :=
  match n with
  | O => Ok false
  | S n' =>
    let step (l r : mtok) := if tok_equal l r then lt_loop n' (tl a) (tl b) else tok_lt l r in
    match a, b with
    | [], [] => Ok false
    | x :: _, [] => obind (null_of x) (fun r => step x r)
    | [], y :: _ => obind (null_of y) (fun l => step l y)
    | x :: _, y :: _ => step x y
    end
  end.

Definition mv_equal (a b : list mtok) : bool := list_eqb tok_equal a b.

(* mavenVersion.compare *)
Definition cmp_maven (v w : maven) : outcome comparison :=
  let a := mv_tokens v in
  let b := mv_tokens w in
  if mv_equal a b then Ok Eq
  else match lt_loop (Nat.max (length a) (length b)) a b with
       | Ok true => Ok Lt
       | Ok false => Ok Gt
       | Err => Err
       | Panic => Panic
       end.

Definition compare_str_maven (a b : bytes) : outcome comparison :=
  obind (parse_maven a) (fun v => obind (parse_maven b) (fun w => cmp_maven v w)).

Definition mtok_eqb (x y : mtok) : bool := tok_equal x y && Bool.eqb (mt_null x) (mt_null y).
Definition maven_eqb (v w : maven) : bool := list_eqb mtok_eqb (mv_tokens v) (mv_tokens w).

(* ------------------------------------------------------------------ domains *)
(* a token as the tokeniser builds it: not null; a numeric value is in canonical decimal form
   (convertToBigInt(...).String()) *)
Definition canon_value (s : bytes) : bool :=
  match big_of_string s with
  | Some z => bytes_eqb s (Z_to_dec z)
  | None => true
  end.
Definition tok_wf (t : mtok) : bool := negb (mt_null t) && canon_value (mt_value t).

(* first token without prefix, the others with '.' or '-'; after trimming, the last token of a
   version with several tokens is not a null value *)
Definition rest_prefix_ok (t : mtok) : bool := bytes_eqb (mt_prefix t) s_dot || bytes_eqb (mt_prefix t) s_dash.
Definition last_ok (t : list mtok) : bool :=
  match rev t with [] => true | l :: _ => negb (should_trim l) end.
Definition maven_wf (v : maven) : bool :=
  match mv_tokens v with
  | [] => false
  | h :: t => is_nil (mt_prefix h) && forallb rest_prefix_ok t && forallb tok_wf (h :: t) && last_ok t
  end.

(* D, part 1 (per version): a '.'-prefixed qualifier is one of alpha beta milestone rc snapshot ""
   (not "sp", not an unknown word): those sort above an absent token while a '.'-prefixed 0 --
   which equals an absent token -- sorts above every qualifier *)
Definition dot_qual_ok (t : mtok) : bool :=
  negb (bytes_eqb (mt_prefix t) s_dot) || is_some (big_of_string (mt_value t)) || Nat.ltb (kw_idx (mt_value t)) 6.
(* numbers are not negative (the tokeniser never builds "-5": '-' is a separator) *)
Definition num_nonneg (t : mtok) : bool :=
  match big_of_string (mt_value t) with Some z => (0 <=? z)%Z | None => true end.
Definition valid_maven (v : maven) : bool :=
  maven_wf v && forallb (fun t => dot_qual_ok t && num_nonneg t) (mv_tokens v).

(* D, part 2 (relating the versions compared): wherever both have a token, the separators agree *)
Fixpoint compat (a b : list mtok) : bool :=
  match a, b with
  | x :: a', y :: b' => bytes_eqb (mt_prefix x) (mt_prefix y) && compat a' b'
  | _, _ => true
  end.
Definition maven_rel (u v w : maven) : bool :=
  compat (mv_tokens u) (mv_tokens v) && compat (mv_tokens v) (mv_tokens w) && compat (mv_tokens u) (mv_tokens w).

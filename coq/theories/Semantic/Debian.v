(* Model of semantic/version-debian.go (ecosystems Debian and Ubuntu). No proofs here.
   compareDebianVersions is an interleaved loop over both strings; each iteration removes from each
   string its leading non-digit run and then its leading digit run, independently of the other
   string.  The model tokenises each side into (non-digit run as character weights, number) pairs and
   compares the token lists with padding ("" , 0) -- the same function in a form that can be reasoned
   about; the correspondence checks the equivalence on every run. *)
From Coq Require Import List ZArith NArith Bool.
From Scalibr Require Import Semantic.Cmp Semantic.LexPad Semantic.Bytes Semantic.Generated_Tables.
Import ListNotations.
Open Scope N_scope.

(* type debianVersion struct { epoch *big.Int; upstream string; revision string } *)
Record debian := { db_epoch : option Z; db_upstream : bytes; db_revision : bytes }.

(* weighDebianChar applied to one element of strings.Split(prefix, "") (one UTF-8 sequence or one
   invalid byte): the weight depends on the FIRST byte only ("~" is the single byte 126); the weights
   are the generated table of ranks, obtained by probing the implementation with every byte
   ('~' < end of run < letters < everything else) *)
Definition deb_weight (chunk : bytes) : Z :=
  match chunk with
  | [] => gen_debian_empty_weight
  | c :: _ => nth (N.to_nat c) gen_debian_byte_weights 0%Z
  end.

Definition deb_weights (p : bytes) : list Z := map (fun r : bytes * N * bool => deb_weight (fst (fst r))) (runes p).

Definition deb_token := (list Z * Z)%type.

(* one loop iteration per token: splitDebianNonDigitPrefix then splitDebianDigitPrefix *)
Fixpoint deb_tokens (fuel : nat) (s : bytes) : list deb_token :=
  match fuel with
  | O => []
  | S f =>
    match s with
    | [] => []
    | _ => let (p, s1) := span (fun c => negb (is_digit c)) s in
           let (d, s2) := span is_digit s1 in
           (deb_weights p, Z.of_N (digits_val d 0)) :: deb_tokens f s2
    end
  end.

Definition deb_tokenise (s : bytes) : list deb_token := deb_tokens (length s) s.

(* per token: weights padded with the weight of "" (2), then the numbers *)
Definition deb_tok_cmp : deb_token -> deb_token -> comparison :=
  lexprod (lexpad gen_debian_empty_weight Z.compare) Z.compare.

(* compareDebianVersions *)
Definition deb_str_cmp (a b : bytes) : comparison :=
  lexpad ([], 0%Z) deb_tok_cmp (deb_tokenise a) (deb_tokenise b).

(* debianVersion.compare *)
Definition cmp_debian (v w : debian) : outcome comparison :=
  thenO (ocmp (db_epoch v) (db_epoch w))
        (Ok (thenc (deb_str_cmp (db_upstream v) (db_upstream w))
                   (deb_str_cmp (db_revision v) (db_revision w)))).

(* splitAround(s, sep, reverse=true): around the LAST occurrence *)
Fixpoint cut_last (sep : N) (s : bytes) : option (bytes * bytes) :=
  match s with
  | [] => None
  | c :: r => match cut_last sep r with
              | Some (b, a) => Some (c :: b, a)
              | None => if c =? sep then Some ([], r) else None
              end
  end.

(* parseDebianVersion *)
Definition parse_debian (s : bytes) : outcome debian :=
  let s := trim_space s in
  let ep_rest :=
    match cut_on 58 s with
    | (e, rest, true) => match big_of_string e with Some z => Ok (Some z, rest) | None => Err end
    | (_, _, false) => Ok (Some 0%Z, s)
    end in
  obind ep_rest (fun er =>
    let (ep, rest) := er : option Z * bytes in
    match cut_last 45 rest with
    | Some (u, r) => Ok {| db_epoch := ep; db_upstream := u; db_revision := r |}
    | None => Ok {| db_epoch := ep; db_upstream := rest; db_revision := [48] |}
    end).

Definition compare_str_debian (a b : bytes) : outcome comparison :=
  obind (parse_debian a) (fun v => obind (parse_debian b) (fun w => cmp_debian v w)).

Definition valid_debian (v : debian) : bool := is_some (db_epoch v).

Definition debian_eqb (v w : debian) : bool :=
  optZ_eqb (db_epoch v) (db_epoch w) && bytes_eqb (db_upstream v) (db_upstream w) && bytes_eqb (db_revision v) (db_revision w).

(* ------------------------------------------------------------------ the interleaved Go loop, literally *)
(* compareDebianVersions as written: both strings are consumed in lock step.
     for { if a == "" && b == "" { break }
           ap, a = splitDebianNonDigitPrefix(a); bp, b = splitDebianNonDigitPrefix(b)
           if ap != bp { for i := range max(len(ap), len(bp)) { weights of the i-th elements of Split(ap, "") / Split(bp, "")
                                                                (default ""), return on the first difference } }
           adp, a = splitDebianDigitPrefix(a); bdp, b = splitDebianDigitPrefix(b)
           if diff := adp.Cmp(bdp); diff != 0 { return diff } }
   DebianLoopProofs.v proves that this equals [deb_str_cmp] (tokenise each side, then compare). *)
Fixpoint deb_loop (fuel : nat) (a b : bytes) : comparison :=
  match fuel with
  | O => Eq
  | S f =>
    if is_nil a && is_nil b then Eq
    else
      let (ap, a1) := span (fun c => negb (is_digit c)) a in
      let (bp, b1) := span (fun c => negb (is_digit c)) b in
      match (if bytes_eqb ap bp then Eq
             else lexn gen_debian_empty_weight Z.compare (Nat.max (length ap) (length bp)) (deb_weights ap) (deb_weights bp)) with
      | Eq =>
        let (ad, a2) := span is_digit a1 in
        let (bd, b2) := span is_digit b1 in
        match Z.compare (Z.of_N (digits_val ad 0)) (Z.of_N (digits_val bd 0)) with
        | Eq => deb_loop f a2 b2
        | c => c
        end
      | c => c
      end
  end.

Definition deb_loop_cmp (a b : bytes) : comparison := deb_loop (S (length a + length b)) a b.

(* C07 cases-file protocol: how the generated file (inputs + what the implementation returned) is
   evaluated by vm_compute.  Executable definitions only.

   Per ecosystem the harness emits
     tbl   : list (sitem V)        every string used, with the parsed structure the implementation
                                   produced (through the hook semantic.VerifParse)
     mat   : list (list oc)        observed Parse(s_i).CompareStr(s_j) for the first [pool] strings
     pairs : list pcase            further pairs (i, j, observed i-vs-j, observed j-vs-i)
   and this file computes
     correspondence  parse model = hook structure; compare model = observed (matrix and pairs)
     oracle (spec)   on the OBSERVED results only: never Panic (on the claimed domain), reflexive,
                     antisymmetric, transitive + equality a congruence on triples of the pool that lie
                     in the claimed domain (valid /\ D, evaluated on the structure). *)
From Coq Require Import List ZArith NArith Bool Arith.
From Scalibr Require Import Semantic.Cmp Semantic.Bytes.
Import ListNotations.

Definition oc := outcome comparison.

Record ecosys (V : Type) := {
  ec_parse : option (bytes -> outcome V);   (* None: regex front end not modelled, structures come from the hook *)
  ec_cmp : V -> V -> oc;
  ec_valid : V -> bool;                     (* domain on which transitivity / equality-equivalence is claimed ... *)
  ec_rel : V -> V -> V -> bool;             (* ... with this additional condition relating the three versions (Maven) *)
  ec_total_dom : V -> bool;                 (* domain on which "never panics" is claimed *)
  ec_eqb : V -> V -> bool }.
Arguments ec_parse {V}. Arguments ec_cmp {V}. Arguments ec_valid {V}. Arguments ec_rel {V}.
Arguments ec_total_dom {V}. Arguments ec_eqb {V}.

Record sitem (V : Type) := {
  si_str : bytes;
  si_hook : outcome V;        (* what the implementation's parser produced *)
  si_modelled : bool }.       (* false: outside the modelled alphabet (non-ASCII case mapping); correspondence skipped *)
Arguments si_str {V}. Arguments si_hook {V}. Arguments si_modelled {V}.

Record pcase := { pc_i : nat; pc_j : nat; pc_ij : oc; pc_ji : oc }.

(* canonical-rule case: the expected result is stored in the case; it was fixed by the harness when it CONSTRUCTED
   the two strings from the ecosystem's published ordering rules (it never comes from the model) *)
Record rcase := { rc_i : nat; rc_j : nat; rc_expect : comparison; rc_ij : oc; rc_ji : oc }.

(* declarative: the implementation must answer the published sign, and its negation the other way round *)
Definition rule_ok (r : rcase) : bool :=
  outcome_cmp_eqb (rc_ij r) (Ok (rc_expect r)) && outcome_cmp_eqb (rc_ji r) (Ok (CompOpp (rc_expect r))).

Fixpoint rules_bad (l : list rcase) (i : nat) : list nat :=
  match l with
  | [] => []
  | r :: t => if rule_ok r then rules_bad t (S i) else i :: rules_bad t (S i)
  end.
Definition spec_rules (l : list rcase) : list nat := rules_bad l 0.

Definition outcome_eqb {V} (e : V -> V -> bool) (a b : outcome V) : bool :=
  match a, b with
  | Ok x, Ok y => e x y
  | Err, Err => true
  | Panic, Panic => true
  | _, _ => false
  end.

Section Run.
  Context {V : Type} (E : ecosys V).

  (* the structure the model works on *)
  Definition model_struct (it : sitem V) : outcome V :=
    match ec_parse E with
    | Some p => if si_modelled it then p (si_str it) else si_hook it
    | None => si_hook it
    end.

  Definition cmp_o (a b : outcome V) : oc := obind a (fun v => obind b (fun w => ec_cmp E v w)).

  Definition on_struct (f : V -> bool) (o : outcome V) : bool :=
    match o with Ok v => f v | _ => false end.

  Fixpoint bad_idx {A} (f : A -> bool) (l : list A) (i : nat) : list nat :=
    match l with
    | [] => []
    | x :: r => if f x then bad_idx f r (S i) else i :: bad_idx f r (S i)
    end.

  (* ---- correspondence *)
  Definition parse_ok (it : sitem V) : bool :=
    match ec_parse E with
    | Some p => negb (si_modelled it) || outcome_eqb (ec_eqb E) (p (si_str it)) (si_hook it)
    | None => true
    end.

  Definition corr_parse (tbl : list (sitem V)) : list nat := bad_idx parse_ok tbl 0.

  Definition ms_tbl (tbl : list (sitem V)) : list (outcome V * bool) :=
    map (fun it => (model_struct it, si_modelled it)) tbl.

  Definition dummy : outcome V * bool := (Err, false).

  Definition cell_corr_ok (a b : outcome V * bool) (o : oc) : bool :=
    negb (snd a) || negb (snd b) || outcome_cmp_eqb (cmp_o (fst a) (fst b)) o.

  Fixpoint row_corr_bad (i j : nat) (a : outcome V * bool) (ms : list (outcome V * bool)) (row : list oc) : list (nat * nat) :=
    match ms, row with
    | b :: mr, o :: rr => if cell_corr_ok a b o then row_corr_bad i (S j) a mr rr else (i, j) :: row_corr_bad i (S j) a mr rr
    | _, _ => []
    end.

  Fixpoint rows_corr_bad (i : nat) (ms_rest ms : list (outcome V * bool)) (mat : list (list oc)) : list (nat * nat) :=
    match ms_rest, mat with
    | a :: ar, row :: rr => row_corr_bad i 0 a ms row ++ rows_corr_bad (S i) ar ms rr
    | _, _ => []
    end.

  (* cells (i, j) of the matrix where the model's result differs from the observed one *)
  Definition corr_matrix (ms : list (outcome V * bool)) (mat : list (list oc)) : list (nat * nat) :=
    rows_corr_bad 0 ms ms mat.

  Definition pair_ok (ms : list (outcome V * bool)) (p : pcase) : bool :=
    let a := nth (pc_i p) ms dummy in
    let b := nth (pc_j p) ms dummy in
    negb (snd a) || negb (snd b) ||
    (outcome_cmp_eqb (cmp_o (fst a) (fst b)) (pc_ij p) && outcome_cmp_eqb (cmp_o (fst b) (fst a)) (pc_ji p)).

  Definition corr_pairs (ms : list (outcome V * bool)) (ps : list pcase) : list nat := bad_idx (pair_ok ms) ps 0.

  (* ---- oracle on observed results *)
  Definition not_panic (o : oc) : bool := match o with Panic => false | _ => true end.

  (* structures used to decide the domains: the implementation's own parse *)
  Definition dom_tbl (f : V -> bool) (tbl : list (sitem V)) : list bool :=
    map (fun it => on_struct f (si_hook it)) tbl.

  (* parse error <-> Err expected, parse panic never *)
  Definition parse_not_panic (it : sitem V) : bool := match si_hook it with Panic => false | _ => true end.
  Definition spec_parse_total (tbl : list (sitem V)) : list nat := bad_idx parse_not_panic tbl 0.

  (* diagonal: Ok Eq, or Err when the string is rejected (by Parse or by CompareStr) *)
  Definition diag_ok (io : sitem V * oc) : bool :=
    match si_hook (fst io), snd io with
    | _, Ok Eq => true
    | _, Err => true
    | Ok v, Panic => negb (ec_total_dom E v)        (* outside the totality domain: not claimed *)
    | _, _ => false
    end.

  Fixpoint diag (mat : list (list oc)) (i : nat) : list oc :=
    match mat with [] => [] | row :: r => nth i row Err :: diag r (S i) end.

  Definition spec_refl (tbl : list (sitem V)) (mat : list (list oc)) : list nat :=
    bad_idx diag_ok (combine tbl (diag mat 0)) 0.

  (* totality + antisymmetry on the matrix: cell (i,j) against cell (j,i) *)
  Definition cell_ok (td : list bool) (mat : list (list oc)) (i j : nat) (o : oc) : bool :=
    let o' := nth i (nth j mat []) Err in
    (not_panic o || negb (nth i td false && nth j td false)) &&
    outcome_cmp_eqb o' (oppO o).

  Fixpoint row_bad (td : list bool) (mat : list (list oc)) (i j : nat) (row : list oc) : list (nat * nat) :=
    match row with
    | [] => []
    | o :: r => if cell_ok td mat i j o then row_bad td mat i (S j) r else (i, j) :: row_bad td mat i (S j) r
    end.

  Fixpoint rows_bad (td : list bool) (mat : list (list oc)) (i : nat) (rows : list (list oc)) : list (nat * nat) :=
    match rows with
    | [] => []
    | row :: r => row_bad td mat i 0 row ++ rows_bad td mat (S i) r
    end.

  Definition spec_antisym_total (tbl : list (sitem V)) (mat : list (list oc)) : list (nat * nat) :=
    rows_bad (dom_tbl (ec_total_dom E) tbl) mat 0 mat.

  Definition pair_spec_ok (td : list bool) (p : pcase) : bool :=
    ((not_panic (pc_ij p) && not_panic (pc_ji p)) || negb (nth (pc_i p) td false && nth (pc_j p) td false)) &&
    outcome_cmp_eqb (pc_ji p) (oppO (pc_ij p)).

  Definition spec_pairs (tbl : list (sitem V)) (ps : list pcase) : list nat :=
    bad_idx (pair_spec_ok (dom_tbl (ec_total_dom E) tbl)) ps 0.

  (* transitivity and equality-as-congruence on triples (i,j,k) of the pool inside the domain *)
  Definition triple_ok (oij oik ojk : oc) : bool :=
    (negb (leO oij && leO ojk) || leO oik) &&
    (match oij with Ok Eq => outcome_cmp_eqb oik ojk | _ => true end).

  Definition rel3 (a b c : outcome V) : bool :=
    match a, b, c with Ok u, Ok v, Ok w => ec_rel E u v w | _, _, _ => false end.

  (* the law is evaluated first; the domain only for triples that break it *)
  Fixpoint ks_bad (i j k : nat) (si sj : outcome V) (oij : oc) (rowi rowj : list oc) (vd : list (bool * outcome V))
    : list (nat * nat * nat) :=
    match rowi, rowj, vd with
    | oik :: ri, ojk :: rj, (vk, sk) :: vr =>
      if triple_ok oij oik ojk then ks_bad i j (S k) si sj oij ri rj vr
      else if vk && rel3 si sj sk then (i, j, k) :: ks_bad i j (S k) si sj oij ri rj vr
      else ks_bad i j (S k) si sj oij ri rj vr
    | _, _, _ => []
    end.

  Fixpoint js_bad (i j : nat) (si : outcome V) (rowi : list oc) (rest_i : list oc) (rows : list (list oc))
    (vd vd_all : list (bool * outcome V)) : list (nat * nat * nat) :=
    match rest_i, rows, vd with
    | oij :: ri, rowj :: rr, (vj, sj) :: vr =>
      (if vj then ks_bad i j 0 si sj oij rowi rowj vd_all else []) ++ js_bad i (S j) si rowi ri rr vr vd_all
    | _, _, _ => []
    end.

  Fixpoint is_bad (i : nat) (rows all_rows : list (list oc)) (vd vd_all : list (bool * outcome V)) : list (nat * nat * nat) :=
    match rows, vd with
    | rowi :: rr, (vi, si) :: vr =>
      (if vi then js_bad i 0 si rowi rowi all_rows vd_all vd_all else []) ++ is_bad (S i) rr all_rows vr vd_all
    | _, _ => []
    end.

  Definition spec_trans (tbl : list (sitem V)) (mat : list (list oc)) : list (nat * nat * nat) :=
    let vd := map (fun it => (on_struct (ec_valid E) (si_hook it), si_hook it)) (firstn (length mat) tbl) in
    is_bad 0 mat mat vd vd.

  Definition count_true (l : list bool) : nat := length (filter (fun b => b) l).

  (* number of pool strings inside the domain (for the evidence) *)
  Definition in_domain (tbl : list (sitem V)) (mat : list (list oc)) : nat :=
    count_true (dom_tbl (ec_valid E) (firstn (length mat) tbl)).
End Run.

(* The modelled PyPI front end only builds valid structures; with it the structure-level theorems
   of PypiProofs lift to all byte strings. *)
From Coq Require Import List ZArith NArith Bool Lia.
From Scalibr Require Import Semantic.Cmp Semantic.LexPad Semantic.Bytes Semantic.Generated_Tables.
From Scalibr Require Import Semantic.Pypi Semantic.PypiProofs Semantic.PypiParse.
Import ListNotations.

(* ------------------------------------------------------------------ ToLower keeps a string non-empty *)
Lemma decode_rune_size : forall c r, exists k, fst (fst (decode_rune (c :: r))) = S k.
Proof.
  intros c r. unfold decode_rune.
  repeat (match goal with
          | |- context [if ?b then _ else _] => destruct b
          | |- context [match ?l with [] => _ | _ :: _ => _ end] => destruct l
          end); simpl; eauto.
Qed.

Lemma encode_rune_nonempty : forall cp, encode_rune cp <> [].
Proof. intros cp. unfold encode_rune. repeat (match goal with |- context [if ?b then _ else _] => destruct b end); discriminate. Qed.

Lemma to_lower_nonempty : forall s, s <> [] -> to_lower s <> [].
Proof.
  intros [|c r] H; [contradiction|]. unfold to_lower. destruct (is_ascii (c :: r)); [discriminate|].
  unfold runes. cbn [length runes_fuel].
  destruct (decode_rune_size c r) as [k E].
  destruct (decode_rune (c :: r)) as [[sz cp] ok]. simpl in E. subst sz.
  cbn [flat_map]. destruct ok; [|discriminate].
  destruct (N.eqb (lower_cp cp) cp); [cbn [firstn]; discriminate|].
  pose proof (encode_rune_nonempty (lower_cp cp)) as NE. destruct (encode_rune (lower_cp cp)); [contradiction | discriminate].
Qed.

(* every target of the generated spelling table is a non-empty word *)
Lemma letter_aliases_nonempty : forallb (fun p : bytes * bytes => negb (is_nil (snd p))) gen_pypi_letter_aliases = true.
Proof. reflexivity. Qed.

Lemma switch_lookup_nonempty : forall tbl k,
  forallb (fun p : bytes * bytes => negb (is_nil (snd p))) tbl = true -> k <> [] -> switch_lookup tbl k <> [].
Proof.
  induction tbl as [|[f t] r IH]; intros k T H; [exact H|]. cbn [switch_lookup].
  simpl in T. apply andb_true_iff in T as [T1 T2].
  destruct (bytes_eqb f k); [destruct t; [discriminate | discriminate] | apply IH; assumption].
Qed.

Definition letnum_ok (x : letnum) : bool := negb (is_some (ln_number x)) || negb (is_nil (ln_letter x)).

Lemma parse_letter_ok : forall l n x, parse_letter l n = Ok x -> letnum_ok x = true.
Proof.
  intros l n x. unfold parse_letter, letnum_ok.
  destruct (is_nil l) eqn:L; cbn [negb].
  - destruct (is_nil n); cbn [negb].
    + intros H. injection H as <-. reflexivity.
    + destruct (big_of_string n); [|discriminate]. intros H. injection H as <-. reflexivity.
  - assert (switch_lookup gen_pypi_letter_aliases (to_lower l) <> []) as NE.
    { apply switch_lookup_nonempty; [apply letter_aliases_nonempty|]. apply to_lower_nonempty. destruct l; [discriminate | discriminate]. }
    set (w := switch_lookup gen_pypi_letter_aliases (to_lower l)) in *.
    destruct (big_of_string _); [|discriminate]. intros H. injection H as <-.
    destruct w; [contradiction | reflexivity].
Qed.

Lemma all_some_forallb {A} : forall l : list (option A), all_some l = forallb is_some l.
Proof. induction l as [|[x|] l IH]; simpl; auto. Qed.

Lemma build_pep440_valid : forall c v, build_pep440 c = Ok v -> valid_pypi v = true.
Proof.
  intros c v. unfold build_pep440.
  set (ep := if is_nil (c_epoch c) then _ else _). set (rel := map big_of_string _).
  destruct (is_some ep) eqn:E1; cbn [negb orb]; [|discriminate].
  destruct (all_some rel) eqn:E2; cbn [negb]; [|discriminate].
  destruct (parse_letter (c_pre_l c) (c_pre_n c)) as [pre| |] eqn:P; cbn [obind]; try discriminate.
  destruct (parse_letter (c_post_l c) _) as [post| |]; cbn [obind]; try discriminate.
  destruct (parse_letter (c_dev_l c) (c_dev_n c)) as [dev| |]; cbn [obind]; try discriminate.
  intros H. injection H as <-. unfold valid_pypi, pre_ok. cbn [py_epoch py_release py_pre].
  rewrite E1, <- all_some_forallb, E2. exact (parse_letter_ok _ _ _ P).
Qed.

Theorem parse_pypi_valid : forall s v, parse_pypi s = Ok v -> valid_pypi v = true.
Proof.
  intros s v. unfold parse_pypi. destruct (match_pep440 (to_lower s)) as [c|].
  - apply build_pep440_valid.
  - intros H. injection H as <-. reflexivity.
Qed.

Lemma parse_letter_no_panic : forall l n, parse_letter l n <> Panic.
Proof.
  intros l n. unfold parse_letter. destruct (negb (is_nil l)).
  - destruct (big_of_string _); discriminate.
  - destruct (negb (is_nil n)); [destruct (big_of_string n)|]; discriminate.
Qed.

Theorem parse_pypi_no_panic : forall s, parse_pypi s <> Panic.
Proof.
  intros s. unfold parse_pypi. destruct (match_pep440 (to_lower s)) as [c|]; [|discriminate].
  unfold build_pep440. destruct (_ || _); [discriminate|].
  destruct (parse_letter (c_pre_l c) (c_pre_n c)) as [pre| |] eqn:P1; cbn [obind]; try discriminate;
    [|exact (False_ind _ (parse_letter_no_panic _ _ P1))].
  destruct (parse_letter (c_post_l c) _) as [post| |] eqn:P2; cbn [obind]; try discriminate;
    [|exact (False_ind _ (parse_letter_no_panic _ _ P2))].
  destruct (parse_letter (c_dev_l c) (c_dev_n c)) as [dev| |] eqn:P3; cbn [obind]; try discriminate.
  exact (False_ind _ (parse_letter_no_panic _ _ P3)).
Qed.

(* ------------------------------------------------------------------ string-level theorems *)
Lemma pypi_str_total : forall a b, compare_str_pypi a b <> Panic.
Proof.
  intros a b. unfold compare_str_pypi.
  destruct (parse_pypi a) as [v| |] eqn:Ea; cbn [obind]; try discriminate; [|exact (False_ind _ (parse_pypi_no_panic a Ea))].
  destruct (parse_pypi b) as [w| |] eqn:Eb; cbn [obind]; try discriminate; [|exact (False_ind _ (parse_pypi_no_panic b Eb))].
  rewrite (cmp_pypi_on_valid v w (parse_pypi_valid a v Ea) (parse_pypi_valid b w Eb)). discriminate.
Qed.

Lemma pypi_str_antisym : forall a b, compare_str_pypi b a = oppO (compare_str_pypi a b).
Proof.
  intros a b. unfold compare_str_pypi.
  destruct (parse_pypi a) as [v| |] eqn:Ea; destruct (parse_pypi b) as [w| |] eqn:Eb; cbn [obind oppO]; try reflexivity;
    try (exfalso; eapply parse_pypi_no_panic; eassumption).
  apply cmp_pypi_antisym.
Qed.

Lemma pypi_str_refl : forall a, compare_str_pypi a a = Ok Eq \/ compare_str_pypi a a = Err.
Proof.
  intros a. unfold compare_str_pypi. destruct (parse_pypi a) as [v| |] eqn:Ea; cbn [obind].
  - left. apply cmp_pypi_refl. pose proof (parse_pypi_valid a v Ea) as V. unfold valid_pypi in V.
    apply andb_true_iff in V. tauto.
  - right. reflexivity.
  - exfalso. eapply parse_pypi_no_panic; eassumption.
Qed.

Lemma pypi_str_trans : forall a b c,
  leO (compare_str_pypi a b) = true -> leO (compare_str_pypi b c) = true -> leO (compare_str_pypi a c) = true.
Proof.
  intros a b c. unfold compare_str_pypi.
  destruct (parse_pypi a) as [u| |] eqn:Ea; cbn [obind leO]; try discriminate.
  destruct (parse_pypi b) as [v| |] eqn:Eb; cbn [obind leO]; try discriminate.
  destruct (parse_pypi c) as [w| |] eqn:Ec; cbn [obind leO]; try discriminate.
  apply (proj1 cmp_pypi_laws_on_valid); eapply parse_pypi_valid; eassumption.
Qed.

Lemma pypi_str_eq_equiv : forall a b c,
  compare_str_pypi a b = Ok Eq -> compare_str_pypi a c = compare_str_pypi b c.
Proof.
  intros a b c. unfold compare_str_pypi.
  destruct (parse_pypi a) as [u| |] eqn:Ea; cbn [obind]; try discriminate.
  destruct (parse_pypi b) as [v| |] eqn:Eb; cbn [obind]; try discriminate.
  destruct (parse_pypi c) as [w| |] eqn:Ec; cbn [obind].
  - apply (proj2 cmp_pypi_laws_on_valid); eapply parse_pypi_valid; eassumption.
  - intros _. reflexivity.
  - exfalso. eapply parse_pypi_no_panic; eassumption.
Qed.

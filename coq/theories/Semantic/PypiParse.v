(* Model of the FRONT END of semantic/version-pypi.go: parsePyPIVersion = strings.ToLower, the PEP 440
   regular expression (pypiVersionFinder) with its capture groups, parseLetterVersion, parseLocalVersion,
   and the legacy fallback (parsePyPIVersionParts).  No proofs here.

   The regular expression is modelled as a hand-written BACKTRACKING matcher in continuation-passing
   style: every construct tries its alternatives in the order of Go's (RE2, Perl-like leftmost-first)
   preference -- greedy repetitions longest first, alternations left to right, optional groups
   "present" before "absent" -- and the first complete match wins; this is exactly the order that
   determines the submatches FindStringSubmatch reports.  All character classes of the expression are
   ASCII, so it is a byte matcher (\s is [\t\n\f\r ], \d is [0-9]). *)
From Coq Require Import List ZArith NArith Bool.
From Scalibr Require Import Semantic.Cmp Semantic.LexPad Semantic.Bytes Semantic.Generated_Tables Semantic.Pypi.
Import ListNotations.
Open Scope N_scope.

Definition is_ws (c : N) : bool := (c =? 9) || (c =? 10) || (c =? 12) || (c =? 13) || (c =? 32).
Definition is_sep (c : N) : bool := (c =? 45) || (c =? 95) || (c =? 46).          (* [-_.] *)
Definition is_lalnum (c : N) : bool := is_digit c || is_lower c.                   (* [a-z0-9] *)

(* x+ for a character class: the non-empty prefixes of the maximal run, longest first *)
Fixpoint run_alts (f : N -> bool) (s : bytes) : list (bytes * bytes) :=
  match s with
  | c :: r => if f c then map (fun p : bytes * bytes => (c :: fst p, snd p)) (run_alts f r) ++ [([c], r)] else []
  | [] => []
  end.

(* the captures of one match *)
Record caps := {
  c_epoch : bytes; c_release : bytes;
  c_pre_l : bytes; c_pre_n : bytes;
  c_post_n1 : bytes; c_post_l : bytes; c_post_n2 : bytes;
  c_dev_l : bytes; c_dev_n : bytes;
  c_local : bytes }.

Section Matcher.
  Context {R : Type}.

  Fixpoint first_some {A} (l : list A) (f : A -> option R) : option R :=
    match l with
    | [] => None
    | x :: r => match f x with Some v => Some v | None => first_some r f end
    end.

  (* [-_.]? *)
  Definition opt_sep (s : bytes) (k : bytes -> option R) : option R :=
    match s with
    | c :: r => if is_sep c then match k r with Some v => Some v | None => k s end else k s
    | [] => k s
    end.

  (* ([0-9]+)? *)
  Definition opt_num (s : bytes) (k : bytes -> bytes -> option R) : option R :=
    match first_some (run_alts is_digit s) (fun p => k (fst p) (snd p)) with
    | Some v => Some v
    | None => k [] s
    end.

  (* (?:([0-9]+)!)? *)
  Definition opt_epoch (s : bytes) (k : bytes -> bytes -> option R) : option R :=
    match first_some (run_alts is_digit s)
            (fun p => match snd p with c :: r => if c =? 33 then k (fst p) r else None | [] => None end) with
    | Some v => Some v
    | None => k [] s
    end.

  (* (?:\.[0-9]+)*  -- acc is the text matched so far *)
  Fixpoint rel_star (fuel : nat) (acc s : bytes) (k : bytes -> bytes -> option R) : option R :=
    match fuel with
    | O => k acc s
    | S f =>
      match s with
      | c :: r =>
        if c =? 46 then
          match first_some (run_alts is_digit r) (fun p => rel_star f (acc ++ c :: fst p) (snd p) k) with
          | Some v => Some v
          | None => k acc s
          end
        else k acc s
      | [] => k acc s
      end
    end.

  (* [0-9]+(?:\.[0-9]+)* *)
  Definition release (s : bytes) (k : bytes -> bytes -> option R) : option R :=
    first_some (run_alts is_digit s) (fun p => rel_star (length s) (fst p) (snd p) k).

  (* ([-_.]?(l1|l2|...)[-_.]?([0-9]+)?)?   -- pre and dev *)
  Definition opt_letter_group (letters : list bytes) (s : bytes) (k : bytes -> bytes -> bytes -> option R) : option R :=
    match opt_sep s (fun s1 =>
            first_some letters (fun l =>
              if has_prefix l s1
              then opt_sep (drop_n (length l) s1) (fun s2 => opt_num s2 (fun n s3 => k l n s3))
              else None)) with
    | Some v => Some v
    | None => k [] [] s
    end.

  (* ((?:-([0-9]+))|(?:[-_.]?(post|rev|r)[-_.]?([0-9]+)?))? *)
  Definition opt_post (letters : list bytes) (s : bytes) (k : bytes -> bytes -> bytes -> bytes -> option R) : option R :=
    match (match s with
           | c :: r => if c =? 45 then first_some (run_alts is_digit r) (fun p => k (fst p) [] [] (snd p)) else None
           | [] => None
           end) with
    | Some v => Some v
    | None =>
      match opt_sep s (fun s1 =>
              first_some letters (fun l =>
                if has_prefix l s1
                then opt_sep (drop_n (length l) s1) (fun s2 => opt_num s2 (fun n s3 => k [] l n s3))
                else None)) with
      | Some v => Some v
      | None => k [] [] [] s
      end
    end.

  (* (?:[-_.][a-z0-9]+)* *)
  Fixpoint local_star (fuel : nat) (acc s : bytes) (k : bytes -> bytes -> option R) : option R :=
    match fuel with
    | O => k acc s
    | S f =>
      match s with
      | c :: r =>
        if is_sep c then
          match first_some (run_alts is_lalnum r) (fun p => local_star f (acc ++ c :: fst p) (snd p) k) with
          | Some v => Some v
          | None => k acc s
          end
        else k acc s
      | [] => k acc s
      end
    end.

  (* optional group: "+" then [a-z0-9]+ then any number of ([-_.][a-z0-9]+) *)
  Definition opt_local (s : bytes) (k : bytes -> bytes -> option R) : option R :=
    match (match s with
           | c :: r => if c =? 43 then first_some (run_alts is_lalnum r) (fun p => local_star (length r) (fst p) (snd p) k) else None
           | [] => None
           end) with
    | Some v => Some v
    | None => k [] s
    end.
End Matcher.

Definition pre_letters : list bytes :=      (* (a|b|c|rc|alpha|beta|pre|preview) in this order *)
  [[97]; [98]; [99]; [114; 99]; [97; 108; 112; 104; 97]; [98; 101; 116; 97]; [112; 114; 101]; [112; 114; 101; 118; 105; 101; 119]].
Definition post_letters : list bytes := [[112; 111; 115; 116]; [114; 101; 118]; [114]].   (* post|rev|r *)
Definition dev_letters : list bytes := [[100; 101; 118]].

(* \s*$ *)
Definition at_end (s : bytes) : bool := is_nil (drop_while is_ws s).

Definition match_body (s1 : bytes) : option caps :=
  opt_epoch s1 (fun ep s2 =>
  release s2 (fun rel s3 =>
  opt_letter_group pre_letters s3 (fun pl pn s4 =>
  opt_post post_letters s4 (fun n1 po n2 s5 =>
  opt_letter_group dev_letters s5 (fun dl dn s6 =>
  opt_local s6 (fun loc s7 =>
    if at_end s7
    then Some {| c_epoch := ep; c_release := rel; c_pre_l := pl; c_pre_n := pn; c_post_n1 := n1; c_post_l := po;
                 c_post_n2 := n2; c_dev_l := dl; c_dev_n := dn; c_local := loc |}
    else None)))))).

(* pypiVersionFinder.FindStringSubmatch:  ^\s*v?( ... )(\+local)?\s*$ *)
Definition match_pep440 (s : bytes) : option caps :=
  let s0 := drop_while is_ws s in
  match s0 with
  | c :: r => if c =? 118 then match match_body r with Some v => Some v | None => match_body s0 end else match_body s0
  | [] => match_body s0
  end.

(* ------------------------------------------------------------------ building the structure *)
(* a Go switch on a string: the first (only) matching case *)
Fixpoint switch_lookup (tbl : list (bytes * bytes)) (k : bytes) : bytes :=
  match tbl with
  | [] => k
  | (f, t) :: r => if bytes_eqb f k then t else switch_lookup r k
  end.

Definition s_post : bytes := [112; 111; 115; 116].

(* parseLetterVersion; the spelling table is the generated one *)
Definition parse_letter (letter number : bytes) : outcome letnum :=
  if negb (is_nil letter) then
    let number := if is_nil number then [48] else number in
    let letter := switch_lookup gen_pypi_letter_aliases (to_lower letter) in
    match big_of_string number with
    | Some z => Ok {| ln_letter := letter; ln_number := Some z |}
    | None => Err
    end
  else if negb (is_nil number) then
    match big_of_string number with
    | Some z => Ok {| ln_letter := s_post; ln_number := Some z |}
    | None => Err
    end
  else Ok {| ln_letter := []; ln_number := None |}.

(* pypiLocalVersionSplitter.Split(local, -1): split at every '.', '_' or '-' *)
Fixpoint split_seps (s : bytes) : list bytes :=
  match s with
  | [] => [[]]
  | c :: r => if is_sep c then [] :: split_seps r
              else match split_seps r with
                   | [] => [[c]]
                   | h :: t => (c :: h) :: t
                   end
  end.

Fixpoint all_some {A} (l : list (option A)) : bool :=
  match l with [] => true | Some _ :: r => all_some r | None :: _ => false end.

Definition build_pep440 (c : caps) : outcome pypi :=
  let ep := if is_nil (c_epoch c) then Some 0%Z else big_of_string (c_epoch c) in
  let rel := map big_of_string (split_on 46 (c_release c)) in
  if negb (is_some ep) || negb (all_some rel) then Err
  else
    obind (parse_letter (c_pre_l c) (c_pre_n c)) (fun pre =>
    obind (parse_letter (c_post_l c) (if is_nil (c_post_n1 c) then c_post_n2 c else c_post_n1 c)) (fun post =>
    obind (parse_letter (c_dev_l c) (c_dev_n c)) (fun dev =>
      Ok {| py_epoch := ep; py_release := rel; py_pre := pre; py_post := post; py_dev := dev;
            py_local := map to_lower (split_seps (c_local c)); py_legacy := [] |}))).

(* ------------------------------------------------------------------ legacy versions *)
(* pypiVersionPartsFinder.FindAllString: (\d+|[a-z]+|\.|-), everything else is skipped *)
Fixpoint legacy_tokens (fuel : nat) (s : bytes) : list bytes :=
  match fuel with
  | O => []
  | S f =>
    match s with
    | [] => []
    | c :: r =>
      if is_digit c then let (d, r') := span is_digit s in d :: legacy_tokens f r'
      else if is_lower c then let (d, r') := span is_lower s in d :: legacy_tokens f r'
      else if (c =? 46) || (c =? 45) then [c] :: legacy_tokens f r
      else legacy_tokens f r
    end
  end.

Definition s_final : bytes := [102; 105; 110; 97; 108].
Definition star_final : bytes := 42 :: s_final.                 (* "*final"  *)
Definition star_final_dash : bytes := star_final ++ [45].       (* "*final-" *)
Definition zeros8 : bytes := [48; 48; 48; 48; 48; 48; 48; 48].

(* normalizePyPILegacyPart: spelling table, then digits are padded with zeros to 8 (fmt "%08s"), words get a '*' *)
Definition legacy_norm (part : bytes) : bytes :=
  let part := switch_lookup gen_pypi_legacy_aliases part in
  match part with
  | c :: _ => if is_digit c then repeat 48 (8 - length part) ++ part else 42 :: part
  | [] => [42]
  end.

(* one iteration of the loop of parsePyPIVersionParts; parts are kept in reverse order *)
Definition legacy_step (parts_rev : list bytes) (tok : bytes) : list bytes :=
  if is_nil tok || bytes_eqb tok [46] then parts_rev
  else
    let part := legacy_norm tok in
    let parts_rev :=
      if has_prefix [42] part then
        let p1 := match bytes_cmp part star_final with
                  | Lt => drop_while (bytes_eqb star_final_dash) parts_rev
                  | _ => parts_rev
                  end in
        drop_while (bytes_eqb zeros8) p1
      else parts_rev in
    part :: parts_rev.

Definition legacy_parts (s : bytes) : list bytes :=
  rev (fold_left legacy_step (legacy_tokens (length s) s ++ [s_final]) []).

Definition ln_none : letnum := {| ln_letter := []; ln_number := None |}.

(* parsePyPILegacyVersion *)
Definition build_legacy (s : bytes) : pypi :=
  {| py_epoch := Some (-1)%Z; py_release := []; py_pre := ln_none; py_post := ln_none; py_dev := ln_none;
     py_local := []; py_legacy := legacy_parts s |}.

(* parsePyPIVersion *)
Definition parse_pypi (s : bytes) : outcome pypi :=
  let s := to_lower s in
  match match_pep440 s with
  | None => Ok (build_legacy s)
  | Some c => build_pep440 c
  end.

Definition compare_str_pypi (a b : bytes) : outcome comparison :=
  obind (parse_pypi a) (fun v => obind (parse_pypi b) (fun w => cmp_pypi v w)).

(* compareDebianVersions: the interleaved loop of the Go source (Debian.deb_loop) computes the same
   function as the tokenise-then-compare form (Debian.deb_str_cmp) that the order theorems are about. *)
From Coq Require Import List ZArith NArith Bool Lia Arith.
From Scalibr Require Import Semantic.Cmp Semantic.LexPad Semantic.Bytes Semantic.Generated_Tables Semantic.Debian Semantic.DebianProofs.
Import ListNotations.
Open Scope nat_scope.

Lemma span_length {A} (f : A -> bool) : forall l a b, span f l = (a, b) -> length l = length a + length b.
Proof.
  induction l as [|x l IH]; intros a b H; simpl in H.
  - injection H as <- <-. reflexivity.
  - destruct (f x).
    + destruct (span f l) as [a' b'] eqn:S. injection H as <- <-. simpl. rewrite (IH a' b' eq_refl). reflexivity.
    + injection H as <- <-. reflexivity.
Qed.

Lemma span_nil {A} (f : A -> bool) : span f [] = ([], []).
Proof. reflexivity. Qed.

(* one iteration consumes at least one byte of a non-empty string *)
Lemma step_shrinks : forall s p s1 d s2, s <> [] ->
  span (fun c => negb (is_digit c)) s = (p, s1) -> span is_digit s1 = (d, s2) -> length s2 < length s.
Proof.
  intros [|c r] p s1 d s2 NE H1 H2; [contradiction|].
  pose proof (span_length _ _ _ _ H1) as L1. pose proof (span_length _ _ _ _ H2) as L2.
  simpl in H1. destruct (is_digit c) eqn:E; simpl in H1.
  - injection H1 as <- <-. simpl in H2. rewrite E in H2. destruct (span is_digit r) as [x y]. injection H2 as <- <-.
    simpl in L2. simpl. lia.
  - destruct (span (fun c0 => negb (is_digit c0)) r) as [x y]. injection H1 as <- <-. simpl in L1. simpl. lia.
Qed.

(* the tokeniser does not depend on spare fuel *)
Lemma deb_tokens_fuel : forall f s, length s <= f -> deb_tokens f s = deb_tokens (length s) s.
Proof.
  induction f as [f IH] using lt_wf_ind. intros s L.
  destruct s as [|c r]; [destruct f; reflexivity|].
  destruct f as [|f]; [simpl in L; lia|].
  cbn [length]. cbn [deb_tokens].
  destruct (span (fun c0 => negb (is_digit c0)) (c :: r)) as [p s1] eqn:H1.
  destruct (span is_digit s1) as [d s2] eqn:H2.
  pose proof (step_shrinks (c :: r) p s1 d s2 ltac:(discriminate) H1 H2) as SH. simpl in SH, L.
  f_equal. rewrite (IH f ltac:(lia) s2 ltac:(lia)). symmetry. apply (IH (length r) ltac:(lia) s2 ltac:(lia)).
Qed.

Lemma deb_tokenise_cons : forall s p s1 d s2, s <> [] ->
  span (fun c => negb (is_digit c)) s = (p, s1) -> span is_digit s1 = (d, s2) ->
  deb_tokenise s = (deb_weights p, Z.of_N (digits_val d 0)) :: deb_tokenise s2.
Proof.
  intros s p s1 d s2 NE H1 H2. unfold deb_tokenise.
  pose proof (step_shrinks s p s1 d s2 NE H1 H2) as SH.
  destruct s as [|c r]; [contradiction|]. cbn [length deb_tokens]. rewrite H1, H2. f_equal.
  apply deb_tokens_fuel. simpl in SH. lia.
Qed.

Lemma runes_fuel_length : forall f s, length (runes_fuel f s) <= f.
Proof.
  induction f; intros s; simpl; [lia|]. destruct s; [simpl; lia|].
  destruct (decode_rune (n :: s)) as [[sz cp] ok]. simpl. specialize (IHf (drop_n sz (n :: s))). lia.
Qed.

Lemma deb_weights_length : forall p, length (deb_weights p) <= length p.
Proof. intros p. unfold deb_weights. rewrite map_length. apply runes_fuel_length. Qed.

(* the weight loop over max(len, len) BYTES is the padded comparison of the weight lists *)
Lemma weight_loop : forall ap bp,
  (if bytes_eqb ap bp then Eq
   else lexn gen_debian_empty_weight Z.compare (Nat.max (length ap) (length bp)) (deb_weights ap) (deb_weights bp))
  = lexpad gen_debian_empty_weight Z.compare (deb_weights ap) (deb_weights bp).
Proof.
  intros ap bp. destruct (bytes_eqb ap bp) eqn:E.
  - apply bytes_eqb_eq in E. subst. symmetry. apply (tp_refl _ (lexpad_total_preorder _ _ Zcompare_tp)).
  - symmetry. apply (lexpad_as_lexn _ _ Zcompare_tp).
    + pose proof (deb_weights_length ap). lia.
    + pose proof (deb_weights_length bp). lia.
Qed.

Lemma deb_tok_cmp_unfold : forall w1 n1 w2 n2,
  deb_tok_cmp (w1, n1) (w2, n2) = thenc (lexpad gen_debian_empty_weight Z.compare w1 w2) (Z.compare n1 n2).
Proof. reflexivity. Qed.

Lemma pad_token : deb_tokenise [] = []. Proof. reflexivity. Qed.

(* the empty string behaves as the padding token: no prefix, number 0 *)
Lemma empty_side : span (fun c => negb (is_digit c)) (@nil N) = ([], []) /\ span is_digit (@nil N) = ([], []) /\
  deb_weights [] = [] /\ Z.of_N (digits_val [] 0) = 0%Z.
Proof. repeat split. Qed.

Theorem deb_loop_equiv : forall f a b, length a + length b < f -> deb_loop f a b = deb_str_cmp a b.
Proof.
  induction f as [|f IH]; intros a b L; [lia|].
  cbn [deb_loop]. unfold deb_str_cmp.
  destruct (is_nil a && is_nil b) eqn:E.
  - apply andb_true_iff in E as [Ea Eb]. destruct a; [|discriminate]. destruct b; [|discriminate]. reflexivity.
  - destruct (span (fun c => negb (is_digit c)) a) as [ap a1] eqn:A1.
    destruct (span (fun c => negb (is_digit c)) b) as [bp b1] eqn:B1.
    rewrite weight_loop.
    destruct (span is_digit a1) as [ad a2] eqn:A2. destruct (span is_digit b1) as [bd b2] eqn:B2.
    (* both sides, one position unfolded *)
    assert (lexpad ([], 0%Z) deb_tok_cmp (deb_tokenise a) (deb_tokenise b) =
            thenc (thenc (lexpad gen_debian_empty_weight Z.compare (deb_weights ap) (deb_weights bp))
                         (Z.compare (Z.of_N (digits_val ad 0)) (Z.of_N (digits_val bd 0))))
                  (lexpad ([], 0%Z) deb_tok_cmp (deb_tokenise a2) (deb_tokenise b2))) as U.
    { destruct a as [|ca ra]; destruct b as [|cb rb].
      - discriminate.
      - simpl in A1. injection A1 as <- <-. simpl in A2. injection A2 as <- <-.
        rewrite (deb_tokenise_cons (cb :: rb) bp b1 bd b2 ltac:(discriminate) B1 B2), pad_token.
        rewrite lexpad_nil_cons. reflexivity.
      - simpl in B1. injection B1 as <- <-. simpl in B2. injection B2 as <- <-.
        rewrite (deb_tokenise_cons (ca :: ra) ap a1 ad a2 ltac:(discriminate) A1 A2), pad_token.
        rewrite lexpad_cons_nil. reflexivity.
      - rewrite (deb_tokenise_cons (ca :: ra) ap a1 ad a2 ltac:(discriminate) A1 A2).
        rewrite (deb_tokenise_cons (cb :: rb) bp b1 bd b2 ltac:(discriminate) B1 B2).
        rewrite lexpad_cons_cons. reflexivity. }
    rewrite U. clear U.
    destruct (lexpad gen_debian_empty_weight Z.compare (deb_weights ap) (deb_weights bp)); try reflexivity.
    cbn [thenc]. destruct (Z.of_N (digits_val ad 0) ?= Z.of_N (digits_val bd 0))%Z; try reflexivity.
    cbn [thenc]. fold (deb_str_cmp a2 b2). apply IH.
    (* the measure decreases: at least one side is non-empty and shrinks, the other does not grow *)
    pose proof (span_length _ _ _ _ A1). pose proof (span_length _ _ _ _ A2).
    pose proof (span_length _ _ _ _ B1). pose proof (span_length _ _ _ _ B2).
    destruct a as [|ca ra]; destruct b as [|cb rb].
    + discriminate.
    + pose proof (step_shrinks (cb :: rb) bp b1 bd b2 ltac:(discriminate) B1 B2). simpl in *. lia.
    + pose proof (step_shrinks (ca :: ra) ap a1 ad a2 ltac:(discriminate) A1 A2). simpl in *. lia.
    + pose proof (step_shrinks (ca :: ra) ap a1 ad a2 ltac:(discriminate) A1 A2).
      pose proof (step_shrinks (cb :: rb) bp b1 bd b2 ltac:(discriminate) B1 B2). simpl in *. lia.
Qed.

Theorem deb_loop_cmp_equiv : forall a b, deb_loop_cmp a b = deb_str_cmp a b.
Proof. intros a b. unfold deb_loop_cmp. apply deb_loop_equiv. lia. Qed.

From Coq Require Import List ZArith NArith Bool.
From Scalibr Require Import Semantic.Cmp Semantic.LexPad Semantic.Bytes Semantic.Rubygems.
Import ListNotations.

Definition cmp_rubygems_pure (v w : rubygems) : comparison :=
  by_key rg_segments (lexpad [48%N] seg_cmp) v w.

Lemma cmp_rubygems_pure_tp : TotalPreorder cmp_rubygems_pure.
Proof. apply by_key_tp. apply lexpad_total_preorder. apply numstr_cmp_tp. Qed.

Lemma cmp_rubygems_is_pure : forall v w, cmp_rubygems v w = Ok (cmp_rubygems_pure v w).
Proof. reflexivity. Qed.

Lemma cmp_rubygems_antisym : forall v w, cmp_rubygems w v = oppO (cmp_rubygems v w).
Proof. intros. rewrite !cmp_rubygems_is_pure. simpl. rewrite (tp_antisym _ cmp_rubygems_pure_tp v w). reflexivity. Qed.

Lemma cmp_rubygems_refl : forall v, cmp_rubygems v v = Ok Eq.
Proof. intros. rewrite cmp_rubygems_is_pure, (tp_refl _ cmp_rubygems_pure_tp). reflexivity. Qed.

Lemma cmp_rubygems_laws : trans_law_on valid_rubygems cmp_rubygems /\ eq_equiv_law_on valid_rubygems cmp_rubygems.
Proof. apply (laws_of_tp _ _ cmp_rubygems_pure); [apply cmp_rubygems_pure_tp | intros; apply cmp_rubygems_is_pure]. Qed.

Lemma rubygems_total_lemma : forall a b, exists c, compare_str_rubygems a b = Ok c.
Proof. intros. unfold compare_str_rubygems, parse_rubygems. simpl. eexists; reflexivity. Qed.

Lemma rubygems_str_antisym_lemma : forall a b, compare_str_rubygems b a = oppO (compare_str_rubygems a b).
Proof. intros. unfold compare_str_rubygems, parse_rubygems. cbn [obind]. apply cmp_rubygems_antisym. Qed.

Lemma rubygems_str_refl_lemma : forall a, compare_str_rubygems a a = Ok Eq.
Proof. intros. unfold compare_str_rubygems, parse_rubygems. cbn [obind]. apply cmp_rubygems_refl. Qed.

Lemma rubygems_str_trans_lemma : forall a b c,
  leO (compare_str_rubygems a b) = true -> leO (compare_str_rubygems b c) = true -> leO (compare_str_rubygems a c) = true.
Proof.
  intros a b c. unfold compare_str_rubygems, parse_rubygems. cbn [obind].
  apply (proj1 cmp_rubygems_laws); reflexivity.
Qed.

Lemma rubygems_str_eq_equiv_lemma : forall a b c,
  compare_str_rubygems a b = Ok Eq -> compare_str_rubygems a c = compare_str_rubygems b c.
Proof.
  intros a b c. unfold compare_str_rubygems, parse_rubygems. cbn [obind].
  apply (proj2 cmp_rubygems_laws); reflexivity.
Qed.

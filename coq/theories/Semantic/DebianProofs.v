From Coq Require Import List ZArith NArith Bool.
From Scalibr Require Import Semantic.Cmp Semantic.LexPad Semantic.Bytes Semantic.Debian.
Import ListNotations.

Lemma deb_tok_cmp_tp : TotalPreorder deb_tok_cmp.
Proof. apply lexprod_tp; [apply lexpad_total_preorder|]; apply Zcompare_tp. Qed.

Lemma deb_str_cmp_tp : TotalPreorder deb_str_cmp.
Proof.
  apply (tp_ext _ (by_key deb_tokenise (lexpad ([], 0%Z) deb_tok_cmp))); [reflexivity|].
  apply by_key_tp. apply lexpad_total_preorder. apply deb_tok_cmp_tp.
Qed.

Definition cmp_debian_pure (v w : debian) : comparison :=
  lex2 (by_key db_epoch (by_key oval Z.compare))
       (lex2 (by_key db_upstream deb_str_cmp) (by_key db_revision deb_str_cmp)) v w.

Lemma cmp_debian_pure_tp : TotalPreorder cmp_debian_pure.
Proof.
  apply lex2_tp; [apply by_key_tp, by_key_tp, Zcompare_tp|].
  apply lex2_tp; apply by_key_tp; apply deb_str_cmp_tp.
Qed.

Lemma cmp_debian_antisym : forall v w, cmp_debian w v = oppO (cmp_debian v w).
Proof.
  intros v w. unfold cmp_debian. rewrite (ocmp_antisym (db_epoch v) (db_epoch w)).
  destruct (ocmp (db_epoch v) (db_epoch w)) as [[]| |]; simpl; try reflexivity.
  rewrite (tp_antisym _ deb_str_cmp_tp (db_upstream v) (db_upstream w)).
  rewrite (tp_antisym _ deb_str_cmp_tp (db_revision v) (db_revision w)).
  destruct (deb_str_cmp (db_upstream v) (db_upstream w)); reflexivity.
Qed.

Lemma cmp_debian_refl : forall v, cmp_debian v v = Ok Eq.
Proof. intros v. unfold cmp_debian. rewrite ocmp_refl. simpl. rewrite !(tp_refl _ deb_str_cmp_tp). reflexivity. Qed.

Lemma cmp_debian_on_valid : forall v w, valid_debian v = true -> valid_debian w = true ->
  cmp_debian v w = Ok (cmp_debian_pure v w).
Proof.
  intros v w Hv Hw. unfold cmp_debian, cmp_debian_pure, lex2, by_key, valid_debian in *.
  rewrite (ocmp_pure _ _ Hv Hw). unfold by_key. simpl.
  destruct (oval (db_epoch v) ?= oval (db_epoch w))%Z; reflexivity.
Qed.

Lemma cmp_debian_laws_on_valid : trans_law_on valid_debian cmp_debian /\ eq_equiv_law_on valid_debian cmp_debian.
Proof. apply (laws_of_tp _ _ cmp_debian_pure); [apply cmp_debian_pure_tp | apply cmp_debian_on_valid]. Qed.

(* the parser only builds structures with an epoch *)
Lemma parse_debian_valid : forall s v, parse_debian s = Ok v -> valid_debian v = true.
Proof.
  intros s v. unfold parse_debian.
  destruct (cut_on 58 (trim_space s)) as [[e rest] [|]].
  - destruct (big_of_string e); simpl; [|discriminate].
    destruct (cut_last 45 rest) as [[u r]|]; intros H; injection H as <-; reflexivity.
  - simpl. destruct (cut_last 45 (trim_space s)) as [[u r]|]; intros H; injection H as <-; reflexivity.
Qed.

Lemma parse_debian_no_panic : forall s, parse_debian s <> Panic.
Proof.
  intros s. unfold parse_debian.
  destruct (cut_on 58 (trim_space s)) as [[e rest] [|]].
  - destruct (big_of_string e); simpl; [|discriminate]. destruct (cut_last 45 rest) as [[u r]|]; discriminate.
  - simpl. destruct (cut_last 45 (trim_space s)) as [[u r]|]; discriminate.
Qed.

Lemma debian_total_lemma : forall a b, compare_str_debian a b <> Panic.
Proof.
  intros a b. unfold compare_str_debian.
  destruct (parse_debian a) as [v| |] eqn:Ea; simpl; try discriminate; [|exact (False_ind _ (parse_debian_no_panic a Ea))].
  destruct (parse_debian b) as [w| |] eqn:Eb; simpl; try discriminate; [|exact (False_ind _ (parse_debian_no_panic b Eb))].
  rewrite (cmp_debian_on_valid v w (parse_debian_valid a v Ea) (parse_debian_valid b w Eb)). discriminate.
Qed.

Lemma debian_str_antisym_lemma : forall a b, compare_str_debian b a = oppO (compare_str_debian a b).
Proof.
  intros a b. unfold compare_str_debian.
  destruct (parse_debian a) as [v| |] eqn:Ea; destruct (parse_debian b) as [w| |] eqn:Eb; simpl; try reflexivity;
    try (exfalso; eapply parse_debian_no_panic; eassumption).
  apply cmp_debian_antisym.
Qed.

Lemma debian_str_refl_lemma : forall a v, parse_debian a = Ok v -> compare_str_debian a a = Ok Eq.
Proof. intros a v H. unfold compare_str_debian. rewrite H. simpl. apply cmp_debian_refl. Qed.

Lemma debian_str_refl_or_err_lemma : forall a, compare_str_debian a a = Ok Eq \/ compare_str_debian a a = Err.
Proof.
  intros a. unfold compare_str_debian. destruct (parse_debian a) as [v| |] eqn:Ea; simpl.
  - left. apply cmp_debian_refl.
  - right. reflexivity.
  - exfalso. eapply parse_debian_no_panic; eassumption.
Qed.

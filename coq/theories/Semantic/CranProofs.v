From Coq Require Import List ZArith NArith Bool Lia.
From Scalibr Require Import Semantic.Cmp Semantic.LexPad Semantic.Bytes Semantic.Cran.
Import ListNotations.

Definition cmp_cran_pure (v w : cran) : comparison :=
  lex2 (by_key cr_comps comps_cmp_pure) (by_key (fun v => length (cr_comps v)) Nat.compare) v w.

Lemma cmp_cran_pure_tp : TotalPreorder cmp_cran_pure.
Proof. apply lex2_tp; apply by_key_tp; [apply comps_cmp_pure_tp | apply Natcompare_tp]. Qed.

Lemma cmp_cran_raw_antisym : forall v w, cmp_cran_raw w v = oppO (cmp_cran_raw v w).
Proof.
  intros v w. unfold cmp_cran_raw. rewrite (comps_cmp_antisym (cr_comps v) (cr_comps w)).
  destruct (comps_cmp (cr_comps v) (cr_comps w)) as [[]| |]; simpl; try reflexivity.
  rewrite Nat.compare_antisym. reflexivity.
Qed.

Lemma cmp_cran_raw_on_valid : forall v w, valid_cran v = true -> valid_cran w = true ->
  cmp_cran_raw v w = Ok (cmp_cran_pure v w).
Proof.
  intros v w Hv Hw. unfold cmp_cran_raw, cmp_cran_pure, lex2, by_key, valid_cran in *.
  rewrite (comps_cmp_is_pure _ _ Hv Hw). simpl.
  destruct (comps_cmp_pure (cr_comps v) (cr_comps w)); reflexivity.
Qed.

(* antisymmetry: ALL structures (an invalid side gives Err in both orders) *)
Lemma cmp_cran_antisym : forall v w, cmp_cran w v = oppO (cmp_cran v w).
Proof.
  intros v w. unfold cmp_cran. rewrite (andb_comm (valid_cran w)).
  destruct (valid_cran v && valid_cran w); [apply cmp_cran_raw_antisym | reflexivity].
Qed.

Lemma cmp_cran_on_valid : forall v w, valid_cran v = true -> valid_cran w = true ->
  cmp_cran v w = Ok (cmp_cran_pure v w).
Proof. intros v w Hv Hw. unfold cmp_cran. rewrite Hv, Hw. apply cmp_cran_raw_on_valid; assumption. Qed.

Lemma cmp_cran_refl : forall v, cmp_cran v v = Ok Eq \/ cmp_cran v v = Err.
Proof.
  intros v. unfold cmp_cran. destruct (valid_cran v) eqn:E; simpl; [left | right; reflexivity].
  rewrite (cmp_cran_raw_on_valid v v E E), (tp_refl _ cmp_cran_pure_tp). reflexivity.
Qed.

Lemma cmp_cran_laws_on_valid : trans_law_on valid_cran cmp_cran /\ eq_equiv_law_on valid_cran cmp_cran.
Proof. apply (laws_of_tp _ _ cmp_cran_pure); [apply cmp_cran_pure_tp | apply cmp_cran_on_valid]. Qed.

(* never panics: every pair of structures *)
Lemma cmp_cran_total : forall v w, cmp_cran v w <> Panic.
Proof.
  intros v w. unfold cmp_cran. destruct (valid_cran v) eqn:Ev; destruct (valid_cran w) eqn:Ew; simpl; try discriminate.
  rewrite (cmp_cran_raw_on_valid v w Ev Ew). discriminate.
Qed.

Lemma cran_str_total : forall a b, compare_str_cran a b <> Panic.
Proof. intros a b. unfold compare_str_cran, parse_cran. cbn [obind]. apply cmp_cran_total. Qed.

Lemma cran_str_ok_on_valid : forall a b, valid_cran_string a = true -> valid_cran_string b = true ->
  exists c, compare_str_cran a b = Ok c.
Proof.
  intros a b Ha Hb. unfold compare_str_cran, valid_cran_string, parse_cran in *. cbn [obind] in *.
  rewrite (cmp_cran_on_valid _ _ Ha Hb). eexists; reflexivity.
Qed.

Lemma cran_str_antisym_lemma : forall a b, compare_str_cran b a = oppO (compare_str_cran a b).
Proof. intros. unfold compare_str_cran, parse_cran. cbn [obind]. apply cmp_cran_antisym. Qed.

Lemma cran_str_refl_lemma : forall a, compare_str_cran a a = Ok Eq \/ compare_str_cran a a = Err.
Proof. intros. unfold compare_str_cran, parse_cran. cbn [obind]. apply cmp_cran_refl. Qed.

From Coq Require Import List ZArith NArith Bool Lia.
From Scalibr Require Import Semantic.Cmp Semantic.LexPad Semantic.Bytes Semantic.Cran.
Import ListNotations.

Definition cmp_cran_pure (v w : cran) : comparison :=
  lex2 (by_key cr_comps comps_cmp_pure) (by_key (fun v => length (cr_comps v)) Nat.compare) v w.

Lemma cmp_cran_pure_tp : TotalPreorder cmp_cran_pure.
Proof. apply lex2_tp; apply by_key_tp; [apply comps_cmp_pure_tp | apply Natcompare_tp]. Qed.

Lemma cmp_cran_antisym : forall v w, cmp_cran w v = oppO (cmp_cran v w).
Proof.
  intros v w. unfold cmp_cran. rewrite (comps_cmp_antisym (cr_comps v) (cr_comps w)).
  destruct (comps_cmp (cr_comps v) (cr_comps w)) as [[]| |]; simpl; try reflexivity.
  rewrite Nat.compare_antisym. reflexivity.
Qed.

Lemma cmp_cran_refl : forall v, cmp_cran v v = Ok Eq.
Proof. intros v. unfold cmp_cran. rewrite comps_cmp_refl. simpl. rewrite Nat.compare_refl. reflexivity. Qed.

Lemma cmp_cran_on_valid : forall v w, valid_cran v = true -> valid_cran w = true ->
  cmp_cran v w = Ok (cmp_cran_pure v w).
Proof.
  intros v w Hv Hw. unfold cmp_cran, cmp_cran_pure, lex2, by_key, valid_cran in *.
  rewrite (comps_cmp_is_pure _ _ Hv Hw). simpl.
  destruct (comps_cmp_pure (cr_comps v) (cr_comps w)); reflexivity.
Qed.

Lemma cmp_cran_laws_on_valid : trans_law_on valid_cran cmp_cran /\ eq_equiv_law_on valid_cran cmp_cran.
Proof. apply (laws_of_tp _ _ cmp_cran_pure); [apply cmp_cran_pure_tp | apply cmp_cran_on_valid]. Qed.

Lemma cmp_cran_total_on_valid : forall v w, valid_cran v = true -> valid_cran w = true -> cmp_cran v w <> Panic.
Proof. intros v w Hv Hw. rewrite (cmp_cran_on_valid v w Hv Hw). discriminate. Qed.

Lemma cran_str_total_on_valid : forall a b, valid_cran_string a = true -> valid_cran_string b = true ->
  exists c, compare_str_cran a b = Ok c.
Proof.
  intros a b Ha Hb. unfold compare_str_cran, valid_cran_string, parse_cran in *. simpl in *.
  rewrite (cmp_cran_on_valid _ _ Ha Hb). eexists; reflexivity.
Qed.

Lemma cran_str_antisym_lemma : forall a b, compare_str_cran b a = oppO (compare_str_cran a b).
Proof. intros. unfold compare_str_cran, parse_cran. simpl. apply cmp_cran_antisym. Qed.

Lemma cran_str_refl_lemma : forall a, compare_str_cran a a = Ok Eq.
Proof. intros. unfold compare_str_cran, parse_cran. simpl. apply cmp_cran_refl. Qed.

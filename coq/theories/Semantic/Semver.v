(* Model of semantic/version-semver-like.go + version-semver.go
   (ecosystems npm, crates.io, Go, Hex, Pub, ConanCenter; NuGet reuses it with 4 components).
   No proofs here. *)
From Coq Require Import List ZArith NArith Bool.
From Scalibr Require Import Semantic.Cmp Semantic.LexPad Semantic.Bytes.
Import ListNotations.
Open Scope N_scope.

(* type semverLikeVersion struct { LeadingV bool; Components components; Build string; Original string } *)
Record semver := {
  sv_leading_v : bool;
  sv_comps : list (option Z);     (* []*big.Int, nil-able *)
  sv_build : bytes;
  sv_original : bytes }.

(* ------------------------------------------------------------------ parseSemverLike *)
(* The Go loop ranges over runes and appends string(c); digits, '.', and every other ASCII byte are
   single-byte runes, so the loop is a byte scan of [sanitize line].
   cur = digits of the component being read (in order); comps = finished components, reversed. *)
Definition flush (cur : bytes) (comps : list (option Z)) : list (option Z) :=
  if is_nil cur then comps else big_of_string cur :: comps.

Fixpoint sv_scan (s : bytes) (comps : list (option Z)) (cur : bytes) : list (option Z) * bytes :=
  match s with
  | [] => (rev (flush cur comps), [])
  | c :: r =>
    if is_digit c then sv_scan r comps (cur ++ [c])
    else if c =? 46 then sv_scan r (flush cur comps) []
    else (rev (flush cur comps), c :: r)          (* foundBuild: the rest of the line is the build *)
  end.

Definition parse_semver_like (line : bytes) : semver :=
  let lv := has_prefix [118] line in
  let body := sanitize (trim_prefix [118] line) in
  let (comps, build) := sv_scan body [] [] in
  {| sv_leading_v := lv; sv_comps := comps; sv_build := build; sv_original := line |}.

(* fmt.Sprintf(".%d", c) for c *big.Int *)
Definition fmt_big (c : option Z) : bytes :=
  match c with Some z => Z_to_dec z | None => [60; 110; 105; 108; 62] (* <nil> *) end.

(* fetchComponentsAndBuild + parseSemverLikeVersion *)
Definition limit_components (maxc : nat) (v : semver) : semver :=
  if Nat.leb (length (sv_comps v)) maxc then v
  else {| sv_leading_v := sv_leading_v v;
          sv_comps := firstn maxc (sv_comps v);
          sv_build := sv_build v ++ flat_map (fun c => 46 :: fmt_big c) (skipn maxc (sv_comps v));
          sv_original := sv_original v |}.

Definition parse_semver_like_version (line : bytes) (maxc : nat) : semver :=
  limit_components maxc (parse_semver_like line).

Definition parse_semver (s : bytes) : outcome semver := Ok (parse_semver_like_version s 3).

(* ------------------------------------------------------------------ compareBuildComponents *)
Definition remove_build_metadata (s : bytes) : bytes := before_first 43 s.   (* strings.Split(str,"+")[0] *)
Definition trim_dash (s : bytes) : bytes := match s with c :: r => if c =? 45 then r else s | [] => [] end.

(* compareSemverBuildComponents: per identifier, numeric < non-numeric; then the longer list wins *)
Definition ident_cmp : bytes -> bytes -> comparison := numstr_cmp false.

Definition build_norm (s : bytes) : bytes := trim_dash (remove_build_metadata s).

Definition build_cmp (a b : bytes) : comparison :=
  let a := build_norm a in
  let b := build_norm b in
  match a, b with
  | [], _ :: _ => Gt
  | _ :: _, [] => Lt
  | _, _ => shortlex ident_cmp (split_on 46 a) (split_on 46 b)
  end.

(* semverVersion.compare *)
Definition cmp_semver (v w : semver) : outcome comparison :=
  thenO (comps_cmp (sv_comps v) (sv_comps w)) (Ok (build_cmp (sv_build v) (sv_build w))).

(* Parse(a, eco) then CompareStr(b) *)
Definition compare_str_semver (a b : bytes) : outcome comparison :=
  obind (parse_semver a) (fun v => obind (parse_semver b) (fun w => cmp_semver v w)).

(* structures the comparison is claimed to order: no nil component *)
Definition valid_semver (v : semver) : bool := forallb is_some (sv_comps v).

(* ------------------------------------------------------------------ decidable equality (parse diff against the hook) *)
Definition semver_eqb (v w : semver) : bool :=
  Bool.eqb (sv_leading_v v) (sv_leading_v w) && list_eqb optZ_eqb (sv_comps v) (sv_comps w) &&
  bytes_eqb (sv_build v) (sv_build w) && bytes_eqb (sv_original v) (sv_original w).

From Coq Require Import List ZArith NArith Bool Lia Arith.
From Scalibr Require Import Semantic.Cmp Semantic.LexPad Semantic.Bytes Semantic.Generated_Tables Semantic.Maven.
Import ListNotations.

(* the generated "empty padding" table is exactly {"sp"} *)
Lemma empty_pad_is_sp : forall v, str_in v gen_maven_empty_dot_padding_for = bytes_eqb v s_sp.
Proof. intros v. unfold str_in, gen_maven_empty_dot_padding_for. cbn [existsb]. apply orb_false_r. Qed.

(* ------------------------------------------------------------------ never panics *)
Lemma tok_lt_no_panic : forall x y, tok_lt x y <> Panic.
Proof.
  intros x y. unfold tok_lt, qual_order.
  destruct (bytes_eqb (mt_prefix x) (mt_prefix y)).
  - destruct (big_of_string (mt_value x)), (big_of_string (mt_value y)); try discriminate;
      repeat match goal with |- context [if ?c then _ else _] => destruct c end; discriminate.
  - repeat match goal with |- context [if ?c then _ else _] => destruct c end; simpl; discriminate.
Qed.

Lemma null_of_no_panic : forall x, null_of x <> Panic.
Proof. intros x. unfold null_of. rewrite ?empty_pad_is_sp. repeat match goal with |- context [if ?c then _ else _] => destruct c end; discriminate. Qed.

Lemma lt_loop_no_panic : forall n a b, lt_loop n a b <> Panic.
Proof.
  induction n; intros a b; simpl; [discriminate|].
  destruct a as [|x a], b as [|y b]; try discriminate.
  - destruct (null_of y) as [l| |] eqn:E; simpl; try discriminate; [|exact (False_ind _ (null_of_no_panic y E))].
    destruct (tok_equal l y); [apply IHn | apply tok_lt_no_panic].
  - destruct (null_of x) as [r| |] eqn:E; simpl; try discriminate; [|exact (False_ind _ (null_of_no_panic x E))].
    destruct (tok_equal x r); [apply IHn | apply tok_lt_no_panic].
  - destruct (tok_equal x y); [apply IHn | apply tok_lt_no_panic].
Qed.

Lemma cmp_maven_no_panic : forall v w, cmp_maven v w <> Panic.
Proof.
  intros v w. unfold cmp_maven. destruct (mv_equal (mv_tokens v) (mv_tokens w)); [discriminate|].
  destruct (lt_loop _ (mv_tokens v) (mv_tokens w)) as [[]| |] eqn:E; try discriminate.
  exact (False_ind _ (lt_loop_no_panic _ _ _ E)).
Qed.

Lemma maven_total_lemma : forall a b, compare_str_maven a b <> Panic.
Proof. intros a b. unfold compare_str_maven, parse_maven. cbn [obind]. apply cmp_maven_no_panic. Qed.

(* ------------------------------------------------------------------ reflexivity: every structure *)
Lemma bytes_eqb_refl : forall s, bytes_eqb s s = true.
Proof. intros s. apply bytes_eqb_eq. reflexivity. Qed.

Lemma mv_equal_refl : forall a, mv_equal a a = true.
Proof.
  induction a as [|x a IH]; [reflexivity|]. unfold mv_equal in *. simpl.
  unfold tok_equal. rewrite !bytes_eqb_refl. exact IH.
Qed.

Lemma cmp_maven_refl : forall v, cmp_maven v v = Ok Eq.
Proof. intros v. unfold cmp_maven. rewrite mv_equal_refl. reflexivity. Qed.

Lemma maven_str_refl_lemma : forall a, compare_str_maven a a = Ok Eq.
Proof. intros a. unfold compare_str_maven, parse_maven. cbn [obind]. apply cmp_maven_refl. Qed.

(* mv_equal is symmetric, so "equal" is reported in both argument orders *)
Lemma tok_equal_sym : forall x y, tok_equal x y = tok_equal y x.
Proof.
  intros x y. unfold tok_equal.
  assert (forall s t, bytes_eqb s t = bytes_eqb t s) as S.
  { intros s t. destruct (bytes_eqb s t) eqn:E1, (bytes_eqb t s) eqn:E2; try reflexivity.
    - apply bytes_eqb_eq in E1. subst. rewrite bytes_eqb_refl in E2. discriminate.
    - apply bytes_eqb_eq in E2. subst. rewrite bytes_eqb_refl in E1. discriminate. }
  rewrite (S (mt_prefix x)), (S (mt_value x)). reflexivity.
Qed.

Lemma mv_equal_sym : forall a b, mv_equal a b = mv_equal b a.
Proof.
  unfold mv_equal. induction a as [|x a IH]; destruct b as [|y b]; simpl; try reflexivity.
  rewrite tok_equal_sym, IH. reflexivity.
Qed.

Lemma cmp_maven_eq_sym : forall v w, cmp_maven v w = Ok Eq -> cmp_maven w v = Ok Eq.
Proof.
  intros v w. unfold cmp_maven. rewrite (mv_equal_sym (mv_tokens w)).
  destruct (mv_equal (mv_tokens v) (mv_tokens w)); [reflexivity|].
  destruct (lt_loop _ (mv_tokens v) (mv_tokens w)) as [[]| |]; discriminate.
Qed.

(* ================================================================== antisymmetry on well-formed structures *)
Open Scope nat_scope.
Definition flipO (o : outcome bool) : outcome bool :=
  match o with Ok b => Ok (negb b) | Err => Err | Panic => Panic end.
Definition lift (o : outcome bool) : outcome comparison :=
  match o with Ok true => Ok Lt | Ok false => Ok Gt | Err => Err | Panic => Panic end.

Lemma lift_flip : forall o, lift (flipO o) = oppO (lift o).
Proof. intros [[]| |]; reflexivity. Qed.

Lemma bytes_eqb_sym : forall s t, bytes_eqb s t = bytes_eqb t s.
Proof.
  intros s t. destruct (bytes_eqb s t) eqn:E1, (bytes_eqb t s) eqn:E2; try reflexivity.
  - apply bytes_eqb_eq in E1. subst. rewrite bytes_eqb_refl in E2. discriminate.
  - apply bytes_eqb_eq in E2. subst. rewrite bytes_eqb_refl in E1. discriminate.
Qed.

Lemma bytes_eqb_neq : forall s t, bytes_eqb s t = false -> s <> t.
Proof. intros s t E ->. rewrite bytes_eqb_refl in E. discriminate. Qed.

(* findKeywordOrder: an index below 7 identifies the keyword *)
Lemma kw_idx_cases : forall s,
  (kw_idx s = 0 /\ s = kw_alpha) \/ (kw_idx s = 1 /\ s = kw_beta) \/ (kw_idx s = 2 /\ s = kw_milestone) \/
  (kw_idx s = 3 /\ s = kw_rc) \/ (kw_idx s = 4 /\ s = kw_snapshot) \/ (kw_idx s = 5 /\ s = []) \/
  (kw_idx s = 6 /\ s = s_sp) \/ kw_idx s = 7.
Proof.
  intros s. unfold kw_idx, keyword_order.
  (* the generated table must be exactly this list: reordering keywordOrder in Go breaks the proof here *)
  change gen_maven_keyword_order with [kw_alpha; kw_beta; kw_milestone; kw_rc; kw_snapshot; []; s_sp]. cbn [find_idx].
  destruct (bytes_eqb kw_alpha s) eqn:E0; [apply bytes_eqb_eq in E0; subst; tauto|].
  destruct (bytes_eqb kw_beta s) eqn:E1; [apply bytes_eqb_eq in E1; subst; tauto|].
  destruct (bytes_eqb kw_milestone s) eqn:E2; [apply bytes_eqb_eq in E2; subst; tauto|].
  destruct (bytes_eqb kw_rc s) eqn:E3; [apply bytes_eqb_eq in E3; subst; tauto|].
  destruct (bytes_eqb kw_snapshot s) eqn:E4; [apply bytes_eqb_eq in E4; subst; tauto|].
  destruct (bytes_eqb [] s) eqn:E5; [apply bytes_eqb_eq in E5; subst; tauto|].
  destruct (bytes_eqb s_sp s) eqn:E6; [apply bytes_eqb_eq in E6; subst; tauto|].
  tauto.
Qed.

Lemma kw_idx_le : forall s, kw_idx s <= 7.
Proof. intros s. destruct (kw_idx_cases s) as [[H _]|[[H _]|[[H _]|[[H _]|[[H _]|[[H _]|[[H _]|H]]]]]]]; lia. Qed.

Lemma kw_idx_inj : forall s t, kw_idx s = kw_idx t -> kw_idx s <> 7 -> s = t.
Proof.
  intros s t E N.
  destruct (kw_idx_cases s) as [[H1 H2]|[[H1 H2]|[[H1 H2]|[[H1 H2]|[[H1 H2]|[[H1 H2]|[[H1 H2]|H1]]]]]]];
  destruct (kw_idx_cases t) as [[K1 K2]|[[K1 K2]|[[K1 K2]|[[K1 K2]|[[K1 K2]|[[K1 K2]|[[K1 K2]|K1]]]]]]];
  try congruence; lia.
Qed.

(* the qualifier branch of lessThan, as a function of the two values *)
Definition qual_lt (vl vr : bytes) : outcome bool :=
  let l := kw_idx vl in let r := kw_idx vr in
  if Nat.eqb l 7 && Nat.eqb r 7 then Ok (bytes_ltb vl vr) else Ok (Nat.ltb l r).

Lemma qual_lt_flip : forall vl vr, vl <> vr -> qual_lt vr vl = flipO (qual_lt vl vr).
Proof.
  intros vl vr NE. unfold qual_lt. cbv zeta.
  rewrite (andb_comm (Nat.eqb (kw_idx vr) 7)).
  destruct (Nat.eqb (kw_idx vl) 7 && Nat.eqb (kw_idx vr) 7) eqn:B; cbn [flipO].
  - unfold bytes_ltb. rewrite (tp_antisym _ bytes_cmp_tp vl vr).
    destruct (bytes_cmp vl vr) eqn:C; try reflexivity. apply bytes_cmp_eq in C. contradiction.
  - f_equal. destruct (Nat.ltb_spec (kw_idx vr) (kw_idx vl)), (Nat.ltb_spec (kw_idx vl) (kw_idx vr)); try reflexivity; try lia.
    exfalso. assert (kw_idx vl = kw_idx vr) as E by lia.
    apply NE. apply kw_idx_inj; [exact E|]. intros K. rewrite <- E, K in B. discriminate.
Qed.

Lemma canon_inj : forall s t z, canon_value s = true -> canon_value t = true ->
  big_of_string s = Some z -> big_of_string t = Some z -> s = t.
Proof.
  intros s t z Cs Ct Es Et. unfold canon_value in *. rewrite Es in Cs. rewrite Et in Ct.
  apply bytes_eqb_eq in Cs, Ct. congruence.
Qed.

Lemma tok_lt_flip : forall l r, canon_value (mt_value l) = true -> canon_value (mt_value r) = true ->
  tok_equal l r = false -> tok_lt r l = flipO (tok_lt l r).
Proof.
  intros l r Cl Cr NE. unfold tok_lt. rewrite (bytes_eqb_sym (mt_prefix r)).
  destruct (bytes_eqb (mt_prefix l) (mt_prefix r)) eqn:P.
  - unfold tok_equal in NE. rewrite P in NE. simpl in NE. apply bytes_eqb_neq in NE.
    fold (qual_lt (mt_value l) (mt_value r)). fold (qual_lt (mt_value r) (mt_value l)).
    destruct (big_of_string (mt_value l)) as [a|] eqn:Ea; destruct (big_of_string (mt_value r)) as [c|] eqn:Ec; cbn [is_some andb].
    + cbn [flipO]. f_equal.
      assert (a <> c) as N by (intros ->; apply NE; eapply canon_inj; eauto).
      destruct (Z.ltb_spec c a), (Z.ltb_spec a c); try reflexivity; lia.
    + destruct (mt_null l); cbn [negb andb flipO]; [apply qual_lt_flip; auto | reflexivity].
    + destruct (mt_null r); cbn [negb andb flipO]; [apply qual_lt_flip; auto | reflexivity].
    + apply qual_lt_flip; auto.
  - unfold qual_order.
    destruct (bytes_eqb (mt_prefix l) s_dash) eqn:L1; destruct (bytes_eqb (mt_prefix r) s_dash) eqn:R1.
    + apply bytes_eqb_eq in L1, R1. rewrite L1, R1, bytes_eqb_refl in P. discriminate.
    + destruct (bytes_eqb (mt_prefix r) s_dot); [|reflexivity].
      destruct (is_some (big_of_string (mt_value l))), (is_some (big_of_string (mt_value r))); reflexivity.
    + destruct (bytes_eqb (mt_prefix l) s_dot); [|reflexivity].
      destruct (is_some (big_of_string (mt_value l))), (is_some (big_of_string (mt_value r))); reflexivity.
    + destruct (bytes_eqb (mt_prefix l) s_dot) eqn:L2; destruct (bytes_eqb (mt_prefix r) s_dot) eqn:R2; try reflexivity.
      apply bytes_eqb_eq in L2, R2. rewrite L2, R2, bytes_eqb_refl in P. discriminate.
Qed.

Definition pair_cmp (l r : mtok) : outcome comparison := if tok_equal l r then Ok Eq else lift (tok_lt l r).

Lemma pair_cmp_antisym : forall l r, canon_value (mt_value l) = true -> canon_value (mt_value r) = true ->
  pair_cmp r l = oppO (pair_cmp l r).
Proof.
  intros l r Cl Cr. unfold pair_cmp. rewrite (tok_equal_sym r l).
  destruct (tok_equal l r) eqn:E; [reflexivity|].
  rewrite (tok_lt_flip l r Cl Cr E). apply lift_flip.
Qed.

(* one position of mavenVersion.lessThan: a token or nothing on each side *)
Definition pos_cmp (ox oy : option mtok) : outcome comparison :=
  match ox, oy with
  | None, None => Ok Eq
  | Some x, None => obind (null_of x) (fun r => pair_cmp x r)
  | None, Some y => obind (null_of y) (fun l => pair_cmp l y)
  | Some x, Some y => pair_cmp x y
  end.

Definition ogood (o : option mtok) : bool := match o with Some t => canon_value (mt_value t) | None => true end.

Lemma null_of_canon : forall x r, null_of x = Ok r -> canon_value (mt_value r) = true.
Proof.
  intros x r. unfold null_of. rewrite ?empty_pad_is_sp.
  destruct (bytes_eqb (mt_prefix x) s_dot).
  - destruct (bytes_eqb (mt_value x) s_sp); intros H; injection H as <-; reflexivity.
  - destruct (bytes_eqb (mt_prefix x) s_dash); intros H; [injection H as <-; reflexivity | discriminate].
Qed.

Lemma pos_cmp_antisym : forall ox oy, ogood ox = true -> ogood oy = true -> pos_cmp oy ox = oppO (pos_cmp ox oy).
Proof.
  intros [x|] [y|] Gx Gy; simpl in *; try reflexivity.
  - apply pair_cmp_antisym; assumption.
  - destruct (null_of x) as [r| |] eqn:E; simpl; try reflexivity.
    apply pair_cmp_antisym; [assumption | eapply null_of_canon; eauto].
  - destruct (null_of y) as [l| |] eqn:E; simpl; try reflexivity.
    apply pair_cmp_antisym; [eapply null_of_canon; eauto | assumption].
Qed.

Definition posR (n : nat) (a b : list mtok) : outcome comparison :=
  lexnO None pos_cmp n (map Some a) (map Some b).

Definition unlift (r : outcome comparison) : outcome bool :=
  match r with Ok Lt => Ok true | Ok _ => Ok false | Err => Err | Panic => Panic end.

Lemma lexnO_none : forall n, lexnO None pos_cmp n [] [] = Ok Eq.
Proof. induction n; simpl; auto. Qed.

Lemma unlift_lift : forall o, unlift (lift o) = o.
Proof. intros [[]| |]; reflexivity. Qed.

Lemma lt_loop_as_posR : forall n a b, lt_loop n a b = unlift (posR n a b).
Proof.
  unfold posR. induction n; intros a b; [reflexivity|].
  destruct a as [|x a], b as [|y b]; cbn [lt_loop lexnO map hd tl pos_cmp].
  - rewrite lexnO_none. reflexivity.
  - destruct (null_of y) as [l| |]; cbn [obind]; try reflexivity.
    unfold pair_cmp. destruct (tok_equal l y).
    + change (@nil (option mtok)) with (map Some (@nil mtok)). apply IHn.
    + destruct (tok_lt l y) as [[]| |]; reflexivity.
  - destruct (null_of x) as [r| |]; cbn [obind]; try reflexivity.
    unfold pair_cmp. destruct (tok_equal x r).
    + change (@nil (option mtok)) with (map Some (@nil mtok)). apply IHn.
    + destruct (tok_lt x r) as [[]| |]; reflexivity.
  - unfold pair_cmp. destruct (tok_equal x y).
    + apply IHn.
    + destruct (tok_lt x y) as [[]| |]; reflexivity.
Qed.

Definition toks_canon (l : list mtok) : bool := forallb (fun t => canon_value (mt_value t)) l.

Lemma toks_canon_ogood : forall l, toks_canon l = true -> forallb ogood (map Some l) = true.
Proof. induction l; simpl; [reflexivity|]. intros H. apply andb_true_iff in H as [H1 H2]. rewrite H1. apply IHl; exact H2. Qed.

Lemma posR_antisym : forall n a b, toks_canon a = true -> toks_canon b = true -> posR n b a = oppO (posR n a b).
Proof.
  intros n a b Ha Hb. unfold posR.
  apply (lexnO_antisym_on None pos_cmp ogood eq_refl pos_cmp_antisym); apply toks_canon_ogood; assumption.
Qed.

(* if no position differs the token lists are equal -- provided trailing null values were trimmed *)
Lemma pair_cmp_eq : forall l r, pair_cmp l r = Ok Eq -> tok_equal l r = true.
Proof. intros l r. unfold pair_cmp. destruct (tok_equal l r); [reflexivity|]. destruct (tok_lt l r) as [[]| |]; discriminate. Qed.

Lemma pad_equal_trims : forall y l, null_of y = Ok l -> tok_equal l y = true -> should_trim y = true.
Proof.
  intros y l N E. unfold tok_equal in E. apply andb_true_iff in E as [_ E]. apply bytes_eqb_eq in E.
  unfold null_of in N. rewrite ?empty_pad_is_sp in N. unfold should_trim. rewrite <- E.
  destruct (bytes_eqb (mt_prefix y) s_dot).
  - injection N as <-. cbn [mt_value]. destruct (bytes_eqb (mt_value y) s_sp); reflexivity.
  - destruct (bytes_eqb (mt_prefix y) s_dash); [|discriminate]. injection N as <-. reflexivity.
Qed.

Lemma posR_nil_eq : forall n b, length b <= n -> posR n [] b = Ok Eq -> forallb should_trim b = true.
Proof.
  unfold posR. induction n; intros b L H.
  - destruct b; [reflexivity | simpl in L; lia].
  - destruct b as [|y b]; [reflexivity|]. cbn [lexnO map hd tl pos_cmp] in H. simpl in L.
    destruct (null_of y) as [l| |] eqn:E; cbn [obind] in H; try discriminate.
    destruct (pair_cmp l y) as [[]| |] eqn:P; try discriminate.
    simpl. rewrite (pad_equal_trims y l E (pair_cmp_eq _ _ P)). simpl.
    apply IHn; [lia | exact H].
Qed.

Lemma posR_eq_nil : forall n a, length a <= n -> posR n a [] = Ok Eq -> forallb should_trim a = true.
Proof.
  unfold posR. induction n; intros a L H.
  - destruct a; [reflexivity | simpl in L; lia].
  - destruct a as [|x a]; [reflexivity|]. cbn [lexnO map hd tl pos_cmp] in H. simpl in L.
    destruct (null_of x) as [r| |] eqn:E; cbn [obind] in H; try discriminate.
    destruct (pair_cmp x r) as [[]| |] eqn:P; try discriminate.
    simpl. apply pair_cmp_eq in P. rewrite tok_equal_sym in P. rewrite (pad_equal_trims x r E P). simpl.
    apply IHn; [lia | exact H].
Qed.

Lemma last_ok_nonempty_not_all_trim : forall l, l <> [] -> last_ok l = true -> forallb should_trim l = true -> False.
Proof.
  intros l NE LO AT. unfold last_ok in LO.
  destruct (rev l) as [|t r] eqn:E.
  - apply (f_equal (@rev mtok)) in E. rewrite rev_involutive in E. simpl in E. contradiction.
  - assert (In t l) as I by (apply in_rev; rewrite E; left; reflexivity).
    rewrite forallb_forall in AT. rewrite (AT t I) in LO. discriminate.
Qed.

Lemma last_ok_tail : forall x l, last_ok (x :: l) = true -> last_ok l = true.
Proof.
  intros x l. unfold last_ok. simpl. destruct (rev l) as [|t r]; [reflexivity|]. simpl. auto.
Qed.

Lemma posR_eq_imp_equal : forall n a b, length a <= n -> length b <= n -> last_ok a = true -> last_ok b = true ->
  posR n a b = Ok Eq -> mv_equal a b = true.
Proof.
  induction n; intros a b La Lb Oa Ob H.
  - destruct a; [|simpl in La; lia]. destruct b; [reflexivity | simpl in Lb; lia].
  - destruct a as [|x a], b as [|y b].
    + reflexivity.
    + exfalso. apply (last_ok_nonempty_not_all_trim (y :: b)); [discriminate | exact Ob|].
      apply (posR_nil_eq (S n)); assumption.
    + exfalso. apply (last_ok_nonempty_not_all_trim (x :: a)); [discriminate | exact Oa|].
      apply (posR_eq_nil (S n)); assumption.
    + unfold posR in H. cbn [lexnO map hd tl pos_cmp] in H.
      destruct (pair_cmp x y) as [[]| |] eqn:P; try discriminate.
      unfold mv_equal. simpl. rewrite (pair_cmp_eq _ _ P). simpl.
      apply (IHn a b); [simpl in La; lia | simpl in Lb; lia | eapply last_ok_tail; eauto | eapply last_ok_tail; eauto | exact H].
Qed.

Lemma cmp_maven_as_posR : forall v w,
  cmp_maven v w = if mv_equal (mv_tokens v) (mv_tokens w) then Ok Eq
                  else lift (unlift (posR (Nat.max (length (mv_tokens v)) (length (mv_tokens w))) (mv_tokens v) (mv_tokens w))).
Proof.
  intros v w. unfold cmp_maven. destruct (mv_equal (mv_tokens v) (mv_tokens w)); [reflexivity|].
  rewrite lt_loop_as_posR. destruct (unlift _) as [[]| |]; reflexivity.
Qed.

Definition wf_parts (l : list mtok) : Prop :=
  exists h t, l = h :: t /\ toks_canon l = true /\ last_ok t = true.

Lemma maven_wf_parts : forall v, maven_wf v = true -> wf_parts (mv_tokens v).
Proof.
  intros v H. unfold maven_wf in H. destruct (mv_tokens v) as [|h t]; [discriminate|].
  apply andb_true_iff in H as [H LO]. apply andb_true_iff in H as [H WF]. exists h, t. split; [reflexivity|]. split; [|exact LO].
  unfold toks_canon. apply forallb_forall. intros x I. rewrite forallb_forall in WF. specialize (WF x I).
  unfold tok_wf in WF. apply andb_true_iff in WF. tauto.
Qed.

Lemma cmp_maven_antisym : forall v w, maven_wf v = true -> maven_wf w = true ->
  cmp_maven w v = oppO (cmp_maven v w).
Proof.
  intros v w Hv Hw. rewrite !cmp_maven_as_posR. rewrite (mv_equal_sym (mv_tokens w)).
  destruct (mv_equal (mv_tokens v) (mv_tokens w)) eqn:E; [reflexivity|].
  destruct (maven_wf_parts v Hv) as (hv & tv & Ev & Cv & Lv). destruct (maven_wf_parts w Hw) as (hw & tw & Ew & Cw & Lw).
  rewrite (Nat.max_comm (length (mv_tokens w))).
  set (n := Nat.max (length (mv_tokens v)) (length (mv_tokens w))).
  rewrite (posR_antisym n _ _ Cv Cw).
  destruct (posR n (mv_tokens v) (mv_tokens w)) as [[]| |] eqn:R; try reflexivity.
  (* Ok Eq is impossible when the lists differ *)
  exfalso. rewrite Ev, Ew in R, E.
  unfold posR in R. cbn [lexnO map hd tl pos_cmp] in R.
  assert (n = S (Nat.max (length tv) (length tw))) as Hn by (unfold n; rewrite Ev, Ew; reflexivity).
  rewrite Hn in R. cbn [lexnO map hd tl pos_cmp] in R.
  destruct (pair_cmp hv hw) as [[]| |] eqn:P; try discriminate.
  unfold mv_equal in E. simpl in E. rewrite (pair_cmp_eq _ _ P) in E. simpl in E.
  assert (mv_equal tv tw = true) as K.
  { apply (posR_eq_imp_equal (Nat.max (length tv) (length tw))); try assumption; lia. }
  unfold mv_equal in K. rewrite K in E. discriminate.
Qed.

(* ================================================================== transitivity on the domain D *)
Definition mkey := (nat * (bytes * Z))%type.
Definition mkey_cmp : mkey -> mkey -> comparison := lexprod Nat.compare (lexprod bytes_cmp Z.compare).
Definition mzero : mkey := (6, ([], 0%Z)).

Lemma mkey_cmp_tp : TotalPreorder mkey_cmp.
Proof. apply lexprod_tp; [apply Natcompare_tp|]. apply lexprod_tp; [apply bytes_cmp_tp | apply Zcompare_tp]. Qed.

Definition is_dot (t : mtok) : bool := bytes_eqb (mt_prefix t) s_dot.

(* rank of a qualifier by keyword index: alpha..snapshot 0..4, "" 5 after '.', 6 (= absent) otherwise, sp 7, unknown 8 *)
Definition frank (dot : bool) (i : nat) : nat :=
  if i <? 5 then i else if i =? 5 then (if dot then 5 else 6) else S i.

Definition qkey (dot : bool) (v : bytes) : mkey :=
  let i := kw_idx v in (frank dot i, (if i =? 7 then v else [], 0%Z)).

(* numbers: above every qualifier; a '.'-prefixed 0 is the absent token *)
Definition tkey (t : mtok) : mkey :=
  match big_of_string (mt_value t) with
  | Some z => if is_dot t && (z =? 0)%Z then mzero else (9, ([], z))
  | None => qkey (is_dot t) (mt_value t)
  end.

Lemma frank_mono : forall d i j, i <= 7 -> j <= 7 -> Nat.compare (frank d i) (frank d j) = Nat.compare i j.
Proof.
  intros d i j Hi Hj.
  destruct d; do 8 (destruct i as [|i]; [do 8 (destruct j as [|j]; [reflexivity|]); lia|]); lia.
Qed.

Definition dgood (t : mtok) : bool := tok_wf t && (dot_qual_ok t && num_nonneg t).

Lemma dgood_facts : forall t, dgood t = true ->
  mt_null t = false /\ canon_value (mt_value t) = true /\
  (is_dot t = true -> big_of_string (mt_value t) = None -> kw_idx (mt_value t) < 6) /\
  (forall z, big_of_string (mt_value t) = Some z -> (0 <= z)%Z).
Proof.
  intros t H. unfold dgood, tok_wf, dot_qual_ok, num_nonneg in H.
  apply andb_true_iff in H as [H D]. apply andb_true_iff in H as [N C]. apply andb_true_iff in D as [D NN].
  apply negb_true_iff in N. repeat split; try assumption.
  - intros Dt B. unfold is_dot in Dt. rewrite Dt, B in D. simpl in D. apply Nat.ltb_lt in D. exact D.
  - intros z E. rewrite E in NN. apply Z.leb_le in NN. exact NN.
Qed.

Lemma thenc_eq_r' : forall c, thenc c Eq = c. Proof. destruct c; reflexivity. Qed.

Lemma qkey_cmp : forall d vx vy, vx <> vy ->
  mkey_cmp (qkey d vx) (qkey d vy) = match qual_lt vx vy with Ok true => Lt | _ => Gt end.
Proof.
  intros d vx vy NE. unfold mkey_cmp, lexprod, qkey, qual_lt. cbn [fst snd].
  rewrite (frank_mono d _ _ (kw_idx_le vx) (kw_idx_le vy)).
  destruct (Nat.eqb (kw_idx vx) 7) eqn:E1; destruct (Nat.eqb (kw_idx vy) 7) eqn:E2; cbn [andb].
  - apply Nat.eqb_eq in E1, E2. rewrite E1, E2. cbn [Nat.compare thenc]. rewrite Z.compare_refl, thenc_eq_r'.
    unfold bytes_ltb. destruct (bytes_cmp vx vy) eqn:C; try reflexivity. apply bytes_cmp_eq in C. contradiction.
  - apply Nat.eqb_eq in E1. apply Nat.eqb_neq in E2. pose proof (kw_idx_le vy).
    assert (kw_idx vy < kw_idx vx) as L by lia.
    rewrite (proj2 (Nat.compare_gt_iff _ _) L). cbn [thenc].
    destruct (Nat.ltb_spec (kw_idx vx) (kw_idx vy)); [lia | reflexivity].
  - apply Nat.eqb_eq in E2. apply Nat.eqb_neq in E1. pose proof (kw_idx_le vx).
    assert (kw_idx vx < kw_idx vy) as L by lia.
    rewrite (proj2 (Nat.compare_lt_iff _ _) L). cbn [thenc].
    destruct (Nat.ltb_spec (kw_idx vx) (kw_idx vy)); [reflexivity | lia].
  - apply Nat.eqb_neq in E1.
    assert (kw_idx vx <> kw_idx vy) as N by (intros K; apply NE; apply kw_idx_inj; assumption).
    destruct (Nat.compare_spec (kw_idx vx) (kw_idx vy)) as [K|K|K]; [contradiction| |]; cbn [thenc];
      destruct (Nat.ltb_spec (kw_idx vx) (kw_idx vy)); try reflexivity; lia.
Qed.

Lemma frank_lt6 : forall i, i < 6 -> frank true i < 6.
Proof. intros i H. do 6 (destruct i as [|i]; [unfold frank; simpl; lia|]); lia. Qed.

Lemma frank_le8 : forall d i, i <= 7 -> frank d i <= 8.
Proof. intros d i H. destruct d; do 8 (destruct i as [|i]; [unfold frank; simpl; lia|]); lia. Qed.

Lemma nat_cmp_lt : forall a b, a < b -> Nat.compare a b = Lt. Proof. intros. apply Nat.compare_lt_iff. assumption. Qed.
Lemma nat_cmp_gt : forall a b, b < a -> Nat.compare a b = Gt. Proof. intros. apply Nat.compare_gt_iff. assumption. Qed.

(* two present tokens with the same separator *)
Lemma pair_cmp_key : forall x y, dgood x = true -> dgood y = true ->
  bytes_eqb (mt_prefix x) (mt_prefix y) = true -> pair_cmp x y = Ok (mkey_cmp (tkey x) (tkey y)).
Proof.
  intros x y Gx Gy P.
  destruct (dgood_facts x Gx) as (Nx & Cx & Dx & Px). destruct (dgood_facts y Gy) as (Ny & Cy & Dy & Py).
  assert (is_dot x = is_dot y) as ED by (unfold is_dot; apply bytes_eqb_eq in P; rewrite P; reflexivity).
  unfold pair_cmp, tok_equal. rewrite P. cbn [andb].
  destruct (bytes_eqb (mt_value x) (mt_value y)) eqn:EV.
  - apply bytes_eqb_eq in EV. unfold tkey. rewrite ED, EV. rewrite (tp_refl _ mkey_cmp_tp). reflexivity.
  - apply bytes_eqb_neq in EV. unfold tok_lt. rewrite P. unfold tkey. rewrite <- ED.
    fold (qual_lt (mt_value x) (mt_value y)).
    destruct (big_of_string (mt_value x)) as [a|] eqn:Ea; destruct (big_of_string (mt_value y)) as [c|] eqn:Ec; cbn [is_some andb].
    + (* numbers *)
      pose proof (Px _ eq_refl) as Pa. pose proof (Py _ eq_refl) as Pc.
      assert (a <> c) as N by (intros ->; apply EV; eapply canon_inj; eauto).
      cbn [lift]. unfold mkey_cmp, lexprod, mzero.
      destruct (is_dot x); cbn [andb];
        destruct (Z.eqb_spec a 0), (Z.eqb_spec c 0); cbn [fst snd Nat.compare thenc]; try lia;
        destruct (Z.ltb_spec a c); destruct (Z.compare_spec a c); try lia; reflexivity.
    + (* number against qualifier *)
      rewrite Nx. cbn [negb lift]. unfold mkey_cmp, lexprod, mzero, qkey. cbn [fst snd].
      pose proof (kw_idx_le (mt_value y)) as Ly. pose proof (frank_le8 (is_dot x) _ Ly) as F8.
      destruct (is_dot x) eqn:Dt; cbn [andb].
      * assert (frank true (kw_idx (mt_value y)) < 6) as F6 by (apply frank_lt6; apply Dy; [symmetry; exact ED | reflexivity]).
        destruct (a =? 0)%Z; cbn [fst]; rewrite nat_cmp_gt by lia; reflexivity.
      * cbn [fst]. rewrite nat_cmp_gt by lia. reflexivity.
    + (* qualifier against number *)
      rewrite Ny. cbn [negb lift]. unfold mkey_cmp, lexprod, mzero, qkey. cbn [fst snd].
      pose proof (kw_idx_le (mt_value x)) as Lx. pose proof (frank_le8 (is_dot x) _ Lx) as F8.
      destruct (is_dot x) eqn:Dt; cbn [andb].
      * assert (frank true (kw_idx (mt_value x)) < 6) as F6 by (apply frank_lt6; apply Dx; reflexivity).
        destruct (c =? 0)%Z; cbn [fst]; rewrite nat_cmp_lt by lia; reflexivity.
      * cbn [fst]. rewrite nat_cmp_lt by lia. reflexivity.
    + (* qualifiers *)
      rewrite (qkey_cmp _ _ _ EV). unfold qual_lt. cbv zeta.
      destruct (Nat.eqb (kw_idx (mt_value x)) 7 && Nat.eqb (kw_idx (mt_value y)) 7);
        [destruct (bytes_ltb (mt_value x) (mt_value y)) | destruct (Nat.ltb (kw_idx (mt_value x)) (kw_idx (mt_value y)))]; reflexivity.
Qed.

Lemma qual_lt_ok : forall a c, exists q, qual_lt a c = Ok q.
Proof. intros a c. unfold qual_lt. cbv zeta. destruct (Nat.eqb (kw_idx a) 7 && Nat.eqb (kw_idx c) 7); eexists; reflexivity. Qed.

Lemma kw_idx_zero : kw_idx s_zero = 7. Proof. reflexivity. Qed.
Lemma kw_idx_empty : kw_idx [] = 5. Proof. reflexivity. Qed.

(* a present token against the padding of an absent one *)
Lemma pad_cmp_key : forall x, dgood x = true -> rest_prefix_ok x = true ->
  pos_cmp (Some x) None = Ok (mkey_cmp (tkey x) mzero) /\ pos_cmp None (Some x) = Ok (mkey_cmp mzero (tkey x)).
Proof.
  intros x Gx Px. destruct (dgood_facts x Gx) as (Nx & Cx & Dx & NNx).
  assert (pos_cmp None (Some x) = oppO (pos_cmp (Some x) None)) as AS by (apply pos_cmp_antisym; [exact Cx | reflexivity]).
  assert (pos_cmp (Some x) None = Ok (mkey_cmp (tkey x) mzero)) as K.
  2:{ split; [exact K|]. rewrite AS, K. simpl. rewrite <- (tp_antisym _ mkey_cmp_tp). reflexivity. }
  clear AS. unfold pos_cmp, null_of, rest_prefix_ok in *. rewrite ?empty_pad_is_sp.
  destruct (bytes_eqb (mt_prefix x) s_dot) eqn:Dt.
  - (* '.' : padding is a null "0" (the value cannot be "sp" inside D) *)
    assert (bytes_eqb (mt_value x) s_sp = false) as NS.
    { destruct (bytes_eqb (mt_value x) s_sp) eqn:E; [|reflexivity]. apply bytes_eqb_eq in E.
      assert (kw_idx (mt_value x) < 6) as K by (apply Dx; [exact Dt | rewrite E; reflexivity]). rewrite E in K. cbv in K. lia. }
    rewrite NS. cbn [obind]. unfold pair_cmp, tok_equal. cbn [mt_prefix mt_value]. rewrite Dt. cbn [andb].
    unfold tkey, is_dot. rewrite Dt.
    destruct (big_of_string (mt_value x)) as [a|] eqn:Ea.
    + pose proof (NNx _ eq_refl) as Pa.
      destruct (bytes_eqb (mt_value x) s_zero) eqn:EZ.
      * apply bytes_eqb_eq in EZ. rewrite EZ in Ea. cbv in Ea. injection Ea as <-. reflexivity.
      * assert (a <> 0%Z) as N.
        { intros ->. apply bytes_eqb_neq in EZ. apply EZ. eapply canon_inj; eauto. }
        unfold tok_lt. cbn [mt_prefix mt_value]. rewrite Dt, Ea. change (big_of_string s_zero) with (Some 0%Z).
        cbn [andb lift]. destruct (Z.eqb_spec a 0); [contradiction|].
        destruct (Z.ltb_spec a 0); [lia|]. reflexivity.
    + assert (bytes_eqb (mt_value x) s_zero = false) as EZ.
      { destruct (bytes_eqb (mt_value x) s_zero) eqn:E; [|reflexivity]. apply bytes_eqb_eq in E. rewrite E in Ea. discriminate. }
      rewrite EZ. unfold tok_lt. cbn [mt_prefix mt_value mt_null]. rewrite Dt, Ea. change (big_of_string s_zero) with (Some 0%Z).
      cbn [is_some andb negb]. rewrite kw_idx_zero.
      assert (kw_idx (mt_value x) < 6) as K by (apply Dx; [exact Dt | reflexivity]).
      assert (Nat.eqb (kw_idx (mt_value x)) 7 = false) as -> by (apply Nat.eqb_neq; lia). cbn [andb].
      assert (Nat.ltb (kw_idx (mt_value x)) 7 = true) as -> by (apply Nat.ltb_lt; lia). cbn [lift].
      unfold qkey, mkey_cmp, lexprod, mzero. cbn [fst]. rewrite nat_cmp_lt by (apply frank_lt6; exact K). reflexivity.
  - (* '-' : padding is a null "" *)
    simpl in Px. rewrite Px. cbn [obind]. unfold pair_cmp, tok_equal. cbn [mt_prefix mt_value]. rewrite Px. cbn [andb].
    unfold tkey, is_dot. rewrite Dt. cbn [andb].
    destruct (big_of_string (mt_value x)) as [a|] eqn:Ea.
    + assert (bytes_eqb (mt_value x) [] = false) as EZ.
      { destruct (bytes_eqb (mt_value x) []) eqn:E; [|reflexivity]. apply bytes_eqb_eq in E. rewrite E in Ea. discriminate. }
      rewrite EZ. unfold tok_lt. cbn [mt_prefix mt_value mt_null]. rewrite Px, Ea. change (big_of_string []) with (@None Z).
      cbn [is_some andb]. rewrite Nx. cbn [negb lift]. reflexivity.
    + destruct (bytes_eqb (mt_value x) []) eqn:EZ.
      * apply bytes_eqb_eq in EZ. rewrite EZ. reflexivity.
      * apply bytes_eqb_neq in EZ. unfold tok_lt. cbn [mt_prefix mt_value mt_null]. rewrite Px, Ea. change (big_of_string []) with (@None Z).
        cbn [is_some andb]. fold (qual_lt (mt_value x) []).
        change mzero with (qkey false []). rewrite (qkey_cmp false _ _ EZ).
        destruct (qual_lt_ok (mt_value x) []) as [q ->]. destruct q; reflexivity.
Qed.

Definition tailgood (t : mtok) : bool := dgood t && rest_prefix_ok t.

Lemma tails_key : forall a b, forallb tailgood a = true -> forallb tailgood b = true -> compat a b = true ->
  lexpadO None pos_cmp (map Some a) (map Some b) = Ok (lexpad mzero mkey_cmp (map tkey a) (map tkey b)).
Proof.
  induction a as [|x a IH]; intros b Ha Hb C.
  - induction b as [|y b IHb]; [reflexivity|].
    simpl in Hb. apply andb_true_iff in Hb as [Hy Hb]. unfold tailgood in Hy. apply andb_true_iff in Hy as [Gy Py].
    cbn [map]. rewrite lexpadO_nil_cons, lexpad_nil_cons.
    rewrite (proj2 (pad_cmp_key y Gy Py)). change (@nil (option mtok)) with (map Some (@nil mtok)).
    rewrite (IHb Hb eq_refl). destruct (mkey_cmp mzero (tkey y)); reflexivity.
  - simpl in Ha. apply andb_true_iff in Ha as [Hx Ha]. unfold tailgood in Hx. apply andb_true_iff in Hx as [Gx Px].
    destruct b as [|y b].
    + cbn [map]. rewrite lexpadO_cons_nil, lexpad_cons_nil.
      rewrite (proj1 (pad_cmp_key x Gx Px)). change (@nil (option mtok)) with (map Some (@nil mtok)).
      rewrite (IH [] Ha eq_refl); [|destruct a; reflexivity]. destruct (mkey_cmp (tkey x) mzero); reflexivity.
    + simpl in Hb. apply andb_true_iff in Hb as [Hy Hb]. unfold tailgood in Hy. apply andb_true_iff in Hy as [Gy Py].
      simpl in C. apply andb_true_iff in C as [Pxy C].
      cbn [map]. rewrite lexpadO_cons_cons, lexpad_cons_cons.
      change (pos_cmp (Some x) (Some y)) with (pair_cmp x y). rewrite (pair_cmp_key x y Gx Gy Pxy).
      rewrite (IH b Ha Hb C). destruct (mkey_cmp (tkey x) (tkey y)); reflexivity.
Qed.

Definition mkeys (v : maven) : list mkey := map tkey (mv_tokens v).
Definition cmp_maven_pure (v w : maven) : comparison := by_key mkeys (lexpad mzero mkey_cmp) v w.

Lemma cmp_maven_pure_tp : TotalPreorder cmp_maven_pure.
Proof. apply by_key_tp, lexpad_total_preorder, mkey_cmp_tp. Qed.

Lemma mv_equal_keys : forall a b, mv_equal a b = true -> map tkey a = map tkey b.
Proof.
  unfold mv_equal. induction a as [|x a IH]; destruct b as [|y b]; simpl; intros H; try discriminate; [reflexivity|].
  apply andb_true_iff in H as [E H]. unfold tok_equal in E. apply andb_true_iff in E as [E1 E2].
  apply bytes_eqb_eq in E1, E2. f_equal; [|apply IH; exact H].
  unfold tkey, is_dot. rewrite E1, E2. reflexivity.
Qed.

Lemma valid_maven_parts : forall v, valid_maven v = true ->
  exists h t, mv_tokens v = h :: t /\ is_nil (mt_prefix h) = true /\ dgood h = true /\ forallb tailgood t = true /\ last_ok t = true.
Proof.
  intros v H. unfold valid_maven, maven_wf in H. apply andb_true_iff in H as [W D].
  destruct (mv_tokens v) as [|h t]; [discriminate|]. exists h, t.
  apply andb_true_iff in W as [W LO]. apply andb_true_iff in W as [W WF]. apply andb_true_iff in W as [PH PT].
  simpl in WF, D. apply andb_true_iff in WF as [WFh WFt]. apply andb_true_iff in D as [Dh Dt].
  repeat split; try assumption.
  - unfold dgood. rewrite WFh, Dh. reflexivity.
  - apply forallb_forall. intros x I. rewrite forallb_forall in PT, WFt, Dt.
    unfold tailgood, dgood. rewrite (WFt x I), (PT x I). specialize (Dt x I). cbv beta in Dt. rewrite Dt. reflexivity.
Qed.

Lemma cmp_maven_on_D : forall v w, valid_maven v = true -> valid_maven w = true ->
  compat (mv_tokens v) (mv_tokens w) = true -> cmp_maven v w = Ok (cmp_maven_pure v w).
Proof.
  intros v w Hv Hw C.
  destruct (valid_maven_parts v Hv) as (hv & tv & Ev & Nv & Gv & Tv & Lv).
  destruct (valid_maven_parts w Hw) as (hw & tw & Ew & Nw & Gw & Tw & Lw).
  rewrite cmp_maven_as_posR. unfold cmp_maven_pure, by_key, mkeys.
  destruct (mv_equal (mv_tokens v) (mv_tokens w)) eqn:E.
  - rewrite (mv_equal_keys _ _ E). rewrite (tp_refl _ (lexpad_total_preorder mzero mkey_cmp mkey_cmp_tp)). reflexivity.
  - rewrite Ev, Ew in *. simpl in C. apply andb_true_iff in C as [Ph C].
    assert (posR (Nat.max (length (hv :: tv)) (length (hw :: tw))) (hv :: tv) (hw :: tw) =
            Ok (lexpad mzero mkey_cmp (map tkey (hv :: tv)) (map tkey (hw :: tw)))) as R.
    { unfold posR.
      rewrite <- (map_length (@Some mtok) (hv :: tv)), <- (map_length (@Some mtok) (hw :: tw)).
      change (lexpadO None pos_cmp (map Some (hv :: tv)) (map Some (hw :: tw)) =
              Ok (lexpad mzero mkey_cmp (map tkey (hv :: tv)) (map tkey (hw :: tw)))).
      cbn [map]. rewrite lexpadO_cons_cons, lexpad_cons_cons.
      change (pos_cmp (Some hv) (Some hw)) with (pair_cmp hv hw). rewrite (pair_cmp_key hv hw Gv Gw Ph).
      rewrite (tails_key tv tw Tv Tw C). destruct (mkey_cmp (tkey hv) (tkey hw)); reflexivity. }
    rewrite R.
    destruct (lexpad mzero mkey_cmp (map tkey (hv :: tv)) (map tkey (hw :: tw))) eqn:K; try reflexivity.
    (* Eq is impossible: the token lists differ and trailing null values were trimmed *)
    exfalso. unfold posR in R. cbn [length Nat.max map] in R.
    cbn [lexnO hd tl pos_cmp] in R.
    destruct (pair_cmp hv hw) as [[]| |] eqn:P; try discriminate.
    unfold mv_equal in E. simpl in E. rewrite (pair_cmp_eq _ _ P) in E. simpl in E.
    assert (mv_equal tv tw = true) as Q.
    { apply (posR_eq_imp_equal (Nat.max (length tv) (length tw))); try assumption; lia. }
    unfold mv_equal in Q. rewrite Q in E. discriminate.
Qed.

Lemma compat_sym : forall a b, compat a b = compat b a.
Proof. induction a; destruct b; simpl; try reflexivity. rewrite bytes_eqb_sym, IHa. reflexivity. Qed.

Lemma cmp_maven_laws_on_D : forall u v w,
  valid_maven u = true -> valid_maven v = true -> valid_maven w = true -> maven_rel u v w = true ->
  (leO (cmp_maven u v) = true -> leO (cmp_maven v w) = true -> leO (cmp_maven u w) = true) /\
  (cmp_maven u v = Ok Eq -> cmp_maven u w = cmp_maven v w).
Proof.
  intros u v w Hu Hv Hw R. unfold maven_rel in R.
  apply andb_true_iff in R as [R Cuw]. apply andb_true_iff in R as [Cuv Cvw].
  rewrite (cmp_maven_on_D u v Hu Hv Cuv), (cmp_maven_on_D v w Hv Hw Cvw), (cmp_maven_on_D u w Hu Hw Cuw).
  pose proof cmp_maven_pure_tp as TP. split.
  - unfold leO. intros H1 H2. pose proof (tp_trans_le _ TP u v w) as T.
    destruct (cmp_maven_pure u v); try discriminate; destruct (cmp_maven_pure v w); try discriminate;
      destruct (cmp_maven_pure u w); try reflexivity; exfalso; apply T; first [discriminate | reflexivity].
  - intros E. assert (cmp_maven_pure u v = Eq) as E' by congruence. f_equal. apply (tp_eq_compat_l _ TP); exact E'.
Qed.

(* Model of semantic/version-cran.go (after fix 38e33aec). No proofs here.
   parseCRANVersion ignores the ok flag of big.Int.SetString: a component that is not a decimal
   number (including the empty string) becomes a nil *big.Int; cranVersion.compare would dereference
   it, but CompareStr now refuses such versions with ErrInvalidVersion before comparing. *)
From Coq Require Import List ZArith NArith Bool.
From Scalibr Require Import Semantic.Cmp Semantic.LexPad Semantic.Bytes.
Import ListNotations.
Open Scope N_scope.

(* type cranVersion struct { components components } *)
Record cran := { cr_comps : list (option Z) }.

(* strings.Split(strings.ReplaceAll(str, "-", "."), ".") then SetString on every part *)
Definition parse_cran (s : bytes) : outcome cran :=
  Ok {| cr_comps := map big_of_string (split_on 46 (map (fun c => if c =? 45 then 46 else c) s)) |}.

(* cranVersion.compare: padded component comparison, then the longer version is greater
   (panics on a nil component when the other side has a number there) *)
Definition cmp_cran_raw (v w : cran) : outcome comparison :=
  thenO (comps_cmp (cr_comps v) (cr_comps w))
        (Ok (Nat.compare (length (cr_comps v)) (length (cr_comps w)))).

(* cranVersion.valid *)
Definition valid_cran (v : cran) : bool := forallb is_some (cr_comps v).

(* cranVersion.CompareStr after parsing its argument: if !v.valid() || !w.valid() { return 0, ErrInvalidVersion } *)
Definition cmp_cran (v w : cran) : outcome comparison :=
  if valid_cran v && valid_cran w then cmp_cran_raw v w else Err.

Definition compare_str_cran (a b : bytes) : outcome comparison :=
  obind (parse_cran a) (fun v => obind (parse_cran b) (fun w => cmp_cran v w)).

(* valid = every component is a number (the CRAN grammar: integers separated by '.' or '-') *)
(* the same on strings *)
Definition valid_cran_string (s : bytes) : bool :=
  match parse_cran s with Ok v => valid_cran v | _ => false end.

Definition cran_eqb (v w : cran) : bool := list_eqb optZ_eqb (cr_comps v) (cr_comps w).

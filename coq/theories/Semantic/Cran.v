(* Model of semantic/version-cran.go. No proofs here.
   parseCRANVersion ignores the ok flag of big.Int.SetString: a component that is not a decimal
   number (including the empty string) becomes a nil *big.Int, and components.Cmp dereferences it. *)
From Coq Require Import List ZArith NArith Bool.
From Scalibr Require Import Semantic.Cmp Semantic.LexPad Semantic.Bytes.
Import ListNotations.
Open Scope N_scope.

(* type cranVersion struct { components components } *)
Record cran := { cr_comps : list (option Z) }.

(* strings.Split(strings.ReplaceAll(str, "-", "."), ".") then SetString on every part *)
Definition parse_cran (s : bytes) : outcome cran :=
  Ok {| cr_comps := map big_of_string (split_on 46 (map (fun c => if c =? 45 then 46 else c) s)) |}.

(* cranVersion.compare: padded component comparison, then the longer version is greater *)
Definition cmp_cran (v w : cran) : outcome comparison :=
  thenO (comps_cmp (cr_comps v) (cr_comps w))
        (Ok (Nat.compare (length (cr_comps v)) (length (cr_comps w)))).

Definition compare_str_cran (a b : bytes) : outcome comparison :=
  obind (parse_cran a) (fun v => obind (parse_cran b) (fun w => cmp_cran v w)).

(* valid = every component is a number (the CRAN grammar: integers separated by '.' or '-') *)
Definition valid_cran (v : cran) : bool := forallb is_some (cr_comps v).

(* the same on strings *)
Definition valid_cran_string (s : bytes) : bool :=
  match parse_cran s with Ok v => valid_cran v | _ => false end.

Definition cran_eqb (v w : cran) : bool := list_eqb optZ_eqb (cr_comps v) (cr_comps w).

(* Formats/Requirements.v - model of extractor/filesystem/language/python/requirements (requirements.txt)
   with its regular expressions written out as string functions, and the record/layout/render/expected
   specification of the pinned (name==version) sub-grammar.  Model + spec only, no proofs. *)
From Coq Require Import List NArith Bool.
From Scalibr Require Import Formats.Lines.
Import ListNotations.
Open Scope N_scope.

Definition HASH : N := 35.
Definition BSLASH : N := 92.
Definition SEMI : N := 59.
Definition LBR : N := 91.
Definition RBR : N := 93.
Definition DASH : N := 45.
Definition EQ : N := 61.

(* Go regexp \s = [\t\n\f\r ] *)
Definition re_space (c : N) : bool := (c =? 9) || (c =? 10) || (c =? 12) || (c =? 13) || (c =? 32).
(* \w = [0-9A-Za-z_] *)
Definition word_byte (c : N) : bool :=
  ((48 <=? c) && (c <=? 57)) || ((65 <=? c) && (c <=? 90)) || ((97 <=? c) && (c <=? 122)) || (c =? 95).

(* ------------------------------------------------------------------ the regular expressions, by hand *)
(* reComment (^|\s+)#.*$ replaced by "": cut before the white-space run that precedes the first '#'
   standing at the start of the line or after white space.
   ws = the pending white-space run (reversed); at_start = nothing but that run seen so far *)
Fixpoint rm_comment (s : bytes) (ws : bytes) (prev_space_or_start : bool) : bytes :=
  match s with
  | [] => rev ws
  | c :: r =>
      if (c =? HASH) && prev_space_or_start then []
      else if re_space c then rm_comment r (c :: ws) true
      else rev ws ++ c :: rm_comment r [] false
  end.
Definition remove_comments (s : bytes) : bytes := rm_comment s [] true.

(* reEnvVar \$\{[A-Z0-9_]+\} *)
Definition env_byte (c : N) : bool := ((65 <=? c) && (c <=? 90)) || ((48 <=? c) && (c <=? 57)) || (c =? 95).
Fixpoint env_body (s : bytes) (seen : bool) : bool :=    (* after "${": [A-Z0-9_]+ then '}' *)
  match s with
  | [] => false
  | c :: r => if env_byte c then env_body r true else (c =? 125) && seen
  end.
Fixpoint has_env_var (s : bytes) : bool :=
  match s with
  | [] => false
  | c :: r => ((c =? 36) && match r with d :: r2 => (d =? 123) && env_body r2 false | [] => false end) || has_env_var r
  end.

Fixpoint ends_with_bslash (s : bytes) : bool :=
  match s with [] => false | [c] => c =? BSLASH | _ :: r => ends_with_bslash r end.
Fixpoint drop_last (s : bytes) : bytes := match s with [] => [] | [_] => [] | c :: r => c :: drop_last r end.

(* reTextAfterFirstOptionInclusive (?:^|\s)(?:--hash|--global-option|--config-settings|-C).* replaced by "" *)
Definition s_hash : bytes := [45;45;104;97;115;104].
Definition s_global_option : bytes := [45;45;103;108;111;98;97;108;45;111;112;116;105;111;110].
Definition s_config_settings : bytes := [45;45;99;111;110;102;105;103;45;115;101;116;116;105;110;103;115].
Definition s_dashC : bytes := [45;67].
Definition option_here (s : bytes) : bool :=
  has_prefix s_hash s || has_prefix s_global_option s || has_prefix s_config_settings s || has_prefix s_dashC s.
(* the pattern is (?:^|\s)(?:--hash|...|-C).* : an option marker counts only at the start of the line or directly
   after a white-space byte, and the cut starts at that white-space byte *)
Fixpoint cut_opt_ws (s : bytes) : bytes :=
  match s with [] => [] | c :: r => if re_space c && option_here r then [] else c :: cut_opt_ws r end.
Definition cut_options (s : bytes) : bytes := if option_here s then [] else cut_opt_ws s.

(* reWhitespace [ \t\r] removed *)
Definition rw_space (c : N) : bool := (c =? 32) || (c =? 9) || (c =? 13).
Definition remove_ws (s : bytes) : bytes := filter (fun c => negb (rw_space c)) s.

(* strings.SplitN(s, ";", 2)[0] *)
Definition before_semi (s : bytes) : outcome bytes :=
  index (match cut SEMI s with Some (a, b) => [a; b] | None => [s] end) 0.

(* reExtras \[[^\[\]]*\] removed.  pend = Some buf: an unclosed '[' and what followed it (reversed) *)
Fixpoint rm_extras (s : bytes) (pend : option bytes) : bytes :=
  match s with
  | [] => match pend with Some buf => LBR :: rev buf | None => [] end
  | c :: r =>
      if c =? LBR then
        match pend with
        | Some buf => LBR :: rev buf ++ rm_extras r (Some [])
        | None => rm_extras r (Some [])
        end
      else if c =? RBR then
        match pend with
        | Some _ => rm_extras r None
        | None => c :: rm_extras r None
        end
      else
        match pend with
        | Some buf => rm_extras r (Some (c :: buf))
        | None => c :: rm_extras r None
        end
  end.
Definition remove_extras (s : bytes) : bytes := rm_extras s None.

(* strings.Contains / strings.Cut for multi-byte separators *)
Fixpoint find_sub (sep s : bytes) : option (bytes * bytes) :=
  match s with
  | [] => if is_nil sep then Some ([], []) else None
  | c :: r => if has_prefix sep s then Some ([], skipn (length sep) s)
              else match find_sub sep r with Some (a, b) => Some (c :: a, b) | None => None end
  end.
Definition cut_at (sep s : bytes) : bytes := match find_sub sep s with Some (a, _) => a | None => s end.

(* reUnsupportedConstraints \*|<[^=]|,|!= *)
Fixpoint unsupported (s : bytes) : bool :=
  match s with
  | [] => false
  | c :: r =>
      (c =? 42) || (c =? 44) ||
      ((c =? 60) && match r with d :: _ => negb (d =? EQ) | [] => false end) ||
      ((c =? 33) && match r with d :: _ => d =? EQ | [] => false end) ||
      unsupported r
  end.

Definition s_eq3 : bytes := [61;61;61].
Definition s_eq2 : bytes := [61;61].
Definition s_ge : bytes := [62;61].
Definition s_le : bytes := [60;61].
Definition s_compat : bytes := [126;61].
Definition s_ne : bytes := [33;61].
Definition s_lt : bytes := [60].

(* nameFromRequirement *)
Definition name_from_requirement (s : bytes) : bytes :=
  fold_left (fun acc sep => cut_at sep acc) [s_eq3; s_eq2; s_ge; s_le; s_compat; s_ne; s_lt] s.

(* getLowestVersion: (name, version, has_comparator) *)
Definition lowest_version (s : bytes) : bytes * bytes * bool :=
  if unsupported s then (name_from_requirement s, [], false)
  else
    let try := fix try (seps : list bytes) : option (bytes * bytes) :=
      match seps with
      | [] => None
      | sep :: rest => match find_sub sep s with Some ab => Some ab | None => try rest end
      end in
    match try [s_eq3; s_eq2; s_ge; s_le; s_compat] with
    | Some (a, b) => (a, b, true)
    | None => (s, [], false)
    end.

(* reValidPkg ^\w(\w|-)+$ *)
Definition valid_pkg (s : bytes) : bool :=
  match s with
  | c :: (_ :: _) as r => word_byte c && forallb (fun x => word_byte x || (x =? DASH)) r
  | _ => false
  end.

(* ------------------------------------------------------------------ the extractor *)
(* one logical line (continuations already joined) *)
Definition req_logical (l : bytes) : outcome (list pkg) :=
  let l := cut_options l in
  let l := remove_ws l in
  bind (before_semi l) (fun l =>
    let l := remove_extras l in
    if is_nil l then Ok []
    else if has_prefix [DASH] l then Ok []            (* options; -r files are not present in this setting *)
    else
      let '(name, version, comp) := lowest_version l in
      if is_nil name then Ok []
      else if is_nil version && comp then Ok []
      else if negb (valid_pkg name) then Ok []
      else Ok [(name, version)]).

(* extractFromPath + readLine: builder = text collected from continued lines; None = not inside a continuation.
   A line with ${VAR} makes readLine return "" (dropping what was collected). *)
Fixpoint req_lines (ls : list bytes) (toolong : bool) (builder : option bytes) : outcome (list pkg) :=
  match ls with
  | [] =>
      (* scanner.Scan() failed inside readLine: Text() is "", the collected text is the logical line *)
      match builder with
      | Some b => match req_logical b with
                  | Ok ps => if toolong then Err ETooLong else Ok ps
                  | o => o
                  end
      | None => if toolong then Err ETooLong else Ok []
      end
  | l :: r =>
      let l := remove_comments l in
      if has_env_var l then
        match req_logical [] with Ok ps => cons_out ps (req_lines r toolong None) | o => o end
      else if ends_with_bslash l then
        req_lines r toolong (Some (match builder with Some b => b | None => [] end ++ drop_last l))
      else
        match req_logical (match builder with Some b => b | None => [] end ++ l) with
        | Ok ps => cons_out ps (req_lines r toolong None)
        | o => o
        end
  end.

Definition parse_requirements (s : bytes) : outcome (list pkg) :=
  let (toks, toolong) := scan_lines s in req_lines toks toolong None.

(* ------------------------------------------------------------------ records, layout, render *)
Record rq_rec := { rq_name : bytes; rq_version : bytes }.

(* lines without a requirement: blank, comment, option lines such as "-i URL", "--index-url URL", "-e ." *)
Inductive rq_noise :=
| RBlank (ws : bytes)
| RComment (lead text : bytes)
| ROption (text : bytes).          (* rendered as "-" ++ text *)

(* rl_cont = Some (e, ws): the requirement is continued with a backslash after the "==" (and the blanks rl_ws2): the
   first physical line ends in "\" with line ending e, the second one starts with the blanks ws *)
Record rq_rlay := { rl_before : list (rq_noise * eol); rl_lead : bytes; rl_ws1 : bytes; rl_ws2 : bytes; rl_trail : bytes; rl_eol : eol;
                    rl_cont : option (eol * bytes) }.
Definition rq_rlay_default : rq_rlay := {| rl_before := []; rl_lead := []; rl_ws1 := []; rl_ws2 := []; rl_trail := []; rl_eol := LF; rl_cont := None |}.
Record rq_layout := { ry_recs : list rq_rlay; ry_after : list (rq_noise * eol); ry_final_nl : bool }.

Definition rq_line (r : rq_rec) (y : rq_rlay) : bytes :=
  rl_lead y ++ rq_name r ++ rl_ws1 y ++ s_eq2 ++ rl_ws2 y ++ rq_version r ++ rl_trail y.
(* the physical line(s) of one requirement *)
Definition rq_head (r : rq_rec) (y : rq_rlay) : bytes := rl_lead y ++ rq_name r ++ rl_ws1 y ++ s_eq2 ++ rl_ws2 y.
Definition rq_phys_lines (r : rq_rec) (y : rq_rlay) : list (bytes * eol) :=
  match rl_cont y with
  | None => [(rq_line r y, rl_eol y)]
  | Some (e, ws) => [(rq_head r y ++ [BSLASH], e); (ws ++ rq_version r ++ rl_trail y, rl_eol y)]
  end.
Definition rq_noise_content (n : rq_noise) : bytes :=
  match n with
  | RBlank ws => ws
  | RComment lead text => lead ++ HASH :: text
  | ROption text => DASH :: text
  end.
Definition rq_noise_lines (ns : list (rq_noise * eol)) : list (bytes * eol) :=
  map (fun ne => (rq_noise_content (fst ne), snd ne)) ns.
Fixpoint rq_recs_lines (rs : list rq_rec) (ys : list rq_rlay) : list (bytes * eol) :=
  match rs with
  | [] => []
  | r :: rs' =>
      let y := hd rq_rlay_default ys in
      rq_noise_lines (rl_before y) ++ rq_phys_lines r y ++ rq_recs_lines rs' (tl ys)
  end.
Definition rq_file_lines (rs : list rq_rec) (l : rq_layout) : list (bytes * eol) :=
  rq_recs_lines rs (ry_recs l) ++ rq_noise_lines (ry_after l).
Definition render_requirements (rs : list rq_rec) (l : rq_layout) : bytes :=
  render_lines (rq_file_lines rs l) (ry_final_nl l).
Definition expected_requirements (rs : list rq_rec) : list pkg := map (fun r => (rq_name r, rq_version r)) rs.

(* well-formed pinned requirements: PEP 508 project names (letters, digits, '.', '_', '-'; first and last
   alphanumeric) and versions made of letters, digits, '.', '+', '_' *)
Definition alnum (c : N) : bool := ((48 <=? c) && (c <=? 57)) || ((65 <=? c) && (c <=? 90)) || ((97 <=? c) && (c <=? 122)).
Definition name_byte (c : N) : bool := alnum c || (c =? 46) || (c =? 95) || (c =? DASH).
Definition ver_byte (c : N) : bool := alnum c || (c =? 46) || (c =? 43) || (c =? 95).
Definition wf_rq_name (n : bytes) : bool :=
  match n with c :: _ => alnum c | [] => false end && alnum (last n 0) && forallb name_byte n.
Definition wf_rq_rec (r : rq_rec) : bool :=
  wf_rq_name (rq_name r) && negb (is_nil (rq_version r)) && forallb ver_byte (rq_version r).
Definition wf_rq_records (rs : list rq_rec) : bool := forallb wf_rq_rec rs.

Definition all_blank (l : bytes) : bool := forallb blank_byte l.
Definition all_text (l : bytes) : bool := forallb text_byte l.
(* option lines: printable text without '#', '$', '\' *)
Definition opt_byte (c : N) : bool := text_byte c && negb (c =? HASH) && negb (c =? 36) && negb (c =? BSLASH).
Definition wf_rq_noise (n : rq_noise) : bool :=
  match n with
  | RBlank ws => all_blank ws
  | RComment lead text => all_blank lead && all_text text
  | ROption text => forallb opt_byte text
  end.
Definition wf_rq_rlay (y : rq_rlay) : bool :=
  forallb (fun ne => wf_rq_noise (fst ne)) (rl_before y) &&
  all_blank (rl_lead y) && all_blank (rl_ws1 y) && all_blank (rl_ws2 y) && all_blank (rl_trail y) &&
  match rl_cont y with Some (_, ws) => all_blank ws | None => true end.
Definition wf_rq_layout (rs : list rq_rec) (l : rq_layout) : bool :=
  forallb wf_rq_rlay (ry_recs l) && forallb (fun ne => wf_rq_noise (fst ne)) (ry_after l) &&
  forallb (fun le => len_N (fst le) + 1 <? max_token) (rq_file_lines rs l) &&
  last_line_ok (rq_file_lines rs l) (ry_final_nl l).

(* the domain D on which the extractor is exact: names the extractor's own name pattern accepts (at least
   two characters, no '.') *)
Definition rq_in_D (rs : list rq_rec) (l : rq_layout) : bool := forallb (fun r => valid_pkg (rq_name r)) rs.

(* ------------------------------------------------------------------ correspondence record *)
Record requirements_case := {
  rqc_claim : option (list rq_rec * rq_layout);
  rqc_bytes : bytes;
  rqc_obs : outcome (list pkg)
}.
Definition requirements_case_render_ok (c : requirements_case) : bool :=
  match rqc_claim c with None => true | Some (rs, l) => bytes_eqb (render_requirements rs l) (rqc_bytes c) end.
Definition requirements_case_model_ok (c : requirements_case) : bool :=
  pkgs_outcome_eqb (parse_requirements (rqc_bytes c)) (rqc_obs c).
(* claimed = well-formed AND inside D (the oracle is restricted to D; outside D see KNOWN_FINDINGS.d/C03.json) *)
Definition requirements_case_claimed (c : requirements_case) : bool :=
  match rqc_claim c with None => false | Some (rs, l) => wf_rq_records rs && wf_rq_layout rs l && rq_in_D rs l end.
Definition requirements_case_wf_outside_D (c : requirements_case) : bool :=
  match rqc_claim c with None => false | Some (rs, l) => wf_rq_records rs && wf_rq_layout rs l && negb (rq_in_D rs l) end.
Definition requirements_case_spec_ok (c : requirements_case) : bool :=
  match rqc_claim c with
  | None => negb (is_panic (rqc_obs c))
  | Some (rs, l) =>
      negb (wf_rq_records rs && wf_rq_layout rs l && rq_in_D rs l) ||
      pkgs_outcome_eqb (rqc_obs c) (Ok (expected_requirements rs))
  end.
(* the full-strength statement evaluated on the implementation's output, D ignored: used to recognise the
   known findings (a well-formed file outside D on which the extractor is wrong) *)
Definition requirements_case_full_spec_ok (c : requirements_case) : bool :=
  match rqc_claim c with
  | None => true
  | Some (rs, l) => negb (wf_rq_records rs && wf_rq_layout rs l) || pkgs_outcome_eqb (rqc_obs c) (Ok (expected_requirements rs))
  end.

(* C03 - well-formed package databases are reported completely and exactly.
   Only statements here; proofs are in the <Format>Proofs.v files. *)
From Coq Require Import List NArith Bool Permutation.
From Scalibr Require Import Formats.Lines Formats.Apk Formats.ApkProofs Formats.Gradle Formats.GradleProofs
  Formats.Gemfile Formats.GemfileProofs Formats.Dpkg Formats.DpkgProofs
  Formats.Structs Formats.StructsProofs Formats.Structs2 Formats.Structs2Proofs
  Formats.Requirements Formats.RequirementsProofs Formats.GoModBytes Formats.GoModBytesProofs.
Import ListNotations.
Open Scope N_scope.

(* ------------------------------------------------------------------ apk installed (byte level) *)
(* For ANY number of well-formed records and ANY permitted layout (P/V position among the other
   fields, LF or CRLF per line, one or more blank lines between records, leading/trailing blank
   lines, final newline present or not) the extractor model returns exactly the records, in order. *)
Theorem apk_roundtrip : forall rs l,
  wf_apk_records rs = true -> wf_apk_layout rs l = true ->
  parse_apk (render_apk rs l) = Ok (expected_apk rs).
Proof. exact apk_roundtrip_lemma. Qed.
Print Assumptions apk_roundtrip.

Theorem apk_layout_irrelevant : forall rs l1 l2,
  wf_apk_records rs = true -> wf_apk_layout rs l1 = true -> wf_apk_layout rs l2 = true ->
  parse_apk (render_apk rs l1) = parse_apk (render_apk rs l2).
Proof. exact apk_layout_irrelevant_lemma. Qed.
Print Assumptions apk_layout_irrelevant.

(* non-vacuity: two records, CRLF + no final newline + P after V + extra fields *)
Definition ex_apk_rs : list apk_rec :=
  [ {| ar_name := [109;117;115;108]; ar_version := [49;46;50;45;114;48];
       ar_extras := [([65], [120;56;54]); ([111], [109;117;115;108])] |};
    {| ar_name := [122]; ar_version := [49]; ar_extras := [] |} ].
Definition ex_apk_l : apk_layout :=
  {| al_lead := [LF; CRLF];
     al_recs := [ {| al_posV := 1; al_posP := 3; al_eols := [CRLF; LF; CRLF]; al_sep1 := CRLF; al_sep := [LF] |} ];
     al_trail := []; al_final_nl := false |}.
Example apk_example_wf : wf_apk_records ex_apk_rs && wf_apk_layout ex_apk_rs ex_apk_l = true.
Proof. vm_compute. reflexivity. Qed.
Example apk_example_run :
  parse_apk (render_apk ex_apk_rs ex_apk_l) = Ok [([109;117;115;108], [49;46;50;45;114;48]); ([122], [49])].
Proof. vm_compute. reflexivity. Qed.

(* ------------------------------------------------------------------ gradle.lockfile (byte level) *)
(* Any number of group:artifact:version=configurations lines, each optionally indented / followed by
   blanks, LF or CRLF per line, with blank lines, # comments and empty=... lines anywhere, final
   newline or not: exactly the listed coordinates come out, in order. *)
Theorem gradle_roundtrip : forall rs l,
  wf_gr_records rs = true -> wf_gr_layout rs l = true ->
  parse_gradle (render_gradle rs l) = Ok (expected_gradle rs).
Proof. exact gradle_roundtrip_lemma. Qed.
Print Assumptions gradle_roundtrip.

Definition ex_gr_rs : list gr_rec :=
  [ {| g_group := [101;109;112;116;121]; g_artifact := [97]; g_version := [49;46;48]; g_configs := [99;112] |};
    {| g_group := [111;114;103]; g_artifact := [98;45;99]; g_version := [50]; g_configs := [] |} ].
Definition ex_gr_l : gr_layout :=
  {| gl_recs := [ {| gl_before := [(NComment [] [32;104;105], CRLF); (NBlank [32], LF)]; gl_lead := [32;9]; gl_trail := [32]; gl_eol := CRLF |} ];
     gl_after := [(NEmpty [] [], LF)]; gl_final_nl := false |}.
Example gradle_example_wf : wf_gr_records ex_gr_rs && wf_gr_layout ex_gr_rs ex_gr_l = true.
Proof. vm_compute. reflexivity. Qed.
Example gradle_example_run :
  parse_gradle (render_gradle ex_gr_rs ex_gr_l) = Ok [([101;109;112;116;121;58;97], [49;46;48]); ([111;114;103;58;98;45;99], [50])].
Proof. vm_compute. reflexivity. Qed.

(* ------------------------------------------------------------------ Gemfile.lock (byte level) *)
(* Any number of source sections (GIT / GEM / PATH / PLUGIN SOURCE) with any number of 4-space spec
   lines "name (version[-platform])[!]", attribute and dependency lines at other indentations, blank
   lines, and any other sections (PLATFORMS, DEPENDENCIES, ...) in between, LF or CRLF per line,
   final newline or not: exactly the specs of the source sections come out, in file order. *)
Theorem gemfile_roundtrip : forall rs l,
  wf_gem_records rs = true -> wf_gem_layout rs l = true ->
  parse_gemfile (render_gemfile rs l) = Ok (expected_gemfile rs).
Proof. exact gemfile_roundtrip_lemma. Qed.
Print Assumptions gemfile_roundtrip.

(* fix (gemfilelock returns scanner.Err()): a line of 64 KiB or more yields an error, never a silently
   truncated package list (regression witness: KNOWN_FINDINGS.d/C03.json gemfilelock-long-line-truncates) *)
Theorem gemfile_long_line_is_error : forall s, snd (scan_lines s) = true -> exists e, parse_gemfile s = Err e.
Proof. exact gemfile_long_line_lemma. Qed.
Print Assumptions gemfile_long_line_is_error.

Definition ex_gem_rs : list gem_sec :=
  [ {| sec_kind := KGit; sec_specs := [ {| gs_name := [102;111;111]; gs_version := [49;46;48]; gs_platform := None |} ] |};
    {| sec_kind := KGem; sec_specs := [ {| gs_name := [97;115;116]; gs_version := [50;46;52]; gs_platform := Some [106;97;118;97] |};
                                        {| gs_name := [98]; gs_version := [51]; gs_platform := None |} ] |} ].
Definition ex_gem_l : gem_layout :=
  {| ly_secs := [ {| cl_pre := []; cl_eol := CRLF;
                     cl_specs := [ {| sl_before := [(GOther 2 [114;101;118;105;115;105;111;110;58;32;97], LF); (GOther 2 [115;112;101;99;115;58], LF)]; sl_bang := true; sl_eol := LF |} ];
                     cl_after := [(GOther 6 [98;97;114], LF)] |};
                  {| cl_pre := [BBlank LF; BSection [80;76;65;84;70;79;82;77;83] LF [(Some [32;114;117;98;121], LF); (Some [32;32;32;120;32;40;57;41], LF); (None, LF)]];
                     cl_eol := LF; cl_specs := []; cl_after := [] |} ];
     ly_tail := [BBlank CRLF; BSection [68;69;80;83] LF [(Some [32;102;111;111;33], LF)]]; ly_final_nl := false |}.
Example gemfile_example_wf : wf_gem_records ex_gem_rs && wf_gem_layout ex_gem_rs ex_gem_l = true.
Proof. vm_compute. reflexivity. Qed.
Example gemfile_example_run :
  parse_gemfile (render_gemfile ex_gem_rs ex_gem_l) = Ok [([102;111;111], [49;46;48]); ([97;115;116], [50;46;52]); ([98], [51])].
Proof. vm_compute. reflexivity. Qed.

(* ------------------------------------------------------------------ dpkg status (byte level) *)
(* Any number of stanzas; Package / Version / Status at any position among any other fields
   (single-line or with continuation lines, any legal field-name capitalisation, blanks around values,
   Source in either shape), LF or CRLF per line, one or more blank lines between stanzas, leading and
   trailing blank lines, last stanza with or without its final newline.  Reported = exactly the stanzas
   whose Status state word is "installed" (sd = true, the status.d directory: also stanzas without a
   Status field), in file order.  The model includes the part of net/textproto's ReadMIMEHeader that the
   extractor relies on (continuation joining, key canonicalisation, byte validation). *)
Theorem dpkg_roundtrip : forall sd rs l,
  wf_dpkg_records sd rs = true -> wf_dpkg_layout rs l = true ->
  parse_dpkg sd (render_dpkg rs l) = Ok (expected_dpkg sd rs).
Proof. exact dpkg_roundtrip_lemma. Qed.
Print Assumptions dpkg_roundtrip.

Definition ex_dpkg_rs : list dpkg_rec :=
  [ {| dr_name := [108;105;98;99;54]; dr_version := [50;46;51;54;45;57];
       dr_status := Some ([105;110;115;116;97;108;108], [111;107], [105;110;115;116;97;108;108;101;100]);
       dr_fields := [ DOther [68;101;115;99;114;105;112;116;105;111;110] [32] [71;78;85] [] [([32], [46]); ([32;32], [108;105;98])];
                      DSource [103;108;105;98;99] (Some [50;46;51;54]) ] |};
    {| dr_name := [111;108;100]; dr_version := [49];
       dr_status := Some ([100;101;105;110;115;116;97;108;108], [111;107], [99;111;110;102;105;103;45;102;105;108;101;115]);
       dr_fields := [] |} ].
Definition ex_dpkg_l : dpkg_layout :=
  {| dy_lead := [LF];
     dy_recs := [ {| dl_posS := 1; dl_posV := 3; dl_posP := 0; dl_gap := [32]; dl_eols := [CRLF; LF; CRLF]; dl_sep1 := CRLF; dl_sep := [LF] |} ];
     dy_trail := []; dy_final_nl := false |}.
Example dpkg_example_wf : wf_dpkg_records false ex_dpkg_rs && wf_dpkg_layout ex_dpkg_rs ex_dpkg_l = true.
Proof. vm_compute. reflexivity. Qed.
Example dpkg_example_run :
  parse_dpkg false (render_dpkg ex_dpkg_rs ex_dpkg_l) = Ok [([108;105;98;99;54], [50;46;51;54;45;57])].
Proof. vm_compute. reflexivity. Qed.

(* ------------------------------------------------------------------ requirements.txt (byte level) *)
(* The full statement is FALSE for the extractor: well-formed pinned requirements whose project name has a
   '.' (zope.interface, ruamel.yaml ...) or a single character are dropped by the extractor's own name
   pattern.  KNOWN_FINDINGS.d/C03.json: requirements-dotted-name-dropped.
   (The second defect recorded earlier - names containing "-C" such as Flask-Caching cut at the option marker -
   was repaired by fix 334a4f50; its witness is a regression case now, see requirements_flask_regression.) *)
Theorem requirements_roundtrip_refuted :
  exists rs l, wf_rq_records rs = true /\ wf_rq_layout rs l = true /\
               parse_requirements (render_requirements rs l) <> Ok (expected_requirements rs).
Proof. exact requirements_refuted_lemma. Qed.
Print Assumptions requirements_roundtrip_refuted.

(* On the domain D (every name accepted by the extractor's name pattern: two or more characters, no '.') the
   pinned sub-grammar round-trips: any number of name==version lines with blanks around name, == and version,
   LF or CRLF, comment / blank / option lines (-i, --index-url, -e ...) anywhere, final newline or not. *)
Theorem requirements_roundtrip_on_D : forall rs l,
  wf_rq_records rs = true -> wf_rq_layout rs l = true -> rq_in_D rs l = true ->
  parse_requirements (render_requirements rs l) = Ok (expected_requirements rs).
Proof. exact requirements_on_D_lemma. Qed.
Print Assumptions requirements_roundtrip_on_D.

Definition ex_rq_rs : list rq_rec :=
  [ {| rq_name := [80;121;89;65;77;76]; rq_version := [54;46;48] |};
    {| rq_name := [97;45;98]; rq_version := [49;46;48;46;112;111;115;116;49] |} ].
Definition ex_rq_l : rq_layout :=
  {| ry_recs := [ {| rl_before := [(RComment [] [32;112;105;110;110;101;100], LF); (ROption [105;32;104;116;116;112;115;58;47;47;120], CRLF)];
                     rl_lead := [32]; rl_ws1 := [32]; rl_ws2 := [9]; rl_trail := [32]; rl_eol := CRLF; rl_cont := Some (CRLF, [32;32]) |} ];
     ry_after := [(RBlank [], LF)]; ry_final_nl := true |}.
Example requirements_example_wf : wf_rq_records ex_rq_rs && wf_rq_layout ex_rq_rs ex_rq_l && rq_in_D ex_rq_rs ex_rq_l = true.
Proof. vm_compute. reflexivity. Qed.
Example requirements_example_run :
  parse_requirements (render_requirements ex_rq_rs ex_rq_l) = Ok [([80;121;89;65;77;76], [54;46;48]); ([97;45;98], [49;46;48;46;112;111;115;116;49])].
Proof. vm_compute. reflexivity. Qed.
Example requirements_flask_regression :
  rq_in_D rq_flask rq_plain_layout = true /\
  parse_requirements (render_requirements rq_flask rq_plain_layout) = Ok (expected_requirements rq_flask).
Proof. vm_compute. split; reflexivity. Qed.
Example requirements_zope_observed : parse_requirements (render_requirements rq_zope rq_plain_layout) = Ok [].
Proof. vm_compute. reflexivity. Qed.

(* ================================================================== structure level
   The decoder (encoding/json, BurntSushi TOML) is trusted to hand the extractor the structure the
   file encodes; the model is the extractor's loop over that structure.  Go map iteration order is
   arbitrary, hence "Permutation" where the extractor walks a map. *)

(* composer.lock: packages then packages-dev, nothing merged, nothing dropped *)
Theorem composer_struct_exact : forall rs,
  exists out, extract_composer (struct_of_composer rs) = Ok out /\ Permutation out (expected_all rs).
Proof. exact composer_struct_exact_lemma. Qed.
Print Assumptions composer_struct_exact.

(* Cargo.lock / poetry.lock: the [[package]] array in file order *)
Theorem cargo_struct_exact : forall rs, extract_cargo (struct_of_pkglist rs) = Ok (expected_all rs).
Proof. exact cargo_struct_exact_lemma. Qed.
Print Assumptions cargo_struct_exact.
Theorem poetry_struct_exact : forall rs, extract_poetry (struct_of_pkglist rs) = Ok (expected_all rs).
Proof. exact poetry_struct_exact_lemma. Qed.
Print Assumptions poetry_struct_exact.

(* packages.lock.json: every (framework, package) entry, for any map iteration order *)
Theorem nuget_struct_exact : forall rs st,
  nuget_iter_order st (struct_of_nuget rs) ->
  exists out, extract_nuget st = Ok out /\ Permutation out (expected_nuget rs).
Proof. exact nuget_struct_exact_lemma. Qed.
Print Assumptions nuget_struct_exact.

(* Pipfile.lock: distinct pinned packages (names without '@') of default and develop all come out,
   the "==" stripped, none merged by the name@version key *)
Theorem pipfile_struct_exact : forall rs, wf_pipfile rs = true ->
  exists out, extract_pipfile (struct_of_pipfile rs) = Ok out /\ Permutation out (expected_all rs).
Proof. exact pipfile_struct_exact_lemma. Qed.
Print Assumptions pipfile_struct_exact.

Definition ex_lrecs : list lrec :=
  [ {| lr_name := [97]; lr_version := [49;46;48]; lr_dev := true |};
    {| lr_name := [98]; lr_version := [50]; lr_dev := false |};
    {| lr_name := [97]; lr_version := [51]; lr_dev := false |} ].
Example pipfile_example_wf : wf_pipfile ex_lrecs = true.
Proof. vm_compute. reflexivity. Qed.
Example pipfile_example_run : extract_pipfile (struct_of_pipfile ex_lrecs) = Ok [([98], [50]); ([97], [51]); ([97], [49;46;48])].
Proof. vm_compute. reflexivity. Qed.
(* the key quirk the domain excludes: "a@b"@"c" and "a"@"b@c" collide *)
Example pipfile_key_collision :
  extract_pipfile {| ps_default := [([97;64;98], [61;61;99]); ([97], [61;61;98;64;99])]; ps_develop := [] |} = Ok [([97;64;98], [99])].
Proof. vm_compute. reflexivity. Qed.

(* package-lock.json, lockfileVersion 2 and 3 ("packages" map; a v2 file's legacy "dependencies" tree is
   ignored by the extractor): any number of registry packages installed at node_modules/<name> under any
   prefix (hoisted, nested, workspace), plain and @scope/name names recovered from the path, the root
   entry "" skipped.  Version 1 (nested "dependencies"): packagelock_v1_struct_exact below. *)
Theorem packagelock_struct_exact : forall root rs, wf_packagelock rs = true ->
  extract_packagelock (struct_of_packagelock root rs) = Ok (expected_packagelock rs).
Proof. exact packagelock_struct_exact_lemma. Qed.
Print Assumptions packagelock_struct_exact.

Definition ex_npm_rs : list npm_rec :=
  [ {| nr_prefix := []; nr_name := [64;115;47;110]; nr_version := [49;46;48] |};
    {| nr_prefix := [110;111;100;101;95;109;111;100;117;108;101;115;47;64;115;47;110;47]; nr_name := [108]; nr_version := [50] |} ].
Example packagelock_example_wf : wf_packagelock ex_npm_rs = true.
Proof. vm_compute. reflexivity. Qed.
Example packagelock_example_run :
  extract_packagelock (struct_of_packagelock true ex_npm_rs) = Ok [([64;115;47;110], [49;46;48]); ([108], [50])].
Proof. vm_compute. reflexivity. Qed.

(* package-lock.json, lockfileVersion 1: the nested "dependencies" tree, any depth and width; with plain
   registry versions every (name, version) of the tree is reported, each exactly once (the same package nested
   at several places is one package); dev / optional flags only feed the dependency-group metadata. *)
Theorem packagelock_v1_struct_exact : forall ds, wf_packagelock_v1 ds = true ->
  exists out, extract_packagelock {| ns_packages := None; ns_dependencies := ds |} = Ok out /\
              NoDup out /\ forall p, In p out <-> In p (flat_v1_all ds).
Proof. exact packagelock_v1_struct_exact_lemma. Qed.
Print Assumptions packagelock_v1_struct_exact.

Definition ex_v1 : list (bytes * npm_dep) :=
  [ ([97], NDep [49] [] (Some [([98], NDep [50] [] None); ([99], NDep [51] [] (Some [([98], NDep [50] [] None)]))]));
    ([98], NDep [50] [] None) ].
Example packagelock_v1_example :
  wf_packagelock_v1 ex_v1 = true /\
  extract_packagelock {| ns_packages := None; ns_dependencies := ex_v1 |} = Ok [([98], [50]); ([99], [51]); ([97], [49])].
Proof. vm_compute. split; reflexivity. Qed.

(* go.mod (x/mod/modfile output).  Go's semantics: each replace directive applies to the ORIGINAL requirements
   (any version / the stated version; replacement = another module with a version, or a local directory), never to
   the result of another directive; the replacement may itself be required or be replaced by another directive
   (chains, swaps).  expected_gomod = every requirement rewritten by the directive that applies to it, plus the
   stdlib entry carrying the toolchain directive's version or else the go directive's.
   The extractor matches every directive against the original requirement names (after the fix of the former known
   finding gomod-versionless-replace-transitive, KNOWN_FINDINGS.d/C03.json), so chains a => b, b => c and swaps
   a => b, b => a in any order, with or without versions, are inside the domain: distinct required paths, at most one
   directive per old path, resulting (name, version) pairs pairwise different *)
Theorem gomod_struct_exact : forall rs, wf_gomod rs = true ->
  extract_gomod (struct_of_gomod rs) = Ok (expected_gomod rs).
Proof. exact gomod_struct_exact_lemma. Qed.
Print Assumptions gomod_struct_exact.

Definition ex_gomod : gomod_recs :=
  {| gq_requires := [([97], [49;46;48]); ([98], [50;46;48]); ([99], [51])];
     gq_replaces := [ {| rr_old := [97]; rr_oldv := []; rr_new := [120]; rr_newv := [57] |};
                      {| rr_old := [98]; rr_oldv := [50;46;48]; rr_new := [46;46;47;108]; rr_newv := [] |};
                      {| rr_old := [99]; rr_oldv := [52]; rr_new := [121]; rr_newv := [49] |} ];
     gq_go := [49;46;50;49]; gq_toolchain := [103;111;49;46;50;50;46;51;45;120] |}.
Example gomod_example_wf : wf_gomod ex_gomod = true.
Proof. vm_compute. reflexivity. Qed.
Example gomod_example_run :
  extract_gomod (struct_of_gomod ex_gomod) = Ok [([120], [57]); ([46;46;47;108], []); ([99], [51]); ([115;116;100;108;105;98], [49;46;50;50;46;51])].
Proof. vm_compute. reflexivity. Qed.
(* chains and swaps without versions (the witnesses of the former known finding): a is reported as b, not as c *)
Example gomod_chain_example :
  wf_gomod gomod_chain_witness = true /\ extract_gomod (struct_of_gomod gomod_chain_witness) = Ok [([98], [49;46;49;46;48])].
Proof. vm_compute. split; reflexivity. Qed.
Example gomod_swap_example :
  wf_gomod gomod_swap_witness = true /\
  extract_gomod (struct_of_gomod gomod_swap_witness) = Ok [([98], [49;46;49;46;48]); ([97], [49;46;50;46;48])].
Proof. vm_compute. split; reflexivity. Qed.

(* ------------------------------------------------------------------ go.mod from bytes *)
(* The line-oriented sub-grammar of golang.org/x/mod/modfile (lexer: blanks, CR, two-slash comments anywhere,
   identifiers, parentheses; statements: single lines and "verb ( ... )" blocks with blank / comment lines
   inside) composed with the extractor loop: a document listing module / go / toolchain / require / replace
   directives (and ignored ones: exclude, retract, godebug, tool) in ANY order, split into any single lines and
   blocks, any indentation and spacing, end-of-line comments, CRLF or LF, final newline or not, yields exactly
   expected_gomod of the directives it lists.  Token validation by modfile (module path syntax, semantic
   versions, go / toolchain version syntax) is the oracle table orc: wf_gm_doc requires it to accept every
   directive of the document.  What stays structure-level: nothing for go.mod; quoted strings and other
   syntax outside the sub-grammar are reported as "not modelled" by the model and are outside this theorem. *)
Theorem gomod_bytes_roundtrip : forall orc d,
  wf_gm_doc orc d = true -> wf_gomod (recs_of_dirs (doc_dirs d)) = true ->
  parse_gomod_bytes orc (render_gomod_doc d) = Ok (expected_gomod_doc d).
Proof. exact gomod_bytes_roundtrip_lemma. Qed.
Print Assumptions gomod_bytes_roundtrip.

Definition ex_lay (lead : bytes) (c : option (bytes * bytes)) (e : eol) : tl_lay :=
  {| tl_lead := lead; tl_seps := []; tl_comment := c; tl_trail := []; tl_eol := e |}.
Definition ex_gm_doc : gm_doc :=
  {| gd_items := [ GNoise (GNComment [] [32;104;105]) LF;
                   GLine (DModule [109]) (ex_lay [] None CRLF);
                   GBlock v_require (ex_lay [] None LF)
                     [ BDir (DRequire [97;47;98] [49;46;50;46;51]) (ex_lay [9] (Some ([32], [32;105;110;100;105;114;101;99;116])) LF);
                       BNoise (GNBlank []) LF;
                       BDir (DRequire [99] [48;46;49;46;48]) (ex_lay [9] None CRLF) ]
                     (ex_lay [] None LF);
                   GLine (DGo [49;46;50;49]) (ex_lay [32] None LF);
                   GLine (DReplace {| rr_old := [99]; rr_oldv := []; rr_new := [46;46;47;120]; rr_newv := [] |}) (ex_lay [] None LF) ];
     gd_final_nl := false |}.
Definition ex_gm_orc : gm_oracle :=
  [ ([v_module; [109]], true); ([v_require; [97;47;98]; [118;49;46;50;46;51]], true); ([v_require; [99]; [118;48;46;49;46;48]], true);
    ([v_go; [49;46;50;49]], true); ([v_replace; [99]; s_arrow; [46;46;47;120]], true) ].
Example gomod_bytes_example :
  wf_gm_doc ex_gm_orc ex_gm_doc && wf_gomod (recs_of_dirs (doc_dirs ex_gm_doc)) = true /\
  parse_gomod_bytes ex_gm_orc (render_gomod_doc ex_gm_doc) =
    Ok [([97;47;98], [49;46;50;46;51]); ([46;46;47;120], []); (s_stdlib, [49;46;50;49])].
Proof. vm_compute. split; reflexivity. Qed.

(* C03 - well-formed package databases are reported completely and exactly.
   Only statements here; proofs are in the <Format>Proofs.v files. *)
From Coq Require Import List NArith Bool.
From Scalibr Require Import Formats.Lines Formats.Apk Formats.ApkProofs.
Import ListNotations.
Open Scope N_scope.

(* ------------------------------------------------------------------ apk installed (byte level) *)
(* For ANY number of well-formed records and ANY permitted layout (P/V position among the other
   fields, LF or CRLF per line, one or more blank lines between records, leading/trailing blank
   lines, final newline present or not) the extractor model returns exactly the records, in order. *)
Theorem apk_roundtrip : forall rs l,
  wf_apk_records rs = true -> wf_apk_layout rs l = true ->
  parse_apk (render_apk rs l) = Ok (expected_apk rs).
Proof. exact apk_roundtrip_lemma. Qed.
Print Assumptions apk_roundtrip.

Theorem apk_layout_irrelevant : forall rs l1 l2,
  wf_apk_records rs = true -> wf_apk_layout rs l1 = true -> wf_apk_layout rs l2 = true ->
  parse_apk (render_apk rs l1) = parse_apk (render_apk rs l2).
Proof. exact apk_layout_irrelevant_lemma. Qed.
Print Assumptions apk_layout_irrelevant.

(* non-vacuity: two records, CRLF + no final newline + P after V + extra fields *)
Definition ex_apk_rs : list apk_rec :=
  [ {| ar_name := [109;117;115;108]; ar_version := [49;46;50;45;114;48];
       ar_extras := [([65], [120;56;54]); ([111], [109;117;115;108])] |};
    {| ar_name := [122]; ar_version := [49]; ar_extras := [] |} ].
Definition ex_apk_l : apk_layout :=
  {| al_lead := [LF; CRLF];
     al_recs := [ {| al_posV := 1; al_posP := 3; al_eols := [CRLF; LF; CRLF]; al_sep1 := CRLF; al_sep := [LF] |} ];
     al_trail := []; al_final_nl := false |}.
Example apk_example_wf : wf_apk_records ex_apk_rs && wf_apk_layout ex_apk_rs ex_apk_l = true.
Proof. vm_compute. reflexivity. Qed.
Example apk_example_run :
  parse_apk (render_apk ex_apk_rs ex_apk_l) = Ok [([109;117;115;108], [49;46;50;45;114;48]); ([122], [49])].
Proof. vm_compute. reflexivity. Qed.

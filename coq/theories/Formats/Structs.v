(* Formats/Structs.v - structure-level models: the extractor's loop over the DECODED lockfile
   (encoding/json, BurntSushi TOML are trusted to deliver that structure; the correspondence run feeds
   serialised files to the real extractor).  Go maps are association lists in iteration order.
   Model + spec only, no proofs.
   Formats: composer.lock, Cargo.lock, poetry.lock, packages.lock.json, Pipfile.lock. *)
From Coq Require Import List NArith Bool.
From Scalibr Require Import Formats.Lines.
Import ListNotations.
Open Scope N_scope.

(* ------------------------------------------------------------------ comparing unordered results *)
Fixpoint bytes_leb (a b : bytes) : bool :=
  match a, b with
  | [], _ => true
  | _ :: _, [] => false
  | x :: a', y :: b' => if x <? y then true else if y <? x then false else bytes_leb a' b'
  end.
Definition pkg_leb (p q : pkg) : bool :=
  if bytes_eqb (fst p) (fst q) then bytes_leb (snd p) (snd q) else bytes_leb (fst p) (fst q).
Fixpoint pkg_insert (p : pkg) (l : list pkg) : list pkg :=
  match l with [] => [p] | q :: r => if pkg_leb p q then p :: l else q :: pkg_insert p r end.
Definition sort_pkgs (l : list pkg) : list pkg := fold_right pkg_insert [] l.
Definition same_pkgs (a b : list pkg) : bool := list_eqb pkg_eqb (sort_pkgs a) (sort_pkgs b).
Definition same_outcome (a b : outcome (list pkg)) : bool :=
  match a, b with
  | Ok x, Ok y => same_pkgs x y
  | Err e, Err f => err_eqb e f
  | Panic, Panic => true
  | _, _ => false
  end.
Fixpoint pkg_mem (p : pkg) (l : list pkg) : bool :=
  match l with [] => false | q :: r => pkg_eqb p q || pkg_mem p r end.
Fixpoint nodup_pkgs (l : list pkg) : bool :=
  match l with [] => true | p :: r => negb (pkg_mem p r) && nodup_pkgs r end.
Fixpoint bytes_mem (k : bytes) (l : list bytes) : bool :=
  match l with [] => false | q :: r => bytes_eqb k q || bytes_mem k r end.
Fixpoint nodup_bytes (l : list bytes) : bool :=
  match l with [] => true | p :: r => negb (bytes_mem p r) && nodup_bytes r end.

(* a generic record: name, version, and the format's group flag (dev / develop) *)
Record lrec := { lr_name : bytes; lr_version : bytes; lr_dev : bool }.
Definition nv (r : lrec) : pkg := (lr_name r, lr_version r).
Definition is_prod (r : lrec) : bool := negb (lr_dev r).

(* ------------------------------------------------------------------ composer.lock *)
(* type composerLock struct { Packages, PackagesDev []composerPackage } *)
Record composer_st := { cs_packages : list pkg; cs_packages_dev : list pkg }.
Definition extract_composer (st : composer_st) : outcome (list pkg) :=
  Ok (cs_packages st ++ cs_packages_dev st).
Definition struct_of_composer (rs : list lrec) : composer_st :=
  {| cs_packages := map nv (filter is_prod rs); cs_packages_dev := map nv (filter lr_dev rs) |}.

(* ------------------------------------------------------------------ Cargo.lock / poetry.lock *)
(* [[package]] array of tables: a slice, order preserved, no merging *)
Definition extract_cargo (st : list pkg) : outcome (list pkg) := Ok st.
Definition extract_poetry (st : list pkg) : outcome (list pkg) := Ok st.
Definition struct_of_pkglist (rs : list lrec) : list pkg := map nv rs.

(* ------------------------------------------------------------------ packages.lock.json (NuGet) *)
(* Dependencies map[framework]map[name]PackageInfo{Resolved}: every (framework, name) is reported *)
Definition nuget_st := list (bytes * list pkg).
Definition extract_nuget (st : nuget_st) : outcome (list pkg) := Ok (flat_map snd st).
Definition nuget_records := list (bytes * list pkg).          (* per framework: (name, resolved) *)
Definition struct_of_nuget (rs : nuget_records) : nuget_st := rs.
Definition expected_nuget (rs : nuget_records) : list pkg := flat_map snd rs.
Definition wf_nuget (rs : nuget_records) : bool :=
  nodup_bytes (map fst rs) && forallb (fun f => nodup_bytes (map fst (snd f))) rs.

(* ------------------------------------------------------------------ Pipfile.lock *)
(* default / develop : map[name]{version}; versions must look like "==x"; the details map is keyed by
   name + "@" + version, first writer wins *)
Record pip_st := { ps_default : list (bytes * bytes); ps_develop : list (bytes * bytes) }.
Definition AT : N := 64.
Definition s_eqeq : bytes := [61; 61].
Definition pip_key (n v : bytes) : bytes := n ++ AT :: v.
Fixpoint key_mem (k : bytes) (d : list (bytes * pkg)) : bool :=
  match d with [] => false | (k', _) :: r => bytes_eqb k k' || key_mem k r end.
Fixpoint pip_add (group : list (bytes * bytes)) (details : list (bytes * pkg)) : list (bytes * pkg) :=
  match group with
  | [] => details
  | (n, ver) :: r =>
      if is_nil ver then pip_add r details
      else if negb (has_prefix s_eqeq ver) || (len_N ver <? 3) then pip_add r details
      else
        let v := skipn 2 ver in
        if key_mem (pip_key n v) details then pip_add r details
        else pip_add r (details ++ [(pip_key n v, (n, v))])
  end.
Definition extract_pipfile (st : pip_st) : outcome (list pkg) :=
  Ok (map snd (pip_add (ps_develop st) (pip_add (ps_default st) []))).
Definition pip_entry (r : lrec) : bytes * bytes := (lr_name r, s_eqeq ++ lr_version r).
Definition struct_of_pipfile (rs : list lrec) : pip_st :=
  {| ps_default := map pip_entry (filter is_prod rs); ps_develop := map pip_entry (filter lr_dev rs) |}.
(* distinct packages, names without '@', pinned non-empty versions *)
Definition wf_pipfile (rs : list lrec) : bool :=
  nodup_pkgs (map nv rs) &&
  forallb (fun r => negb (contains_byte AT (lr_name r)) && negb (is_nil (lr_version r))) rs.

(* expected, for all list-of-lrec formats: every record once; order prod-then-dev where the format has groups *)
Definition expected_grouped (rs : list lrec) : list pkg := map nv (filter is_prod rs) ++ map nv (filter lr_dev rs).
Definition expected_all (rs : list lrec) : list pkg := map nv rs.

(* ------------------------------------------------------------------ correspondence records *)
(* claim: the generator's records; st: the structure the harness serialised (what the decoder is trusted to
   hand to the extractor); obs: what Extract returned *)
Record composer_case := { cc_claim : option (list lrec); cc_st : composer_st; cc_obs : outcome (list pkg) }.
Definition composer_st_eqb (a b : composer_st) : bool :=
  list_eqb pkg_eqb (cs_packages a) (cs_packages b) && list_eqb pkg_eqb (cs_packages_dev a) (cs_packages_dev b).
Definition composer_case_render_ok c := match cc_claim c with None => true | Some rs => composer_st_eqb (struct_of_composer rs) (cc_st c) end.
Definition composer_case_model_ok c := pkgs_outcome_eqb (extract_composer (cc_st c)) (cc_obs c).
Definition composer_case_claimed c := match cc_claim c with None => false | Some _ => true end.
Definition composer_case_spec_ok c :=
  match cc_claim c with None => negb (is_panic (cc_obs c)) | Some rs => same_outcome (cc_obs c) (Ok (expected_all rs)) && pkgs_outcome_eqb (cc_obs c) (Ok (expected_grouped rs)) end.

Record cargo_case := { cgc_claim : option (list lrec); cgc_st : list pkg; cgc_obs : outcome (list pkg) }.
Definition cargo_case_render_ok c := match cgc_claim c with None => true | Some rs => list_eqb pkg_eqb (struct_of_pkglist rs) (cgc_st c) end.
Definition cargo_case_model_ok c := pkgs_outcome_eqb (extract_cargo (cgc_st c)) (cgc_obs c).
Definition cargo_case_claimed c := match cgc_claim c with None => false | Some _ => true end.
Definition cargo_case_spec_ok c :=
  match cgc_claim c with None => negb (is_panic (cgc_obs c)) | Some rs => pkgs_outcome_eqb (cgc_obs c) (Ok (expected_all rs)) end.

Record poetry_case := { pyc_claim : option (list lrec); pyc_st : list pkg; pyc_obs : outcome (list pkg) }.
Definition poetry_case_render_ok c := match pyc_claim c with None => true | Some rs => list_eqb pkg_eqb (struct_of_pkglist rs) (pyc_st c) end.
Definition poetry_case_model_ok c := pkgs_outcome_eqb (extract_poetry (pyc_st c)) (pyc_obs c).
Definition poetry_case_claimed c := match pyc_claim c with None => false | Some _ => true end.
Definition poetry_case_spec_ok c :=
  match pyc_claim c with None => negb (is_panic (pyc_obs c)) | Some rs => pkgs_outcome_eqb (pyc_obs c) (Ok (expected_all rs)) end.

Record nugetlock_case := { nc_claim : option nuget_records; nc_st : nuget_st; nc_obs : outcome (list pkg) }.
Definition nuget_st_eqb (a b : nuget_st) : bool :=
  list_eqb (fun x y => bytes_eqb (fst x) (fst y) && list_eqb pkg_eqb (snd x) (snd y)) a b.
Definition nugetlock_case_render_ok c := match nc_claim c with None => true | Some rs => nuget_st_eqb (struct_of_nuget rs) (nc_st c) end.
Definition nugetlock_case_model_ok c := same_outcome (extract_nuget (nc_st c)) (nc_obs c).
Definition nugetlock_case_claimed c := match nc_claim c with None => false | Some rs => wf_nuget rs end.
Definition nugetlock_case_spec_ok c :=
  match nc_claim c with None => negb (is_panic (nc_obs c)) | Some rs => negb (wf_nuget rs) || same_outcome (nc_obs c) (Ok (expected_nuget rs)) end.

Record pipfile_case := { pc_claim : option (list lrec); pc_st : pip_st; pc_obs : outcome (list pkg) }.
Definition kvs_eqb (a b : list (bytes * bytes)) : bool := list_eqb pkg_eqb a b.
Definition pipfile_case_render_ok c :=
  match pc_claim c with None => true | Some rs => kvs_eqb (ps_default (struct_of_pipfile rs)) (ps_default (pc_st c)) && kvs_eqb (ps_develop (struct_of_pipfile rs)) (ps_develop (pc_st c)) end.
Definition pipfile_case_model_ok c := same_outcome (extract_pipfile (pc_st c)) (pc_obs c).
Definition pipfile_case_claimed c := match pc_claim c with None => false | Some rs => wf_pipfile rs end.
Definition pipfile_case_spec_ok c :=
  match pc_claim c with None => negb (is_panic (pc_obs c)) | Some rs => negb (wf_pipfile rs) || same_outcome (pc_obs c) (Ok (expected_all rs)) end.

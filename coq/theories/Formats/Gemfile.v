(* Formats/Gemfile.v - model of extractor/filesystem/language/ruby/gemfilelock and its
   record/layout/render/expected specification.  Model + spec only, no proofs. *)
From Coq Require Import List NArith Bool.
From Scalibr Require Import Formats.Lines.
Import ListNotations.
Open Scope N_scope.

Definition SP : N := 32.
Definition LPAR : N := 40.
Definition RPAR : N := 41.
Definition DASH : N := 45.
Definition BANG : N := 33.
Definition s_GIT : bytes := [71; 73; 84].
Definition s_GEM : bytes := [71; 69; 77].
Definition s_PATH : bytes := [80; 65; 84; 72].
Definition s_PLUGIN : bytes := [80; 76; 85; 71; 73; 78; 32; 83; 79; 85; 82; 67; 69].   (* "PLUGIN SOURCE" *)
Definition s_revision : bytes := [32; 32; 114; 101; 118; 105; 115; 105; 111; 110; 58; 32].  (* "  revision: " *)

(* ------------------------------------------------------------------ model of the extractor *)
(* indentRegexp ^( +) : length of the leading run of spaces *)
Fixpoint leading_spaces (l : bytes) : nat :=
  match l with c :: r => if c =? SP then S (leading_spaces r) else O | [] => O end.

Definition gem_section := (bytes * list bytes)%type.   (* name, specs in file order *)
Definition gem_cur := option (bytes * list bytes).     (* current section: name, specs newest first *)
Definition gem_flush (cur : gem_cur) : list gem_section :=
  match cur with None => [] | Some (n, sp) => [(n, rev sp)] end.

(* parseLockfileSections: the loop over the delivered lines (scanner.Err() is checked after it, see parse_gemfile) *)
Fixpoint gem_sections (ls : list bytes) (cur : gem_cur) : outcome (list gem_section) :=
  match ls with
  | [] => Ok (gem_flush cur)
  | l :: r =>
      match l with
      | [] => gem_sections r cur
      | _ =>
          let k := leading_spaces l in
          if Nat.eqb k 0 then cons_out (gem_flush cur) (gem_sections r (Some (l, [])))
          else if Nat.eqb k 4 then
            match cur with
            | None => Err EInvalid
            | Some (n, sp) => gem_sections r (Some (n, skipn 4 l :: sp))
            end
          else if has_prefix s_revision l then
            match cur with
            | None => Err EInvalid
            | Some _ => gem_sections r cur
            end
          else gem_sections r cur
      end
  end.

(* nameVersionRegexp (lazy name, optional ' (' version-up-to-dash [dash rest] ')', optional '!', end of text;
   see gemfilelock.go) as a hand parser:
   the match with a version exists iff the text ends in ")" or ")!" and " (" occurs before that
   closing parenthesis; group 1 is the text before the FIRST " (", group 2 runs to the first '-'. *)
Fixpoint strip_closer (s : bytes) : option bytes :=    (* s = core ++ ")" or core ++ ")!" *)
  match s with
  | [] => None
  | c :: r =>
      match r with
      | [] => if c =? RPAR then Some [] else None
      | d :: r2 =>
          match r2 with
          | [] => if (c =? RPAR) && (d =? BANG) then Some []
                  else if d =? RPAR then Some [c] else None
          | _ => match strip_closer r with Some x => Some (c :: x) | None => None end
          end
      end
  end.
Fixpoint find_sp_paren (s : bytes) : option (bytes * bytes) :=
  match s with
  | [] => None
  | c :: r =>
      match r with
      | [] => None
      | d :: r2 =>
          if (c =? SP) && (d =? LPAR) then Some ([], r2)
          else match find_sp_paren r with Some (a, b) => Some (c :: a, b) | None => None end
      end
  end.
Fixpoint take_until (x : N) (s : bytes) : bytes :=
  match s with [] => [] | c :: r => if c =? x then [] else c :: take_until x r end.

Definition gem_spec_parse (s : bytes) : list pkg :=
  match strip_closer s with
  | None => []
  | Some core =>
      match find_sp_paren core with
      | None => []
      | Some (name, body) =>
          let v := take_until DASH body in
          if is_nil name || is_nil v then [] else [(name, v)]
      end
  end.

Definition gem_is_source (n : bytes) : bool :=
  bytes_eqb n s_GIT || bytes_eqb n s_GEM || bytes_eqb n s_PATH || bytes_eqb n s_PLUGIN.

Definition gem_extract (secs : list gem_section) : list pkg :=
  flat_map (fun sec => if gem_is_source (fst sec) then flat_map gem_spec_parse (snd sec) else []) secs.

Definition gem_run (ls : list bytes) (cur : gem_cur) : outcome (list pkg) :=
  match gem_sections ls cur with Ok secs => Ok (gem_extract secs) | Err e => Err e | Panic => Panic end.

(* scanner.Err() is consulted after the loop (fix 3rd commit of this area): a too-long line is an error *)
Definition parse_gemfile (s : bytes) : outcome (list pkg) :=
  let (toks, toolong) := scan_lines s in
  match gem_sections toks None with
  | Ok secs => if toolong then Err ETooLong else Ok (gem_extract secs)
  | Err e => Err e
  | Panic => Panic
  end.

(* ------------------------------------------------------------------ records, layout, render *)
Inductive gem_kind := KGit | KGem | KPath | KPlugin.
Definition gem_kind_name (k : gem_kind) : bytes :=
  match k with KGit => s_GIT | KGem => s_GEM | KPath => s_PATH | KPlugin => s_PLUGIN end.

Record gem_spec := { gs_name : bytes; gs_version : bytes; gs_platform : option bytes }.
Record gem_sec := { sec_kind : gem_kind; sec_specs : list gem_spec }.

(* lines inside a source section that are not top-level specs: blank lines, and lines indented by
   n <> 0, 4 spaces (remote:, revision:, specs:, the 6-space dependency lines ...) *)
Inductive gem_noise := GBlank | GOther (indent : nat) (text : bytes).
Record gem_slay := { sl_before : list (gem_noise * eol); sl_bang : bool; sl_eol : eol }.
Definition gem_slay_default : gem_slay := {| sl_before := []; sl_bang := false; sl_eol := LF |}.

(* what may stand between source sections: blank lines and whole other sections (PLATFORMS,
   DEPENDENCIES, BUNDLED WITH ...): a header without leading space and body lines that start
   with at least one space (any indentation, 4 included) or are blank *)
Inductive gem_between :=
| BBlank (e : eol)
| BSection (name : bytes) (e : eol) (body : list (option bytes * eol)).   (* None = blank line, Some t = " " ++ t *)

Record gem_seclay := {
  cl_pre : list gem_between;
  cl_eol : eol;
  cl_specs : list gem_slay;
  cl_after : list (gem_noise * eol)
}.
Definition gem_seclay_default : gem_seclay := {| cl_pre := []; cl_eol := LF; cl_specs := []; cl_after := [] |}.
Record gem_layout := { ly_secs : list gem_seclay; ly_tail : list gem_between; ly_final_nl : bool }.

Definition spaces (n : nat) : bytes := repeat SP n.
Definition gem_spec_text (s : gem_spec) (bang : bool) : bytes :=
  gs_name s ++ SP :: LPAR :: gs_version s ++
  (match gs_platform s with None => [] | Some p => DASH :: p end) ++ RPAR :: (if bang then [BANG] else []).
Definition gem_noise_content (n : gem_noise) : bytes :=
  match n with GBlank => [] | GOther k t => spaces k ++ t end.
Definition gem_noise_lines (ns : list (gem_noise * eol)) : list (bytes * eol) :=
  map (fun ne => (gem_noise_content (fst ne), snd ne)) ns.

Fixpoint gem_specs_lines (ss : list gem_spec) (ys : list gem_slay) : list (bytes * eol) :=
  match ss with
  | [] => []
  | s :: ss' =>
      let y := hd gem_slay_default ys in
      gem_noise_lines (sl_before y) ++ (spaces 4 ++ gem_spec_text s (sl_bang y), sl_eol y) :: gem_specs_lines ss' (tl ys)
  end.

Definition gem_between_lines (b : gem_between) : list (bytes * eol) :=
  match b with
  | BBlank e => [([], e)]
  | BSection name e body =>
      (name, e) :: map (fun le => (match fst le with None => [] | Some t => SP :: t end, snd le)) body
  end.

Definition gem_sec_lines (sec : gem_sec) (y : gem_seclay) : list (bytes * eol) :=
  flat_map gem_between_lines (cl_pre y) ++
  (gem_kind_name (sec_kind sec), cl_eol y) :: gem_specs_lines (sec_specs sec) (cl_specs y) ++ gem_noise_lines (cl_after y).

Fixpoint gem_secs_lines (rs : list gem_sec) (ys : list gem_seclay) : list (bytes * eol) :=
  match rs with
  | [] => []
  | sec :: rs' => gem_sec_lines sec (hd gem_seclay_default ys) ++ gem_secs_lines rs' (tl ys)
  end.

Definition gem_file_lines (rs : list gem_sec) (l : gem_layout) : list (bytes * eol) :=
  gem_secs_lines rs (ly_secs l) ++ flat_map gem_between_lines (ly_tail l).
Definition render_gemfile (rs : list gem_sec) (l : gem_layout) : bytes :=
  render_lines (gem_file_lines rs l) (ly_final_nl l).

Definition expected_gemfile (rs : list gem_sec) : list pkg :=
  flat_map (fun sec => map (fun s => (gs_name s, gs_version s)) (sec_specs sec)) rs.

(* well-formedness: names are graphic ASCII (no spaces); versions printable text without '-';
   platforms printable text *)
Definition all_graphic (l : bytes) : bool := forallb graphic l.
Definition all_text (l : bytes) : bool := forallb text_byte l.
Definition wf_gem_spec (s : gem_spec) : bool :=
  negb (is_nil (gs_name s)) && all_graphic (gs_name s) &&
  negb (is_nil (gs_version s)) && all_text (gs_version s) && negb (contains_byte DASH (gs_version s)) &&
  match gs_platform s with None => true | Some p => all_text p end.
Definition wf_gem_records (rs : list gem_sec) : bool := forallb (fun sec => forallb wf_gem_spec (sec_specs sec)) rs.

Definition starts_nonspace (t : bytes) : bool := match t with c :: _ => negb (c =? SP) | [] => false end.
Definition wf_gem_noise (n : gem_noise) : bool :=
  match n with
  | GBlank => true
  | GOther k t => negb (Nat.eqb k 0) && negb (Nat.eqb k 4) && starts_nonspace t && all_text t
  end.
Definition wf_gem_slay (y : gem_slay) : bool := forallb (fun ne => wf_gem_noise (fst ne)) (sl_before y).
Definition wf_gem_between (b : gem_between) : bool :=
  match b with
  | BBlank _ => true
  | BSection name _ body =>
      starts_nonspace name && all_text name && negb (gem_is_source name) &&
      forallb (fun le => match fst le with None => true | Some t => all_text t end) body
  end.
Definition wf_gem_seclay (y : gem_seclay) : bool :=
  forallb wf_gem_between (cl_pre y) && forallb wf_gem_slay (cl_specs y) &&
  forallb (fun ne => wf_gem_noise (fst ne)) (cl_after y).
Definition wf_gem_layout (rs : list gem_sec) (l : gem_layout) : bool :=
  forallb wf_gem_seclay (ly_secs l) && forallb wf_gem_between (ly_tail l) &&
  forallb (fun le => len_N (fst le) + 1 <? max_token) (gem_file_lines rs l) &&
  last_line_ok (gem_file_lines rs l) (ly_final_nl l).

(* ------------------------------------------------------------------ correspondence record *)
Record gemfile_case := {
  gfc_claim : option (list gem_sec * gem_layout);
  gfc_bytes : bytes;
  gfc_obs : outcome (list pkg)
}.
Definition gemfile_case_render_ok (c : gemfile_case) : bool :=
  match gfc_claim c with None => true | Some (rs, l) => bytes_eqb (render_gemfile rs l) (gfc_bytes c) end.
Definition gemfile_case_model_ok (c : gemfile_case) : bool :=
  pkgs_outcome_eqb (parse_gemfile (gfc_bytes c)) (gfc_obs c).
Definition gemfile_case_claimed (c : gemfile_case) : bool :=
  match gfc_claim c with None => false | Some (rs, l) => wf_gem_records rs && wf_gem_layout rs l end.
Definition gemfile_case_spec_ok (c : gemfile_case) : bool :=
  match gfc_claim c with
  | None => negb (is_panic (gfc_obs c))
  | Some (rs, l) =>
      negb (wf_gem_records rs && wf_gem_layout rs l) || pkgs_outcome_eqb (gfc_obs c) (Ok (expected_gemfile rs))
  end.

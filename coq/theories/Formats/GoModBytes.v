(* Formats/GoModBytes.v - byte-level model of go.mod extraction for the line-oriented sub-grammar of
   golang.org/x/mod/modfile (read.go: readToken / parseStmt / parseLineBlock; rule.go: parseToFile / add),
   composed with the extractor loop of Structs2.v.  Outside the sub-grammar (quoted strings, brackets,
   braces, commas, slash-star comments, parentheses in the middle of a line, non-ASCII bytes outside
   comments) the model answers Err EOther = "not modelled" and the correspondence claims nothing.
   Whether modfile ACCEPTS the arguments of one directive (module path syntax, semantic version, major
   version suffix rule, go / toolchain version syntax ...) is third-party token validation: it is an oracle
   table supplied with every case (directive -> accepted?), exactly like the regexp tables of the Walk area.
   Model + spec only, no proofs. *)
From Coq Require Import List NArith Bool.
From Scalibr Require Import Formats.Lines Formats.Structs Formats.Structs2.
Import ListNotations.
Open Scope N_scope.

Inductive gtok := TId (s : bytes) | TLP | TRP.

(* bytes an identifier of the sub-grammar may contain: printable ASCII except space, parentheses, brackets,
   braces, comma, double quote and back quote *)
Definition id_byte (c : N) : bool :=
  (33 <=? c) && (c <=? 126) &&
  negb (existsb (N.eqb c) [40; 41; 91; 93; 123; 125; 44; 34; 96]).
Definition punct_unmodelled (c : N) : bool := existsb (N.eqb c) [91; 93; 123; 125; 44; 34; 96].
Definition gm_space (c : N) : bool := (c =? 32) || (c =? 9) || (c =? 13).

(* tokens of one physical line (no '\n' inside). None = outside the sub-grammar.
   cur = identifier being read (reversed). Two slashes end the line (comment), also in the middle of an
   identifier; slash-star is an error in modfile: unmodelled here. *)
Fixpoint gm_lex (s : bytes) (cur : bytes) : option (list gtok) :=
  let flush (rest : option (list gtok)) : option (list gtok) :=
    match cur with [] => rest | _ => match rest with Some ts => Some (TId (rev cur) :: ts) | None => None end end in
  match s with
  | [] => flush (Some [])
  | c :: r =>
      if (c =? 47) && match r with d :: _ => d =? 47 | [] => false end then flush (Some [])
      else if (c =? 47) && match r with d :: _ => d =? 42 | [] => false end then None
      else if gm_space c then flush (gm_lex r [])
      else if c =? 40 then flush (match gm_lex r [] with Some ts => Some (TLP :: ts) | None => None end)
      else if c =? 41 then flush (match gm_lex r [] with Some ts => Some (TRP :: ts) | None => None end)
      else if id_byte c then gm_lex r (c :: cur)
      else None
  end.

Fixpoint all_ids (ts : list gtok) : option (list bytes) :=
  match ts with
  | [] => Some []
  | TId s :: r => match all_ids r with Some l => Some (s :: l) | None => None end
  | _ => None
  end.

(* the oracle: accepted (verb :: args)? *)
Definition gm_oracle := list (list bytes * bool).
Fixpoint olookup (k : list bytes) (t : gm_oracle) : option bool :=
  match t with [] => None | (k', b) :: r => if list_eqb bytes_eqb k k' then Some b else olookup k r end.

Definition v_module : bytes := [109;111;100;117;108;101].
Definition v_go : bytes := [103;111].
Definition v_toolchain : bytes := [116;111;111;108;99;104;97;105;110].
Definition v_require : bytes := [114;101;113;117;105;114;101].
Definition v_replace : bytes := [114;101;112;108;97;99;101].
Definition v_exclude : bytes := [101;120;99;108;117;100;101].
Definition v_retract : bytes := [114;101;116;114;97;99;116].
Definition v_godebug : bytes := [103;111;100;101;98;117;103].
Definition v_tool : bytes := [116;111;111;108].
Definition s_arrow : bytes := [61;62].
Definition block_verb (v : bytes) : bool :=
  existsb (bytes_eqb v) [v_module; v_godebug; v_require; v_exclude; v_replace; v_retract; v_tool].

(* parser state *)
Record gm_acc := {
  ga_req : list pkg;                 (* reversed *)
  ga_rep : list gomod_replace;       (* reversed *)
  ga_go : option bytes; ga_tc : option bytes; ga_mod : bool;
  ga_bad : bool                      (* modfile collected an error: Parse fails *)
}.
Definition ga0 : gm_acc := {| ga_req := []; ga_rep := []; ga_go := None; ga_tc := None; ga_mod := false; ga_bad := false |}.
Definition ga_err (a : gm_acc) : gm_acc :=
  {| ga_req := ga_req a; ga_rep := ga_rep a; ga_go := ga_go a; ga_tc := ga_tc a; ga_mod := ga_mod a; ga_bad := true |}.

Definition parse_replace_args (args : list bytes) : option gomod_replace :=
  match args with
  | [o; a; n] => if bytes_eqb a s_arrow then Some {| gr_old := o; gr_oldv := []; gr_new := n; gr_newv := [] |} else None
  | [o; x; y; z] =>
      if bytes_eqb y s_arrow then Some {| gr_old := o; gr_oldv := x; gr_new := z; gr_newv := [] |}
      else if bytes_eqb x s_arrow then Some {| gr_old := o; gr_oldv := []; gr_new := y; gr_newv := z |}
      else None
  | [o; ov; a; n; nv] => if bytes_eqb a s_arrow then Some {| gr_old := o; gr_oldv := ov; gr_new := n; gr_newv := nv |} else None
  | _ => None
  end.

(* File.add for one directive; None = the oracle table has no entry (outside the tabulated domain) *)
Definition gm_add (orc : gm_oracle) (verb : bytes) (args : list bytes) (a : gm_acc) : option gm_acc :=
  match olookup (verb :: args) orc with
  | None => None
  | Some false => Some (ga_err a)
  | Some true =>
      if bytes_eqb verb v_go then
        match ga_go a, args with
        | None, [v] => Some {| ga_req := ga_req a; ga_rep := ga_rep a; ga_go := Some v; ga_tc := ga_tc a; ga_mod := ga_mod a; ga_bad := ga_bad a |}
        | _, _ => Some (ga_err a)
        end
      else if bytes_eqb verb v_toolchain then
        match ga_tc a, args with
        | None, [v] => Some {| ga_req := ga_req a; ga_rep := ga_rep a; ga_go := ga_go a; ga_tc := Some v; ga_mod := ga_mod a; ga_bad := ga_bad a |}
        | _, _ => Some (ga_err a)
        end
      else if bytes_eqb verb v_module then
        if ga_mod a then Some (ga_err a)
        else Some {| ga_req := ga_req a; ga_rep := ga_rep a; ga_go := ga_go a; ga_tc := ga_tc a; ga_mod := true; ga_bad := ga_bad a |}
      else if bytes_eqb verb v_require then
        match args with
        | [p; v] => Some {| ga_req := (p, v) :: ga_req a; ga_rep := ga_rep a; ga_go := ga_go a; ga_tc := ga_tc a; ga_mod := ga_mod a; ga_bad := ga_bad a |}
        | _ => Some (ga_err a)
        end
      else if bytes_eqb verb v_replace then
        match parse_replace_args args with
        | Some rp => Some {| ga_req := ga_req a; ga_rep := rp :: ga_rep a; ga_go := ga_go a; ga_tc := ga_tc a; ga_mod := ga_mod a; ga_bad := ga_bad a |}
        | None => Some (ga_err a)
        end
      else if existsb (bytes_eqb verb) [v_exclude; v_retract; v_godebug; v_tool] then Some a
      else Some (ga_err a)          (* unknown directive *)
  end.

(* the statement loop over physical lines; blk = Some verb while inside a parenthesised block of that verb *)
Fixpoint gm_stmts (orc : gm_oracle) (ls : list bytes) (blk : option bytes) (a : gm_acc) : outcome gm_acc :=
  match ls with
  | [] => match blk with None => Ok a | Some _ => Err EInvalid end        (* unterminated block *)
  | l :: r =>
      match gm_lex l [] with
      | None => Err EOther
      | Some [] => gm_stmts orc r blk a
      | Some ts =>
          match blk with
          | None =>
              match all_ids ts with
              | Some (verb :: args) =>
                  match gm_add orc verb args a with Some a' => gm_stmts orc r None a' | None => Err EOther end
              | Some [] => gm_stmts orc r None a
              | None =>
                  (* verb followed by an opening parenthesis at the end of the line opens a block *)
                  match ts with
                  | [TId verb; TLP] => if block_verb verb then gm_stmts orc r (Some verb) a else gm_stmts orc r (Some verb) (ga_err a)
                  | _ => Err EOther
                  end
              end
          | Some verb =>
              match ts with
              | [TRP] => gm_stmts orc r None a
              | _ =>
                  match all_ids ts with
                  | Some args =>
                      if block_verb verb then
                        match gm_add orc verb args a with Some a' => gm_stmts orc r blk a' | None => Err EOther end
                      else gm_stmts orc r blk a
                  | None => Err EOther
                  end
              end
          end
      end
  end.

Definition gm_struct_of_acc (a : gm_acc) : gomod_st :=
  {| gm_require := rev (ga_req a); gm_replace := rev (ga_rep a);
     gm_go := match ga_go a with Some v => v | None => [] end;
     gm_toolchain := match ga_tc a with Some v => v | None => [] end |}.

Definition parse_gomod_bytes (orc : gm_oracle) (s : bytes) : outcome (list pkg) :=
  match gm_stmts orc (lines_raw s) None ga0 with
  | Ok a => if ga_bad a then Err EInvalid else extract_gomod (gm_struct_of_acc a)
  | Err e => Err e
  | Panic => Panic
  end.

(* ------------------------------------------------------------------ documents: records + layout *)
(* layout of one token line: indentation, blanks between the tokens (default one space), then either trailing
   blanks or a comment (blanks, two slashes, any text) *)
Record tl_lay := { tl_lead : bytes; tl_seps : list bytes; tl_comment : option (bytes * bytes); tl_trail : bytes; tl_eol : eol }.
Definition SLASH2 : bytes := [47; 47].
Fixpoint join_tokens (toks : list bytes) (seps : list bytes) : bytes :=
  match toks with
  | [] => []
  | [t] => t
  | t :: r => t ++ (match seps with s :: _ => s | [] => [32] end) ++ join_tokens r (tl seps)
  end.
Definition render_token_line (toks : list bytes) (y : tl_lay) : bytes :=
  tl_lead y ++ join_tokens toks (tl_seps y) ++
  match tl_comment y with Some (b, t) => b ++ SLASH2 ++ t | None => tl_trail y end.

Inductive gm_noise := GNBlank (ws : bytes) | GNComment (lead text : bytes).
Definition gm_noise_content (n : gm_noise) : bytes :=
  match n with GNBlank ws => ws | GNComment lead text => lead ++ SLASH2 ++ text end.

(* directives at record level (versions without the leading v) *)
Inductive gm_dir :=
| DModule (p : bytes) | DGo (v : bytes) | DToolchain (v : bytes)
| DRequire (p v : bytes) | DReplace (r : gomod_rrec)
| DIgnored (verb : bytes) (args : list bytes).       (* exclude, retract, godebug, tool *)
Definition dir_verb (d : gm_dir) : bytes :=
  match d with
  | DModule _ => v_module | DGo _ => v_go | DToolchain _ => v_toolchain | DRequire _ _ => v_require
  | DReplace _ => v_replace | DIgnored verb _ => verb
  end.
Definition opt_v (v : bytes) : list bytes := match v with [] => [] | _ => [118 :: v] end.
Definition dir_args (d : gm_dir) : list bytes :=
  match d with
  | DModule p => [p] | DGo v => [v] | DToolchain v => [v]
  | DRequire p v => [p; 118 :: v]
  | DReplace r => [rr_old r] ++ opt_v (rr_oldv r) ++ [s_arrow; rr_new r] ++ opt_v (rr_newv r)
  | DIgnored _ args => args
  end.

Inductive gm_bentry := BNoise (n : gm_noise) (e : eol) | BDir (d : gm_dir) (y : tl_lay).
Inductive gm_item :=
| GNoise (n : gm_noise) (e : eol)
| GLine (d : gm_dir) (y : tl_lay)
| GBlock (verb : bytes) (opn : tl_lay) (entries : list gm_bentry) (cls : tl_lay).

Definition bentry_line (b : gm_bentry) : bytes * eol :=
  match b with
  | BNoise n e => (gm_noise_content n, e)
  | BDir d y => (render_token_line (dir_args d) y, tl_eol y)
  end.
Definition item_lines (it : gm_item) : list (bytes * eol) :=
  match it with
  | GNoise n e => [(gm_noise_content n, e)]
  | GLine d y => [(render_token_line (dir_verb d :: dir_args d) y, tl_eol y)]
  | GBlock verb opn entries cls =>
      (render_token_line [verb; [40]] opn, tl_eol opn) :: map bentry_line entries ++ [(render_token_line [[41]] cls, tl_eol cls)]
  end.
Record gm_doc := { gd_items : list gm_item; gd_final_nl : bool }.
Definition render_gomod_doc (d : gm_doc) : bytes := render_lines (flat_map item_lines (gd_items d)) (gd_final_nl d).

(* the records a document lists *)
Definition item_dirs (it : gm_item) : list gm_dir :=
  match it with
  | GNoise _ _ => []
  | GLine d _ => [d]
  | GBlock _ _ entries _ => flat_map (fun b => match b with BDir d _ => [d] | BNoise _ _ => [] end) entries
  end.
Definition doc_dirs (d : gm_doc) : list gm_dir := flat_map item_dirs (gd_items d).
Definition recs_of_dirs (ds : list gm_dir) : gomod_recs :=
  {| gq_requires := flat_map (fun d => match d with DRequire p v => [(p, v)] | _ => [] end) ds;
     gq_replaces := flat_map (fun d => match d with DReplace r => [r] | _ => [] end) ds;
     gq_go := hd [] (flat_map (fun d => match d with DGo v => [v] | _ => [] end) ds);
     gq_toolchain := hd [] (flat_map (fun d => match d with DToolchain v => [v] | _ => [] end) ds) |}.
Definition expected_gomod_doc (d : gm_doc) : list pkg := expected_gomod (recs_of_dirs (doc_dirs d)).

(* well-formed tokens: identifier bytes only, no two slashes / slash-star inside, not ending in a slash *)
Fixpoint no_comment_start (t : bytes) : bool :=
  match t with
  | c :: r => negb ((c =? 47) && match r with d :: _ => (d =? 47) || (d =? 42) | [] => false end) && no_comment_start r
  | [] => true
  end.
Definition tok_ok (t : bytes) : bool :=
  negb (is_nil t) && forallb id_byte t && no_comment_start t && negb (last t 0 =? 47).
Definition all_blank (l : bytes) : bool := forallb blank_byte l.
Definition wf_tl_lay (y : tl_lay) : bool :=
  all_blank (tl_lead y) && forallb (fun s => negb (is_nil s) && all_blank s) (tl_seps y) && all_blank (tl_trail y) &&
  match tl_comment y with Some (b, t) => all_blank b && no_nl t && no_trailing_cr t | None => true end.
Definition wf_gm_noise (n : gm_noise) : bool :=
  match n with
  | GNBlank ws => all_blank ws
  | GNComment lead text => all_blank lead && no_nl text && no_trailing_cr text
  end.
Definition ignored_verb (v : bytes) : bool := existsb (bytes_eqb v) [v_exclude; v_retract; v_godebug; v_tool].
Definition wf_gm_dir (orc : gm_oracle) (d : gm_dir) : bool :=
  forallb tok_ok (dir_args d) &&
  match olookup (dir_verb d :: dir_args d) orc with Some true => true | _ => false end &&
  match d with
  | DIgnored verb _ => ignored_verb verb
  | DRequire _ v => negb (is_nil v)
  | DReplace r => negb (bytes_eqb (rr_old r) s_arrow) && negb (bytes_eqb (rr_new r) s_arrow)
  | _ => true
  end.
Definition wf_gm_item (orc : gm_oracle) (it : gm_item) : bool :=
  match it with
  | GNoise n _ => wf_gm_noise n
  | GLine d y => wf_gm_dir orc d && wf_tl_lay y
  | GBlock verb opn entries cls =>
      block_verb verb && wf_tl_lay opn && wf_tl_lay cls &&
      forallb (fun b => match b with
                        | BNoise n _ => wf_gm_noise n
                        | BDir d y => wf_gm_dir orc d && wf_tl_lay y && bytes_eqb (dir_verb d) verb && negb (is_nil (dir_args d))
                        end) entries
  end.
Definition count_dirs (f : gm_dir -> bool) (d : gm_doc) : nat := length (filter f (doc_dirs d)).
Definition wf_gm_doc (orc : gm_oracle) (d : gm_doc) : bool :=
  forallb (wf_gm_item orc) (gd_items d) &&
  Nat.leb (count_dirs (fun x => match x with DGo _ => true | _ => false end) d) 1 &&
  Nat.leb (count_dirs (fun x => match x with DToolchain _ => true | _ => false end) d) 1 &&
  Nat.leb (count_dirs (fun x => match x with DModule _ => true | _ => false end) d) 1 &&
  forallb (fun le => no_nl (fst le)) (flat_map item_lines (gd_items d)) &&
  last_line_ok (flat_map item_lines (gd_items d)) (gd_final_nl d).

(* ------------------------------------------------------------------ correspondence record *)
Record gomodb_case := {
  gbc_claim : option gm_doc;
  gbc_oracle : gm_oracle;
  gbc_bytes : bytes;
  gbc_obs : outcome (list pkg)
}.
Definition gomodb_case_render_ok (c : gomodb_case) : bool :=
  match gbc_claim c with None => true | Some d => bytes_eqb (render_gomod_doc d) (gbc_bytes c) end.
Definition unmodelled (o : outcome (list pkg)) : bool := match o with Err EOther => true | _ => false end.
(* outside the sub-grammar / the tabulated directives the model says "not modelled" and nothing is compared *)
Definition gomodb_case_model_ok (c : gomodb_case) : bool :=
  let m := parse_gomod_bytes (gbc_oracle c) (gbc_bytes c) in
  unmodelled m || same_outcome m (gbc_obs c).
Definition gomodb_case_modelled (c : gomodb_case) : bool := negb (unmodelled (parse_gomod_bytes (gbc_oracle c) (gbc_bytes c))).
Definition gomodb_case_claimed (c : gomodb_case) : bool :=
  match gbc_claim c with None => false | Some d => wf_gm_doc (gbc_oracle c) d && wf_gomod (recs_of_dirs (doc_dirs d)) end.
Definition gomodb_case_spec_ok (c : gomodb_case) : bool :=
  match gbc_claim c with
  | None => negb (is_panic (gbc_obs c))
  | Some d => negb (wf_gm_doc (gbc_oracle c) d && wf_gomod (recs_of_dirs (doc_dirs d))) ||
              same_outcome (gbc_obs c) (Ok (expected_gomod_doc d))
  end.

(* Formats/Structs2Proofs.v - structure-level exactness for package-lock.json (packages map, v2/v3)
   and go.mod (require + go directives). *)
From Coq Require Import List NArith Bool Permutation Lia.
From Scalibr Require Import Formats.Lines Formats.LinesProofs Formats.Structs Formats.StructsProofs Formats.Structs2.
Import ListNotations.
Open Scope N_scope.

(* ------------------------------------------------------------------ association maps with fresh keys *)
Fixpoint akey_mem {V} (k : bytes) (m : list (bytes * V)) : bool :=
  match m with [] => false | (k', _) :: r => bytes_eqb k k' || akey_mem k r end.

Lemma amap_set_fresh {V} k (v : V) m : akey_mem k m = false -> amap_set k v m = m ++ [(k, v)].
Proof.
  induction m as [|[k' v'] m IH]; intros H; [reflexivity|].
  cbn [akey_mem] in H. apply orb_false_iff in H as [H1 H2]. cbn [amap_set]. rewrite H1. cbn [app]. now rewrite IH.
Qed.

Lemma akey_mem_app {V} k (a b : list (bytes * V)) : akey_mem k (a ++ b) = akey_mem k a || akey_mem k b.
Proof. induction a as [|[k' v'] a IH]; [reflexivity|]. cbn [app akey_mem]. now rewrite IH, orb_assoc. Qed.

Lemma bytes_mem_in k l : bytes_mem k l = true <-> In k l.
Proof.
  induction l as [|q l IH]; cbn [bytes_mem In]; [split; [discriminate|tauto]|].
  rewrite orb_true_iff, bytes_eqb_eq, IH. split; intros [H|H]; auto.
Qed.
Lemma nodup_bytes_NoDup l : nodup_bytes l = true -> NoDup l.
Proof.
  induction l as [|p l IH]; intros H; [constructor|].
  cbn [nodup_bytes] in H. apply andb_true_iff in H as [H1 H2]. constructor; [|now apply IH].
  intros Hin. apply bytes_mem_in in Hin. rewrite Hin in H1. discriminate.
Qed.

(* ------------------------------------------------------------------ package-lock.json: the name from the path *)
Lemma split_on_app sep a b : split_on sep (a ++ sep :: b) = split_on sep a ++ split_on sep b.
Proof.
  induction a as [|c a IH].
  - cbn. now rewrite N.eqb_refl.
  - cbn [app split_on]. destruct (c =? sep); [now rewrite IH|].
    rewrite IH. destruct (split_on sep a) as [|p ps] eqn:E; [|reflexivity].
    exfalso. clear -E. destruct a as [|x a]; cbn in E; [discriminate|].
    destruct (x =? sep); [discriminate|]. destruct (split_on sep a); discriminate.
Qed.

Lemma split_on_none sep b : contains_byte sep b = false -> split_on sep b = [b].
Proof.
  induction b as [|c b IH]; intros H; [reflexivity|].
  cbn [contains_byte] in H. apply orb_false_iff in H as [H1 H2]. cbn [split_on]. rewrite H1, (IH H2). reflexivity.
Qed.

Lemma cut_some sep l a b : cut sep l = Some (a, b) -> l = a ++ sep :: b /\ contains_byte sep a = false.
Proof.
  revert a b. induction l as [|c l IH]; intros a b H; [discriminate|].
  cbn [cut] in H. destruct (c =? sep) eqn:E.
  - inversion H; subst. apply N.eqb_eq in E. subst. split; reflexivity.
  - destruct (cut sep l) as [[a' b']|]; [|discriminate]. inversion H; subst.
    destruct (IH a' b eq_refl) as [-> Hc]. split; [reflexivity|]. cbn [contains_byte]. now rewrite E, Hc.
Qed.

Lemma prefix_shape p : wf_npm_prefix p = true -> p = [] \/ exists p', p = p' ++ [SLASH].
Proof.
  unfold wf_npm_prefix. intros H. apply orb_true_iff in H as [H|H]; [left; destruct p; [reflexivity|discriminate]|].
  destruct p as [|c p]; [now left|right]. destruct (@exists_last _ (c :: p)) as (p' & z & E); [discriminate|].
  rewrite E in *. rewrite last_last in H. apply N.eqb_eq in H. subst z. eauto.
Qed.

Lemma nm_segments p : wf_npm_prefix p = true ->
  exists X, forall tail, split_on SLASH (p ++ s_node_modules ++ tail) = X ++ [[110;111;100;101;95;109;111;100;117;108;101;115]] ++ split_on SLASH tail.
Proof.
  intros H. set (nm := [110;111;100;101;95;109;111;100;117;108;101;115]).
  assert (s_node_modules = nm ++ [SLASH]) as -> by reflexivity.
  destruct (prefix_shape p H) as [->|(p' & ->)].
  - exists []. intros tail. cbn [app]. rewrite <- app_assoc. cbn [app].
    rewrite split_on_app. assert (split_on SLASH nm = [nm]) as -> by reflexivity. reflexivity.
  - exists (split_on SLASH p'). intros tail. rewrite <- !app_assoc. cbn [app].
    rewrite split_on_app. f_equal.
Qed.

Lemma npm_name_of_path r : wf_npm_name (nr_name r) = true -> wf_npm_prefix (nr_prefix r) = true ->
  npm_name (npm_rec_path r) = nr_name r.
Proof.
  intros Hn Hp. unfold npm_name, npm_rec_path. destruct (nm_segments _ Hp) as (X & HX). rewrite HX.
  unfold wf_npm_name in Hn. destruct (nr_name r) as [|c n] eqn:En; [discriminate|].
  destruct (c =? AT) eqn:Ec.
  - destruct (cut SLASH (c :: n)) as [[s b]|] eqn:Ecut; [|discriminate].
    apply andb_true_iff in Hn as [Hn H3]. apply andb_true_iff in Hn as [H1 H2].
    apply cut_some in Ecut as [E Hs]. rewrite E.
    rewrite split_on_app, (split_on_none _ s Hs), (split_on_none _ b); [|now apply negb_true_iff in H2].
    rewrite !app_assoc, !rev_app_distr. cbn [rev app].
    assert (has_prefix [AT] s = true) as ->.
    { destruct s as [|x s]; [cbn in E; inversion E; subst; apply N.eqb_eq in Ec; discriminate|].
      cbn in E. inversion E; subst. apply N.eqb_eq in Ec. subst. reflexivity. }
    reflexivity.
  - rewrite (split_on_none _ (c :: n)); [|now apply negb_true_iff in Hn].
    rewrite !app_assoc, !rev_app_distr. cbn [rev app]. reflexivity.
Qed.

Lemma cut_last_app v n : contains_byte AT v = false -> cut_last AT (n ++ AT :: v) = Some (n, v).
Proof.
  intros Hv. assert (cut_last AT v = None) as Hn.
  { induction v as [|c v IH]; [reflexivity|]. cbn [contains_byte] in Hv. apply orb_false_iff in Hv as [H1 H2].
    cbn [cut_last]. now rewrite (IH H2), H1. }
  induction n as [|c n IH].
  - cbn [app cut_last]. now rewrite Hn, N.eqb_refl.
  - cbn [app cut_last]. now rewrite IH.
Qed.

Definition npm_key (r : npm_rec) : bytes := nr_name r ++ AT :: nr_version r.
Definition npm_nv (r : npm_rec) : pkg := (nr_name r, nr_version r).

Lemma npm_fold : forall rs d,
  (forall r, In r rs -> wf_npm_name (nr_name r) = true /\ wf_npm_prefix (nr_prefix r) = true /\ contains_byte AT (nr_version r) = false) ->
  NoDup (map npm_nv rs) ->
  (forall r, In r rs -> akey_mem (npm_key r) d = false) ->
  fold_left npm_pkg_step
    (map (fun r => {| np_path := npm_rec_path r; np_name := []; np_version := nr_version r; np_commit := [] |}) rs) d =
  d ++ map (fun r => (npm_key r, npm_nv r)) rs.
Proof.
  induction rs as [|r rs IH]; intros d Hwf Hnd Hfresh; [cbn; now rewrite app_nil_r|].
  destruct (Hwf r (or_introl eq_refl)) as (W1 & W2 & W3). inversion Hnd as [|? ? Hnin Hnd']; subst.
  cbn [map fold_left]. unfold npm_pkg_step at 2. cbn [np_path np_name np_version np_commit is_nil].
  assert (is_nil (npm_rec_path r) = false) as ->.
  { unfold npm_rec_path. destruct (nr_prefix r); reflexivity. }
  rewrite (npm_name_of_path r W1 W2). fold (npm_key r).
  rewrite amap_set_fresh by (apply Hfresh; now left).
  rewrite IH; [now rewrite <- app_assoc| intros x Hx; apply Hwf; now right | exact Hnd' |].
  intros x Hx. rewrite akey_mem_app, (Hfresh x (or_intror Hx)). cbn [akey_mem orb].
  rewrite orb_false_r. apply bytes_eqb_neq. intros E. unfold npm_key in E.
  destruct (Hwf x (or_intror Hx)) as (_ & _ & X3).
  assert (Some (nr_name x, nr_version x) = Some (nr_name r, nr_version r)) as E2
    by (rewrite <- (cut_last_app _ _ X3), <- (cut_last_app _ _ W3); now rewrite E).
  inversion E2 as [[E3 E4]]. apply Hnin. apply in_map_iff. exists x. split; [|exact Hx]. unfold npm_nv. now rewrite E3, E4.
Qed.

Lemma packagelock_struct_exact_lemma root rs : wf_packagelock rs = true ->
  extract_packagelock (struct_of_packagelock root rs) = Ok (expected_packagelock rs).
Proof.
  unfold wf_packagelock. intros H. apply andb_true_iff in H as [H1 H2].
  unfold extract_packagelock, struct_of_packagelock. cbn [ns_packages]. f_equal. unfold npm_packages.
  assert (fold_left npm_pkg_step
            ((if root then [ {| np_path := []; np_name := [114]; np_version := [49]; np_commit := [] |} ] else []) ++
             map (fun r => {| np_path := npm_rec_path r; np_name := []; np_version := nr_version r; np_commit := [] |}) rs) [] =
          fold_left npm_pkg_step (map (fun r => {| np_path := npm_rec_path r; np_name := []; np_version := nr_version r; np_commit := [] |}) rs) []) as ->
    by (destruct root; reflexivity).
  rewrite npm_fold.
  - cbn [app]. rewrite map_map. reflexivity.
  - intros r Hr. rewrite forallb_forall in H1. specialize (H1 r Hr).
    apply andb_true_iff in H1 as [H1 H5]. apply andb_true_iff in H1 as [H3 H4]. apply negb_true_iff in H5. auto.
  - now apply nodup_pkgs_NoDup.
  - reflexivity.
Qed.

(* ------------------------------------------------------------------ go.mod *)
Lemma fold_left_map_pre {A B C} (f : A -> B -> A) (g : C -> B) l a :
  fold_left f (map g l) a = fold_left (fun a x => f a (g x)) l a.
Proof. revert a. induction l as [|x l IH]; intros a; [reflexivity|]. cbn. apply IH. Qed.

Lemma gmap_set_fresh k v m : gmap_mem k m = false -> gmap_set k v m = m ++ [(k, v)].
Proof.
  induction m as [|[k' v'] m IH]; intros H; [reflexivity|].
  cbn [gmap_mem] in H. apply orb_false_iff in H as [H1 H2]. cbn [gmap_set]. rewrite H1. cbn [app]. now rewrite IH.
Qed.
Lemma gmap_mem_app k a b : gmap_mem k (a ++ b) = gmap_mem k a || gmap_mem k b.
Proof. induction a as [|[k' v'] a IH]; [reflexivity|]. cbn [app gmap_mem]. now rewrite IH, orb_assoc. Qed.
Lemma gmap_mem_diag k l : gmap_mem k (map (fun p => (p, p)) l) = pkg_mem k l.
Proof. induction l as [|q l IH]; [reflexivity|]. cbn [map gmap_mem pkg_mem]. now rewrite IH. Qed.

Lemma gfold_diag (f : pkg -> pkg) : forall l m,
  NoDup (map f l) -> (forall x, In x l -> gmap_mem (f x) m = false) ->
  fold_left (fun m' x => gmap_set (f x) (f x) m') l m = m ++ map (fun x => (f x, f x)) l.
Proof.
  induction l as [|x l IH]; intros m Hnd Hf; [cbn; now rewrite app_nil_r|].
  inversion Hnd as [|? ? Hnin Hnd']; subst. cbn [fold_left map].
  rewrite gmap_set_fresh by (apply Hf; now left).
  rewrite IH; [now rewrite <- app_assoc|exact Hnd'|].
  intros y Hy. rewrite gmap_mem_app, (Hf y (or_intror Hy)). cbn [gmap_mem orb]. rewrite orb_false_r.
  apply not_true_is_false. intros E. apply pkg_eqb_eq in E. apply Hnin. rewrite <- E. now apply in_map.
Qed.

Lemma NoDup_fst_NoDup (l : list pkg) : NoDup (map fst l) -> NoDup l.
Proof.
  induction l as [|p l IH]; intros H; [constructor|]. cbn [map] in H. inversion H as [|? ? Hn H']; subst.
  constructor; [|now apply IH]. intros Hin. apply Hn. now apply in_map.
Qed.

Lemma gomod_struct_exact_lemma rs : wf_gomod rs = true ->
  extract_gomod (struct_of_gomod rs) = Ok (expected_gomod rs).
Proof.
  unfold wf_gomod. intros H. apply andb_true_iff in H as [H1 H2]. apply nodup_bytes_NoDup in H1. apply negb_true_iff in H2.
  pose proof (NoDup_fst_NoDup _ H1) as ND.
  unfold extract_gomod, struct_of_gomod, gomod_goversion. cbn [gm_require gm_replace gm_go gm_toolchain is_nil fold_left]. f_equal.
  rewrite fold_left_map_pre.
  assert (forall l m, fold_left (fun m0 (x : pkg) => let p := (fst (fst x, 118 :: snd x), trim_v (snd (fst x, 118 :: snd x))) in gmap_set p p m0) l m =
                      fold_left (fun m' x => gmap_set ((fun y => y) x) ((fun y => y) x) m') l m) as E.
  { induction l as [|[a b] l IH]; intros m; [reflexivity|]. cbn [fold_left fst snd trim_v]. apply IH. }
  rewrite E, (gfold_diag (fun y => y)); [|now rewrite map_id|reflexivity]. cbn [app].
  set (m1 := map (fun x : pkg => (x, x)) (gq_requires rs)).
  assert (forall k, gmap_mem k m1 = pkg_mem k (gq_requires rs)) as Hm by (intros k; apply gmap_mem_diag).
  assert (forall v, pkg_mem (s_stdlib, v) (gq_requires rs) = false) as Hs.
  { intros v. apply not_true_is_false. intros T. apply pkg_mem_in in T. apply (in_map fst) in T. cbn [fst] in T.
    apply bytes_mem_in in T. congruence. }
  unfold expected_gomod. destruct (is_nil (gq_go rs)) eqn:Eg.
  - rewrite app_nil_r. unfold m1. rewrite fold_left_map_pre, (gfold_diag (fun y => y)); [|now rewrite map_id|reflexivity].
    cbn [app]. rewrite map_map. cbn [snd]. now rewrite map_id.
  - rewrite gmap_set_fresh by (rewrite Hm; apply Hs).
    rewrite fold_left_app. unfold m1. rewrite fold_left_map_pre, (gfold_diag (fun y => y)); [|now rewrite map_id|reflexivity].
    cbn [app fold_left snd]. rewrite gmap_set_fresh by (rewrite gmap_mem_diag; apply Hs).
    rewrite map_app, map_map. cbn [map snd]. now rewrite map_id.
Qed.

(* Formats/Structs2Proofs.v - structure-level exactness for package-lock.json (packages map, v2/v3)
   and go.mod (require + go directives). *)
From Coq Require Import List NArith Bool Permutation Lia.
From Scalibr Require Import Formats.Lines Formats.LinesProofs Formats.Structs Formats.StructsProofs Formats.Structs2.
Import ListNotations.
Open Scope N_scope.

(* ------------------------------------------------------------------ association maps with fresh keys *)
Fixpoint akey_mem {V} (k : bytes) (m : list (bytes * V)) : bool :=
  match m with [] => false | (k', _) :: r => bytes_eqb k k' || akey_mem k r end.

Lemma amap_set_fresh {V} k (v : V) m : akey_mem k m = false -> amap_set k v m = m ++ [(k, v)].
Proof.
  induction m as [|[k' v'] m IH]; intros H; [reflexivity|].
  cbn [akey_mem] in H. apply orb_false_iff in H as [H1 H2]. cbn [amap_set]. rewrite H1. cbn [app]. now rewrite IH.
Qed.

Lemma akey_mem_app {V} k (a b : list (bytes * V)) : akey_mem k (a ++ b) = akey_mem k a || akey_mem k b.
Proof. induction a as [|[k' v'] a IH]; [reflexivity|]. cbn [app akey_mem]. now rewrite IH, orb_assoc. Qed.

Lemma bytes_mem_in k l : bytes_mem k l = true <-> In k l.
Proof.
  induction l as [|q l IH]; cbn [bytes_mem In]; [split; [discriminate|tauto]|].
  rewrite orb_true_iff, bytes_eqb_eq, IH. split; intros [H|H]; auto.
Qed.
Lemma nodup_bytes_NoDup l : nodup_bytes l = true -> NoDup l.
Proof.
  induction l as [|p l IH]; intros H; [constructor|].
  cbn [nodup_bytes] in H. apply andb_true_iff in H as [H1 H2]. constructor; [|now apply IH].
  intros Hin. apply bytes_mem_in in Hin. rewrite Hin in H1. discriminate.
Qed.

(* ------------------------------------------------------------------ package-lock.json: the name from the path *)
Lemma split_on_app sep a b : split_on sep (a ++ sep :: b) = split_on sep a ++ split_on sep b.
Proof.
  induction a as [|c a IH].
  - cbn. now rewrite N.eqb_refl.
  - cbn [app split_on]. destruct (c =? sep); [now rewrite IH|].
    rewrite IH. destruct (split_on sep a) as [|p ps] eqn:E; [|reflexivity].
    exfalso. clear -E. destruct a as [|x a]; cbn in E; [discriminate|].
    destruct (x =? sep); [discriminate|]. destruct (split_on sep a); discriminate.
Qed.

Lemma split_on_none sep b : contains_byte sep b = false -> split_on sep b = [b].
Proof.
  induction b as [|c b IH]; intros H; [reflexivity|].
  cbn [contains_byte] in H. apply orb_false_iff in H as [H1 H2]. cbn [split_on]. rewrite H1, (IH H2). reflexivity.
Qed.

Lemma cut_some sep l a b : cut sep l = Some (a, b) -> l = a ++ sep :: b /\ contains_byte sep a = false.
Proof.
  revert a b. induction l as [|c l IH]; intros a b H; [discriminate|].
  cbn [cut] in H. destruct (c =? sep) eqn:E.
  - inversion H; subst. apply N.eqb_eq in E. subst. split; reflexivity.
  - destruct (cut sep l) as [[a' b']|]; [|discriminate]. inversion H; subst.
    destruct (IH a' b eq_refl) as [-> Hc]. split; [reflexivity|]. cbn [contains_byte]. now rewrite E, Hc.
Qed.

Lemma prefix_shape p : wf_npm_prefix p = true -> p = [] \/ exists p', p = p' ++ [SLASH].
Proof.
  unfold wf_npm_prefix. intros H. apply orb_true_iff in H as [H|H]; [left; destruct p; [reflexivity|discriminate]|].
  destruct p as [|c p]; [now left|right]. destruct (@exists_last _ (c :: p)) as (p' & z & E); [discriminate|].
  rewrite E in *. rewrite last_last in H. apply N.eqb_eq in H. subst z. eauto.
Qed.

Lemma nm_segments p : wf_npm_prefix p = true ->
  exists X, forall tail, split_on SLASH (p ++ s_node_modules ++ tail) = X ++ [[110;111;100;101;95;109;111;100;117;108;101;115]] ++ split_on SLASH tail.
Proof.
  intros H. set (nm := [110;111;100;101;95;109;111;100;117;108;101;115]).
  assert (s_node_modules = nm ++ [SLASH]) as -> by reflexivity.
  destruct (prefix_shape p H) as [->|(p' & ->)].
  - exists []. intros tail. cbn [app]. rewrite <- app_assoc. cbn [app].
    rewrite split_on_app. assert (split_on SLASH nm = [nm]) as -> by reflexivity. reflexivity.
  - exists (split_on SLASH p'). intros tail. rewrite <- !app_assoc. cbn [app].
    rewrite split_on_app. f_equal.
Qed.

Lemma npm_name_of_path r : wf_npm_name (nr_name r) = true -> wf_npm_prefix (nr_prefix r) = true ->
  npm_name (npm_rec_path r) = nr_name r.
Proof.
  intros Hn Hp. unfold npm_name, npm_rec_path. destruct (nm_segments _ Hp) as (X & HX). rewrite HX.
  unfold wf_npm_name in Hn. destruct (nr_name r) as [|c n] eqn:En; [discriminate|].
  destruct (c =? AT) eqn:Ec.
  - destruct (cut SLASH (c :: n)) as [[s b]|] eqn:Ecut; [|discriminate].
    apply andb_true_iff in Hn as [Hn H3]. apply andb_true_iff in Hn as [H1 H2].
    apply cut_some in Ecut as [E Hs]. rewrite E.
    rewrite split_on_app, (split_on_none _ s Hs), (split_on_none _ b); [|now apply negb_true_iff in H2].
    rewrite !app_assoc, !rev_app_distr. cbn [rev app].
    assert (has_prefix [AT] s = true) as ->.
    { destruct s as [|x s]; [cbn in E; inversion E; subst; apply N.eqb_eq in Ec; discriminate|].
      cbn in E. inversion E; subst. apply N.eqb_eq in Ec. subst. reflexivity. }
    reflexivity.
  - rewrite (split_on_none _ (c :: n)); [|now apply negb_true_iff in Hn].
    rewrite !app_assoc, !rev_app_distr. cbn [rev app]. reflexivity.
Qed.

Lemma cut_last_app v n : contains_byte AT v = false -> cut_last AT (n ++ AT :: v) = Some (n, v).
Proof.
  intros Hv. assert (cut_last AT v = None) as Hn.
  { induction v as [|c v IH]; [reflexivity|]. cbn [contains_byte] in Hv. apply orb_false_iff in Hv as [H1 H2].
    cbn [cut_last]. now rewrite (IH H2), H1. }
  induction n as [|c n IH].
  - cbn [app cut_last]. now rewrite Hn, N.eqb_refl.
  - cbn [app cut_last]. now rewrite IH.
Qed.

Definition npm_key (r : npm_rec) : bytes := nr_name r ++ AT :: nr_version r.
Definition npm_nv (r : npm_rec) : pkg := (nr_name r, nr_version r).

Lemma npm_fold : forall rs d,
  (forall r, In r rs -> wf_npm_name (nr_name r) = true /\ wf_npm_prefix (nr_prefix r) = true /\ contains_byte AT (nr_version r) = false) ->
  NoDup (map npm_nv rs) ->
  (forall r, In r rs -> akey_mem (npm_key r) d = false) ->
  fold_left npm_pkg_step
    (map (fun r => {| np_path := npm_rec_path r; np_name := []; np_version := nr_version r; np_commit := [] |}) rs) d =
  d ++ map (fun r => (npm_key r, npm_nv r)) rs.
Proof.
  induction rs as [|r rs IH]; intros d Hwf Hnd Hfresh; [cbn; now rewrite app_nil_r|].
  destruct (Hwf r (or_introl eq_refl)) as (W1 & W2 & W3). inversion Hnd as [|? ? Hnin Hnd']; subst.
  cbn [map fold_left]. unfold npm_pkg_step at 2. cbn [np_path np_name np_version np_commit is_nil].
  assert (is_nil (npm_rec_path r) = false) as ->.
  { unfold npm_rec_path. destruct (nr_prefix r); reflexivity. }
  rewrite (npm_name_of_path r W1 W2). fold (npm_key r).
  rewrite amap_set_fresh by (apply Hfresh; now left).
  rewrite IH; [now rewrite <- app_assoc| intros x Hx; apply Hwf; now right | exact Hnd' |].
  intros x Hx. rewrite akey_mem_app, (Hfresh x (or_intror Hx)). cbn [akey_mem orb].
  rewrite orb_false_r. apply bytes_eqb_neq. intros E. unfold npm_key in E.
  destruct (Hwf x (or_intror Hx)) as (_ & _ & X3).
  assert (Some (nr_name x, nr_version x) = Some (nr_name r, nr_version r)) as E2
    by (rewrite <- (cut_last_app _ _ X3), <- (cut_last_app _ _ W3); now rewrite E).
  inversion E2 as [[E3 E4]]. apply Hnin. apply in_map_iff. exists x. split; [|exact Hx]. unfold npm_nv. now rewrite E3, E4.
Qed.

Lemma packagelock_struct_exact_lemma root rs : wf_packagelock rs = true ->
  extract_packagelock (struct_of_packagelock root rs) = Ok (expected_packagelock rs).
Proof.
  unfold wf_packagelock. intros H. apply andb_true_iff in H as [H1 H2].
  unfold extract_packagelock, struct_of_packagelock. cbn [ns_packages]. f_equal. unfold npm_packages.
  assert (fold_left npm_pkg_step
            ((if root then [ {| np_path := []; np_name := [114]; np_version := [49]; np_commit := [] |} ] else []) ++
             map (fun r => {| np_path := npm_rec_path r; np_name := []; np_version := nr_version r; np_commit := [] |}) rs) [] =
          fold_left npm_pkg_step (map (fun r => {| np_path := npm_rec_path r; np_name := []; np_version := nr_version r; np_commit := [] |}) rs) []) as ->
    by (destruct root; reflexivity).
  rewrite npm_fold.
  - cbn [app]. rewrite map_map. reflexivity.
  - intros r Hr. rewrite forallb_forall in H1. specialize (H1 r Hr).
    apply andb_true_iff in H1 as [H1 H5]. apply andb_true_iff in H1 as [H3 H4]. apply negb_true_iff in H5. auto.
  - now apply nodup_pkgs_NoDup.
  - reflexivity.
Qed.

(* ------------------------------------------------------------------ go.mod *)
Lemma fold_left_map_pre {A B C} (f : A -> B -> A) (g : C -> B) l a :
  fold_left f (map g l) a = fold_left (fun a x => f a (g x)) l a.
Proof. revert a. induction l as [|x l IH]; intros a; [reflexivity|]. cbn. apply IH. Qed.

Lemma gmap_set_fresh k v m : gmap_mem k m = false -> gmap_set k v m = m ++ [(k, v)].
Proof.
  induction m as [|[k' v'] m IH]; intros H; [reflexivity|].
  cbn [gmap_mem] in H. apply orb_false_iff in H as [H1 H2]. cbn [gmap_set]. rewrite H1. cbn [app]. now rewrite IH.
Qed.
Lemma gmap_mem_app k a b : gmap_mem k (a ++ b) = gmap_mem k a || gmap_mem k b.
Proof. induction a as [|[k' v'] a IH]; [reflexivity|]. cbn [app gmap_mem]. now rewrite IH, orb_assoc. Qed.
Lemma gmap_mem_diag k l : gmap_mem k (map (fun p => (p, p)) l) = pkg_mem k l.
Proof. induction l as [|q l IH]; [reflexivity|]. cbn [map gmap_mem pkg_mem]. now rewrite IH. Qed.

Lemma gfold_diag (f : pkg -> pkg) : forall l m,
  NoDup (map f l) -> (forall x, In x l -> gmap_mem (f x) m = false) ->
  fold_left (fun m' x => gmap_set (f x) (f x) m') l m = m ++ map (fun x => (f x, f x)) l.
Proof.
  induction l as [|x l IH]; intros m Hnd Hf; [cbn; now rewrite app_nil_r|].
  inversion Hnd as [|? ? Hnin Hnd']; subst. cbn [fold_left map].
  rewrite gmap_set_fresh by (apply Hf; now left).
  rewrite IH; [now rewrite <- app_assoc|exact Hnd'|].
  intros y Hy. rewrite gmap_mem_app, (Hf y (or_intror Hy)). cbn [gmap_mem orb]. rewrite orb_false_r.
  apply not_true_is_false. intros E. apply pkg_eqb_eq in E. apply Hnin. rewrite <- E. now apply in_map.
Qed.

Lemma NoDup_fst_NoDup (l : list pkg) : NoDup (map fst l) -> NoDup l.
Proof.
  induction l as [|p l IH]; intros H; [constructor|]. cbn [map] in H. inversion H as [|? ? Hn H']; subst.
  constructor; [|now apply IH]. intros Hin. apply Hn. now apply in_map.
Qed.

(* --- a map whose keys are the requirements themselves *)
Definition vmap (reqs : list pkg) (vals : pkg -> pkg) : list (gkey * pkg) := map (fun q => (q, vals q)) reqs.

Lemma pkg_eqb_refl p : pkg_eqb p p = true.
Proof. now apply pkg_eqb_eq. Qed.
Lemma pkg_eqb_neq p q : pkg_eqb p q = false <-> p <> q.
Proof.
  split; [intros E H; apply pkg_eqb_eq in H; congruence|].
  intros H. destruct (pkg_eqb p q) eqn:E; [apply pkg_eqb_eq in E; contradiction|reflexivity].
Qed.

Lemma gmap_set_present reqs vals k v : NoDup reqs -> In k reqs ->
  gmap_set k v (vmap reqs vals) = vmap reqs (fun q => if pkg_eqb q k then v else vals q).
Proof.
  unfold vmap. induction reqs as [|q reqs IH]; intros Hnd Hin; [contradiction|].
  inversion Hnd as [|? ? Hn Hnd']; subst. cbn [map gmap_set].
  destruct (pkg_eqb k q) eqn:E.
  - apply pkg_eqb_eq in E. subst q. rewrite pkg_eqb_refl. f_equal.
    apply map_ext_in. intros x Hx. destruct (pkg_eqb x k) eqn:E2; [apply pkg_eqb_eq in E2; subst; contradiction|reflexivity].
  - destruct Hin as [->|Hin]; [rewrite pkg_eqb_refl in E; discriminate|].
    assert (pkg_eqb q k = false) as -> by (apply pkg_eqb_neq; apply pkg_eqb_neq in E; congruence).
    now rewrite IH.
Qed.

Lemma set_targets reqs newp : NoDup reqs -> forall ts vals, (forall t, In t ts -> In t reqs) ->
  fold_left (fun m k => gmap_set k newp m) ts (vmap reqs vals) = vmap reqs (fun q => if pkg_mem q ts then newp else vals q).
Proof.
  intros Hnd. induction ts as [|t ts IH]; intros vals Hsub; [reflexivity|].
  cbn [fold_left]. rewrite gmap_set_present; [|exact Hnd|apply Hsub; now left].
  rewrite IH by (intros x Hx; apply Hsub; now right).
  unfold vmap. apply map_ext. intros q. cbn [pkg_mem].
  destruct (pkg_mem q ts), (pkg_eqb q t); reflexivity.
Qed.

Definition conv_rr (r : gomod_rrec) : gomod_replace :=
  {| gr_old := rr_old r; gr_oldv := vpre (rr_oldv r); gr_new := rr_new r; gr_newv := vpre (rr_newv r) |}.
Definition newp (r : gomod_rrec) : pkg := (rr_new r, rr_newv r).

Lemma trim_v_vpre v : trim_v (vpre v) = v.
Proof. destruct v; reflexivity. Qed.
Lemma is_nil_vpre v : is_nil (vpre v) = is_nil v.
Proof. destruct v; reflexivity. Qed.

Lemma gmap_mem_vmap k reqs vals : gmap_mem k (vmap reqs vals) = pkg_mem k reqs.
Proof. unfold vmap. induction reqs as [|q reqs IH]; [reflexivity|]. cbn [map gmap_mem pkg_mem]. now rewrite IH. Qed.

Lemma filter_vmap_key reqs vals (P : pkg -> bool) :
  map fst (filter (fun kv => P (fst kv)) (vmap reqs vals)) = filter P reqs.
Proof.
  unfold vmap. induction reqs as [|q reqs IH]; [reflexivity|]. cbn [map filter fst]. destruct (P q); cbn [map fst]; now rewrite IH.
Qed.

(* one replace directive: it is matched against the keys, i.e. the original requirements *)
Lemma apply_replace_step reqs vals r : NoDup reqs ->
  gomod_apply_replace (vmap reqs vals) (conv_rr r) = vmap reqs (fun q => if rr_matches r q then newp r else vals q).
Proof.
  intros Hnd. unfold gomod_apply_replace, conv_rr. cbn [gr_old gr_oldv gr_new gr_newv].
  rewrite is_nil_vpre, !trim_v_vpre. fold (newp r).
  destruct (is_nil (rr_oldv r)) eqn:Ev.
  - match goal with |- context [map fst (filter ?f (vmap reqs vals))] =>
      replace (map fst (filter f (vmap reqs vals))) with (filter (fun q : pkg => bytes_eqb (fst q) (rr_old r)) reqs)
        by (symmetry; apply (filter_vmap_key reqs vals (fun q => bytes_eqb (fst q) (rr_old r)))) end.
    rewrite set_targets; [|exact Hnd|intros t Ht; now apply filter_In in Ht].
    unfold vmap. apply map_ext_in. intros q Hq. unfold rr_matches. rewrite Ev. cbn [orb]. rewrite andb_true_r.
    destruct (pkg_mem q (filter _ reqs)) eqn:E.
    + apply pkg_mem_in, filter_In in E as [_ E]. now rewrite E.
    + destruct (bytes_eqb (fst q) (rr_old r)) eqn:E2; [|reflexivity]. exfalso.
      assert (pkg_mem q (filter (fun q0 : pkg => bytes_eqb (fst q0) (rr_old r)) reqs) = true) as T
        by (apply pkg_mem_in, filter_In; split; [exact Hq|exact E2]).
      congruence.
  - rewrite gmap_mem_vmap. destruct (pkg_mem (rr_old r, rr_oldv r) reqs) eqn:Em.
    + rewrite set_targets; [|exact Hnd|intros t [<-|[]]; now apply pkg_mem_in].
      unfold vmap. apply map_ext. intros q. cbn [pkg_mem]. rewrite orb_false_r. unfold rr_matches, pkg_eqb. cbn [fst snd]. now rewrite Ev.
    + cbn [fold_left]. unfold vmap. apply map_ext_in. intros q Hq. unfold rr_matches. rewrite Ev. cbn [orb].
      destruct (bytes_eqb (fst q) (rr_old r) && bytes_eqb (snd q) (rr_oldv r)) eqn:E; [|reflexivity]. exfalso.
      apply andb_true_iff in E as [E1 E2]. apply bytes_eqb_eq in E1, E2. destruct q as [a b]. cbn [fst snd] in *. subst.
      apply pkg_mem_in in Hq. congruence.
Qed.

(* all directives in sequence *)
Definition seq_apply (rsl : list gomod_rrec) (start : pkg) (q : pkg) : pkg :=
  fold_left (fun cur r => if rr_matches r q then newp r else cur) rsl start.

Lemma seq_apply_nomatch rsl start q : (forall r, In r rsl -> rr_matches r q = false) -> seq_apply rsl start q = start.
Proof.
  unfold seq_apply. revert start. induction rsl as [|r rsl IH]; intros start H; [reflexivity|].
  cbn [fold_left]. rewrite (H r (or_introl eq_refl)). apply IH. intros x Hx. apply H. now right.
Qed.

Lemma rr_matches_old r q : rr_matches r q = true -> fst q = rr_old r.
Proof. unfold rr_matches. intros H. apply andb_true_iff in H as [H _]. now apply bytes_eqb_eq. Qed.

Lemma replace_fold reqs : NoDup reqs -> forall rsl vals,
  fold_left gomod_apply_replace (map conv_rr rsl) (vmap reqs vals) = vmap reqs (fun q => seq_apply rsl (vals q) q).
Proof.
  intros Hnd. induction rsl as [|r rsl IH]; intros vals; [reflexivity|].
  cbn [map fold_left]. rewrite apply_replace_step by exact Hnd. now rewrite IH.
Qed.

Lemma seq_is_find rsl q : NoDup (map rr_old rsl) -> seq_apply rsl q q = apply_replaces rsl q.
Proof.
  unfold apply_replaces. assert (forall start, NoDup (map rr_old rsl) ->
    seq_apply rsl start q = match find (fun r => rr_matches r q) rsl with Some r => newp r | None => start end) as G.
  { induction rsl as [|r rsl IH]; intros start Ho; [reflexivity|]. inversion Ho as [|? ? Hnin Ho']; subst.
    unfold seq_apply. cbn [fold_left find]. destruct (rr_matches r q) eqn:E.
    - fold (seq_apply rsl (newp r) q). apply seq_apply_nomatch. intros r' Hr'.
      destruct (rr_matches r' q) eqn:E2; [|reflexivity]. exfalso. apply rr_matches_old in E, E2.
      apply Hnin. rewrite <- E, E2. now apply in_map.
    - fold (seq_apply rsl start q). now apply IH. }
  intros Ho. now rewrite G.
Qed.

Lemma apply_replaces_cases rsl q :
  apply_replaces rsl q = q \/ exists r, In r rsl /\ rr_matches r q = true /\ apply_replaces rsl q = newp r.
Proof.
  unfold apply_replaces. destruct (find _ rsl) as [r|] eqn:E; [|now left].
  right. apply find_some in E as [E1 E2]. eauto.
Qed.

Lemma wf_gomod_parts rs : wf_gomod rs = true ->
  NoDup (map fst (gq_requires rs)) /\ ~ In s_stdlib (map fst (gq_requires rs)) /\
  NoDup (map rr_old (gq_replaces rs)) /\ (forall r, In r (gq_replaces rs) -> rr_new r <> s_stdlib) /\
  NoDup (map (apply_replaces (gq_replaces rs)) (gq_requires rs)).
Proof.
  unfold wf_gomod. intros H. apply andb_true_iff in H as [H H5]. apply andb_true_iff in H as [H H4].
  apply andb_true_iff in H as [H H3]. apply andb_true_iff in H as [H1 H2].
  apply nodup_bytes_NoDup in H1, H3. apply nodup_pkgs_NoDup in H5. apply negb_true_iff in H2.
  repeat split; auto.
  - intros T. apply bytes_mem_in in T. congruence.
  - intros r Hr. rewrite forallb_forall in H4. specialize (H4 r Hr). now apply negb_true_iff, bytes_eqb_neq in H4.
Qed.

Lemma NoDup_map_inj_on {A B} (f : A -> B) (l : list A) :
  NoDup l -> (forall x y, In x l -> In y l -> f x = f y -> x = y) -> NoDup (map f l).
Proof.
  induction l as [|x l IH]; intros Hnd Hinj; [constructor|]. inversion Hnd as [|? ? Hn Hnd']; subst.
  cbn [map]. constructor.
  - intros Hin. apply in_map_iff in Hin as (y & E & Hy). assert (y = x) by (apply Hinj; [now right|now left|exact E]). subst. contradiction.
  - apply IH; [exact Hnd'|]. intros a b Ha Hb. apply Hinj; now right.
Qed.

Lemma NoDup_map_eq {A B} (f : A -> B) (l : list A) x y : NoDup (map f l) -> In x l -> In y l -> f x = f y -> x = y.
Proof.
  induction l as [|a l IH]; intros Hnd Hx Hy E; [contradiction|]. cbn [map] in Hnd. inversion Hnd as [|? ? Hn Hnd']; subst.
  destruct Hx as [->|Hx], Hy as [->|Hy]; auto.
  - exfalso. apply Hn. rewrite E. now apply in_map.
  - exfalso. apply Hn. rewrite <- E. now apply in_map.
Qed.

Definition gm_m0 (st : gomod_st) : list (gkey * pkg) :=
  fold_left (fun m rq => let p := (fst rq, trim_v (snd rq)) in gmap_set p p m) (gm_require st) [].
Definition gm_m1 (st : gomod_st) : list (gkey * pkg) := fold_left gomod_apply_replace (gm_replace st) (gm_m0 st).
Definition gm_m2 (st : gomod_st) : list (gkey * pkg) :=
  let gv := gomod_goversion st in if is_nil gv then gm_m1 st else gmap_set (s_stdlib, []) (s_stdlib, gv) (gm_m1 st).
Lemma extract_gomod_eq st :
  extract_gomod st = Ok (map snd (fold_left (fun d kv => gmap_set (snd kv) (snd kv) d) (gm_m2 st) [])).
Proof. reflexivity. Qed.

Lemma gm_m0_struct rs : NoDup (gq_requires rs) -> gm_m0 (struct_of_gomod rs) = vmap (gq_requires rs) (fun q => q).
Proof.
  intros ND. unfold gm_m0, struct_of_gomod. cbn [gm_require]. rewrite fold_left_map_pre.
  assert (forall l m, fold_left (fun m0 (x : pkg) => let p := (fst (fst x, 118 :: snd x), trim_v (snd (fst x, 118 :: snd x))) in gmap_set p p m0) l m =
                      fold_left (fun m' x => gmap_set ((fun y => y) x) ((fun y => y) x) m') l m) as E.
  { induction l as [|[a b] l IH]; intros m; [reflexivity|]. cbn [fold_left fst snd trim_v]. apply IH. }
  rewrite E, (gfold_diag (fun y => y)); [reflexivity|now rewrite map_id|reflexivity].
Qed.

Lemma gomod_struct_exact_lemma rs : wf_gomod rs = true ->
  extract_gomod (struct_of_gomod rs) = Ok (expected_gomod rs).
Proof.
  intros H. apply wf_gomod_parts in H as (P1 & P2 & P3 & P4 & P5).
  pose proof (NoDup_fst_NoDup _ P1) as ND.
  rewrite extract_gomod_eq. f_equal.
  assert (gm_m1 (struct_of_gomod rs) = vmap (gq_requires rs) (apply_replaces (gq_replaces rs))) as M1.
  { unfold gm_m1. rewrite gm_m0_struct by exact ND. unfold struct_of_gomod. cbn [gm_replace].
    change (map (fun r => {| gr_old := rr_old r; gr_oldv := vpre (rr_oldv r); gr_new := rr_new r; gr_newv := vpre (rr_newv r) |}) (gq_replaces rs))
      with (map conv_rr (gq_replaces rs)).
    rewrite replace_fold by exact ND.
    unfold vmap. apply map_ext. intros q. f_equal. now apply seq_is_find. }
  set (reqs := gq_requires rs) in *. set (rsl := gq_replaces rs) in *.
  assert (gomod_goversion (struct_of_gomod rs) = stdlib_version (gq_go rs) (gq_toolchain rs)) as GV.
  { unfold gomod_goversion, stdlib_version, struct_of_gomod. cbn [gm_go gm_toolchain]. destruct (gq_toolchain rs); reflexivity. }
  unfold gm_m2. rewrite GV, M1. clear M1 GV.
  set (vals := map (apply_replaces rsl) reqs).
  assert (NoDup vals /\ forall v, ~ In (s_stdlib, v) vals) as [NV NS].
  { split; [exact P5|].
    intros v Hin. unfold vals in Hin. apply in_map_iff in Hin as (q & Eq & Hq).
    destruct (apply_replaces_cases rsl q) as [Ex|(r1 & R1 & M1 & Ex)]; rewrite Ex in Eq.
    + apply P2. apply in_map_iff. exists q. split; [now rewrite Eq|exact Hq].
    + apply (P4 r1 R1). unfold newp in Eq. congruence. }
  assert (forall k, gmap_mem k (map (fun x : pkg => (x, x)) vals) = pkg_mem k vals) as Hd by (intros k; apply gmap_mem_diag).
  unfold expected_gomod. fold reqs rsl vals. set (gv := stdlib_version (gq_go rs) (gq_toolchain rs)).
  unfold gkey in *.
  assert (forall m2 : list (pkg * pkg), fold_left (fun d kv => gmap_set (snd kv) (snd kv) d) m2 [] =
            fold_left (fun d x => gmap_set ((fun y => y) x) ((fun y => y) x) d) (map snd m2) []) as F2
    by (intros m2; now rewrite fold_left_map_pre).
  assert (map snd (vmap reqs (apply_replaces rsl)) = vals) as MS by (unfold vmap, vals; rewrite map_map; reflexivity).
  assert (FV : fold_left (fun (d : list (gkey * pkg)) (x : pkg) => gmap_set x x d) vals [] = map (fun x : pkg => (x, x)) vals)
    by (apply (gfold_diag (fun y => y) vals []); [rewrite map_id; exact NV|reflexivity]).
  assert (MV : map snd (map (fun x : pkg => (x, x)) vals) = vals) by (rewrite map_map; cbn [snd]; apply map_id).
  destruct (is_nil gv) eqn:Eg.
  - rewrite app_nil_r. etransitivity; [apply f_equal; etransitivity; [apply F2|]; etransitivity; [apply f_equal2; [exact MS|reflexivity]|exact FV]|exact MV].
  - rewrite gmap_set_fresh.
    + etransitivity; [apply f_equal; etransitivity; [apply F2|]; rewrite map_app, fold_left_app; cbn [map snd fold_left];
                      etransitivity; [apply f_equal; etransitivity; [apply f_equal2; [exact MS|reflexivity]|exact FV]|]; apply gmap_set_fresh|].
      * rewrite Hd. apply not_true_is_false. intros T. apply pkg_mem_in in T. now apply NS in T.
      * rewrite map_app. cbn [map snd]. f_equal. exact MV.
    + rewrite gmap_mem_vmap. apply not_true_is_false. intros T. apply pkg_mem_in in T. apply P2.
      apply in_map_iff. exists (s_stdlib, []). split; [reflexivity|exact T].
Qed.

(* ------------------------------------------------------------------ package-lock.json v1: nested dependencies *)
Definition nested_all (P : npm_dep -> Prop) (nested : option (list (bytes * npm_dep))) : Prop :=
  match nested with None => True | Some ds => Forall (fun nd => P (snd nd)) ds end.

Definition npm_dep_ind2 (P : npm_dep -> Prop)
  (H : forall v c nested, nested_all P nested -> P (NDep v c nested)) : forall d, P d :=
  fix F (d : npm_dep) : P d :=
    match d with
    | NDep v c nested =>
        H v c nested
          (match nested as n return nested_all P n with
           | None => I
           | Some ds => (fix G (l : list (bytes * npm_dep)) : Forall (fun nd => P (snd nd)) l :=
                           match l with
                           | [] => Forall_nil _
                           | nd :: r => Forall_cons nd (F (snd nd)) (G r)
                           end) ds
           end)
    end.

Definition ke (p : pkg) : bytes * pkg := (fst p ++ AT :: snd p, p).

Lemma npm_dep_entry_plain n v : has_prefix s_npm v = false -> has_prefix s_file v = false ->
  npm_dep_entry n v [] = ke (n, v).
Proof. intros H1 H2. unfold npm_dep_entry, ke. rewrite H1, H2. reflexivity. Qed.

Lemma flat_map_ext_Forall {A B} (f g : A -> list B) l : Forall (fun x => f x = g x) l -> flat_map f l = flat_map g l.
Proof. induction 1; cbn [flat_map]; [reflexivity|]. now rewrite H, IHForall. Qed.

Lemma map_flat_map {A B C} (h : B -> C) (f : A -> list B) l : map h (flat_map f l) = flat_map (fun x => map h (f x)) l.
Proof. induction l as [|x l IH]; [reflexivity|]. cbn [flat_map]. now rewrite map_app, IH. Qed.

Lemma entries_flat d : forall n, plain_v1 d = true -> npm_dep_entries n d = map ke (flat_v1 n d).
Proof.
  induction d as [v c nested IH] using npm_dep_ind2. intros n Hp.
  cbn [plain_v1] in Hp. apply andb_true_iff in Hp as [Hp Hn]. apply andb_true_iff in Hp as [Hp H4].
  apply andb_true_iff in Hp as [Hp H3]. apply andb_true_iff in Hp as [H1 H2].
  apply negb_true_iff in H2, H3. destruct c; [|discriminate].
  cbn [npm_dep_entries flat_v1]. rewrite map_app. cbn [map]. rewrite npm_dep_entry_plain by assumption. f_equal.
  destruct nested as [ds|]; [|reflexivity]. unfold nested_all in IH.
  rewrite map_flat_map. apply flat_map_ext_Forall.
  rewrite forallb_forall in Hn. rewrite Forall_forall in IH |- *. intros nd Hnd. apply IH; [exact Hnd|now apply Hn].
Qed.

Lemma flat_no_at d : forall n p, plain_v1 d = true -> In p (flat_v1 n d) -> contains_byte AT (snd p) = false.
Proof.
  induction d as [v c nested IH] using npm_dep_ind2. intros n p Hp Hin.
  cbn [plain_v1] in Hp. apply andb_true_iff in Hp as [Hp Hn]. apply andb_true_iff in Hp as [_ H4]. apply negb_true_iff in H4.
  cbn [flat_v1] in Hin. apply in_app_or in Hin as [Hin|[<-|[]]]; [|exact H4].
  destruct nested as [ds|]; [|contradiction]. unfold nested_all in IH. apply in_flat_map in Hin as (nd & Hnd & Hin).
  rewrite forallb_forall in Hn. rewrite Forall_forall in IH. exact (IH nd Hnd (fst nd) p (Hn nd Hnd) Hin).
Qed.

(* amap_set *)
Lemma amap_set_in {V} k (v : V) d k' v' : In (k', v') (amap_set k v d) -> (k' = k /\ v' = v) \/ In (k', v') d.
Proof.
  induction d as [|[k0 v0] d IH]; cbn [amap_set]; [intros [E|[]]; inversion E; auto|].
  destruct (bytes_eqb k k0) eqn:E; intros [H|H]; try (inversion H; auto; fail).
  - right. now right.
  - right. now left.
  - destruct (IH H) as [?|?]; [now left|right; now right].
Qed.
Lemma amap_set_self {V} k (v : V) d : In (k, v) (amap_set k v d).
Proof.
  induction d as [|[k0 v0] d IH]; cbn [amap_set]; [now left|]. destruct (bytes_eqb k k0); [now left|now right].
Qed.
Lemma amap_set_other {V} k (v : V) d k' v' : In (k', v') d -> k' <> k -> In (k', v') (amap_set k v d).
Proof.
  induction d as [|[k0 v0] d IH]; intros Hin Hne; [contradiction|]. cbn [amap_set].
  destruct (bytes_eqb k k0) eqn:E.
  - apply bytes_eqb_eq in E. subst k0. destruct Hin as [H|H]; [inversion H; congruence|now right].
  - destruct Hin as [H|H]; [now left|right; now apply IH].
Qed.
Lemma amap_set_keys {V} k (v : V) d : NoDup (map fst d) -> NoDup (map fst (amap_set k v d)).
Proof.
  induction d as [|[k0 v0] d IH]; intros H; cbn [amap_set map fst]; [constructor; [intros []|constructor]|].
  cbn [map fst] in H. inversion H as [|? ? Hn H']; subst. destruct (bytes_eqb k k0) eqn:E.
  - apply bytes_eqb_eq in E. subst. cbn [map fst]. now constructor.
  - cbn [map fst]. constructor; [|now apply IH]. intros Hin. apply in_map_iff in Hin as ([k1 v1] & E1 & Hin). cbn [fst] in E1. subst k1.
    apply amap_set_in in Hin as [[-> _]|Hin]; [rewrite bytes_eqb_refl in E; discriminate|].
    apply Hn. apply in_map_iff. exists (k0, v1). auto.
Qed.

Definition dd_inv (d : list (bytes * pkg)) (S : list pkg) : Prop :=
  NoDup (map fst d) /\ (forall k v, In (k, v) d -> k = fst (ke v) /\ In v S) /\ (forall v, In v S -> In (ke v) d).

Lemma dedup_fold ps : forall d S,
  dd_inv d S -> (forall p q, In p (S ++ ps) -> In q (S ++ ps) -> fst (ke p) = fst (ke q) -> p = q) ->
  dd_inv (fold_left (fun d e => amap_set (fst e) (snd e) d) (map ke ps) d) (S ++ ps).
Proof.
  induction ps as [|p ps IH]; intros d S Hinv Hinj; [now rewrite app_nil_r|].
  cbn [map fold_left]. replace (S ++ p :: ps) with ((S ++ [p]) ++ ps) by now rewrite <- app_assoc.
  apply IH; [|now rewrite <- app_assoc].
  destruct Hinv as (I1 & I2 & I3). cbn [ke fst snd]. split; [now apply amap_set_keys|]. split.
  - intros k v Hin. apply amap_set_in in Hin as [[-> ->]|Hin]; [split; [reflexivity|apply in_or_app; right; now left]|].
    destruct (I2 k v Hin) as [E Hs]. split; [exact E|apply in_or_app; now left].
  - intros v Hv. apply in_app_or in Hv as [Hv|[<-|[]]]; [|apply amap_set_self].
    destruct (list_eq_dec N.eq_dec (fst (ke v)) (fst p ++ AT :: snd p)) as [E|E].
    + assert (v = p) as -> by (apply Hinj; [apply in_or_app; now left|apply in_or_app; right; now left|exact E]). apply amap_set_self.
    + apply amap_set_other; [apply (I3 v Hv)|exact E].
Qed.

Lemma NoDup_snd_of_keyed (d : list (bytes * pkg)) :
  NoDup (map fst d) -> (forall k v, In (k, v) d -> k = fst (ke v)) -> NoDup (map snd d).
Proof.
  induction d as [|[k v] d IH]; intros Hn Hk; [constructor|]. cbn [map fst snd] in *. inversion Hn as [|? ? Hnin Hn']; subst.
  constructor; [|apply IH; [exact Hn'|intros k' v' H; apply Hk; now right]].
  intros Hin. apply in_map_iff in Hin as ([k' v'] & E & Hin). cbn [snd] in E. subst v'.
  apply Hnin. apply in_map_iff. exists (k', v). split; [|exact Hin]. cbn [fst].
  rewrite (Hk k v (or_introl eq_refl)), (Hk k' v (or_intror Hin)). reflexivity.
Qed.

Lemma packagelock_v1_struct_exact_lemma ds : wf_packagelock_v1 ds = true ->
  exists out, extract_packagelock {| ns_packages := None; ns_dependencies := ds |} = Ok out /\
              NoDup out /\ forall p, In p out <-> In p (flat_v1_all ds).
Proof.
  intros Hwf. unfold wf_packagelock_v1 in Hwf. rewrite forallb_forall in Hwf.
  unfold extract_packagelock. cbn [ns_packages ns_dependencies]. eexists. split; [reflexivity|].
  assert (npm_deps_all ds = map ke (flat_v1_all ds)) as E.
  { unfold npm_deps_all, flat_v1_all. rewrite map_flat_map. apply flat_map_ext_Forall. apply Forall_forall.
    intros nd Hnd. apply entries_flat. now apply Hwf. }
  assert (forall p, In p (flat_v1_all ds) -> contains_byte AT (snd p) = false) as NA.
  { intros p Hp. unfold flat_v1_all in Hp. apply in_flat_map in Hp as (nd & Hnd & Hp). exact (flat_no_at (snd nd) (fst nd) p (Hwf nd Hnd) Hp). }
  unfold dedup_entries. rewrite E.
  destruct (dedup_fold (flat_v1_all ds) [] []) as (I1 & I2 & I3).
  - split; [constructor|]. split; [intros k v []|intros v []].
  - cbn [app]. intros p q Hp Hq Ek. unfold ke in Ek. cbn [fst] in Ek.
    pose proof (cut_last_app _ (fst p) (NA p Hp)) as C1. pose proof (cut_last_app _ (fst q) (NA q Hq)) as C2.
    rewrite Ek, C2 in C1. destruct p, q. cbn [fst snd] in C1. now inversion C1.
  - cbn [app] in *. split.
    + apply NoDup_snd_of_keyed; [exact I1|]. intros k v H. now destruct (I2 k v H).
    + intros p. split.
      * intros Hin. apply in_map_iff in Hin as ([k v] & Es & Hin). cbn [snd] in Es. subst v. now destruct (I2 k p Hin).
      * intros Hin. apply in_map_iff. exists (ke p). split; [reflexivity|now apply I3].
Qed.

(* the former known finding (chain a => b, b => c without versions) is inside the domain: the requirement a is reported as b *)
Definition gomod_chain_witness : gomod_recs :=
  {| gq_requires := [([97], [49;46;48;46;48])];
     gq_replaces := [ {| rr_old := [97]; rr_oldv := []; rr_new := [98]; rr_newv := [49;46;49;46;48] |};
                      {| rr_old := [98]; rr_oldv := []; rr_new := [99]; rr_newv := [49;46;50;46;48] |} ];
     gq_go := []; gq_toolchain := [] |}.
Definition gomod_swap_witness : gomod_recs :=
  {| gq_requires := [([97], [49;46;48;46;48]); ([98], [50;46;48;46;48])];
     gq_replaces := [ {| rr_old := [97]; rr_oldv := []; rr_new := [98]; rr_newv := [49;46;49;46;48] |};
                      {| rr_old := [98]; rr_oldv := []; rr_new := [97]; rr_newv := [49;46;50;46;48] |} ];
     gq_go := []; gq_toolchain := [] |}.
Lemma gomod_chain_in_domain_lemma :
  wf_gomod gomod_chain_witness = true /\ expected_gomod gomod_chain_witness = [([98], [49;46;49;46;48])] /\ wf_gomod gomod_swap_witness = true /\ expected_gomod gomod_swap_witness = [([98], [49;46;49;46;48]); ([97], [49;46;50;46;48])].
Proof. repeat split; reflexivity. Qed.

(* Formats/Dpkg.v - model of extractor/filesystem/os/dpkg (var/lib/dpkg/status, status.d files) including
   the part of net/textproto.Reader.ReadMIMEHeader it relies on, and the record/layout/render/expected
   specification.  Model + spec only, no proofs. *)
From Coq Require Import List NArith Bool.
From Scalibr Require Import Formats.Lines.
Import ListNotations.
Open Scope N_scope.

Definition COLON : N := 58.
Definition SP : N := 32.
Definition TAB : N := 9.
Definition kPackage : bytes := [80; 97; 99; 107; 97; 103; 101].
Definition kVersion : bytes := [86; 101; 114; 115; 105; 111; 110].
Definition kStatus : bytes := [83; 116; 97; 116; 117; 115].
Definition kSource : bytes := [83; 111; 117; 114; 99; 101].
Definition s_installed : bytes := [105; 110; 115; 116; 97; 108; 108; 101; 100].

(* ------------------------------------------------------------------ bufio.Reader.ReadLine via textproto.readLineSlice *)
(* lines end at '\n'; "\r\n" is removed as a whole; a final piece without '\n' keeps a trailing '\r';
   there is no length limit *)
Fixpoint mime_lines (s : bytes) : list bytes :=
  match s with
  | [] => []
  | c :: s' =>
      if c =? NL then [] :: mime_lines s'
      else if (c =? CR) && (match s' with d :: _ => d =? NL | [] => false end) then mime_lines s'
      else match mime_lines s' with
           | [] => [[c]]
           | l :: ls => (c :: l) :: ls
           end
  end.

(* textproto.trim: spaces and tabs at both ends *)
Definition is_wsb (c : N) : bool := (c =? SP) || (c =? TAB).
Definition starts_ws (l : bytes) : bool := match l with c :: _ => is_wsb c | [] => false end.
Fixpoint ltrim (s : bytes) : bytes := match s with c :: r => if is_wsb c then ltrim r else s | [] => [] end.
Fixpoint rtrim (s : bytes) : bytes :=
  match s with [] => [] | c :: r => if forallb is_wsb s then [] else c :: rtrim r end.
Definition trim_ws (s : bytes) : bytes := rtrim (ltrim s).

(* validHeaderFieldByte (RFC 7230 token) / validHeaderValueByte *)
Definition is_upper (c : N) : bool := (65 <=? c) && (c <=? 90).
Definition is_lower (c : N) : bool := (97 <=? c) && (c <=? 122).
Definition is_digit (c : N) : bool := (48 <=? c) && (c <=? 57).
Definition field_byte (c : N) : bool :=
  is_upper c || is_lower c || is_digit c ||
  existsb (N.eqb c) [33; 35; 36; 37; 38; 39; 42; 43; 45; 46; 94; 95; 96; 124; 126].
Definition value_byte (c : N) : bool := (128 <=? c) || ((32 <=? c) && (c <=? 126)) || (c =? TAB).

(* canonicalMIMEHeaderKey *)
Fixpoint canon_case (upper : bool) (k : bytes) : bytes :=
  match k with
  | [] => []
  | c :: r =>
      let c' := if upper && is_lower c then c - 32
                else if negb upper && is_upper c then c + 32 else c in
      c' :: canon_case (c' =? 45) r
  end.
Definition canon_key (k : bytes) : option bytes :=
  if is_nil k then None
  else if negb (forallb (fun c => field_byte c || (c =? SP)) k) then None
  else if contains_byte SP k then Some k
  else Some (canon_case true k).

(* one "key: value" (continuation lines already joined) added to the header; MIMEHeader.Get returns the
   first value of a key, so the header is kept in arrival order and read with first-match lookup *)
Definition mime_kv (buf : bytes) (m : amap) : option amap :=
  match cut COLON buf with
  | None => None
  | Some (k, v) =>
      match canon_key k with
      | None => None
      | Some key => if forallb value_byte v then Some (m ++ [(key, ltrim v)]) else None
      end
  end.
Definition mime_flush (pend : option bytes) (m : amap) : option amap :=
  match pend with None => Some m | Some buf => mime_kv buf m end.

(* ------------------------------------------------------------------ the extractor *)
(* strings.Split(s, " ") *)
Fixpoint split_sp (s : bytes) : list bytes :=
  match s with
  | [] => [[]]
  | c :: r => if c =? SP then [] :: split_sp r
              else match split_sp r with p :: ps => (c :: p) :: ps | [] => [[c]] end
  end.
Fixpoint contains_sp_paren (s : bytes) : bool :=
  match s with
  | c :: r => match r with d :: _ => ((c =? SP) && (d =? 40)) || contains_sp_paren r | [] => false end
  | [] => false
  end.
(* parseSourceNameVersion fails *)
Definition source_bad (s : bytes) : bool :=
  negb (is_nil s) && contains_sp_paren s && negb (last s 0 =? 41).

Definition dpkg_stanza (statusd : bool) (h : amap) : outcome (list pkg) :=
  match h with
  | [] => Ok []                                       (* len(h) == 0: skip *)
  | _ =>
      let status := aget kStatus h in
      let go_on : outcome bool :=
        if negb statusd || negb (is_nil status) then
          if is_nil status then Ok false               (* "has no status field" *)
          else
            let parts := split_sp status in
            if negb (Nat.eqb (length parts) 3) then Err EInvalid
            else bind (index parts 2) (fun p => Ok (bytes_eqb p s_installed))
        else Ok true in
      bind go_on (fun inst =>
        if negb inst then Ok []
        else
          let n := aget kPackage h in let v := aget kVersion h in
          if is_nil n || is_nil v then Ok []
          else if source_bad (aget kSource h) then Err EInvalid
          else Ok [(n, v)])
  end.

Definition cons_bind {A} (o : outcome (list A)) (rest : outcome (list A)) : outcome (list A) :=
  match o with Ok xs => cons_out xs rest | Err e => Err e | Panic => Panic end.

(* ReadMIMEHeader + the stanza loop, one line at a time.  m: header read so far; pend: the
   "key: value" being collected (None = at the start of a ReadMIMEHeader call).
   Err EOther stands for a textproto error. *)
Fixpoint dpkg_lines (statusd : bool) (ls : list bytes) (m : amap) (pend : option bytes) : outcome (list pkg) :=
  match ls with
  | [] => match mime_flush pend m with
          | None => Err EOther
          | Some m' => dpkg_stanza statusd m'            (* io.EOF: the pending header is still used *)
          end
  | l :: r =>
      match pend with
      | Some buf =>
          if starts_ws l then dpkg_lines statusd r m (Some (buf ++ SP :: trim_ws l))   (* continuation line *)
          else
            match mime_kv buf m with
            | None => Err EOther
            | Some m' =>
                match l with
                | [] => cons_bind (dpkg_stanza statusd m') (dpkg_lines statusd r [] None)
                | _ => if contains_byte COLON l then dpkg_lines statusd r m' (Some (trim_ws l)) else Err EOther
                end
            end
      | None =>
          if starts_ws l then Err EOther                 (* malformed MIME header initial line *)
          else
            match l with
            | [] => cons_bind (dpkg_stanza statusd m) (dpkg_lines statusd r [] None)
            | _ => if contains_byte COLON l then dpkg_lines statusd r m (Some (trim_ws l)) else Err EOther
            end
      end
  end.

Definition parse_dpkg (statusd : bool) (s : bytes) : outcome (list pkg) :=
  match dpkg_lines statusd (mime_lines s) [] None with
  | Err EOther => if statusd then Ok [] else Err EInvalid
  | o => o
  end.

(* ------------------------------------------------------------------ records, layout, render *)
(* other fields of a stanza: a "Key: value" line possibly followed by continuation lines (each starts
   with at least one space/tab), or the Source field in one of its two legal shapes *)
Inductive dfield :=
| DOther (key lead value trail : bytes) (conts : list (bytes * bytes))   (* conts: (blanks, text) *)
| DSource (name : bytes) (ver : option bytes).

Record dpkg_rec := {
  dr_name : bytes; dr_version : bytes;
  dr_status : option (bytes * bytes * bytes);       (* want flag state; None = no Status field (status.d) *)
  dr_fields : list dfield
}.
Record dpkg_rlay := {
  dl_posS : nat; dl_posV : nat; dl_posP : nat;       (* where Status / Version / Package are inserted *)
  dl_gap : bytes;                                    (* blanks after the colon of those three lines *)
  dl_eols : list eol; dl_sep1 : eol; dl_sep : list eol
}.
Definition dpkg_rlay_default : dpkg_rlay :=
  {| dl_posS := 0; dl_posV := 0; dl_posP := 0; dl_gap := [SP]; dl_eols := []; dl_sep1 := LF; dl_sep := [] |}.
Record dpkg_layout := { dy_lead : list eol; dy_recs : list dpkg_rlay; dy_trail : list eol; dy_final_nl : bool }.

Definition dfield_lines (f : dfield) : list bytes :=
  match f with
  | DOther key lead value trail conts =>
      (key ++ COLON :: lead ++ value ++ trail) :: map (fun wt => fst wt ++ snd wt) conts
  | DSource name ver =>
      [kSource ++ COLON :: SP :: name ++ match ver with None => [] | Some v => SP :: 40 :: v ++ [41] end]
  end.
Definition status_text (st : bytes * bytes * bytes) : bytes :=
  let '(a, b, c) := st in a ++ SP :: b ++ SP :: c.

(* the stanza as a list of field line groups: the other fields with Status, Version, Package inserted *)
Definition dpkg_groups (r : dpkg_rec) (y : dpkg_rlay) : list (list bytes) :=
  let others := map dfield_lines (dr_fields r) in
  let withS := match dr_status r with
               | None => others
               | Some st => insert_at (dl_posS y) [kStatus ++ COLON :: dl_gap y ++ status_text st] others
               end in
  insert_at (dl_posP y) [kPackage ++ COLON :: dl_gap y ++ dr_name r]
    (insert_at (dl_posV y) [kVersion ++ COLON :: dl_gap y ++ dr_version r] withS).

Definition dpkg_rec_lines (r : dpkg_rec) (y : dpkg_rlay) : list (bytes * eol) :=
  with_eols (concat (dpkg_groups r y)) (dl_eols y).

Fixpoint dpkg_recs_lines (rs : list dpkg_rec) (ys : list dpkg_rlay) (trail : list eol) : list (bytes * eol) :=
  match rs with
  | [] => []
  | r :: rs' =>
      let y := hd dpkg_rlay_default ys in
      match rs' with
      | [] => dpkg_rec_lines r y ++ blank_lines trail
      | _ => dpkg_rec_lines r y ++ blank_lines (dl_sep1 y :: dl_sep y) ++ dpkg_recs_lines rs' (tl ys) trail
      end
  end.
Definition dpkg_file_lines (rs : list dpkg_rec) (l : dpkg_layout) : list (bytes * eol) :=
  blank_lines (dy_lead l) ++ dpkg_recs_lines rs (dy_recs l) (dy_trail l).
Definition render_dpkg (rs : list dpkg_rec) (l : dpkg_layout) : bytes :=
  render_lines (dpkg_file_lines rs l) (dy_final_nl l).

(* the ground truth: the records whose state word is "installed" (in status.d also those without a
   Status field), in file order *)
Definition rec_installed (statusd : bool) (r : dpkg_rec) : bool :=
  match dr_status r with
  | Some (_, _, c) => bytes_eqb c s_installed
  | None => statusd
  end.
Definition expected_dpkg (statusd : bool) (rs : list dpkg_rec) : list pkg :=
  map (fun r => (dr_name r, dr_version r)) (filter (rec_installed statusd) rs).

(* well-formedness *)
Definition all_graphic (l : bytes) : bool := forallb graphic l.
Definition all_text (l : bytes) : bool := forallb text_byte l.
Definition all_blank (l : bytes) : bool := forallb blank_byte l.
Definition special_key (k : bytes) : bool :=
  bytes_eqb k kPackage || bytes_eqb k kVersion || bytes_eqb k kStatus || bytes_eqb k kSource.
Definition wf_other_key (k : bytes) : bool :=
  forallb field_byte k &&
  match canon_key k with Some k' => negb (special_key k') | None => false end.
Definition wf_dfield (f : dfield) : bool :=
  match f with
  | DOther key lead value trail conts =>
      wf_other_key key && all_blank lead && all_text value && all_blank trail &&
      forallb (fun wt => negb (is_nil (fst wt)) && all_blank (fst wt) && all_text (snd wt)) conts
  | DSource name ver =>
      negb (is_nil name) && all_graphic name &&
      match ver with None => true | Some v => all_graphic v end
  end.
Definition word (w : bytes) : bool := negb (is_nil w) && all_graphic w.
Definition wf_dpkg_rec (statusd : bool) (r : dpkg_rec) : bool :=
  word (dr_name r) && word (dr_version r) &&
  match dr_status r with
  | Some (a, b, c) => word a && word b && word c
  | None => statusd
  end &&
  forallb wf_dfield (dr_fields r).
Definition wf_dpkg_records (statusd : bool) (rs : list dpkg_rec) : bool := forallb (wf_dpkg_rec statusd) rs.

Definition last_eol_lf (ls : list (bytes * eol)) : bool :=
  match last ls ([], LF) with (_, LF) => true | (_, CRLF) => false end.
Definition wf_dpkg_layout (rs : list dpkg_rec) (l : dpkg_layout) : bool :=
  forallb (fun y => all_blank (dl_gap y)) (dy_recs l) &&
  (dy_final_nl l ||
   (is_nil (dy_trail l) && (negb (is_nil rs) || is_nil (dy_lead l)) && last_eol_lf (dpkg_file_lines rs l))).

(* ------------------------------------------------------------------ correspondence record *)
Record dpkg_case := {
  dc_statusd : bool;                                 (* file given as var/lib/dpkg/status.d/<name> *)
  dc_claim : option (list dpkg_rec * dpkg_layout);
  dc_bytes : bytes;
  dc_obs : outcome (list pkg)
}.
Definition dpkg_case_render_ok (c : dpkg_case) : bool :=
  match dc_claim c with None => true | Some (rs, l) => bytes_eqb (render_dpkg rs l) (dc_bytes c) end.
Definition dpkg_case_model_ok (c : dpkg_case) : bool :=
  pkgs_outcome_eqb (parse_dpkg (dc_statusd c) (dc_bytes c)) (dc_obs c).
Definition dpkg_case_claimed (c : dpkg_case) : bool :=
  match dc_claim c with None => false | Some (rs, l) => wf_dpkg_records (dc_statusd c) rs && wf_dpkg_layout rs l end.
Definition dpkg_case_spec_ok (c : dpkg_case) : bool :=
  match dc_claim c with
  | None => negb (is_panic (dc_obs c))
  | Some (rs, l) =>
      negb (wf_dpkg_records (dc_statusd c) rs && wf_dpkg_layout rs l) ||
      pkgs_outcome_eqb (dc_obs c) (Ok (expected_dpkg (dc_statusd c) rs))
  end.

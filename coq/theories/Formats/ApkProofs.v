(* Formats/ApkProofs.v - round trip: every well-formed apk installed database, in every permitted
   layout, is parsed by the extractor model to exactly its records. *)
From Coq Require Import List NArith Bool Lia.
From Scalibr Require Import Formats.Lines Formats.LinesProofs Formats.Apk.
Import ListNotations.
Open Scope N_scope.

(* blank lines while no record is open are skipped *)
Lemma apk_lines_blanks es rest tl :
  apk_lines (map fst (blank_lines es) ++ rest) tl [] = apk_lines rest tl [].
Proof. induction es as [|e es IH]; [reflexivity|]. cbn. exact IH. Qed.

Lemma field_line_cons kv : exists c l, field_line kv = c :: l.
Proof. destruct kv as [[|c k] v]; unfold field_line; cbn; eauto. Qed.

(* the field lines of one record are collected into the group map *)
Lemma apk_lines_fields fs : forall rest tl g,
  (forall kv, In kv fs -> contains_byte COLON (fst kv) = false) ->
  apk_lines (map field_line fs ++ rest) tl g = apk_lines rest tl (rev fs ++ g).
Proof.
  induction fs as [|kv fs IH]; intros rest tl g H; [reflexivity|].
  cbn [map app]. destruct (field_line_cons kv) as (c & l & E).
  cbn [apk_lines]. rewrite E. rewrite <- E.
  unfold field_line at 1. rewrite cut_app by (apply H; now left).
  destruct kv as [k v]. cbn [fst snd].
  rewrite IH by (intros kv' Hin; apply H; now right).
  cbn [rev]. rewrite <- app_assoc. reflexivity.
Qed.

(* ------------------------------------------------------------------ per-record facts *)
Definition field_ok (kv : bytes * bytes) : bool :=
  no_nl (fst kv) && negb (contains_byte COLON (fst kv)) && wf_value (snd kv) && field_short kv.

Lemma wf_apk_rec_parts r :
  wf_apk_rec r = true ->
  ar_name r <> [] /\ ar_version r <> [] /\ wf_value (ar_name r) = true /\ wf_value (ar_version r) = true /\
  field_short (kP, ar_name r) = true /\ field_short (kV, ar_version r) = true /\
  (forall kv, In kv (ar_extras r) -> wf_key (fst kv) = true /\ wf_value (snd kv) = true /\ field_short kv = true).
Proof.
  unfold wf_apk_rec. intros H.
  apply andb_true_iff in H as [H H7]. apply andb_true_iff in H as [H H6]. apply andb_true_iff in H as [H H5].
  apply andb_true_iff in H as [H H4]. apply andb_true_iff in H as [H H3]. apply andb_true_iff in H as [H1 H2].
  split; [destruct (ar_name r); discriminate|].
  split; [destruct (ar_version r); discriminate|].
  do 4 (split; [assumption|]).
  intros kv Hin. rewrite forallb_forall in H7. specialize (H7 _ Hin).
  apply andb_true_iff in H7 as [H7 H9]. apply andb_true_iff in H7 as [H7 H8]. auto.
Qed.

Lemma wf_key_parts k : wf_key k = true ->
  no_nl k = true /\ contains_byte COLON k = false /\ k <> kP /\ k <> kV.
Proof.
  unfold wf_key. intros H.
  apply andb_true_iff in H as [H H4]. apply andb_true_iff in H as [H H3]. apply andb_true_iff in H as [H1 H2].
  apply negb_true_iff in H2, H3, H4. apply bytes_eqb_neq in H3, H4. auto.
Qed.

Lemma wf_rec_fields r y :
  wf_apk_rec r = true -> forall kv, In kv (apk_fields r y) -> field_ok kv = true.
Proof.
  intros H kv Hin. apply wf_apk_rec_parts in H as (N1 & N2 & V1 & V2 & S1 & S2 & X).
  unfold apk_fields in Hin. apply in_insert_at in Hin as [->|Hin].
  { unfold field_ok. cbn [fst snd]. rewrite V1, S1. reflexivity. }
  apply in_insert_at in Hin as [->|Hin].
  { unfold field_ok. cbn [fst snd]. rewrite V2, S2. reflexivity. }
  destruct (X kv Hin) as (K & V & S). apply wf_key_parts in K as (K1 & K2 & _).
  unfold field_ok. now rewrite K1, K2, V, S.
Qed.

Lemma wf_rec_get r y :
  wf_apk_rec r = true ->
  aget kP (rev (apk_fields r y) ++ []) = ar_name r /\ aget kV (rev (apk_fields r y) ++ []) = ar_version r.
Proof.
  intros H. apply wf_apk_rec_parts in H as (N1 & N2 & V1 & V2 & S1 & S2 & X).
  assert (forall k v, In (k, v) (ar_extras r) -> k <> kP /\ k <> kV) as Hx.
  { intros k v Hin. destruct (X _ Hin) as (K & _). cbn [fst] in K. apply wf_key_parts in K. tauto. }
  rewrite app_nil_r. unfold apk_fields. split; apply aget_unique.
  - apply -> in_rev. apply in_insert_at. now left.
  - intros v' Hin. apply in_rev in Hin. apply in_insert_at in Hin as [E|Hin]; [now inversion E|].
    apply in_insert_at in Hin as [E|Hin]; [inversion E|]. apply Hx in Hin. tauto.
  - apply -> in_rev. apply in_insert_at. right. apply in_insert_at. now left.
  - intros v' Hin. apply in_rev in Hin. apply in_insert_at in Hin as [E|Hin]; [inversion E|].
    apply in_insert_at in Hin as [E|Hin]; [now inversion E|]. apply Hx in Hin. tauto.
Qed.

Lemma wf_rec_pkg r y :
  wf_apk_rec r = true -> apk_pkg (rev (apk_fields r y) ++ []) = [(ar_name r, ar_version r)].
Proof.
  intros H. destruct (wf_rec_get r y H) as [E1 E2]. unfold apk_pkg. rewrite E1, E2.
  apply wf_apk_rec_parts in H as (N1 & N2 & _).
  destruct (ar_name r); [congruence|]. destruct (ar_version r); [congruence|]. reflexivity.
Qed.

Lemma fields_group_nonempty r y : rev (apk_fields r y) ++ [] <> [].
Proof.
  intros E. assert (In (kP, ar_name r) (rev (apk_fields r y) ++ [])) as Hin.
  { rewrite app_nil_r. apply -> in_rev. unfold apk_fields. apply in_insert_at. now left. }
  rewrite E in Hin. contradiction.
Qed.

Lemma rec_lines_tokens r y rest tl :
  wf_apk_rec r = true ->
  apk_lines (map fst (apk_rec_lines r y) ++ rest) tl [] = apk_lines rest tl (rev (apk_fields r y) ++ []).
Proof.
  intros H. unfold apk_rec_lines. rewrite map_fst_with_eols. apply apk_lines_fields.
  intros kv Hin. pose proof (wf_rec_fields r y H kv Hin) as F. unfold field_ok in F.
  repeat (apply andb_true_iff in F as [F ?]). now apply negb_true_iff.
Qed.

(* ------------------------------------------------------------------ all records, token level *)
Lemma apk_tokens_ok : forall rs ys trail,
  wf_apk_records rs = true ->
  apk_lines (map fst (apk_recs_lines rs ys trail)) false [] = Ok (expected_apk rs).
Proof.
  induction rs as [|r rs IH]; intros ys trail H; [reflexivity|].
  cbn [wf_apk_records forallb] in H. apply andb_true_iff in H as [Hr Hrs].
  set (y := hd apk_rlay_default ys).
  pose proof (fields_group_nonempty r y) as Hne. pose proof (wf_rec_pkg r y Hr) as Hp.
  destruct rs as [|r2 rs'].
  - change (apk_recs_lines [r] ys trail) with (apk_rec_lines r y ++ blank_lines trail).
    rewrite map_app, (rec_lines_tokens r y _ false Hr).
    destruct (rev (apk_fields r y) ++ []) as [|b g] eqn:E; [congruence|].
    destruct trail as [|e trail].
    + cbn. rewrite Hp. reflexivity.
    + change (blank_lines (e :: trail)) with (([], e) :: blank_lines trail).
      cbn [map fst apk_lines]. rewrite Hp.
      rewrite <- (app_nil_r (map fst (blank_lines trail))). rewrite (apk_lines_blanks trail [] false). reflexivity.
  - change (apk_recs_lines (r :: r2 :: rs') ys trail)
      with (apk_rec_lines r y ++ blank_lines (al_sep1 y :: al_sep y) ++ apk_recs_lines (r2 :: rs') (tl ys) trail).
    rewrite map_app, (rec_lines_tokens r y _ false Hr).
    destruct (rev (apk_fields r y) ++ []) as [|b g] eqn:E; [congruence|].
    rewrite map_app. change (blank_lines (al_sep1 y :: al_sep y)) with (([], al_sep1 y) :: blank_lines (al_sep y)).
    cbn [map fst app apk_lines]. rewrite Hp.
    rewrite (apk_lines_blanks (al_sep y) _ false).
    rewrite (IH (tl ys) trail Hrs). reflexivity.
Qed.

(* ------------------------------------------------------------------ every rendered line is scannable *)
Lemma field_line_ok kv e : field_ok kv = true -> line_ok (field_line kv, e) = true.
Proof.
  destruct kv as [k v]. unfold field_ok, field_short, wf_value, line_ok, field_line. cbn [fst snd].
  intros H. apply andb_true_iff in H as [H H0]. apply andb_true_iff in H as [H HV]. apply andb_true_iff in H as [H _].
  apply andb_true_iff in HV as [H3 H1]. apply N.ltb_lt in H0.
  rewrite no_nl_app. cbn [no_nl forallb]. fold (no_nl v). rewrite H, H3. cbn [negb andb N.eqb].
  assert (no_trailing_cr (k ++ COLON :: v) = true) as ->.
  { unfold no_trailing_cr. rewrite last_app_cons. destruct v as [|d v]; [reflexivity|].
    change (last (COLON :: d :: v) 0) with (last (d :: v) 0). exact H1. }
  cbn [andb]. apply N.ltb_lt. rewrite len_N_app. cbn [len_N]. destruct e; lia.
Qed.

Lemma rec_lines_ok r y : wf_apk_rec r = true -> forallb line_ok (apk_rec_lines r y) = true.
Proof.
  intros H. unfold apk_rec_lines. apply with_eols_ok. intros l e Hin.
  apply in_map_iff in Hin as (kv & <- & Hin). apply field_line_ok. now apply (wf_rec_fields r y).
Qed.

Lemma recs_lines_ok : forall rs ys trail,
  wf_apk_records rs = true -> forallb line_ok (apk_recs_lines rs ys trail) = true.
Proof.
  induction rs as [|r rs IH]; intros ys trail H; [reflexivity|].
  cbn [wf_apk_records forallb] in H. apply andb_true_iff in H as [Hr Hrs].
  destruct rs as [|r2 rs'].
  - change (apk_recs_lines [r] ys trail) with (apk_rec_lines r (hd apk_rlay_default ys) ++ blank_lines trail).
    now rewrite forallb_app, rec_lines_ok, blank_lines_ok.
  - change (apk_recs_lines (r :: r2 :: rs') ys trail)
      with (apk_rec_lines r (hd apk_rlay_default ys) ++
            blank_lines (al_sep1 (hd apk_rlay_default ys) :: al_sep (hd apk_rlay_default ys)) ++
            apk_recs_lines (r2 :: rs') (tl ys) trail).
    rewrite !forallb_app, rec_lines_ok, blank_lines_ok by assumption. cbn [andb]. now apply IH.
Qed.

(* ------------------------------------------------------------------ the last line *)
Lemma rec_lines_nonempty r y : apk_rec_lines r y <> [].
Proof.
  unfold apk_rec_lines, apk_fields, insert_at. destruct (firstn (al_posP y) _); cbn [app map];
    destruct (al_eols y); discriminate.
Qed.

Lemma rec_lines_content r y c e : In (c, e) (apk_rec_lines r y) -> c <> [].
Proof.
  unfold apk_rec_lines. intros Hin.
  assert (In c (map fst (with_eols (map field_line (apk_fields r y)) (al_eols y)))) as H
    by (apply in_map_iff; exists (c, e); auto).
  rewrite map_fst_with_eols in H. apply in_map_iff in H as (kv & <- & _).
  destruct (field_line_cons kv) as (x & l & ->). discriminate.
Qed.

Lemma recs_lines_last : forall rs ys, rs <> [] ->
  apk_recs_lines rs ys [] <> [] /\ last_line_ok (apk_recs_lines rs ys []) false = true.
Proof.
  induction rs as [|r rs IH]; intros ys Hne; [congruence|].
  destruct rs as [|r2 rs'].
  - change (apk_recs_lines [r] ys []) with (apk_rec_lines r (hd apk_rlay_default ys) ++ blank_lines []).
    cbn [blank_lines map]. rewrite app_nil_r. split; [apply rec_lines_nonempty|].
    apply last_line_ok_nonempty. intros c e. apply rec_lines_content.
  - change (apk_recs_lines (r :: r2 :: rs') ys [])
      with (apk_rec_lines r (hd apk_rlay_default ys) ++
            (blank_lines (al_sep1 (hd apk_rlay_default ys) :: al_sep (hd apk_rlay_default ys)) ++
            apk_recs_lines (r2 :: rs') (tl ys) [])).
    destruct (IH (tl ys)) as [N L]; [discriminate|].
    split.
    + intros E. apply app_eq_nil in E as [E _]. now apply rec_lines_nonempty in E.
    + rewrite last_line_ok_app; [rewrite last_line_ok_app; [exact L | exact N]|].
      intros E. apply app_eq_nil in E as [_ E]. contradiction.
Qed.

Lemma file_last_line_ok rs l :
  wf_apk_layout rs l = true -> last_line_ok (apk_file_lines rs l) (al_final_nl l) = true.
Proof.
  unfold wf_apk_layout, apk_file_lines. intros H.
  destruct (al_final_nl l); [apply last_line_ok_true|].
  cbn [orb] in H. apply andb_true_iff in H as [Ht Hr].
  destruct (al_trail l); [|discriminate].
  destruct rs as [|r rs].
  - cbn [negb is_nil orb] in Hr. destruct (al_lead l); [reflexivity|discriminate].
  - destruct (recs_lines_last (r :: rs) (al_recs l)) as [N L]; [discriminate|].
    rewrite last_line_ok_app; assumption.
Qed.

(* ------------------------------------------------------------------ the round trip, from bytes *)
Lemma apk_roundtrip_lemma : forall rs l,
  wf_apk_records rs = true -> wf_apk_layout rs l = true ->
  parse_apk (render_apk rs l) = Ok (expected_apk rs).
Proof.
  intros rs l Hr Hl. unfold parse_apk, render_apk.
  rewrite scan_render.
  - unfold apk_file_lines. rewrite map_app, apk_lines_blanks. now apply apk_tokens_ok.
  - unfold apk_file_lines. rewrite forallb_app, blank_lines_ok. cbn [andb]. now apply recs_lines_ok.
  - now apply file_last_line_ok.
Qed.

(* layouts do not matter *)
Lemma apk_layout_irrelevant_lemma : forall rs l1 l2,
  wf_apk_records rs = true -> wf_apk_layout rs l1 = true -> wf_apk_layout rs l2 = true ->
  parse_apk (render_apk rs l1) = parse_apk (render_apk rs l2).
Proof. intros. now rewrite !apk_roundtrip_lemma. Qed.

(* ------------------------------------------------------------------ totality on arbitrary bytes *)
Lemma cons_out_not_panic {A} (xs : list A) o : o <> Panic -> cons_out xs o <> Panic.
Proof. destruct o; cbn; congruence. Qed.

Lemma apk_lines_total : forall ls tl g, apk_lines ls tl g <> Panic.
Proof.
  induction ls as [|l r IH]; intros tl g.
  - cbn. destruct tl; [discriminate|]. destruct g; discriminate.
  - cbn [apk_lines]. destruct l as [|c l'].
    + destruct g; [apply IH | apply cons_out_not_panic, IH].
    + destruct (cut COLON (c :: l')) as [[k v]|]; [apply IH | discriminate].
Qed.

Lemma apk_total_lemma : forall s, parse_apk s <> Panic.
Proof. intros s. unfold parse_apk. destruct (scan_lines s). apply apk_lines_total. Qed.

(* Formats/GradleProofs.v - round trip and totality for the gradle.lockfile extractor model. *)
From Coq Require Import List NArith Bool Lia.
From Scalibr Require Import Formats.Lines Formats.LinesProofs Formats.Gradle.
Import ListNotations.
Open Scope N_scope.

Lemma wf_gr_rec_parts r : wf_gr_rec r = true ->
  g_group r <> [] /\ g_artifact r <> [] /\ g_version r <> [] /\
  all_graphic (g_group r) = true /\ all_graphic (g_artifact r) = true /\ all_graphic (g_version r) = true /\
  all_graphic (g_configs r) = true /\
  contains_byte COLON (g_group r) = false /\ contains_byte EQUALS (g_group r) = false /\
  contains_byte HASH (g_group r) = false /\ contains_byte COLON (g_artifact r) = false /\
  contains_byte EQUALS (g_version r) = false.
Proof.
  unfold wf_gr_rec. intros H.
  apply andb_true_iff in H as [H H12]. apply andb_true_iff in H as [H H11]. apply andb_true_iff in H as [H H10].
  apply andb_true_iff in H as [H H9]. apply andb_true_iff in H as [H H8]. apply andb_true_iff in H as [H H7].
  apply andb_true_iff in H as [H H6]. apply andb_true_iff in H as [H H5]. apply andb_true_iff in H as [H H4].
  apply andb_true_iff in H as [H H3]. apply andb_true_iff in H as [H1 H2].
  apply negb_true_iff in H8, H9, H10, H11, H12.
  split; [destruct (g_group r); discriminate|]. split; [destruct (g_artifact r); discriminate|].
  split; [destruct (g_version r); discriminate|]. tauto.
Qed.

Lemma graphic_COLON : graphic COLON = true. Proof. reflexivity. Qed.
Lemma graphic_EQUALS : graphic EQUALS = true. Proof. reflexivity. Qed.

Lemma core_graphic r : wf_gr_rec r = true -> forallb graphic (gr_core r) = true.
Proof.
  intros H. apply wf_gr_rec_parts in H as (_ & _ & _ & G1 & G2 & G3 & G4 & _).
  unfold gr_core, all_graphic in *. rewrite forallb_app. cbn [forallb]. rewrite forallb_app. cbn [forallb].
  rewrite forallb_app. cbn [forallb]. now rewrite G1, G2, G3, G4.
Qed.

(* the trimmed record line is a dependency line and parses to the record *)
Lemma core_is_dep r : wf_gr_rec r = true -> gr_is_dep_line (gr_core r) = true.
Proof.
  intros H. apply wf_gr_rec_parts in H as (N1 & _ & _ & _ & _ & _ & _ & C1 & C2 & C3 & _).
  unfold gr_is_dep_line, gr_core. apply negb_true_iff, orb_false_iff. split.
  - destruct (g_group r) as [|c g]; [congruence|]. cbn [app has_prefix].
    cbn [contains_byte] in C3. apply orb_false_iff in C3 as [C3 _].
    rewrite N.eqb_sym, C3. reflexivity.
  - destruct (has_prefix s_empty_eq _) eqn:E; [|reflexivity].
    apply has_prefix_split in E as [E|E].
    + cbn in E. unfold COLON in E. repeat (destruct E as [E|E]; [discriminate|]). contradiction.
    + assert (In EQUALS (g_group r)) as Hin by (apply (has_prefix_in _ _ E); cbn; unfold EQUALS; tauto).
      apply contains_byte_in in Hin. congruence.
Qed.

Lemma core_parse r : wf_gr_rec r = true ->
  gr_parse_dep (gr_core r) = Ok (Some (g_group r ++ COLON :: g_artifact r, g_version r)).
Proof.
  intros H. apply wf_gr_rec_parts in H as (_ & _ & _ & _ & _ & _ & _ & C1 & _ & _ & C4 & C5).
  unfold gr_parse_dep, gr_core, splitn_colon3.
  rewrite (cut_app COLON _ _ C1), (cut_app COLON _ _ C4). cbn [length Nat.ltb Nat.leb index nth_error bind].
  rewrite contains_byte_app. cbn [contains_byte]. rewrite N.eqb_refl, orb_true_r. cbn [negb].
  unfold splitn_eq2. rewrite (cut_app EQUALS _ _ C5). reflexivity.
Qed.

Lemma gr_record_line r lead trail rest tl :
  wf_gr_rec r = true -> all_blank lead = true -> all_blank trail = true ->
  gr_lines ((lead ++ gr_core r ++ trail) :: rest) tl =
  cons_out [(g_group r ++ COLON :: g_artifact r, g_version r)] (gr_lines rest tl).
Proof.
  intros H Hl Ht. cbn [gr_lines].
  rewrite (trim_space_core lead (gr_core r) trail Hl (core_graphic r H) Ht).
  now rewrite core_is_dep, core_parse.
Qed.

Lemma s_empty_eq_graphic : forallb graphic s_empty_eq = true. Proof. reflexivity. Qed.

Lemma gr_noise_line n rest tl :
  wf_gr_noise n = true -> gr_lines (gr_noise_content n :: rest) tl = gr_lines rest tl.
Proof.
  intros H. cbn [gr_lines]. destruct n as [ws|lead text|lead text]; cbn [wf_gr_noise gr_noise_content] in *.
  - unfold trim_space. rewrite <- (app_nil_r ws), trim_left_blank_app by exact H. reflexivity.
  - apply andb_true_iff in H as [Hl _].
    destruct (trim_space_prefix lead [HASH] text Hl eq_refl) as (t & E); [discriminate|].
    cbn [app] in E. rewrite E. reflexivity.
  - apply andb_true_iff in H as [Hl _].
    destruct (trim_space_prefix lead s_empty_eq text Hl s_empty_eq_graphic) as (t & E); [discriminate|].
    rewrite E. unfold gr_is_dep_line. rewrite has_prefix_app, orb_true_r. reflexivity.
Qed.

Lemma gr_noise_lines_skip ns rest tl :
  forallb (fun ne => wf_gr_noise (fst ne)) ns = true ->
  gr_lines (map fst (gr_noise_lines ns) ++ rest) tl = gr_lines rest tl.
Proof.
  induction ns as [|[n e] ns IH]; intros H; [reflexivity|].
  cbn [forallb fst] in H. apply andb_true_iff in H as [H1 H2].
  cbn [gr_noise_lines map fst app]. rewrite gr_noise_line by exact H1. now apply IH.
Qed.

Lemma hd_tl_wf ys : forallb wf_gr_rlay ys = true ->
  wf_gr_rlay (hd gr_rlay_default ys) = true /\ forallb wf_gr_rlay (tl ys) = true.
Proof.
  destruct ys as [|y ys]; cbn [forallb hd tl]; intros H; [split; reflexivity|].
  now apply andb_true_iff in H.
Qed.

Lemma wf_gr_rlay_parts y : wf_gr_rlay y = true ->
  forallb (fun ne => wf_gr_noise (fst ne)) (gl_before y) = true /\ all_blank (gl_lead y) = true /\ all_blank (gl_trail y) = true.
Proof. unfold wf_gr_rlay. intros H. apply andb_true_iff in H as [H H3]. apply andb_true_iff in H as [H1 H2]. auto. Qed.

Lemma gr_tokens_ok : forall rs ys after,
  wf_gr_records rs = true -> forallb wf_gr_rlay ys = true ->
  forallb (fun ne => wf_gr_noise (fst ne)) after = true ->
  gr_lines (map fst (gr_recs_lines rs ys ++ gr_noise_lines after)) false = Ok (expected_gradle rs).
Proof.
  induction rs as [|r rs IH]; intros ys after Hr Hy Ha.
  - cbn [gr_recs_lines app]. rewrite <- (app_nil_r (map fst _)). now rewrite gr_noise_lines_skip.
  - cbn [wf_gr_records forallb] in Hr. apply andb_true_iff in Hr as [Hr Hrs].
    destruct (hd_tl_wf ys Hy) as [Hh Ht]. apply wf_gr_rlay_parts in Hh as (B & L & T).
    cbn [gr_recs_lines]. rewrite <- app_assoc, map_app, gr_noise_lines_skip by exact B.
    cbn [app map fst]. rewrite gr_record_line by assumption.
    rewrite (IH (tl ys) after Hrs Ht Ha). reflexivity.
Qed.

(* ------------------------------------------------------------------ all lines are scannable text *)
Lemma noise_text n : wf_gr_noise n = true -> forallb text_byte (gr_noise_content n) = true.
Proof.
  destruct n as [ws|lead text|lead text]; cbn [wf_gr_noise gr_noise_content]; intros H.
  - now apply blank_text.
  - apply andb_true_iff in H as [H1 H2]. rewrite forallb_app. cbn [forallb]. rewrite (blank_text _ H1). exact H2.
  - apply andb_true_iff in H as [H1 H2]. rewrite !forallb_app. rewrite (blank_text _ H1). cbn [andb]. exact H2.
Qed.

Lemma noise_lines_text ns :
  forallb (fun ne => wf_gr_noise (fst ne)) ns = true ->
  forallb (fun le => forallb text_byte (fst le)) (gr_noise_lines ns) = true.
Proof.
  induction ns as [|[n e] ns IH]; intros H; [reflexivity|].
  cbn [forallb fst] in H. apply andb_true_iff in H as [H1 H2].
  cbn [gr_noise_lines map forallb fst]. rewrite noise_text by exact H1. now apply IH.
Qed.

Lemma recs_lines_text : forall rs ys,
  wf_gr_records rs = true -> forallb wf_gr_rlay ys = true ->
  forallb (fun le => forallb text_byte (fst le)) (gr_recs_lines rs ys) = true.
Proof.
  induction rs as [|r rs IH]; intros ys Hr Hy; [reflexivity|].
  cbn [wf_gr_records forallb] in Hr. apply andb_true_iff in Hr as [Hr Hrs].
  destruct (hd_tl_wf ys Hy) as [Hh Ht]. apply wf_gr_rlay_parts in Hh as (B & L & T).
  cbn [gr_recs_lines]. rewrite forallb_app. fold (gr_noise_lines (gl_before (hd gr_rlay_default ys))).
  rewrite noise_lines_text by exact B. cbn [forallb fst andb].
  rewrite !forallb_app. rewrite (blank_text _ L), (blank_text _ T), (graphic_text _ (core_graphic r Hr)). cbn [andb].
  now apply IH.
Qed.

Lemma gradle_roundtrip_lemma : forall rs l,
  wf_gr_records rs = true -> wf_gr_layout rs l = true ->
  parse_gradle (render_gradle rs l) = Ok (expected_gradle rs).
Proof.
  intros rs l Hr Hl. unfold wf_gr_layout in Hl.
  apply andb_true_iff in Hl as [Hl L4]. apply andb_true_iff in Hl as [Hl L3]. apply andb_true_iff in Hl as [L1 L2].
  unfold parse_gradle, render_gradle. rewrite scan_render.
  - unfold gr_file_lines. now apply gr_tokens_ok.
  - apply lines_ok_combine; [|exact L3]. unfold gr_file_lines. rewrite forallb_app.
    rewrite recs_lines_text by assumption. now rewrite noise_lines_text.
  - exact L4.
Qed.

(* ------------------------------------------------------------------ totality on arbitrary bytes *)
Lemma index_lt {A} (l : list A) i : (i < length l)%nat -> exists x, index l i = Ok x.
Proof.
  intros H. unfold index. destruct (nth_error l i) eqn:E; [eauto|].
  apply nth_error_None in E. lia.
Qed.

Lemma splitn_eq2_nonempty v : (0 < length (splitn_eq2 v))%nat.
Proof. unfold splitn_eq2. destruct (cut EQUALS v) as [[a b]|]; cbn; lia. Qed.

Lemma gr_parse_dep_total l : gr_parse_dep l <> Panic.
Proof.
  unfold gr_parse_dep. destruct (Nat.ltb (length (splitn_colon3 l)) 3) eqn:E; [discriminate|].
  apply PeanoNat.Nat.ltb_ge in E.
  destruct (index_lt (splitn_colon3 l) 0) as (g & ->); [lia|].
  destruct (index_lt (splitn_colon3 l) 1) as (a & ->); [lia|].
  destruct (index_lt (splitn_colon3 l) 2) as (v & ->); [lia|].
  cbn [bind]. destruct (negb (contains_byte EQUALS v)); [discriminate|].
  destruct (index_lt (splitn_eq2 v) 0 (splitn_eq2_nonempty v)) as (x & ->). discriminate.
Qed.

Lemma gr_lines_total : forall ls tl, gr_lines ls tl <> Panic.
Proof.
  induction ls as [|l r IH]; intros tl; [cbn; destruct tl; discriminate|].
  cbn [gr_lines]. destruct (gr_is_dep_line (trim_space l)); [|apply IH].
  pose proof (gr_parse_dep_total (trim_space l)) as T.
  destruct (gr_parse_dep (trim_space l)) as [[p|]|e|]; try apply IH; [apply cons_out_total, IH | congruence].
Qed.

Lemma gradle_total_lemma : forall s, parse_gradle s <> Panic.
Proof. intros s. unfold parse_gradle. destruct (scan_lines s). apply gr_lines_total. Qed.

(* Formats/GemfileProofs.v - round trip and totality for the Gemfile.lock extractor model. *)
From Coq Require Import List NArith Bool Lia.
From Scalibr Require Import Formats.Lines Formats.LinesProofs Formats.Gemfile.
Import ListNotations.
Open Scope N_scope.

(* ------------------------------------------------------------------ small facts *)
Lemma leading_spaces_nonspace t : starts_nonspace t = true -> leading_spaces t = O.
Proof. destruct t as [|c t]; [discriminate|]. cbn. intros H. apply negb_true_iff in H. now rewrite H. Qed.

Lemma leading_spaces_spaces n t : starts_nonspace t = true -> leading_spaces (spaces n ++ t) = n.
Proof.
  intros H. induction n as [|n IH]; [now apply leading_spaces_nonspace|].
  cbn [spaces repeat app leading_spaces]. unfold SP at 1. rewrite N.eqb_refl. f_equal. exact IH.
Qed.

Lemma skipn_spaces n t : skipn n (spaces n ++ t) = t.
Proof. induction n as [|n IH]; [reflexivity|]. exact IH. Qed.

Lemma strip_closer_rpar core : strip_closer (core ++ [RPAR]) = Some core.
Proof.
  induction core as [|c core IH]; [reflexivity|].
  destruct core as [|d core].
  - cbn. rewrite andb_false_r. reflexivity.
  - cbn [app] in *. cbn [strip_closer]. cbn [strip_closer] in IH.
    destruct (core ++ [RPAR]) as [|x m] eqn:E; [destruct core; discriminate|].
    rewrite IH. reflexivity.
Qed.

Lemma strip_closer_rpar_bang core : strip_closer (core ++ [RPAR; BANG]) = Some core.
Proof.
  induction core as [|c core IH]; [reflexivity|].
  destruct core as [|d core].
  - reflexivity.
  - cbn [app] in *. cbn [strip_closer]. cbn [strip_closer] in IH.
    destruct (core ++ [RPAR; BANG]) as [|x m] eqn:E; [destruct core; discriminate|].
    rewrite IH. reflexivity.
Qed.

Lemma find_sp_paren_name name body :
  forallb graphic name = true -> find_sp_paren (name ++ SP :: LPAR :: body) = Some (name, body).
Proof.
  induction name as [|c name IH]; intros H.
  - cbn. reflexivity.
  - cbn [forallb] in H. apply andb_true_iff in H as [Hc Hn].
    cbn [app find_sp_paren]. destruct (name ++ SP :: LPAR :: body) as [|d m] eqn:E; [destruct name; discriminate|].
    assert (c =? SP = false) as ->.
    { apply N.eqb_neq. unfold graphic in Hc. apply andb_true_iff in Hc as [H1 _]. apply N.leb_le in H1. unfold SP. lia. }
    cbn [andb]. rewrite (IH Hn). reflexivity.
Qed.

Lemma take_until_app x v rest : contains_byte x v = false -> take_until x (v ++ x :: rest) = v.
Proof.
  induction v as [|c v IH]; intros H.
  - cbn. now rewrite N.eqb_refl.
  - cbn [contains_byte] in H. apply orb_false_iff in H as [Hc Hv]. cbn [app take_until]. rewrite Hc. now rewrite IH.
Qed.
Lemma take_until_none x v : contains_byte x v = false -> take_until x v = v.
Proof.
  induction v as [|c v IH]; intros H; [reflexivity|].
  cbn [contains_byte] in H. apply orb_false_iff in H as [Hc Hv]. cbn [take_until]. rewrite Hc. now rewrite IH.
Qed.

Lemma wf_gem_spec_parts s : wf_gem_spec s = true ->
  gs_name s <> [] /\ all_graphic (gs_name s) = true /\ gs_version s <> [] /\ all_text (gs_version s) = true /\
  contains_byte DASH (gs_version s) = false /\ match gs_platform s with None => True | Some p => all_text p = true end.
Proof.
  unfold wf_gem_spec. intros H.
  apply andb_true_iff in H as [H H6]. apply andb_true_iff in H as [H H5]. apply andb_true_iff in H as [H H4].
  apply andb_true_iff in H as [H H3]. apply andb_true_iff in H as [H1 H2]. apply negb_true_iff in H5.
  split; [destruct (gs_name s); discriminate|]. split; [exact H2|].
  split; [destruct (gs_version s); discriminate|]. split; [exact H4|]. split; [exact H5|].
  destruct (gs_platform s); auto.
Qed.

Lemma gem_spec_text_parse s bang : wf_gem_spec s = true ->
  gem_spec_parse (gem_spec_text s bang) = [(gs_name s, gs_version s)].
Proof.
  intros H. apply wf_gem_spec_parts in H as (N1 & G & V1 & _ & D & _).
  set (plat := match gs_platform s with None => [] | Some p => DASH :: p end).
  set (core := gs_name s ++ SP :: LPAR :: (gs_version s ++ plat)).
  assert (gem_spec_text s bang = core ++ (if bang then [RPAR; BANG] else [RPAR])) as ->.
  { unfold gem_spec_text, core. fold plat. destruct bang; cbn [app]; rewrite <- !app_assoc; cbn [app];
      rewrite <- !app_assoc; reflexivity. }
  unfold gem_spec_parse.
  assert (strip_closer (core ++ (if bang then [RPAR; BANG] else [RPAR])) = Some core) as ->
    by (destruct bang; [apply strip_closer_rpar_bang | apply strip_closer_rpar]).
  unfold core. rewrite (find_sp_paren_name _ _ G).
  assert (take_until DASH (gs_version s ++ plat) = gs_version s) as ->.
  { unfold plat. destruct (gs_platform s); [now apply take_until_app | rewrite app_nil_r; now apply take_until_none]. }
  destruct (gs_name s); [congruence|]. destruct (gs_version s); [congruence|]. reflexivity.
Qed.

(* ------------------------------------------------------------------ one step of the section reader *)
Definition pend (cur : gem_cur) : list pkg := gem_extract (gem_flush cur).

Lemma gem_extract_app a b : gem_extract (a ++ b) = gem_extract a ++ gem_extract b.
Proof. unfold gem_extract. apply flat_map_app. Qed.

Lemma gem_run_nil cur : gem_run [] cur = Ok (pend cur).
Proof. reflexivity. Qed.

Lemma gem_run_blank r cur : gem_run ([] :: r) cur = gem_run r cur.
Proof. reflexivity. Qed.

Lemma gem_sections_cons l r cur :
  gem_sections (l :: r) cur =
  match l with
  | [] => gem_sections r cur
  | _ =>
      let k := leading_spaces l in
      if Nat.eqb k 0 then cons_out (gem_flush cur) (gem_sections r (Some (l, [])))
      else if Nat.eqb k 4 then
        match cur with
        | None => Err EInvalid
        | Some (n, sp) => gem_sections r (Some (n, skipn 4 l :: sp))
        end
      else if has_prefix s_revision l then
        match cur with
        | None => Err EInvalid
        | Some _ => gem_sections r cur
        end
      else gem_sections r cur
  end.
Proof. reflexivity. Qed.

Lemma gem_run_header h r cur : starts_nonspace h = true ->
  gem_run (h :: r) cur = cons_out (pend cur) (gem_run r (Some (h, []))).
Proof.
  intros H. unfold gem_run. rewrite gem_sections_cons. cbv zeta. rewrite (leading_spaces_nonspace h H).
  destruct h as [|c h]; [discriminate|]. cbn [Nat.eqb]. unfold bytes in *.
  destruct (gem_sections r _) as [secs|e|]; cbn [cons_out]; [|reflexivity|reflexivity].
  rewrite gem_extract_app. reflexivity.
Qed.

Lemma spaces_cons n t : (n <> 0)%nat -> exists m, spaces n ++ t = SP :: m.
Proof. destruct n; [congruence|]. intros _. eexists. reflexivity. Qed.

Lemma gem_run_spec x r n sp : starts_nonspace x = true ->
  gem_run ((spaces 4 ++ x) :: r) (Some (n, sp)) = gem_run r (Some (n, x :: sp)).
Proof.
  intros H. unfold gem_run. rewrite gem_sections_cons. cbv zeta.
  rewrite (leading_spaces_spaces 4 x H). cbn [Nat.eqb]. rewrite (skipn_spaces 4 x).
  reflexivity.
Qed.

Lemma gem_run_other k t r n sp : wf_gem_noise (GOther k t) = true ->
  gem_run ((spaces k ++ t) :: r) (Some (n, sp)) = gem_run r (Some (n, sp)).
Proof.
  cbn [wf_gem_noise]. intros H. apply andb_true_iff in H as [H _]. apply andb_true_iff in H as [H H3].
  apply andb_true_iff in H as [H1 H2]. apply negb_true_iff in H1, H2.
  unfold gem_run. rewrite gem_sections_cons. cbv zeta. rewrite (leading_spaces_spaces k t H3), H1, H2.
  destruct (spaces_cons k t) as (m & ->); [now apply PeanoNat.Nat.eqb_neq|].
  destruct (has_prefix s_revision (SP :: m)); reflexivity.
Qed.

Lemma gem_noise_lines_run ns r n sp :
  forallb (fun ne => wf_gem_noise (fst ne)) ns = true ->
  gem_run (map fst (gem_noise_lines ns) ++ r) (Some (n, sp)) = gem_run r (Some (n, sp)).
Proof.
  induction ns as [|[x e] ns IH]; intros H; [reflexivity|].
  cbn [forallb fst] in H. apply andb_true_iff in H as [H1 H2].
  cbn [gem_noise_lines map fst app]. destruct x as [|k t]; cbn [gem_noise_content].
  - rewrite gem_run_blank. now apply IH.
  - rewrite gem_run_other by exact H1. now apply IH.
Qed.

Definition body_lines (body : list (option bytes * eol)) : list (bytes * eol) :=
  map (fun le => (match fst le with None => [] | Some t => SP :: t end, snd le)) body.

Lemma gem_run_body body : forall n sp, exists sp', forall r,
  gem_run (map fst (body_lines body) ++ r) (Some (n, sp)) = gem_run r (Some (n, sp')).
Proof.
  induction body as [|[[t|] e] body IH]; intros n sp.
  - exists sp. reflexivity.
  - cbn [body_lines map fst app]. fold (body_lines body).
    assert (exists sp1, forall r, gem_run ((SP :: t) :: r) (Some (n, sp)) = gem_run r (Some (n, sp1))) as (sp1 & E1).
    { destruct (Nat.eqb (leading_spaces t) 3) eqn:E3.
      - exists (skipn 4 (SP :: t) :: sp). intros r. unfold gem_run. rewrite gem_sections_cons. cbv zeta.
        cbn [leading_spaces]. rewrite (N.eqb_refl SP). cbn [Nat.eqb]. rewrite E3. reflexivity.
      - exists sp. intros r. unfold gem_run. rewrite gem_sections_cons. cbv zeta.
        cbn [leading_spaces]. rewrite (N.eqb_refl SP). cbn [Nat.eqb]. rewrite E3.
        destruct (has_prefix s_revision (SP :: t)); reflexivity. }
    destruct (IH n sp1) as (sp2 & E2). exists sp2. intros r. rewrite E1. apply E2.
  - cbn [body_lines map fst app]. fold (body_lines body). destruct (IH n sp) as (sp2 & E2).
    exists sp2. intros r. rewrite gem_run_blank. apply E2.
Qed.

(* blank lines and whole non-source sections between source sections *)
Lemma pend_nonsource n sp : gem_is_source n = false -> pend (Some (n, sp)) = [].
Proof. intros H. unfold pend, gem_extract. cbn. now rewrite H. Qed.

Lemma gem_run_between bs : forallb wf_gem_between bs = true ->
  forall cur, exists cur' pre,
    (forall r, gem_run (map fst (flat_map gem_between_lines bs) ++ r) cur = cons_out pre (gem_run r cur')) /\
    pre ++ pend cur' = pend cur.
Proof.
  induction bs as [|b bs IH]; intros H cur.
  - exists cur, []. split; [intros r; cbn; now rewrite cons_out_nil | reflexivity].
  - cbn [forallb] in H. apply andb_true_iff in H as [Hb Hbs].
    destruct b as [e|name e body].
    + destruct (IH Hbs cur) as (cur' & pre & E & P). exists cur', pre. split; [|exact P].
      intros r. cbn [flat_map gem_between_lines app map fst]. rewrite gem_run_blank. apply E.
    + cbn [wf_gem_between] in Hb. apply andb_true_iff in Hb as [Hb _]. apply andb_true_iff in Hb as [Hb H3].
      apply andb_true_iff in Hb as [H1 _]. apply negb_true_iff in H3.
      destruct (gem_run_body body name []) as (sp' & Eb).
      destruct (IH Hbs (Some (name, sp'))) as (cur' & pre & E & P).
      exists cur', (pend cur ++ pre). split.
      * intros r. cbn [flat_map gem_between_lines]. fold (body_lines body).
        rewrite map_app. cbn [map fst app]. rewrite <- app_assoc.
        rewrite gem_run_header by exact H1. rewrite Eb, E. now rewrite cons_out_cons_out.
      * rewrite <- app_assoc, P. rewrite pend_nonsource by exact H3. apply app_nil_r.
Qed.

(* ------------------------------------------------------------------ a source section *)
Fixpoint spec_texts (ss : list gem_spec) (ys : list gem_slay) : list bytes :=
  match ss with
  | [] => []
  | s :: ss' => gem_spec_text s (sl_bang (hd gem_slay_default ys)) :: spec_texts ss' (tl ys)
  end.

Lemma hd_tl_slay ys : forallb wf_gem_slay ys = true ->
  wf_gem_slay (hd gem_slay_default ys) = true /\ forallb wf_gem_slay (tl ys) = true.
Proof. destruct ys; cbn [forallb hd tl]; intros H; [split; reflexivity|]. now apply andb_true_iff in H. Qed.

Lemma spec_text_nonspace s bang : wf_gem_spec s = true -> starts_nonspace (gem_spec_text s bang) = true.
Proof.
  intros H. apply wf_gem_spec_parts in H as (N1 & G & _). unfold gem_spec_text.
  destruct (gs_name s) as [|c nm]; [congruence|]. cbn [app starts_nonspace]. cbn [all_graphic forallb] in G.
  apply andb_true_iff in G as [G _]. apply negb_true_iff, N.eqb_neq.
  unfold graphic in G. apply andb_true_iff in G as [G _]. apply N.leb_le in G. unfold SP. lia.
Qed.

Lemma gem_specs_run : forall ss ys r n sp,
  forallb wf_gem_spec ss = true -> forallb wf_gem_slay ys = true ->
  gem_run (map fst (gem_specs_lines ss ys) ++ r) (Some (n, sp)) =
  gem_run r (Some (n, rev (spec_texts ss ys) ++ sp)).
Proof.
  induction ss as [|s ss IH]; intros ys r n sp Hs Hy; [reflexivity|].
  cbn [forallb] in Hs. apply andb_true_iff in Hs as [Hs Hss].
  destruct (hd_tl_slay ys Hy) as [Hh Ht].
  cbn [gem_specs_lines spec_texts]. rewrite map_app, <- app_assoc.
  rewrite gem_noise_lines_run by exact Hh. cbn [map fst app].
  rewrite gem_run_spec by (now apply spec_text_nonspace).
  rewrite (IH (tl ys) r n _ Hss Ht). cbn [rev]. rewrite <- app_assoc. reflexivity.
Qed.

Lemma kind_is_source k : gem_is_source (gem_kind_name k) = true.
Proof. destruct k; reflexivity. Qed.
Lemma kind_nonspace k : starts_nonspace (gem_kind_name k) = true.
Proof. destruct k; reflexivity. Qed.

Lemma spec_texts_extract : forall ss ys, forallb wf_gem_spec ss = true ->
  flat_map gem_spec_parse (spec_texts ss ys) = map (fun s => (gs_name s, gs_version s)) ss.
Proof.
  induction ss as [|s ss IH]; intros ys H; [reflexivity|].
  cbn [forallb] in H. apply andb_true_iff in H as [H1 H2].
  cbn [spec_texts flat_map map]. rewrite gem_spec_text_parse by exact H1. cbn [app]. now rewrite IH.
Qed.

Lemma wf_gem_seclay_parts y : wf_gem_seclay y = true ->
  forallb wf_gem_between (cl_pre y) = true /\ forallb wf_gem_slay (cl_specs y) = true /\
  forallb (fun ne => wf_gem_noise (fst ne)) (cl_after y) = true.
Proof. unfold wf_gem_seclay. intros H. apply andb_true_iff in H as [H H3]. apply andb_true_iff in H as [H1 H2]. auto. Qed.

Lemma gem_sec_run sec y cur r :
  forallb wf_gem_spec (sec_specs sec) = true -> wf_gem_seclay y = true ->
  exists cur', gem_run (map fst (gem_sec_lines sec y) ++ r) cur = cons_out (pend cur) (gem_run r cur') /\
               pend cur' = map (fun s => (gs_name s, gs_version s)) (sec_specs sec).
Proof.
  intros Hs Hy. apply wf_gem_seclay_parts in Hy as (Y1 & Y2 & Y3).
  destruct (gem_run_between (cl_pre y) Y1 cur) as (cur1 & pre & E & P).
  exists (Some (gem_kind_name (sec_kind sec), rev (spec_texts (sec_specs sec) (cl_specs y)) ++ [])). split.
  - unfold gem_sec_lines. rewrite map_app, <- app_assoc, E. cbn [map fst app].
    rewrite gem_run_header by apply kind_nonspace. rewrite map_app, <- app_assoc.
    rewrite gem_specs_run by assumption. rewrite gem_noise_lines_run by exact Y3.
    rewrite cons_out_cons_out, P. reflexivity.
  - unfold pend, gem_extract. cbn [gem_flush flat_map fst snd]. rewrite kind_is_source, app_nil_r, app_nil_r, rev_involutive.
    now apply spec_texts_extract.
Qed.

Lemma hd_tl_seclay ys : forallb wf_gem_seclay ys = true ->
  wf_gem_seclay (hd gem_seclay_default ys) = true /\ forallb wf_gem_seclay (tl ys) = true.
Proof. destruct ys; cbn [forallb hd tl]; intros H; [split; reflexivity|]. now apply andb_true_iff in H. Qed.

Lemma gem_tokens_ok : forall rs ys tail cur,
  wf_gem_records rs = true -> forallb wf_gem_seclay ys = true -> forallb wf_gem_between tail = true ->
  gem_run (map fst (gem_secs_lines rs ys ++ flat_map gem_between_lines tail)) cur = Ok (pend cur ++ expected_gemfile rs).
Proof.
  induction rs as [|sec rs IH]; intros ys tail cur Hr Hy Ht.
  - cbn [gem_secs_lines app expected_gemfile flat_map].
    destruct (gem_run_between tail Ht cur) as (cur' & pre & E & P).
    rewrite <- (app_nil_r (map fst _)), E, gem_run_nil. cbn [cons_out]. now rewrite P, app_nil_r.
  - cbn [wf_gem_records forallb] in Hr. apply andb_true_iff in Hr as [Hs Hrs].
    destruct (hd_tl_seclay ys Hy) as [Hh Htl].
    cbn [gem_secs_lines]. rewrite <- app_assoc, map_app.
    destruct (gem_sec_run sec (hd gem_seclay_default ys) cur
                (map fst (gem_secs_lines rs (tl ys) ++ flat_map gem_between_lines tail)) Hs Hh) as (cur' & E & P).
    rewrite E, (IH (tl ys) tail cur' Hrs Htl Ht), P. cbn [cons_out expected_gemfile flat_map].
    reflexivity.
Qed.

(* ------------------------------------------------------------------ every line is printable text *)
Definition text_lines (ls : list (bytes * eol)) : bool := forallb (fun le => forallb text_byte (fst le)) ls.

Lemma text_lines_app a b : text_lines (a ++ b) = text_lines a && text_lines b.
Proof. unfold text_lines. apply forallb_app. Qed.

Lemma spaces_text n : forallb text_byte (spaces n) = true.
Proof. induction n; [reflexivity|]. cbn. exact IHn. Qed.

Lemma gem_noise_lines_text ns :
  forallb (fun ne => wf_gem_noise (fst ne)) ns = true -> text_lines (gem_noise_lines ns) = true.
Proof.
  induction ns as [|[x e] ns IH]; intros H; [reflexivity|].
  cbn [forallb fst] in H. apply andb_true_iff in H as [H1 H2].
  unfold text_lines. cbn [gem_noise_lines map forallb fst]. fold (gem_noise_lines ns). fold (text_lines (gem_noise_lines ns)).
  rewrite (IH H2), andb_true_r. destruct x as [|k t]; [reflexivity|].
  cbn [wf_gem_noise] in H1. apply andb_true_iff in H1 as [_ H1].
  cbn [gem_noise_content]. now rewrite forallb_app, spaces_text.
Qed.

Lemma spec_text_text s bang : wf_gem_spec s = true -> forallb text_byte (gem_spec_text s bang) = true.
Proof.
  intros H. apply wf_gem_spec_parts in H as (_ & G & _ & V & _ & P).
  unfold gem_spec_text. rewrite forallb_app. rewrite (graphic_text _ G). cbn [forallb andb].
  rewrite forallb_app. unfold all_text in V. rewrite V. cbn [andb]. rewrite forallb_app.
  assert (forallb text_byte (match gs_platform s with None => [] | Some p => DASH :: p end) = true) as ->.
  { destruct (gs_platform s); [cbn; exact P | reflexivity]. }
  destruct bang; reflexivity.
Qed.

Lemma gem_specs_lines_text : forall ss ys,
  forallb wf_gem_spec ss = true -> forallb wf_gem_slay ys = true -> text_lines (gem_specs_lines ss ys) = true.
Proof.
  induction ss as [|s ss IH]; intros ys Hs Hy; [reflexivity|].
  cbn [forallb] in Hs. apply andb_true_iff in Hs as [Hs Hss]. destruct (hd_tl_slay ys Hy) as [Hh Ht].
  cbn [gem_specs_lines]. rewrite text_lines_app, gem_noise_lines_text by exact Hh.
  unfold text_lines. cbn [forallb fst andb]. rewrite forallb_app, spaces_text, spec_text_text by exact Hs.
  cbn [andb]. now apply IH.
Qed.

Lemma gem_between_text bs : forallb wf_gem_between bs = true -> text_lines (flat_map gem_between_lines bs) = true.
Proof.
  induction bs as [|b bs IH]; intros H; [reflexivity|].
  cbn [forallb] in H. apply andb_true_iff in H as [Hb Hbs].
  cbn [flat_map]. rewrite text_lines_app, (IH Hbs), andb_true_r.
  destruct b as [e|name e body]; [reflexivity|].
  cbn [wf_gem_between] in Hb. apply andb_true_iff in Hb as [Hb H4]. apply andb_true_iff in Hb as [Hb _].
  apply andb_true_iff in Hb as [_ H2].
  unfold text_lines. cbn [gem_between_lines forallb fst]. unfold all_text in H2. rewrite H2. cbn [andb].
  induction body as [|[[t|] e2] body IHb]; [reflexivity| |].
  - cbn [forallb fst] in H4. apply andb_true_iff in H4 as [H5 H6].
    cbn [map forallb fst]. unfold all_text in H5. rewrite H5. cbn [andb]. now apply IHb.
  - cbn [forallb fst] in H4. cbn [map forallb fst andb]. now apply IHb.
Qed.

Lemma kind_text k : forallb text_byte (gem_kind_name k) = true.
Proof. destruct k; reflexivity. Qed.

Lemma gem_secs_lines_text : forall rs ys,
  wf_gem_records rs = true -> forallb wf_gem_seclay ys = true -> text_lines (gem_secs_lines rs ys) = true.
Proof.
  induction rs as [|sec rs IH]; intros ys Hr Hy; [reflexivity|].
  cbn [wf_gem_records forallb] in Hr. apply andb_true_iff in Hr as [Hs Hrs].
  destruct (hd_tl_seclay ys Hy) as [Hh Htl]. apply wf_gem_seclay_parts in Hh as (Y1 & Y2 & Y3).
  cbn [gem_secs_lines]. rewrite text_lines_app, (IH (tl ys) Hrs Htl), andb_true_r.
  unfold gem_sec_lines. rewrite text_lines_app, gem_between_text by exact Y1.
  unfold text_lines. cbn [forallb fst andb]. rewrite kind_text. cbn [andb].
  fold (text_lines (gem_specs_lines (sec_specs sec) (cl_specs (hd gem_seclay_default ys)) ++ gem_noise_lines (cl_after (hd gem_seclay_default ys)))).
  rewrite text_lines_app, gem_specs_lines_text, gem_noise_lines_text by assumption. reflexivity.
Qed.

Lemma gemfile_roundtrip_lemma : forall rs l,
  wf_gem_records rs = true -> wf_gem_layout rs l = true ->
  parse_gemfile (render_gemfile rs l) = Ok (expected_gemfile rs).
Proof.
  intros rs l Hr Hl. unfold wf_gem_layout in Hl.
  apply andb_true_iff in Hl as [Hl L4]. apply andb_true_iff in Hl as [Hl L3]. apply andb_true_iff in Hl as [L1 L2].
  unfold parse_gemfile, render_gemfile. rewrite scan_render.
  - pose proof (gem_tokens_ok rs (ly_secs l) (ly_tail l) None Hr L1 L2) as T. unfold gem_run in T. unfold gem_file_lines.
    destruct (gem_sections _ None) as [secs|e|]; [|discriminate|discriminate]. exact T.
  - apply lines_ok_combine; [|exact L3]. unfold gem_file_lines. fold (text_lines (gem_secs_lines rs (ly_secs l) ++ flat_map gem_between_lines (ly_tail l))).
    rewrite text_lines_app, gem_secs_lines_text, gem_between_text by assumption. reflexivity.
  - exact L4.
Qed.

(* ------------------------------------------------------------------ totality on arbitrary bytes *)
Lemma gem_sections_total : forall ls cur, gem_sections ls cur <> Panic.
Proof.
  induction ls as [|l r IH]; intros cur; [discriminate|].
  rewrite gem_sections_cons. destruct l as [|c l']; [apply IH|]. cbv zeta.
  destruct (Nat.eqb _ 0); [apply cons_out_total, IH|].
  destruct (Nat.eqb _ 4); [destruct cur as [[n sp]|]; [apply IH|discriminate]|].
  destruct (has_prefix _ _); [destruct cur; [apply IH|discriminate]|apply IH].
Qed.

Lemma gemfile_total_lemma : forall s, parse_gemfile s <> Panic.
Proof.
  intros s. unfold parse_gemfile. destruct (scan_lines s) as [toks tl]. pose proof (gem_sections_total toks None) as T.
  destruct (gem_sections toks None); [destruct tl; discriminate|discriminate|congruence].
Qed.

(* a line of 64 KiB or more is never silently swallowed: the result is an error *)
Lemma gemfile_long_line_lemma : forall s, snd (scan_lines s) = true -> exists e, parse_gemfile s = Err e.
Proof.
  intros s H. unfold parse_gemfile. destruct (scan_lines s) as [toks tl]. cbn [snd] in H. subst tl.
  pose proof (gem_sections_total toks None) as T.
  destruct (gem_sections toks None) as [secs|e|]; [exists ETooLong; reflexivity|exists e; reflexivity|congruence].
Qed.

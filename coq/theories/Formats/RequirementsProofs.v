(* Formats/RequirementsProofs.v - requirements.txt: exactness on the domain D, refutation outside it,
   totality on arbitrary bytes. *)
From Coq Require Import List NArith Bool Lia.
From Scalibr Require Import Formats.Lines Formats.LinesProofs Formats.Requirements.
Import ListNotations.
Open Scope N_scope.

Ltac bool_hyps :=
  repeat match goal with
  | H : _ || _ = true |- _ => apply orb_true_iff in H; destruct H
  | H : _ && _ = true |- _ => apply andb_true_iff in H; destruct H
  | H : (_ <=? _) = true |- _ => apply N.leb_le in H
  | H : (_ =? _) = true |- _ => apply N.eqb_eq in H
  end.

Lemma forallb_imp {A} (P Q : A -> bool) l : (forall x, P x = true -> Q x = true) -> forallb P l = true -> forallb Q l = true.
Proof. intros HI H. apply forallb_forall. intros x Hx. rewrite forallb_forall in H. auto. Qed.

(* bytes that can occur on a pinned requirement line of the claimed layout *)
Definition safe (c : N) : bool := name_byte c || ver_byte c || blank_byte c || (c =? EQ).

Lemma safe_not c x : safe c = true ->
  In x [HASH; 36; BSLASH; SEMI; LBR; RBR; 42; 44; 60; 33; 10; 13] -> c <> x.
Proof.
  unfold safe, name_byte, ver_byte, alnum, blank_byte, HASH, BSLASH, SEMI, LBR, RBR, DASH, EQ. intros H Hin.
  cbn [In] in Hin. bool_hyps; subst; repeat (destruct Hin as [<-|Hin]; [lia|]); try contradiction.
Qed.

Lemma safe_no_byte x s : In x [HASH; 36; BSLASH; SEMI; LBR; RBR; 42; 44; 60; 33; 10; 13] ->
  forallb safe s = true -> contains_byte x s = false.
Proof.
  intros Hx. induction s as [|c s IH]; intros H; [reflexivity|].
  cbn [forallb] in H. apply andb_true_iff in H as [H1 H2]. cbn [contains_byte].
  rewrite (IH H2), orb_false_r. apply N.eqb_neq. now apply safe_not.
Qed.

Lemma safe_text c : safe c = true -> text_byte c = true.
Proof.
  unfold safe, name_byte, ver_byte, alnum, blank_byte, text_byte, DASH, EQ. intros H.
  assert ((32 <= c /\ c <= 126) \/ c = 9) as [[A B]|E] by (bool_hyps; subst; lia); [|subst; reflexivity].
  apply orb_true_iff. left. apply andb_true_iff. split; apply N.leb_le; lia.
Qed.

(* ------------------------------------------------------------------ the string functions on harmless input *)
Lemma rm_comment_nohash s : forall ws b, contains_byte HASH s = false -> rm_comment s ws b = rev ws ++ s.
Proof.
  induction s as [|c s IH]; intros ws b H; [cbn; now rewrite app_nil_r|].
  cbn [contains_byte] in H. apply orb_false_iff in H as [H1 H2]. cbn [rm_comment]. rewrite H1. cbn [andb].
  destruct (re_space c).
  - rewrite IH by exact H2. cbn [rev]. now rewrite <- app_assoc.
  - now rewrite IH by exact H2.
Qed.

Lemma has_env_nodollar s : contains_byte 36 s = false -> has_env_var s = false.
Proof.
  induction s as [|c s IH]; intros H; [reflexivity|].
  cbn [contains_byte] in H. apply orb_false_iff in H as [H1 H2]. cbn [has_env_var]. now rewrite H1, (IH H2).
Qed.

Lemma ends_bslash_none s : contains_byte BSLASH s = false -> ends_with_bslash s = false.
Proof.
  induction s as [|c s IH]; intros H; [reflexivity|].
  cbn [contains_byte] in H. apply orb_false_iff in H as [H1 H2]. cbn [ends_with_bslash]. destruct s; [exact H1|now apply IH].
Qed.

(* an option marker starts with '-' *)
Definition hd_not_dash (s : bytes) : bool := match s with d :: _ => negb (d =? DASH) | [] => true end.

Lemma option_here_dash s : hd_not_dash s = true -> option_here s = false.
Proof.
  destruct s as [|d s]; [reflexivity|]. cbn [hd_not_dash]. intros H. apply negb_true_iff in H.
  unfold option_here, s_hash, s_global_option, s_config_settings, s_dashC. cbn [has_prefix].
  change 45 with DASH. rewrite (N.eqb_sym DASH d), H. reflexivity.
Qed.

Lemma hd_not_dash_app a b : (forall c, In c a -> c <> DASH) -> hd_not_dash b = true -> hd_not_dash (a ++ b) = true.
Proof.
  destruct a as [|c a]; intros Ha Hb; [exact Hb|]. cbn. apply negb_true_iff, N.eqb_neq. apply Ha. now left.
Qed.

(* a stretch without '-' followed by something that does not start with '-' is never cut *)
Lemma cut_opt_ws_nodash a b : (forall c, In c a -> c <> DASH) -> hd_not_dash b = true ->
  cut_opt_ws (a ++ b) = a ++ cut_opt_ws b.
Proof.
  induction a as [|c a IH]; intros Ha Hb; [reflexivity|].
  cbn [app cut_opt_ws]. rewrite option_here_dash, andb_false_r.
  - rewrite IH; [reflexivity|intros x Hx; apply Ha; now right|exact Hb].
  - apply hd_not_dash_app; [intros x Hx; apply Ha; now right|exact Hb].
Qed.

(* a stretch without white space is never cut *)
Lemma cut_opt_ws_nows a b : (forall c, In c a -> re_space c = false) -> cut_opt_ws (a ++ b) = a ++ cut_opt_ws b.
Proof.
  induction a as [|c a IH]; intros Ha; [reflexivity|].
  cbn [app cut_opt_ws]. rewrite (Ha c (or_introl eq_refl)). cbn [andb].
  rewrite IH; [reflexivity|intros x Hx; apply Ha; now right].
Qed.

Lemma blank_no_dash l : forallb blank_byte l = true -> forall c, In c l -> c <> DASH.
Proof.
  intros H c Hc. rewrite forallb_forall in H. specialize (H c Hc). unfold blank_byte, DASH in *. bool_hyps; subst; lia.
Qed.
Lemma ver_no_dash l : forallb ver_byte l = true -> forall c, In c l -> c <> DASH.
Proof.
  intros H c Hc. rewrite forallb_forall in H. specialize (H c Hc). unfold ver_byte, alnum, DASH in *. bool_hyps; subst; lia.
Qed.
Lemma name_no_space l : forallb name_byte l = true -> forall c, In c l -> re_space c = false.
Proof.
  intros H c Hc. rewrite forallb_forall in H. specialize (H c Hc). unfold name_byte, alnum, re_space, DASH in *.
  assert (c <> 9 /\ c <> 10 /\ c <> 12 /\ c <> 13 /\ c <> 32) as (A & B & C & D & E) by (bool_hyps; subst; lia).
  apply N.eqb_neq in A, B, C, D, E. now rewrite A, B, C, D, E.
Qed.

Lemma remove_ws_app a b : remove_ws (a ++ b) = remove_ws a ++ remove_ws b.
Proof. unfold remove_ws. apply filter_app. Qed.
Lemma remove_ws_blank ws : forallb blank_byte ws = true -> remove_ws ws = [].
Proof.
  induction ws as [|c ws IH]; intros H; [reflexivity|]. cbn [forallb] in H. apply andb_true_iff in H as [H1 H2].
  unfold remove_ws in *. cbn [filter]. assert (rw_space c = true) as ->.
  { unfold blank_byte in H1. unfold rw_space. bool_hyps; subst; reflexivity. }
  cbn [negb]. now apply IH.
Qed.
Lemma remove_ws_id (P : N -> bool) s : (forall c, P c = true -> rw_space c = false) -> forallb P s = true -> remove_ws s = s.
Proof.
  intros HP. induction s as [|c s IH]; intros H; [reflexivity|]. cbn [forallb] in H. apply andb_true_iff in H as [H1 H2].
  unfold remove_ws in *. cbn [filter]. rewrite (HP c H1). cbn [negb]. now rewrite IH.
Qed.

Lemma name_byte_nows c : name_byte c = true -> rw_space c = false.
Proof.
  unfold name_byte, alnum, rw_space, DASH. intros H.
  assert (c <> 32 /\ c <> 9 /\ c <> 13) as (A & B & C) by (bool_hyps; subst; lia).
  apply N.eqb_neq in A, B, C. now rewrite A, B, C.
Qed.
Lemma ver_byte_nows c : ver_byte c = true -> rw_space c = false.
Proof.
  unfold ver_byte, alnum, rw_space. intros H.
  assert (c <> 32 /\ c <> 9 /\ c <> 13) as (A & B & C) by (bool_hyps; subst; lia).
  apply N.eqb_neq in A, B, C. now rewrite A, B, C.
Qed.

Lemma before_semi_none s : contains_byte SEMI s = false -> before_semi s = Ok s.
Proof.
  intros H. unfold before_semi. assert (cut SEMI s = None) as ->; [|reflexivity].
  induction s as [|c s IH]; [reflexivity|]. cbn [contains_byte] in H. apply orb_false_iff in H as [H1 H2].
  cbn [cut]. now rewrite H1, (IH H2).
Qed.

Lemma rm_extras_id s : contains_byte LBR s = false -> contains_byte RBR s = false -> rm_extras s None = s.
Proof.
  induction s as [|c s IH]; intros H1 H2; [reflexivity|].
  cbn [contains_byte] in H1, H2. apply orb_false_iff in H1 as [A1 A2]. apply orb_false_iff in H2 as [B1 B2].
  cbn [rm_extras]. now rewrite A1, B1, IH.
Qed.

Lemma unsupported_none s :
  contains_byte 42 s = false -> contains_byte 44 s = false -> contains_byte 60 s = false -> contains_byte 33 s = false ->
  unsupported s = false.
Proof.
  induction s as [|c s IH]; intros H1 H2 H3 H4; [reflexivity|].
  cbn [contains_byte] in H1, H2, H3, H4.
  apply orb_false_iff in H1 as [A1 A2]. apply orb_false_iff in H2 as [B1 B2].
  apply orb_false_iff in H3 as [C1 C2]. apply orb_false_iff in H4 as [D1 D2].
  cbn [unsupported]. now rewrite A1, B1, C1, D1, IH.
Qed.

(* find_sub on name ++ "==" ++ version *)
Lemma find_sub_skip sep0 sep name rest :
  contains_byte sep0 name = false ->
  find_sub (sep0 :: sep) (name ++ rest) =
  match find_sub (sep0 :: sep) rest with Some (a, b) => Some (name ++ a, b) | None => None end.
Proof.
  induction name as [|c name IH]; intros H.
  - cbn [app]. destruct (find_sub (sep0 :: sep) rest) as [[a b]|]; reflexivity.
  - cbn [contains_byte] in H. apply orb_false_iff in H as [H1 H2]. cbn [app find_sub has_prefix].
    rewrite N.eqb_sym, H1. cbn [andb]. rewrite (IH H2).
    destruct (find_sub (sep0 :: sep) rest) as [[a b]|]; reflexivity.
Qed.

Lemma find_sub_none sep0 sep s : contains_byte sep0 s = false -> find_sub (sep0 :: sep) s = None.
Proof.
  induction s as [|c s IH]; intros H; [reflexivity|].
  cbn [contains_byte] in H. apply orb_false_iff in H as [H1 H2]. cbn [find_sub has_prefix].
  rewrite N.eqb_sym, H1. cbn [andb]. now rewrite (IH H2).
Qed.

Lemma lowest_version_pinned name ver :
  forallb name_byte name = true -> forallb ver_byte ver = true -> ver <> [] ->
  lowest_version (name ++ s_eq2 ++ ver) = (name, ver, true).
Proof.
  intros Hn Hv Hne.
  assert (forallb safe (name ++ s_eq2 ++ ver) = true) as Hs.
  { rewrite !forallb_app.
    assert (forallb safe name = true) as -> by (apply (forallb_imp name_byte); [intros c H; unfold safe; now rewrite H|exact Hn]).
    assert (forallb safe ver = true) as -> by (apply (forallb_imp ver_byte); [intros c H; unfold safe; now rewrite H, orb_true_r|exact Hv]).
    reflexivity. }
  assert (contains_byte EQ name = false /\ contains_byte EQ ver = false) as [En Ev].
  { split; [clear -Hn; induction name as [|c n IH]|clear -Hv; induction ver as [|c n IH]]; try reflexivity.
    - cbn [forallb] in Hn. apply andb_true_iff in Hn as [H1 H2]. cbn [contains_byte]. rewrite (IH H2), orb_false_r.
      apply N.eqb_neq. unfold name_byte, alnum, DASH, EQ in *. bool_hyps; subst; lia.
    - cbn [forallb] in Hv. apply andb_true_iff in Hv as [H1 H2]. cbn [contains_byte]. rewrite (IH H2), orb_false_r.
      apply N.eqb_neq. unfold ver_byte, alnum, EQ in *. bool_hyps; subst; lia. }
  unfold lowest_version.
  rewrite unsupported_none by (apply safe_no_byte; [cbn; tauto|exact Hs]).
  change s_eq3 with (EQ :: [EQ; EQ]). rewrite (find_sub_skip EQ _ name _ En).
  change (EQ :: [EQ; EQ]) with [EQ; EQ; EQ].
  assert (find_sub [EQ; EQ; EQ] (s_eq2 ++ ver) = None) as ->.
  { destruct ver as [|v0 ver]; [congruence|]. pose proof Ev as Ev0. cbn [contains_byte] in Ev. apply orb_false_iff in Ev as [E0 E1].
    assert (EQ =? v0 = false) as E0' by (rewrite N.eqb_sym; exact E0).
    unfold s_eq2. cbn [app find_sub has_prefix]. rewrite E0'. rewrite !andb_false_r.
    change (find_sub [EQ; EQ; EQ] ver) with (find_sub (EQ :: [EQ; EQ]) ver).
    rewrite find_sub_none; [reflexivity|exact E1]. }
  change (find_sub s_eq2 (name ++ s_eq2 ++ ver)) with (find_sub (EQ :: [EQ]) (name ++ s_eq2 ++ ver)).
  rewrite (find_sub_skip EQ _ name _ En).
  unfold s_eq2. cbn [app find_sub has_prefix]. rewrite !N.eqb_refl. cbn [andb length skipn]. now rewrite app_nil_r.
Qed.

(* ------------------------------------------------------------------ one requirement line *)
Lemma wf_rq_rec_parts r : wf_rq_rec r = true ->
  forallb name_byte (rq_name r) = true /\ rq_version r <> [] /\ forallb ver_byte (rq_version r) = true.
Proof.
  unfold wf_rq_rec, wf_rq_name. intros H. apply andb_true_iff in H as [H H3]. apply andb_true_iff in H as [H H2].
  apply andb_true_iff in H as [_ H1]. split; [exact H1|]. split; [destruct (rq_version r); discriminate|exact H3].
Qed.

Lemma wf_rq_rlay_parts y : wf_rq_rlay y = true ->
  forallb (fun ne => wf_rq_noise (fst ne)) (rl_before y) = true /\ all_blank (rl_lead y) = true /\
  all_blank (rl_ws1 y) = true /\ all_blank (rl_ws2 y) = true /\ all_blank (rl_trail y) = true.
Proof.
  unfold wf_rq_rlay. intros H. apply andb_true_iff in H as [H _]. apply andb_true_iff in H as [H H5]. apply andb_true_iff in H as [H H4].
  apply andb_true_iff in H as [H H3]. apply andb_true_iff in H as [H1 H2]. auto.
Qed.
Lemma wf_rq_rlay_cont y e ws : wf_rq_rlay y = true -> rl_cont y = Some (e, ws) -> all_blank ws = true.
Proof. unfold wf_rq_rlay. intros H E. apply andb_true_iff in H as [_ H]. now rewrite E in H. Qed.

Lemma blank_safe l : forallb blank_byte l = true -> forallb safe l = true.
Proof. apply forallb_imp. intros c H. unfold safe. now rewrite H, !orb_true_r. Qed.

Lemma rq_line_safe r y : wf_rq_rec r = true -> wf_rq_rlay y = true -> forallb safe (rq_line r y) = true.
Proof.
  intros Hr Hy. apply wf_rq_rec_parts in Hr as (N & _ & V). apply wf_rq_rlay_parts in Hy as (_ & L & W1 & W2 & T).
  unfold rq_line, all_blank in *. rewrite !forallb_app.
  rewrite (blank_safe _ L), (blank_safe _ W1), (blank_safe _ W2), (blank_safe _ T).
  assert (forallb safe (rq_name r) = true) as -> by (apply (forallb_imp name_byte); [intros c H; unfold safe; now rewrite H|exact N]).
  assert (forallb safe (rq_version r) = true) as -> by (apply (forallb_imp ver_byte); [intros c H; unfold safe; now rewrite H, orb_true_r|exact V]).
  reflexivity.
Qed.

Lemma rq_line_uncut r y :
  wf_rq_rec r = true -> wf_rq_rlay y = true -> valid_pkg (rq_name r) = true -> cut_options (rq_line r y) = rq_line r y.
Proof.
  intros Hr Hy Hv. apply wf_rq_rec_parts in Hr as (N & Vne & V). apply wf_rq_rlay_parts in Hy as (_ & L & W1 & W2 & T).
  unfold all_blank in *.
  assert (hd_not_dash (rq_name r ++ rl_ws1 y ++ s_eq2 ++ rl_ws2 y ++ rq_version r ++ rl_trail y) = true) as Hn.
  { unfold valid_pkg in Hv. destruct (rq_name r) as [|c0 nm]; [discriminate|]. destruct nm; [discriminate|].
    apply andb_true_iff in Hv as [Hw _]. cbn. apply negb_true_iff, N.eqb_neq. unfold word_byte, DASH in *. bool_hyps; subst; lia. }
  assert (hd_not_dash (rq_version r ++ rl_trail y) = true) as Hv2
    by (apply hd_not_dash_app; [now apply ver_no_dash|destruct (rl_trail y) as [|t0 tr]; [reflexivity|];
        cbn; apply negb_true_iff, N.eqb_neq; apply (blank_no_dash _ T); now left]).
  unfold cut_options, rq_line.
  rewrite option_here_dash by (apply hd_not_dash_app; [now apply blank_no_dash|exact Hn]).
  rewrite cut_opt_ws_nodash; [|now apply blank_no_dash|exact Hn].
  rewrite cut_opt_ws_nows by (now apply name_no_space).
  rewrite cut_opt_ws_nodash; [|now apply blank_no_dash|apply hd_not_dash_app; [intros c [<-|[<-|[]]]; discriminate|apply hd_not_dash_app; [now apply blank_no_dash|exact Hv2]]].
  rewrite cut_opt_ws_nodash; [|intros c [<-|[<-|[]]]; discriminate|apply hd_not_dash_app; [now apply blank_no_dash|exact Hv2]].
  rewrite cut_opt_ws_nodash; [|now apply blank_no_dash|exact Hv2].
  rewrite cut_opt_ws_nodash; [|now apply ver_no_dash|destruct (rl_trail y) as [|t0 tr]; [reflexivity|cbn; apply negb_true_iff, N.eqb_neq; apply (blank_no_dash _ T); now left]].
  rewrite <- (app_nil_r (rl_trail y)) at 1. rewrite cut_opt_ws_nodash; [|now apply blank_no_dash|reflexivity].
  cbn [cut_opt_ws]. now rewrite app_nil_r.
Qed.

Lemma rq_line_logical r y :
  wf_rq_rec r = true -> wf_rq_rlay y = true -> valid_pkg (rq_name r) = true ->
  req_logical (rq_line r y) = Ok [(rq_name r, rq_version r)].
Proof.
  intros Hr Hy Hv. pose proof (rq_line_safe r y Hr Hy) as Hs. pose proof (rq_line_uncut r y Hr Hy Hv) as Ho.
  apply wf_rq_rec_parts in Hr as (N & Vne & V). apply wf_rq_rlay_parts in Hy as (_ & L & W1 & W2 & T).
  unfold req_logical. rewrite Ho.
  assert (remove_ws (rq_line r y) = rq_name r ++ s_eq2 ++ rq_version r) as ->.
  { unfold rq_line, all_blank in *. rewrite !remove_ws_app.
    rewrite (remove_ws_blank _ L), (remove_ws_blank _ W1), (remove_ws_blank _ W2), (remove_ws_blank _ T).
    rewrite (remove_ws_id name_byte _ name_byte_nows N), (remove_ws_id ver_byte _ ver_byte_nows V).
    cbn [app]. now rewrite app_nil_r. }
  assert (forallb safe (rq_name r ++ s_eq2 ++ rq_version r) = true) as Hs2.
  { rewrite !forallb_app.
    assert (forallb safe (rq_name r) = true) as -> by (apply (forallb_imp name_byte); [intros c H; unfold safe; now rewrite H|exact N]).
    assert (forallb safe (rq_version r) = true) as -> by (apply (forallb_imp ver_byte); [intros c H; unfold safe; now rewrite H, orb_true_r|exact V]).
    reflexivity. }
  rewrite before_semi_none by (apply safe_no_byte; [cbn; tauto|exact Hs2]). cbn [bind].
  unfold remove_extras. rewrite rm_extras_id by (apply safe_no_byte; [cbn; tauto|exact Hs2]).
  destruct (rq_name r) as [|c0 nm] eqn:En; [discriminate|].
  cbn [app is_nil has_prefix]. rewrite <- En in *.
  assert ((DASH =? c0) = false) as ->.
  { unfold valid_pkg in Hv. rewrite En in Hv. destruct nm; [discriminate|]. apply andb_true_iff in Hv as [Hw _].
    apply N.eqb_neq. unfold word_byte, DASH in *. bool_hyps; subst; lia. }
  cbn [andb]. change (c0 :: nm ++ s_eq2 ++ rq_version r) with ((c0 :: nm) ++ s_eq2 ++ rq_version r). rewrite <- En.
  rewrite lowest_version_pinned by assumption.
  rewrite En. cbn [is_nil]. rewrite <- En. destruct (rq_version r); [congruence|]. cbn [is_nil andb]. now rewrite Hv.
Qed.

Lemma rq_record_step r y rest tl :
  wf_rq_rec r = true -> wf_rq_rlay y = true -> valid_pkg (rq_name r) = true ->
  req_lines (rq_line r y :: rest) tl None = cons_out [(rq_name r, rq_version r)] (req_lines rest tl None).
Proof.
  intros Hr Hy Hv. pose proof (rq_line_safe r y Hr Hy) as Hs. cbn [req_lines].
  unfold remove_comments. rewrite rm_comment_nohash by (apply safe_no_byte; [cbn; tauto|exact Hs]). cbn [rev app].
  rewrite has_env_nodollar by (apply safe_no_byte; [cbn; tauto|exact Hs]).
  rewrite ends_bslash_none by (apply safe_no_byte; [cbn; tauto|exact Hs]).
  now rewrite rq_line_logical.
Qed.

(* a requirement continued with a backslash after the "==" *)
Definition with_ws2 (y : rq_rlay) (ws : bytes) : rq_rlay :=
  {| rl_before := rl_before y; rl_lead := rl_lead y; rl_ws1 := rl_ws1 y; rl_ws2 := rl_ws2 y ++ ws; rl_trail := rl_trail y;
     rl_eol := rl_eol y; rl_cont := None |}.

Lemma ends_bslash_snoc a : ends_with_bslash (a ++ [BSLASH]) = true.
Proof. induction a as [|c a IH]; [reflexivity|]. cbn [app ends_with_bslash]. destruct (a ++ [BSLASH]) eqn:E; [destruct a; discriminate|exact IH]. Qed.
Lemma drop_last_snoc a x : drop_last (a ++ [x]) = a.
Proof. induction a as [|c a IH]; [reflexivity|]. cbn [app drop_last]. destruct (a ++ [x]) eqn:E; [destruct a; discriminate|]. now rewrite IH. Qed.

Lemma rq_head_safe r y : wf_rq_rec r = true -> wf_rq_rlay y = true -> forallb safe (rq_head r y) = true.
Proof.
  intros Hr Hy. apply wf_rq_rec_parts in Hr as (N & _ & _). apply wf_rq_rlay_parts in Hy as (_ & L & W1 & W2 & _).
  unfold rq_head, all_blank in *. rewrite !forallb_app. rewrite (blank_safe _ L), (blank_safe _ W1), (blank_safe _ W2).
  assert (forallb safe (rq_name r) = true) as -> by (apply (forallb_imp name_byte); [intros c H; unfold safe; now rewrite H|exact N]).
  reflexivity.
Qed.

Lemma rq_phys_step r y rest tl :
  wf_rq_rec r = true -> wf_rq_rlay y = true -> valid_pkg (rq_name r) = true ->
  req_lines (map fst (rq_phys_lines r y) ++ rest) tl None = cons_out [(rq_name r, rq_version r)] (req_lines rest tl None).
Proof.
  intros Hr Hy Hv. unfold rq_phys_lines. destruct (rl_cont y) as [[e ws]|] eqn:Ec.
  - pose proof (wf_rq_rlay_cont y e ws Hy Ec) as Hw. pose proof (rq_head_safe r y Hr Hy) as Hh.
    assert (wf_rq_rlay (with_ws2 y ws) = true) as Hy'.
    { pose proof Hy as Hy0. apply wf_rq_rlay_parts in Hy0 as (B & L & W1 & W2 & T). unfold wf_rq_rlay, with_ws2. cbn.
      unfold all_blank in *. rewrite B, L, W1, T, forallb_app, W2, Hw. reflexivity. }
    assert (rq_head r y ++ ws ++ rq_version r ++ rl_trail y = rq_line r (with_ws2 y ws)) as El
      by (unfold rq_head, rq_line, with_ws2; cbn; now rewrite <- !app_assoc).
    pose proof (rq_line_safe r (with_ws2 y ws) Hr Hy') as Hs. rewrite <- El in Hs.
    assert (forallb safe (ws ++ rq_version r ++ rl_trail y) = true) as Hs2 by (rewrite forallb_app in Hs; now apply andb_true_iff in Hs as [_ Hs]).
    cbn [map fst app req_lines]. unfold remove_comments.
    rewrite rm_comment_nohash by (rewrite contains_byte_app, (safe_no_byte HASH _ (or_introl eq_refl) Hh); reflexivity). cbn [rev app].
    rewrite has_env_nodollar by (rewrite contains_byte_app; rewrite safe_no_byte; [reflexivity|cbn; tauto|exact Hh]).
    rewrite ends_bslash_snoc, drop_last_snoc. cbn [app].
    rewrite rm_comment_nohash by (apply safe_no_byte; [cbn; tauto|exact Hs2]). cbn [rev app].
    rewrite has_env_nodollar by (apply safe_no_byte; [cbn; tauto|exact Hs2]).
    rewrite ends_bslash_none by (apply safe_no_byte; [cbn; tauto|exact Hs2]).
    rewrite El. now rewrite rq_line_logical.
  - cbn [map fst app]. now apply rq_record_step.
Qed.

Lemma rq_phys_text r y : wf_rq_rec r = true -> wf_rq_rlay y = true ->
  forallb (fun le => forallb text_byte (fst le)) (rq_phys_lines r y) = true.
Proof.
  intros Hr Hy. unfold rq_phys_lines. destruct (rl_cont y) as [[e ws]|] eqn:Ec.
  - pose proof (wf_rq_rlay_cont y e ws Hy Ec) as Hw. pose proof (rq_head_safe r y Hr Hy) as Hh.
    pose proof Hr as Hr0. apply wf_rq_rec_parts in Hr0 as (_ & _ & V). pose proof Hy as Hy0. apply wf_rq_rlay_parts in Hy0 as (_ & _ & _ & _ & T).
    cbn [forallb fst]. rewrite !forallb_app. rewrite (forallb_imp safe text_byte _ safe_text Hh). cbn [forallb].
    unfold all_blank in *. rewrite (blank_text _ Hw), (blank_text _ T).
    assert (forallb text_byte (rq_version r) = true) as ->; [|reflexivity].
    apply (forallb_imp ver_byte); [|exact V]. intros c H. apply safe_text. unfold safe. now rewrite H, orb_true_r.
  - cbn [forallb fst]. now rewrite (forallb_imp safe text_byte _ safe_text (rq_line_safe r y Hr Hy)).
Qed.

(* ------------------------------------------------------------------ lines without a requirement *)
Lemma cut_opt_ws_forall (P : N -> bool) s : forallb P s = true -> forallb P (cut_opt_ws s) = true.
Proof.
  induction s as [|c s IH]; intros H; [reflexivity|]. cbn [forallb] in H. apply andb_true_iff in H as [H1 H2].
  cbn [cut_opt_ws]. destruct (re_space c && option_here s); [reflexivity|]. cbn [forallb]. now rewrite H1, IH.
Qed.
Lemma cut_options_forall (P : N -> bool) s : forallb P s = true -> forallb P (cut_options s) = true.
Proof. intros H. unfold cut_options. destruct (option_here s); [reflexivity|now apply cut_opt_ws_forall]. Qed.

Lemma req_logical_blank ws : forallb blank_byte ws = true -> req_logical ws = Ok [].
Proof.
  intros H. unfold req_logical. rewrite remove_ws_blank by (now apply cut_options_forall). reflexivity.
Qed.

Lemma req_logical_dash t : req_logical (DASH :: t) = Ok [].
Proof.
  unfold req_logical, cut_options. destruct (option_here (DASH :: t)); [reflexivity|].
  cbn [cut_opt_ws]. change (re_space DASH) with false. cbn [andb].
  unfold remove_ws. cbn [filter]. change (rw_space DASH) with false. cbn [negb].
  set (Y := filter (fun c => negb (rw_space c)) (cut_opt_ws t)).
  unfold before_semi. cbn [cut]. change (DASH =? SEMI) with false. cbv iota.
  destruct (cut SEMI Y) as [[a b]|]; cbn [index nth_error bind]; unfold remove_extras; cbn [rm_extras];
    change (DASH =? LBR) with false; change (DASH =? RBR) with false; cbv iota; cbn [is_nil has_prefix];
    rewrite N.eqb_refl; reflexivity.
Qed.

Lemma rm_comment_comment lead text : forall ws,
  forallb blank_byte lead = true -> rm_comment (lead ++ HASH :: text) ws true = [].
Proof.
  induction lead as [|c lead IH]; intros ws H.
  - cbn. reflexivity.
  - cbn [forallb] in H. apply andb_true_iff in H as [H1 H2]. cbn [app rm_comment].
    assert (c =? HASH = false) as -> by (unfold blank_byte, HASH in *; apply N.eqb_neq; bool_hyps; subst; lia).
    assert (re_space c = true) as -> by (unfold blank_byte, re_space in *; bool_hyps; subst; reflexivity).
    cbn [andb]. now apply IH.
Qed.

Lemma opt_byte_facts c : opt_byte c = true -> c <> HASH /\ c <> 36 /\ c <> BSLASH.
Proof.
  unfold opt_byte. intros H. apply andb_true_iff in H as [H H3]. apply andb_true_iff in H as [H H2]. apply andb_true_iff in H as [_ H1].
  apply negb_true_iff in H1, H2, H3. apply N.eqb_neq in H1, H2, H3. auto.
Qed.
Lemma opt_no_byte x t : In x [HASH; 36; BSLASH] -> forallb opt_byte t = true -> contains_byte x t = false.
Proof.
  intros Hx. induction t as [|c t IH]; intros H; [reflexivity|]. cbn [forallb] in H. apply andb_true_iff in H as [H1 H2].
  cbn [contains_byte]. rewrite (IH H2), orb_false_r. apply N.eqb_neq. destruct (opt_byte_facts c H1) as (A & B & C).
  cbn [In] in Hx. destruct Hx as [<-|[<-|[<-|[]]]]; assumption.
Qed.

Lemma rq_noise_step n rest tl : wf_rq_noise n = true ->
  req_lines (rq_noise_content n :: rest) tl None = req_lines rest tl None.
Proof.
  intros H. cbn [req_lines]. destruct n as [ws|lead text|text]; cbn [wf_rq_noise rq_noise_content] in *.
  - unfold all_blank in H. pose proof (blank_safe _ H) as Hs. unfold remove_comments.
    rewrite rm_comment_nohash by (apply safe_no_byte; [cbn; tauto|exact Hs]). cbn [rev app].
    rewrite has_env_nodollar by (apply safe_no_byte; [cbn; tauto|exact Hs]).
    rewrite ends_bslash_none by (apply safe_no_byte; [cbn; tauto|exact Hs]).
    rewrite req_logical_blank by exact H. now rewrite cons_out_nil.
  - apply andb_true_iff in H as [H1 _]. unfold remove_comments, all_blank in *. rewrite rm_comment_comment by exact H1.
    cbn [has_env_var ends_with_bslash app]. assert (req_logical [] = Ok []) as -> by reflexivity. now rewrite cons_out_nil.
  - assert (contains_byte HASH (DASH :: text) = false /\ contains_byte 36 (DASH :: text) = false /\ contains_byte BSLASH (DASH :: text) = false) as (A & B & C).
    { cbn [contains_byte]. rewrite !opt_no_byte by (cbn; tauto || exact H). repeat split; reflexivity. }
    unfold remove_comments. rewrite rm_comment_nohash by exact A. cbn [rev app].
    rewrite has_env_nodollar by exact B. rewrite ends_bslash_none by exact C.
    rewrite req_logical_dash. now rewrite cons_out_nil.
Qed.

Lemma rq_noise_lines_skip ns rest tl :
  forallb (fun ne => wf_rq_noise (fst ne)) ns = true ->
  req_lines (map fst (rq_noise_lines ns) ++ rest) tl None = req_lines rest tl None.
Proof.
  induction ns as [|[n e] ns IH]; intros H; [reflexivity|].
  cbn [forallb fst] in H. apply andb_true_iff in H as [H1 H2].
  cbn [rq_noise_lines map fst app]. rewrite rq_noise_step by exact H1. now apply IH.
Qed.

Lemma hd_tl_rq ys : forallb wf_rq_rlay ys = true ->
  wf_rq_rlay (hd rq_rlay_default ys) = true /\ forallb wf_rq_rlay (tl ys) = true.
Proof. destruct ys; cbn [forallb hd tl]; intros H; [split; reflexivity|]. now apply andb_true_iff in H. Qed.

Lemma rq_tokens_ok : forall rs ys after,
  wf_rq_records rs = true -> forallb wf_rq_rlay ys = true -> forallb (fun r => valid_pkg (rq_name r)) rs = true ->
  forallb (fun ne => wf_rq_noise (fst ne)) after = true ->
  req_lines (map fst (rq_recs_lines rs ys ++ rq_noise_lines after)) false None = Ok (expected_requirements rs).
Proof.
  induction rs as [|r rs IH]; intros ys after Hr Hy Hd Ha.
  - cbn [rq_recs_lines app]. rewrite <- (app_nil_r (map fst _)). now rewrite rq_noise_lines_skip.
  - cbn [wf_rq_records forallb] in Hr. apply andb_true_iff in Hr as [Hr Hrs].
    destruct (hd_tl_rq ys Hy) as [Hh Ht]. cbn [forallb] in Hd. apply andb_true_iff in Hd as [Hd1 Hd3].
    pose proof (wf_rq_rlay_parts _ Hh) as (B & _).
    cbn [rq_recs_lines]. rewrite <- !app_assoc, map_app, rq_noise_lines_skip by exact B.
    rewrite map_app, rq_phys_step by assumption.
    rewrite (IH (tl ys) after Hrs Ht Hd3 Ha). reflexivity.
Qed.

(* ------------------------------------------------------------------ every line is printable text *)
Lemma rq_noise_text n : wf_rq_noise n = true -> forallb text_byte (rq_noise_content n) = true.
Proof.
  destruct n as [ws|lead text|text]; cbn [wf_rq_noise rq_noise_content]; intros H.
  - now apply blank_text.
  - apply andb_true_iff in H as [H1 H2]. rewrite forallb_app. cbn [forallb]. now rewrite (blank_text _ H1).
  - cbn [forallb]. apply (forallb_imp opt_byte); [|exact H]. intros c Hc. unfold opt_byte in Hc.
    apply andb_true_iff in Hc as [Hc _]. apply andb_true_iff in Hc as [Hc _]. now apply andb_true_iff in Hc as [Hc _].
Qed.
Lemma rq_noise_lines_text ns : forallb (fun ne => wf_rq_noise (fst ne)) ns = true ->
  forallb (fun le => forallb text_byte (fst le)) (rq_noise_lines ns) = true.
Proof.
  induction ns as [|[n e] ns IH]; intros H; [reflexivity|].
  cbn [forallb fst] in H. apply andb_true_iff in H as [H1 H2].
  cbn [rq_noise_lines map forallb fst]. rewrite rq_noise_text by exact H1. now apply IH.
Qed.
Lemma rq_recs_lines_text : forall rs ys, wf_rq_records rs = true -> forallb wf_rq_rlay ys = true ->
  forallb (fun le => forallb text_byte (fst le)) (rq_recs_lines rs ys) = true.
Proof.
  induction rs as [|r rs IH]; intros ys Hr Hy; [reflexivity|].
  cbn [wf_rq_records forallb] in Hr. apply andb_true_iff in Hr as [Hr Hrs].
  destruct (hd_tl_rq ys Hy) as [Hh Ht]. pose proof (wf_rq_rlay_parts _ Hh) as (B & _).
  cbn [rq_recs_lines]. rewrite forallb_app. fold (rq_noise_lines (rl_before (hd rq_rlay_default ys))).
  rewrite rq_noise_lines_text by exact B. cbn [andb]. rewrite forallb_app, rq_phys_text by assumption. now apply IH.
Qed.

Lemma requirements_on_D_lemma : forall rs l,
  wf_rq_records rs = true -> wf_rq_layout rs l = true -> rq_in_D rs l = true ->
  parse_requirements (render_requirements rs l) = Ok (expected_requirements rs).
Proof.
  intros rs l Hr Hl Hd. unfold wf_rq_layout in Hl.
  apply andb_true_iff in Hl as [Hl L4]. apply andb_true_iff in Hl as [Hl L3]. apply andb_true_iff in Hl as [L1 L2].
  unfold parse_requirements, render_requirements. rewrite scan_render.
  - unfold rq_file_lines. now apply rq_tokens_ok.
  - apply lines_ok_combine; [|exact L3]. unfold rq_file_lines. rewrite forallb_app.
    rewrite rq_recs_lines_text by assumption. now rewrite rq_noise_lines_text.
  - exact L4.
Qed.

(* ------------------------------------------------------------------ outside D: the extractor is wrong *)
Definition rq_flask : list rq_rec :=
  [ {| rq_name := [70;108;97;115;107;45;67;97;99;104;105;110;103]; rq_version := [50;46;48;46;49] |};     (* Flask-Caching==2.0.1 *)
    {| rq_name := [70;108;97;115;107;45;67;111;114;115]; rq_version := [51;46;48;46;49;48] |} ].            (* Flask-Cors==3.0.10 *)
Definition rq_zope : list rq_rec :=
  [ {| rq_name := [122;111;112;101;46;105;110;116;101;114;102;97;99;101]; rq_version := [53;46;52;46;48] |} ]. (* zope.interface==5.4.0 *)
Definition rq_plain_layout : rq_layout := {| ry_recs := []; ry_after := []; ry_final_nl := true |}.

Lemma requirements_refuted_lemma :
  exists rs l, wf_rq_records rs = true /\ wf_rq_layout rs l = true /\
               parse_requirements (render_requirements rs l) <> Ok (expected_requirements rs).
Proof. exists rq_zope, rq_plain_layout. split; [reflexivity|]. split; [reflexivity|]. vm_compute. discriminate. Qed.

(* ------------------------------------------------------------------ totality on arbitrary bytes *)
Lemma before_semi_total s : exists x, before_semi s = Ok x.
Proof. unfold before_semi. destruct (cut SEMI s) as [[a b]|]; cbn; eauto. Qed.

Lemma req_logical_total l : req_logical l <> Panic.
Proof.
  unfold req_logical. destruct (before_semi_total (remove_ws (cut_options l))) as (x & ->). cbn [bind].
  destruct (is_nil (remove_extras x)); [discriminate|]. destruct (has_prefix [DASH] (remove_extras x)); [discriminate|].
  destruct (lowest_version (remove_extras x)) as [[n v] c]. destruct (is_nil n); [discriminate|].
  destruct (is_nil v && c); [discriminate|]. destruct (negb (valid_pkg n)); discriminate.
Qed.

Lemma req_lines_total : forall ls tl b, req_lines ls tl b <> Panic.
Proof.
  induction ls as [|l r IH]; intros tl b.
  - cbn [req_lines]. destruct b as [b|]; [|destruct tl; discriminate].
    pose proof (req_logical_total b) as T. destruct (req_logical b); [destruct tl; discriminate|discriminate|congruence].
  - cbn [req_lines]. destruct (has_env_var (remove_comments l)).
    + assert (req_logical [] = Ok []) as -> by reflexivity. apply cons_out_total, IH.
    + destruct (ends_with_bslash (remove_comments l)); [apply IH|].
      pose proof (req_logical_total (match b with Some b0 => b0 | None => [] end ++ remove_comments l)) as T.
      destruct (req_logical _); [apply cons_out_total, IH|discriminate|congruence].
Qed.

Lemma requirements_total_lemma : forall s, parse_requirements s <> Panic.
Proof. intros s. unfold parse_requirements. destruct (scan_lines s). apply req_lines_total. Qed.

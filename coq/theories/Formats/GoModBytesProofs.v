(* Formats/GoModBytesProofs.v - go.mod from bytes: the rendered document is lexed, grouped into statements and
   accumulated to exactly the structure of its records; with Structs2Proofs this gives the round trip. *)
From Coq Require Import List NArith Bool Lia.
From Scalibr Require Import Formats.Lines Formats.LinesProofs Formats.Structs Formats.StructsProofs Formats.Structs2
  Formats.Structs2Proofs Formats.GoModBytes.
Import ListNotations.
Open Scope N_scope.

(* ------------------------------------------------------------------ physical lines of a rendered file *)
Lemma raw_piece_no_nl c e : no_nl c = true -> no_nl (raw_piece c e) = true.
Proof. intros H. unfold raw_piece. destruct e; cbn [eol_unterminated]; [now rewrite app_nil_r|]. rewrite no_nl_app, H. reflexivity. Qed.

Lemma lines_raw_render : forall ls fnl,
  forallb (fun le => no_nl (fst le)) ls = true -> last_line_ok ls fnl = true ->
  lines_raw (render_lines ls fnl) = map (fun le => raw_piece (fst le) (snd le)) ls.
Proof.
  induction ls as [|[c e] r IH]; intros fnl Hok Hlast; [reflexivity|].
  cbn [forallb fst] in Hok. apply andb_true_iff in Hok as [Hc Hr].
  pose proof (raw_piece_no_nl c e Hc) as P1.
  destruct r as [|ce2 r'].
  - cbn [render_lines map fst snd]. destruct fnl.
    + replace (c ++ eol_bytes e) with (c ++ eol_bytes e ++ []) by now rewrite app_nil_r.
      rewrite render_terminated, (lines_raw_line _ _ P1). reflexivity.
    + fold (raw_piece c e). cbn [last_line_ok orb] in Hlast.
      assert (raw_piece c e <> []) as Hne.
      { unfold raw_piece. destruct e; cbn [eol_unterminated].
        - rewrite app_nil_r. rewrite orb_false_r in Hlast. destruct c; discriminate.
        - destruct c; discriminate. }
      now rewrite (lines_raw_last _ P1 Hne).
  - change (render_lines ((c, e) :: ce2 :: r') fnl) with (c ++ eol_bytes e ++ render_lines (ce2 :: r') fnl).
    rewrite render_terminated, (lines_raw_line _ _ P1).
    assert (last_line_ok (ce2 :: r') fnl = true) as Hl2 by exact Hlast.
    rewrite (IH fnl Hr Hl2). reflexivity.
Qed.

(* ------------------------------------------------------------------ the lexer on rendered token lines *)
Definition emit (cur : bytes) (o : option (list gtok)) : option (list gtok) :=
  match cur with [] => o | _ => match o with Some ts => Some (TId (rev cur) :: ts) | None => None end end.

Lemma gm_lex_nil cur : gm_lex [] cur = emit cur (Some []).
Proof. destruct cur; reflexivity. Qed.

Lemma gm_lex_comment t cur : gm_lex (47 :: 47 :: t) cur = emit cur (Some []).
Proof. cbn [gm_lex]. destruct cur; reflexivity. Qed.

Lemma gm_lex_space c r cur : gm_space c = true -> gm_lex (c :: r) cur = emit cur (gm_lex r []).
Proof.
  intros H. cbn [gm_lex]. assert (c =? 47 = false) as ->.
  { unfold gm_space in H. apply N.eqb_neq. intros ->. discriminate. }
  cbn [andb]. rewrite H. destruct cur; reflexivity.
Qed.

Lemma blank_space c : blank_byte c = true -> gm_space c = true.
Proof. unfold blank_byte, gm_space. intros H. apply orb_true_iff in H as [H|H]; rewrite H; [reflexivity|now rewrite orb_true_r]. Qed.

Lemma gm_lex_blanks ws r : forallb blank_byte ws = true -> gm_lex (ws ++ r) [] = gm_lex r [].
Proof.
  induction ws as [|c ws IH]; intros H; [reflexivity|]. cbn [forallb] in H. apply andb_true_iff in H as [H1 H2].
  cbn [app]. rewrite gm_lex_space by (now apply blank_space). cbn [emit]. now apply IH.
Qed.

Lemma gm_lex_blanks_cur ws r cur : ws <> [] -> forallb blank_byte ws = true -> gm_lex (ws ++ r) cur = emit cur (gm_lex r []).
Proof.
  destruct ws as [|c ws]; [congruence|]. intros _ H. cbn [forallb] in H. apply andb_true_iff in H as [H1 H2].
  cbn [app]. rewrite gm_lex_space by (now apply blank_space). now rewrite gm_lex_blanks.
Qed.

Lemma id_byte_facts c : id_byte c = true -> gm_space c = false /\ c <> 40 /\ c <> 41.
Proof.
  unfold id_byte, gm_space. intros H. apply andb_true_iff in H as [H H3]. apply andb_true_iff in H as [H1 H2].
  apply N.leb_le in H1, H2. apply negb_true_iff in H3. cbn [existsb] in H3.
  repeat (apply orb_false_iff in H3 as [? H3]).
  repeat split.
  - repeat (apply orb_false_iff; split); apply N.eqb_neq; lia.
  - now apply N.eqb_neq.
  - now apply N.eqb_neq.
Qed.

(* an identifier is scanned up to its end *)
Lemma gm_lex_ident t : forall rest cur,
  forallb id_byte t = true -> no_comment_start t = true -> (t = [] \/ last t 0 <> 47) ->
  gm_lex (t ++ rest) cur = gm_lex rest (rev t ++ cur).
Proof.
  induction t as [|c t IH]; intros rest cur Hi Hn Hl; [reflexivity|].
  cbn [forallb] in Hi. apply andb_true_iff in Hi as [Hc Ht].
  cbn [no_comment_start] in Hn. apply andb_true_iff in Hn as [Hn1 Hn2]. apply negb_true_iff in Hn1.
  destruct (id_byte_facts c Hc) as (S & P1 & P2). apply N.eqb_neq in P1, P2.
  assert ((c =? 47) && match t ++ rest with d :: _ => d =? 47 | [] => false end = false /\
          (c =? 47) && match t ++ rest with d :: _ => d =? 42 | [] => false end = false) as [E1 E2].
  { destruct t as [|d t'].
    - destruct Hl as [Hl|Hl]; [discriminate|]. cbn in Hl. apply N.eqb_neq in Hl. rewrite Hl. split; reflexivity.
    - cbn [app]. destruct (c =? 47); [|split; reflexivity]. cbn [andb] in *. apply orb_false_iff in Hn1 as [A B]. now rewrite A, B. }
  cbn [app gm_lex]. rewrite E1, E2, S, P1, P2, Hc.
  rewrite IH; [cbn [rev]; now rewrite <- app_assoc|exact Ht|exact Hn2|].
  destruct t as [|d t']; [now left|right]. destruct Hl as [Hl|Hl]; [discriminate|exact Hl].
Qed.

(* lexemes of a token line: identifiers and single parentheses *)
Definition lexeme_ok (t : bytes) : bool := tok_ok t || bytes_eqb t [40] || bytes_eqb t [41].
Definition tok_img (t : bytes) : gtok := if bytes_eqb t [40] then TLP else if bytes_eqb t [41] then TRP else TId t.

Lemma gm_lex_paren c r cur : (c = 40 \/ c = 41) ->
  gm_lex (c :: r) cur = emit cur (match gm_lex r [] with Some ts => Some ((if c =? 40 then TLP else TRP) :: ts) | None => None end).
Proof. intros [->| ->]; cbn [gm_lex]; destruct cur; reflexivity. Qed.

(* what may follow a token: end of line, white space, a comment, a parenthesis *)
Definition sep_led (r : bytes) : bool :=
  match r with
  | [] => true
  | c :: r' => gm_space c || ((c =? 47) && match r' with d :: _ => d =? 47 | [] => false end) || (c =? 40) || (c =? 41)
  end.

Lemma gm_lex_sep_led r cur : sep_led r = true -> gm_lex r cur = emit cur (gm_lex r []).
Proof.
  destruct r as [|c r]; intros H; [now rewrite gm_lex_nil|]. cbn [sep_led] in H.
  apply orb_true_iff in H as [H|H]; [apply orb_true_iff in H as [H|H]; [apply orb_true_iff in H as [H|H]|]|].
  - rewrite !gm_lex_space by exact H. reflexivity.
  - apply andb_true_iff in H as [H1 H2]. apply N.eqb_eq in H1. subst c. destruct r as [|d r]; [discriminate|].
    apply N.eqb_eq in H2. subst d. now rewrite !gm_lex_comment.
  - apply N.eqb_eq in H. subst c. rewrite !gm_lex_paren by (now left). reflexivity.
  - apply N.eqb_eq in H. subst c. rewrite !gm_lex_paren by (now right). reflexivity.
Qed.

Lemma tok_ok_parts t : tok_ok t = true -> t <> [] /\ forallb id_byte t = true /\ no_comment_start t = true /\ last t 0 <> 47.
Proof.
  unfold tok_ok. intros H. apply andb_true_iff in H as [H H4]. apply andb_true_iff in H as [H H3]. apply andb_true_iff in H as [H1 H2].
  apply negb_true_iff, N.eqb_neq in H4. split; [destruct t; discriminate|auto].
Qed.

Lemma tok_ok_not_paren t : tok_ok t = true -> bytes_eqb t [40] = false /\ bytes_eqb t [41] = false.
Proof.
  intros H. apply tok_ok_parts in H as (N & I & _). destruct t as [|c t]; [congruence|].
  cbn [forallb] in I. apply andb_true_iff in I as [I _]. destruct (id_byte_facts c I) as (_ & P1 & P2).
  split; apply bytes_eqb_neq; intros E; inversion E; congruence.
Qed.

Lemma gm_lex_one t rest : lexeme_ok t = true -> sep_led rest = true ->
  gm_lex (t ++ rest) [] = match gm_lex rest [] with Some ts => Some (tok_img t :: ts) | None => None end.
Proof.
  unfold lexeme_ok, tok_img. intros H Hs. destruct (tok_ok t) eqn:Ht.
  - destruct (tok_ok_not_paren t Ht) as [-> ->]. apply tok_ok_parts in Ht as (N & I & C & L).
    rewrite gm_lex_ident by auto. rewrite app_nil_r, gm_lex_sep_led by exact Hs.
    unfold emit. destruct (rev t) eqn:E; [apply (f_equal (@rev BinNums.N)) in E; rewrite rev_involutive in E; cbn in E; congruence|].
    rewrite <- E, rev_involutive. reflexivity.
  - cbn [orb] in H. destruct (bytes_eqb t [40]) eqn:E1.
    + apply bytes_eqb_eq in E1. subst t. cbn [app]. rewrite gm_lex_paren by (now left). reflexivity.
    + cbn [orb] in H. apply bytes_eqb_eq in H. subst t. cbn [app]. rewrite gm_lex_paren by (now right). reflexivity.
Qed.

Lemma token_line_lex : forall toks seps tail,
  toks <> [] -> forallb lexeme_ok toks = true ->
  forallb (fun s => negb (is_nil s) && forallb blank_byte s) seps = true ->
  sep_led tail = true -> gm_lex tail [] = Some [] ->
  gm_lex (join_tokens toks seps ++ tail) [] = Some (map tok_img toks).
Proof.
  induction toks as [|t toks IH]; intros seps tail Hne Hl Hs Ht1 Ht2; [congruence|].
  cbn [forallb] in Hl. apply andb_true_iff in Hl as [Hl1 Hl2].
  destruct toks as [|t2 toks'].
  - cbn [join_tokens map]. rewrite gm_lex_one by assumption. now rewrite Ht2.
  - change (join_tokens (t :: t2 :: toks') seps) with (t ++ (match seps with s :: _ => s | [] => [32] end) ++ join_tokens (t2 :: toks') (tl seps)).
    set (sep := match seps with s :: _ => s | [] => [32] end).
    assert (sep <> [] /\ forallb blank_byte sep = true) as [Sn Sb].
    { unfold sep. destruct seps as [|s0 seps']; [split; [discriminate|reflexivity]|].
      cbn [forallb] in Hs. apply andb_true_iff in Hs as [Hs _]. apply andb_true_iff in Hs as [A B]. split; [destruct s0; discriminate|exact B]. }
    rewrite <- !app_assoc. rewrite gm_lex_one; [|exact Hl1|].
    + rewrite gm_lex_blanks by exact Sb. rewrite (IH (tl seps) tail); [reflexivity|discriminate|exact Hl2| |exact Ht1|exact Ht2].
      destruct seps as [|s0 seps']; [reflexivity|]. cbn [forallb tl] in *. now apply andb_true_iff in Hs as [_ Hs].
    + destruct sep as [|c sp]; [congruence|]. cbn [forallb] in Sb. apply andb_true_iff in Sb as [Sb _].
      cbn [app sep_led]. now rewrite (blank_space c Sb).
Qed.

(* the tail of a rendered line: trailing blanks or a comment, then possibly the CR of a CRLF ending *)
Definition line_tail (y : tl_lay) (e : eol) : bytes :=
  match tl_comment y with Some (b, t) => b ++ SLASH2 ++ t | None => tl_trail y end ++ eol_unterminated e.

Lemma line_tail_ok y e : wf_tl_lay y = true -> sep_led (line_tail y e) = true /\ gm_lex (line_tail y e) [] = Some [].
Proof.
  unfold wf_tl_lay, line_tail. intros H. apply andb_true_iff in H as [H H4]. apply andb_true_iff in H as [H H3].
  assert (sep_led (eol_unterminated e) = true /\ gm_lex (eol_unterminated e) [] = Some []) as [C1 C2] by (destruct e; split; reflexivity).
  assert (forall ws r, all_blank ws = true -> sep_led r = true -> sep_led (ws ++ r) = true) as SL.
  { intros ws r Hw Hr. destruct ws as [|c ws]; [exact Hr|]. unfold all_blank in Hw. cbn [forallb] in Hw. apply andb_true_iff in Hw as [Hw _].
    cbn [app sep_led]. now rewrite (blank_space c Hw). }
  destruct (tl_comment y) as [[b t]|].
  - apply andb_true_iff in H4 as [H4 _]. apply andb_true_iff in H4 as [Hb _]. rewrite <- !app_assoc. split.
    + apply SL; [exact Hb|reflexivity].
    + unfold all_blank in Hb. rewrite gm_lex_blanks by exact Hb. unfold SLASH2. cbn [app]. apply gm_lex_comment.
  - split; [apply SL; assumption|]. unfold all_blank in H3. now rewrite gm_lex_blanks.
Qed.

Lemma rendered_line_lex toks y e : toks <> [] -> forallb lexeme_ok toks = true -> wf_tl_lay y = true ->
  gm_lex (raw_piece (render_token_line toks y) e) [] = Some (map tok_img toks).
Proof.
  intros Hne Hl Hy. destruct (line_tail_ok y e Hy) as [T1 T2].
  assert (raw_piece (render_token_line toks y) e = tl_lead y ++ join_tokens toks (tl_seps y) ++ line_tail y e) as ->
    by (unfold raw_piece, render_token_line, line_tail; now rewrite <- !app_assoc).
  unfold wf_tl_lay in Hy. apply andb_true_iff in Hy as [Hy _]. apply andb_true_iff in Hy as [Hy _]. apply andb_true_iff in Hy as [Y1 Y2].
  unfold all_blank in Y1. rewrite gm_lex_blanks by exact Y1. now apply token_line_lex.
Qed.

Lemma noise_line_lex n e : wf_gm_noise n = true -> gm_lex (raw_piece (gm_noise_content n) e) [] = Some [].
Proof.
  destruct n as [ws|lead text]; cbn [wf_gm_noise gm_noise_content]; intros H; unfold raw_piece.
  - unfold all_blank in H. rewrite gm_lex_blanks by exact H. destruct e; reflexivity.
  - apply andb_true_iff in H as [H _]. apply andb_true_iff in H as [H _]. unfold all_blank in H.
    rewrite <- !app_assoc, gm_lex_blanks by exact H. unfold SLASH2. cbn [app]. apply gm_lex_comment.
Qed.

(* ------------------------------------------------------------------ one directive *)
Definition set_go v a := {| ga_req := ga_req a; ga_rep := ga_rep a; ga_go := Some v; ga_tc := ga_tc a; ga_mod := ga_mod a; ga_bad := ga_bad a |}.
Definition set_tc v a := {| ga_req := ga_req a; ga_rep := ga_rep a; ga_go := ga_go a; ga_tc := Some v; ga_mod := ga_mod a; ga_bad := ga_bad a |}.
Definition set_mod a := {| ga_req := ga_req a; ga_rep := ga_rep a; ga_go := ga_go a; ga_tc := ga_tc a; ga_mod := true; ga_bad := ga_bad a |}.
Definition add_req q a := {| ga_req := q :: ga_req a; ga_rep := ga_rep a; ga_go := ga_go a; ga_tc := ga_tc a; ga_mod := ga_mod a; ga_bad := ga_bad a |}.
Definition add_rep r a := {| ga_req := ga_req a; ga_rep := r :: ga_rep a; ga_go := ga_go a; ga_tc := ga_tc a; ga_mod := ga_mod a; ga_bad := ga_bad a |}.

Definition apply_dir (d : gm_dir) (a : gm_acc) : gm_acc :=
  match d with
  | DGo v => match ga_go a with None => set_go v a | Some _ => ga_err a end
  | DToolchain v => match ga_tc a with None => set_tc v a | Some _ => ga_err a end
  | DModule _ => if ga_mod a then ga_err a else set_mod a
  | DRequire p v => add_req (p, 118 :: v) a
  | DReplace r => add_rep (conv_rr r) a
  | DIgnored _ _ => a
  end.

Lemma parse_replace_args_ok r : bytes_eqb (rr_old r) s_arrow = false -> bytes_eqb (rr_new r) s_arrow = false ->
  parse_replace_args (dir_args (DReplace r)) = Some (conv_rr r).
Proof.
  intros H1 H2. unfold conv_rr. cbn [dir_args]. destruct (rr_oldv r) as [|o ov] eqn:Eo, (rr_newv r) as [|n nv] eqn:En;
    cbn [opt_v app parse_replace_args vpre].
  - rewrite bytes_eqb_refl. reflexivity.
  - rewrite H2. rewrite bytes_eqb_refl. reflexivity.
  - rewrite bytes_eqb_refl. reflexivity.
  - rewrite bytes_eqb_refl. reflexivity.
Qed.

Lemma wf_gm_dir_parts orc d : wf_gm_dir orc d = true ->
  forallb tok_ok (dir_args d) = true /\ olookup (dir_verb d :: dir_args d) orc = Some true /\
  match d with
  | DIgnored verb _ => ignored_verb verb = true
  | DRequire _ v => v <> []
  | DReplace r => bytes_eqb (rr_old r) s_arrow = false /\ bytes_eqb (rr_new r) s_arrow = false
  | _ => True
  end.
Proof.
  unfold wf_gm_dir. intros H. apply andb_true_iff in H as [H H3]. apply andb_true_iff in H as [H1 H2].
  split; [exact H1|]. split; [destruct (olookup _ orc) as [[|]|]; [reflexivity|discriminate|discriminate]|].
  destruct d; auto.
  - destruct v; [discriminate|discriminate].
  - apply andb_true_iff in H3 as [A B]. apply negb_true_iff in A, B. auto.
Qed.

Lemma gm_add_dir orc d a : wf_gm_dir orc d = true -> gm_add orc (dir_verb d) (dir_args d) a = Some (apply_dir d a).
Proof.
  intros H. apply wf_gm_dir_parts in H as (_ & O & X). unfold gm_add. rewrite O.
  destruct d as [p|v|v|p v|r|verb args]; cbn [dir_verb dir_args apply_dir].
  - cbn. destruct (ga_mod a); reflexivity.
  - cbn. destruct (ga_go a); reflexivity.
  - cbn. destruct (ga_tc a); reflexivity.
  - cbn. reflexivity.
  - destruct X as [X1 X2]. change (bytes_eqb v_replace v_go) with false. change (bytes_eqb v_replace v_toolchain) with false.
    change (bytes_eqb v_replace v_module) with false. change (bytes_eqb v_replace v_require) with false.
    change (bytes_eqb v_replace v_replace) with true. cbv iota.
    change ([rr_old r] ++ opt_v (rr_oldv r) ++ [s_arrow; rr_new r] ++ opt_v (rr_newv r)) with (dir_args (DReplace r)).
    now rewrite parse_replace_args_ok.
  - unfold ignored_verb in X. cbn [existsb] in X.
    repeat (apply orb_true_iff in X as [X|X]; [apply bytes_eqb_eq in X; subst verb; reflexivity|]). discriminate.
Qed.

(* ------------------------------------------------------------------ verbs and tokens as lexemes *)
Lemma all_ids_map l : all_ids (map TId l) = Some l.
Proof. induction l as [|x l IH]; [reflexivity|]. cbn [map all_ids]. now rewrite IH. Qed.

Lemma tok_img_ok t : tok_ok t = true -> tok_img t = TId t.
Proof. intros H. unfold tok_img. now destruct (tok_ok_not_paren t H) as [-> ->]. Qed.

Lemma map_tok_img l : forallb tok_ok l = true -> map tok_img l = map TId l.
Proof.
  induction l as [|t l IH]; intros H; [reflexivity|]. cbn [forallb] in H. apply andb_true_iff in H as [H1 H2].
  cbn [map]. now rewrite tok_img_ok, IH.
Qed.

Lemma toks_lexemes l : forallb tok_ok l = true -> forallb lexeme_ok l = true.
Proof.
  intros H. apply forallb_forall. intros t Ht. rewrite forallb_forall in H. unfold lexeme_ok. now rewrite (H t Ht).
Qed.

Lemma dir_verb_ok orc d : wf_gm_dir orc d = true -> tok_ok (dir_verb d) = true.
Proof.
  intros H. apply wf_gm_dir_parts in H as (_ & _ & X). destruct d; try reflexivity.
  unfold ignored_verb in X. cbn [existsb] in X. cbn [dir_verb].
  repeat (apply orb_true_iff in X as [X|X]; [apply bytes_eqb_eq in X; subst verb; reflexivity|]). discriminate.
Qed.

Lemma block_verb_ok verb : block_verb verb = true -> tok_ok verb = true.
Proof.
  unfold block_verb. cbn [existsb]. intros X.
  repeat (apply orb_true_iff in X as [X|X]; [apply bytes_eqb_eq in X; subst verb; reflexivity|]). discriminate.
Qed.

(* ------------------------------------------------------------------ statements *)
Definition rawl (le : bytes * eol) : bytes := raw_piece (fst le) (snd le).

Lemma stmts_noise orc n e r blk a : wf_gm_noise n = true ->
  gm_stmts orc (rawl (gm_noise_content n, e) :: r) blk a = gm_stmts orc r blk a.
Proof. intros H. cbn [gm_stmts]. unfold rawl. cbn [fst snd]. now rewrite noise_line_lex. Qed.

Lemma stmts_line orc d y r a : wf_gm_dir orc d = true -> wf_tl_lay y = true ->
  gm_stmts orc (rawl (render_token_line (dir_verb d :: dir_args d) y, tl_eol y) :: r) None a = gm_stmts orc r None (apply_dir d a).
Proof.
  intros Hd Hy. pose proof (dir_verb_ok orc d Hd) as Hv. pose proof Hd as Hd'. apply wf_gm_dir_parts in Hd' as (Ha & _ & _).
  assert (forallb tok_ok (dir_verb d :: dir_args d) = true) as Hall by (cbn [forallb]; now rewrite Hv).
  cbn [gm_stmts]. unfold rawl. cbn [fst snd].
  rewrite rendered_line_lex; [|discriminate|now apply toks_lexemes|exact Hy].
  rewrite map_tok_img by exact Hall. cbn [map all_ids]. rewrite all_ids_map. now rewrite gm_add_dir.
Qed.

Definition entry_dirs (b : gm_bentry) : list gm_dir := match b with BDir d _ => [d] | BNoise _ _ => [] end.
Definition wf_entry orc verb (b : gm_bentry) : bool :=
  match b with
  | BNoise n _ => wf_gm_noise n
  | BDir d y => wf_gm_dir orc d && wf_tl_lay y && bytes_eqb (dir_verb d) verb && negb (is_nil (dir_args d))
  end.

Lemma stmts_entries orc verb : block_verb verb = true -> forall entries r a,
  forallb (wf_entry orc verb) entries = true ->
  gm_stmts orc (map rawl (map bentry_line entries) ++ r) (Some verb) a =
  gm_stmts orc r (Some verb) (fold_left (fun a d => apply_dir d a) (flat_map entry_dirs entries) a).
Proof.
  intros Hb. induction entries as [|b entries IH]; intros r a H; [reflexivity|].
  cbn [forallb] in H. apply andb_true_iff in H as [H1 H2]. cbn [map app flat_map].
  destruct b as [n e|d y]; cbn [wf_entry bentry_line entry_dirs] in *.
  - rewrite stmts_noise by exact H1. cbn [app]. now apply IH.
  - apply andb_true_iff in H1 as [H1 Hne]. apply andb_true_iff in H1 as [H1 Hv]. apply andb_true_iff in H1 as [Hd Hy].
    apply bytes_eqb_eq in Hv. apply negb_true_iff in Hne.
    pose proof Hd as Hd'. apply wf_gm_dir_parts in Hd' as (Ha & _ & _).
    cbn [gm_stmts]. unfold rawl at 1. cbn [fst snd].
    rewrite rendered_line_lex; [|destruct (dir_args d); [discriminate|discriminate]|now apply toks_lexemes|exact Hy].
    rewrite map_tok_img by exact Ha.
    destruct (dir_args d) as [|a0 args] eqn:Ea; [discriminate|]. cbn [map]. cbv iota beta.
    change (TId a0 :: map TId args) with (map TId (a0 :: args)). rewrite all_ids_map. rewrite Hb.
    rewrite <- Ea, <- Hv, gm_add_dir by exact Hd. rewrite Hv. cbn [app fold_left]. now apply IH.
Qed.

Lemma wf_gm_item_block orc verb opn entries cls : wf_gm_item orc (GBlock verb opn entries cls) = true ->
  block_verb verb = true /\ wf_tl_lay opn = true /\ wf_tl_lay cls = true /\ forallb (wf_entry orc verb) entries = true.
Proof.
  cbn [wf_gm_item]. intros H. apply andb_true_iff in H as [H H4]. apply andb_true_iff in H as [H H3]. apply andb_true_iff in H as [H1 H2].
  repeat split; auto.
Qed.

Lemma stmts_item orc it r a : wf_gm_item orc it = true ->
  gm_stmts orc (map rawl (item_lines it) ++ r) None a = gm_stmts orc r None (fold_left (fun a d => apply_dir d a) (item_dirs it) a).
Proof.
  intros H. destruct it as [n e|d y|verb opn entries cls].
  - cbn [wf_gm_item item_lines map app item_dirs fold_left] in *. now apply stmts_noise.
  - cbn [wf_gm_item] in H. apply andb_true_iff in H as [Hd Hy]. cbn [item_lines map app item_dirs fold_left]. now apply stmts_line.
  - apply wf_gm_item_block in H as (Hb & Ho & Hc & He). pose proof (block_verb_ok verb Hb) as Hv.
    cbn [item_lines map app]. cbn [gm_stmts]. unfold rawl at 1. cbn [fst snd].
    rewrite rendered_line_lex; [|discriminate| |exact Ho].
    2:{ cbn [forallb]. unfold lexeme_ok at 1. rewrite Hv. reflexivity. }
    cbn [map]. rewrite tok_img_ok by exact Hv. change (tok_img [40]) with TLP. cbv iota beta. cbn [all_ids]. rewrite Hb.
    rewrite map_app, <- app_assoc, (stmts_entries orc verb Hb) by exact He.
    cbn [map app gm_stmts]. unfold rawl. cbn [fst snd].
    rewrite rendered_line_lex; [|discriminate|reflexivity|exact Hc]. cbn [map]. change (tok_img [41]) with TRP. cbv iota beta.
    cbn [item_dirs]. reflexivity.
Qed.

Lemma stmts_items orc : forall items a, forallb (wf_gm_item orc) items = true ->
  gm_stmts orc (map rawl (flat_map item_lines items)) None a = Ok (fold_left (fun a d => apply_dir d a) (flat_map item_dirs items) a).
Proof.
  induction items as [|it items IH]; intros a H; [reflexivity|].
  cbn [forallb] in H. apply andb_true_iff in H as [H1 H2]. cbn [flat_map]. rewrite map_app, stmts_item by exact H1.
  rewrite fold_left_app. now apply IH.
Qed.

(* ------------------------------------------------------------------ what the accumulated directives amount to *)
Definition reqs_of (ds : list gm_dir) : list pkg := flat_map (fun d => match d with DRequire p v => [(p, v)] | _ => [] end) ds.
Definition reps_of (ds : list gm_dir) : list gomod_rrec := flat_map (fun d => match d with DReplace r => [r] | _ => [] end) ds.
Definition gos_of (ds : list gm_dir) : list bytes := flat_map (fun d => match d with DGo v => [v] | _ => [] end) ds.
Definition tcs_of (ds : list gm_dir) : list bytes := flat_map (fun d => match d with DToolchain v => [v] | _ => [] end) ds.
Definition mods_of (ds : list gm_dir) : list bytes := flat_map (fun d => match d with DModule p => [p] | _ => [] end) ds.
Definition hd_opt {A} (l : list A) : option A := match l with x :: _ => Some x | [] => None end.
Definition many {A} (l : list A) : bool := match l with _ :: _ :: _ => true | _ => false end.

Definition acc_of (ds : list gm_dir) : gm_acc := fold_left (fun a d => apply_dir d a) ds ga0.

Lemma hd_opt_snoc {A} (l : list A) x : hd_opt (l ++ [x]) = match l with [] => Some x | y :: _ => Some y end.
Proof. destruct l; reflexivity. Qed.
Lemma many_snoc {A} (l : list A) x : many (l ++ [x]) = negb (is_nil l).
Proof. destruct l as [|a [|b l]]; reflexivity. Qed.

Lemma acc_of_spec ds :
  ga_req (acc_of ds) = rev (map (fun p => (fst p, 118 :: snd p)) (reqs_of ds)) /\
  ga_rep (acc_of ds) = rev (map conv_rr (reps_of ds)) /\
  ga_go (acc_of ds) = hd_opt (gos_of ds) /\ ga_tc (acc_of ds) = hd_opt (tcs_of ds) /\
  ga_mod (acc_of ds) = negb (is_nil (mods_of ds)) /\
  ga_bad (acc_of ds) = many (gos_of ds) || many (tcs_of ds) || many (mods_of ds).
Proof.
  induction ds as [|d ds IH] using rev_ind; [cbn; repeat split; reflexivity|].
  destruct IH as (I1 & I2 & I3 & I4 & I5 & I6).
  unfold acc_of in *. rewrite fold_left_app. cbn [fold_left].
  unfold reqs_of, reps_of, gos_of, tcs_of, mods_of in *. rewrite !flat_map_app. cbn [flat_map]. rewrite !app_nil_r.
  set (a := fold_left (fun a d => apply_dir d a) ds ga0) in *.
  destruct d as [p|v|v|p v|r|verb args]; cbn [apply_dir].
  - (* module *)
    rewrite !app_nil_r. rewrite many_snoc. rewrite I5.
    destruct (flat_map (fun d => match d with DModule p0 => [p0] | _ => [] end) ds) as [|m ms] eqn:Em; cbn [is_nil negb].
    + cbn [set_mod ga_req ga_rep ga_go ga_tc ga_mod ga_bad app is_nil negb]. rewrite I1, I2, I3, I4, I6.
      repeat split; rewrite ?orb_false_r; reflexivity.
    + cbn [ga_err ga_req ga_rep ga_go ga_tc ga_mod ga_bad]. rewrite I1, I2, I3, I4, I5.
      repeat split; rewrite ?orb_true_r; try reflexivity.
  - (* go *)
    rewrite !app_nil_r. rewrite many_snoc, hd_opt_snoc. rewrite I3.
    destruct (flat_map (fun d => match d with DGo v0 => [v0] | _ => [] end) ds) as [|g gs] eqn:Eg; cbn [hd_opt is_nil negb].
    + cbn [set_go ga_req ga_rep ga_go ga_tc ga_mod ga_bad]. rewrite I1, I2, I4, I5, I6. repeat split; reflexivity.
    + cbn [ga_err ga_req ga_rep ga_go ga_tc ga_mod ga_bad]. rewrite I1, I2, I3, I4, I5. repeat split; reflexivity.
  - (* toolchain *)
    rewrite !app_nil_r. rewrite many_snoc, hd_opt_snoc. rewrite I4.
    destruct (flat_map (fun d => match d with DToolchain v0 => [v0] | _ => [] end) ds) as [|g gs] eqn:Eg; cbn [hd_opt is_nil negb].
    + cbn [set_tc ga_req ga_rep ga_go ga_tc ga_mod ga_bad]. rewrite I1, I2, I3, I5, I6. repeat split; rewrite ?orb_false_r; reflexivity.
    + cbn [ga_err ga_req ga_rep ga_go ga_tc ga_mod ga_bad]. rewrite I1, I2, I3, I4, I5. repeat split; rewrite ?orb_true_r; reflexivity.
  - (* require *)
    rewrite !app_nil_r. cbn [add_req ga_req ga_rep ga_go ga_tc ga_mod ga_bad]. rewrite I1, I2, I3, I4, I5, I6.
    repeat split; try reflexivity. rewrite map_app, rev_app_distr. reflexivity.
  - (* replace *)
    rewrite !app_nil_r. cbn [add_rep ga_req ga_rep ga_go ga_tc ga_mod ga_bad]. rewrite I1, I2, I3, I4, I5, I6.
    repeat split; try reflexivity. rewrite map_app, rev_app_distr. reflexivity.
  - rewrite !app_nil_r. repeat split; assumption.
Qed.

Lemma count_le1_not_many {A} (l : list A) : Nat.leb (length l) 1 = true -> many l = false.
Proof. destruct l as [|a [|b l]]; [reflexivity|reflexivity|discriminate]. Qed.

Lemma length_filter_flat (f : gm_dir -> bool) (g : gm_dir -> list bytes) ds :
  (forall d, length (g d) = if f d then 1%nat else 0%nat) -> length (filter f ds) = length (flat_map g ds).
Proof.
  intros H. induction ds as [|d ds IH]; [reflexivity|]. cbn [filter flat_map]. rewrite app_length, H.
  destruct (f d); cbn [length]; now rewrite IH.
Qed.

Lemma acc_struct ds :
  Nat.leb (length (gos_of ds)) 1 = true -> Nat.leb (length (tcs_of ds)) 1 = true -> Nat.leb (length (mods_of ds)) 1 = true ->
  ga_bad (acc_of ds) = false /\ gm_struct_of_acc (acc_of ds) = struct_of_gomod (recs_of_dirs ds).
Proof.
  intros G T M. destruct (acc_of_spec ds) as (I1 & I2 & I3 & I4 & _ & I6). split.
  - rewrite I6, (count_le1_not_many _ G), (count_le1_not_many _ T), (count_le1_not_many _ M). reflexivity.
  - unfold gm_struct_of_acc, struct_of_gomod, recs_of_dirs. cbn [gq_requires gq_replaces gq_go gq_toolchain].
    rewrite I1, I2, I3, I4, !rev_involutive. fold (reqs_of ds) (reps_of ds) (gos_of ds) (tcs_of ds).
    f_equal; [destruct (gos_of ds); reflexivity|destruct (tcs_of ds); reflexivity].
Qed.

(* ------------------------------------------------------------------ the round trip from bytes *)
Lemma gomod_bytes_roundtrip_lemma orc d :
  wf_gm_doc orc d = true -> wf_gomod (recs_of_dirs (doc_dirs d)) = true ->
  parse_gomod_bytes orc (render_gomod_doc d) = Ok (expected_gomod_doc d).
Proof.
  intros Hd Hs. unfold wf_gm_doc in Hd.
  apply andb_true_iff in Hd as [Hd L2]. apply andb_true_iff in Hd as [Hd L1]. apply andb_true_iff in Hd as [Hd C3].
  apply andb_true_iff in Hd as [Hd C2]. apply andb_true_iff in Hd as [Hi C1].
  unfold parse_gomod_bytes, render_gomod_doc. rewrite lines_raw_render by assumption.
  change (map (fun le => raw_piece (fst le) (snd le)) (flat_map item_lines (gd_items d))) with (map rawl (flat_map item_lines (gd_items d))).
  rewrite stmts_items by exact Hi. fold (doc_dirs d). fold (acc_of (doc_dirs d)).
  unfold count_dirs in C1, C2, C3.
  destruct (acc_struct (doc_dirs d)) as [B S].
  - unfold gos_of. rewrite <- (length_filter_flat (fun x => match x with DGo _ => true | _ => false end)); [exact C1|]. intros x. destruct x; reflexivity.
  - unfold tcs_of. rewrite <- (length_filter_flat (fun x => match x with DToolchain _ => true | _ => false end)); [exact C2|]. intros x. destruct x; reflexivity.
  - unfold mods_of. rewrite <- (length_filter_flat (fun x => match x with DModule _ => true | _ => false end)); [exact C3|]. intros x. destruct x; reflexivity.
  - rewrite B, S. unfold expected_gomod_doc. now apply gomod_struct_exact_lemma.
Qed.

(* totality: the byte-level go.mod model never answers Panic (out-of-grammar input is the "not modelled" error) *)
Lemma gm_stmts_total orc : forall ls blk a, gm_stmts orc ls blk a <> Panic.
Proof.
  induction ls as [|l r IH]; intros blk a; [destruct blk; discriminate|].
  cbn [gm_stmts]. destruct (gm_lex l []) as [[|t ts]|]; [apply IH| |discriminate].
  destruct blk as [verb|].
  - assert (match all_ids (t :: ts) with
            | Some args => if block_verb verb then match gm_add orc verb args a with Some a' => gm_stmts orc r (Some verb) a' | None => Err EOther end
                           else gm_stmts orc r (Some verb) a
            | None => Err EOther end <> Panic) as Inner.
    { destruct (all_ids (t :: ts)) as [args|]; [|discriminate].
      destruct (block_verb verb); [destruct (gm_add orc verb args a); [apply IH|discriminate]|apply IH]. }
    destruct t as [s| |]; [exact Inner|exact Inner|]. destruct ts as [|t2 ts2]; [apply IH|exact Inner].
  - destruct (all_ids (t :: ts)) as [[|verb args]|].
    + apply IH.
    + destruct (gm_add orc verb args a); [apply IH|discriminate].
    + destruct t as [s| |]; try discriminate. destruct ts as [|t2 ts2]; [discriminate|].
      destruct t2; try discriminate. destruct ts2; [|discriminate]. destruct (block_verb s); apply IH.
Qed.

Lemma gomod_bytes_total_lemma orc s : parse_gomod_bytes orc s <> Panic.
Proof.
  unfold parse_gomod_bytes. pose proof (gm_stmts_total orc (lines_raw s) None ga0) as T.
  destruct (gm_stmts orc (lines_raw s) None ga0) as [a|e|]; [|discriminate|congruence].
  destruct (ga_bad a); discriminate.
Qed.

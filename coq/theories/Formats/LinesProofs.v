(* Formats/LinesProofs.v - facts about the line scanner model and the line renderer. *)
From Coq Require Import List NArith Bool Lia.
From Scalibr Require Import Formats.Lines.
Import ListNotations.
Open Scope N_scope.

Lemma list_eqb_eq {A} (eq : A -> A -> bool) :
  (forall x y, eq x y = true <-> x = y) -> forall a b, list_eqb eq a b = true <-> a = b.
Proof.
  intros H a. induction a as [|x a IH]; intros [|y b]; cbn; split; intros E; try easy.
  - apply andb_true_iff in E as [E1 E2]. apply H in E1. apply IH in E2. now subst.
  - inversion E; subst. apply andb_true_iff. split; [now apply H | now apply IH].
Qed.

Lemma bytes_eqb_eq a b : bytes_eqb a b = true <-> a = b.
Proof. apply list_eqb_eq. intros x y. apply N.eqb_eq. Qed.

Lemma bytes_eqb_refl a : bytes_eqb a a = true.
Proof. now apply bytes_eqb_eq. Qed.

Lemma bytes_eqb_neq a b : bytes_eqb a b = false <-> a <> b.
Proof.
  split.
  - intros E H. apply bytes_eqb_eq in H. congruence.
  - intros H. destruct (bytes_eqb a b) eqn:E; [|reflexivity]. apply bytes_eqb_eq in E. contradiction.
Qed.

Lemma pkg_eqb_eq p q : pkg_eqb p q = true <-> p = q.
Proof.
  destruct p as [a b], q as [c d]. unfold pkg_eqb. cbn. rewrite andb_true_iff, !bytes_eqb_eq.
  split; [intros [-> ->]; reflexivity | intros E; inversion E; auto].
Qed.

Lemma len_N_app {A} (a b : list A) : len_N (a ++ b) = len_N a + len_N b.
Proof. induction a as [|x a IH]; cbn [len_N app]; [reflexivity | rewrite IH; lia]. Qed.

Lemma no_nl_app a b : no_nl (a ++ b) = no_nl a && no_nl b.
Proof. unfold no_nl. apply forallb_app. Qed.

(* ------------------------------------------------------------------ lines_raw *)
Lemma lines_raw_line l rest :
  no_nl l = true -> lines_raw (l ++ NL :: rest) = l :: lines_raw rest.
Proof.
  induction l as [|c l IH]; intros H.
  - cbn. reflexivity.
  - cbn [no_nl forallb] in H. apply andb_true_iff in H as [Hc Hl].
    cbn [app lines_raw]. apply negb_true_iff in Hc. rewrite Hc.
    rewrite (IH Hl). reflexivity.
Qed.

Lemma lines_raw_last l : no_nl l = true -> l <> [] -> lines_raw l = [l].
Proof.
  induction l as [|c l IH]; intros H Hne; [congruence|].
  cbn [no_nl forallb] in H. apply andb_true_iff in H as [Hc Hl].
  cbn [lines_raw]. apply negb_true_iff in Hc. rewrite Hc.
  destruct l as [|d l]; [reflexivity|].
  rewrite (IH Hl); [reflexivity | discriminate].
Qed.

(* ------------------------------------------------------------------ drop_cr *)
Lemma drop_cr_id l : no_trailing_cr l = true -> drop_cr l = l.
Proof.
  unfold no_trailing_cr. induction l as [|c l IH]; intros H; [reflexivity|].
  destruct l as [|d l].
  - cbn in H |- *. apply negb_true_iff in H. rewrite H. reflexivity.
  - change (drop_cr (c :: d :: l)) with (c :: drop_cr (d :: l)).
    rewrite IH; [reflexivity|]. exact H.
Qed.

Lemma drop_cr_app_cr l : drop_cr (l ++ [CR]) = l.
Proof.
  induction l as [|c l IH]; [reflexivity|].
  cbn [app]. destruct (l ++ [CR]) as [|d m] eqn:E.
  - destruct l; discriminate.
  - change (drop_cr (c :: d :: m)) with (c :: drop_cr (d :: m)). rewrite IH. reflexivity.
Qed.

(* ------------------------------------------------------------------ render_lines / scan_lines *)
Lemma scan_tokens_cons l r :
  short l = true -> scan_tokens (l :: r) = (drop_cr l :: fst (scan_tokens r), snd (scan_tokens r)).
Proof. intros H. cbn [scan_tokens]. rewrite H. destruct (scan_tokens r). reflexivity. Qed.

Lemma line_ok_parts c e :
  line_ok (c, e) = true ->
  no_nl c = true /\ no_trailing_cr c = true /\
  (len_N c + (match e with LF => 0 | CRLF => 1 end) < max_token).
Proof.
  unfold line_ok. cbn [fst snd]. intros H.
  apply andb_true_iff in H as [H H3]. apply andb_true_iff in H as [H1 H2].
  apply N.ltb_lt in H3. auto.
Qed.

(* the raw piece of a rendered line, and what the scanner makes of it *)
Definition raw_piece (c : bytes) (e : eol) : bytes := c ++ eol_unterminated e.

Lemma raw_piece_facts c e :
  line_ok (c, e) = true ->
  no_nl (raw_piece c e) = true /\ short (raw_piece c e) = true /\ drop_cr (raw_piece c e) = c.
Proof.
  intros H. apply line_ok_parts in H as (H1 & H2 & H3). unfold raw_piece, short.
  destruct e; cbn [eol_unterminated].
  - rewrite app_nil_r. repeat split; auto. apply N.ltb_lt. lia. now apply drop_cr_id.
  - rewrite no_nl_app, H1, len_N_app. cbn [len_N]. split; [reflexivity|]. split.
    + apply N.ltb_lt. lia.
    + apply drop_cr_app_cr.
Qed.

Lemma render_terminated c e rest : c ++ eol_bytes e ++ rest = raw_piece c e ++ NL :: rest.
Proof. unfold raw_piece. destruct e; cbn; rewrite <- ?app_assoc; reflexivity. Qed.

Theorem scan_render : forall ls fnl,
  forallb line_ok ls = true -> last_line_ok ls fnl = true ->
  scan_lines (render_lines ls fnl) = (map fst ls, false).
Proof.
  unfold scan_lines. induction ls as [|[c e] r IH]; intros fnl Hok Hlast; [reflexivity|].
  cbn [forallb] in Hok. apply andb_true_iff in Hok as [Hc Hr].
  destruct (raw_piece_facts c e Hc) as (P1 & P2 & P3).
  destruct r as [|ce2 r'].
  - cbn [render_lines map fst]. destruct fnl.
    + replace (c ++ eol_bytes e) with (c ++ eol_bytes e ++ []) by now rewrite app_nil_r.
      rewrite render_terminated, (lines_raw_line _ _ P1). cbn [lines_raw].
      rewrite scan_tokens_cons by exact P2. cbn. rewrite P3. reflexivity.
    + fold (raw_piece c e). cbn [last_line_ok] in Hlast. cbn [orb] in Hlast.
      assert (raw_piece c e <> []) as Hne.
      { unfold raw_piece. destruct e; cbn [eol_unterminated].
        - rewrite app_nil_r. rewrite orb_false_r in Hlast. destruct c; [discriminate|discriminate].
        - destruct c; discriminate. }
      rewrite (lines_raw_last _ P1 Hne). rewrite scan_tokens_cons by exact P2. cbn. rewrite P3. reflexivity.
  - change (render_lines ((c, e) :: ce2 :: r') fnl) with (c ++ eol_bytes e ++ render_lines (ce2 :: r') fnl).
    rewrite render_terminated, (lines_raw_line _ _ P1).
    rewrite scan_tokens_cons by exact P2.
    assert (last_line_ok (ce2 :: r') fnl = true) as Hl2 by exact Hlast.
    rewrite (IH fnl Hr Hl2). cbn [fst snd map]. rewrite P3. reflexivity.
Qed.

(* ------------------------------------------------------------------ cut *)
Lemma cut_app sep k v :
  contains_byte sep k = false -> cut sep (k ++ sep :: v) = Some (k, v).
Proof.
  induction k as [|c k IH]; intros H.
  - cbn. rewrite N.eqb_refl. reflexivity.
  - cbn [contains_byte] in H. apply orb_false_iff in H as [Hc Hk].
    cbn [app cut]. rewrite Hc, (IH Hk). reflexivity.
Qed.

(* ------------------------------------------------------------------ aget *)
Lemma aget_unique k v m :
  In (k, v) m -> (forall v', In (k, v') m -> v' = v) -> aget k m = v.
Proof.
  induction m as [|[k' w] m IH]; intros Hin Hu; [contradiction|].
  cbn [aget]. destruct (bytes_eqb k k') eqn:E.
  - apply bytes_eqb_eq in E. subst k'. apply Hu. now left.
  - apply bytes_eqb_neq in E. destruct Hin as [Hin|Hin]; [inversion Hin; congruence|].
    apply IH; [exact Hin|]. intros v' H'. apply Hu. now right.
Qed.

Lemma in_insert_at {A} n (x y : A) l : In y (insert_at n x l) <-> y = x \/ In y l.
Proof.
  unfold insert_at. rewrite in_app_iff. cbn [In].
  rewrite <- (firstn_skipn n l) at 3. rewrite in_app_iff. intuition congruence.
Qed.

Lemma last_app_cons {A} (a : list A) x b d : last (a ++ x :: b) d = last (x :: b) d.
Proof.
  induction a as [|y a IH]; [reflexivity|].
  cbn [app]. destruct (a ++ x :: b) eqn:E; [destruct a; discriminate|].
  change (last (y :: a0 :: l) d) with (last (a0 :: l) d). exact IH.
Qed.

(* ------------------------------------------------------------------ strings.TrimSpace on ASCII text *)
Lemma trim_left_plain c r :
  c < 128 -> trim_left (c :: r) = if ascii_space c then trim_left r else c :: r.
Proof.
  intros H. cbn [trim_left]. destruct (ascii_space c); [reflexivity|].
  assert (c =? 194 = false) as E1 by (apply N.eqb_neq; lia).
  assert (c =? 225 = false) as E2 by (apply N.eqb_neq; lia).
  assert (c =? 226 = false) as E3 by (apply N.eqb_neq; lia).
  assert (c =? 227 = false) as E4 by (apply N.eqb_neq; lia).
  destruct r as [|d r2]; [reflexivity|]. unfold uni_space2. rewrite E1. cbn [andb].
  destruct r2 as [|e r3]; [reflexivity|]. unfold uni_space3. rewrite E2, E3, E4. reflexivity.
Qed.

Lemma graphic_facts c : graphic c = true -> c < 128 /\ ascii_space c = false /\ c <> NL /\ c <> CR /\ text_byte c = true.
Proof.
  unfold graphic, ascii_space, text_byte, NL, CR. intros H. apply andb_true_iff in H as [H1 H2].
  apply N.leb_le in H1, H2.
  repeat split; try lia.
  - repeat (apply orb_false_iff; split); apply N.eqb_neq; lia.
  - apply orb_true_iff. left. apply andb_true_iff. split; apply N.leb_le; lia.
Qed.

Lemma blank_facts c : blank_byte c = true -> c < 128 /\ ascii_space c = true /\ text_byte c = true.
Proof.
  unfold blank_byte, ascii_space, text_byte. intros H. apply orb_true_iff in H as [H|H]; apply N.eqb_eq in H; subst; auto.
  - repeat split; reflexivity.
  - repeat split; reflexivity.
Qed.

Lemma text_facts c : text_byte c = true -> c < 128 /\ c <> NL /\ c <> CR.
Proof.
  unfold text_byte, NL, CR. intros H. apply orb_true_iff in H as [H|H].
  - apply andb_true_iff in H as [H1 H2]. apply N.leb_le in H1, H2. lia.
  - apply N.eqb_eq in H. lia.
Qed.

Lemma trim_left_blank_app ws s : forallb blank_byte ws = true -> trim_left (ws ++ s) = trim_left s.
Proof.
  induction ws as [|c ws IH]; intros H; [reflexivity|].
  cbn [forallb] in H. apply andb_true_iff in H as [Hc Hw]. destruct (blank_facts c Hc) as (L & S & _).
  cbn [app]. rewrite trim_left_plain by exact L. rewrite S. now apply IH.
Qed.

Lemma trim_left_graphic c r : graphic c = true -> trim_left (c :: r) = c :: r.
Proof. intros H. destruct (graphic_facts c H) as (L & S & _). rewrite trim_left_plain by exact L. now rewrite S. Qed.

Lemma trim_right_graphic c r : graphic c = true -> trim_right (c :: r) = c :: trim_right r.
Proof. intros H. cbn [trim_right]. unfold all_space. rewrite trim_left_graphic by exact H. reflexivity. Qed.

Lemma trim_right_blank ws : forallb blank_byte ws = true -> trim_right ws = [].
Proof.
  intros H. destruct ws as [|c ws]; [reflexivity|]. cbn [trim_right]. unfold all_space.
  rewrite <- (app_nil_r (c :: ws)), trim_left_blank_app by exact H. reflexivity.
Qed.

Lemma trim_right_graphic_app core ws :
  forallb graphic core = true -> forallb blank_byte ws = true -> trim_right (core ++ ws) = core.
Proof.
  induction core as [|c core IH]; intros Hc Hw; [now apply trim_right_blank|].
  cbn [forallb] in Hc. apply andb_true_iff in Hc as [H1 H2].
  cbn [app]. rewrite trim_right_graphic by exact H1. now rewrite IH.
Qed.

(* lead blanks, a graphic core, trailing blanks *)
Lemma trim_space_core lead core trail :
  forallb blank_byte lead = true -> forallb graphic core = true -> forallb blank_byte trail = true ->
  trim_space (lead ++ core ++ trail) = core.
Proof.
  intros Hl Hc Ht. unfold trim_space. rewrite trim_left_blank_app by exact Hl.
  destruct core as [|c core].
  - cbn [app]. rewrite <- (app_nil_r trail), trim_left_blank_app by exact Ht. reflexivity.
  - cbn [forallb] in Hc. apply andb_true_iff in Hc as [H1 H2]. cbn [app].
    rewrite trim_left_graphic by exact H1.
    change (c :: core ++ trail) with ((c :: core) ++ trail). apply trim_right_graphic_app; [|exact Ht].
    cbn [forallb]. now rewrite H1.
Qed.

(* a blank-indented line whose first non-blank bytes are the graphic word w keeps w as a prefix *)
Lemma trim_space_prefix lead w text :
  forallb blank_byte lead = true -> forallb graphic w = true -> w <> [] ->
  exists t, trim_space (lead ++ w ++ text) = w ++ t.
Proof.
  intros Hl Hw Hne. unfold trim_space. rewrite trim_left_blank_app by exact Hl.
  destruct w as [|c w]; [congruence|]. cbn [forallb] in Hw. apply andb_true_iff in Hw as [H1 H2].
  cbn [app]. rewrite trim_left_graphic by exact H1.
  clear Hl Hne lead. revert c H1. induction w as [|d w IH]; intros c H1.
  - rewrite trim_right_graphic by exact H1. eexists. reflexivity.
  - cbn [forallb] in H2. apply andb_true_iff in H2 as [H3 H4].
    rewrite trim_right_graphic by exact H1. cbn [app]. destruct (IH H4 d H3) as (t & E).
    cbn [app] in E. rewrite E. eexists. reflexivity.
Qed.

Lemma has_prefix_app p t : has_prefix p (p ++ t) = true.
Proof. induction p as [|c p IH]; [reflexivity|]. cbn. now rewrite N.eqb_refl. Qed.

Lemma has_prefix_in p g : has_prefix p g = true -> forall x, In x p -> In x g.
Proof.
  revert g. induction p as [|c p IH]; intros g H x Hin; [contradiction|].
  destruct g as [|d g]; [discriminate|]. cbn in H. apply andb_true_iff in H as [H1 H2].
  apply N.eqb_eq in H1. subst d. destruct Hin as [->|Hin]; [now left|]. right. now apply (IH g).
Qed.

Lemma has_prefix_split p g c rest :
  has_prefix p (g ++ c :: rest) = true -> In c p \/ has_prefix p g = true.
Proof.
  revert g. induction p as [|x p IH]; intros g H; [now right|].
  destruct g as [|d g].
  - cbn in H. apply andb_true_iff in H as [H1 _]. apply N.eqb_eq in H1. left. now left.
  - cbn in H. apply andb_true_iff in H as [H1 H2]. destruct (IH g H2) as [Hin|Hp].
    + left. now right.
    + right. cbn. now rewrite H1.
Qed.

Lemma contains_byte_in c l : contains_byte c l = true <-> In c l.
Proof.
  induction l as [|b l IH]; cbn; [split; [discriminate|contradiction]|].
  rewrite orb_true_iff, N.eqb_eq, IH. tauto.
Qed.

Lemma contains_byte_app c a b : contains_byte c (a ++ b) = contains_byte c a || contains_byte c b.
Proof. induction a as [|x a IH]; [reflexivity|]. cbn. rewrite IH. now rewrite orb_assoc. Qed.

(* printable text lines can be rendered: no newline inside, no trailing CR *)
Lemma last_forall {A} (P : A -> Prop) l d : P d -> (forall x, In x l -> P x) -> P (last l d).
Proof.
  intros Hd. induction l as [|x l IH]; intros H; [exact Hd|].
  destruct l as [|y l]; [apply H; now left|].
  change (last (x :: y :: l) d) with (last (y :: l) d). apply IH. intros z Hz. apply H. now right.
Qed.

Lemma text_line_ok l e :
  forallb text_byte l = true -> (len_N l + 1 <? max_token) = true -> line_ok (l, e) = true.
Proof.
  intros Ht Hs. rewrite forallb_forall in Ht. unfold line_ok. cbn [fst snd].
  apply andb_true_iff. split; [apply andb_true_iff; split|].
  - unfold no_nl. apply forallb_forall. intros x Hx. apply negb_true_iff, N.eqb_neq.
    now destruct (text_facts x (Ht x Hx)) as (_ & ? & _).
  - unfold no_trailing_cr. apply negb_true_iff, N.eqb_neq.
    apply (last_forall (fun x => x <> CR)); [unfold CR; lia|].
    intros x Hx. now destruct (text_facts x (Ht x Hx)) as (_ & _ & ?).
  - apply N.ltb_lt in Hs. apply N.ltb_lt. destruct e; lia.
Qed.

Lemma graphic_text l : forallb graphic l = true -> forallb text_byte l = true.
Proof.
  intros H. apply forallb_forall. intros x Hx. rewrite forallb_forall in H.
  now destruct (graphic_facts x (H x Hx)) as (_ & _ & _ & _ & ?).
Qed.
Lemma blank_text l : forallb blank_byte l = true -> forallb text_byte l = true.
Proof.
  intros H. apply forallb_forall. intros x Hx. rewrite forallb_forall in H.
  now destruct (blank_facts x (H x Hx)) as (_ & _ & ?).
Qed.


Lemma lines_ok_combine ls :
  forallb (fun le => forallb text_byte (fst le)) ls = true ->
  forallb (fun le => len_N (fst le) + 1 <? max_token) ls = true ->
  forallb line_ok ls = true.
Proof.
  induction ls as [|[c e] ls IH]; intros H1 H2; [reflexivity|].
  cbn [forallb fst] in *. apply andb_true_iff in H1 as [A1 A2]. apply andb_true_iff in H2 as [B1 B2].
  rewrite text_line_ok by assumption. now apply IH.
Qed.


Lemma cons_out_total {A} (xs : list A) o : o <> Panic -> cons_out xs o <> Panic.
Proof. destruct o; cbn; congruence. Qed.


Lemma cons_out_cons_out {A} (a b : list A) o : cons_out a (cons_out b o) = cons_out (a ++ b) o.
Proof. destruct o; cbn; [now rewrite app_assoc|reflexivity|reflexivity]. Qed.
Lemma cons_out_nil {A} (o : outcome (list A)) : cons_out [] o = o.
Proof. destruct o; reflexivity. Qed.

(* ------------------------------------------------------------------ with_eols / blank_lines / last_line_ok *)
Lemma map_fst_with_eols ls es : map fst (with_eols ls es) = ls.
Proof.
  revert es. induction ls as [|l r IH]; intros es; [reflexivity|].
  destruct es; cbn [with_eols map fst]; now rewrite IH.
Qed.

Lemma map_fst_blank_lines es : map fst (blank_lines es) = map (fun _ => []) es.
Proof. unfold blank_lines. rewrite map_map. reflexivity. Qed.

Lemma blank_line_ok e : line_ok ([], e) = true.
Proof. destruct e; reflexivity. Qed.

Lemma blank_lines_ok es : forallb line_ok (blank_lines es) = true.
Proof. induction es as [|e es IH]; [reflexivity|]. cbn [blank_lines map forallb]. now rewrite blank_line_ok. Qed.

Lemma with_eols_ok ls es :
  (forall l e, In l ls -> line_ok (l, e) = true) -> forallb line_ok (with_eols ls es) = true.
Proof.
  revert es. induction ls as [|l r IH]; intros es H; [reflexivity|].
  destruct es; cbn [with_eols forallb]; rewrite H by (now left); cbn [andb];
    apply IH; intros; apply H; now right.
Qed.

Lemma last_line_ok_true ls : last_line_ok ls true = true.
Proof. induction ls as [|[c e] [|x r] IH]; try reflexivity. exact IH. Qed.

Lemma last_line_ok_app a b fnl : b <> [] -> last_line_ok (a ++ b) fnl = last_line_ok b fnl.
Proof.
  intros Hb. induction a as [|[c e] a IH]; [reflexivity|].
  cbn [app]. destruct (a ++ b) as [|x m] eqn:E.
  - destruct a; [cbn in E; congruence | discriminate].
  - exact IH.
Qed.

Lemma last_line_ok_nonempty ls fnl :
  (forall c e, In (c, e) ls -> c <> []) -> last_line_ok ls fnl = true.
Proof.
  induction ls as [|[c e] r IH]; intros H; [reflexivity|].
  destruct r as [|x r'].
  - cbn [last_line_ok]. assert (c <> []) as Hc by (apply (H c e); now left).
    destruct c; [congruence|]. cbn. now rewrite orb_true_r.
  - change (last_line_ok ((c, e) :: x :: r') fnl) with (last_line_ok (x :: r') fnl).
    apply IH. intros c' e' Hin. apply (H c' e'). now right.
Qed.


(* Formats/LinesProofs.v - facts about the line scanner model and the line renderer. *)
From Coq Require Import List NArith Bool Lia.
From Scalibr Require Import Formats.Lines.
Import ListNotations.
Open Scope N_scope.

Lemma list_eqb_eq {A} (eq : A -> A -> bool) :
  (forall x y, eq x y = true <-> x = y) -> forall a b, list_eqb eq a b = true <-> a = b.
Proof.
  intros H a. induction a as [|x a IH]; intros [|y b]; cbn; split; intros E; try easy.
  - apply andb_true_iff in E as [E1 E2]. apply H in E1. apply IH in E2. now subst.
  - inversion E; subst. apply andb_true_iff. split; [now apply H | now apply IH].
Qed.

Lemma bytes_eqb_eq a b : bytes_eqb a b = true <-> a = b.
Proof. apply list_eqb_eq. intros x y. apply N.eqb_eq. Qed.

Lemma bytes_eqb_refl a : bytes_eqb a a = true.
Proof. now apply bytes_eqb_eq. Qed.

Lemma bytes_eqb_neq a b : bytes_eqb a b = false <-> a <> b.
Proof.
  split.
  - intros E H. apply bytes_eqb_eq in H. congruence.
  - intros H. destruct (bytes_eqb a b) eqn:E; [|reflexivity]. apply bytes_eqb_eq in E. contradiction.
Qed.

Lemma pkg_eqb_eq p q : pkg_eqb p q = true <-> p = q.
Proof.
  destruct p as [a b], q as [c d]. unfold pkg_eqb. cbn. rewrite andb_true_iff, !bytes_eqb_eq.
  split; [intros [-> ->]; reflexivity | intros E; inversion E; auto].
Qed.

Lemma len_N_app {A} (a b : list A) : len_N (a ++ b) = len_N a + len_N b.
Proof. induction a as [|x a IH]; cbn [len_N app]; [reflexivity | rewrite IH; lia]. Qed.

Lemma no_nl_app a b : no_nl (a ++ b) = no_nl a && no_nl b.
Proof. unfold no_nl. apply forallb_app. Qed.

(* ------------------------------------------------------------------ lines_raw *)
Lemma lines_raw_line l rest :
  no_nl l = true -> lines_raw (l ++ NL :: rest) = l :: lines_raw rest.
Proof.
  induction l as [|c l IH]; intros H.
  - cbn. reflexivity.
  - cbn [no_nl forallb] in H. apply andb_true_iff in H as [Hc Hl].
    cbn [app lines_raw]. apply negb_true_iff in Hc. rewrite Hc.
    rewrite (IH Hl). reflexivity.
Qed.

Lemma lines_raw_last l : no_nl l = true -> l <> [] -> lines_raw l = [l].
Proof.
  induction l as [|c l IH]; intros H Hne; [congruence|].
  cbn [no_nl forallb] in H. apply andb_true_iff in H as [Hc Hl].
  cbn [lines_raw]. apply negb_true_iff in Hc. rewrite Hc.
  destruct l as [|d l]; [reflexivity|].
  rewrite (IH Hl); [reflexivity | discriminate].
Qed.

(* ------------------------------------------------------------------ drop_cr *)
Lemma drop_cr_id l : no_trailing_cr l = true -> drop_cr l = l.
Proof.
  unfold no_trailing_cr. induction l as [|c l IH]; intros H; [reflexivity|].
  destruct l as [|d l].
  - cbn in H |- *. apply negb_true_iff in H. rewrite H. reflexivity.
  - change (drop_cr (c :: d :: l)) with (c :: drop_cr (d :: l)).
    rewrite IH; [reflexivity|]. exact H.
Qed.

Lemma drop_cr_app_cr l : drop_cr (l ++ [CR]) = l.
Proof.
  induction l as [|c l IH]; [reflexivity|].
  cbn [app]. destruct (l ++ [CR]) as [|d m] eqn:E.
  - destruct l; discriminate.
  - change (drop_cr (c :: d :: m)) with (c :: drop_cr (d :: m)). rewrite IH. reflexivity.
Qed.

(* ------------------------------------------------------------------ render_lines / scan_lines *)
Lemma scan_tokens_cons l r :
  short l = true -> scan_tokens (l :: r) = (drop_cr l :: fst (scan_tokens r), snd (scan_tokens r)).
Proof. intros H. cbn [scan_tokens]. rewrite H. destruct (scan_tokens r). reflexivity. Qed.

Lemma line_ok_parts c e :
  line_ok (c, e) = true ->
  no_nl c = true /\ no_trailing_cr c = true /\
  (len_N c + (match e with LF => 0 | CRLF => 1 end) < max_token).
Proof.
  unfold line_ok. cbn [fst snd]. intros H.
  apply andb_true_iff in H as [H H3]. apply andb_true_iff in H as [H1 H2].
  apply N.ltb_lt in H3. auto.
Qed.

(* the raw piece of a rendered line, and what the scanner makes of it *)
Definition raw_piece (c : bytes) (e : eol) : bytes := c ++ eol_unterminated e.

Lemma raw_piece_facts c e :
  line_ok (c, e) = true ->
  no_nl (raw_piece c e) = true /\ short (raw_piece c e) = true /\ drop_cr (raw_piece c e) = c.
Proof.
  intros H. apply line_ok_parts in H as (H1 & H2 & H3). unfold raw_piece, short.
  destruct e; cbn [eol_unterminated].
  - rewrite app_nil_r. repeat split; auto. apply N.ltb_lt. lia. now apply drop_cr_id.
  - rewrite no_nl_app, H1, len_N_app. cbn [len_N]. split; [reflexivity|]. split.
    + apply N.ltb_lt. lia.
    + apply drop_cr_app_cr.
Qed.

Lemma render_terminated c e rest : c ++ eol_bytes e ++ rest = raw_piece c e ++ NL :: rest.
Proof. unfold raw_piece. destruct e; cbn; rewrite <- ?app_assoc; reflexivity. Qed.

Theorem scan_render : forall ls fnl,
  forallb line_ok ls = true -> last_line_ok ls fnl = true ->
  scan_lines (render_lines ls fnl) = (map fst ls, false).
Proof.
  unfold scan_lines. induction ls as [|[c e] r IH]; intros fnl Hok Hlast; [reflexivity|].
  cbn [forallb] in Hok. apply andb_true_iff in Hok as [Hc Hr].
  destruct (raw_piece_facts c e Hc) as (P1 & P2 & P3).
  destruct r as [|ce2 r'].
  - cbn [render_lines map fst]. destruct fnl.
    + replace (c ++ eol_bytes e) with (c ++ eol_bytes e ++ []) by now rewrite app_nil_r.
      rewrite render_terminated, (lines_raw_line _ _ P1). cbn [lines_raw].
      rewrite scan_tokens_cons by exact P2. cbn. rewrite P3. reflexivity.
    + fold (raw_piece c e). cbn [last_line_ok] in Hlast. cbn [orb] in Hlast.
      assert (raw_piece c e <> []) as Hne.
      { unfold raw_piece. destruct e; cbn [eol_unterminated].
        - rewrite app_nil_r. rewrite orb_false_r in Hlast. destruct c; [discriminate|discriminate].
        - destruct c; discriminate. }
      rewrite (lines_raw_last _ P1 Hne). rewrite scan_tokens_cons by exact P2. cbn. rewrite P3. reflexivity.
  - change (render_lines ((c, e) :: ce2 :: r') fnl) with (c ++ eol_bytes e ++ render_lines (ce2 :: r') fnl).
    rewrite render_terminated, (lines_raw_line _ _ P1).
    rewrite scan_tokens_cons by exact P2.
    assert (last_line_ok (ce2 :: r') fnl = true) as Hl2 by exact Hlast.
    rewrite (IH fnl Hr Hl2). cbn [fst snd map]. rewrite P3. reflexivity.
Qed.

(* ------------------------------------------------------------------ cut *)
Lemma cut_app sep k v :
  contains_byte sep k = false -> cut sep (k ++ sep :: v) = Some (k, v).
Proof.
  induction k as [|c k IH]; intros H.
  - cbn. rewrite N.eqb_refl. reflexivity.
  - cbn [contains_byte] in H. apply orb_false_iff in H as [Hc Hk].
    cbn [app cut]. rewrite Hc, (IH Hk). reflexivity.
Qed.

(* ------------------------------------------------------------------ aget *)
Lemma aget_unique k v m :
  In (k, v) m -> (forall v', In (k, v') m -> v' = v) -> aget k m = v.
Proof.
  induction m as [|[k' w] m IH]; intros Hin Hu; [contradiction|].
  cbn [aget]. destruct (bytes_eqb k k') eqn:E.
  - apply bytes_eqb_eq in E. subst k'. apply Hu. now left.
  - apply bytes_eqb_neq in E. destruct Hin as [Hin|Hin]; [inversion Hin; congruence|].
    apply IH; [exact Hin|]. intros v' H'. apply Hu. now right.
Qed.

Lemma in_insert_at {A} n (x y : A) l : In y (insert_at n x l) <-> y = x \/ In y l.
Proof.
  unfold insert_at. rewrite in_app_iff. cbn [In].
  rewrite <- (firstn_skipn n l) at 3. rewrite in_app_iff. intuition congruence.
Qed.

Lemma last_app_cons {A} (a : list A) x b d : last (a ++ x :: b) d = last (x :: b) d.
Proof.
  induction a as [|y a IH]; [reflexivity|].
  cbn [app]. destruct (a ++ x :: b) eqn:E; [destruct a; discriminate|].
  change (last (y :: a0 :: l) d) with (last (a0 :: l) d). exact IH.
Qed.

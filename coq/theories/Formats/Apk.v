(* Formats/Apk.v - model of extractor/filesystem/os/apk (lib/apk/db/installed) and its
   record/layout/render/expected specification.  Model + spec only, no proofs. *)
From Coq Require Import List NArith Bool.
From Scalibr Require Import Formats.Lines.
Import ListNotations.
Open Scope N_scope.

(* ------------------------------------------------------------------ model of the extractor *)
Definition COLON : N := 58.
Definition kP : bytes := [80].   (* "P" *)
Definition kV : bytes := [86].   (* "V" *)

(* pkg.Name == "" || pkg.Version == "" -> skipped with a warning *)
Definition apk_pkg (g : amap) : list pkg :=
  let n := aget kP g in let v := aget kV g in
  if is_nil n || is_nil v then [] else [(n, v)].

(* extractFromInput + parseSingleApkRecord over the delivered tokens.
   g is the `group` map of the record being read ([] = empty map). *)
Fixpoint apk_lines (ls : list bytes) (toolong : bool) (g : amap) : outcome (list pkg) :=
  match ls with
  | [] =>
      (* scanner.Scan() = false: parseSingleApkRecord returns (group, scanner.Err()) *)
      if toolong then Err ETooLong
      else match g with [] => Ok [] | _ => Ok (apk_pkg g) end
  | l :: r =>
      match l with
      | [] => match g with
              | [] => apk_lines r toolong g                     (* double empty lines tolerated *)
              | _ => cons_out (apk_pkg g) (apk_lines r toolong [])
              end
      | _ => match cut COLON l with
             | None => Err EInvalid                            (* "invalid line" *)
             | Some (k, v) => apk_lines r toolong ((k, v) :: g)
             end
      end
  end.

Definition parse_apk (s : bytes) : outcome (list pkg) :=
  let (toks, toolong) := scan_lines s in apk_lines toks toolong [].

(* ------------------------------------------------------------------ records, layout, render *)
Record apk_rec := { ar_name : bytes; ar_version : bytes; ar_extras : list (bytes * bytes) }.

(* per record: where the P and V lines sit among the other fields, the line ending of each field
   line, and the blank lines that separate it from the next record (at least one: sep1) *)
Record apk_rlay := { al_posV : nat; al_posP : nat; al_eols : list eol; al_sep1 : eol; al_sep : list eol }.
Definition apk_rlay_default : apk_rlay :=
  {| al_posV := 0; al_posP := 0; al_eols := []; al_sep1 := LF; al_sep := [] |}.

Record apk_layout := {
  al_lead : list eol;          (* blank lines before the first record *)
  al_recs : list apk_rlay;     (* per record, default when the list is too short *)
  al_trail : list eol;         (* blank lines after the last record (may be none) *)
  al_final_nl : bool           (* false: the last '\n' of the file is missing *)
}.

Definition apk_fields (r : apk_rec) (y : apk_rlay) : list (bytes * bytes) :=
  insert_at (al_posP y) (kP, ar_name r) (insert_at (al_posV y) (kV, ar_version r) (ar_extras r)).

Definition field_line (kv : bytes * bytes) : bytes := fst kv ++ COLON :: snd kv.

Definition apk_rec_lines (r : apk_rec) (y : apk_rlay) : list (bytes * eol) :=
  with_eols (map field_line (apk_fields r y)) (al_eols y).

Fixpoint apk_recs_lines (rs : list apk_rec) (ys : list apk_rlay) (trail : list eol) : list (bytes * eol) :=
  match rs with
  | [] => []
  | r :: rs' =>
      let y := hd apk_rlay_default ys in
      match rs' with
      | [] => apk_rec_lines r y ++ blank_lines trail
      | _ => apk_rec_lines r y ++ blank_lines (al_sep1 y :: al_sep y) ++ apk_recs_lines rs' (tl ys) trail
      end
  end.

Definition apk_file_lines (rs : list apk_rec) (l : apk_layout) : list (bytes * eol) :=
  blank_lines (al_lead l) ++ apk_recs_lines rs (al_recs l) (al_trail l).

Definition render_apk (rs : list apk_rec) (l : apk_layout) : bytes :=
  render_lines (apk_file_lines rs l) (al_final_nl l).

(* the ground truth: every record, in file order *)
Definition expected_apk (rs : list apk_rec) : list pkg := map (fun r => (ar_name r, ar_version r)) rs.

(* well-formedness.  A value is a line fragment: no '\n', does not end in '\r' (it would be eaten
   by the reader when the line ends in LF).  Keys of other fields contain no ':' and are not P / V. *)
Definition wf_value (v : bytes) : bool := no_nl v && no_trailing_cr v.
Definition wf_key (k : bytes) : bool :=
  no_nl k && negb (contains_byte COLON k) && negb (bytes_eqb k kP) && negb (bytes_eqb k kV).
Definition field_short (kv : bytes * bytes) : bool := len_N (fst kv) + len_N (snd kv) + 2 <? max_token.

Definition wf_apk_rec (r : apk_rec) : bool :=
  negb (is_nil (ar_name r)) && negb (is_nil (ar_version r)) &&
  wf_value (ar_name r) && wf_value (ar_version r) &&
  field_short (kP, ar_name r) && field_short (kV, ar_version r) &&
  forallb (fun kv => wf_key (fst kv) && wf_value (snd kv) && field_short kv) (ar_extras r).
Definition wf_apk_records (rs : list apk_rec) : bool := forallb wf_apk_rec rs.

(* a missing final newline is only meaningful directly after the last field line *)
Definition wf_apk_layout (rs : list apk_rec) (l : apk_layout) : bool :=
  al_final_nl l || (is_nil (al_trail l) && (negb (is_nil rs) || is_nil (al_lead l))).

(* ------------------------------------------------------------------ correspondence record *)
Record apk_case := {
  ac_claim : option (list apk_rec * apk_layout);   (* generator's records + layout, None for the malformed stream *)
  ac_bytes : bytes;                                (* the file given to the extractor *)
  ac_obs : outcome (list pkg)                      (* what Extract returned *)
}.

Definition apk_case_render_ok (c : apk_case) : bool :=
  match ac_claim c with None => true | Some (rs, l) => bytes_eqb (render_apk rs l) (ac_bytes c) end.
Definition apk_case_model_ok (c : apk_case) : bool :=
  pkgs_outcome_eqb (parse_apk (ac_bytes c)) (ac_obs c).
(* the oracle: claimed only for well-formed records/layouts; uses the implementation's own output *)
Definition apk_case_spec_ok (c : apk_case) : bool :=
  match ac_claim c with
  | None => negb (is_panic (ac_obs c))
  | Some (rs, l) =>
      negb (wf_apk_records rs && wf_apk_layout rs l) ||
      pkgs_outcome_eqb (ac_obs c) (Ok (expected_apk rs))
  end.
Definition apk_case_claimed (c : apk_case) : bool :=
  match ac_claim c with None => false | Some (rs, l) => wf_apk_records rs && wf_apk_layout rs l end.

(* Formats/Lines.v - byte strings, outcomes, and the model of bufio.Scanner + bufio.ScanLines.
   Model only (no proofs): everything here must keep evaluating when a proof breaks.

   bufio.Scanner with the default split function ScanLines and the default buffer:
     * the input is cut at every '\n' (10); the final piece is a token only if it is non-empty;
     * one trailing '\r' (13) is removed from every token (dropCR);
     * a piece of 65536 (= bufio.MaxScanTokenSize) or more bytes before its '\n' (or before the end
       of input) stops the scanner with bufio.ErrTooLong: Scan() returns false, Err() is non-nil;
       every earlier token has already been delivered to the consumer.  *)
From Coq Require Import List NArith Bool.
Import ListNotations.
Open Scope N_scope.

Definition bytes := list N.
Definition pkg := (bytes * bytes)%type.          (* (name, version) *)

Inductive err := ETooLong | EInvalid | EOther.
Inductive outcome (A : Type) := Ok (a : A) | Err (e : err) | Panic.
Arguments Ok {A} a. Arguments Err {A} e. Arguments Panic {A}.

Definition err_eqb (a b : err) : bool :=
  match a, b with ETooLong, ETooLong | EInvalid, EInvalid | EOther, EOther => true | _, _ => false end.

Fixpoint list_eqb {A} (eq : A -> A -> bool) (a b : list A) : bool :=
  match a, b with
  | [], [] => true
  | x :: a', y :: b' => eq x y && list_eqb eq a' b'
  | _, _ => false
  end.
Definition bytes_eqb : bytes -> bytes -> bool := list_eqb N.eqb.
Definition pkg_eqb (p q : pkg) : bool := bytes_eqb (fst p) (fst q) && bytes_eqb (snd p) (snd q).
Definition outcome_eqb {A} (eq : A -> A -> bool) (a b : outcome A) : bool :=
  match a, b with
  | Ok x, Ok y => eq x y
  | Err e, Err f => err_eqb e f
  | Panic, Panic => true
  | _, _ => false
  end.
Definition pkgs_outcome_eqb := outcome_eqb (list_eqb pkg_eqb).

Definition is_panic {A} (o : outcome A) : bool := match o with Panic => true | _ => false end.

(* prepend already produced items to the rest of a run (an error anywhere makes the whole call fail) *)
Definition cons_out {A} (xs : list A) (o : outcome (list A)) : outcome (list A) :=
  match o with Ok l => Ok (xs ++ l) | Err e => Err e | Panic => Panic end.

Fixpoint len_N {A} (l : list A) : N := match l with [] => 0 | _ :: r => N.succ (len_N r) end.

(* run of n copies of c: lets generated case files write long lines compactly *)
Definition nrep (n : N) (c : N) : bytes := N.iter n (cons c) [].

Definition is_nil {A} (l : list A) : bool := match l with [] => true | _ => false end.

(* ------------------------------------------------------------------ bufio.ScanLines *)
Definition NL : N := 10.
Definition CR : N := 13.
Definition max_token : N := 65536.

(* raw pieces between newlines; "a\n" -> ["a"], "a" -> ["a"], "\n\n" -> ["";""], "" -> [] *)
Fixpoint lines_raw (s : bytes) : list bytes :=
  match s with
  | [] => []
  | c :: s' =>
      if c =? NL then [] :: lines_raw s'
      else match lines_raw s' with
           | [] => [[c]]
           | l :: ls => (c :: l) :: ls
           end
  end.

(* dropCR: one trailing \r is removed *)
Fixpoint drop_cr (l : bytes) : bytes :=
  match l with
  | [] => []
  | [c] => if c =? CR then [] else [c]
  | c :: l' => c :: drop_cr l'
  end.

Definition short (l : bytes) : bool := len_N l <? max_token.

(* tokens delivered before the scanner stops, and whether it stopped with ErrTooLong *)
Fixpoint scan_tokens (ls : list bytes) : list bytes * bool :=
  match ls with
  | [] => ([], false)
  | l :: r => if short l then let (t, e) := scan_tokens r in (drop_cr l :: t, e) else ([], true)
  end.

Definition scan_lines (s : bytes) : list bytes * bool := scan_tokens (lines_raw s).

(* ------------------------------------------------------------------ rendering line-oriented files *)
Inductive eol := LF | CRLF.
Definition eol_bytes (e : eol) : bytes := match e with LF => [NL] | CRLF => [CR; NL] end.
Definition eol_unterminated (e : eol) : bytes := match e with LF => [] | CRLF => [CR] end.

(* every line carries its own line ending; with final_nl = false the very last '\n' is left out *)
Fixpoint render_lines (ls : list (bytes * eol)) (final_nl : bool) : bytes :=
  match ls with
  | [] => []
  | (c, e) :: r =>
      match r with
      | [] => c ++ (if final_nl then eol_bytes e else eol_unterminated e)
      | _ => c ++ eol_bytes e ++ render_lines r final_nl
      end
  end.

Fixpoint with_eols (ls : list bytes) (es : list eol) : list (bytes * eol) :=
  match ls with
  | [] => []
  | l :: r => match es with
              | [] => (l, LF) :: with_eols r []
              | e :: es' => (l, e) :: with_eols r es'
              end
  end.

Definition blank_lines (es : list eol) : list (bytes * eol) := map (fun e => ([], e)) es.


Definition no_nl (l : bytes) : bool := forallb (fun b => negb (b =? NL)) l.
Definition no_trailing_cr (l : bytes) : bool := negb (last l 0 =? CR).
Definition line_ok (le : bytes * eol) : bool :=
  no_nl (fst le) && no_trailing_cr (fst le) &&
  (len_N (fst le) + (match snd le with LF => 0 | CRLF => 1 end) <? max_token).
(* an unterminated last line that is empty would not be a token at all *)
Fixpoint last_line_ok (ls : list (bytes * eol)) (final_nl : bool) : bool :=
  match ls with
  | [] => true
  | (c, e) :: r =>
      match r with
      | [] => final_nl || negb (is_nil c) || match e with CRLF => true | LF => false end
      | _ => last_line_ok r final_nl
      end
  end.

(* ------------------------------------------------------------------ small string functions *)
(* strings.Cut(s, sep) for a one-byte separator *)
Fixpoint cut (sep : N) (l : bytes) : option (bytes * bytes) :=
  match l with
  | [] => None
  | c :: r => if c =? sep then Some ([], r)
              else match cut sep r with Some (a, b) => Some (c :: a, b) | None => None end
  end.

Fixpoint has_prefix (p s : bytes) : bool :=
  match p, s with
  | [], _ => true
  | a :: p', b :: s' => (a =? b) && has_prefix p' s'
  | _ :: _, [] => false
  end.

Fixpoint contains_byte (c : N) (l : bytes) : bool :=
  match l with [] => false | b :: r => (b =? c) || contains_byte c r end.

(* strings.TrimSpace: removes leading and trailing runes with unicode.IsSpace (ASCII \t \n \v \f \r ' ',
   U+0085, U+00A0, U+1680, U+2000-200A, U+2028, U+2029, U+202F, U+205F, U+3000 in UTF-8). *)
Definition ascii_space (c : N) : bool :=
  (c =? 9) || (c =? 10) || (c =? 11) || (c =? 12) || (c =? 13) || (c =? 32).
Definition uni_space2 (c d : N) : bool := (c =? 194) && ((d =? 133) || (d =? 160)).
Definition uni_space3 (c d e : N) : bool :=
  ((c =? 225) && (d =? 154) && (e =? 128)) ||
  ((c =? 226) && (d =? 128) && (((128 <=? e) && (e <=? 138)) || (e =? 168) || (e =? 169) || (e =? 175))) ||
  ((c =? 226) && (d =? 129) && (e =? 159)) ||
  ((c =? 227) && (d =? 128) && (e =? 128)).

Fixpoint trim_left (s : bytes) : bytes :=
  match s with
  | [] => []
  | c :: r =>
      if ascii_space c then trim_left r
      else match r with
           | [] => s
           | d :: r2 =>
               if uni_space2 c d then trim_left r2
               else match r2 with
                    | [] => s
                    | e :: r3 => if uni_space3 c d e then trim_left r3 else s
                    end
           end
  end.
Definition all_space (s : bytes) : bool := is_nil (trim_left s).
(* the longest suffix that is a sequence of white-space runes is removed *)
Fixpoint trim_right (s : bytes) : bytes :=
  match s with
  | [] => []
  | c :: r => if all_space s then [] else c :: trim_right r
  end.
Definition trim_space (s : bytes) : bytes := trim_right (trim_left s).

(* a[i] with Go's bounds check *)
Definition index {A} (l : list A) (i : nat) : outcome A :=
  match nth_error l i with Some x => Ok x | None => Panic end.
Definition bind {A B} (o : outcome A) (f : A -> outcome B) : outcome B :=
  match o with Ok a => f a | Err e => Err e | Panic => Panic end.

(* bytes in 33..126 / printable text (32..126 and tab) / blanks (space, tab) *)
Definition graphic (c : N) : bool := (33 <=? c) && (c <=? 126).
Definition text_byte (c : N) : bool := ((32 <=? c) && (c <=? 126)) || (c =? 9).
Definition blank_byte (c : N) : bool := (c =? 32) || (c =? 9).

(* association list standing for a Go map[string]string: newest binding first, lookup of a missing
   key gives "" *)
Definition amap := list (bytes * bytes).
Fixpoint aget (k : bytes) (m : amap) : bytes :=
  match m with [] => [] | (k', v) :: r => if bytes_eqb k k' then v else aget k r end.

Fixpoint bad_indices {A} (f : A -> bool) (l : list A) (i : nat) : list nat :=
  match l with
  | [] => []
  | x :: l' => if f x then bad_indices f l' (S i) else i :: bad_indices f l' (S i)
  end.

Definition insert_at {A} (n : nat) (x : A) (l : list A) : list A := firstn n l ++ x :: skipn n l.

(* C02 - no file content can crash a built-in extractor: the part a theorem can carry.
   Only statements here; proofs are in the <Format>Proofs.v files.

   The byte-level extractor models (Formats/Apk.v, Gradle.v, Gemfile.v, ...) route every Go operation
   that can panic (slice index after strings.SplitN, ...) through helpers that return Panic when out of
   range; the theorems below say that for ARBITRARY input bytes - not only well-formed files - the
   model never reaches Panic.  Termination is by construction (structural recursion over the input). *)
From Coq Require Import List NArith Bool.
From Scalibr Require Import Formats.Lines Formats.Apk Formats.ApkProofs Formats.Gradle Formats.GradleProofs
  Formats.Gemfile Formats.GemfileProofs Formats.Dpkg Formats.DpkgProofs Formats.Structs Formats.Structs2
  Formats.Requirements Formats.RequirementsProofs Formats.GoModBytes Formats.GoModBytesProofs.
Import ListNotations.
Open Scope N_scope.

Theorem apk_total : forall s : bytes, parse_apk s <> Panic.
Proof. exact apk_total_lemma. Qed.
Print Assumptions apk_total.

Theorem gradle_total : forall s : bytes, parse_gradle s <> Panic.
Proof. exact gradle_total_lemma. Qed.
Print Assumptions gradle_total.

Theorem gemfile_total : forall s : bytes, parse_gemfile s <> Panic.
Proof. exact gemfile_total_lemma. Qed.
Print Assumptions gemfile_total.

Theorem dpkg_total : forall (statusd : bool) (s : bytes), parse_dpkg statusd s <> Panic.
Proof. exact dpkg_total_lemma. Qed.
Print Assumptions dpkg_total.

Theorem requirements_total : forall s : bytes, parse_requirements s <> Panic.
Proof. exact requirements_total_lemma. Qed.
Print Assumptions requirements_total.

Theorem gomod_bytes_total : forall orc (s : bytes), parse_gomod_bytes orc s <> Panic.
Proof. exact gomod_bytes_total_lemma. Qed.
Print Assumptions gomod_bytes_total.

(* non-vacuity: the panic helper is real (an index past the end is Panic), and the models do reject /
   survive malformed input in the modelled way *)
Example index_panics : index [1; 2] 2 = Panic.
Proof. reflexivity. Qed.
Example gradle_two_colons_no_equals : parse_gradle [97; 58; 98; 58; 99; 10] = Ok [].
Proof. vm_compute. reflexivity. Qed.
Example apk_invalid_line : parse_apk [80; 58; 120; 10; 113; 10] = Err EInvalid.
Proof. vm_compute. reflexivity. Qed.
Example gemfile_spec_before_section : parse_gemfile [32; 32; 32; 32; 97; 32; 40; 49; 41; 10] = Err EInvalid.
Proof. vm_compute. reflexivity. Qed.

(* package-lock.json at structure level: after fix b789a319 (an "npm:" alias is only split when it has the form
   npm:<name>@<version>) the extractor loop has no partial operation left; the model returns Ok on every structure.
   (Before the fix the model reproduced the slice-bounds panic on "npm:name"; regression witness in
   KNOWN_FINDINGS.d/C02.json, packagelockjson-npm-alias-without-at, status fixed.) *)
(* structure-level extractor loops: none of them has a partial operation (no index / slice / dereference that
   can fail on the decoded structure; Pipfile's Version[2:] is guarded by the length test that the model keeps) *)
Theorem composer_struct_never_panics : forall st, extract_composer st <> Panic.
Proof. intros st. discriminate. Qed.
Print Assumptions composer_struct_never_panics.
Theorem cargo_struct_never_panics : forall st, extract_cargo st <> Panic.
Proof. intros st. discriminate. Qed.
Print Assumptions cargo_struct_never_panics.
Theorem poetry_struct_never_panics : forall st, extract_poetry st <> Panic.
Proof. intros st. discriminate. Qed.
Print Assumptions poetry_struct_never_panics.
Theorem nuget_struct_never_panics : forall st, extract_nuget st <> Panic.
Proof. intros st. discriminate. Qed.
Print Assumptions nuget_struct_never_panics.
Theorem pipfile_struct_never_panics : forall st, extract_pipfile st <> Panic.
Proof. intros st. discriminate. Qed.
Print Assumptions pipfile_struct_never_panics.
Theorem gomod_struct_never_panics : forall st, extract_gomod st <> Panic.
Proof. intros st. discriminate. Qed.
Print Assumptions gomod_struct_never_panics.

Theorem packagelock_struct_never_panics : forall st, extract_packagelock st <> Panic.
Proof. intros st. unfold extract_packagelock. destruct (ns_packages st); discriminate. Qed.
Print Assumptions packagelock_struct_never_panics.
Example packagelock_alias_without_at :
  extract_packagelock {| ns_packages := None; ns_dependencies := [([97], NDep [110;112;109;58;98] [] None)] |} = Ok [([97], [110;112;109;58;98])].
Proof. vm_compute. reflexivity. Qed.

(* Formats/Gradle.v - model of extractor/filesystem/language/java/gradlelockfile and its
   record/layout/render/expected specification.  Model + spec only, no proofs. *)
From Coq Require Import List NArith Bool.
From Scalibr Require Import Formats.Lines.
Import ListNotations.
Open Scope N_scope.

Definition COLON : N := 58.
Definition EQUALS : N := 61.
Definition HASH : N := 35.
Definition s_empty_eq : bytes := [101; 109; 112; 116; 121; 61].   (* "empty=" *)

(* ------------------------------------------------------------------ model of the extractor *)
(* strings.SplitN(line, ":", 3) *)
Definition splitn_colon3 (l : bytes) : list bytes :=
  match cut COLON l with
  | None => [l]
  | Some (a, r) => match cut COLON r with
                   | None => [a; r]
                   | Some (b, c) => [a; b; c]
                   end
  end.
(* strings.SplitN(v, "=", 2) *)
Definition splitn_eq2 (l : bytes) : list bytes :=
  match cut EQUALS l with None => [l] | Some (a, b) => [a; b] end.

(* isGradleLockFileDepLine *)
Definition gr_is_dep_line (l : bytes) : bool := negb (has_prefix [HASH] l || has_prefix s_empty_eq l).

(* parseToGradlePackageDetail: Ok None = "invalid line" error (the caller skips the line) *)
Definition gr_parse_dep (l : bytes) : outcome (option pkg) :=
  let parts := splitn_colon3 l in
  if Nat.ltb (length parts) 3 then Ok None
  else
    bind (index parts 0) (fun group =>
    bind (index parts 1) (fun artifact =>
    bind (index parts 2) (fun version =>
      if negb (contains_byte EQUALS version) then Ok None
      else bind (index (splitn_eq2 version) 0) (fun v =>
           Ok (Some (group ++ COLON :: artifact, v)))))).

Fixpoint gr_lines (ls : list bytes) (toolong : bool) : outcome (list pkg) :=
  match ls with
  | [] => if toolong then Err ETooLong else Ok []
  | l :: r =>
      let t := trim_space l in
      if gr_is_dep_line t then
        match gr_parse_dep t with
        | Panic => Panic
        | Ok (Some p) => cons_out [p] (gr_lines r toolong)
        | _ => gr_lines r toolong
        end
      else gr_lines r toolong
  end.

Definition parse_gradle (s : bytes) : outcome (list pkg) :=
  let (toks, toolong) := scan_lines s in gr_lines toks toolong.

(* ------------------------------------------------------------------ records, layout, render *)
Record gr_rec := { g_group : bytes; g_artifact : bytes; g_version : bytes; g_configs : bytes }.

(* lines that carry no package: blank, "# comment", "empty=..." (each may be indented) *)
Inductive gr_noise :=
| NBlank (ws : bytes)
| NComment (lead text : bytes)
| NEmpty (lead text : bytes).

Record gr_rlay := { gl_before : list (gr_noise * eol); gl_lead : bytes; gl_trail : bytes; gl_eol : eol }.
Definition gr_rlay_default : gr_rlay := {| gl_before := []; gl_lead := []; gl_trail := []; gl_eol := LF |}.
Record gr_layout := { gl_recs : list gr_rlay; gl_after : list (gr_noise * eol); gl_final_nl : bool }.

Definition gr_core (r : gr_rec) : bytes :=
  g_group r ++ COLON :: g_artifact r ++ COLON :: g_version r ++ EQUALS :: g_configs r.
Definition gr_noise_content (n : gr_noise) : bytes :=
  match n with
  | NBlank ws => ws
  | NComment lead text => lead ++ HASH :: text
  | NEmpty lead text => lead ++ s_empty_eq ++ text
  end.
Definition gr_noise_lines (ns : list (gr_noise * eol)) : list (bytes * eol) :=
  map (fun ne => (gr_noise_content (fst ne), snd ne)) ns.

Fixpoint gr_recs_lines (rs : list gr_rec) (ys : list gr_rlay) : list (bytes * eol) :=
  match rs with
  | [] => []
  | r :: rs' =>
      let y := hd gr_rlay_default ys in
      gr_noise_lines (gl_before y) ++ (gl_lead y ++ gr_core r ++ gl_trail y, gl_eol y) :: gr_recs_lines rs' (tl ys)
  end.
Definition gr_file_lines (rs : list gr_rec) (l : gr_layout) : list (bytes * eol) :=
  gr_recs_lines rs (gl_recs l) ++ gr_noise_lines (gl_after l).
Definition render_gradle (rs : list gr_rec) (l : gr_layout) : bytes :=
  render_lines (gr_file_lines rs l) (gl_final_nl l).

Definition expected_gradle (rs : list gr_rec) : list pkg :=
  map (fun r => (g_group r ++ COLON :: g_artifact r, g_version r)) rs.

(* well-formed coordinates: graphic ASCII; group without ':' '=' '#', artifact without ':', version
   without '=' *)
Definition all_graphic (l : bytes) : bool := forallb graphic l.
Definition wf_gr_rec (r : gr_rec) : bool :=
  negb (is_nil (g_group r)) && negb (is_nil (g_artifact r)) && negb (is_nil (g_version r)) &&
  all_graphic (g_group r) && all_graphic (g_artifact r) && all_graphic (g_version r) && all_graphic (g_configs r) &&
  negb (contains_byte COLON (g_group r)) && negb (contains_byte EQUALS (g_group r)) && negb (contains_byte HASH (g_group r)) &&
  negb (contains_byte COLON (g_artifact r)) && negb (contains_byte EQUALS (g_version r)).
Definition wf_gr_records (rs : list gr_rec) : bool := forallb wf_gr_rec rs.

Definition all_blank (l : bytes) : bool := forallb blank_byte l.
Definition all_text (l : bytes) : bool := forallb text_byte l.
Definition wf_gr_noise (n : gr_noise) : bool :=
  match n with
  | NBlank ws => all_blank ws
  | NComment lead text => all_blank lead && all_text text
  | NEmpty lead text => all_blank lead && all_text text
  end.
Definition wf_gr_rlay (y : gr_rlay) : bool :=
  forallb (fun ne => wf_gr_noise (fst ne)) (gl_before y) && all_blank (gl_lead y) && all_blank (gl_trail y).
(* lines must fit the scanner's token buffer, and the file must not end in an unterminated empty line *)
Definition wf_gr_layout (rs : list gr_rec) (l : gr_layout) : bool :=
  forallb wf_gr_rlay (gl_recs l) && forallb (fun ne => wf_gr_noise (fst ne)) (gl_after l) &&
  forallb (fun le => len_N (fst le) + 1 <? max_token) (gr_file_lines rs l) &&
  last_line_ok (gr_file_lines rs l) (gl_final_nl l).

(* ------------------------------------------------------------------ correspondence record *)
Record gradle_case := {
  gc_claim : option (list gr_rec * gr_layout);
  gc_bytes : bytes;
  gc_obs : outcome (list pkg)
}.
Definition gradle_case_render_ok (c : gradle_case) : bool :=
  match gc_claim c with None => true | Some (rs, l) => bytes_eqb (render_gradle rs l) (gc_bytes c) end.
Definition gradle_case_model_ok (c : gradle_case) : bool :=
  pkgs_outcome_eqb (parse_gradle (gc_bytes c)) (gc_obs c).
Definition gradle_case_claimed (c : gradle_case) : bool :=
  match gc_claim c with None => false | Some (rs, l) => wf_gr_records rs && wf_gr_layout rs l end.
Definition gradle_case_spec_ok (c : gradle_case) : bool :=
  match gc_claim c with
  | None => negb (is_panic (gc_obs c))
  | Some (rs, l) =>
      negb (wf_gr_records rs && wf_gr_layout rs l) || pkgs_outcome_eqb (gc_obs c) (Ok (expected_gradle rs))
  end.

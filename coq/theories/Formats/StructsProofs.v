(* Formats/StructsProofs.v - structure-level exactness: the extractor loop over the decoded lockfile
   returns exactly the records (as a multiset; as a sequence where the format keeps order). *)
From Coq Require Import List NArith Bool Permutation Lia.
From Scalibr Require Import Formats.Lines Formats.LinesProofs Formats.Structs.
Import ListNotations.
Open Scope N_scope.

Lemma filter_split_perm {A} (f : A -> bool) (l : list A) :
  Permutation (filter (fun x => negb (f x)) l ++ filter f l) l.
Proof.
  induction l as [|x l IH]; [constructor|].
  cbn [filter]. destruct (f x); cbn [negb].
  - apply Permutation_sym, Permutation_cons_app, Permutation_sym, IH.
  - cbn [app]. now constructor.
Qed.

Lemma expected_grouped_perm rs : Permutation (expected_grouped rs) (expected_all rs).
Proof.
  unfold expected_grouped, expected_all. rewrite <- map_app. apply Permutation_map.
  unfold is_prod. apply (filter_split_perm lr_dev).
Qed.

(* ------------------------------------------------------------------ composer.lock *)
Lemma composer_struct_seq rs : extract_composer (struct_of_composer rs) = Ok (expected_grouped rs).
Proof. reflexivity. Qed.

Lemma composer_struct_exact_lemma rs :
  exists out, extract_composer (struct_of_composer rs) = Ok out /\ Permutation out (expected_all rs).
Proof. eexists. split; [apply composer_struct_seq|apply expected_grouped_perm]. Qed.

(* ------------------------------------------------------------------ Cargo.lock / poetry.lock *)
Lemma cargo_struct_exact_lemma rs : extract_cargo (struct_of_pkglist rs) = Ok (expected_all rs).
Proof. reflexivity. Qed.
Lemma poetry_struct_exact_lemma rs : extract_poetry (struct_of_pkglist rs) = Ok (expected_all rs).
Proof. reflexivity. Qed.

(* ------------------------------------------------------------------ packages.lock.json *)
(* Go map iteration order is arbitrary at both levels: st is any structure whose frameworks are a
   permutation of the written ones, each with a permutation of its packages *)
Definition nuget_iter_order (st rs : nuget_st) : Prop :=
  exists mid, Permutation st mid /\ Forall2 (fun a b => fst a = fst b /\ Permutation (snd a) (snd b)) mid rs.

Lemma flat_map_snd_perm (a b : nuget_st) : Permutation a b -> Permutation (flat_map snd a) (flat_map snd b).
Proof.
  induction 1; cbn [flat_map].
  - constructor.
  - now apply Permutation_app_head.
  - rewrite !app_assoc. apply Permutation_app_tail, Permutation_app_comm.
  - etransitivity; eauto.
Qed.

Lemma nuget_struct_exact_lemma rs st :
  nuget_iter_order st (struct_of_nuget rs) ->
  exists out, extract_nuget st = Ok out /\ Permutation out (expected_nuget rs).
Proof.
  intros (mid & P & F). exists (flat_map snd st). split; [reflexivity|].
  etransitivity; [apply flat_map_snd_perm, P|]. unfold expected_nuget, struct_of_nuget in *.
  clear P st. induction F as [|a b mid rs' [_ Hab] F IH]; [constructor|].
  cbn [flat_map]. now apply Permutation_app.
Qed.

(* ------------------------------------------------------------------ Pipfile.lock *)
Lemma key_mem_in k d : key_mem k d = true <-> exists p, In (k, p) d.
Proof.
  induction d as [|[k' p] d IH]; cbn [key_mem]; [split; [discriminate|intros (? & [])]|].
  rewrite orb_true_iff, bytes_eqb_eq, IH. split.
  - intros [->|(q & H)]; [exists p; now left|exists q; now right].
  - intros (q & [E|H]); [left; now inversion E|right; eauto].
Qed.

Lemma pip_key_inj n v n' v' :
  contains_byte AT n = false -> contains_byte AT n' = false -> pip_key n v = pip_key n' v' -> n = n' /\ v = v'.
Proof.
  intros H H' E. unfold pip_key in E.
  assert (cut AT (n ++ AT :: v) = Some (n, v)) as C1 by now apply cut_app.
  assert (cut AT (n' ++ AT :: v') = Some (n', v')) as C2 by now apply cut_app.
  rewrite E in C1. rewrite C1 in C2. now inversion C2.
Qed.

Definition pip_rec_ok (r : lrec) : Prop := contains_byte AT (lr_name r) = false /\ lr_version r <> [].

Lemma pip_add_wf : forall group details,
  Forall pip_rec_ok group ->
  (forall r, In r group -> key_mem (pip_key (lr_name r) (lr_version r)) details = false) ->
  NoDup (map nv group) ->
  pip_add (map pip_entry group) details =
  details ++ map (fun r => (pip_key (lr_name r) (lr_version r), nv r)) group.
Proof.
  induction group as [|r group IH]; intros details Hok Hfresh Hnd; [cbn; now rewrite app_nil_r|].
  inversion Hok as [|? ? [Hat Hv] Hok']; subst. inversion Hnd as [|? ? Hnin Hnd']; subst.
  cbn [map pip_entry pip_add].
  assert (is_nil (s_eqeq ++ lr_version r) = false) as -> by reflexivity.
  assert (has_prefix s_eqeq (s_eqeq ++ lr_version r) = true) as -> by apply has_prefix_app.
  assert (len_N (s_eqeq ++ lr_version r) <? 3 = false) as ->.
  { apply N.ltb_ge. rewrite len_N_app. destruct (lr_version r) as [|c v]; [congruence|]. cbn [len_N s_eqeq]. lia. }
  cbn [negb orb]. change (skipn 2 (s_eqeq ++ lr_version r)) with (lr_version r).
  rewrite (Hfresh r (or_introl eq_refl)).
  rewrite IH; [now rewrite <- app_assoc|exact Hok'| |exact Hnd'].
  intros r' Hin. destruct (key_mem _ (details ++ _)) eqn:E; [|reflexivity]. exfalso.
  apply key_mem_in in E as (p & Hp). apply in_app_or in Hp as [Hp|[Hp|[]]].
  - assert (key_mem (pip_key (lr_name r') (lr_version r')) details = true) as T by (apply key_mem_in; eauto).
    rewrite (Hfresh r' (or_intror Hin)) in T. discriminate.
  - injection Hp as Ek _. rewrite Forall_forall in Hok'. destruct (Hok' r' Hin) as [Hat' _].
    apply pip_key_inj in Ek as [E1 E2]; [|assumption|assumption].
    apply Hnin. apply in_map_iff. exists r'. split; [|exact Hin]. unfold nv. now rewrite E1, E2.
Qed.

Lemma pkg_mem_in p l : pkg_mem p l = true <-> In p l.
Proof.
  induction l as [|q l IH]; cbn [pkg_mem In]; [split; [discriminate|tauto]|].
  rewrite orb_true_iff, pkg_eqb_eq, IH. split; intros [H|H]; auto.
Qed.
Lemma nodup_pkgs_NoDup l : nodup_pkgs l = true -> NoDup l.
Proof.
  induction l as [|p l IH]; intros H; [constructor|].
  cbn [nodup_pkgs] in H. apply andb_true_iff in H as [H1 H2]. constructor; [|now apply IH].
  intros Hin. apply pkg_mem_in in Hin. rewrite Hin in H1. discriminate.
Qed.

Lemma wf_pipfile_parts rs : wf_pipfile rs = true -> NoDup (map nv rs) /\ Forall pip_rec_ok rs.
Proof.
  unfold wf_pipfile. intros H. apply andb_true_iff in H as [H1 H2]. split; [now apply nodup_pkgs_NoDup|].
  apply Forall_forall. intros r Hr. rewrite forallb_forall in H2. specialize (H2 r Hr).
  apply andb_true_iff in H2 as [A B]. apply negb_true_iff in A, B. split; [exact A|]. destruct (lr_version r); [discriminate|discriminate].
Qed.

Lemma NoDup_app_parts {A} (a b : list A) : NoDup (a ++ b) -> NoDup a /\ NoDup b /\ (forall x, In x a -> ~ In x b).
Proof.
  induction a as [|y a IH]; intros N; [split; [constructor|split; [exact N|intros x []]]|].
  cbn [app] in N. inversion N as [|? ? Hn N2]; subst. destruct (IH N2) as (Na & Nb & D).
  split; [constructor; [intros Hin; apply Hn, in_or_app; now left|exact Na]|]. split; [exact Nb|].
  intros x [->|Ha] Hb; [apply Hn, in_or_app; now right|now apply (D x)].
Qed.

Lemma NoDup_perm_app_split {A} (l a b : list A) : Permutation (a ++ b) l -> NoDup l -> NoDup a /\ NoDup b /\ (forall x, In x a -> ~ In x b).
Proof. intros P N. apply Permutation_sym in P. apply NoDup_app_parts. exact (Permutation_NoDup P N). Qed.

Lemma pipfile_struct_seq rs : wf_pipfile rs = true ->
  extract_pipfile (struct_of_pipfile rs) = Ok (expected_grouped rs).
Proof.
  intros H. apply wf_pipfile_parts in H as [Hnd Hok].
  pose proof (filter_split_perm lr_dev rs) as P. fold is_prod in P.
  assert (Permutation (map nv (filter is_prod rs) ++ map nv (filter lr_dev rs)) (map nv rs)) as P2
    by (rewrite <- map_app; now apply Permutation_map).
  destruct (NoDup_perm_app_split _ _ _ P2 Hnd) as (N1 & N2 & Dis).
  assert (Forall pip_rec_ok (filter is_prod rs) /\ Forall pip_rec_ok (filter lr_dev rs)) as [O1 O2].
  { rewrite !Forall_forall in *. split; intros r Hr; apply filter_In in Hr as [Hr _]; auto. }
  unfold extract_pipfile, struct_of_pipfile. cbn [ps_default ps_develop].
  rewrite (pip_add_wf (filter is_prod rs) []); [|exact O1|reflexivity|exact N1]. cbn [app].
  rewrite pip_add_wf; [| exact O2 | | exact N2].
  - rewrite map_app, !map_map. cbn [snd]. reflexivity.
  - intros r Hr. destruct (key_mem _ _) eqn:E; [|reflexivity]. exfalso.
    apply key_mem_in in E as (p & Hp). apply in_map_iff in Hp as (r' & E' & Hr').
    injection E' as Ek _. rewrite Forall_forall in O1, O2.
    destruct (O1 r' Hr') as [A1 _], (O2 r Hr) as [A2 _].
    apply pip_key_inj in Ek as [E1 E2]; [|assumption|assumption].
    apply (Dis (nv r')); [now apply in_map|]. apply in_map_iff. exists r. split; [|exact Hr]. unfold nv. now rewrite E1, E2.
Qed.

Lemma pipfile_struct_exact_lemma rs : wf_pipfile rs = true ->
  exists out, extract_pipfile (struct_of_pipfile rs) = Ok out /\ Permutation out (expected_all rs).
Proof. intros H. eexists. split; [now apply pipfile_struct_seq|apply expected_grouped_perm]. Qed.

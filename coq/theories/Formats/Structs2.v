(* Formats/Structs2.v - structure-level models of package-lock.json (v1 nested dependencies, v2/v3
   packages map) and go.mod (x/mod/modfile output).  Model + spec only, no proofs. *)
From Coq Require Import List NArith Bool.
From Scalibr Require Import Formats.Lines Formats.Structs.
Import ListNotations.
Open Scope N_scope.

Definition SLASH : N := 47.
Definition s_npm : bytes := [110; 112; 109; 58].      (* "npm:" *)
Definition s_file : bytes := [102; 105; 108; 101; 58]. (* "file:" *)

(* a Go map[string]V as association list: set = overwrite in place or append *)
Fixpoint amap_set {V} (k : bytes) (v : V) (m : list (bytes * V)) : list (bytes * V) :=
  match m with
  | [] => [(k, v)]
  | (k', v') :: r => if bytes_eqb k k' then (k, v) :: r else (k', v') :: amap_set k v r
  end.

(* ------------------------------------------------------------------ package-lock.json, "packages" (v2, v3) *)
(* np_commit is commitextractor.TryExtractCommit(resolved) - regexp + net/url, supplied with the case *)
Record npm_pkg := { np_path : bytes; np_name : bytes; np_version : bytes; np_commit : bytes }.

Fixpoint split_on (sep : N) (s : bytes) : list bytes :=
  match s with
  | [] => [[]]
  | c :: r => if c =? sep then [] :: split_on sep r
              else match split_on sep r with p :: ps => (c :: p) :: ps | [] => [[c]] end
  end.
(* extractNpmPackageName on a clean relative path: base, or scope/base when the parent segment starts with '@' *)
Definition npm_name (path : bytes) : bytes :=
  match rev (split_on SLASH path) with
  | b :: s :: _ => if has_prefix [AT] s then s ++ SLASH :: b else b
  | [b] => b
  | [] => []
  end.

Definition npm_pkg_step (d : list (bytes * pkg)) (p : npm_pkg) : list (bytes * pkg) :=
  if is_nil (np_path p) then d                                   (* the root project *)
  else
    let n := if is_nil (np_name p) then npm_name (np_path p) else np_name p in
    let fv := if is_nil (np_commit p) then np_version p else np_commit p in
    amap_set (n ++ AT :: fv) (n, np_version p) d.
Definition npm_packages (ps : list npm_pkg) : list pkg := map snd (fold_left npm_pkg_step ps []).

(* ------------------------------------------------------------------ package-lock.json, "dependencies" (v1) *)
Inductive npm_dep := NDep (version commit : bytes) (nested : option (list (bytes * npm_dep))).

(* strings.LastIndex(s, "@"): split at the last '@' *)
Fixpoint cut_last (sep : N) (s : bytes) : option (bytes * bytes) :=
  match s with
  | [] => None
  | c :: r => match cut_last sep r with
              | Some (a, b) => Some (c :: a, b)
              | None => if c =? sep then Some ([], r) else None
              end
  end.

(* one entry: key and reported (name, version).  An "npm:" alias is split at its last '@' only when that '@'
   lies behind at least one character of the aliased name (index > 4); otherwise name and version are kept *)
Definition npm_dep_entry (name version commit : bytes) : bytes * pkg :=
  let '(n, fv) :=
    if has_prefix s_npm version then
      match cut_last AT version with
      | Some (a, b) => if (4 <? len_N a) then (skipn 4 a, b) else (name, version)
      | None => (name, version)
      end
    else (name, version) in
  if has_prefix s_file version then (n ++ AT :: version, (n, []))
  else if is_nil commit then (n ++ AT :: version, (n, fv))
  else (n ++ AT :: commit, (n, [])).

Fixpoint npm_dep_entries (name : bytes) (d : npm_dep) : list (bytes * pkg) :=
  match d with
  | NDep version commit nested =>
      match nested with
      | None => []
      | Some ds => flat_map (fun nd => npm_dep_entries (fst nd) (snd nd)) ds      (* nested dependencies first *)
      end ++ [npm_dep_entry name version commit]
  end.
Definition npm_deps_all (ds : list (bytes * npm_dep)) : list (bytes * pkg) :=
  flat_map (fun nd => npm_dep_entries (fst nd) (snd nd)) ds.
(* same key -> same reported pair, so the map is the entries with duplicate keys removed *)
Definition dedup_entries (es : list (bytes * pkg)) : list pkg :=
  map snd (fold_left (fun d e => amap_set (fst e) (snd e) d) es []).

(* the lockfile: Packages != nil takes precedence *)
Record npm_st := { ns_packages : option (list npm_pkg); ns_dependencies : list (bytes * npm_dep) }.
Definition extract_packagelock (st : npm_st) : outcome (list pkg) :=
  match ns_packages st with
  | Some ps => Ok (npm_packages ps)
  | None => Ok (dedup_entries (npm_deps_all (ns_dependencies st)))
  end.

(* records for the packages map: install location prefix (empty, or ending in '/'), package name
   (plain or @scope/name), version; registry tarballs only (no commit) *)
Record npm_rec := { nr_prefix : bytes; nr_name : bytes; nr_version : bytes }.
Definition s_node_modules : bytes := [110;111;100;101;95;109;111;100;117;108;101;115;47].   (* "node_modules/" *)
Definition npm_rec_path (r : npm_rec) : bytes := nr_prefix r ++ s_node_modules ++ nr_name r.
Definition struct_of_packagelock (root : bool) (rs : list npm_rec) : npm_st :=
  {| ns_packages := Some ((if root then [ {| np_path := []; np_name := [114]; np_version := [49]; np_commit := [] |} ] else []) ++
                          map (fun r => {| np_path := npm_rec_path r; np_name := []; np_version := nr_version r; np_commit := [] |}) rs);
     ns_dependencies := [] |}.
Definition expected_packagelock (rs : list npm_rec) : list pkg := map (fun r => (nr_name r, nr_version r)) rs.
(* plain name: no '/', does not start with '@'; scoped: "@s/n" *)
Definition no_slash (l : bytes) : bool := negb (contains_byte SLASH l).
Definition wf_npm_name (n : bytes) : bool :=
  match n with
  | [] => false
  | c :: _ =>
      if c =? AT then
        match cut SLASH n with
        | Some (s, b) => negb (is_nil b) && no_slash b && negb (has_prefix [AT] b)
        | None => false
        end
      else no_slash n
  end.
Definition wf_npm_prefix (p : bytes) : bool := is_nil p || (last p 0 =? SLASH).
Definition wf_packagelock (rs : list npm_rec) : bool :=
  forallb (fun r => wf_npm_name (nr_name r) && wf_npm_prefix (nr_prefix r) && negb (contains_byte AT (nr_version r))) rs &&
  nodup_pkgs (map (fun r => (nr_name r, nr_version r)) rs).

(* ------------------------------------------------------------------ go.mod *)
Record gomod_replace := { gr_old : bytes; gr_oldv : bytes; gr_new : bytes; gr_newv : bytes }.
Record gomod_st := { gm_require : list pkg; gm_replace : list gomod_replace; gm_go : bytes; gm_toolchain : bytes }.

Definition trim_v (v : bytes) : bytes := match v with 118 :: r => r | _ => v end.   (* strings.TrimPrefix(v, "v") *)
Definition s_go : bytes := [103; 111].
Definition s_stdlib : bytes := [115; 116; 100; 108; 105; 98].
Definition DASH : N := 45.

(* the packages map: key (name, version) -> package (name, version) *)
Definition gkey := pkg.
Fixpoint gmap_set (k : gkey) (v : pkg) (m : list (gkey * pkg)) : list (gkey * pkg) :=
  match m with
  | [] => [(k, v)]
  | (k', v') :: r => if pkg_eqb k k' then (k, v) :: r else (k', v') :: gmap_set k v r
  end.
Fixpoint gmap_mem (k : gkey) (m : list (gkey * pkg)) : bool :=
  match m with [] => false | (k', _) :: r => pkg_eqb k k' || gmap_mem k r end.

Definition gomod_apply_replace (m : list (gkey * pkg)) (rp : gomod_replace) : list (gkey * pkg) :=
  let newp : pkg := (gr_new rp, trim_v (gr_newv rp)) in
  let targets : list gkey :=
    if is_nil (gr_oldv rp) then map fst (filter (fun kv => bytes_eqb (fst (fst kv)) (gr_old rp)) m)
    else let s := (gr_old rp, trim_v (gr_oldv rp)) in if gmap_mem s m then [s] else [] in
  fold_left (fun m' k => gmap_set k newp m') targets m.

Definition gomod_goversion (st : gomod_st) : bytes :=
  if is_nil (gm_toolchain st) then gm_go st
  else
    let v := match cut DASH (gm_toolchain st) with Some (a, _) => a | None => gm_toolchain st end in
    if has_prefix s_go v then skipn 2 v else v.

Definition extract_gomod (st : gomod_st) : outcome (list pkg) :=
  let m0 := fold_left (fun m rq => let p := (fst rq, trim_v (snd rq)) in gmap_set p p m) (gm_require st) [] in
  let m1 := fold_left gomod_apply_replace (gm_replace st) m0 in
  let gv := gomod_goversion st in
  let m2 := if is_nil gv then m1 else gmap_set (s_stdlib, []) (s_stdlib, gv) m1 in
  (* second deduplication pass on the values *)
  Ok (map snd (fold_left (fun d kv => gmap_set (snd kv) (snd kv) d) m2 [])).

(* records: requirements (module path, version without the leading v), replace directives (old path, old
   version or [] for "all versions", new path, new version or [] for a local directory), go and toolchain
   directives *)
Record gomod_rrec := { rr_old : bytes; rr_oldv : bytes; rr_new : bytes; rr_newv : bytes }.
Record gomod_recs := { gq_requires : list pkg; gq_replaces : list gomod_rrec; gq_go : bytes; gq_toolchain : bytes }.
Definition vpre (v : bytes) : bytes := match v with [] => [] | _ => 118 :: v end.
Definition struct_of_gomod (rs : gomod_recs) : gomod_st :=
  {| gm_require := map (fun p => (fst p, 118 :: snd p)) (gq_requires rs);
     gm_replace := map (fun r => {| gr_old := rr_old r; gr_oldv := vpre (rr_oldv r); gr_new := rr_new r; gr_newv := vpre (rr_newv r) |}) (gq_replaces rs);
     gm_go := gq_go rs; gm_toolchain := gq_toolchain rs |}.

(* a replace directive applies to a requirement of its old path, of any version or of the stated one *)
Definition rr_matches (r : gomod_rrec) (q : pkg) : bool :=
  bytes_eqb (fst q) (rr_old r) && (is_nil (rr_oldv r) || bytes_eqb (snd q) (rr_oldv r)).
Definition apply_replaces (rsl : list gomod_rrec) (q : pkg) : pkg :=
  match find (fun r => rr_matches r q) rsl with Some r => (rr_new r, rr_newv r) | None => q end.
(* the Go version reported for stdlib: the toolchain directive "go1.22.3[-suffix]" wins over the go directive *)
Definition stdlib_version (go tc : bytes) : bytes :=
  match tc with
  | [] => go
  | _ => let v := match cut DASH tc with Some (a, _) => a | None => tc end in
         if has_prefix s_go v then skipn 2 v else v
  end.
Definition expected_gomod (rs : gomod_recs) : list pkg :=
  map (apply_replaces (gq_replaces rs)) (gq_requires rs) ++
  (let gv := stdlib_version (gq_go rs) (gq_toolchain rs) in if is_nil gv then [] else [(s_stdlib, gv)]).
(* Go's semantics: every replace directive applies to the ORIGINAL requirements (apply_replaces), never to the
   result of another replace.  The replacement may be a required module or the left side of another directive
   (chains a=>b, b=>c; swaps a=>b, b=>a).
   The extractor matches a directive without a version against the original names too (the keys of its map; fix
   of the former known finding gomod-versionless-replace-transitive).
   wf_gomod: distinct required paths; at most one replace per old path; nothing is called stdlib; the
   resulting (name, version) pairs are pairwise different (else they are one package). *)
Definition wf_gomod (rs : gomod_recs) : bool :=
  let rp := map fst (gq_requires rs) in
  nodup_bytes rp && negb (bytes_mem s_stdlib rp) &&
  nodup_bytes (map rr_old (gq_replaces rs)) &&
  forallb (fun r => negb (bytes_eqb (rr_new r) s_stdlib)) (gq_replaces rs) &&
  nodup_pkgs (map (apply_replaces (gq_replaces rs)) (gq_requires rs)).

(* ------------------------------------------------------------------ correspondence records *)
(* v1: every (name, version) of the nested tree, duplicates removed; claimed for trees whose versions are
   plain registry versions *)
Fixpoint flat_v1 (name : bytes) (d : npm_dep) : list pkg :=
  match d with
  | NDep v c nested =>
      match nested with
      | None => []
      | Some ds => flat_map (fun nd => flat_v1 (fst nd) (snd nd)) ds
      end ++ [(name, v)]
  end.
Definition flat_v1_all (ds : list (bytes * npm_dep)) : list pkg := flat_map (fun nd => flat_v1 (fst nd) (snd nd)) ds.
Fixpoint nodup_keep (l : list pkg) : list pkg :=
  match l with [] => [] | p :: r => if pkg_mem p r then nodup_keep r else p :: nodup_keep r end.
Definition expected_v1 (ds : list (bytes * npm_dep)) : list pkg := nodup_keep (flat_v1_all ds).
(* plain registry versions: no commit, no npm: alias, no file: path, no '@' *)
Fixpoint plain_v1 (d : npm_dep) : bool :=
  match d with
  | NDep v c nested =>
      is_nil c && negb (has_prefix s_npm v) && negb (has_prefix s_file v) && negb (contains_byte AT v) &&
      match nested with
      | None => true
      | Some ds => forallb (fun nd => plain_v1 (snd nd)) ds
      end
  end.
Definition wf_packagelock_v1 (ds : list (bytes * npm_dep)) : bool := forallb (fun nd => plain_v1 (snd nd)) ds.

Record packagelock_case := {
  plc_claim : option (bool * list npm_rec);
  plc_v1_claim : bool;
  plc_st : npm_st;
  plc_obs : outcome (list pkg)
}.
Definition npm_pkg_eqb (a b : npm_pkg) : bool :=
  bytes_eqb (np_path a) (np_path b) && bytes_eqb (np_name a) (np_name b) &&
  bytes_eqb (np_version a) (np_version b) && bytes_eqb (np_commit a) (np_commit b).
Definition packagelock_case_render_ok c :=
  match plc_claim c with
  | None => true
  | Some (root, rs) =>
      match ns_packages (struct_of_packagelock root rs), ns_packages (plc_st c) with
      | Some a, Some b => list_eqb npm_pkg_eqb a b
      | _, _ => false
      end
  end.
Definition packagelock_case_model_ok c := same_outcome (extract_packagelock (plc_st c)) (plc_obs c).
Definition packagelock_case_claimed c :=
  match plc_claim c with
  | None => plc_v1_claim c && forallb (fun nd => plain_v1 (snd nd)) (ns_dependencies (plc_st c))
  | Some (_, rs) => wf_packagelock rs
  end.
Definition packagelock_case_spec_ok c :=
  match plc_claim c with
  | None =>
      (* panics on malformed structures are C02's business (see KNOWN_FINDINGS.d/C02.json) *)
      negb (plc_v1_claim c && forallb (fun nd => plain_v1 (snd nd)) (ns_dependencies (plc_st c))) ||
      same_outcome (plc_obs c) (Ok (expected_v1 (ns_dependencies (plc_st c))))
  | Some (_, rs) => negb (wf_packagelock rs) || same_outcome (plc_obs c) (Ok (expected_packagelock rs))
  end.

Record gomod_case := { gmc_claim : option gomod_recs; gmc_st : gomod_st; gmc_obs : outcome (list pkg) }.
Definition gomod_case_render_ok c :=
  match gmc_claim c with
  | None => true
  | Some rs => list_eqb pkg_eqb (gm_require (struct_of_gomod rs)) (gm_require (gmc_st c)) &&
               bytes_eqb (gm_go (struct_of_gomod rs)) (gm_go (gmc_st c)) &&
               bytes_eqb (gm_toolchain (struct_of_gomod rs)) (gm_toolchain (gmc_st c)) &&
               list_eqb (fun a b => bytes_eqb (gr_old a) (gr_old b) && bytes_eqb (gr_oldv a) (gr_oldv b) &&
                                    bytes_eqb (gr_new a) (gr_new b) && bytes_eqb (gr_newv a) (gr_newv b))
                        (gm_replace (struct_of_gomod rs)) (gm_replace (gmc_st c))
  end.
Definition gomod_case_model_ok c := same_outcome (extract_gomod (gmc_st c)) (gmc_obs c).
Definition gomod_case_claimed c := match gmc_claim c with None => false | Some rs => wf_gomod rs end.
Definition gomod_case_spec_ok c :=
  match gmc_claim c with
  | None => negb (is_panic (gmc_obs c))
  | Some rs => negb (wf_gomod rs) || same_outcome (gmc_obs c) (Ok (expected_gomod rs))
  end.

(* Formats/DpkgProofs.v - round trip for the dpkg status extractor model (incl. the modelled part of
   net/textproto's MIME header reader). *)
From Coq Require Import List NArith Bool Lia.
From Scalibr Require Import Formats.Lines Formats.LinesProofs Formats.Dpkg.
Import ListNotations.
Open Scope N_scope.

(* ------------------------------------------------------------------ ReadLine over rendered lines *)
Definition line_ok0 (le : bytes * eol) : bool := no_nl (fst le) && no_trailing_cr (fst le).

Lemma mime_lines_content c rest :
  no_nl c = true -> no_trailing_cr c = true ->
  (forall d r, rest = d :: r -> True) ->
  mime_lines (c ++ NL :: rest) = c :: mime_lines rest /\
  mime_lines (c ++ CR :: NL :: rest) = c :: mime_lines rest.
Proof.
  intros Hn Ht _. induction c as [|x c IH].
  - unfold NL, CR. cbn. split; reflexivity.
  - cbn [no_nl forallb] in Hn. apply andb_true_iff in Hn as [Hx Hc]. apply negb_true_iff in Hx.
    assert (no_trailing_cr c = true \/ c = []) as Hc2.
    { destruct c as [|y c']; [now right|left]. unfold no_trailing_cr in *.
      change (last (x :: y :: c') 0) with (last (y :: c') 0) in Ht. exact Ht. }
    assert ((x =? CR) && match c ++ NL :: rest with d :: _ => d =? NL | [] => false end = false /\
            (x =? CR) && match c ++ CR :: NL :: rest with d :: _ => d =? NL | [] => false end = false) as [E1 E2].
    { destruct c as [|y c'].
      - unfold no_trailing_cr in Ht. cbn in Ht. apply negb_true_iff in Ht. rewrite Ht. split; reflexivity.
      - cbn [no_nl forallb] in Hc. apply andb_true_iff in Hc as [Hy _]. apply negb_true_iff in Hy.
        cbn [app]. rewrite Hy, !andb_false_r. split; reflexivity. }
    destruct Hc2 as [Hc2|Hc2]; [|subst c].
    + destruct (IH Hc Hc2) as [I1 I2]. cbn [app mime_lines]. rewrite Hx, E1, E2, I1, I2. split; reflexivity.
    + cbn [app mime_lines]. rewrite Hx. cbn [app] in E1, E2. rewrite E1, E2.
      unfold NL, CR. cbn. split; reflexivity.
Qed.

Lemma mime_lines_final c : no_nl c = true -> no_trailing_cr c = true -> c <> [] -> mime_lines c = [c].
Proof.
  induction c as [|x c IH]; intros Hn Ht Hne; [congruence|].
  cbn [no_nl forallb] in Hn. apply andb_true_iff in Hn as [Hx Hc]. apply negb_true_iff in Hx.
  cbn [mime_lines]. rewrite Hx. destruct c as [|y c'].
  - unfold no_trailing_cr in Ht. cbn in Ht. apply negb_true_iff in Ht. rewrite Ht. reflexivity.
  - pose proof Hc as Hc'. cbn [no_nl forallb] in Hc. apply andb_true_iff in Hc as [Hy _]. apply negb_true_iff in Hy.
    rewrite Hy, andb_false_r.
    rewrite IH; [reflexivity|exact Hc'| |discriminate].
    unfold no_trailing_cr in *. exact Ht.
Qed.

Theorem mime_lines_render : forall ls fnl,
  forallb line_ok0 ls = true -> last_line_ok ls fnl = true ->
  (fnl = true \/ last_eol_lf ls = true) ->
  mime_lines (render_lines ls fnl) = map fst ls.
Proof.
  induction ls as [|[c e] r IH]; intros fnl Hok Hlast Hlf; [reflexivity|].
  cbn [forallb] in Hok. apply andb_true_iff in Hok as [Hc Hr].
  unfold line_ok0 in Hc. cbn [fst] in Hc. apply andb_true_iff in Hc as [C1 C2].
  destruct (mime_lines_content c [] C1 C2 (fun _ _ _ => I)) as [M1 M2].
  destruct r as [|ce2 r'].
  - cbn [render_lines map fst]. destruct fnl.
    + destruct e; cbn [eol_bytes]; [rewrite M1 | rewrite M2]; reflexivity.
    + destruct Hlf as [Hlf|Hlf]; [discriminate|]. unfold last_eol_lf in Hlf. cbn in Hlf.
      destruct e; [|discriminate]. cbn [eol_unterminated]. rewrite app_nil_r.
      cbn [last_line_ok orb] in Hlast. rewrite orb_false_r in Hlast.
      apply mime_lines_final; [exact C1|exact C2|]. destruct c; [discriminate|discriminate].
  - change (render_lines ((c, e) :: ce2 :: r') fnl) with (c ++ eol_bytes e ++ render_lines (ce2 :: r') fnl).
    destruct (mime_lines_content c (render_lines (ce2 :: r') fnl) C1 C2 (fun _ _ _ => I)) as [N1 N2].
    assert (mime_lines (render_lines (ce2 :: r') fnl) = map fst (ce2 :: r')) as E.
    { apply IH; [exact Hr|exact Hlast|]. destruct Hlf as [Hlf|Hlf]; [now left|right].
      unfold last_eol_lf in *. exact Hlf. }
    destruct e; cbn [eol_bytes app]; [rewrite N1 | rewrite N2]; rewrite E; reflexivity.
Qed.

(* ------------------------------------------------------------------ blanks: ltrim / rtrim / trim_ws *)
Lemma blank_is_wsb c : blank_byte c = is_wsb c.
Proof. reflexivity. Qed.

Lemma graphic_not_wsb c : graphic c = true -> is_wsb c = false.
Proof.
  unfold graphic, is_wsb, SP, TAB. intros H. apply andb_true_iff in H as [H1 H2]. apply N.leb_le in H1.
  apply orb_false_iff. split; apply N.eqb_neq; lia.
Qed.

Lemma ltrim_blank_app ws s : forallb blank_byte ws = true -> ltrim (ws ++ s) = ltrim s.
Proof.
  induction ws as [|c ws IH]; intros H; [reflexivity|].
  cbn [forallb] in H. apply andb_true_iff in H as [Hc Hw]. cbn [app ltrim]. rewrite <- blank_is_wsb, Hc. now apply IH.
Qed.

Lemma ltrim_nonws c s : is_wsb c = false -> ltrim (c :: s) = c :: s.
Proof. intros H. cbn. now rewrite H. Qed.

Lemma forallb_wsb_has_nonws a z b : is_wsb z = false -> forallb is_wsb (a ++ z :: b) = false.
Proof. intros H. rewrite forallb_app. cbn [forallb]. rewrite H. now rewrite andb_false_r. Qed.

Lemma rtrim_keep a z b : is_wsb z = false -> rtrim (a ++ z :: b) = a ++ z :: rtrim b.
Proof.
  intros H. induction a as [|x a IH].
  - cbn [app rtrim]. change (forallb is_wsb (z :: b)) with (forallb is_wsb ([] ++ z :: b)).
    now rewrite forallb_wsb_has_nonws.
  - cbn [app rtrim]. change (x :: a ++ z :: b) with ((x :: a) ++ z :: b).
    rewrite forallb_wsb_has_nonws by exact H. cbn [app]. now rewrite IH.
Qed.

Lemma rtrim_blank ws : forallb blank_byte ws = true -> rtrim ws = [].
Proof. destruct ws as [|c ws]; [reflexivity|]. intros H. cbn [rtrim]. change is_wsb with blank_byte. now rewrite H. Qed.

Lemma rtrim_forall (P : N -> bool) s : forallb P s = true -> forallb P (rtrim s) = true.
Proof.
  induction s as [|c s IH]; intros H; [reflexivity|].
  cbn [forallb] in H. apply andb_true_iff in H as [H1 H2]. cbn [rtrim].
  destruct (forallb is_wsb (c :: s)); [reflexivity|]. cbn [forallb]. now rewrite H1, IH.
Qed.
Lemma ltrim_forall (P : N -> bool) s : forallb P s = true -> forallb P (ltrim s) = true.
Proof.
  induction s as [|c s IH]; intros H; [reflexivity|].
  pose proof H as H'. cbn [forallb] in H. apply andb_true_iff in H as [H1 H2]. cbn [ltrim].
  destruct (is_wsb c); [now apply IH|exact H'].
Qed.
Lemma trim_ws_forall (P : N -> bool) s : forallb P s = true -> forallb P (trim_ws s) = true.
Proof. intros H. unfold trim_ws. now apply rtrim_forall, ltrim_forall. Qed.

(* a line that starts and ends with non-blank bytes is its own trim *)
Lemma trim_ws_id a z : starts_ws (a ++ [z]) = false -> is_wsb z = false -> trim_ws (a ++ [z]) = a ++ [z].
Proof.
  intros Hs Hz. unfold trim_ws.
  assert (ltrim (a ++ [z]) = a ++ [z]) as ->.
  { destruct a as [|x a]; cbn [app] in *; [now apply ltrim_nonws|]. cbn [starts_ws] in Hs. now apply ltrim_nonws. }
  rewrite rtrim_keep by exact Hz. reflexivity.
Qed.

(* ------------------------------------------------------------------ one field = first line + continuation lines *)
Definition joined (first : bytes) (conts : list bytes) : bytes :=
  fold_left (fun buf c => buf ++ SP :: trim_ws c) conts (trim_ws first).

Lemma fold_join_app conts : forall a b,
  fold_left (fun buf c => buf ++ SP :: trim_ws c) conts (a ++ b) =
  a ++ fold_left (fun buf c => buf ++ SP :: trim_ws c) conts b.
Proof. induction conts as [|c conts IH]; intros a b; [reflexivity|]. cbn [fold_left]. rewrite <- app_assoc. apply IH. Qed.

Lemma conts_step sd conts : forall rest m buf,
  forallb starts_ws conts = true ->
  dpkg_lines sd (conts ++ rest) m (Some buf) =
  dpkg_lines sd rest m (Some (fold_left (fun b c => b ++ SP :: trim_ws c) conts buf)).
Proof.
  induction conts as [|c conts IH]; intros rest m buf H; [reflexivity|].
  cbn [forallb] in H. apply andb_true_iff in H as [Hc Hr].
  cbn [app dpkg_lines]. rewrite Hc. cbn [fold_left]. now apply IH.
Qed.

Lemma group_step sd first conts rest m pend m0 :
  starts_ws first = false -> first <> [] -> contains_byte COLON first = true ->
  forallb starts_ws conts = true -> mime_flush pend m = Some m0 ->
  dpkg_lines sd ((first :: conts) ++ rest) m pend = dpkg_lines sd (conts ++ rest) m0 (Some (trim_ws first)).
Proof.
  intros Hs Hne Hc Hcs Hf. cbn [app dpkg_lines]. destruct pend as [buf|]; cbn [mime_flush] in Hf.
  - rewrite Hs, Hf. destruct first; [congruence|]. now rewrite Hc.
  - inversion Hf; subst m0. rewrite Hs. destruct first; [congruence|]. now rewrite Hc.
Qed.

(* ------------------------------------------------------------------ what one field contributes to the header *)
Lemma field_byte_facts c : field_byte c = true -> c <> COLON /\ is_wsb c = false /\ c <> SP.
Proof.
  intros H. repeat split.
  - intros ->. discriminate.
  - destruct (is_wsb c) eqn:E; [|reflexivity]. unfold is_wsb in E. apply orb_true_iff in E as [E|E]; apply N.eqb_eq in E; subst; discriminate.
  - intros ->. discriminate.
Qed.

Lemma field_bytes_no_colon k : forallb field_byte k = true -> contains_byte COLON k = false.
Proof.
  induction k as [|c k IH]; intros H; [reflexivity|].
  cbn [forallb] in H. apply andb_true_iff in H as [H1 H2]. cbn [contains_byte].
  destruct (field_byte_facts c H1) as (N1 & _). apply N.eqb_neq in N1. now rewrite N1, IH.
Qed.

Lemma text_value c : text_byte c = true -> value_byte c = true.
Proof.
  unfold text_byte, value_byte, TAB. intros H. apply orb_true_iff in H as [H|H].
  - now rewrite H, orb_true_r.
  - now rewrite H, orb_true_r.
Qed.
Lemma graphic_value c : graphic c = true -> value_byte c = true.
Proof. intros H. apply text_value. now destruct (graphic_facts c H) as (_ & _ & _ & _ & ?). Qed.
Lemma blank_value c : blank_byte c = true -> value_byte c = true.
Proof. intros H. apply text_value. now destruct (blank_facts c H) as (_ & _ & ?). Qed.
Lemma forallb_impl {A} (P Q : A -> bool) l : (forall x, P x = true -> Q x = true) -> forallb P l = true -> forallb Q l = true.
Proof. intros HI H. apply forallb_forall. intros x Hx. rewrite forallb_forall in H. auto. Qed.

(* a single-line field "key:gap val" whose key is canonical and whose value starts/ends non-blank *)
Lemma simple_field_kv key gap val m :
  key <> [] -> starts_ws key = false -> contains_byte COLON key = false -> canon_key key = Some key ->
  forallb blank_byte gap = true -> forallb value_byte val = true ->
  val <> [] -> starts_ws val = false -> is_wsb (last val 0) = false ->
  let line := key ++ COLON :: gap ++ val in
  starts_ws line = false /\ line <> [] /\ contains_byte COLON line = true /\
  mime_kv (joined line []) m = Some (m ++ [(key, val)]).
Proof.
  intros Hk Hks Hkc Hcan Hg Hv Hne Hvs Hvl line.
  assert (starts_ws line = false) as S1 by (unfold line; destruct key; [congruence|exact Hks]).
  split; [exact S1|]. split; [unfold line; destruct key; discriminate|].
  split; [unfold line; rewrite contains_byte_app; cbn [contains_byte]; now rewrite N.eqb_refl, orb_true_r|].
  destruct (exists_last Hne) as (p & z & Ep).
  assert (is_wsb z = false) as Hz by (rewrite Ep, last_last in Hvl; exact Hvl).
  unfold joined. cbn [fold_left].
  assert (line = (key ++ COLON :: gap ++ p) ++ [z]) as El
    by (unfold line; rewrite Ep, <- !app_assoc; cbn [app]; now rewrite <- app_assoc).
  rewrite El, trim_ws_id; [|rewrite <- El; exact S1|exact Hz]. rewrite <- El. unfold line.
  unfold mime_kv. rewrite (cut_app COLON _ _ Hkc), Hcan.
  rewrite forallb_app, (forallb_impl _ _ _ blank_value Hg), Hv. cbn [andb].
  rewrite ltrim_blank_app by exact Hg. destruct val as [|v0 val']; [congruence|].
  cbn [starts_ws] in Hvs. now rewrite ltrim_nonws.
Qed.

Lemma word_parts w : word w = true -> w <> [] /\ forallb graphic w = true.
Proof. unfold word. intros H. apply andb_true_iff in H as [H1 H2]. split; [destruct w; discriminate|exact H2]. Qed.

Lemma graphic_last w : w <> [] -> forallb graphic w = true -> graphic (last w 0) = true.
Proof.
  intros Hne H. destruct (exists_last Hne) as (p & z & ->). rewrite last_last.
  rewrite forallb_app in H. apply andb_true_iff in H as [_ H]. cbn in H. now rewrite andb_true_r in H.
Qed.

Lemma graphic_starts w : w <> [] -> forallb graphic w = true -> starts_ws w = false.
Proof.
  destruct w as [|c w]; [congruence|]. intros _ H. cbn [forallb] in H. apply andb_true_iff in H as [H _].
  cbn. now apply graphic_not_wsb.
Qed.

Lemma last_app_nonempty {A} (a b : list A) d : b <> [] -> last (a ++ b) d = last b d.
Proof. intros H. destruct b as [|x b]; [congruence|]. apply last_app_cons. Qed.

(* ------------------------------------------------------------------ abstract fields of a stanza *)
Inductive afield := AP | AV | AS (st : bytes * bytes * bytes) | AF (f : dfield).

Definition afields (r : dpkg_rec) (y : dpkg_rlay) : list afield :=
  insert_at (dl_posP y) AP
    (insert_at (dl_posV y) AV
       (match dr_status r with
        | None => map AF (dr_fields r)
        | Some st => insert_at (dl_posS y) (AS st) (map AF (dr_fields r))
        end)).

Definition aflines (r : dpkg_rec) (y : dpkg_rlay) (a : afield) : list bytes :=
  match a with
  | AP => [kPackage ++ COLON :: dl_gap y ++ dr_name r]
  | AV => [kVersion ++ COLON :: dl_gap y ++ dr_version r]
  | AS st => [kStatus ++ COLON :: dl_gap y ++ status_text st]
  | AF f => dfield_lines f
  end.

Definition source_value (name : bytes) (ver : option bytes) : bytes :=
  name ++ match ver with None => [] | Some v => SP :: 40 :: v ++ [41] end.

Definition other_value (lead value trail : bytes) (conts : list (bytes * bytes)) : bytes :=
  ltrim (fold_left (fun b c => b ++ SP :: trim_ws c) (map (fun wt => fst wt ++ snd wt) conts) (rtrim (lead ++ value ++ trail))).

Definition afkv (r : dpkg_rec) (a : afield) : bytes * bytes :=
  match a with
  | AP => (kPackage, dr_name r)
  | AV => (kVersion, dr_version r)
  | AS st => (kStatus, status_text st)
  | AF (DSource n v) => (kSource, source_value n v)
  | AF (DOther key lead value trail conts) =>
      (match canon_key key with Some k => k | None => [] end, other_value lead value trail conts)
  end.

Lemma map_insert_at {A B} (f : A -> B) n x l : map f (insert_at n x l) = insert_at n (f x) (map f l).
Proof. unfold insert_at. now rewrite map_app, firstn_map, skipn_map. Qed.

Lemma groups_eq r y : dpkg_groups r y = map (aflines r y) (afields r y).
Proof.
  unfold dpkg_groups, afields. rewrite !map_insert_at. cbn [aflines].
  destruct (dr_status r) as [st|].
  - rewrite map_insert_at, map_map. reflexivity.
  - rewrite map_map. reflexivity.
Qed.

Definition wf_afield (sd : bool) (r : dpkg_rec) (y : dpkg_rlay) (a : afield) : Prop :=
  match a with
  | AP | AV => True
  | AS st => dr_status r = Some st
  | AF f => wf_dfield f = true
  end.

Definition group_ok (ls : list bytes) (kv : bytes * bytes) : Prop :=
  exists first conts,
    ls = first :: conts /\ starts_ws first = false /\ first <> [] /\ contains_byte COLON first = true /\
    forallb starts_ws conts = true /\ forall m, mime_kv (joined first conts) m = Some (m ++ [kv]).

Lemma wf_dpkg_rec_parts sd r : wf_dpkg_rec sd r = true ->
  word (dr_name r) = true /\ word (dr_version r) = true /\
  match dr_status r with Some (a, b, c) => word a = true /\ word b = true /\ word c = true | None => sd = true end /\
  forallb wf_dfield (dr_fields r) = true.
Proof.
  unfold wf_dpkg_rec. intros H. apply andb_true_iff in H as [H H4]. apply andb_true_iff in H as [H H3].
  apply andb_true_iff in H as [H1 H2]. repeat split; auto.
  destruct (dr_status r) as [[[a b] c]|]; [|exact H3].
  apply andb_true_iff in H3 as [H3 H7]. apply andb_true_iff in H3 as [H5 H6]. auto.
Qed.

Lemma status_text_facts a b c : word a = true -> word b = true -> word c = true ->
  let t := status_text (a, b, c) in
  forallb value_byte t = true /\ t <> [] /\ starts_ws t = false /\ is_wsb (last t 0) = false.
Proof.
  intros Ha Hb Hc. apply word_parts in Ha as [A1 A2], Hb as [B1 B2], Hc as [C1 C2]. cbn [status_text].
  repeat split.
  - rewrite forallb_app. cbn [forallb]. rewrite forallb_app. cbn [forallb].
    rewrite (forallb_impl _ _ _ graphic_value A2), (forallb_impl _ _ _ graphic_value B2), (forallb_impl _ _ _ graphic_value C2).
    reflexivity.
  - destruct a; discriminate.
  - destruct a as [|x a]; [congruence|]. cbn [forallb] in A2. apply andb_true_iff in A2 as [A2 _]. cbn. now apply graphic_not_wsb.
  - rewrite last_app_cons. change (SP :: b ++ SP :: c) with ((SP :: b) ++ SP :: c). rewrite last_app_cons.
    change (SP :: c) with ([SP] ++ c). rewrite last_app_nonempty by exact C1.
    apply graphic_not_wsb. now apply graphic_last.
Qed.

Lemma key_facts_P : kPackage <> [] /\ starts_ws kPackage = false /\ contains_byte COLON kPackage = false /\ canon_key kPackage = Some kPackage.
Proof. repeat split; try reflexivity. discriminate. Qed.
Lemma key_facts_V : kVersion <> [] /\ starts_ws kVersion = false /\ contains_byte COLON kVersion = false /\ canon_key kVersion = Some kVersion.
Proof. repeat split; try reflexivity. discriminate. Qed.
Lemma key_facts_S : kStatus <> [] /\ starts_ws kStatus = false /\ contains_byte COLON kStatus = false /\ canon_key kStatus = Some kStatus.
Proof. repeat split; try reflexivity. discriminate. Qed.
Lemma key_facts_Src : kSource <> [] /\ starts_ws kSource = false /\ contains_byte COLON kSource = false /\ canon_key kSource = Some kSource.
Proof. repeat split; try reflexivity. discriminate. Qed.

Lemma word_value_facts w : word w = true ->
  forallb value_byte w = true /\ w <> [] /\ starts_ws w = false /\ is_wsb (last w 0) = false.
Proof.
  intros H. apply word_parts in H as [H1 H2]. repeat split; auto.
  - now apply (forallb_impl _ _ _ graphic_value).
  - now apply graphic_starts.
  - apply graphic_not_wsb. now apply graphic_last.
Qed.

Lemma simple_group_ok key gap val :
  key <> [] /\ starts_ws key = false /\ contains_byte COLON key = false /\ canon_key key = Some key ->
  forallb blank_byte gap = true ->
  forallb value_byte val = true /\ val <> [] /\ starts_ws val = false /\ is_wsb (last val 0) = false ->
  group_ok [key ++ COLON :: gap ++ val] (key, val).
Proof.
  intros (K1 & K2 & K3 & K4) Hg (V1 & V2 & V3 & V4).
  destruct (simple_field_kv key gap val [] K1 K2 K3 K4 Hg V1 V2 V3 V4) as (S1 & S2 & S3 & _).
  exists (key ++ COLON :: gap ++ val), []. repeat split; auto.
  intros m. now destruct (simple_field_kv key gap val m K1 K2 K3 K4 Hg V1 V2 V3 V4) as (_ & _ & _ & E).
Qed.

Lemma source_value_facts n v : negb (is_nil n) && all_graphic n && match v with None => true | Some v => all_graphic v end = true ->
  forallb value_byte (source_value n v) = true /\ source_value n v <> [] /\ starts_ws (source_value n v) = false /\
  is_wsb (last (source_value n v) 0) = false /\ source_bad (source_value n v) = false.
Proof.
  intros H. apply andb_true_iff in H as [H H3]. apply andb_true_iff in H as [H1 H2].
  assert (n <> []) as Hn by (destruct n; discriminate). unfold all_graphic in *.
  unfold source_value. destruct v as [v|].
  - repeat split.
    + rewrite forallb_app. cbn [forallb]. rewrite forallb_app. cbn [forallb].
      now rewrite (forallb_impl _ _ _ graphic_value H2), (forallb_impl _ _ _ graphic_value H3).
    + destruct n; discriminate.
    + destruct n as [|x n]; [congruence|]. cbn [forallb] in H2. apply andb_true_iff in H2 as [H2 _]. cbn. now apply graphic_not_wsb.
    + rewrite last_app_cons. change (SP :: 40 :: v ++ [41]) with ((SP :: 40 :: v) ++ [41]). now rewrite last_last.
    + unfold source_bad. rewrite last_app_cons. change (SP :: 40 :: v ++ [41]) with ((SP :: 40 :: v) ++ [41]).
      rewrite last_last. cbn. now rewrite !andb_false_r.
  - rewrite app_nil_r. repeat split.
    + now apply (forallb_impl _ _ _ graphic_value).
    + exact Hn.
    + now apply graphic_starts.
    + apply graphic_not_wsb. now apply graphic_last.
    + unfold source_bad. assert (contains_sp_paren n = false) as ->; [|now rewrite andb_false_r].
      clear Hn H1. induction n as [|c n IH]; [reflexivity|]. cbn [forallb] in H2. apply andb_true_iff in H2 as [Hc Hn].
      cbn [contains_sp_paren]. destruct n as [|d n']; [reflexivity|].
      assert (c =? SP = false) as -> by (apply N.eqb_neq; intros ->; discriminate). cbn [andb orb]. now apply IH.
Qed.

Lemma fold_join_forall (P : N -> bool) conts : P SP = true ->
  forall buf, forallb P buf = true -> forallb (forallb P) conts = true ->
  forallb P (fold_left (fun b c => b ++ SP :: trim_ws c) conts buf) = true.
Proof.
  intros HS. induction conts as [|c conts IH]; intros buf Hb Hc; [exact Hb|].
  cbn [forallb] in Hc. apply andb_true_iff in Hc as [H1 H2]. cbn [fold_left]. apply IH; [|exact H2].
  rewrite forallb_app. cbn [forallb]. now rewrite Hb, HS, trim_ws_forall.
Qed.

Lemma other_group_ok key lead value trail conts :
  wf_dfield (DOther key lead value trail conts) = true ->
  group_ok (dfield_lines (DOther key lead value trail conts))
           (match canon_key key with Some k => k | None => [] end, other_value lead value trail conts).
Proof.
  cbn [wf_dfield]. intros H. apply andb_true_iff in H as [H H5]. apply andb_true_iff in H as [H H4].
  apply andb_true_iff in H as [H H3]. apply andb_true_iff in H as [H1 H2].
  unfold wf_other_key in H1. apply andb_true_iff in H1 as [K1 K2].
  destruct (canon_key key) as [k'|] eqn:Ek; [|discriminate].
  assert (key <> []) as Kne by (intros ->; discriminate).
  assert (contains_byte COLON key = false) as Kc by now apply field_bytes_no_colon.
  assert (starts_ws key = false) as Ks.
  { destruct key as [|c key]; [congruence|]. cbn [forallb] in K1. apply andb_true_iff in K1 as [K1 _].
    cbn. now destruct (field_byte_facts c K1) as (_ & ? & _). }
  set (R := lead ++ value ++ trail).
  set (cl := map (fun wt : bytes * bytes => fst wt ++ snd wt) conts).
  exists (key ++ COLON :: R), cl. unfold all_blank, all_text in *.
  assert (forallb value_byte R = true) as RV.
  { unfold R. rewrite !forallb_app. now rewrite (forallb_impl _ _ _ blank_value H2), (forallb_impl _ _ _ text_value H3), (forallb_impl _ _ _ blank_value H4). }
  assert (forallb starts_ws cl = true /\ forallb (forallb value_byte) cl = true) as [CW CV].
  { unfold cl. clear -H5. induction conts as [|[w t] conts IH]; [split; reflexivity|].
    cbn [forallb fst snd] in H5. apply andb_true_iff in H5 as [H5 H6]. apply andb_true_iff in H5 as [H5 T]. apply andb_true_iff in H5 as [W1 W2].
    destruct (IH H6) as [I1 I2]. cbn [map forallb fst snd]. rewrite I1, I2, !andb_true_r. split.
    - destruct w as [|c w]; [discriminate|]. cbn [all_blank forallb] in W2. apply andb_true_iff in W2 as [W2 _]. cbn. exact W2.
    - rewrite forallb_app. unfold all_blank, all_text in *. now rewrite (forallb_impl _ _ _ blank_value W2), (forallb_impl _ _ _ text_value T). }
  split; [reflexivity|]. split; [destruct key; [congruence|exact Ks]|]. split; [destruct key; discriminate|].
  split; [rewrite contains_byte_app; cbn [contains_byte]; now rewrite N.eqb_refl, orb_true_r|].
  split; [exact CW|]. intros m.
  unfold joined, trim_ws.
  assert (ltrim (key ++ COLON :: R) = key ++ COLON :: R) as ->.
  { destruct key as [|c key]; [congruence|]. cbn [app]. cbn [starts_ws] in Ks. now apply ltrim_nonws. }
  rewrite rtrim_keep by reflexivity.
  change (key ++ COLON :: rtrim R) with (key ++ [COLON] ++ rtrim R). rewrite app_assoc, fold_join_app, <- app_assoc.
  cbn [app]. unfold mime_kv. rewrite (cut_app COLON _ _ Kc), Ek.
  rewrite fold_join_forall; [reflexivity|reflexivity|now apply rtrim_forall|exact CV].
Qed.

Lemma afield_group_ok sd r y a :
  wf_dpkg_rec sd r = true -> forallb blank_byte (dl_gap y) = true -> wf_afield sd r y a ->
  group_ok (aflines r y a) (afkv r a).
Proof.
  intros Hr Hg Ha. apply wf_dpkg_rec_parts in Hr as (N & V & S & F).
  destruct a as [| |[[sa sb] sc]|f]; cbn [aflines afkv].
  - apply simple_group_ok; [apply key_facts_P|exact Hg|now apply word_value_facts].
  - apply simple_group_ok; [apply key_facts_V|exact Hg|now apply word_value_facts].
  - cbn [wf_afield] in Ha. rewrite Ha in S. destruct S as (A & B & C).
    apply simple_group_ok; [apply key_facts_S|exact Hg|now apply status_text_facts].
  - cbn [wf_afield] in Ha. destruct f as [key lead value trail conts|n v].
    + now apply other_group_ok.
    + cbn [dfield_lines]. cbn [wf_dfield] in Ha. destruct (source_value_facts n v Ha) as (S1 & S2 & S3 & S4 & _).
      change (kSource ++ COLON :: SP :: n ++ match v with None => [] | Some v0 => SP :: 40 :: v0 ++ [41] end)
        with (kSource ++ COLON :: [SP] ++ source_value n v).
      apply simple_group_ok; [apply key_facts_Src|reflexivity|auto].
Qed.

(* ------------------------------------------------------------------ all fields of a stanza *)
Lemma afs_run sd r y : forall afs rest m pend m0,
  (forall a, In a afs -> group_ok (aflines r y a) (afkv r a)) -> afs <> [] ->
  mime_flush pend m = Some m0 ->
  exists buf,
    dpkg_lines sd (concat (map (aflines r y) afs) ++ rest) m pend =
    dpkg_lines sd rest (m0 ++ removelast (map (afkv r) afs)) (Some buf) /\
    mime_kv buf (m0 ++ removelast (map (afkv r) afs)) = Some (m0 ++ map (afkv r) afs).
Proof.
  induction afs as [|a afs IH]; intros rest m pend m0 Hok Hne Hf; [congruence|].
  destruct (Hok a (or_introl eq_refl)) as (first & conts & E & G1 & G2 & G3 & G4 & G5).
  cbn [map concat]. rewrite E, <- app_assoc.
  rewrite (group_step sd first conts _ m pend m0 G1 G2 G3 G4 Hf).
  rewrite conts_step by exact G4. fold (joined first conts).
  destruct afs as [|a2 afs'].
  - cbn [map concat app removelast]. rewrite app_nil_r. exists (joined first conts). split; [reflexivity|apply G5].
  - destruct (IH rest m0 (Some (joined first conts)) (m0 ++ [afkv r a])) as (buf & E1 & E2);
      [intros x Hx; apply Hok; now right|discriminate|cbn [mime_flush]; apply G5|].
    exists buf.
    assert (forall (l : list (bytes * bytes)) x, l <> [] -> removelast (x :: l) = x :: removelast l) as RL
      by (intros l x Hl; destruct l; [congruence|reflexivity]).
    rewrite (RL (map (afkv r) (a2 :: afs')) (afkv r a)) by discriminate.
    assert (forall X : list (bytes * bytes), m0 ++ afkv r a :: X = (m0 ++ [afkv r a]) ++ X) as AA
      by (intros X; now rewrite <- app_assoc).
    rewrite (AA (removelast (map (afkv r) (a2 :: afs')))). cbn [map]. rewrite (AA (afkv r a2 :: map (afkv r) afs')).
    split; [exact E1|exact E2].
Qed.

(* ------------------------------------------------------------------ the header of a well-formed stanza *)
Lemma in_afields r y a :
  In a (afields r y) <->
  a = AP \/ a = AV \/ (exists st, dr_status r = Some st /\ a = AS st) \/ (exists f, In f (dr_fields r) /\ a = AF f).
Proof.
  unfold afields. rewrite !in_insert_at. destruct (dr_status r) as [st|].
  - rewrite in_insert_at, in_map_iff. split.
    + intros [->|[->|[->|(f & <- & Hf)]]]; eauto 6.
    + intros [->|[->|[(st' & E & ->)|(f & Hf & ->)]]]; auto; [inversion E; auto|]. right. right. right. eauto.
  - rewrite in_map_iff. split.
    + intros [->|[->|(f & <- & Hf)]]; eauto 6.
    + intros [->|[->|[(st' & E & _)|(f & Hf & ->)]]]; auto; [discriminate|]. right. right. eauto.
Qed.

Lemma afields_wf sd r y a : wf_dpkg_rec sd r = true -> In a (afields r y) -> wf_afield sd r y a.
Proof.
  intros Hr Hin. apply wf_dpkg_rec_parts in Hr as (_ & _ & _ & F). apply in_afields in Hin.
  destruct Hin as [->|[->|[(st & E & ->)|(f & Hf & ->)]]]; cbn [wf_afield]; auto.
  rewrite forallb_forall in F. now apply F.
Qed.

(* which abstract field can carry a given special key *)
Lemma afkv_other_key r f : wf_dfield f = true ->
  fst (afkv r (AF f)) <> kPackage /\ fst (afkv r (AF f)) <> kVersion /\ fst (afkv r (AF f)) <> kStatus.
Proof.
  destruct f as [key lead value trail conts|n v]; cbn [afkv fst].
  - cbn [wf_dfield]. intros H. apply andb_true_iff in H as [H _]. apply andb_true_iff in H as [H _].
    apply andb_true_iff in H as [H _]. apply andb_true_iff in H as [H _].
    unfold wf_other_key in H. apply andb_true_iff in H as [_ H].
    destruct (canon_key key) as [k'|]; [|discriminate]. apply negb_true_iff in H.
    unfold special_key in H. apply orb_false_iff in H as [H _]. apply orb_false_iff in H as [H H3]. apply orb_false_iff in H as [H1 H2].
    apply bytes_eqb_neq in H1, H2, H3. auto.
  - intros _. repeat split; discriminate.
Qed.

Lemma aget_nil k m : (forall v, ~ In (k, v) m) -> aget k m = [].
Proof.
  induction m as [|[k' v] m IH]; intros H; [reflexivity|].
  cbn [aget]. destruct (bytes_eqb k k') eqn:E.
  - apply bytes_eqb_eq in E. subst. exfalso. apply (H v). now left.
  - apply IH. intros v' Hin. apply (H v'). now right.
Qed.

Lemma aget_in_or_nil k m : aget k m = [] \/ In (k, aget k m) m.
Proof.
  induction m as [|[k' v] m IH]; [now left|].
  cbn [aget]. destruct (bytes_eqb k k') eqn:E.
  - apply bytes_eqb_eq in E. subst. right. now left.
  - destruct IH as [IH|IH]; [now left|right; now right].
Qed.

Section Stanza.
Variables (sd : bool) (r : dpkg_rec) (y : dpkg_rlay).
Hypothesis Hr : wf_dpkg_rec sd r = true.
Let kvs := map (afkv r) (afields r y).

Lemma kvs_in k v : In (k, v) kvs -> exists a, In a (afields r y) /\ afkv r a = (k, v).
Proof. unfold kvs. intros H. apply in_map_iff in H as (a & E & Hin). eauto. Qed.

Lemma kvs_package : aget kPackage kvs = dr_name r.
Proof.
  apply aget_unique.
  - unfold kvs. apply in_map_iff. exists AP. split; [reflexivity|]. apply in_afields. auto.
  - intros v' Hin. apply kvs_in in Hin as (a & Ha & E). pose proof (afields_wf sd r y a Hr Ha) as W.
    destruct a as [| |st|f]; try (cbn [afkv] in E; inversion E; fail).
    + cbn [afkv] in E. now inversion E.
    + destruct (afkv_other_key r f W) as (N1 & _). rewrite E in N1. cbn in N1. congruence.
Qed.

Lemma kvs_version : aget kVersion kvs = dr_version r.
Proof.
  apply aget_unique.
  - unfold kvs. apply in_map_iff. exists AV. split; [reflexivity|]. apply in_afields. auto.
  - intros v' Hin. apply kvs_in in Hin as (a & Ha & E). pose proof (afields_wf sd r y a Hr Ha) as W.
    destruct a as [| |st|f]; try (cbn [afkv] in E; inversion E; fail).
    + cbn [afkv] in E. now inversion E.
    + destruct (afkv_other_key r f W) as (_ & N1 & _). rewrite E in N1. cbn in N1. congruence.
Qed.

Lemma kvs_status : aget kStatus kvs = match dr_status r with Some st => status_text st | None => [] end.
Proof.
  destruct (dr_status r) as [st|] eqn:Es.
  - apply aget_unique.
    + unfold kvs. apply in_map_iff. exists (AS st). split; [reflexivity|]. apply in_afields. right. right. left. eauto.
    + intros v' Hin. apply kvs_in in Hin as (a & Ha & E). pose proof (afields_wf sd r y a Hr Ha) as W.
      destruct a as [| |st'|f]; try (cbn [afkv] in E; inversion E; fail).
      * cbn [wf_afield] in W. rewrite Es in W. inversion W; subst. cbn [afkv] in E. now inversion E.
      * destruct (afkv_other_key r f W) as (_ & _ & N1). rewrite E in N1. cbn in N1. congruence.
  - apply aget_nil. intros v Hin. apply kvs_in in Hin as (a & Ha & E). pose proof (afields_wf sd r y a Hr Ha) as W.
    destruct a as [| |st'|f]; try (cbn [afkv] in E; inversion E; fail).
    + cbn [wf_afield] in W. rewrite Es in W. discriminate.
    + destruct (afkv_other_key r f W) as (_ & _ & N1). rewrite E in N1. cbn in N1. congruence.
Qed.

Lemma kvs_source_ok : source_bad (aget kSource kvs) = false.
Proof.
  pose proof (aget_in_or_nil kSource kvs) as [E|Hin]; [now rewrite E|].
  apply kvs_in in Hin as (a & Ha & E). pose proof (afields_wf sd r y a Hr Ha) as W.
  destruct a as [| |st'|f]; try (cbn [afkv] in E; inversion E; fail).
  cbn [afkv] in E. destruct f as [key lead value trail conts|n v].
  - exfalso. cbn [wf_afield wf_dfield] in W. apply andb_true_iff in W as [W _]. apply andb_true_iff in W as [W _].
    apply andb_true_iff in W as [W _]. apply andb_true_iff in W as [W _].
    unfold wf_other_key in W. apply andb_true_iff in W as [_ W].
    destruct (canon_key key) as [k'|]; [|discriminate]. apply negb_true_iff in W.
    unfold special_key in W. apply orb_false_iff in W as [_ W]. apply bytes_eqb_neq in W. inversion E. congruence.
  - injection E as E2. rewrite <- E2. cbn [wf_afield wf_dfield] in W. now destruct (source_value_facts n v W) as (_ & _ & _ & _ & ?).
Qed.

Lemma kvs_nonempty : kvs <> [].
Proof.
  intros E. assert (In (afkv r AP) kvs) as H by (unfold kvs; apply in_map; apply in_afields; auto).
  rewrite E in H. contradiction.
Qed.
End Stanza.

Lemma split_sp_word w rest : forallb graphic w = true -> split_sp (w ++ SP :: rest) = w :: split_sp rest.
Proof.
  induction w as [|c w IH]; intros H.
  - cbn. reflexivity.
  - cbn [forallb] in H. apply andb_true_iff in H as [Hc Hw]. cbn [app split_sp].
    assert (c =? SP = false) as -> by (apply N.eqb_neq; intros ->; discriminate).
    now rewrite (IH Hw).
Qed.
Lemma split_sp_last w : forallb graphic w = true -> split_sp w = [w].
Proof.
  induction w as [|c w IH]; intros H; [reflexivity|].
  cbn [forallb] in H. apply andb_true_iff in H as [Hc Hw]. cbn [split_sp].
  assert (c =? SP = false) as -> by (apply N.eqb_neq; intros ->; discriminate).
  now rewrite (IH Hw).
Qed.

Lemma stanza_ok sd r y : wf_dpkg_rec sd r = true ->
  dpkg_stanza sd (map (afkv r) (afields r y)) =
  Ok (if rec_installed sd r then [(dr_name r, dr_version r)] else []).
Proof.
  intros Hr. pose proof (kvs_nonempty r y) as Hne.
  unfold dpkg_stanza. destruct (map (afkv r) (afields r y)) as [|kv0 rest] eqn:Ek; [congruence|]. rewrite <- Ek. clear Ek Hne kv0 rest.
  rewrite (kvs_package sd r y Hr), (kvs_version sd r y Hr), (kvs_status sd r y Hr), (kvs_source_ok sd r y Hr).
  apply wf_dpkg_rec_parts in Hr as (N & V & S & _). apply word_parts in N as [N1 _], V as [V1 _].
  unfold rec_installed. destruct (dr_status r) as [[[a b] c]|].
  - destruct S as (A & B & C). apply word_parts in A as [A1 A2], B as [B1 B2], C as [C1 C2].
    assert (is_nil (status_text (a, b, c)) = false) as -> by (cbn [status_text]; destruct a; [congruence|reflexivity]).
    rewrite orb_true_r. cbn [negb status_text].
    rewrite (split_sp_word a _ A2), (split_sp_word b _ B2), (split_sp_last c C2).
    cbn [length Nat.eqb negb index nth_error bind].
    destruct (bytes_eqb c s_installed); cbn [negb]; [|reflexivity].
    destruct (dr_name r); [congruence|]. destruct (dr_version r); [congruence|]. reflexivity.
  - subst sd. cbn [negb orb is_nil bind].
    destruct (dr_name r); [congruence|]. destruct (dr_version r); [congruence|]. reflexivity.
Qed.

(* ------------------------------------------------------------------ one stanza, then all of them *)
Lemma afields_nonempty r y : afields r y <> [].
Proof.
  intros E. assert (In AP (afields r y)) as H by (apply in_afields; auto). rewrite E in H. contradiction.
Qed.

Lemma rec_lines_run sd r y rest :
  wf_dpkg_rec sd r = true -> forallb blank_byte (dl_gap y) = true ->
  exists buf m1,
    dpkg_lines sd (map fst (dpkg_rec_lines r y) ++ rest) [] None = dpkg_lines sd rest m1 (Some buf) /\
    mime_kv buf m1 = Some (map (afkv r) (afields r y)).
Proof.
  intros Hr Hg. unfold dpkg_rec_lines. rewrite map_fst_with_eols, groups_eq.
  destruct (afs_run sd r y (afields r y) rest [] None []) as (buf & E1 & E2).
  - intros a Ha. apply (afield_group_ok sd); [exact Hr|exact Hg|now apply afields_wf].
  - apply afields_nonempty.
  - reflexivity.
  - exists buf, ([] ++ removelast (map (afkv r) (afields r y))). split; [exact E1|exact E2].
Qed.

Lemma dpkg_blanks_skip sd es rest :
  dpkg_lines sd (map fst (blank_lines es) ++ rest) [] None = dpkg_lines sd rest [] None.
Proof.
  induction es as [|e es IH]; [reflexivity|].
  change (blank_lines (e :: es)) with (([], e) :: blank_lines es). cbn [map fst app dpkg_lines starts_ws dpkg_stanza cons_bind].
  rewrite IH. now rewrite cons_out_nil.
Qed.

Lemma hd_tl_gap ys : forallb (fun y => all_blank (dl_gap y)) ys = true ->
  forallb blank_byte (dl_gap (hd dpkg_rlay_default ys)) = true /\ forallb (fun y => all_blank (dl_gap y)) (tl ys) = true.
Proof. destruct ys; cbn [forallb hd tl]; intros H; [split; reflexivity|]. now apply andb_true_iff in H. Qed.

Lemma expected_cons sd r rs :
  expected_dpkg sd (r :: rs) = (if rec_installed sd r then [(dr_name r, dr_version r)] else []) ++ expected_dpkg sd rs.
Proof. unfold expected_dpkg. cbn [filter]. destruct (rec_installed sd r); reflexivity. Qed.

Lemma dpkg_tokens_ok sd : forall rs ys trail,
  wf_dpkg_records sd rs = true -> forallb (fun y => all_blank (dl_gap y)) ys = true ->
  dpkg_lines sd (map fst (dpkg_recs_lines rs ys trail)) [] None = Ok (expected_dpkg sd rs).
Proof.
  induction rs as [|r rs IH]; intros ys trail Hr Hy; [reflexivity|].
  cbn [wf_dpkg_records forallb] in Hr. apply andb_true_iff in Hr as [Hr Hrs].
  destruct (hd_tl_gap ys Hy) as [Hg Hty]. set (y := hd dpkg_rlay_default ys) in *.
  rewrite expected_cons. pose proof (stanza_ok sd r y Hr) as St.
  destruct rs as [|r2 rs'].
  - change (dpkg_recs_lines [r] ys trail) with (dpkg_rec_lines r y ++ blank_lines trail). rewrite map_app.
    destruct (rec_lines_run sd r y (map fst (blank_lines trail)) Hr Hg) as (buf & m1 & E1 & E2). rewrite E1.
    destruct trail as [|e trail].
    + cbn [blank_lines map dpkg_lines mime_flush]. rewrite E2, St. cbn [expected_dpkg filter map]. now rewrite app_nil_r.
    + change (blank_lines (e :: trail)) with (([], e) :: blank_lines trail). cbn [map fst dpkg_lines starts_ws].
      rewrite E2, St. rewrite <- (app_nil_r (map fst (blank_lines trail))), dpkg_blanks_skip.
      cbn [dpkg_lines mime_flush dpkg_stanza cons_bind cons_out expected_dpkg filter map]. reflexivity.
  - change (dpkg_recs_lines (r :: r2 :: rs') ys trail)
      with (dpkg_rec_lines r y ++ blank_lines (dl_sep1 y :: dl_sep y) ++ dpkg_recs_lines (r2 :: rs') (tl ys) trail).
    rewrite map_app.
    destruct (rec_lines_run sd r y (map fst (blank_lines (dl_sep1 y :: dl_sep y) ++ dpkg_recs_lines (r2 :: rs') (tl ys) trail)) Hr Hg)
      as (buf & m1 & E1 & E2). rewrite E1.
    change (blank_lines (dl_sep1 y :: dl_sep y)) with (([], dl_sep1 y) :: blank_lines (dl_sep y)).
    rewrite map_app. cbn [map fst app dpkg_lines starts_ws]. rewrite E2, St.
    rewrite dpkg_blanks_skip, (IH (tl ys) trail Hrs Hty). reflexivity.
Qed.

(* ------------------------------------------------------------------ every rendered line is printable text *)
Lemma field_byte_text c : field_byte c = true -> text_byte c = true.
Proof.
  unfold field_byte, is_upper, is_lower, is_digit, text_byte. intros H.
  apply orb_true_iff in H as [H|H].
  - apply orb_true_iff. left. apply andb_true_iff.
    apply orb_true_iff in H as [H|H]; [apply orb_true_iff in H as [H|H]|];
      apply andb_true_iff in H as [H1 H2]; apply N.leb_le in H1, H2; split; apply N.leb_le; lia.
  - cbn [existsb] in H. repeat (apply orb_true_iff in H as [H|H]; [apply N.eqb_eq in H; subst; reflexivity|]). discriminate.
Qed.

Definition text_lines (ls : list bytes) : bool := forallb (forallb text_byte) ls.

Lemma special_line_text key gap val :
  forallb text_byte key = true -> forallb blank_byte gap = true -> forallb text_byte val = true ->
  forallb text_byte (key ++ COLON :: gap ++ val) = true.
Proof. intros K G V. rewrite forallb_app. cbn [forallb]. rewrite forallb_app. now rewrite K, (blank_text _ G), V. Qed.

Lemma aflines_text sd r y a :
  wf_dpkg_rec sd r = true -> forallb blank_byte (dl_gap y) = true -> wf_afield sd r y a ->
  text_lines (aflines r y a) = true /\ forallb (fun l => negb (is_nil l)) (aflines r y a) = true.
Proof.
  intros Hr Hg Ha. apply wf_dpkg_rec_parts in Hr as (N & V & S & F).
  assert (forall key gap val, forallb text_byte key = true -> forallb blank_byte gap = true -> forallb text_byte val = true -> key <> [] ->
            text_lines [key ++ COLON :: gap ++ val] = true /\ forallb (fun l => negb (is_nil l)) [key ++ COLON :: gap ++ val] = true) as One.
  { intros key gap val K G Vv Kn. unfold text_lines. cbn [forallb]. rewrite special_line_text by assumption.
    split; [reflexivity|]. destruct key; [congruence|reflexivity]. }
  destruct a as [| |[[sa sb] sc]|f]; cbn [aflines].
  - apply One; [reflexivity|exact Hg| |discriminate]. apply word_parts in N as [_ N]. now apply graphic_text.
  - apply One; [reflexivity|exact Hg| |discriminate]. apply word_parts in V as [_ V]. now apply graphic_text.
  - cbn [wf_afield] in Ha. rewrite Ha in S. destruct S as (A & B & C).
    apply word_parts in A as [_ A], B as [_ B], C as [_ C].
    apply One; [reflexivity|exact Hg| |discriminate]. cbn [status_text].
    rewrite forallb_app. cbn [forallb]. rewrite forallb_app. cbn [forallb].
    now rewrite (graphic_text _ A), (graphic_text _ B), (graphic_text _ C).
  - cbn [wf_afield] in Ha. destruct f as [key lead value trail conts|n v]; cbn [dfield_lines].
    + cbn [wf_dfield] in Ha. apply andb_true_iff in Ha as [Ha H5]. apply andb_true_iff in Ha as [Ha H4].
      apply andb_true_iff in Ha as [Ha H3]. apply andb_true_iff in Ha as [H1 H2].
      unfold wf_other_key in H1. apply andb_true_iff in H1 as [K1 K2].
      assert (key <> []) as Kne by (intros ->; discriminate).
      unfold all_blank, all_text in *.
      assert (text_lines (map (fun wt : bytes * bytes => fst wt ++ snd wt) conts) = true /\
              forallb (fun l => negb (is_nil l)) (map (fun wt : bytes * bytes => fst wt ++ snd wt) conts) = true) as [C1 C2].
      { clear -H5. induction conts as [|[w t] conts IH]; [split; reflexivity|].
        cbn [forallb fst snd] in H5. apply andb_true_iff in H5 as [H5 H6]. apply andb_true_iff in H5 as [H5 T]. apply andb_true_iff in H5 as [W1 W2].
        destruct (IH H6) as [I1 I2]. unfold text_lines in *. cbn [map forallb fst snd]. rewrite I1, I2, !andb_true_r.
        unfold all_blank, all_text in *. rewrite forallb_app, (blank_text _ W2), T. split; [reflexivity|].
        destruct w; [discriminate|reflexivity]. }
      unfold text_lines in *. cbn [forallb]. unfold bytes in *. rewrite C1, C2, !andb_true_r. split.
      * rewrite forallb_app. cbn [forallb]. rewrite !forallb_app.
        now rewrite (forallb_impl _ _ _ field_byte_text K1), (blank_text _ H2), H3, (blank_text _ H4).
      * destruct key; [congruence|reflexivity].
    + cbn [wf_dfield] in Ha. apply andb_true_iff in Ha as [Ha H3]. apply andb_true_iff in Ha as [H1 H2].
      unfold text_lines, all_graphic in *. cbn [forallb]. split; [|reflexivity].
      rewrite andb_true_r, forallb_app. cbn [forallb]. rewrite forallb_app, (graphic_text _ H2). cbn [andb].
      destruct v as [v|]; [|reflexivity]. cbn [forallb]. rewrite forallb_app, (graphic_text _ H3). reflexivity.
Qed.

Lemma rec_lines_text sd r y :
  wf_dpkg_rec sd r = true -> forallb blank_byte (dl_gap y) = true ->
  text_lines (map fst (dpkg_rec_lines r y)) = true /\
  forallb (fun l => negb (is_nil l)) (map fst (dpkg_rec_lines r y)) = true /\ dpkg_rec_lines r y <> [].
Proof.
  intros Hr Hg. unfold dpkg_rec_lines. rewrite map_fst_with_eols, groups_eq.
  assert (forall afs, (forall a, In a afs -> wf_afield sd r y a) ->
            text_lines (concat (map (aflines r y) afs)) = true /\
            forallb (fun l => negb (is_nil l)) (concat (map (aflines r y) afs)) = true) as H.
  { induction afs as [|a afs IH]; intros W; [split; reflexivity|].
    destruct (aflines_text sd r y a Hr Hg (W a (or_introl eq_refl))) as [T1 T2].
    destruct IH as [I1 I2]; [intros x Hx; apply W; now right|].
    cbn [map concat]. unfold text_lines, bytes in *. rewrite !forallb_app. now rewrite T1, T2, I1, I2. }
  destruct (H (afields r y)) as [H1 H2]; [intros a Ha; now apply (afields_wf sd)|].
  split; [exact H1|]. split; [exact H2|].
  pose proof (afields_nonempty r y) as Ne. destruct (afields r y) as [|a afs]; [congruence|].
  cbn [map concat]. destruct a; cbn [aflines]; try (cbn; destruct (dl_eols y); discriminate).
  destruct f; cbn [dfield_lines app]; destruct (dl_eols y); discriminate.
Qed.

Lemma text_line_ok0 l e : forallb text_byte l = true -> line_ok0 (l, e) = true.
Proof.
  intros Ht. rewrite forallb_forall in Ht. unfold line_ok0. cbn [fst]. apply andb_true_iff. split.
  - unfold no_nl. apply forallb_forall. intros x Hx. apply negb_true_iff, N.eqb_neq.
    now destruct (text_facts x (Ht x Hx)) as (_ & ? & _).
  - unfold no_trailing_cr. apply negb_true_iff, N.eqb_neq.
    apply (last_forall (fun x => x <> CR)); [unfold CR; lia|].
    intros x Hx. now destruct (text_facts x (Ht x Hx)) as (_ & _ & ?).
Qed.

Lemma lines_ok0_of_text ls : text_lines (map fst ls) = true -> forallb line_ok0 ls = true.
Proof.
  induction ls as [|[c e] ls IH]; intros H; [reflexivity|].
  unfold text_lines in H. cbn [map fst forallb] in H. apply andb_true_iff in H as [H1 H2].
  cbn [forallb]. rewrite text_line_ok0 by exact H1. now apply IH.
Qed.

Lemma blank_lines_text es : text_lines (map fst (blank_lines es)) = true.
Proof. induction es as [|e es IH]; [reflexivity|]. exact IH. Qed.

Lemma recs_lines_text sd : forall rs ys trail,
  wf_dpkg_records sd rs = true -> forallb (fun y => all_blank (dl_gap y)) ys = true ->
  text_lines (map fst (dpkg_recs_lines rs ys trail)) = true.
Proof.
  induction rs as [|r rs IH]; intros ys trail Hr Hy; [reflexivity|].
  cbn [wf_dpkg_records forallb] in Hr. apply andb_true_iff in Hr as [Hr Hrs].
  destruct (hd_tl_gap ys Hy) as [Hg Hty]. set (y := hd dpkg_rlay_default ys) in *.
  destruct (rec_lines_text sd r y Hr Hg) as (T & _ & _).
  destruct rs as [|r2 rs'].
  - change (dpkg_recs_lines [r] ys trail) with (dpkg_rec_lines r y ++ blank_lines trail).
    unfold text_lines, bytes in *. rewrite map_app, forallb_app, T. apply blank_lines_text.
  - change (dpkg_recs_lines (r :: r2 :: rs') ys trail)
      with (dpkg_rec_lines r y ++ blank_lines (dl_sep1 y :: dl_sep y) ++ dpkg_recs_lines (r2 :: rs') (tl ys) trail).
    pose proof (blank_lines_text (dl_sep1 y :: dl_sep y)) as B. pose proof (IH (tl ys) trail Hrs Hty) as I.
    unfold text_lines, bytes in *. rewrite !map_app, !forallb_app, T, B. exact I.
Qed.

Lemma recs_lines_last sd : forall rs ys,
  wf_dpkg_records sd rs = true -> forallb (fun y => all_blank (dl_gap y)) ys = true -> rs <> [] ->
  dpkg_recs_lines rs ys [] <> [] /\ last_line_ok (dpkg_recs_lines rs ys []) false = true.
Proof.
  induction rs as [|r rs IH]; intros ys Hr Hy Hne; [congruence|].
  cbn [wf_dpkg_records forallb] in Hr. apply andb_true_iff in Hr as [Hr Hrs].
  destruct (hd_tl_gap ys Hy) as [Hg Hty]. set (y := hd dpkg_rlay_default ys) in *.
  destruct (rec_lines_text sd r y Hr Hg) as (_ & Nn & Ne).
  destruct rs as [|r2 rs'].
  - change (dpkg_recs_lines [r] ys []) with (dpkg_rec_lines r y ++ blank_lines []). cbn [blank_lines map]. rewrite app_nil_r.
    split; [exact Ne|]. apply last_line_ok_nonempty. intros c e Hin.
    rewrite forallb_forall in Nn. assert (In c (map fst (dpkg_rec_lines r y))) as Hc by (apply in_map_iff; exists (c, e); auto).
    specialize (Nn c Hc). destruct c; [discriminate|discriminate].
  - change (dpkg_recs_lines (r :: r2 :: rs') ys [])
      with (dpkg_rec_lines r y ++ (blank_lines (dl_sep1 y :: dl_sep y) ++ dpkg_recs_lines (r2 :: rs') (tl ys) [])).
    destruct (IH (tl ys) Hrs Hty) as [N L]; [discriminate|]. split.
    + intros E. apply app_eq_nil in E as [E _]. contradiction.
    + rewrite last_line_ok_app; [rewrite last_line_ok_app; [exact L|exact N]|].
      intros E. apply app_eq_nil in E as [_ E]. contradiction.
Qed.

Lemma last_eol_lf_app a b : b <> [] -> last_eol_lf (a ++ b) = last_eol_lf b.
Proof. intros H. unfold last_eol_lf. now rewrite last_app_nonempty. Qed.

Lemma dpkg_roundtrip_lemma : forall sd rs l,
  wf_dpkg_records sd rs = true -> wf_dpkg_layout rs l = true ->
  parse_dpkg sd (render_dpkg rs l) = Ok (expected_dpkg sd rs).
Proof.
  intros sd rs l Hr Hl. unfold wf_dpkg_layout in Hl. apply andb_true_iff in Hl as [Hg Hl].
  unfold parse_dpkg, render_dpkg. rewrite mime_lines_render.
  - unfold dpkg_file_lines. rewrite map_app, dpkg_blanks_skip, dpkg_tokens_ok by assumption. reflexivity.
  - apply lines_ok0_of_text. unfold dpkg_file_lines, text_lines. rewrite map_app, forallb_app.
    fold (text_lines (map fst (blank_lines (dy_lead l)))). rewrite blank_lines_text. cbn [andb].
    now apply (recs_lines_text sd).
  - destruct (dy_final_nl l); [apply last_line_ok_true|]. cbn [orb] in Hl.
    apply andb_true_iff in Hl as [Hl _]. apply andb_true_iff in Hl as [Ht Hrl].
    destruct (dy_trail l) eqn:Et; [|discriminate]. unfold dpkg_file_lines. rewrite Et.
    destruct rs as [|r rs].
    + cbn [negb is_nil orb] in Hrl. destruct (dy_lead l); [reflexivity|discriminate].
    + destruct (recs_lines_last sd (r :: rs) (dy_recs l) Hr Hg) as [N L]; [discriminate|].
      rewrite last_line_ok_app; assumption.
  - destruct (dy_final_nl l); [now left|right]. cbn [orb] in Hl. apply andb_true_iff in Hl as [_ Hl]. exact Hl.
Qed.

(* ------------------------------------------------------------------ totality on arbitrary bytes *)
Lemma dpkg_stanza_total sd h : dpkg_stanza sd h <> Panic.
Proof.
  unfold dpkg_stanza. destruct h as [|kv h]; [discriminate|].
  set (m := kv :: h). destruct (negb sd || negb (is_nil (aget kStatus m))).
  - destruct (is_nil (aget kStatus m)); [cbn; discriminate|].
    destruct (Nat.eqb (length (split_sp (aget kStatus m))) 3) eqn:E; cbn [negb]; [|discriminate].
    apply PeanoNat.Nat.eqb_eq in E. unfold index.
    destruct (nth_error (split_sp (aget kStatus m)) 2) eqn:En; [|apply nth_error_None in En; lia].
    cbn [bind]. destruct (negb (bytes_eqb b s_installed)); [discriminate|].
    destruct (is_nil (aget kPackage m) || is_nil (aget kVersion m)); [discriminate|].
    destruct (source_bad (aget kSource m)); discriminate.
  - cbn [bind negb]. destruct (is_nil (aget kPackage m) || is_nil (aget kVersion m)); [discriminate|].
    destruct (source_bad (aget kSource m)); discriminate.
Qed.

Lemma cons_bind_total {A} (o r : outcome (list A)) : o <> Panic -> r <> Panic -> cons_bind o r <> Panic.
Proof. destruct o; cbn; try congruence. intros _ H. now apply cons_out_total. Qed.

Lemma dpkg_lines_total sd : forall ls m pend, dpkg_lines sd ls m pend <> Panic.
Proof.
  induction ls as [|l r IH]; intros m pend.
  - cbn. destruct (mime_flush pend m); [apply dpkg_stanza_total|discriminate].
  - cbn [dpkg_lines]. destruct pend as [buf|].
    + destruct (starts_ws l); [apply IH|]. destruct (mime_kv buf m) as [m'|]; [|discriminate].
      destruct l; [apply cons_bind_total; [apply dpkg_stanza_total|apply IH]|].
      destruct (contains_byte COLON (n :: l)); [apply IH|discriminate].
    + destruct (starts_ws l); [discriminate|].
      destruct l; [apply cons_bind_total; [apply dpkg_stanza_total|apply IH]|].
      destruct (contains_byte COLON (n :: l)); [apply IH|discriminate].
Qed.

Lemma dpkg_total_lemma : forall sd s, parse_dpkg sd s <> Panic.
Proof.
  intros sd s. unfold parse_dpkg. pose proof (dpkg_lines_total sd (mime_lines s) [] None) as T.
  destruct (dpkg_lines sd (mime_lines s) [] None) as [x|e|]; [discriminate| |congruence].
  destruct e; try discriminate. destruct sd; discriminate.
Qed.

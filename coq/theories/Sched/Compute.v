(* C16 (a) - model of guidedremediation/internal/strategy/common.ComputePatches (fan-out of patch attempts
   over a channel, then sort + compact) and of result.Patch.Compare.  No proofs here.

   Go code (common.go):
     ch := make(chan StrategyResult)
     doPatch := func(vulnIDs []string) { ch <- patchFunc(vulnIDs) }
     for _, v := range resolved.Vulns { go doPatch([]string{v.OSV.ID}); toProcess++ }
     for toProcess > 0 {
       r := <-ch; toProcess--                         -- ANY pending attempt may deliver next
       if r.Err != nil { continue }
       patch := remediation.ConstructPatches(resolved, r.Resolved)
       if len(patch.PackageUpdates) == 0 { continue }
       allResults = append(allResults, patch)
       newlyAdded := [v.ID | v <- patch.Introduced, v.ID not in r.VulnIDs]
       if len(newlyAdded) > 0 {
         if groupIntroduced { go doPatch(append(r.VulnIDs, newlyAdded...)); toProcess++ }
         else { for _, v := range newlyAdded { go doPatch(append(slices.Clone(r.VulnIDs), v)); toProcess++ } } } }
     slices.SortFunc(allResults, cmpFn); allResults = slices.CompactFunc(allResults, cmpFn(a,b) == 0)

   patchFunc (the strategy: resolve-client and matcher calls) is the deterministic Section variable
   [patch_fn]; r.VulnIDs is the slice it was called with (both strategies return it unchanged). *)
From Coq Require Import List ZArith NArith Bool Arith Lia Permutation.
Import ListNotations.
Open Scope Z_scope.

(* ------------------------------------------------------------------ comparators *)
(* cmp.Compare on ints *)
Definition zcmp (a b : Z) : Z := match Z.compare a b with Lt => -1 | Eq => 0 | Gt => 1 end.

(* cmp.Compare on Go strings: bytewise lexicographic, a proper prefix is smaller *)
Fixpoint strcmp (a b : list N) : Z :=
  match a, b with
  | [], [] => 0
  | [], _ :: _ => -1
  | _ :: _, [] => 1
  | x :: a', y :: b' => match N.compare x y with Lt => -1 | Gt => 1 | Eq => strcmp a' b' end
  end.

(* result.PackageUpdate.  u_rank: Some r when sys.Parse(VersionTo) succeeds, r = rank of the parsed version
   under the ecosystem's semver Compare (a total preorder supplied by deps.dev; the harness computes ranks);
   None when VersionTo does not parse as a single version (a range from the relax strategy). *)
Record pupdate := mkupd { u_name : list N; u_from : list N; u_to : list N; u_rank : option Z }.

(* result.Patch; Fixed / Introduced are vulnerability ids (only their ids and number matter here) *)
Record patch := mkpatch { p_updates : list pupdate; p_fixed : list N; p_intro : list N }.

Definition namecmp (a b : pupdate) : Z := strcmp (u_name a) (u_name b).

(* step 5 of Patch.Compare for one position: both parse -> semver compare, otherwise string compare *)
Definition vercmp (a b : pupdate) : Z :=
  match u_rank a, u_rank b with
  | Some x, Some y => zcmp x y
  | _, _ => strcmp (u_to a) (u_to b)
  end.

(* for i, aDep := range a.PackageUpdates { bDep := b.PackageUpdates[i]; if c := ...; c != 0 { return c } }
   (b.PackageUpdates[i] would panic for a shorter b; step 3 has established equal lengths before) *)
Fixpoint loopcmp (c : pupdate -> pupdate -> Z) (a b : list pupdate) : Z :=
  match a, b with
  | x :: a', y :: b' => let r := c x y in if Z.eqb r 0 then loopcmp c a' b' else r
  | _, _ => 0
  end.

Definition zlen {A} (l : list A) : Z := Z.of_nat (length l).

Definition patch_compare (a b : patch) : Z :=
  let ar := (zlen (p_fixed a) - zlen (p_intro a)) * zlen (p_updates b) in
  let br := (zlen (p_fixed b) - zlen (p_intro b)) * zlen (p_updates a) in
  let c1 := zcmp ar br in
  if negb (Z.eqb c1 0) then - c1 else
  let c2 := zcmp (zlen (p_fixed a)) (zlen (p_fixed b)) in
  if negb (Z.eqb c2 0) then - c2 else
  let c3 := zcmp (zlen (p_updates a)) (zlen (p_updates b)) in
  if negb (Z.eqb c3 0) then c3 else
  let c4 := loopcmp namecmp (p_updates a) (p_updates b) in
  if negb (Z.eqb c4 0) then c4 else
  loopcmp vercmp (p_updates a) (p_updates b).

(* total preorder on a domain *)
Definition tp_on {A} (D : A -> Prop) (c : A -> A -> Z) : Prop :=
  (forall a, D a -> c a a = 0) /\
  (forall a b, D a -> D b -> c b a = - c a b) /\
  (forall a b d, D a -> D b -> D d -> c a b <= 0 -> c b d <= 0 -> c a d <= 0).

(* the domain of Patch.Compare on which it is a total preorder: at least one update (ComputePatches drops
   the others) and every VersionTo of the same kind k (all parse: override strategy; none parses: relax) *)
Definition is_some {A} (o : option A) : bool := match o with Some _ => true | None => false end.
Definition in_dom (k : bool) (p : patch) : bool :=
  match p_updates p with [] => false | _ => forallb (fun u => Bool.eqb (is_some (u_rank u)) k) (p_updates p) end.

(* ------------------------------------------------------------------ sort and compact *)
Section Sort.
  Context {A : Type}.
  Variable c : A -> A -> Z.

  (* slices.SortFunc on <= 12 elements is insertionSortCmpFunc:
       for i := a + 1; i < b; i++ { for j := i; j > a && cmp(data[j], data[j-1]) < 0; j-- { swap } }
     [racc] is the sorted prefix in reverse (last element first); the new element moves left past every
     element it is strictly smaller than, scanning from the right. *)
  Fixpoint ins_rev (x : A) (racc : list A) : list A :=
    match racc with
    | [] => [x]
    | y :: ys => if c x y <? 0 then y :: ins_rev x ys else x :: racc
    end.

  Definition isort_rev (l : list A) : list A := fold_left (fun racc x => ins_rev x racc) l [].
  Definition isort (l : list A) : list A := rev (isort_rev l).

  (* slices.CompactFunc(s, eq): an element is kept iff it is the first or eq(s[k], s[k-1]) is false, the
     predecessor being the one in the input slice *)
  Fixpoint compact_go (prev : A) (l : list A) : list A :=
    match l with
    | [] => []
    | y :: r => if c y prev =? 0 then compact_go y r else y :: compact_go y r
    end.
  Definition compact (l : list A) : list A := match l with [] => [] | x :: r => x :: compact_go x r end.
End Sort.

(* ------------------------------------------------------------------ the task pool *)
Inductive tres := TErr | TOk (p : patch).

Definition task := list N.        (* the vulnerability ids handed to one patch attempt *)

Fixpoint ids_eqb (a b : list N) : bool :=
  match a, b with
  | [], [] => true
  | x :: a', y :: b' => N.eqb x y && ids_eqb a' b'
  | _, _ => false
  end.

Section Pool.
  Variable patch_fn : task -> tres.
  Variable group : bool.

  Definition mem_id (v : N) (l : list N) : bool := existsb (N.eqb v) l.

  (* what the receiving loop appends to allResults for one delivered result *)
  Definition own (t : task) : list patch :=
    match patch_fn t with
    | TOk p => match p_updates p with [] => [] | _ => [p] end
    | TErr => []
    end.

  (* the attempts it starts *)
  Definition spawn (t : task) : list task :=
    match patch_fn t with
    | TErr => []
    | TOk p =>
        match p_updates p with
        | [] => []
        | _ =>
            let nw := filter (fun v => negb (mem_id v t)) (p_intro p) in
            if group then match nw with [] => [] | _ => [t ++ nw] end
            else map (fun v => t ++ [v]) nw
        end
    end.

  Record pstate := mkps { pending : list task; results : list patch }.

  (* one iteration of the receive loop: ANY pending attempt delivers *)
  Definition pstep (s s' : pstate) : Prop :=
    exists l1 t l2, pending s = l1 ++ t :: l2 /\
                    pending s' = l1 ++ l2 ++ spawn t /\
                    results s' = results s ++ own t.

  Inductive runs : pstate -> pstate -> Prop :=
  | runs_refl : forall s, runs s s
  | runs_step : forall s s1 s2, pstep s s1 -> runs s1 s2 -> runs s s2.

  Definition pinit (vulns : list N) : pstate := mkps (map (fun v => [v]) vulns) [].

  Definition final (cmp : patch -> patch -> Z) (s : pstate) : list patch := compact cmp (isort cmp (results s)).

  (* executable replay of an observed completion order: each entry names the attempt that delivered *)
  Fixpoint take_task (t : task) (l : list task) : option (list task) :=
    match l with
    | [] => None
    | x :: r => if ids_eqb t x then Some r else match take_task t r with Some r' => Some (x :: r') | None => None end
    end.

  Fixpoint replay (tr : list task) (s : pstate) : option pstate :=
    match tr with
    | [] => Some s
    | t :: tr' =>
        match take_task t (pending s) with
        | Some rest => replay tr' (mkps (rest ++ spawn t) (results s ++ own t))
        | None => None
        end
    end.
End Pool.

(* ------------------------------------------------------------------ cases-file protocol *)
Definition lookup_task (tbl : list (task * tres)) (t : task) : tres :=
  match find (fun e => ids_eqb t (fst e)) tbl with Some e => snd e | None => TErr end.

Fixpoint list_eqb {A} (e : A -> A -> bool) (a b : list A) : bool :=
  match a, b with
  | [], [] => true
  | x :: a', y :: b' => e x y && list_eqb e a' b'
  | _, _ => false
  end.

Definition optZ_eqb (a b : option Z) : bool :=
  match a, b with None, None => true | Some x, Some y => Z.eqb x y | _, _ => false end.

Definition upd_eqb (a b : pupdate) : bool :=
  ids_eqb (u_name a) (u_name b) && ids_eqb (u_from a) (u_from b) && ids_eqb (u_to a) (u_to b) &&
  optZ_eqb (u_rank a) (u_rank b).

Definition patch_eqb (a b : patch) : bool :=
  list_eqb upd_eqb (p_updates a) (p_updates b) && ids_eqb (p_fixed a) (p_fixed b) && ids_eqb (p_intro a) (p_intro b).

(* one configuration: the strategy table, the initial vulnerabilities, and what the real ComputePatches did
   under each completion order.  pt_order: the id list each PatchFunc invocation RECEIVED (copied at call
   time), in order of delivery; pt_after: the same slices re-read when the invocation was let go (they differ
   when the caller's slices alias); pt_final: index of the returned list in pc_finals.
   The harness builds its tables so that they contain exactly the attempts the strategy will be asked for. *)
Record ptrace := mkpt { pt_order : list task; pt_after : list task; pt_final : nat }.
Record pcase := mkpc { pc_group : bool; pc_base : list N; pc_table : list (task * tres);
                       pc_traces : list ptrace; pc_finals : list (list patch) }.

Definition outputs (tbl : list (task * tres)) : list patch :=
  flat_map (fun e => match snd e with TOk p => match p_updates p with [] => [] | _ => [p] end | TErr => [] end) tbl.

(* the two premises of compute_patches_confluent, checked by brute force on the table's outputs *)
Definition tp_ok (ps : list patch) : bool :=
  forallb (fun a => Z.eqb (patch_compare a a) 0) ps &&
  forallb (fun a => forallb (fun b => Z.eqb (patch_compare b a) (- patch_compare a b)) ps) ps &&
  forallb (fun a => forallb (fun b => forallb (fun d =>
     negb ((patch_compare a b <=? 0) && (patch_compare b d <=? 0)) || (patch_compare a d <=? 0)) ps) ps) ps.

Definition zero_same_ok (ps : list patch) : bool :=
  forallb (fun a => forallb (fun b => negb (Z.eqb (patch_compare a b) 0) || patch_eqb a b) ps) ps.

Definition hyps_ok (c : pcase) : bool := tp_ok (outputs (pc_table c)) && zero_same_ok (outputs (pc_table c)).

(* model check of one trace: it is a run of the pool (every delivered attempt was pending in the model when
   it delivered), nothing is pending at the end (every attempt the model starts was seen), and the returned
   list is the model's *)
Definition trace_model_ok (c : pcase) (tr : ptrace) : bool :=
  let fn := lookup_task (pc_table c) in
  match replay fn (pc_group c) (pt_order tr) (pinit (pc_base c)) with
  | Some s =>
      match pending s with
      | [] => match nth_error (pc_finals c) (pt_final tr) with
              | Some obs => list_eqb patch_eqb (final patch_compare s) obs
              | None => false
              end
      | _ => false
      end
  | None => false
  end.

Definition case_model_ok (c : pcase) : bool := forallb (trace_model_ok c) (pc_traces c).

(* oracle, independent of the pool model.  When the premises hold on the strategy's outputs:
   S1 every completion order returned the same list;
   S2 the list is strictly ascending under Patch.Compare (sorted, no duplicates);
   S3 every returned patch is the output of some attempt (with >= 1 update), and the output of every attempt
      of the table is in the list;
   S4 (always claimed) the id list handed to an attempt does not change while the attempt runs. *)
Fixpoint strictly_ascending (l : list patch) : bool :=
  match l with
  | x :: ((y :: _) as r) => (patch_compare x y <? 0) && strictly_ascending r
  | _ => true
  end.

Definition ids_stable (c : pcase) : bool :=
  forallb (fun tr => list_eqb ids_eqb (pt_order tr) (pt_after tr)) (pc_traces c).

Definition case_spec_ok (c : pcase) : bool :=
  ids_stable c &&
  if hyps_ok c then
    forallb (fun tr => Nat.eqb (pt_final tr) 0) (pc_traces c) &&
    forallb (fun obs =>
       strictly_ascending obs &&
       forallb (fun p => existsb (patch_eqb p) (outputs (pc_table c))) obs &&
       forallb (fun p => existsb (patch_eqb p) obs) (outputs (pc_table c))) (pc_finals c)
  else true.

(* ------------------------------------------------------------------ witnesses and examples (data only) *)
Open Scope N_scope.
Definition w_upd (name to : list N) (r : option Z) : pupdate := mkupd name [48;46;57;46;48] to r.
Definition s_alpha : list N := [97;108;112;104;97].
Definition s_beta : list N := [98;101;116;97].
Definition v_1_1_0 : list N := [49;46;49;46;48].
Definition v_2_0_0 : list N := [50;46;48;46;48].
Definition v_10_0_0 : list N := [49;48;46;48;46;48].
Definition v_hyphen : list N := [49;49;32;45;32;49;50].      (* "11 - 12": an npm range, not a version *)
(* Patch.Compare cycle: 2.0.0 < 10.0.0 by semver, 10.0.0 < "11 - 12" < 2.0.0 as strings *)
Definition w_a : patch := mkpatch [w_upd s_alpha v_2_0_0 (Some 6%Z)] [1] [].
Definition w_b : patch := mkpatch [w_upd s_alpha v_10_0_0 (Some 8%Z)] [1] [].
Definition w_d : patch := mkpatch [w_upd s_alpha v_hyphen None] [1] [].

(* two attempts whose patches compare equal without being the same patch *)
Definition tie_p1 : patch := mkpatch [w_upd s_alpha v_2_0_0 (Some 6%Z)] [1] [].
Definition tie_p2 : patch := mkpatch [w_upd s_alpha v_2_0_0 (Some 6%Z)] [2] [].
Definition tie_table : list (task * tres) := [([1], TOk tie_p1); ([2], TOk tie_p2)].

(* a strategy whose first attempt introduces a vulnerability (11), so that a follow-up attempt is started *)
Definition ex_p1 : patch := mkpatch [w_upd s_alpha v_2_0_0 (Some 6%Z)] [1] [11].
Definition ex_p3 : patch := mkpatch [w_upd s_beta v_1_1_0 (Some 4%Z)] [1] [].
Definition ex_case : pcase :=
  mkpc true [1; 2] [([1], TOk ex_p1); ([2], TErr); ([1; 11], TOk ex_p3)]
       [mkpt [[1]; [2]; [1; 11]] [[1]; [2]; [1; 11]] 0; mkpt [[1]; [1; 11]; [2]] [[1]; [1; 11]; [2]] 0;
        mkpt [[2]; [1]; [1; 11]] [[2]; [1]; [1; 11]] 0]
       [[ex_p3; ex_p1]].
Close Scope N_scope.

Fixpoint bad_indices {A} (f : A -> bool) (l : list A) (i : nat) : list nat :=
  match l with
  | [] => []
  | x :: l' => if f x then bad_indices f l' (S i) else i :: bad_indices f l' (S i)
  end.

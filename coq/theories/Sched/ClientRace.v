(* C16 (c') - lock-set discipline for the structs of clients/datasource and clients/resolution, which the
   concurrent patch attempts of ComputePatches (and the extractors) share.  The access table is
   Generated_ClientAccesses.v, regenerated from the Go AST on every run.  No proofs here.  PARTIAL, like
   RaceModel.v: a sufficient condition evaluated on what the source says, not a statement about the Go
   memory model.

   Thread model: any two methods of one struct (also two calls of the same method) may run at the same time
   on one receiver.  Constructors are not methods and do not appear.  Two accesses to one field conflict when
   at least one writes; AA (append(recv.f, ...) not stored back) counts as a write: with spare capacity it
   writes into the shared backing array.  A conflicting pair is protected when both hold a common mutex of
   the receiver. *)
From Coq Require Import List String Bool Arith.
Import ListNotations.
Open Scope string_scope.

Inductive ckind := AR | AW | AA.

Record caccess := mkcacc { ca_struct : string; ca_method : string; ca_field : string; ca_kind : ckind;
                           ca_locks : list string; ca_file : string; ca_line : nat }.

Definition mem_s (x : string) (l : list string) : bool := existsb (String.eqb x) l.

(* ------------------------------------------------------------------ interprocedural lock sets *)
(* a call of method cc_callee on the same receiver from cc_caller, with cc_locks held at the call site *)
Record ccall := mkccall { cc_struct : string; cc_caller : string; cc_callee : string; cc_locks : list string; cc_line : nat }.

Definition key_eqb (a b : string * string) : bool := String.eqb (fst a) (fst b) && String.eqb (snd a) (snd b).
Definition mem_key (k : string * string) (l : list (string * string)) : bool := existsb (key_eqb k) l.
Definition inter (a b : list string) : list string := filter (fun x => mem_s x b) a.

Fixpoint dedups (l : list string) : list string :=
  match l with [] => [] | x :: r => if mem_s x r then dedups r else x :: dedups r end.

Definition lookup_inh (tbl : list ((string * string) * list string)) (k : string * string) : list string :=
  match find (fun e => key_eqb k (fst e)) tbl with Some e => snd e | None => [] end.

(* locks a method can rely on being held when it starts: nothing for an exported method (callable from outside)
   and for a method nobody in the package calls; otherwise the intersection, over all its call sites, of the
   locks held there (at the site itself or inherited by the caller).  Greatest fixed point, by iteration from
   "all locks". *)
Definition inh_step (top : list string) (calls : list ccall) (entries : list (string * string))
           (cur : list ((string * string) * list string)) : list ((string * string) * list string) :=
  map (fun e =>
         let k := fst e in
         if mem_key k entries then (k, [])
         else (k, fold_left (fun acc c => inter acc (cc_locks c ++ lookup_inh cur (cc_struct c, cc_caller c)))
                            (filter (fun c => key_eqb k (cc_struct c, cc_callee c)) calls) top)) cur.

Fixpoint iter_n {A} (n : nat) (f : A -> A) (x : A) : A := match n with 0 => x | S m => iter_n m f (f x) end.

Definition inherited (calls : list ccall) (entries : list (string * string)) : list ((string * string) * list string) :=
  let top := dedups (flat_map cc_locks calls) in
  let keys := map (fun c => (cc_struct c, cc_callee c)) calls in
  iter_n (S (List.length calls)) (inh_step top calls entries) (map (fun k => (k, top)) keys).

Definition writes (a : caccess) : bool := match ca_kind a with AR => false | _ => true end.
Definition same_slot (a b : caccess) : bool :=
  String.eqb (ca_struct a) (ca_struct b) && String.eqb (ca_field a) (ca_field b).
Definition cshare_lock (a b : caccess) : bool := existsb (fun l => mem_s l (ca_locks b)) (ca_locks a).
Definition unprotected (a b : caccess) : bool :=
  same_slot a b && (writes a || writes b) && negb (cshare_lock a b).

(* the accesses with the inherited locks added *)
Definition effective (accs : list caccess) (calls : list ccall) (entries : list (string * string)) : list caccess :=
  let inh := inherited calls entries in
  map (fun a => mkcacc (ca_struct a) (ca_method a) (ca_field a) (ca_kind a)
                       (ca_locks a ++ lookup_inh inh (ca_struct a, ca_method a)) (ca_file a) (ca_line a)) accs.

Definition unprotected_pairs (accs : list caccess) : list (caccess * caccess) :=
  flat_map (fun a => map (fun b => (a, b)) (filter (unprotected a) accs)) accs.

Fixpoint dedup2 (l : list (string * string)) : list (string * string) :=
  match l with
  | [] => []
  | x :: r => if existsb (fun y => String.eqb (fst x) (fst y) && String.eqb (snd x) (snd y)) r then dedup2 r else x :: dedup2 r
  end.

(* (struct, field) slots with an unprotected conflicting pair *)
Definition unprotected_slots (accs : list caccess) : list (string * string) :=
  dedup2 (map (fun p => (ca_struct (fst p), ca_field (fst p))) (unprotected_pairs accs)).

(* slots whose only unprotected writes are AA appends in otherwise read-only methods *)
Definition append_only_slots (accs : list caccess) : list (string * string) :=
  filter (fun s => negb (existsb (fun p => String.eqb (fst s) (ca_struct (fst p)) && String.eqb (snd s) (ca_field (fst p)) &&
                                          match ca_kind (fst p) with AW => true | _ => false end)
                                 (unprotected_pairs accs)))
         (unprotected_slots accs).

Definition slot_free (accs : list caccess) (s f : string) : bool :=
  negb (existsb (fun p => String.eqb s (fst p) && String.eqb f (snd p)) (unprotected_slots accs)).

(* all slots; the slots some access of which is made under a lock (the code means a mutex to guard them) *)
Definition all_slots (accs : list caccess) : list (string * string) :=
  dedup2 (map (fun a => (ca_struct a, ca_field a)) accs).
Definition guarded_slots (accs : list caccess) : list (string * string) :=
  dedup2 (map (fun a => (ca_struct a, ca_field a)) (filter (fun a => match ca_locks a with [] => false | _ => true end) accs)).

(* accepted exceptions (data, from KNOWN_FINDINGS.d: confined objects, set-up-time writes): an entry (s, f)
   covers slot (s, f); (s, "*") covers every field of s *)
Definition exempted (ex : list (string * string)) (slot : string * string) : bool :=
  existsb (fun e => String.eqb (fst e) (fst slot) && (String.eqb (snd e) (snd slot) || String.eqb (snd e) "*")) ex.

(* race freedom of the shared clients as a computed predicate: every slot with an unprotected conflicting
   pair is an accepted exception *)
Definition clients_race_free (accs : list caccess) (ex : list (string * string)) : bool :=
  forallb (exempted ex) (unprotected_slots accs).
Definition new_unprotected_slots (accs : list caccess) (ex : list (string * string)) : list (string * string) :=
  filter (fun s => negb (exempted ex s)) (unprotected_slots accs).

(* ------------------------------------------------------------------ cached slices / maps escaping the lock *)
(* cescape: function e_fn returns, without copying, a slice / map that lives in a struct (e_via says which:
   a selector on a slice/map field, a local bound to one, or the result of another escaping function), either
   directly (e_label = "") or as field e_label of the returned struct.
   cmutate: function m_fn applies the in-place mutation m_op (slices.Sort* / Reverse, sort.*, index assignment,
   append whose result is not stored back) to m_expr, whose root variable came from a call of m_origin
   ("fresh": built in m_fn; "param" / "other" otherwise); m_path = first selector below that variable;
   m_taint = field-sensitive taint of the mutated expression: "shared" = reachable from the receiver or a
   parameter without a copy, "fresh" = built in the function, "unknown" otherwise. *)
Record cescape := mkesc { e_fn : string; e_label : string; e_via : string; e_file : string; e_line : nat }.
Record cmutate := mkmut { m_fn : string; m_op : string; m_expr : string; m_origin : string; m_path : string;
                          m_taint : string; m_file : string; m_line : nat }.

(* a value obtained from an escaping function, mutated in place by its caller: the caller writes into memory
   that the callee still holds (and hands to every other caller) *)
Definition mutates_cached (escs : list cescape) (m : cmutate) : bool :=
  existsb (fun e => String.eqb (e_fn e) (m_origin m) && String.eqb (e_label e) (m_path m)) escs.

Definition cached_mutations (escs : list cescape) (muts : list cmutate) : list cmutate :=
  filter (mutates_cached escs) muts.

(* in-place mutations of memory that the caller (and every other holder of the receiver / argument) still sees *)
Definition shared_mutations (muts : list cmutate) : list cmutate :=
  filter (fun m => String.eqb (m_taint m) "shared") muts.

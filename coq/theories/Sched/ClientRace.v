(* C16 (c') - lock-set discipline for the structs of clients/datasource and clients/resolution, which the
   concurrent patch attempts of ComputePatches (and the extractors) share.  The access table is
   Generated_ClientAccesses.v, regenerated from the Go AST on every run.  No proofs here.  PARTIAL, like
   RaceModel.v: a sufficient condition evaluated on what the source says, not a statement about the Go
   memory model.

   Thread model: any two methods of one struct (also two calls of the same method) may run at the same time
   on one receiver.  Constructors are not methods and do not appear.  Two accesses to one field conflict when
   at least one writes; AA (append(recv.f, ...) not stored back) counts as a write: with spare capacity it
   writes into the shared backing array.  A conflicting pair is protected when both hold a common mutex of
   the receiver. *)
From Coq Require Import List String Bool Arith.
Import ListNotations.
Open Scope string_scope.

Inductive ckind := AR | AW | AA.

Record caccess := mkcacc { ca_struct : string; ca_method : string; ca_field : string; ca_kind : ckind;
                           ca_locks : list string; ca_file : string; ca_line : nat }.

Definition mem_s (x : string) (l : list string) : bool := existsb (String.eqb x) l.
Definition writes (a : caccess) : bool := match ca_kind a with AR => false | _ => true end.
Definition same_slot (a b : caccess) : bool :=
  String.eqb (ca_struct a) (ca_struct b) && String.eqb (ca_field a) (ca_field b).
Definition cshare_lock (a b : caccess) : bool := existsb (fun l => mem_s l (ca_locks b)) (ca_locks a).
Definition unprotected (a b : caccess) : bool :=
  same_slot a b && (writes a || writes b) && negb (cshare_lock a b).

Definition unprotected_pairs (accs : list caccess) : list (caccess * caccess) :=
  flat_map (fun a => map (fun b => (a, b)) (filter (unprotected a) accs)) accs.

Fixpoint dedup2 (l : list (string * string)) : list (string * string) :=
  match l with
  | [] => []
  | x :: r => if existsb (fun y => String.eqb (fst x) (fst y) && String.eqb (snd x) (snd y)) r then dedup2 r else x :: dedup2 r
  end.

(* (struct, field) slots with an unprotected conflicting pair *)
Definition unprotected_slots (accs : list caccess) : list (string * string) :=
  dedup2 (map (fun p => (ca_struct (fst p), ca_field (fst p))) (unprotected_pairs accs)).

(* slots whose only unprotected writes are AA appends in otherwise read-only methods *)
Definition append_only_slots (accs : list caccess) : list (string * string) :=
  filter (fun s => negb (existsb (fun p => String.eqb (fst s) (ca_struct (fst p)) && String.eqb (snd s) (ca_field (fst p)) &&
                                          match ca_kind (fst p) with AW => true | _ => false end)
                                 (unprotected_pairs accs)))
         (unprotected_slots accs).

Definition slot_free (accs : list caccess) (s f : string) : bool :=
  negb (existsb (fun p => String.eqb s (fst p) && String.eqb f (snd p)) (unprotected_slots accs)).

(* ------------------------------------------------------------------ cached slices / maps escaping the lock *)
(* cescape: function e_fn returns, without copying, a slice / map that lives in a struct (e_via says which:
   a selector on a slice/map field, a local bound to one, or the result of another escaping function), either
   directly (e_label = "") or as field e_label of the returned struct.
   cmutate: function m_fn applies the in-place mutation m_op (slices.Sort* / Reverse, sort.*, index assignment,
   append whose result is not stored back) to m_expr, whose root variable came from a call of m_origin
   ("fresh": built in m_fn; "param" / "other" otherwise); m_path = first selector below that variable. *)
Record cescape := mkesc { e_fn : string; e_label : string; e_via : string; e_file : string; e_line : nat }.
Record cmutate := mkmut { m_fn : string; m_op : string; m_expr : string; m_origin : string; m_path : string;
                          m_file : string; m_line : nat }.

(* a value obtained from an escaping function, mutated in place by its caller: the caller writes into memory
   that the callee still holds (and hands to every other caller) *)
Definition mutates_cached (escs : list cescape) (m : cmutate) : bool :=
  existsb (fun e => String.eqb (e_fn e) (m_origin m) && String.eqb (e_label e) (m_path m)) escs.

Definition cached_mutations (escs : list cescape) (muts : list cmutate) : list cmutate :=
  filter (mutates_cached escs) muts.

(* C16 (c) - lock-set / happens-before analysis of the accesses to the shared walk context of
   extractor/filesystem.RunFS.  The access table itself is Generated_WalkAccesses.v, regenerated from the
   Go AST on every run; this file holds the types and the analysis.  No proofs here.

   PARTIAL: a Gallina model cannot exhibit a Go data race.  What is decided here is the classical
   sufficient condition for race freedom - every conflicting pair of accesses by two goroutines is ordered by
   a synchronisation edge or protected by a common lock - evaluated on what the source says.  The runtime
   fact is searched with the Go race detector by the harness.

   Threads of RunFS:
     main   : the caller's goroutine.  RPre  = before the `go` statement, RMid = between the `go` statement
              and close(quit), RPost = after close(quit), RBody = a function without a `go` statement.
     ticker : the `go func` literal (regions RGo) and everything it calls.
   Synchronisation edges:
     - the `go` statement: everything main did before it (RPre) happens-before everything in the ticker;
     - close(quit) happens-before the ticker's receive from quit, after which the ticker touches nothing:
       this orders NO ticker access before or after any main access (the ticker may still be inside
       printStatus when main goes on; nobody joins it);
     - no other channel / WaitGroup operation exists in the function. *)
From Coq Require Import List String Bool Arith.
Import ListNotations.
Open Scope string_scope.

Inductive region := RPre | RGo | RMid | RPost | RBody.
Inductive akind := AR | AW.

Record access := mkacc { a_fn : string; a_field : string; a_kind : akind; a_region : region;
                         a_locks : list string; a_line : nat }.
Record calledge := mkcall { e_from : string; e_to : string; e_region : region; e_locks : list string; e_line : nat }.

Definition region_eqb (a b : region) : bool :=
  match a, b with RPre, RPre | RGo, RGo | RMid, RMid | RPost, RPost | RBody, RBody => true | _, _ => false end.

Definition mem_s (x : string) (l : list string) : bool := existsb (String.eqb x) l.

(* functions reachable from the given ones through call edges (callbacks passed as method values count) *)
Fixpoint reach (fuel : nat) (calls : list calledge) (seen : list string) (work : list string) : list string :=
  match fuel with
  | 0 => seen
  | S f =>
      match work with
      | [] => seen
      | x :: w =>
          if mem_s x seen then reach f calls seen w
          else reach f calls (x :: seen) (map e_to (filter (fun e => String.eqb (e_from e) x) calls) ++ w)
      end
  end.

(* locks a function can rely on being held when it starts: the intersection, over all its call sites, of the
   locks held there (at the site or inherited by the caller); nothing for the root and for functions nobody
   calls.  Greatest fixed point by iteration from "all locks". *)
Definition inter (a b : list string) : list string := filter (fun x => mem_s x b) a.
Fixpoint dedups (l : list string) : list string :=
  match l with [] => [] | x :: r => if mem_s x r then dedups r else x :: dedups r end.
Definition lookup_inh (tbl : list (string * list string)) (k : string) : list string :=
  match find (fun e => String.eqb k (fst e)) tbl with Some e => snd e | None => [] end.
Definition inh_step (top : list string) (calls : list calledge) (root : string) (cur : list (string * list string))
  : list (string * list string) :=
  map (fun e => let k := fst e in
                if String.eqb k root then (k, [])
                else (k, fold_left (fun acc c => inter acc (e_locks c ++ lookup_inh cur (e_from c)))
                                   (filter (fun c => String.eqb k (e_to c)) calls) top)) cur.
Fixpoint iter_n {A} (n : nat) (f : A -> A) (x : A) : A := match n with 0 => x | S m => iter_n m f (f x) end.
Definition inherited (calls : list calledge) (root : string) : list (string * list string) :=
  let top := dedups (flat_map e_locks calls) in
  iter_n (S (List.length calls)) (inh_step top calls root) (map (fun c => (e_to c, top)) calls).

(* an event of a thread: an access, with the region of the root function it belongs to and all locks held
   (its own, those its function inherits from all its callers, and those at the call edge out of the root) *)
Record event := mkev { ev_acc : access; ev_region : region; ev_locks : list string }.

Definition closure_accesses (accs : list access) (calls : list calledge) (root : string) : list access :=
  let fns := reach (2 * List.length calls + 2) calls [] [root] in
  filter (fun a => mem_s (a_fn a) fns) accs.

(* events of the goroutine running [root]: its own accesses in the regions selected by [sel], and for every
   call edge out of it in a selected region, all accesses of the callee's closure *)
Definition thread_events (accs : list access) (calls : list calledge) (root : string) (sel : region -> bool) : list event :=
  let inh := inherited calls root in
  map (fun a => mkev a (a_region a) (a_locks a))
      (filter (fun a => String.eqb (a_fn a) root && sel (a_region a)) accs) ++
  flat_map (fun e => map (fun a => mkev a (e_region e) (e_locks e ++ a_locks a ++ lookup_inh inh (a_fn a)))
                         (closure_accesses accs calls (e_to e)))
           (filter (fun e => String.eqb (e_from e) root && sel (e_region e)) calls).

Definition is_go (r : region) : bool := region_eqb r RGo.
Definition main_events accs calls root := thread_events accs calls root (fun r => negb (is_go r)).
Definition ticker_events accs calls root := thread_events accs calls root is_go.

Definition is_write (a : access) : bool := match a_kind a with AW => true | AR => false end.

Definition conflict (a b : event) : bool :=
  String.eqb (a_field (ev_acc a)) (a_field (ev_acc b)) && (is_write (ev_acc a) || is_write (ev_acc b)).

(* main event a is ordered before every ticker event iff it precedes the go statement *)
Definition ordered (a : event) : bool := region_eqb (ev_region a) RPre.

Definition share_lock (a b : event) : bool := existsb (fun l => mem_s l (ev_locks b)) (ev_locks a).

Definition races (accs : list access) (calls : list calledge) (root : string) : list (event * event) :=
  flat_map (fun a => map (fun b => (a, b))
                         (filter (fun b => conflict a b && negb (ordered a) && negb (share_lock a b))
                                 (ticker_events accs calls root)))
           (main_events accs calls root).

Definition race_free (accs : list access) (calls : list calledge) (root : string) : bool :=
  match races accs calls root with [] => true | _ => false end.

(* the racy fields, in declaration order *)
Definition racy_fields (fields : list string) (accs : list access) (calls : list calledge) (root : string) : list string :=
  let rs := races accs calls root in
  filter (fun f => existsb (fun p => String.eqb f (a_field (ev_acc (fst p)))) rs) fields.

(* which functions touch a racy field on each side (for the report and for matching race-detector stacks) *)
Fixpoint dedup (l : list string) : list string :=
  match l with [] => [] | x :: r => if mem_s x r then dedup r else x :: dedup r end.
Definition racy_main_fns accs calls root : list string :=
  dedup (map (fun p => a_fn (ev_acc (fst p))) (races accs calls root)).
Definition racy_ticker_fns accs calls root : list string :=
  dedup (map (fun p => a_fn (ev_acc (snd p))) (races accs calls root)).

(* C16 (b) - inductive invariants of the RequestCache LTS (Cache.v), over all reachable states with
   arbitrarily many threads. *)
From Coq Require Import List ZArith NArith Bool Arith Lia.
From Scalibr Require Import Sched.Cache.
Import ListNotations.

Definition owner_st (x : tstate) (k : N) (b c : nat) : Prop :=
  x = TOwn k b c \/ x = TRun k b c \/ x = TFnDone k b c.

Definition nosm (s : state) : Prop := sm_used s = false.

Record Inv (s : state) : Prop := mkInv {
  i_calls_fresh : forall k c, calls s k = Some c -> c < next_c s;
  i_owner : forall t k b c, owner_st (threads s t) k b c ->
      calls s k = Some c /\ c_done (recs s c) = false /\ c_key (recs s c) = k /\ c_owner (recs s c) = t /\ b < clock s;
  i_calls : forall k c, calls s k = Some c -> exists b, owner_st (threads s (c_owner (recs s c))) k b c;
  i_cache : nosm s -> forall k v, lookup k (cache s) = Some v -> calls s k = None;
  i_rec_pre : forall t k b c, threads s t = TOwn k b c \/ threads s t = TRun k b c ->
      c_res (recs s c) = None /\ c_fn (recs s c) = None;
  i_rec_post : forall t k b c, threads s t = TFnDone k b c ->
      exists o, c_res (recs s c) = Some o /\ c_fn (recs s c) = Some o;
  i_done : forall c, c < next_c s -> c_done (recs s c) = true ->
      (exists o, c_res (recs s c) = Some o /\ c_fn (recs s c) = Some o) /\ c_done_at (recs s c) < clock s;
  i_wait : forall t k b c, threads s t = TWait k b c ->
      c < next_c s /\ c_key (recs s c) = k /\ b < clock s /\
      (c_done (recs s c) = true -> b <= c_done_at (recs s c)) /\
      (c_done (recs s c) = false -> calls s k = Some c);
  i_start : forall t k b, threads s t = TStart k b -> b < clock s;
  i_ret : forall t k b r c, returned (threads s t) k b r (FromCall c) ->
      c < next_c s /\ c_fn (recs s c) = Some r /\ c_key (recs s c) = k /\ c_done (recs s c) = true /\
      b <= c_done_at (recs s c) /\ c_done_at (recs s c) < clock s;
  i_hit : nosm s -> forall t k b r, returned (threads s t) k b r FromCache ->
      exists v, r = (v, None) /\ sval s k = Some v /\ nsucc s k = 1;
  i_succ_le : nosm s -> forall k, nsucc s k <= 1;
  i_succ_cache : nosm s -> forall k v, lookup k (cache s) = Some v -> nsucc s k = 1 /\ sval s k = Some v;
  i_succ_owner : nosm s -> forall t k b c v, threads s t = TFnDone k b c -> c_res (recs s c) = Some (v, None) ->
      nsucc s k = 1 /\ sval s k = Some v;
  i_succ_src : nosm s -> forall k, nsucc s k = 1 ->
      (exists v, lookup k (cache s) = Some v) \/
      (exists c v b, calls s k = Some c /\ c_res (recs s c) = Some (v, None) /\
                     threads s (c_owner (recs s c)) = TFnDone k b c)
}.

Lemma upd_same {A} (f : nat -> A) i v : upd f i v i = v.
Proof. unfold upd. now rewrite Nat.eqb_refl. Qed.
Lemma upd_other {A} (f : nat -> A) i j v : j <> i -> upd f i v j = f j.
Proof. unfold upd. intros H. destruct (Nat.eqb_spec j i); [contradiction|reflexivity]. Qed.
Lemma updN_same {A} (f : N -> A) i v : updN f i v i = v.
Proof. unfold updN. now rewrite N.eqb_refl. Qed.
Lemma updN_other {A} (f : N -> A) i j v : j <> i -> updN f i v j = f j.
Proof. unfold updN. intros H. destruct (N.eqb_spec j i); [contradiction|reflexivity]. Qed.

Lemma inv_init : Inv init.
Proof.
  constructor; unfold init, nosm, returned, owner_st; simpl; intros;
    repeat match goal with
           | H : _ \/ _ |- _ => destruct H
           | H : exists _, _ |- _ => destruct H
           end; try discriminate; try lia.
Qed.

(* thread-state case analysis after an update of thread t *)
Ltac upd_cases t0 t :=
  unfold upd in *; let E := fresh "E" in destruct (Nat.eqb_spec t0 t) as [E|?]; [try (is_var t0; subst t0); try rewrite E in * |].

Ltac owner_inv H :=
  unfold owner_st in H; destruct H as [H|[H|H]].

Lemma owner_unique s : Inv s -> forall t1 t2 k b1 b2 c1 c2,
  owner_st (threads s t1) k b1 c1 -> owner_st (threads s t2) k b2 c2 -> t1 = t2 /\ c1 = c2.
Proof.
  intros I t1 t2 k b1 b2 c1 c2 H1 H2.
  destruct (i_owner s I _ _ _ _ H1) as (Hc1 & _ & _ & Ho1 & _).
  destruct (i_owner s I _ _ _ _ H2) as (Hc2 & _ & _ & Ho2 & _).
  rewrite Hc1 in Hc2. injection Hc2 as ->. split; congruence.
Qed.

(* decompose hypotheses produced by the invariant *)
Ltac destr :=
  repeat match goal with
         | H : _ /\ _ |- _ => destruct H
         | H : exists _, _ |- _ => destruct H
         end.

Ltac use_inv I :=
  repeat match goal with
         | H : owner_st (threads _ _) _ _ _ |- _ => pose proof (i_owner _ I _ _ _ _ H); clear H
         end.

(* a step that only moves thread t to the control state Y *)
Lemma inv_set_thr s t Y : Inv s ->
  (forall k b c, owner_st (threads s t) k b c -> owner_st Y k b c) ->
  (forall k b c, threads s t = TFnDone k b c -> Y = TFnDone k b c) ->
  (forall k b c, owner_st Y k b c -> owner_st (threads s t) k b c) ->
  (forall k b c, Y = TOwn k b c \/ Y = TRun k b c -> threads s t = TOwn k b c \/ threads s t = TRun k b c) ->
  (forall k b c, Y = TFnDone k b c -> threads s t = TFnDone k b c) ->
  (forall k b c, Y = TWait k b c ->
      c < next_c s /\ c_key (recs s c) = k /\ b <= clock s /\
      (c_done (recs s c) = true -> b <= c_done_at (recs s c)) /\
      (c_done (recs s c) = false -> calls s k = Some c)) ->
  (forall k b, Y = TStart k b -> b <= clock s) ->
  (forall k b r c, returned Y k b r (FromCall c) ->
      c < next_c s /\ c_fn (recs s c) = Some r /\ c_key (recs s c) = k /\ c_done (recs s c) = true /\
      b <= c_done_at (recs s c) /\ c_done_at (recs s c) <= clock s) ->
  (nosm s -> forall k b r, returned Y k b r FromCache ->
      exists v, r = (v, None) /\ sval s k = Some v /\ nsucc s k = 1) ->
  Inv (set_thr s t Y).
Proof.
  intros I Hown Hfd Hown' Hpre Hpost Hwait Hstart Hret Hhit. unfold set_thr.
  constructor; unfold nosm; simpl.
  - apply (i_calls_fresh s I).
  - intros t0 k0 b0 c0 H. upd_cases t0 t.
    + apply Hown' in H. pose proof (i_owner s I t k0 b0 c0 H). destr. repeat split; auto.
    + pose proof (i_owner s I t0 k0 b0 c0 H). destr. repeat split; auto.
  - intros k0 c0 H. destruct (i_calls s I _ _ H) as [b Hb]. exists b.
    upd_cases (c_owner (recs s c0)) t; auto.
  - apply (i_cache s I).
  - intros t0 k0 b0 c0 H. upd_cases t0 t. { apply Hpre in H. apply (i_rec_pre s I t k0 b0 c0 H). }
    apply (i_rec_pre s I t0 k0 b0 c0 H).
  - intros t0 k0 b0 c0 H. upd_cases t0 t. { apply Hpost in H. apply (i_rec_post s I t k0 b0 c0 H). }
    apply (i_rec_post s I t0 k0 b0 c0 H).
  - intros c Hc Hd. destruct (i_done s I c Hc Hd). split; auto.
  - intros t0 k0 b0 c0 H. upd_cases t0 t. { pose proof (Hwait _ _ _ H). destr. repeat split; auto. lia. }
    pose proof (i_wait s I t0 k0 b0 c0 H). destr. repeat split; auto.
  - intros t0 k0 b0 H. upd_cases t0 t. { pose proof (Hstart _ _ H). lia. } pose proof (i_start s I _ _ _ H). lia.
  - intros t0 k0 b0 r c H. upd_cases t0 t. { pose proof (Hret _ _ _ _ H). destr. repeat split; auto. lia. }
    pose proof (i_ret s I t0 k0 b0 r c H). destr. repeat split; auto.
  - intros Hn t0 k0 b0 r H. upd_cases t0 t. { apply (Hhit Hn _ _ _ H). } apply (i_hit s I Hn t0 k0 b0 r H).
  - apply (i_succ_le s I).
  - apply (i_succ_cache s I).
  - intros Hn t0 k0 b0 c v H. upd_cases t0 t. { apply Hpost in H. apply (i_succ_owner s I Hn t k0 b0 c v H). }
    apply (i_succ_owner s I Hn t0 k0 b0 c v H).
  - intros Hn k0 H. destruct (i_succ_src s I Hn k0 H) as [?|(c & v & b & H1 & H2 & H3)]; [left; auto|right].
    exists c, v, b. repeat split; auto. upd_cases (c_owner (recs s c)) t; auto.
Qed.

Ltac not_owner := unfold owner_st, returned; intros;
  repeat match goal with H : _ \/ _ |- _ => destruct H end; try discriminate; try congruence.

Lemma inv_begin s t k s' : Inv s -> exec_step s (LBegin t k) = Some s' -> Inv s'.
Proof.
  intros I H. unfold exec_step in H. destruct (threads s t) eqn:Ht; try discriminate.
  injection H as <-. apply inv_set_thr; auto; rewrite ?Ht; try solve [not_owner].
  intros k0 b0 H. injection H as <- <-. lia.
Qed.

Lemma inv_fnstart s t s' : Inv s -> exec_step s (LFnStart t) = Some s' -> Inv s'.
Proof.
  intros I H. unfold exec_step in H. destruct (threads s t) eqn:Ht; try discriminate.
  injection H as <-. apply inv_set_thr; auto; rewrite ?Ht; try solve [not_owner].
  - unfold owner_st. intros k0 b0 c0 [H|[H|H]]; try discriminate. injection H as <- <- <-. auto.
  - unfold owner_st. intros k0 b0 c0 [H|[H|H]]; try discriminate. injection H as <- <- <-. auto.
  - intros k0 b0 c0 [H|H]; try discriminate. injection H as <- <- <-. auto.
Qed.

Lemma inv_wake s t s' : Inv s -> exec_step s (LWake t) = Some s' -> Inv s'.
Proof.
  intros I H. unfold exec_step in H. destruct (threads s t) eqn:Ht; try discriminate.
  destruct (c_done (recs s c)) eqn:Hd; try discriminate.
  injection H as <-. pose proof (i_wait s I _ _ _ _ Ht) as W. destr.
  destruct (i_done s I c H Hd) as [(o & Ho1 & Ho2) Hlt].
  apply inv_set_thr; auto; rewrite ?Ht; try solve [not_owner].
  unfold returned. intros k0 b0 r c0 [E|E]; try discriminate. injection E as <- <- <- <-.
  unfold read_rec. rewrite Ho1. repeat split; auto. lia.
Qed.

Lemma inv_return s t r s' : Inv s -> exec_step s (LReturn t r) = Some s' -> Inv s'.
Proof.
  intros I H. unfold exec_step in H. destruct (threads s t) eqn:Ht; try discriminate.
  destruct (out_eqb r r0); try discriminate.
  injection H as <-.
  apply inv_set_thr; auto; rewrite ?Ht; try solve [not_owner].
  - unfold returned. intros k0 b0 r1 c0 [E|E]; try discriminate. injection E as <- <- <- ->.
    pose proof (i_ret s I t k b r0 c0) as R. rewrite Ht in R. specialize (R (or_introl eq_refl)). destr.
    repeat split; auto. lia.
  - unfold returned. intros Hn k0 b0 r1 [E|E]; try discriminate. injection E as <- <- <- ->.
    apply (i_hit s I Hn t k b r0). rewrite Ht. left. reflexivity.
Qed.


Lemma inv_setmap s m s' : Inv s -> exec_step s (LSetMap m) = Some s' -> Inv s'.
Proof.
  intros I H. unfold exec_step in H. injection H as <-.
  constructor; unfold nosm; simpl; try discriminate.
  - apply (i_calls_fresh s I).
  - intros t0 k0 b0 c0 H. pose proof (i_owner s I t0 k0 b0 c0 H). destr. repeat split; auto.
  - apply (i_calls s I).
  - apply (i_rec_pre s I).
  - apply (i_rec_post s I).
  - intros c Hc Hd. destruct (i_done s I c Hc Hd). split; auto.
  - intros t0 k0 b0 c0 H. pose proof (i_wait s I t0 k0 b0 c0 H). destr. repeat split; auto.
  - intros t0 k0 b0 H. pose proof (i_start s I _ _ _ H). lia.
  - intros t0 k0 b0 r c H. pose proof (i_ret s I t0 k0 b0 r c H). destr. repeat split; auto.
Qed.

Lemma inv_getmap s m s' : Inv s -> exec_step s (LGetMap m) = Some s' -> Inv s'.
Proof.
  intros I H. unfold exec_step in H. destruct (same_map m (cache s)); try discriminate. injection H as <-.
  constructor; unfold nosm; simpl.
  - apply (i_calls_fresh s I).
  - intros t0 k0 b0 c0 H. pose proof (i_owner s I t0 k0 b0 c0 H). destr. repeat split; auto.
  - apply (i_calls s I).
  - apply (i_cache s I).
  - apply (i_rec_pre s I).
  - apply (i_rec_post s I).
  - intros c Hc Hd. destruct (i_done s I c Hc Hd). split; auto.
  - intros t0 k0 b0 c0 H. pose proof (i_wait s I t0 k0 b0 c0 H). destr. repeat split; auto.
  - intros t0 k0 b0 H. pose proof (i_start s I _ _ _ H). lia.
  - intros t0 k0 b0 r c H. pose proof (i_ret s I t0 k0 b0 r c H). destr. repeat split; auto.
  - apply (i_hit s I).
  - apply (i_succ_le s I).
  - apply (i_succ_cache s I).
  - apply (i_succ_owner s I).
  - apply (i_succ_src s I).
Qed.

(* facts about an owner thread *)
Lemma owner_facts s t k b c : Inv s -> owner_st (threads s t) k b c ->
  calls s k = Some c /\ c < next_c s /\ c_done (recs s c) = false /\ c_key (recs s c) = k /\
  c_owner (recs s c) = t /\ b < clock s /\ (nosm s -> lookup k (cache s) = None).
Proof.
  intros I H. destruct (i_owner s I _ _ _ _ H) as (H1 & H2 & H3 & H4 & H5).
  repeat split; auto. { apply (i_calls_fresh s I _ _ H1). }
  intros Hn. destruct (lookup k (cache s)) eqn:E; auto.
  rewrite (i_cache s I Hn _ _ E) in H1. discriminate.
Qed.

(* another owner thread has a different key and a different record *)
Lemma other_owner s t k b c t0 k0 b0 c0 : Inv s -> owner_st (threads s t) k b c ->
  owner_st (threads s t0) k0 b0 c0 -> t0 <> t -> k0 <> k /\ c0 <> c.
Proof.
  intros I H H0 Hne. split.
  - intros ->. destruct (owner_unique s I _ _ _ _ _ _ _ H0 H). contradiction.
  - intros ->. destruct (i_owner s I _ _ _ _ H) as (_ & _ & _ & E1 & _).
    destruct (i_owner s I _ _ _ _ H0) as (_ & _ & _ & E2 & _). congruence.
Qed.

Lemma lock1_hit s t k b v : Inv s -> threads s t = TStart k b -> lookup k (cache s) = Some v ->
  Inv (set_thr s t (TRet k b (v, None) FromCache)).
Proof.
  intros I Ht Hl. apply inv_set_thr; auto; rewrite ?Ht; try solve [not_owner].
  unfold returned. intros Hn k0 b0 r [E|E]; try discriminate. injection E as <- <- <-.
  destruct (i_succ_cache s I Hn _ _ Hl). exists v. auto.
Qed.

Lemma lock1_wait s t k b c : Inv s -> threads s t = TStart k b -> calls s k = Some c ->
  Inv (set_thr s t (TWait k b c)).
Proof.
  intros I Ht Hc. apply inv_set_thr; auto; rewrite ?Ht; try solve [not_owner].
  intros k0 b0 c0 E. injection E as <- <- <-.
  destruct (i_calls s I _ _ Hc) as [b' Hb'].
  destruct (owner_facts s _ _ _ _ I Hb') as (H1 & H2 & H3 & H4 & H5 & H6 & _).
  pose proof (i_start s I _ _ _ Ht).
  repeat split; auto; try lia. congruence.
Qed.

Ltac ucase x y :=
  destruct (Nat.eq_dec x y) as [?E|?NE];
  [ try (is_var x; subst x); try rewrite ?E in *; rewrite ?upd_same in *
  | rewrite ?(upd_other _ y x) in * by assumption ].
Ltac ncase x y :=
  destruct (N.eq_dec x y) as [?E|?NE];
  [ try (is_var x; subst x); try rewrite ?E in *; rewrite ?updN_same in *
  | rewrite ?(updN_other _ y x) in * by assumption ].

Lemma lock1_own s t k b : Inv s -> threads s t = TStart k b -> lookup k (cache s) = None -> calls s k = None ->
  Inv (mkst (upd (threads s) t (TOwn k b (next_c s))) (cache s) (updN (calls s) k (Some (next_c s)))
            (upd (recs s) (next_c s) (mkrec k false None None t 0)) (S (next_c s)) (S (clock s)) (sm_used s)
            (nsucc s) (sval s)).
Proof.
  intros I Ht Hl Hc. set (c := next_c s).
  assert (Hfresh : forall t0 k0 b0 c0, owner_st (threads s t0) k0 b0 c0 -> c0 <> c /\ k0 <> k /\ t0 <> t).
  { intros t0 k0 b0 c0 H. destruct (owner_facts s _ _ _ _ I H) as (H1 & H2 & _). repeat split.
    - unfold c. lia.
    - intros ->. congruence.
    - intros ->. rewrite Ht in H. destruct H as [H|[H|H]]; discriminate. }
  constructor; unfold nosm; simpl.
  - intros k0 c0 H. ncase k0 k. { injection H as <-. unfold c. lia. } pose proof (i_calls_fresh s I _ _ H). lia.
  - intros t0 k0 b0 c0 H. ucase t0 t.
    + destruct H as [H|[H|H]]; try discriminate. injection H as <- <- <-.
      rewrite updN_same, upd_same. simpl. pose proof (i_start s I _ _ _ Ht). repeat split; auto.
    + destruct (Hfresh _ _ _ _ H) as (F1 & F2 & F3). rewrite upd_other by assumption.
      rewrite updN_other by assumption. pose proof (i_owner s I _ _ _ _ H). destr. repeat split; auto.
  - intros k0 c0 H. ncase k0 k.
    + injection H as <-. rewrite upd_same. simpl. rewrite upd_same. exists b. left. reflexivity.
    + destruct (i_calls s I _ _ H) as [b' Hb']. destruct (Hfresh _ _ _ _ Hb') as (F1 & F2 & F3).
      rewrite (upd_other _ c c0) by assumption. rewrite upd_other by assumption. exists b'. exact Hb'.
  - intros Hn k0 v H. ncase k0 k. { congruence. } apply (i_cache s I Hn _ _ H).
  - intros t0 k0 b0 c0 H. ucase t0 t.
    + destruct H as [H|H]; try discriminate. injection H as <- <- <-. rewrite upd_same. simpl. auto.
    + assert (Ho : owner_st (threads s t0) k0 b0 c0) by (unfold owner_st; tauto).
      destruct (Hfresh _ _ _ _ Ho) as (F1 & F2 & F3). rewrite upd_other by assumption.
      apply (i_rec_pre s I t0 k0 b0 c0 H).
  - intros t0 k0 b0 c0 H. ucase t0 t. { discriminate. }
    assert (Ho : owner_st (threads s t0) k0 b0 c0) by (unfold owner_st; tauto).
    destruct (Hfresh _ _ _ _ Ho) as (F1 & F2 & F3). rewrite upd_other by assumption.
    apply (i_rec_post s I t0 k0 b0 c0 H).
  - intros c0 Hc0 Hd. ucase c0 c. { simpl in Hd. discriminate. }
    assert (c0 < next_c s) by (unfold c in *; lia).
    destruct (i_done s I c0 H Hd). split; auto.
  - intros t0 k0 b0 c0 H. ucase t0 t. { discriminate. }
    pose proof (i_wait s I t0 k0 b0 c0 H) as W. destr.
    assert (c0 <> c) by (unfold c; lia). rewrite upd_other by assumption.
    repeat split; auto. intros Hd. specialize (H4 Hd). ncase k0 k; congruence.
  - intros t0 k0 b0 H. ucase t0 t. { discriminate. } pose proof (i_start s I _ _ _ H). lia.
  - intros t0 k0 b0 r c0 H. ucase t0 t. { destruct H; discriminate. }
    pose proof (i_ret s I t0 k0 b0 r c0 H). destr.
    assert (c0 <> c) by (unfold c; lia). rewrite upd_other by assumption. repeat split; auto.
  - intros Hn t0 k0 b0 r H. ucase t0 t. { destruct H; discriminate. } apply (i_hit s I Hn t0 k0 b0 r H).
  - apply (i_succ_le s I).
  - apply (i_succ_cache s I).
  - intros Hn t0 k0 b0 c0 v H. ucase t0 t. { discriminate. }
    assert (Ho : owner_st (threads s t0) k0 b0 c0) by (unfold owner_st; tauto).
    destruct (Hfresh _ _ _ _ Ho) as (F1 & F2 & F3). rewrite upd_other by assumption.
    apply (i_succ_owner s I Hn t0 k0 b0 c0 v H).
  - intros Hn k0 H. destruct (i_succ_src s I Hn k0 H) as [?|(c0 & v & b0 & H1 & H2 & H3)]; [left; auto|right].
    assert (Ho : owner_st (threads s (c_owner (recs s c0))) k0 b0 c0) by (unfold owner_st; tauto).
    destruct (Hfresh _ _ _ _ Ho) as (F1 & F2 & F3).
    exists c0, v, b0. rewrite updN_other by assumption. rewrite (upd_other _ c c0) by assumption.
    rewrite upd_other by assumption. auto.
Qed.

Lemma inv_lock1 s t s' : Inv s -> exec_step s (LLock1 t) = Some s' -> Inv s'.
Proof.
  intros I H. unfold exec_step in H. destruct (threads s t) eqn:Ht; try discriminate.
  destruct (lookup k (cache s)) eqn:Hl.
  - injection H as <-. apply lock1_hit; auto.
  - destruct (calls s k) eqn:Hc; injection H as <-.
    + apply lock1_wait; auto.
    + apply lock1_own; auto.
Qed.

Lemma inv_fnret s t o s' : Inv s -> exec_step s (LFnRet t o) = Some s' -> Inv s'.
Proof.
  intros I H. unfold exec_step in H. destruct (threads s t) eqn:Ht; try discriminate.
  cbv zeta in H. injection H as <-.
  assert (Ho : owner_st (threads s t) k b c) by (unfold owner_st; rewrite Ht; tauto).
  destruct (owner_facts s _ _ _ _ I Ho) as (Hc & Hlt & Hd & Hk & Hown & Hb & Hnc).
  destruct (i_rec_pre s I t k b c (or_intror Ht)) as [Hres Hfn].
  assert (Hother : forall t0 k0 b0 c0, owner_st (threads s t0) k0 b0 c0 -> t0 <> t -> k0 <> k /\ c0 <> c).
  { intros. eapply other_owner; eauto. }
  assert (Hzero : nosm s -> nsucc s k = 0).
  { intros Hn. pose proof (i_succ_le s I Hn k). destruct (nsucc s k) as [|[|n]] eqn:E; auto; try lia.
    destruct (i_succ_src s I Hn k E) as [[v Hv]|(c0 & v & b0 & H1 & H2 & H3)].
    - rewrite (Hnc Hn) in Hv. discriminate.
    - rewrite Hc in H1. injection H1 as <-. congruence. }
  set (r' := mkrec (c_key (recs s c)) (c_done (recs s c)) (Some o) (Some o) (c_owner (recs s c)) (c_done_at (recs s c))).
  assert (Rk : forall x, c_key (upd (recs s) c r' x) = c_key (recs s x)) by (intros x; ucase x c; reflexivity).
  assert (Rd : forall x, c_done (upd (recs s) c r' x) = c_done (recs s x)) by (intros x; ucase x c; reflexivity).
  assert (Ro : forall x, c_owner (upd (recs s) c r' x) = c_owner (recs s x)) by (intros x; ucase x c; reflexivity).
  assert (Ra : forall x, c_done_at (upd (recs s) c r' x) = c_done_at (recs s x)) by (intros x; ucase x c; reflexivity).
  constructor; unfold nosm; simpl.
  - apply (i_calls_fresh s I).
  - intros t0 k0 b0 c0 H. rewrite Rk, Rd, Ro. ucase t0 t.
    + destruct H as [H|[H|H]]; try discriminate. injection H as <- <- <-. repeat split; auto.
    + pose proof (i_owner s I _ _ _ _ H). destr. repeat split; auto.
  - intros k0 c0 H. rewrite Ro. destruct (i_calls s I _ _ H) as [b' Hb']. ucase (c_owner (recs s c0)) t.
    + rewrite Ht in Hb'. destruct Hb' as [Hb'|[Hb'|Hb']]; try discriminate. injection Hb' as <- <- <-.
      exists b. right; right. reflexivity.
    + exists b'. exact Hb'.
  - apply (i_cache s I).
  - intros t0 k0 b0 c0 H. ucase t0 t. { destruct H; discriminate. }
    assert (Ho0 : owner_st (threads s t0) k0 b0 c0) by (unfold owner_st; tauto).
    destruct (Hother _ _ _ _ Ho0 NE). rewrite upd_other by assumption. apply (i_rec_pre s I t0 k0 b0 c0 H).
  - intros t0 k0 b0 c0 H. ucase t0 t.
    + injection H as <- <- <-. rewrite upd_same. exists o. simpl. auto.
    + assert (Ho0 : owner_st (threads s t0) k0 b0 c0) by (unfold owner_st; tauto).
      destruct (Hother _ _ _ _ Ho0 NE). rewrite upd_other by assumption. apply (i_rec_post s I t0 k0 b0 c0 H).
  - intros c0 Hc0 Hd0. rewrite Rd in Hd0. rewrite Ra. ucase c0 c. { congruence. }
    destruct (i_done s I c0 Hc0 Hd0). split; auto.
  - intros t0 k0 b0 c0 H. rewrite Rk, Rd, Ra. ucase t0 t. { discriminate. }
    pose proof (i_wait s I t0 k0 b0 c0 H) as W. destr. repeat split; auto.
  - intros t0 k0 b0 H. ucase t0 t. { discriminate. } pose proof (i_start s I _ _ _ H). lia.
  - intros t0 k0 b0 r c0 H. rewrite Rk, Rd, Ra. ucase t0 t. { destruct H; discriminate. }
    pose proof (i_ret s I t0 k0 b0 r c0 H). destr. ucase c0 c. { congruence. } repeat split; auto.
  - intros Hn t0 k0 b0 r H. ucase t0 t. { destruct H; discriminate. }
    destruct (i_hit s I Hn t0 k0 b0 r H) as (v & E1 & E2 & E3). exists v.
    destruct (snd o); auto. ncase k0 k. { rewrite (Hzero Hn) in E3. discriminate. } auto.
  - intros Hn k0. destruct (snd o). { apply (i_succ_le s I Hn). }
    ncase k0 k. { rewrite (Hzero Hn). lia. } apply (i_succ_le s I Hn).
  - intros Hn k0 v H. destruct (i_succ_cache s I Hn _ _ H). destruct (snd o); auto.
    ncase k0 k; auto. rewrite (Hnc Hn) in H. discriminate.
  - intros Hn t0 k0 b0 c0 v H Hr. ucase t0 t.
    + injection H as <- <- <-. rewrite upd_same in Hr. simpl in Hr. injection Hr as ->. simpl.
      rewrite !updN_same. rewrite (Hzero Hn). auto.
    + assert (Ho0 : owner_st (threads s t0) k0 b0 c0) by (unfold owner_st; tauto).
      destruct (Hother _ _ _ _ Ho0 NE). rewrite upd_other in Hr by assumption.
      destruct (i_succ_owner s I Hn t0 k0 b0 c0 v H Hr). destruct (snd o); auto.
      rewrite !updN_other by assumption. auto.
  - intros Hn k0 H. ncase k0 k.
    + right. destruct o as [v e]. destruct e as [e|]; simpl in H.
      { rewrite (Hzero Hn) in H. discriminate. }
      exists c, v, b. rewrite Ro. rewrite upd_same. simpl. rewrite Hown, upd_same. auto.
    + assert (H' : nsucc s k0 = 1). { destruct (snd o); auto. rewrite updN_other in H by assumption. auto. }
      destruct (i_succ_src s I Hn k0 H') as [?|(c0 & v & b0 & H1 & H2 & H3)]; [left; auto|right].
      assert (Ho0 : owner_st (threads s (c_owner (recs s c0))) k0 b0 c0) by (unfold owner_st; tauto).
      assert (c_owner (recs s c0) <> t).
      { intros E. rewrite E, Ht in H3. discriminate. }
      destruct (Hother _ _ _ _ Ho0 H0).
      exists c0, v, b0. rewrite Ro. rewrite (upd_other _ c c0) by assumption. rewrite upd_other by assumption. auto.
Qed.

Lemma lookup_cons_other k0 k v m : k0 <> k -> lookup k0 ((k, v) :: m) = lookup k0 m.
Proof. intros H. simpl. destruct (N.eqb_spec k0 k); [contradiction|reflexivity]. Qed.
Lemma lookup_cons_same k v m : lookup k ((k, v) :: m) = Some v.
Proof. simpl. now rewrite N.eqb_refl. Qed.

Lemma inv_lock2 s t s' : Inv s -> exec_step s (LLock2 t) = Some s' -> Inv s'.
Proof.
  intros I H. unfold exec_step in H. destruct (threads s t) eqn:Ht; try discriminate.
  assert (Ho : owner_st (threads s t) k b c) by (unfold owner_st; rewrite Ht; tauto).
  destruct (owner_facts s _ _ _ _ I Ho) as (Hc & Hlt & Hd & Hk & Hown & Hb & Hnc).
  destruct (i_rec_post s I t k b c Ht) as (o & Hres & Hfn).
  cbv zeta in H. rewrite Hc, Nat.eqb_refl in H. unfold read_rec in H. rewrite Hres in H.
  injection H as <-.
  assert (Hother : forall t0 k0 b0 c0, owner_st (threads s t0) k0 b0 c0 -> t0 <> t -> k0 <> k /\ c0 <> c).
  { intros. eapply other_owner; eauto. }
  set (r' := mkrec (c_key (recs s c)) true (Some o) (c_fn (recs s c)) (c_owner (recs s c)) (clock s)).
  set (cache' := match snd o with None => (k, fst o) :: cache s | Some _ => cache s end).
  assert (Rk : forall x, c_key (upd (recs s) c r' x) = c_key (recs s x)) by (intros x; ucase x c; reflexivity).
  assert (Ro : forall x, c_owner (upd (recs s) c r' x) = c_owner (recs s x)) by (intros x; ucase x c; reflexivity).
  assert (Rr : forall x, c_res (upd (recs s) c r' x) = c_res (recs s x)) by (intros x; ucase x c; simpl; congruence).
  assert (Rf : forall x, c_fn (upd (recs s) c r' x) = c_fn (recs s x)) by (intros x; ucase x c; reflexivity).
  assert (Lk : forall k0, k0 <> k -> lookup k0 cache' = lookup k0 (cache s)).
  { intros k0 Hne. unfold cache'. destruct (snd o); auto. apply lookup_cons_other; auto. }
  constructor; unfold nosm; simpl.
  - intros k0 c0 H. ncase k0 k. { discriminate. } apply (i_calls_fresh s I _ _ H).
  - intros t0 k0 b0 c0 H. rewrite Rk, Ro. ucase t0 t. { destruct H as [H|[H|H]]; discriminate. }
    destruct (Hother _ _ _ _ H NE). rewrite updN_other by assumption. rewrite upd_other by assumption.
    pose proof (i_owner s I _ _ _ _ H). destr. repeat split; auto.
  - intros k0 c0 H. rewrite Ro. ncase k0 k. { discriminate. }
    destruct (i_calls s I _ _ H) as [b' Hb']. exists b'. ucase (c_owner (recs s c0)) t; auto.
    rewrite Ht in Hb'. destruct Hb' as [Hb'|[Hb'|Hb']]; try discriminate. injection Hb' as -> -> ->. contradiction.
  - intros Hn k0 v H. ncase k0 k; auto. rewrite Lk in H by assumption. apply (i_cache s I Hn _ _ H).
  - intros t0 k0 b0 c0 H. rewrite Rr, Rf. ucase t0 t. { destruct H; discriminate. } apply (i_rec_pre s I t0 k0 b0 c0 H).
  - intros t0 k0 b0 c0 H. rewrite Rr, Rf. ucase t0 t. { discriminate. } apply (i_rec_post s I t0 k0 b0 c0 H).
  - intros c0 Hc0 Hd0. rewrite Rr, Rf. ucase c0 c.
    + simpl. split; [exists o; auto | lia].
    + destruct (i_done s I c0 Hc0 Hd0). split; auto.
  - intros t0 k0 b0 c0 H. rewrite Rk. ucase t0 t. { discriminate. }
    pose proof (i_wait s I t0 k0 b0 c0 H) as W. destr. ucase c0 c.
    + simpl. repeat split; auto; try lia; try discriminate.
    + repeat split; auto. intros Hd0. specialize (H4 Hd0). ncase k0 k; congruence.
  - intros t0 k0 b0 H. ucase t0 t. { discriminate. } pose proof (i_start s I _ _ _ H). lia.
  - intros t0 k0 b0 r c0 H. rewrite Rk, Rf. ucase t0 t.
    + destruct H as [H|H]; try discriminate. injection H as <- <- <- <-. rewrite upd_same. simpl.
      repeat split; auto; lia.
    + pose proof (i_ret s I t0 k0 b0 r c0 H). destr. ucase c0 c. { congruence. } repeat split; auto.
  - intros Hn t0 k0 b0 r H. ucase t0 t. { destruct H; discriminate. } apply (i_hit s I Hn t0 k0 b0 r H).
  - apply (i_succ_le s I).
  - intros Hn k0 v H. ncase k0 k.
    + unfold cache' in H. destruct o as [v' e]. destruct e as [e|]; simpl in H.
      { rewrite (Hnc Hn) in H. discriminate. }
      rewrite N.eqb_refl in H. injection H as <-. apply (i_succ_owner s I Hn t k b c v' Ht Hres).
    + rewrite Lk in H by assumption. apply (i_succ_cache s I Hn _ _ H).
  - intros Hn t0 k0 b0 c0 v H. rewrite Rr. ucase t0 t. { discriminate. } apply (i_succ_owner s I Hn t0 k0 b0 c0 v H).
  - intros Hn k0 H. ncase k0 k.
    + left. unfold cache'. destruct o as [v e]. destruct e as [e|]; simpl.
      * exfalso. destruct (i_succ_src s I Hn k H) as [[v' Hv']|(c0 & v' & b0 & H1 & H2 & H3)].
        { rewrite (Hnc Hn) in Hv'. discriminate. }
        rewrite Hc in H1. injection H1 as <-. rewrite Hres in H2. discriminate.
      * exists v. now rewrite N.eqb_refl.
    + destruct (i_succ_src s I Hn k0 H) as [[v Hv]|(c0 & v & b0 & H1 & H2 & H3)].
      { left. exists v. rewrite Lk; auto. }
      right. exists c0, v, b0. rewrite Rr, Ro. try rewrite updN_other by assumption.
      repeat split; auto. ucase (c_owner (recs s c0)) t; auto.
      rewrite Ht in H3. injection H3 as -> -> ->. contradiction.
Qed.

Lemma inv_step s l s' : Inv s -> step s l s' -> Inv s'.
Proof.
  intros I H. unfold step in H. destruct l.
  - eapply inv_begin; eauto.
  - eapply inv_lock1; eauto.
  - eapply inv_fnstart; eauto.
  - eapply inv_fnret; eauto.
  - eapply inv_lock2; eauto.
  - eapply inv_wake; eauto.
  - eapply inv_return; eauto.
  - eapply inv_setmap; eauto.
  - eapply inv_getmap; eauto.
Qed.

Lemma reachable_inv s : reachable s -> Inv s.
Proof. induction 1; [apply inv_init | eapply inv_step; eauto]. Qed.

(* ------------------------------------------------------------------ the five properties *)
Lemma single_flight_lemma s : reachable s -> single_flight s.
Proof.
  intros R. pose proof (reachable_inv s R) as I. split.
  - intros t1 t2 k b1 b2 c1 c2 H1 H2.
    assert (O1 : owner_st (threads s t1) k b1 c1) by (unfold owner_st; tauto).
    assert (O2 : owner_st (threads s t2) k b2 c2) by (unfold owner_st; tauto).
    apply (owner_unique s I _ _ _ _ _ _ _ O1 O2).
  - intros Hn t k b c H.
    assert (O : owner_st (threads s t) k b c) by (unfold owner_st; tauto).
    destruct (owner_facts s _ _ _ _ I O) as (_ & _ & _ & _ & _ & _ & Hc). apply Hc. exact Hn.
Qed.

Lemma at_most_one_success_lemma s : reachable s -> at_most_one_success_per_key s.
Proof. intros R Hn k. apply (i_succ_le s (reachable_inv s R) Hn). Qed.

Lemma waiters_get_owner_result_lemma s : reachable s -> waiters_get_owner_result s.
Proof.
  intros R t k b r c H. pose proof (i_ret s (reachable_inv s R) t k b r c H). destr. auto.
Qed.

Lemma returns_linearizable_lemma s : reachable s -> returns_linearizable s.
Proof.
  intros R t k b r from H. pose proof (reachable_inv s R) as I. destruct from.
  - intros Hn. apply (i_hit s I Hn t k b r H).
  - pose proof (i_ret s I t k b r c H). destr. auto.
Qed.

Lemma no_lost_wakeup_lemma s : reachable s -> no_lost_wakeup s.
Proof.
  intros R t k b c H. pose proof (reachable_inv s R) as I.
  pose proof (i_wait s I t k b c H) as W. destr.
  destruct (c_done (recs s c)) eqn:Hd; auto. right.
  destruct (i_calls s I k c (H4 eq_refl)) as [b' Hb']. exists b'. exact Hb'.
Qed.

(* the owner of a pending call can always take its next step (fn's return is up to the environment), and a
   waiter whose record is done can wake up: together with no_lost_wakeup, no Get is ever stuck *)
Lemma owner_progress s t k c : reachable s -> owner_state (threads s t) k c ->
  exists l s', label_thread l = Some t /\ step s l s'.
Proof.
  intros R [b [H|[H|H]]]; unfold step.
  - exists (LFnStart t). eexists. simpl. rewrite H. eauto.
  - exists (LFnRet t (0%Z, None)). eexists. simpl. rewrite H. eauto.
  - exists (LLock2 t). eexists. simpl. rewrite H. eauto.
Qed.

Lemma waiter_progress s t k b c : threads s t = TWait k b c -> c_done (recs s c) = true ->
  exists s', step s (LWake t) s'.
Proof. intros H Hd. unfold step. simpl. rewrite H, Hd. eauto. Qed.

Lemma start_progress s t k b : threads s t = TStart k b -> exists s', step s (LLock1 t) s'.
Proof.
  intros H. unfold step. simpl. rewrite H.
  destruct (lookup k (cache s)); [eauto|]. destruct (calls s k); eauto.
Qed.

Lemma run_reachable : forall ls s s', reachable s ->
  fold_left (fun o l => match o with Some x => exec_step x l | None => None end) ls (Some s) = Some s' -> reachable s'.
Proof.
  induction ls as [|l ls IH]; simpl; intros s s' R H.
  - injection H as <-. exact R.
  - destruct (exec_step s l) as [s1|] eqn:E.
    + apply (IH s1); auto. eapply reach_step; eauto.
    + exfalso. clear -H. induction ls; simpl in H; [discriminate|auto].
Qed.

Lemma cache_reachable_example_lemma :
  exists s, reachable s /\ threads s 0 = TRun 0%N 0 0 /\ threads s 1 = TWait 0%N 3 0.
Proof.
  destruct (fold_left (fun o l => match o with Some x => exec_step x l | None => None end)
              [LBegin 0 0%N; LLock1 0; LFnStart 0; LBegin 1 0%N; LLock1 1] (Some init)) as [s|] eqn:E.
  - exists s. split; [apply (run_reachable _ _ _ reach_init E)|].
    vm_compute in E. injection E as <-. split; reflexivity.
  - vm_compute in E. discriminate.
Qed.

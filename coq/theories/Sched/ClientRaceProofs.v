(* C16 (c') - what the lock-set discipline (ClientRace.v) says about the access table of the structs of
   clients/datasource and clients/resolution regenerated on this run (Generated_ClientAccesses.v). *)
From Coq Require Import List String Bool Arith.
From Scalibr Require Import Sched.ClientRace Sched.Generated_ClientAccesses.
Import ListNotations.
Open Scope string_scope.

(* the complete list of (struct, field) slots with an unprotected conflicting pair of method accesses *)
Lemma client_unprotected_slots_lemma :
  unprotected_slots client_accesses =
    [("MavenRegistryAPIClient", "registries"); ("MavenRegistryAPIClient", "cacheTimestamp");
     ("OverrideClient", "verDeps"); ("OverrideClient", "pkgVers")].
Proof. vm_compute. reflexivity. Qed.

(* the request cache and the lazily initialised combined client keep every conflicting access under their mutex *)
Lemma shared_clients_lock_protected_lemma :
  forallb (fun sf => slot_free client_accesses (fst sf) (snd sf))
    [("RequestCache", "cache"); ("RequestCache", "calls");
     ("CombinedNativeClient", "mavenRegistryClient"); ("CombinedNativeClient", "npmRegistryClient");
     ("CombinedNativeClient", "pypiRegistryClient");
     ("NPMRegistryAPIClient", "details"); ("NPMRegistryAPIClient", "cacheTimestamp");
     ("CachedInsightsClient", "packageCache"); ("CachedInsightsClient", "versionCache");
     ("CachedInsightsClient", "requirementsCache"); ("CachedInsightsClient", "cacheTimestamp")] = true.
Proof. vm_compute. reflexivity. Qed.

(* no method appends to a field slice in place without storing the result (the shape behind the repaired
   MavenRegistryAPIClient race: append(m.registries, m.defaultRegistry) in the read paths), and the only method
   that writes the Maven registry list is AddRegistry, which the callers run while the client is set up *)
Definition in_place_appends : list caccess :=
  filter (fun a => match ca_kind a with AA => true | _ => false end) client_accesses.

Definition writers (s f : string) : list string :=
  map ca_method (filter (fun a => String.eqb (ca_struct a) s && String.eqb (ca_field a) f && writes a) client_accesses).

Lemma registries_never_appended_in_place_lemma :
  in_place_appends = [] /\
  writers "MavenRegistryAPIClient" "registries" = ["AddRegistry"] /\
  existsb (fun a => String.eqb (ca_method a) "allRegistries" && String.eqb (ca_field a) "registries") client_accesses = true.
Proof. vm_compute. repeat split; reflexivity. Qed.

(* the discipline is not blind to the shape: the same table with the reads of allRegistries turned back into
   in-place appends has unprotected append/append pairs on the registry list *)
Definition with_in_place_append (a : caccess) : caccess :=
  if String.eqb (ca_method a) "allRegistries" && String.eqb (ca_field a) "registries"
  then mkcacc (ca_struct a) (ca_method a) (ca_field a) AA (ca_locks a) (ca_file a) (ca_line a) else a.

Lemma append_shape_is_detected_lemma :
  existsb (fun p => match ca_kind (fst p), ca_kind (snd p) with AA, AA => true | _, _ => false end)
          (unprotected_pairs (map with_in_place_append client_accesses)) = true.
Proof. vm_compute. reflexivity. Qed.

(* no slice / map obtained from a function that hands out struct-held memory is mutated in place by its caller *)
Lemma no_cached_slice_mutated_in_place_lemma :
  cached_mutations client_escapes client_mutations = [] /\
  client_escapes <> [] /\
  existsb (fun m => String.eqb (m_op m) "slices.SortFunc" && String.eqb (m_origin m) "fresh") client_mutations = true.
Proof. split; [vm_compute; reflexivity | split; [vm_compute; discriminate | vm_compute; reflexivity]]. Qed.

(* the relation is not blind: if the npm API client's Versions handed out a struct-held list in its Versions
   field and the resolution client sorted what it got from that call, the pair would be reported *)
Definition seeded_escapes : list cescape :=
  mkesc "Versions" "Versions" "pkgDetails.versions" "datasource/npm_registry.go" 0 :: client_escapes.
Definition seeded_mutations : list cmutate :=
  mkmut "Versions" "slices.SortFunc" "vers.Versions" "Versions" "Versions" "resolution/npm_registry_client.go" 0 :: client_mutations.

Lemma cached_mutation_shape_is_detected_lemma :
  map m_expr (cached_mutations seeded_escapes seeded_mutations) = ["vers.Versions"].
Proof. vm_compute. reflexivity. Qed.

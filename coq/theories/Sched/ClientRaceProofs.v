(* C16 (c') - what the lock-set discipline (ClientRace.v) says about the access table of the structs of
   clients/datasource and clients/resolution regenerated on this run (Generated_ClientAccesses.v). *)
From Coq Require Import List String Bool Arith.
From Scalibr Require Import Sched.ClientRace Sched.Generated_ClientAccesses.
Import ListNotations.
Open Scope string_scope.

(* the complete list of (struct, field) slots with an unprotected conflicting pair of method accesses *)
Lemma client_unprotected_slots_lemma :
  unprotected_slots client_accesses =
    [("MavenRegistryAPIClient", "registries"); ("MavenRegistryAPIClient", "cacheTimestamp");
     ("OverrideClient", "verDeps"); ("OverrideClient", "pkgVers")].
Proof. vm_compute. reflexivity. Qed.

(* the request cache and the lazily initialised combined client keep every conflicting access under their mutex *)
Lemma shared_clients_lock_protected_lemma :
  forallb (fun sf => slot_free client_accesses (fst sf) (snd sf))
    [("RequestCache", "cache"); ("RequestCache", "calls");
     ("CombinedNativeClient", "mavenRegistryClient"); ("CombinedNativeClient", "npmRegistryClient");
     ("CombinedNativeClient", "pypiRegistryClient");
     ("NPMRegistryAPIClient", "details"); ("NPMRegistryAPIClient", "cacheTimestamp");
     ("CachedInsightsClient", "packageCache"); ("CachedInsightsClient", "versionCache");
     ("CachedInsightsClient", "requirementsCache"); ("CachedInsightsClient", "cacheTimestamp")] = true.
Proof. vm_compute. reflexivity. Qed.

(* the read paths GetProject / GetVersions append to the shared registry slice without storing the result:
   two concurrent lookups write the same spare slot of its backing array *)
Definition append_pairs : list (string * nat * string * nat) :=
  map (fun p => (ca_method (fst p), ca_line (fst p), ca_method (snd p), ca_line (snd p)))
      (filter (fun p => match ca_kind (fst p), ca_kind (snd p) with AA, AA => true | _, _ => false end)
              (unprotected_pairs client_accesses)).

Lemma maven_registry_append_race_lemma :
  append_pairs <> [] /\
  forallb (fun p => String.eqb (ca_struct (fst p)) "MavenRegistryAPIClient" && String.eqb (ca_field (fst p)) "registries")
          (filter (fun p => match ca_kind (fst p), ca_kind (snd p) with AA, AA => true | _, _ => false end)
                  (unprotected_pairs client_accesses)) = true.
Proof. split; [vm_compute; discriminate | vm_compute; reflexivity]. Qed.

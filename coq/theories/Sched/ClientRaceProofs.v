(* C16 (c') - what the lock-set discipline (ClientRace.v) says about the tables of clients/datasource and
   clients/resolution regenerated on this run (Generated_ClientAccesses.v), with the accepted exceptions
   (Generated_ClientExempt.v, written from KNOWN_FINDINGS.d/C16.json).  No statement mentions a struct, field,
   mutex or function name of the code. *)
From Coq Require Import List String Bool Arith.
From Scalibr Require Import Sched.ClientRace Sched.Generated_ClientAccesses Sched.Generated_ClientExempt
                            Sched.Generated_ResolutionMutations.
Import ListNotations.
Open Scope string_scope.

(* the accesses with interprocedural lock sets: a helper called only with the lock held inherits it *)
Definition eff_accesses : list caccess := effective client_accesses client_calls client_entries.

(* every (struct, field) slot with a conflicting pair of method accesses that share no mutex is an accepted
   exception; in particular every slot that the code guards with a mutex somewhere - and is not an exception -
   is guarded everywhere *)
Lemma shared_clients_race_free_lemma :
  clients_race_free eff_accesses client_exempt = true /\
  new_unprotected_slots eff_accesses client_exempt = [] /\
  forallb (fun s => exempted client_exempt s || slot_free eff_accesses (fst s) (snd s)) (guarded_slots eff_accesses) = true.
Proof. vm_compute. repeat split; reflexivity. Qed.

(* not vacuous: there are slots guarded by a mutex that are not exceptions, with conflicting accesses *)
Definition guarded_checked_slots : list (string * string) :=
  filter (fun s => negb (exempted client_exempt s) &&
                   existsb (fun a => String.eqb (ca_struct a) (fst s) && String.eqb (ca_field a) (snd s) && writes a) eff_accesses)
         (guarded_slots eff_accesses).

Lemma guarded_slots_exist_lemma : 2 <= List.length guarded_checked_slots.
Proof. vm_compute. repeat constructor. Qed.

(* no method appends to a field slice in place without storing the result (the shape behind the repaired
   registry race, /repo 44702cb0) *)
Definition in_place_appends : list caccess :=
  filter (fun a => match ca_kind a with AA => true | _ => false end) client_accesses.

Lemma no_in_place_append_lemma : in_place_appends = [].
Proof. vm_compute. reflexivity. Qed.

(* the discipline sees the shape: with every read of an unguarded slot turned into an in-place append, unprotected
   append/append pairs appear *)
Definition with_in_place_append (a : caccess) : caccess :=
  match ca_kind a, ca_locks a with
  | AR, [] => mkcacc (ca_struct a) (ca_method a) (ca_field a) AA (ca_locks a) (ca_file a) (ca_line a)
  | _, _ => a
  end.

Lemma append_shape_is_detected_lemma :
  existsb (fun p => match ca_kind (fst p), ca_kind (snd p) with AA, AA => true | _, _ => false end)
          (unprotected_pairs (map with_in_place_append eff_accesses)) = true.
Proof. vm_compute. reflexivity. Qed.

(* the discipline sees a dropped lock: with all locks removed the guarded slots are no longer protected *)
Definition without_clocks (a : caccess) : caccess :=
  mkcacc (ca_struct a) (ca_method a) (ca_field a) (ca_kind a) [] (ca_file a) (ca_line a).

Lemma dropped_locks_are_detected_lemma :
  clients_race_free (map without_clocks client_accesses) client_exempt = false.
Proof. vm_compute. reflexivity. Qed.

(* no slice / map obtained from a function that hands out struct-held memory is mutated in place by its caller *)
Lemma no_cached_slice_mutated_in_place_lemma :
  cached_mutations client_escapes client_mutations = [] /\
  client_escapes <> [] /\
  existsb (fun m => String.eqb (m_origin m) "fresh") client_mutations = true.
Proof. split; [vm_compute; reflexivity | split; [vm_compute; discriminate | vm_compute; reflexivity]]. Qed.

(* the relation is not blind (synthetic records, independent of the code): a function handing out a struct-held
   list in a result field, and a caller sorting what it got from that call *)
Definition seeded_escapes : list cescape :=
  mkesc "Producer" "List" "x.cached" "synthetic" 0 :: client_escapes.
Definition seeded_mutations : list cmutate :=
  mkmut "Consumer" "slices.SortFunc" "got.List" "Producer" "List" "unknown" "synthetic" 0 :: client_mutations.

Lemma cached_mutation_shape_is_detected_lemma :
  map m_expr (cached_mutations seeded_escapes seeded_mutations) = ["got.List"].
Proof. vm_compute. reflexivity. Qed.

(* guidedremediation/internal/resolution: the graph / subgraph values are shared by every vulnerability of a node
   and by all concurrent patch attempts; no function mutates in place a slice or map it reached from its receiver
   or a parameter without copying it first (the table is not empty: in-place filters of fresh copies exist) *)
Lemma no_shared_subgraph_mutated_in_place_lemma :
  shared_mutations resolution_mutations = [] /\
  existsb (fun m => String.eqb (m_taint m) "fresh" && negb (String.eqb (m_op m) "index-assign")) resolution_mutations = true.
Proof. split; vm_compute; reflexivity. Qed.

(* the taint sees the shape (synthetic record) *)
Lemma shared_mutation_shape_is_detected_lemma :
  List.length (shared_mutations (mkmut "F" "slices.DeleteFunc" "old.Children" "other" "Children" "shared" "synthetic" 0
                                 :: resolution_mutations)) = 1.
Proof. vm_compute. reflexivity. Qed.

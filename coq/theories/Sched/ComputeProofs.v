(* C16 (a) - proofs about the task-pool model of ComputePatches and about Patch.Compare. *)
From Coq Require Import List ZArith NArith Bool Arith Lia Permutation.
From Scalibr Require Import Sched.Compute.
Import ListNotations.
Open Scope Z_scope.

(* ================================================================== 1. the pool is confluent *)
Section PoolProofs.
  Variable patch_fn : task -> tres.
  Variable group : bool.
  Notation own := (own patch_fn).
  Notation spawn := (spawn patch_fn group).
  Notation pstep := (pstep patch_fn group).
  Notation runs := (runs patch_fn group).

  (* [yl ts o]: the forest of attempts rooted at ts delivers, in total, the patches o (depth-first order);
     an inductive relation, so only finite attempt trees are in it *)
  Inductive yl : list task -> list patch -> Prop :=
  | yl_nil : yl [] []
  | yl_cons : forall t ts o1 o2, yl (spawn t) o1 -> yl ts o2 -> yl (t :: ts) (own t ++ o1 ++ o2).

  Lemma yl_fun : forall ts o, yl ts o -> forall o', yl ts o' -> o = o'.
  Proof.
    induction 1; intros o' H'; inversion H'; subst; auto.
    rewrite (IHyl1 _ H3), (IHyl2 _ H5). reflexivity.
  Qed.

  Lemma yl_app : forall a o1, yl a o1 -> forall b o2, yl b o2 -> yl (a ++ b) (o1 ++ o2).
  Proof.
    induction 1; intros b o3 Hb; simpl; auto.
    replace ((own t ++ o1 ++ o2) ++ o3) with (own t ++ o1 ++ (o2 ++ o3)) by (now rewrite !app_assoc).
    constructor; auto.
  Qed.

  Lemma yl_app_inv : forall a b o, yl (a ++ b) o -> exists o1 o2, yl a o1 /\ yl b o2 /\ o = o1 ++ o2.
  Proof.
    induction a as [|t a IH]; simpl; intros b o H.
    - exists [], o. repeat split; auto. constructor.
    - inversion H; subst. destruct (IH _ _ H4) as (x1 & x2 & Ha & Hb & ->).
      exists (own t ++ o1 ++ x1), x2. repeat split; auto.
      + constructor; auto.
      + now rewrite !app_assoc.
  Qed.

  Lemma run_yields : forall s s', runs s s' -> pending s' = [] ->
    exists o, yl (pending s) o /\ Permutation (results s') (results s ++ o).
  Proof.
    induction 1 as [s|s s1 s2 Hstep Hruns IH]; intros Hp.
    - rewrite Hp. exists []. split; [constructor|]. now rewrite app_nil_r.
    - destruct (IH Hp) as (o & Hy & Hperm). destruct Hstep as (l1 & t & l2 & E1 & E2 & E3).
      rewrite E2 in Hy. apply yl_app_inv in Hy as (oa & orest & Ha & Hrest & ->).
      apply yl_app_inv in Hrest as (ob & oc & Hb & Hc & ->).
      exists (oa ++ (own t ++ oc ++ ob)). split.
      + rewrite E1. apply yl_app; auto. constructor; auto.
      + rewrite E3 in Hperm. eapply perm_trans; [exact Hperm|].
        rewrite <- app_assoc. apply Permutation_app_head.
        eapply perm_trans; [apply Permutation_app_swap_app|]. apply Permutation_app_head.
        apply Permutation_app_head. apply Permutation_app_comm.
  Qed.

  (* any two terminated runs from the same state collect the same patches, up to order *)
  Lemma runs_results_perm : forall s0 s s', runs s0 s -> pending s = [] -> runs s0 s' -> pending s' = [] ->
    Permutation (results s) (results s').
  Proof.
    intros s0 s s' R1 P1 R2 P2.
    destruct (run_yields _ _ R1 P1) as (o1 & Y1 & Q1). destruct (run_yields _ _ R2 P2) as (o2 & Y2 & Q2).
    rewrite (yl_fun _ _ Y1 _ Y2) in Q1. eapply perm_trans; [exact Q1|]. apply Permutation_sym. exact Q2.
  Qed.

  (* every collected patch is an output of the strategy *)
  Lemma own_output t p : In p (own t) -> patch_fn t = TOk p.
  Proof.
    unfold Compute.own. destruct (patch_fn t) as [|q]; simpl; [tauto|].
    destruct (p_updates q); simpl; [tauto|]. intros [->|[]]. reflexivity.
  Qed.

  Lemma runs_results_outputs (P : patch -> Prop) :
    (forall t p, patch_fn t = TOk p -> P p) ->
    forall s s', runs s s' -> Forall P (results s) -> Forall P (results s').
  Proof.
    intros HP. induction 1 as [|s s1 s2 Hstep _ IH]; auto. intros F. apply IH.
    destruct Hstep as (l1 & t & l2 & _ & _ & E3). rewrite E3. apply Forall_app. split; auto.
    apply Forall_forall. intros p Hp. eapply HP. apply own_output. exact Hp.
  Qed.

  (* the executable replay is a run *)
  Lemma take_task_split : forall t l rest, take_task t l = Some rest ->
    exists l1 t' l2, l = l1 ++ t' :: l2 /\ rest = l1 ++ l2 /\ ids_eqb t t' = true.
  Proof.
    induction l as [|x r IH]; simpl; intros rest H; [discriminate|].
    destruct (ids_eqb t x) eqn:E.
    - injection H as <-. exists [], x, r. auto.
    - destruct (take_task t r) as [r'|] eqn:E'; [|discriminate]. injection H as <-.
      destruct (IH _ eq_refl) as (l1 & t' & l2 & -> & -> & Ht). exists (x :: l1), t', l2. auto.
  Qed.

  Lemma ids_eqb_eq : forall a b, ids_eqb a b = true -> a = b.
  Proof.
    induction a; destruct b; simpl; intros H; try discriminate; auto.
    apply andb_true_iff in H as [H1 H2]. apply N.eqb_eq in H1. subst. f_equal. auto.
  Qed.

  Lemma replay_runs : forall tr s s', replay patch_fn group tr s = Some s' -> runs s s'.
  Proof.
    induction tr as [|t tr IH]; simpl; intros s s' H.
    - injection H as <-. constructor.
    - destruct (take_task t (pending s)) as [rest|] eqn:E; [|discriminate].
      destruct (take_task_split _ _ _ E) as (l1 & t' & l2 & E1 & E2 & Ht). apply ids_eqb_eq in Ht. subst t'.
      eapply runs_step; [|apply IH; exact H].
      exists l1, t, l2. simpl. rewrite E2, <- app_assoc. auto.
  Qed.
End PoolProofs.

(* ================================================================== 2. sorting is canonical *)
Section SortProofs.
  Context {A : Type}.
  Variable c : A -> A -> Z.
  Variable P : A -> Prop.
  Hypothesis TP : tp_on P c.
  Hypothesis ZS : forall a b, P a -> P b -> c a b = 0 -> a = b.

  (* reverse-sorted: the head is >= everything after it *)
  Fixpoint rsorted (l : list A) : Prop :=
    match l with [] => True | x :: r => Forall (fun y => c y x <= 0) r /\ rsorted r end.

  Lemma ins_rev_perm x l : Permutation (x :: l) (ins_rev c x l).
  Proof.
    induction l as [|y ys IH]; simpl; auto. destruct (c x y <? 0); auto.
    eapply perm_trans; [apply perm_swap|]. apply perm_skip. exact IH.
  Qed.

  Lemma ins_rev_sorted x l : P x -> Forall P l -> rsorted l -> rsorted (ins_rev c x l).
  Proof.
    destruct TP as (Hrefl & Hanti & Htrans).
    intros Px. induction l as [|y ys IH]; simpl; intros F S.
    - split; auto.
    - inversion F as [|? ? Py Fys]; subst. destruct S as [Hy Sys].
      destruct (c x y <? 0) eqn:E.
      + apply Z.ltb_lt in E. split; [|apply IH; auto].
        rewrite <- (ins_rev_perm x ys). constructor; [lia|exact Hy].
      + apply Z.ltb_ge in E. split; [|split; auto].
        constructor.
        * rewrite (Hanti x y Px Py). lia.
        * rewrite Forall_forall in *. intros z Hz. apply (Htrans z y x); auto.
          rewrite (Hanti x y Px Py). lia.
  Qed.

  Lemma fold_ins_perm : forall l acc, Permutation (l ++ acc) (fold_left (fun r x => ins_rev c x r) l acc).
  Proof.
    induction l as [|x l IH]; simpl; intros acc; auto.
    eapply perm_trans; [|apply IH]. eapply perm_trans; [apply Permutation_middle|].
    apply Permutation_app_head. apply ins_rev_perm.
  Qed.

  Lemma fold_ins_sorted : forall l acc, Forall P l -> Forall P acc -> rsorted acc ->
    rsorted (fold_left (fun r x => ins_rev c x r) l acc).
  Proof.
    induction l as [|x l IH]; simpl; intros acc Fl Fa S; auto.
    inversion Fl; subst. apply IH; auto.
    - rewrite <- (ins_rev_perm x acc). constructor; auto.
    - apply ins_rev_sorted; auto.
  Qed.

  Lemma isort_rev_perm l : Permutation l (isort_rev c l).
  Proof. unfold isort_rev. rewrite <- (app_nil_r l) at 1. apply fold_ins_perm. Qed.

  Lemma rsorted_unique : forall l1 l2, Forall P l1 -> Permutation l1 l2 -> rsorted l1 -> rsorted l2 -> l1 = l2.
  Proof.
    destruct TP as (Hrefl & Hanti & Htrans).
    induction l1 as [|x r1 IH]; intros l2 F Hp S1 S2.
    - apply Permutation_nil in Hp. auto.
    - destruct l2 as [|y r2]. { apply Permutation_sym, Permutation_nil in Hp. discriminate. }
      inversion F as [|? ? Px Fr]; subst.
      assert (F2 : Forall P (y :: r2)) by (rewrite <- Hp; exact F). inversion F2 as [|? ? Py Fr2]; subst.
      destruct S1 as [H1 S1]. destruct S2 as [H2 S2].
      assert (x = y).
      { assert (Ix : In x (y :: r2)) by (rewrite <- Hp; left; auto).
        assert (Iy : In y (x :: r1)) by (rewrite Hp; left; auto).
        destruct Ix as [->|Ix]; auto. destruct Iy as [->|Iy]; auto.
        rewrite Forall_forall in H1, H2. pose proof (H2 _ Ix). pose proof (H1 _ Iy).
        apply ZS; auto. rewrite (Hanti x y Px Py) in H0. lia. }
      subst y. f_equal. apply IH; auto. eapply Permutation_cons_inv; eauto.
  Qed.

  Theorem isort_perm_eq l l' : Forall P l -> Permutation l l' -> isort c l = isort c l'.
  Proof.
    intros F Hp. unfold isort. f_equal.
    assert (F' : Forall P l') by (rewrite <- Hp; exact F).
    apply rsorted_unique.
    - rewrite <- (isort_rev_perm l). exact F.
    - rewrite <- (isort_rev_perm l), <- (isort_rev_perm l'). exact Hp.
    - apply fold_ins_sorted; simpl; auto.
    - apply fold_ins_sorted; simpl; auto.
  Qed.
End SortProofs.

(* ================================================================== 3. confluence *)
Theorem compute_patches_confluent_lemma :
  forall (patch_fn : task -> tres) (group : bool) (cmp : patch -> patch -> Z) (P : patch -> Prop),
    (forall t p, patch_fn t = TOk p -> P p) ->
    tp_on P cmp ->
    (forall a b, P a -> P b -> cmp a b = 0 -> a = b) ->
    forall vulns s s',
      runs patch_fn group (pinit vulns) s -> pending s = [] ->
      runs patch_fn group (pinit vulns) s' -> pending s' = [] ->
      final cmp s = final cmp s'.
Proof.
  intros patch_fn group cmp P HP TP ZS vulns s s' R1 P1 R2 P2. unfold final. f_equal.
  apply (isort_perm_eq cmp P TP ZS).
  - apply (runs_results_outputs patch_fn group P HP _ _ R1). simpl. constructor.
  - eapply runs_results_perm; eauto.
Qed.

(* ================================================================== 4. Patch.Compare *)
Lemma zcmp_refl a : zcmp a a = 0.
Proof. unfold zcmp. now rewrite Z.compare_refl. Qed.
Lemma zcmp_antisym a b : zcmp b a = - zcmp a b.
Proof. unfold zcmp. rewrite (Z.compare_antisym a b). destruct (a ?= b); reflexivity. Qed.
Lemma zcmp_le a b : zcmp a b <= 0 <-> a <= b.
Proof. unfold zcmp. destruct (Z.compare_spec a b); lia. Qed.
Lemma zcmp_eq0 a b : zcmp a b = 0 <-> a = b.
Proof. unfold zcmp. destruct (Z.compare_spec a b); lia. Qed.
Lemma zcmp_range a b : zcmp a b = -1 \/ zcmp a b = 0 \/ zcmp a b = 1.
Proof. unfold zcmp. destruct (a ?= b); auto. Qed.

Lemma strcmp_refl a : strcmp a a = 0.
Proof. induction a; simpl; auto. now rewrite N.compare_refl. Qed.
Lemma strcmp_antisym : forall a b, strcmp b a = - strcmp a b.
Proof.
  induction a; destruct b; simpl; auto.
  rewrite (N.compare_antisym a n). destruct (a ?= n)%N; simpl; auto.
Qed.
Lemma strcmp_trans : forall a b d, strcmp a b <= 0 -> strcmp b d <= 0 -> strcmp a d <= 0.
Proof.
  induction a as [|x a IH]; destruct b as [|y b]; destruct d as [|z d]; simpl; try lia.
  destruct (N.compare_spec x y), (N.compare_spec y z), (N.compare_spec x z); subst; try lia; eauto.
Qed.
Lemma strcmp_eq0 : forall a b, strcmp a b = 0 -> a = b.
Proof.
  induction a as [|x a IH]; destruct b as [|y b]; simpl; try lia; auto.
  destruct (N.compare_spec x y) as [E|E|E]; try lia. intros H. subst. f_equal. auto.
Qed.

Definition lex2 {A} (c1 c2 : A -> A -> Z) (a b : A) : Z := if c1 a b =? 0 then c2 a b else c1 a b.

Lemma tp_eq_trans {A} (D : A -> Prop) c : tp_on D c -> forall a b d, D a -> D b -> D d ->
  c a b = 0 -> c b d = 0 -> c a d = 0.
Proof.
  intros (R & An & Tr) a b d Da Db Dd H1 H2.
  assert (c a d <= 0) by (apply (Tr a b d); auto; lia).
  assert (c d a <= 0).
  { apply (Tr d b a); auto; [rewrite (An b d)|rewrite (An a b)]; auto; lia. }
  rewrite (An a d) in H0; auto. lia.
Qed.

Lemma tp_lt_trans {A} (D : A -> Prop) c : tp_on D c -> forall a b d, D a -> D b -> D d ->
  c a b <= 0 -> c b d <= 0 -> (c a b <> 0 \/ c b d <> 0) -> c a d <= 0 /\ c a d <> 0.
Proof.
  intros (R & An & Tr) a b d Da Db Dd H1 H2 H3.
  assert (H4 : c a d <= 0) by (apply (Tr a b d); auto).
  split; auto. intros E.
  assert (H5 : c d a <= 0) by (rewrite (An a d); auto; lia).
  destruct H3 as [H3|H3].
  - assert (c b a <= 0) by (apply (Tr b d a); auto). rewrite (An a b) in H; auto. lia.
  - assert (c d b <= 0) by (apply (Tr d a b); auto). rewrite (An b d) in H; auto. lia.
Qed.

Lemma tp_lex2 {A} (D : A -> Prop) c1 c2 : tp_on D c1 -> tp_on D c2 -> tp_on D (lex2 c1 c2).
Proof.
  intros T1 T2. pose proof (tp_eq_trans D c1 T1) as E1. pose proof (tp_lt_trans D c1 T1) as L3.
  destruct T1 as (R1 & A1 & Tr1). destruct T2 as (R2 & A2 & Tr2).
  unfold lex2. repeat split.
  - intros a Da. rewrite (R1 a Da). simpl. auto.
  - intros a b Da Db. rewrite (A1 a b Da Db).
    destruct (Z.eqb_spec (c1 a b) 0) as [E|E].
    + rewrite E. simpl. auto.
    + destruct (Z.eqb_spec (- c1 a b) 0); [lia|reflexivity].
  - intros a b d Da Db Dd H1 H2.
    assert (L1 : c1 a b <= 0) by (destruct (Z.eqb_spec (c1 a b) 0); lia).
    assert (L2 : c1 b d <= 0) by (destruct (Z.eqb_spec (c1 b d) 0); lia).
    destruct (Z.eqb_spec (c1 a b) 0) as [Eab|Eab]; [destruct (Z.eqb_spec (c1 b d) 0) as [Ebd|Ebd]|].
    + rewrite (E1 a b d) by auto. simpl. apply (Tr2 a b d); auto.
    + destruct (L3 a b d Da Db Dd L1 L2 (or_intror Ebd)) as [G1 G2].
      destruct (Z.eqb_spec (c1 a d) 0); [contradiction|auto].
    + destruct (L3 a b d Da Db Dd L1 L2 (or_introl Eab)) as [G1 G2].
      destruct (Z.eqb_spec (c1 a d) 0); [contradiction|auto].
Qed.

Lemma tp_key {A} (f : A -> Z) (D : A -> Prop) : tp_on D (fun a b => zcmp (f a) (f b)).
Proof.
  repeat split; intros.
  - apply zcmp_refl.
  - apply zcmp_antisym.
  - rewrite zcmp_le in *. lia.
Qed.

Lemma tp_flip {A} (D : A -> Prop) c : tp_on D c -> tp_on D (fun a b => c b a).
Proof.
  intros (R & An & Tr). repeat split; intros; auto.
  apply (Tr d b a); auto.
Qed.

Lemma tp_pull {A B} (f : A -> B) (D : B -> Prop) c : tp_on D c -> tp_on (fun a => D (f a)) (fun a b => c (f a) (f b)).
Proof. intros (R & An & Tr). repeat split; intros; eauto. Qed.

Lemma tp_ext {A} (D : A -> Prop) c c' : (forall a b, D a -> D b -> c a b = c' a b) -> tp_on D c -> tp_on D c'.
Proof.
  intros E (R & An & Tr). repeat split.
  - intros a Da. rewrite <- E; auto.
  - intros a b Da Db. rewrite <- !E; auto.
  - intros a b d Da Db Dd. rewrite <- !E; auto. apply Tr; auto.
Qed.

(* total lexicographic order on lists (a proper prefix is smaller); coincides with the Go loop on lists of
   equal length *)
Fixpoint lexlist {A} (c : A -> A -> Z) (a b : list A) : Z :=
  match a, b with
  | [], [] => 0
  | [], _ :: _ => -1
  | _ :: _, [] => 1
  | x :: a', y :: b' => let r := c x y in if r =? 0 then lexlist c a' b' else r
  end.

Lemma loopcmp_lexlist c : forall a b, length a = length b -> loopcmp c a b = lexlist c a b.
Proof.
  induction a; destruct b; simpl; intros H; try discriminate; auto.
  destruct (c a p =? 0); auto.
Qed.

Lemma tp_lexlist {A} (D : A -> Prop) (c : A -> A -> Z) : tp_on D c -> tp_on (Forall D) (lexlist c).
Proof.
  intros T. pose proof (tp_eq_trans D c T) as E1. pose proof (tp_lt_trans D c T) as L3.
  destruct T as (R & An & Tr). repeat split.
  - induction a as [|x a IH]; simpl; intros F; auto. inversion F; subst. rewrite R by auto. simpl. auto.
  - induction a as [|x a IH]; destruct b as [|y b]; simpl; intros Fa Fb; auto.
    inversion Fa; inversion Fb; subst. rewrite (An x y) by auto.
    destruct (Z.eqb_spec (c x y) 0) as [E|E].
    + rewrite E. simpl. auto.
    + destruct (Z.eqb_spec (- c x y) 0); [lia|reflexivity].
  - induction a as [|x a IH]; destruct b as [|y b]; destruct d as [|z d]; simpl; intros Fa Fb Fd; try lia.
    inversion Fa; inversion Fb; inversion Fd; subst. intros G1 G2.
    assert (L1 : c x y <= 0) by (destruct (Z.eqb_spec (c x y) 0); lia).
    assert (L2 : c y z <= 0) by (destruct (Z.eqb_spec (c y z) 0); lia).
    destruct (Z.eqb_spec (c x y) 0) as [Exy|Exy]; [destruct (Z.eqb_spec (c y z) 0) as [Eyz|Eyz]|].
    + rewrite (E1 x y z) by auto. simpl. apply (IH b d); auto.
    + destruct (L3 x y z) as [G3 G4]; auto.
      destruct (Z.eqb_spec (c x z) 0); [contradiction|auto].
    + destruct (L3 x y z) as [G3 G4]; auto.
      destruct (Z.eqb_spec (c x z) 0); [contradiction|auto].
Qed.

(* the domain as a proposition *)
Definition Dom (k : bool) (p : patch) : Prop := in_dom k p = true.
Definition Dk (k : bool) (u : pupdate) : Prop := is_some (u_rank u) = k.

Lemma Dom_facts k p : Dom k p -> 0 < zlen (p_updates p) /\ Forall (Dk k) (p_updates p).
Proof.
  unfold Dom, in_dom, zlen. destruct (p_updates p) as [|u us] eqn:E; [discriminate|].
  intros H. split; [simpl; lia|]. rewrite forallb_forall in H. apply Forall_forall. intros x Hx.
  specialize (H x Hx). unfold Dk. destruct (is_some (u_rank x)), k; simpl in H; auto; discriminate.
Qed.

Lemma tp_vercmp k : tp_on (Dk k) vercmp.
Proof.
  unfold Dk, vercmp. destruct k; repeat split; intros.
  - destruct (u_rank a); [apply zcmp_refl|discriminate].
  - destruct (u_rank a), (u_rank b); try discriminate. apply zcmp_antisym.
  - destruct (u_rank a), (u_rank b), (u_rank d); try discriminate. rewrite zcmp_le in *. lia.
  - destruct (u_rank a); [discriminate|apply strcmp_refl].
  - destruct (u_rank a), (u_rank b); try discriminate. apply strcmp_antisym.
  - destruct (u_rank a), (u_rank b), (u_rank d); try discriminate. eapply strcmp_trans; eauto.
Qed.

Lemma tp_namecmp (D : pupdate -> Prop) : tp_on D namecmp.
Proof.
  unfold namecmp. repeat split; intros.
  - apply strcmp_refl.
  - apply strcmp_antisym.
  - eapply strcmp_trans; eauto.
Qed.

(* step 1: (fixed - introduced) / changes, descending, by cross-multiplication *)
Definition k_ratio (a b : patch) : Z :=
  zcmp ((zlen (p_fixed b) - zlen (p_intro b)) * zlen (p_updates a))
       ((zlen (p_fixed a) - zlen (p_intro a)) * zlen (p_updates b)).

Lemma tp_ratio k : tp_on (Dom k) k_ratio.
Proof.
  unfold k_ratio. repeat split.
  - intros. apply zcmp_refl.
  - intros. apply zcmp_antisym.
  - intros a b d Da Db Dd. apply Dom_facts in Da as [Ua _]. apply Dom_facts in Db as [Ub _].
    apply Dom_facts in Dd as [Ud _]. rewrite !zcmp_le.
    set (ra := zlen (p_fixed a) - zlen (p_intro a)). set (rb := zlen (p_fixed b) - zlen (p_intro b)).
    set (rd := zlen (p_fixed d) - zlen (p_intro d)).
    set (ua := zlen (p_updates a)) in *. set (ub := zlen (p_updates b)) in *. set (ud := zlen (p_updates d)) in *.
    intros H1 H2.
    (* rb*ua <= ra*ub, rd*ub <= rb*ud  |-  rd*ua <= ra*ud ; multiply through by positive factors *)
    assert (rd * ua * ub <= ra * ud * ub).
    { apply Z.le_trans with (rb * ud * ua).
      - replace (rd * ua * ub) with ((rd * ub) * ua) by ring.
        replace (rb * ud * ua) with ((rb * ud) * ua) by ring. apply Z.mul_le_mono_nonneg_r; lia.
      - replace (rb * ud * ua) with ((rb * ua) * ud) by ring.
        replace (ra * ud * ub) with ((ra * ub) * ud) by ring. apply Z.mul_le_mono_nonneg_r; lia. }
    apply Z.mul_le_mono_pos_r with (p := ub); auto.
Qed.

Definition patch_compare_lex : patch -> patch -> Z :=
  lex2 k_ratio
   (lex2 (fun a b => zcmp (zlen (p_fixed b)) (zlen (p_fixed a)))
    (lex2 (fun a b => zcmp (zlen (p_updates a)) (zlen (p_updates b)))
     (lex2 (fun a b => lexlist namecmp (p_updates a) (p_updates b))
           (fun a b => lexlist vercmp (p_updates a) (p_updates b))))).

Lemma patch_compare_is_lex a b : patch_compare a b = patch_compare_lex a b.
Proof.
  unfold patch_compare, patch_compare_lex, lex2, k_ratio. cbv zeta.
  set (ar := (zlen (p_fixed a) - zlen (p_intro a)) * zlen (p_updates b)).
  set (br := (zlen (p_fixed b) - zlen (p_intro b)) * zlen (p_updates a)).
  rewrite (zcmp_antisym ar br).
  rewrite (zcmp_antisym (zlen (p_fixed a)) (zlen (p_fixed b))).
  set (c1 := zcmp ar br). set (c2 := zcmp (zlen (p_fixed a)) (zlen (p_fixed b))).
  set (c3 := zcmp (zlen (p_updates a)) (zlen (p_updates b))).
  assert (L : c3 = 0 -> length (p_updates a) = length (p_updates b)).
  { unfold c3. intros E3. apply (proj1 (zcmp_eq0 _ _)) in E3. unfold zlen in E3. apply Nat2Z.inj. exact E3. }
  clearbody c1 c2 c3. clear ar br.
  destruct (Z.eqb_spec c1 0) as [E1|E1]; simpl.
  2:{ destruct (Z.eqb_spec (- c1) 0); [lia|reflexivity]. }
  rewrite E1. simpl.
  destruct (Z.eqb_spec c2 0) as [E2|E2]; simpl.
  2:{ destruct (Z.eqb_spec (- c2) 0); [lia|reflexivity]. }
  rewrite E2. simpl.
  destruct (Z.eqb_spec c3 0) as [E3|E3]; simpl; auto.
  rewrite !(loopcmp_lexlist _ _ _ (L E3)).
  destruct (lexlist namecmp (p_updates a) (p_updates b) =? 0); reflexivity.
Qed.

Theorem patch_compare_total_preorder_lemma : forall k, tp_on (Dom k) patch_compare.
Proof.
  intros k. apply (tp_ext (Dom k) patch_compare_lex).
  { intros. symmetry. apply patch_compare_is_lex. }
  unfold patch_compare_lex.
  apply tp_lex2; [apply tp_ratio|].
  apply tp_lex2; [apply tp_flip; apply (tp_key (fun p => zlen (p_fixed p)))|].
  apply tp_lex2; [apply (tp_key (fun p => zlen (p_updates p)))|].
  assert (Hpull : forall c, tp_on (Dk k) c -> tp_on (Dom k) (fun a b => lexlist c (p_updates a) (p_updates b))).
  { intros c T. pose proof (tp_pull p_updates (Forall (Dk k)) (lexlist c) (tp_lexlist _ _ T)) as (R & An & Tr).
    repeat split; intros.
    - apply R. apply (Dom_facts k a); auto.
    - apply An; eapply Dom_facts; eauto.
    - eapply (Tr a b d); eauto; eapply Dom_facts; eauto. }
  apply tp_lex2; apply Hpull; [apply tp_namecmp|apply tp_vercmp].
Qed.

(* confluence with Patch.Compare itself *)
Theorem compute_patches_confluent_compare_lemma :
  forall (patch_fn : task -> tres) (group : bool) (k : bool),
    (forall t p, patch_fn t = TOk p -> p_updates p <> [] -> in_dom k p = true) ->
    (forall t t' p p', patch_fn t = TOk p -> patch_fn t' = TOk p' -> p_updates p <> [] -> p_updates p' <> [] ->
                       patch_compare p p' = 0 -> p = p') ->
    forall vulns s s',
      runs patch_fn group (pinit vulns) s -> pending s = [] ->
      runs patch_fn group (pinit vulns) s' -> pending s' = [] ->
      final patch_compare s = final patch_compare s'.
Proof.
  intros patch_fn group k HD HZ vulns s s' R1 P1 R2 P2.
  set (P := fun p => Dom k p /\ exists t, patch_fn t = TOk p /\ p_updates p <> []).
  unfold final. f_equal.
  assert (TPp : tp_on P patch_compare).
  { destruct (patch_compare_total_preorder_lemma k) as (R & An & Tr).
    repeat split.
    - intros a [Da _]. apply R; auto.
    - intros a b [Da _] [Db _]. apply An; auto.
    - intros a b d [Da _] [Db _] [Dd _]. apply (Tr a b d); auto. }
  assert (Hres : forall s1, runs patch_fn group (pinit vulns) s1 -> Forall P (results s1)).
  { intros s1 R. assert (G : forall s0 s1, runs patch_fn group s0 s1 -> Forall P (results s0) -> Forall P (results s1)).
    { induction 1 as [|x x1 x2 Hstep _ IH]; auto. intros F. apply IH.
      destruct Hstep as (l1 & t & l2 & _ & _ & E3). rewrite E3. apply Forall_app. split; auto.
      apply Forall_forall. intros p Hp. unfold Compute.own in Hp.
      destruct (patch_fn t) as [|q] eqn:Eq; simpl in Hp; [tauto|].
      destruct (p_updates q) eqn:Eu; simpl in Hp; [tauto|]. destruct Hp as [<-|[]].
      assert (p_updates q <> []) by (rewrite Eu; discriminate).
      split; [apply (HD t); auto|exists t; auto]. }
    apply (G _ _ R). simpl. constructor. }
  apply (isort_perm_eq patch_compare P TPp).
  - intros a b (Da & ta & Ha & Ua) (Db & tb & Hb & Ub) E. eapply HZ; eauto.
  - apply Hres; auto.
  - eapply runs_results_perm; eauto.
Qed.

(* ================================================================== 5. the premises are necessary *)
Lemma patch_compare_not_transitive_lemma :
  exists a b d, p_updates a <> [] /\ p_updates b <> [] /\ p_updates d <> [] /\
    patch_compare a b <= 0 /\ patch_compare b d <= 0 /\ patch_compare a d > 0.
Proof.
  exists w_a, w_b, w_d. repeat split; try (simpl; discriminate); vm_compute; congruence.
Qed.

Lemma compute_patches_tie_schedule_dependent_lemma :
  exists (patch_fn : task -> tres) (group : bool) vulns s s',
    runs patch_fn group (pinit vulns) s /\ pending s = [] /\
    runs patch_fn group (pinit vulns) s' /\ pending s' = [] /\
    final patch_compare s <> final patch_compare s'.
Proof.
  exists (lookup_task tie_table), true, [1%N; 2%N], (mkps [] [tie_p1; tie_p2]), (mkps [] [tie_p2; tie_p1]).
  repeat split.
  - apply (replay_runs _ _ [[1%N]; [2%N]]). vm_compute. reflexivity.
  - apply (replay_runs _ _ [[2%N]; [1%N]]). vm_compute. reflexivity.
  - vm_compute. discriminate.
Qed.

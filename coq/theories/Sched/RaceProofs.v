(* C16 (c) - what the lock-set / happens-before analysis (RaceModel.v) says about the access table that was
   regenerated from filesystem.go on this run (Generated_WalkAccesses.v).  Finite computations; no statement
   mentions a field, mutex or function name of the code. *)
From Coq Require Import List String Bool Arith.
From Scalibr Require Import Sched.RaceModel Sched.Generated_WalkAccesses.
Import ListNotations.
Open Scope string_scope.

(* every conflicting pair of accesses to the walk context by the goroutine of the root function and the
   goroutine it starts is ordered by the `go` statement or made under a common mutex *)
Lemma walk_context_race_free_lemma :
  race_free walk_accesses walk_calls walk_root = true /\
  racy_fields walk_fields walk_accesses walk_calls walk_root = [].
Proof. vm_compute. split; reflexivity. Qed.

(* the theorem is not about an empty set of pairs: conflicting, unordered pairs exist, all under a common lock *)
Definition conflicting_pairs : list (event * event) :=
  flat_map (fun a => map (fun b => (a, b)) (filter (fun b => conflict a b && negb (ordered a))
                                                   (ticker_events walk_accesses walk_calls walk_root)))
           (main_events walk_accesses walk_calls walk_root).

Lemma walk_conflicts_exist_and_are_locked_lemma :
  conflicting_pairs <> [] /\ forallb (fun p => share_lock (fst p) (snd p)) conflicting_pairs = true.
Proof. split; [vm_compute; discriminate | vm_compute; reflexivity]. Qed.

(* regression model of the defect fixed in /repo (16a1c2d6): the same table with every lock set emptied races *)
Definition without_locks (a : access) : access :=
  mkacc (a_fn a) (a_field a) (a_kind a) (a_region a) [] (a_line a).
Definition without_call_locks (c : calledge) : calledge :=
  mkcall (e_from c) (e_to c) (e_region c) [] (e_line c).

Lemma race_returns_without_locks_lemma :
  race_free (map without_locks walk_accesses) (map without_call_locks walk_calls) walk_root = false /\
  List.length (racy_fields walk_fields (map without_locks walk_accesses) (map without_call_locks walk_calls) walk_root) =
  List.length (racy_fields walk_fields (map without_locks walk_accesses) (map without_call_locks walk_calls) walk_root) /\
  racy_fields walk_fields (map without_locks walk_accesses) (map without_call_locks walk_calls) walk_root <> [].
Proof. split; [vm_compute; reflexivity | split; [reflexivity | vm_compute; discriminate]]. Qed.

(* C16 (c) - what the lock-set / happens-before analysis (RaceModel.v) says about the access table that was
   regenerated from filesystem.go on this run (Generated_WalkAccesses.v).  Finite computations. *)
From Coq Require Import List String Bool Arith.
From Scalibr Require Import Sched.RaceModel Sched.Generated_WalkAccesses.
Import ListNotations.
Open Scope string_scope.

(* every conflicting pair of accesses to the walk context by the walking goroutine and the status ticker
   goroutine is ordered by the `go` statement or made under a common mutex *)
Lemma walk_context_race_free_lemma :
  race_free walk_accesses walk_calls "RunFS" = true /\
  racy_fields walk_fields walk_accesses walk_calls "RunFS" = [].
Proof. vm_compute. split; reflexivity. Qed.

(* the ticker goroutine does touch shared fields that the walk writes (the theorem is not about an empty
   set of pairs): conflicting pairs exist, all of them protected *)
Definition conflicting_pairs : list (event * event) :=
  flat_map (fun a => map (fun b => (a, b)) (filter (fun b => conflict a b && negb (ordered a))
                                                   (ticker_events walk_accesses walk_calls "RunFS")))
           (main_events walk_accesses walk_calls "RunFS").

Lemma walk_conflicts_exist_and_are_locked_lemma :
  conflicting_pairs <> [] /\ forallb (fun p => share_lock (fst p) (snd p)) conflicting_pairs = true.
Proof. split; [vm_compute; discriminate | vm_compute; reflexivity]. Qed.

(* regression model of the defect that was fixed in /repo (fix: guard the walk counters ... with a mutex):
   the same table with the mutex removed from every lock set races on exactly the three status fields,
   printStatus against handleFile / runExtractor *)
Definition without_locks (a : access) : access :=
  mkacc (a_fn a) (a_field a) (a_kind a) (a_region a) [] (a_line a).

Lemma race_returns_without_status_lock_lemma :
  race_free (map without_locks walk_accesses) walk_calls "RunFS" = false /\
  racy_fields walk_fields (map without_locks walk_accesses) walk_calls "RunFS" =
    ["inodesVisited"; "extractCalls"; "currentPath"] /\
  racy_ticker_fns (map without_locks walk_accesses) walk_calls "RunFS" = ["printStatus"] /\
  racy_main_fns (map without_locks walk_accesses) walk_calls "RunFS" = ["handleFile"; "runExtractor"].
Proof. vm_compute. repeat split; reflexivity. Qed.

(* C16 (c) - what the lock-set / happens-before analysis (RaceModel.v) says about the access table that was
   regenerated from filesystem.go on this run (Generated_WalkAccesses.v).  Finite computations. *)
From Coq Require Import List String Bool Arith.
From Scalibr Require Import Sched.RaceModel Sched.Generated_WalkAccesses.
Import ListNotations.
Open Scope string_scope.

(* the status ticker goroutine (printStatus) reads the counters and the current path that the walk
   (handleFile / runExtractor) writes, with no lock and no ordering edge *)
Lemma walk_status_ticker_race_refuted_lemma :
  race_free walk_accesses walk_calls "RunFS" = false /\
  racy_fields walk_fields walk_accesses walk_calls "RunFS" = ["inodesVisited"; "extractCalls"; "currentPath"] /\
  racy_ticker_fns walk_accesses walk_calls "RunFS" = ["printStatus"] /\
  racy_main_fns walk_accesses walk_calls "RunFS" = ["handleFile"; "runExtractor"].
Proof. vm_compute. repeat split; reflexivity. Qed.

(* every other field of the walk context is race free: all conflicting pairs on it are ordered or locked *)
Lemma walk_other_fields_race_free_lemma :
  forall f, In f walk_fields -> f <> "inodesVisited" -> f <> "extractCalls" -> f <> "currentPath" ->
    existsb (fun p => String.eqb f (a_field (ev_acc (fst p)))) (races walk_accesses walk_calls "RunFS") = false.
Proof.
  intros f Hin H1 H2 H3.
  assert (E : forallb (fun f => String.eqb f "inodesVisited" || String.eqb f "extractCalls" || String.eqb f "currentPath" ||
                                negb (existsb (fun p => String.eqb f (a_field (ev_acc (fst p))))
                                              (races walk_accesses walk_calls "RunFS"))) walk_fields = true)
    by (vm_compute; reflexivity).
  rewrite forallb_forall in E. specialize (E f Hin).
  repeat (apply orb_true_iff in E; destruct E as [E|E]).
  - apply String.eqb_eq in E. contradiction.
  - apply String.eqb_eq in E. contradiction.
  - apply String.eqb_eq in E. contradiction.
  - apply negb_true_iff in E. exact E.
Qed.

(* the proposed repair (fixes-proposed/C16-walk-status-race.diff): the same table with the counter / path
   accesses of handleFile, runExtractor and printStatus made under a mutex wc.mu.  race_free can hold. *)
Definition with_status_lock (a : access) : access :=
  if (String.eqb (a_field a) "inodesVisited" || String.eqb (a_field a) "extractCalls" || String.eqb (a_field a) "currentPath")
     && (String.eqb (a_fn a) "handleFile" || String.eqb (a_fn a) "runExtractor" || String.eqb (a_fn a) "printStatus")
     && negb (String.eqb (a_fn a) "handleFile" && String.eqb (a_field a) "inodesVisited" &&
              match a_kind a with AR => true | AW => false end)
  then mkacc (a_fn a) (a_field a) (a_kind a) (a_region a) ("wc.mu" :: a_locks a) (a_line a) else a.

Lemma race_free_with_status_lock_lemma :
  race_free (map with_status_lock walk_accesses) walk_calls "RunFS" = true.
Proof. vm_compute. reflexivity. Qed.

(* C16 - concurrent parts are race-free and schedule-independent.
   Only statements here; proofs are in ComputeProofs.v / CacheProofs.v / RaceProofs.v. *)
From Coq Require Import List ZArith NArith Bool Arith String.
From Scalibr Require Import Sched.Compute Sched.ComputeProofs Sched.Cache Sched.CacheProofs
                            Sched.RaceModel Sched.Generated_WalkAccesses Sched.RaceProofs
                            Sched.ClientRace Sched.Generated_ClientAccesses Sched.Generated_ClientExempt Sched.Generated_ResolutionMutations
                            Sched.ClientRaceProofs.
Import ListNotations.

(* ================================================================== (a) patch computation *)
(* Whatever order the patch attempts deliver in - any pending attempt may be received next, attempts started
   on the way included - two terminated runs of ComputePatches return the same list, for every strategy
   patch_fn, every comparator cmp that is a total preorder on the strategy's outputs and identifies only
   identical patches, any number of vulnerabilities and attempts. *)
Theorem compute_patches_confluent :
  forall (patch_fn : task -> tres) (group : bool) (cmp : patch -> patch -> Z) (P : patch -> Prop),
    (forall t p, patch_fn t = TOk p -> P p) ->
    tp_on P cmp ->
    (forall a b, P a -> P b -> cmp a b = 0 -> a = b) ->
    forall vulns s s',
      runs patch_fn group (pinit vulns) s -> pending s = [] ->
      runs patch_fn group (pinit vulns) s' -> pending s' = [] ->
      final cmp s = final cmp s'.
Proof. exact compute_patches_confluent_lemma. Qed.
Print Assumptions compute_patches_confluent.

(* the same with result.Patch.Compare itself as the comparator: the total-preorder premise is discharged by
   patch_compare_total_preorder on the domain "every patch has >= 1 update and all VersionTo strings are of
   one kind (all parse / none parses)"; what remains is "Compare = 0 only for identical patches" *)
Theorem compute_patches_confluent_compare :
  forall (patch_fn : task -> tres) (group : bool) (k : bool),
    (forall t p, patch_fn t = TOk p -> p_updates p <> [] -> in_dom k p = true) ->
    (forall t t' p p', patch_fn t = TOk p -> patch_fn t' = TOk p' -> p_updates p <> [] -> p_updates p' <> [] ->
                       patch_compare p p' = 0 -> p = p') ->
    forall vulns s s',
      runs patch_fn group (pinit vulns) s -> pending s = [] ->
      runs patch_fn group (pinit vulns) s' -> pending s' = [] ->
      final patch_compare s = final patch_compare s'.
Proof. exact compute_patches_confluent_compare_lemma. Qed.
Print Assumptions compute_patches_confluent_compare.

(* Patch.Compare is a total preorder (reflexive, antisymmetric in sign, transitive) on its domain *)
Theorem patch_compare_total_preorder : forall k, tp_on (fun p => in_dom k p = true) patch_compare.
Proof. exact patch_compare_total_preorder_lemma. Qed.
Print Assumptions patch_compare_total_preorder.

(* ... and not outside it: with one VersionTo that parses and one that does not, step 5 mixes semver order
   and string order.  2.0.0 < 10.0.0 (semver), 10.0.0 < "11 - 12" < 2.0.0 (strings). *)
Theorem patch_compare_not_transitive_refuted :
  exists a b d, p_updates a <> [] /\ p_updates b <> [] /\ p_updates d <> [] /\
    (patch_compare a b <= 0)%Z /\ (patch_compare b d <= 0)%Z /\ (patch_compare a d > 0)%Z.
Proof. exact patch_compare_not_transitive_lemma. Qed.
Print Assumptions patch_compare_not_transitive_refuted.

(* the premise "Compare = 0 only for identical patches" is necessary: two attempts that bump the same package
   to the same version but fix different vulnerabilities compare equal, and which one survives the compaction
   depends on the delivery order *)
Theorem compute_patches_tie_schedule_dependent_refuted :
  exists (patch_fn : task -> tres) (group : bool) vulns s s',
    runs patch_fn group (pinit vulns) s /\ pending s = [] /\
    runs patch_fn group (pinit vulns) s' /\ pending s' = [] /\
    final patch_compare s <> final patch_compare s'.
Proof. exact compute_patches_tie_schedule_dependent_lemma. Qed.
Print Assumptions compute_patches_tie_schedule_dependent_refuted.

(* ================================================================== (b) request cache *)
Theorem single_flight : forall s, reachable s -> Cache.single_flight s.
Proof. exact single_flight_lemma. Qed.
Print Assumptions single_flight.

Theorem at_most_one_success_per_key : forall s, reachable s -> Cache.at_most_one_success_per_key s.
Proof. exact at_most_one_success_lemma. Qed.
Print Assumptions at_most_one_success_per_key.

Theorem waiters_get_owner_result : forall s, reachable s -> Cache.waiters_get_owner_result s.
Proof. exact waiters_get_owner_result_lemma. Qed.
Print Assumptions waiters_get_owner_result.

Theorem returns_linearizable : forall s, reachable s -> Cache.returns_linearizable s.
Proof. exact returns_linearizable_lemma. Qed.
Print Assumptions returns_linearizable.

Theorem no_lost_wakeup : forall s, reachable s -> Cache.no_lost_wakeup s.
Proof. exact no_lost_wakeup_lemma. Qed.
Print Assumptions no_lost_wakeup.

(* progress: the owner of a pending call can always step, and a waiter whose record is done can wake up *)
Theorem owner_can_step : forall s t k c, reachable s -> owner_state (threads s t) k c ->
  exists l s', label_thread l = Some t /\ step s l s'.
Proof. exact owner_progress. Qed.
Print Assumptions owner_can_step.

Theorem done_waiter_can_wake : forall s t k b c, threads s t = TWait k b c -> c_done (recs s c) = true ->
  exists s', step s (LWake t) s'.
Proof. exact waiter_progress. Qed.
Print Assumptions done_waiter_can_wake.

(* ================================================================== (c) walk context - PARTIAL *)
(* No statement below mentions a field, mutex or function name of the code: each is a computed predicate over the
   tables regenerated from the Go AST on this run (renaming or regrouping fields, renaming a mutex or moving
   accesses into helpers that take the same mutex does not touch them).
   On the access table of the walk context: every conflicting pair of accesses by the goroutine of the root
   function and the goroutine it starts is ordered by the `go` statement or made under a common mutex. *)
Theorem walk_context_race_free :
  race_free walk_accesses walk_calls walk_root = true /\
  racy_fields walk_fields walk_accesses walk_calls walk_root = [].
Proof. exact walk_context_race_free_lemma. Qed.
Print Assumptions walk_context_race_free.

(* ================================================================== (c') shared clients - PARTIAL *)
(* on the tables of clients/datasource and clients/resolution (any two methods of a struct may run concurrently on
   one receiver; a helper called only with a lock held inherits it - fixed point over the call sites): every
   (struct, field) slot with a conflicting pair of accesses sharing no mutex is an accepted exception
   (KNOWN_FINDINGS.d/C16.json, kind unprotected-slot: confined objects and set-up-time writes), and every slot
   the code guards with a mutex somewhere is guarded everywhere *)
Theorem shared_clients_race_free :
  clients_race_free eff_accesses client_exempt = true /\
  new_unprotected_slots eff_accesses client_exempt = [] /\
  forallb (fun s => exempted client_exempt s || slot_free eff_accesses (fst s) (snd s)) (guarded_slots eff_accesses) = true.
Proof. exact shared_clients_race_free_lemma. Qed.
Print Assumptions shared_clients_race_free.

(* no method appends to a field slice in place without storing the result *)
Theorem no_in_place_append : in_place_appends = [].
Proof. exact no_in_place_append_lemma. Qed.
Print Assumptions no_in_place_append.

(* cached slices / maps escaping the lock: no value obtained from a function that returns struct-held memory
   without copying is sorted / reversed / index-assigned / appended-into by its caller *)
Theorem no_cached_slice_mutated_in_place :
  cached_mutations client_escapes client_mutations = [] /\
  client_escapes <> [] /\
  existsb (fun m => String.eqb (m_origin m) "fresh") client_mutations = true.
Proof. exact no_cached_slice_mutated_in_place_lemma. Qed.
Print Assumptions no_cached_slice_mutated_in_place.

(* guidedremediation/internal/resolution: graph / subgraph values are shared by all concurrent patch attempts; no
   function mutates in place (slices.DeleteFunc / Sort / Reverse / Compact / Insert, index assignment, append
   not stored back) a slice or map it reached from its receiver or a parameter without copying it first *)
Theorem no_shared_subgraph_mutated_in_place :
  shared_mutations resolution_mutations = [] /\
  existsb (fun m => String.eqb (m_taint m) "fresh" && negb (String.eqb (m_op m) "index-assign")) resolution_mutations = true.
Proof. exact no_shared_subgraph_mutated_in_place_lemma. Qed.
Print Assumptions no_shared_subgraph_mutated_in_place.

(* ================================================================== non-vacuity *)
(* a strategy with a spawned attempt: two delivery orders, same result; hypotheses hold on its outputs *)
Example compute_example :
  let c := ex_case in
  (hyps_ok c, Compute.case_model_ok c, Compute.case_spec_ok c, List.length (pc_traces c)) = (true, true, true, 3%nat).
Proof. vm_compute. reflexivity. Qed.

Example patch_compare_domain_example :
  (in_dom true w_a, in_dom true w_b, in_dom true w_d, in_dom false w_d, patch_compare w_a w_b) =
  (true, true, false, true, (-1)%Z).
Proof. vm_compute. reflexivity. Qed.

(* the trace validator accepts a real interleaving and rejects a double fetch *)
Example cache_trace_accepted :
  Cache.case_model_ok (mkcase 2 [0%N; 1%N]
    [LBegin 0 0%N; LFnStart 0; LBegin 1 0%N; LFnRet 0 (10%Z, None); LReturn 0 (10%Z, None); LReturn 1 (10%Z, None)]) = true.
Proof. vm_compute. reflexivity. Qed.

Example cache_double_fetch_rejected :
  let c := mkcase 2 [0%N; 1%N]
    [LBegin 0 0%N; LFnStart 0; LBegin 1 0%N; LFnStart 1; LFnRet 0 (10%Z, None); LReturn 0 (10%Z, None);
     LFnRet 1 (11%Z, None); LReturn 1 (11%Z, None)] in
  (Cache.case_model_ok c, Cache.case_spec_ok c) = (false, false).
Proof. vm_compute. reflexivity. Qed.

(* a reachable state with a waiter and an owner in flight (the invariants are not about the empty system) *)
Example cache_reachable_example :
  exists s, reachable s /\ threads s 0 = TRun 0%N 0 0 /\ threads s 1 = TWait 0%N 3 0.
Proof. exact cache_reachable_example_lemma. Qed.

(* the walk theorem is about a non-empty set of conflicting pairs, all of them under a common lock *)
Example walk_conflicts_exist_and_are_locked :
  conflicting_pairs <> [] /\ forallb (fun p => share_lock (fst p) (snd p)) conflicting_pairs = true.
Proof. exact walk_conflicts_exist_and_are_locked_lemma. Qed.

(* race_free is not constantly true: the same table with every lock set emptied races *)
Example race_returns_without_locks :
  race_free (map without_locks walk_accesses) (map without_call_locks walk_calls) walk_root = false.
Proof. exact (proj1 race_returns_without_locks_lemma). Qed.

(* the client theorem checks at least two mutex-guarded, written slots; it fails when the locks are dropped, when
   reads become in-place appends, and the escape relation sees a cached list sorted by its receiver *)
Example guarded_slots_exist : (2 <= List.length guarded_checked_slots)%nat.
Proof. exact guarded_slots_exist_lemma. Qed.

Example dropped_locks_are_detected :
  clients_race_free (map without_clocks client_accesses) client_exempt = false.
Proof. exact dropped_locks_are_detected_lemma. Qed.

Example append_shape_is_detected :
  existsb (fun p => match ca_kind (fst p), ca_kind (snd p) with AA, AA => true | _, _ => false end)
          (unprotected_pairs (map with_in_place_append eff_accesses)) = true.
Proof. exact append_shape_is_detected_lemma. Qed.

Example cached_mutation_shape_is_detected :
  map m_expr (cached_mutations seeded_escapes seeded_mutations) = ["got.List"]%string.
Proof. exact cached_mutation_shape_is_detected_lemma. Qed.

Example shared_mutation_shape_is_detected :
  List.length (shared_mutations (mkmut "F" "slices.DeleteFunc" "old.Children" "other" "Children" "shared" "synthetic" 0
                                 :: resolution_mutations)) = 1%nat.
Proof. exact shared_mutation_shape_is_detected_lemma. Qed.

(* C16 (b) - model of clients/datasource/cache.go: RequestCache.Get / GetMap / SetMap as a labelled
   transition system over ARBITRARILY many threads (thread ids are natural numbers, any number of
   them may begin a Get at any time).  No proofs here: this file must keep evaluating when a proof
   breaks.

   Go code, with the atomic steps of the model marked:

     func (rq *RequestCache[K, V]) Get(key K, fn func() (V, error)) (V, error) {
   [LBegin t k]   -- the call is issued
   [LLock1 t]     rq.mu.Lock()
                  if v, ok := rq.cache[key]; ok { rq.mu.Unlock(); return v, nil }          -> TRet .. FromCache
                  if c, ok := rq.calls[key]; ok { rq.mu.Unlock();                          -> TWait
   [LWake t]          c.wg.Wait(); return c.val, c.err }                                   -> TRet .. (FromCall c)
                  c := new(requestCacheCall[V]); c.wg.Add(1); rq.calls[key] = c; rq.mu.Unlock()   -> TOwn
   [LFnStart t]   fn() is entered                                                          -> TRun
   [LFnRet t o]   c.val, c.err = fn()     (the environment chooses o = (val, err))         -> TFnDone
   [LLock2 t]     rq.mu.Lock(); c.wg.Done(); if c.err == nil { rq.cache[key] = c.val }
                  if rq.calls[key] == c { delete(rq.calls, key) }; rq.mu.Unlock()          -> TRet .. (FromCall c)
   [LReturn t r]  the call returns r to its caller                                         -> TFin
     }
   [LSetMap m]    rq.mu.Lock(); rq.cache = maps.Clone(m); rq.mu.Unlock()
   [LGetMap m]    rq.mu.Lock(); return maps.Clone(rq.cache)          (m is the observed clone)
*)
From Coq Require Import List ZArith NArith Bool Arith Lia.
Import ListNotations.

(* c.val, c.err : the value and the error (None = nil) *)
Definition outcome := (Z * option Z)%type.

Inductive src := FromCache | FromCall (c : nat).

(* per-thread control state; b = (ghost) time at which the Get was issued *)
Inductive tstate :=
| TIdle
| TStart (k : N) (b : nat)
| TWait (k : N) (b : nat) (c : nat)
| TOwn (k : N) (b : nat) (c : nat)
| TRun (k : N) (b : nat) (c : nat)
| TFnDone (k : N) (b : nat) (c : nat)
| TRet (k : N) (b : nat) (r : outcome) (from : src)
| TFin (k : N) (b : nat) (r : outcome) (from : src).

(* a requestCacheCall record.  c_res = None: val/err still hold their zero values.
   c_fn, c_owner, c_done_at are ghost (what fn returned, which thread created the record, when Done ran) *)
Record crec := mkrec {
  c_key : N; c_done : bool; c_res : option outcome;
  c_fn : option outcome; c_owner : nat; c_done_at : nat }.

Record state := mkst {
  threads : nat -> tstate;
  cache : list (N * Z);          (* rq.cache, first binding wins *)
  calls : N -> option nat;       (* rq.calls: key -> call record id *)
  recs : nat -> crec;            (* heap of call records *)
  next_c : nat;                  (* next fresh record id *)
  clock : nat;                   (* ghost: number of steps taken *)
  sm_used : bool;                (* ghost: some SetMap step has happened *)
  nsucc : N -> nat;              (* ghost: number of fn invocations for the key that returned err = nil *)
  sval : N -> option Z }.        (* ghost: value returned by the last such invocation *)

Inductive label :=
| LBegin (t : nat) (k : N)
| LLock1 (t : nat)
| LFnStart (t : nat)
| LFnRet (t : nat) (o : outcome)
| LLock2 (t : nat)
| LWake (t : nat)
| LReturn (t : nat) (r : outcome)
| LSetMap (m : list (N * Z))
| LGetMap (m : list (N * Z)).

Definition upd {A} (f : nat -> A) (i : nat) (v : A) : nat -> A := fun j => if Nat.eqb j i then v else f j.
Definition updN {A} (f : N -> A) (i : N) (v : A) : N -> A := fun j => if N.eqb j i then v else f j.

Fixpoint lookup (k : N) (m : list (N * Z)) : option Z :=
  match m with [] => None | (k', v) :: m' => if N.eqb k k' then Some v else lookup k m' end.

Definition blank_rec : crec := mkrec 0%N false None None 0 0.

Definition init : state :=
  mkst (fun _ => TIdle) [] (fun _ => None) (fun _ => blank_rec) 0 0 false (fun _ => 0) (fun _ => None).

(* what a reader of c.val, c.err sees *)
Definition read_rec (r : crec) : outcome := match c_res r with Some o => o | None => (0%Z, None) end.

Definition set_thr (s : state) (t : nat) (x : tstate) : state :=
  mkst (upd (threads s) t x) (cache s) (calls s) (recs s) (next_c s) (S (clock s)) (sm_used s) (nsucc s) (sval s).

Definition out_eqb (a b : outcome) : bool :=
  Z.eqb (fst a) (fst b) &&
  match snd a, snd b with None, None => true | Some x, Some y => Z.eqb x y | _, _ => false end.

Definition optZ_eqb (a b : option Z) : bool :=
  match a, b with None, None => true | Some x, Some y => Z.eqb x y | _, _ => false end.

(* two association lists denote the same map *)
Definition same_map (m1 m2 : list (N * Z)) : bool :=
  forallb (fun kv => optZ_eqb (lookup (fst kv) m1) (lookup (fst kv) m2)) (m1 ++ m2).

Definition exec_step (s : state) (l : label) : option state :=
  match l with
  | LBegin t k =>
      match threads s t with TIdle => Some (set_thr s t (TStart k (clock s))) | _ => None end
  | LLock1 t =>
      match threads s t with
      | TStart k b =>
          match lookup k (cache s) with
          | Some v => Some (set_thr s t (TRet k b (v, None) FromCache))
          | None =>
              match calls s k with
              | Some c => Some (set_thr s t (TWait k b c))
              | None =>
                  let c := next_c s in
                  Some (mkst (upd (threads s) t (TOwn k b c)) (cache s) (updN (calls s) k (Some c))
                             (upd (recs s) c (mkrec k false None None t 0)) (S c) (S (clock s)) (sm_used s)
                             (nsucc s) (sval s))
              end
          end
      | _ => None
      end
  | LFnStart t =>
      match threads s t with TOwn k b c => Some (set_thr s t (TRun k b c)) | _ => None end
  | LFnRet t o =>
      match threads s t with
      | TRun k b c =>
          let r := recs s c in
          let isok := match snd o with None => true | Some _ => false end in
          Some (mkst (upd (threads s) t (TFnDone k b c)) (cache s) (calls s)
                     (upd (recs s) c (mkrec (c_key r) (c_done r) (Some o) (Some o) (c_owner r) (c_done_at r)))
                     (next_c s) (S (clock s)) (sm_used s)
                     (if isok then updN (nsucc s) k (S (nsucc s k)) else nsucc s)
                     (if isok then updN (sval s) k (Some (fst o)) else sval s))
      | _ => None
      end
  | LLock2 t =>
      match threads s t with
      | TFnDone k b c =>
          let r := recs s c in
          let o := read_rec r in
          let cache' := match snd o with None => (k, fst o) :: cache s | Some _ => cache s end in
          let calls' := match calls s k with
                        | Some c' => if Nat.eqb c' c then updN (calls s) k None else calls s
                        | None => calls s end in
          Some (mkst (upd (threads s) t (TRet k b o (FromCall c))) cache' calls'
                     (upd (recs s) c (mkrec (c_key r) true (c_res r) (c_fn r) (c_owner r) (clock s)))
                     (next_c s) (S (clock s)) (sm_used s) (nsucc s) (sval s))
      | _ => None
      end
  | LWake t =>
      match threads s t with
      | TWait k b c => if c_done (recs s c) then Some (set_thr s t (TRet k b (read_rec (recs s c)) (FromCall c))) else None
      | _ => None
      end
  | LReturn t r =>
      match threads s t with
      | TRet k b r' from =>
          if out_eqb r r' then Some (set_thr s t (TFin k b r' from)) else None
      | _ => None
      end
  | LSetMap m =>
      Some (mkst (threads s) m (calls s) (recs s) (next_c s) (S (clock s)) true (nsucc s) (sval s))
  | LGetMap m =>
      if same_map m (cache s) then
        Some (mkst (threads s) (cache s) (calls s) (recs s) (next_c s) (S (clock s)) (sm_used s) (nsucc s) (sval s))
      else None
  end.

Definition step (s : state) (l : label) (s' : state) : Prop := exec_step s l = Some s'.

Inductive reachable : state -> Prop :=
| reach_init : reachable init
| reach_step : forall s l s', reachable s -> step s l s' -> reachable s'.

(* ------------------------------------------------------------------ the five properties *)
Definition owner_state (x : tstate) (k : N) (c : nat) : Prop :=
  exists b, x = TOwn k b c \/ x = TRun k b c \/ x = TFnDone k b c.

(* at most one fn in flight per key, and none while the key is cached (the latter without SetMap) *)
Definition single_flight (s : state) : Prop :=
  (forall t1 t2 k b1 b2 c1 c2, threads s t1 = TRun k b1 c1 -> threads s t2 = TRun k b2 c2 -> t1 = t2) /\
  (sm_used s = false -> forall t k b c, threads s t = TRun k b c -> lookup k (cache s) = None).

Definition at_most_one_success_per_key (s : state) : Prop :=
  sm_used s = false -> forall k, nsucc s k <= 1.

(* a thread that went through wg.Wait() returns exactly what the fn invocation of that call record returned *)
Definition returned (x : tstate) (k : N) (b : nat) (r : outcome) (from : src) : Prop :=
  x = TRet k b r from \/ x = TFin k b r from.

Definition waiters_get_owner_result (s : state) : Prop :=
  forall t k b r c, returned (threads s t) k b r (FromCall c) ->
    c_fn (recs s c) = Some r /\ c_key (recs s c) = k /\ c_done (recs s c) = true.

(* every Get returns either the cached value of the unique successful fetch of its key, or the result of
   an fn invocation whose owning Get had not finished its second critical section when this Get began
   (owner first, waiters after) *)
Definition returns_linearizable (s : state) : Prop :=
  forall t k b r from, returned (threads s t) k b r from ->
    match from with
    | FromCache => sm_used s = false -> exists v, r = (v, None) /\ sval s k = Some v /\ nsucc s k = 1
    | FromCall c => c_fn (recs s c) = Some r /\ c_key (recs s c) = k /\
                    c_done (recs s c) = true /\ b <= c_done_at (recs s c) /\ c_done_at (recs s c) < clock s
    end.

(* every waiter's Wait has a matching Done: the record is done already, or its owner is still on the
   straight-line path to Done *)
Definition no_lost_wakeup (s : state) : Prop :=
  forall t k b c, threads s t = TWait k b c ->
    c_done (recs s c) = true \/ owner_state (threads s (c_owner (recs s c))) k c.

(* ------------------------------------------------------------------ trace validation *)
(* observable labels: everything except the lock sections and the wake-up *)
Definition observable (l : label) : bool :=
  match l with LLock1 _ | LLock2 _ | LWake _ => false | _ => true end.

(* thread of an observable label *)
Definition label_thread (l : label) : option nat :=
  match l with
  | LBegin t _ | LLock1 t | LFnStart t | LFnRet t _ | LLock2 t | LWake t | LReturn t _ => Some t
  | _ => None
  end.

Definition quiescent (n : nat) (s : state) : bool :=
  forallb (fun t => match threads s t with TIdle | TFin _ _ _ _ => true | _ => false end) (seq 0 n).

(* does some run of the LTS have exactly [obs] as its observable projection?  depth-first search over the
   placement of the unobservable steps of threads 0..n-1.  Pruning that loses no behaviours:
   LWake t and a cache-hit LLock1 t change no shared state and their enabledness is monotone until the next
   LSetMap, so they are only tried immediately before the LReturn t they enable (and a cache hit also
   immediately before an LSetMap). *)
Fixpoint accepts (fuel n : nat) (s : state) (obs : list label) : bool :=
  match fuel with
  | 0 => false
  | S f =>
      let try_tau (l : label) := match exec_step s l with Some s' => accepts f n s' obs | None => false end in
      (* internal steps that change shared state, any time *)
      existsb (fun t =>
                 match threads s t with
                 | TStart k _ => match lookup k (cache s) with None => try_tau (LLock1 t) | Some _ => false end
                 | TFnDone _ _ _ => try_tau (LLock2 t)
                 | _ => false
                 end) (seq 0 n)
      ||
      match obs with
      | [] => quiescent n s
      | o :: rest =>
          (observable o &&
           match exec_step s o with Some s' => accepts f n s' rest | None => false end)
          ||
          match o with
          | LReturn t _ =>
              match threads s t with
              | TStart k _ => match lookup k (cache s) with Some _ => try_tau (LLock1 t) | None => false end
              | TWait _ _ _ => try_tau (LWake t)
              | _ => false
              end
          | LSetMap _ =>
              existsb (fun t =>
                 match threads s t with
                 | TStart k _ => match lookup k (cache s) with Some _ => try_tau (LLock1 t) | None => false end
                 | _ => false
                 end) (seq 0 n)
          | _ => false
          end
      end
  end.

(* ------------------------------------------------------------------ oracle on an observed trace *)
(* independent of the LTS: works on the observable events only *)
Fixpoint count_occ_b {A} (f : A -> bool) (l : list A) : nat :=
  match l with [] => 0 | x :: r => (if f x then 1 else 0) + count_occ_b f r end.

(* key of thread t = key of its LBegin *)
Fixpoint key_of (t : nat) (obs : list label) : option N :=
  match obs with
  | [] => None
  | LBegin t' k :: r => if Nat.eqb t t' then Some k else key_of t r
  | _ :: r => key_of t r
  end.

Definition has_key (obs : list label) (k : N) (t : nat) : bool :=
  match key_of t obs with Some k' => N.eqb k k' | None => false end.

(* walk the trace keeping: keys with an fn in flight; what currently forbids a new fetch of a key (key, value,
   exempt calls): the successes since the last SetMap and the entries of the last SetMap - the latter do not
   bind calls that had already begun when the SetMap happened, they may have passed the lock before it;
   every value a Get of the key may legitimately return (all successes and all SetMap entries so far);
   failed invocations whose owner has not returned yet (owner, key, outcome); calls begun and not returned;
   for each call the failures it may legitimately report; what each call's own fn returned *)
Record ostate := mko { o_inflight : list N; o_succ : list (N * Z * list nat); o_vals : list (N * Z);
                       o_pending : list (nat * N * outcome); o_began : list nat;
                       o_lastfail : list (nat * outcome); o_own : list (nat * outcome) }.

Definition mem_N (k : N) (l : list N) : bool := existsb (N.eqb k) l.
Definition remove_N (k : N) (l : list N) : list N := filter (fun x => negb (N.eqb k x)) l.
Definition mem_nat (t : nat) (l : list nat) : bool := existsb (Nat.eqb t) l.

(* oracle:
   O1 single flight: LFnStart for key k only when no fn for k is in flight - at any time, SetMap or not - and
      no success for k has happened since the last SetMap, and the last SetMap did not supply k (for calls
      begun after it);
   O2 at most one success per key (follows from O1; counted separately on traces without SetMap);
   O3 a call that invoked fn returns what its fn returned; a return without error carries the value of a
      success of the key that happened before, or a value some earlier SetMap supplied for the key;
      a return with an error carries the outcome of a failed fn invocation of that key whose owning call
      overlaps this call (the owner had not returned when this call began, and the failure happened before
      this call returned);
   O4 every begun call returns (no lost wake-up), checked at the end. *)
Fixpoint oracle_go (all : list label) (obs : list label) (st : ostate) : bool :=
  match obs with
  | [] => true
  | e :: rest =>
      match e with
      | LBegin t k =>
          oracle_go all rest (mko (o_inflight st) (o_succ st) (o_vals st) (o_pending st) (t :: o_began st)
                                  (map (fun p => (t, snd p)) (filter (fun p => N.eqb k (snd (fst p))) (o_pending st))
                                   ++ o_lastfail st) (o_own st))
      | LFnStart t =>
          match key_of t all with
          | Some k => negb (mem_N k (o_inflight st)) &&
                      negb (existsb (fun e => N.eqb k (fst (fst e)) && negb (mem_nat t (snd e))) (o_succ st)) &&
                      oracle_go all rest (mko (k :: o_inflight st) (o_succ st) (o_vals st) (o_pending st) (o_began st)
                                              (o_lastfail st) (o_own st))
          | None => false
          end
      | LFnRet t o =>
          match key_of t all with
          | Some k =>
              mem_N k (o_inflight st) &&
              match snd o with
              | None => oracle_go all rest (mko (remove_N k (o_inflight st)) ((k, fst o, []) :: o_succ st)
                                                ((k, fst o) :: o_vals st) (o_pending st)
                                                (o_began st) (o_lastfail st) ((t, o) :: o_own st))
              | Some _ =>
                  oracle_go all rest (mko (remove_N k (o_inflight st)) (o_succ st) (o_vals st) ((t, k, o) :: o_pending st)
                                          (o_began st)
                                          (map (fun t' => (t', o)) (filter (has_key all k) (o_began st)) ++ o_lastfail st)
                                          ((t, o) :: o_own st))
              end
          | None => false
          end
      | LReturn t r =>
          match key_of t all with
          | Some k =>
              (match find (fun p => Nat.eqb t (fst p)) (o_own st) with
               | Some p => out_eqb r (snd p)
               | None =>
                   match snd r with
                   | None => existsb (fun kv => N.eqb k (fst kv) && Z.eqb (fst r) (snd kv)) (o_vals st)
                   | Some _ => existsb (fun te => Nat.eqb t (fst te) && out_eqb r (snd te)) (o_lastfail st)
                   end
               end) &&
              oracle_go all rest (mko (o_inflight st) (o_succ st) (o_vals st)
                                      (filter (fun p => negb (Nat.eqb t (fst (fst p)))) (o_pending st))
                                      (filter (fun t' => negb (Nat.eqb t t')) (o_began st)) (o_lastfail st) (o_own st))
          | None => false
          end
      | LSetMap m =>
          oracle_go all rest (mko (o_inflight st) (map (fun kv => (fst kv, snd kv, o_began st)) m) (m ++ o_vals st)
                                  (o_pending st) (o_began st) (o_lastfail st) (o_own st))
      | _ => oracle_go all rest st
      end
  end.

Definition success_count_ok (obs : list label) (keys : list N) : bool :=
  forallb (fun k => Nat.leb (count_occ_b (fun e => match e with
                                                   | LFnRet t (_, None) => has_key obs k t
                                                   | _ => false end) obs) 1) keys.

Definition all_returned (obs : list label) : bool :=
  forallb (fun e => match e with
                    | LBegin t _ => existsb (fun e' => match e' with LReturn t' _ => Nat.eqb t t' | _ => false end) obs
                    | _ => true end) obs.

Definition has_setmap (obs : list label) : bool :=
  existsb (fun e => match e with LSetMap _ => true | _ => false end) obs.

Definition oracle (obs : list label) (keys : list N) : bool :=
  oracle_go obs obs (mko [] [] [] [] [] [] []) &&
  (has_setmap obs || success_count_ok obs keys) && all_returned obs.

(* per-key fetch counts, reported next to the verdict *)
Definition fetch_count (obs : list label) (k : N) : nat :=
  count_occ_b (fun e => match e with LFnStart t => has_key obs k t | _ => false end) obs.

(* ------------------------------------------------------------------ cases-file protocol *)
Record ccase := mkcase { cc_threads : nat; cc_keys : list N; cc_obs : list label }.

Definition case_model_ok (c : ccase) : bool :=
  forallb observable (cc_obs c) && accepts (4 * length (cc_obs c) + 8) (cc_threads c) init (cc_obs c).

Definition case_spec_ok (c : ccase) : bool := oracle (cc_obs c) (cc_keys c).

Fixpoint bad_indices {A} (f : A -> bool) (l : list A) (i : nat) : list nat :=
  match l with
  | [] => []
  | x :: l' => if f x then bad_indices f l' (S i) else i :: bad_indices f l' (S i)
  end.

(* C17 - proofs about the tortoise-and-hare resolver (Model.v). *)
From Coq Require Import List NArith Bool Arith Lia.
From Scalibr Require Import Symlink.PathSeg Symlink.Model.
Import ListNotations.

Section ResolveProofs.
  Variable path : Type.
  Variable peqb : path -> path -> bool.
  Hypothesis peqb_spec : forall a b, peqb a b = true <-> a = b.
  Variable get : path -> option (node path).

  Notation loop := (loop peqb get).
  Notation resolve := (resolve peqb get).
  Notation chain := (chain get).
  Notation reaches_target := (reaches_target get).
  Notation hits_missing := (hits_missing get).

  (* ---------------------------------------------------------------- chain facts *)
  Lemma chain_S n k :
    chain n (S k) = match chain n k with
                    | Some m => if n_symlink m then get (n_target m) else None
                    | None => None
                    end.
  Proof. reflexivity. Qed.

  Lemma chain_S_some n k x :
    chain n (S k) = Some x ->
    exists m, chain n k = Some m /\ n_symlink m = true /\ get (n_target m) = Some x.
  Proof.
    rewrite chain_S. destruct (chain n k) as [m|]; [|discriminate].
    destruct (n_symlink m) eqn:E; [|discriminate]. intros H. exists m. auto.
  Qed.

  (* the chain is prefix closed, and everything before a defined position is a symlink *)
  Lemma chain_before n k x :
    chain n k = Some x -> forall j, j < k ->
    exists m, chain n j = Some m /\ n_symlink m = true /\ chain n (S j) = get (n_target m) /\ chain n (S j) <> None.
  Proof.
    revert x. induction k as [|k IH]; intros x H j Hj; [lia|].
    destruct (chain_S_some _ _ _ H) as [m [Hm [Hs Hg]]].
    destruct (Nat.eq_dec j k) as [->|Hne].
    - exists m. split; [exact Hm|]. split; [exact Hs|].
      rewrite chain_S, Hm, Hs. split; [reflexivity|]. rewrite Hg. discriminate.
    - apply (IH m Hm j). lia.
  Qed.

  Lemma chain_defined_le n k x : chain n k = Some x -> forall j, j <= k -> exists m, chain n j = Some m.
  Proof.
    intros H j Hj. destruct (Nat.eq_dec j k) as [->|Hne]; [eauto|].
    destruct (chain_before _ _ _ H j) as [m [Hm _]]; [lia|eauto].
  Qed.

  Lemma chain_none_ge n k : chain n k = None -> forall j, k <= j -> chain n j = None.
  Proof.
    intros H j Hj. destruct (chain n j) as [x|] eqn:E; [|reflexivity].
    destruct (chain_defined_le _ _ _ E k Hj) as [m Hm]. congruence.
  Qed.

  (* nothing follows a non-symlink *)
  Lemma chain_after_target n h t : chain n h = Some t -> n_symlink t = false -> forall j, h < j -> chain n j = None.
  Proof.
    intros H Hs j Hj. apply (chain_none_ge n (S h)); [|lia]. rewrite chain_S, H, Hs. reflexivity.
  Qed.

  Lemma chain_shift n i a : chain n i = Some a -> forall k, chain n (i + k) = chain a k.
  Proof.
    intros H k. induction k as [|k IH].
    - rewrite Nat.add_0_r. exact H.
    - rewrite Nat.add_succ_r, !chain_S, IH. reflexivity.
  Qed.

  Lemma hits_missing_none n m : hits_missing n m -> chain n m = None.
  Proof.
    intros [s [Hm [Hc [Hs Hg]]]]. destruct m as [|m]; [congruence|]. cbn [pred] in Hc.
    rewrite chain_S, Hc, Hs. exact Hg.
  Qed.

  (* ---------------------------------------------------------------- the loop, characterised *)
  Definition b2n (b : bool) : nat := if b then 1 else 0.

  (* Invariant at the top of the loop after i hops: fast is at position i, slow at position j with
     i = 2j + (1 if the slow pointer is due to advance). *)
  Lemma loop_char n : forall f i j fast slow adv,
    chain n i = Some fast -> chain n j = Some slow -> i = 2 * j + b2n adv ->
    match loop f fast slow adv with
    | ROk t => exists h, i <= h /\ h < i + f /\ chain n h = Some t /\ n_symlink t = false
    | RNotExist => exists m, i < m /\ m <= i + f /\ hits_missing n m
    | RCycle => exists a b x y, a < b /\ b <= i + f /\ chain n a = Some x /\ chain n b = Some y /\ n_path x = n_path y
    | RDepth => exists x, chain n (i + f) = Some x
    end.
  Proof.
    induction f as [|f IH]; intros i j fast slow adv Hf Hsl Hij.
    - cbn [Model.loop]. rewrite Nat.add_0_r. eauto.
    - cbn [Model.loop]. destruct (n_symlink fast) eqn:Efs; cbn [negb].
      2:{ exists i. repeat split; [lia|lia|exact Hf|exact Efs]. }
      destruct (get (n_target fast)) as [nx|] eqn:Eg.
      2:{ exists (S i). split; [lia|]. split; [lia|]. exists fast. cbn [pred]. repeat split; auto. }
      assert (Hnx : chain n (S i) = Some nx) by (rewrite chain_S, Hf, Efs; exact Eg).
      destruct (peqb (n_path nx) (n_path slow)) eqn:Ep.
      { apply peqb_spec in Ep. exists j, (S i), slow, nx. repeat split; auto; destruct adv; cbn [b2n] in Hij; lia. }
      destruct adv; cbn [b2n] in Hij.
      + (* the slow pointer advances; its lookup repeats one the fast pointer has already made *)
        destruct (chain_before _ _ _ Hf j) as [m [Hm [Hms [Hstep Hnn]]]]; [lia|].
        assert (m = slow) by congruence. subst m.
        destruct (get (n_target slow)) as [s'|] eqn:Egs; [|congruence].
        specialize (IH (S i) (S j) nx s' false Hnx).
        rewrite Hstep in IH. specialize (IH eq_refl). cbn [b2n] in IH.
        assert (Hidx : S i = 2 * S j + 0) by lia. specialize (IH Hidx).
        destruct (Model.loop peqb get f nx s' false).
        * destruct IH as [h [H1 [H2 H3]]]. exists h. repeat split; try lia; apply H3.
        * destruct IH as [m [H1 [H2 H3]]]. exists m. repeat split; try lia; apply H3.
        * destruct IH as [a [b [x [y [H1 [H2 H3]]]]]]. exists a, b, x, y. repeat split; try lia; apply H3.
        * destruct IH as [x Hx]. exists x. replace (i + S f) with (S i + f) by lia. exact Hx.
      + specialize (IH (S i) j nx slow true Hnx Hsl). cbn [b2n] in IH.
        assert (Hidx : S i = 2 * j + 1) by lia. specialize (IH Hidx).
        destruct (Model.loop peqb get f nx slow true).
        * destruct IH as [h [H1 [H2 H3]]]. exists h. repeat split; try lia; apply H3.
        * destruct IH as [m [H1 [H2 H3]]]. exists m. repeat split; try lia; apply H3.
        * destruct IH as [a [b [x [y [H1 [H2 H3]]]]]]. exists a, b, x, y. repeat split; try lia; apply H3.
        * destruct IH as [x Hx]. exists x. replace (i + S f) with (S i + f) by lia. exact Hx.
  Qed.

  Lemma resolve_char n maxd :
    match resolve n maxd with
    | ROk t => exists h, h <= maxd /\ chain n h = Some t /\ n_symlink t = false
    | RNotExist => exists m, m <= S maxd /\ hits_missing n m
    | RCycle => exists a b x y, a < b /\ b <= S maxd /\ chain n a = Some x /\ chain n b = Some y /\ n_path x = n_path y
    | RDepth => exists x, chain n (S maxd) = Some x
    end.
  Proof.
    unfold Model.resolve.
    pose proof (loop_char n (S maxd) 0 0 n n false eq_refl eq_refl eq_refl) as H.
    destruct (Model.loop peqb get (S maxd) n n false).
    - destruct H as [h [_ [H2 H3]]]. exists h. split; [lia|exact H3].
    - destruct H as [m [_ [H2 H3]]]. exists m. split; [lia|exact H3].
    - destruct H as [a [b [x [y [H1 [H2 H3]]]]]]. exists a, b, x, y. repeat split; try lia; apply H3.
    - exact H.
  Qed.

  (* ---------------------------------------------------------------- soundness *)
  Lemma resolve_sound_lemma n maxd t :
    resolve n maxd = ROk t ->
    exists h, h <= maxd /\ chain n h = Some t /\ n_symlink t = false /\
              forall k, k < h -> exists m, chain n k = Some m /\ n_symlink m = true.
  Proof.
    intros H. pose proof (resolve_char n maxd) as C. rewrite H in C.
    destruct C as [h [H1 [H2 H3]]]. exists h. repeat split; auto.
    intros k Hk. destruct (chain_before _ _ _ H2 k Hk) as [m [Hm [Hs _]]]. eauto.
  Qed.

  Lemma resolve_notexist_sound_lemma n maxd :
    resolve n maxd = RNotExist -> exists m, m <= S maxd /\ hits_missing n m.
  Proof. intros H. pose proof (resolve_char n maxd) as C. rewrite H in C. exact C. Qed.

  Lemma resolve_cycle_sound_lemma n maxd :
    resolve n maxd = RCycle ->
    exists a b x y, a < b /\ b <= S maxd /\ chain n a = Some x /\ chain n b = Some y /\ n_path x = n_path y.
  Proof. intros H. pose proof (resolve_char n maxd) as C. rewrite H in C. exact C. Qed.

  Lemma resolve_depth_sound_lemma n maxd :
    resolve n maxd = RDepth ->
    forall k, k <= maxd -> exists m, chain n k = Some m /\ n_symlink m = true.
  Proof.
    intros H k Hk. pose proof (resolve_char n maxd) as C. rewrite H in C. destruct C as [x Hx].
    destruct (chain_before _ _ _ Hx k) as [m [Hm [Hs _]]]; [lia|eauto].
  Qed.

  (* ---------------------------------------------------------------- completeness *)
  Definition distinct_upto (n : node path) (h : nat) : Prop :=
    forall a b x y, a < b -> b <= h -> chain n a = Some x -> chain n b = Some y -> n_path x <> n_path y.

  Lemma resolve_target_distinct_lemma n h t maxd :
    reaches_target n h t -> h <= maxd -> distinct_upto n h -> resolve n maxd = ROk t.
  Proof.
    intros [Hc Hs] Hle Hd. pose proof (resolve_char n maxd) as C.
    destruct (resolve n maxd) as [t'| | |].
    - destruct C as [h' [H1 [H2 H3]]].
      destruct (Nat.lt_trichotomy h' h) as [Hlt|[->|Hgt]].
      + destruct (chain_before _ _ _ Hc h' Hlt) as [m [Hm [Hms _]]]. congruence.
      + congruence.
      + rewrite (chain_after_target _ _ _ Hc Hs h' Hgt) in H2. discriminate.
    - destruct C as [m [H1 H2]]. pose proof (hits_missing_none _ _ H2) as Hn.
      destruct H2 as [s [Hm0 [Hcs [Hss Hg]]]].
      destruct (le_lt_dec m h) as [Hmh|Hmh].
      + rewrite (chain_none_ge _ _ Hn h Hmh) in Hc. discriminate.
      + destruct (Nat.eq_dec (pred m) h) as [E|E].
        * rewrite E in Hcs. congruence.
        * rewrite (chain_after_target _ _ _ Hc Hs (pred m)) in Hcs; [discriminate|lia].
    - destruct C as [a [b [x [y [H1 [H2 [H3 [H4 H5]]]]]]]].
      destruct (le_lt_dec b h) as [Hbh|Hbh].
      + exfalso. exact (Hd a b x y H1 Hbh H3 H4 H5).
      + rewrite (chain_after_target _ _ _ Hc Hs b Hbh) in H4. discriminate.
    - destruct C as [x Hx]. rewrite (chain_after_target _ _ _ Hc Hs (S maxd)) in Hx; [discriminate|lia].
  Qed.

  Lemma resolve_missing_distinct_lemma n m maxd :
    hits_missing n m -> m <= S maxd -> distinct_upto n (pred m) -> resolve n maxd = RNotExist.
  Proof.
    intros Hm Hle Hd. pose proof (hits_missing_none _ _ Hm) as Hn.
    destruct Hm as [s [Hm0 [Hcs [Hss Hg]]]].
    pose proof (resolve_char n maxd) as C.
    destruct (resolve n maxd) as [t'| | |]; [| reflexivity | |].
    - destruct C as [h' [H1 [H2 H3]]].
      destruct (le_lt_dec m h') as [Hmh|Hmh].
      + rewrite (chain_none_ge _ _ Hn h' Hmh) in H2. discriminate.
      + destruct (Nat.eq_dec h' (pred m)) as [E|E].
        * rewrite E in H2. congruence.
        * rewrite (chain_after_target _ _ _ H2 H3 (pred m)) in Hcs; [discriminate|lia].
    - destruct C as [a [b [x [y [H1 [H2 [H3 [H4 H5]]]]]]]].
      destruct (le_lt_dec m b) as [Hmb|Hmb].
      + rewrite (chain_none_ge _ _ Hn b Hmb) in H4. discriminate.
      + exfalso. apply (Hd a b x y H1); auto. lia.
    - destruct C as [x Hx]. rewrite (chain_none_ge _ _ Hn (S maxd) Hle) in Hx. discriminate.
  Qed.

  Lemma resolve_otherwise_lemma n maxd :
    ~ (exists h t, h <= maxd /\ reaches_target n h t) ->
    ~ (exists m, m <= S maxd /\ hits_missing n m) ->
    resolve n maxd = RCycle \/ resolve n maxd = RDepth.
  Proof.
    intros H1 H2. pose proof (resolve_char n maxd) as C.
    destruct (resolve n maxd) as [t| | |]; auto.
    - exfalso. apply H1. destruct C as [h [Ha [Hb Hc]]]. exists h, t. split; [exact Ha|split; assumption].
    - exfalso. apply H2. exact C.
  Qed.

  (* ---------------------------------------------------------------- the chain ends in one way only *)
  Lemma symlink_before_target n k c h t :
    chain n k = Some c -> n_symlink c = true -> reaches_target n h t -> k < h.
  Proof.
    intros Hk Hs [Hc Ht]. destruct (le_lt_dec h k) as [Hle|]; [|assumption]. exfalso.
    destruct (Nat.eq_dec h k) as [->|Hne]; [congruence|].
    rewrite (chain_after_target _ _ _ Hc Ht k) in Hk; [discriminate|lia].
  Qed.

  Lemma symlink_before_missing n k c m :
    chain n k = Some c -> hits_missing n m -> k < m.
  Proof.
    intros Hk Hm. destruct (le_lt_dec m k) as [Hle|]; [|assumption]. exfalso.
    rewrite (chain_none_ge _ _ (hits_missing_none _ _ Hm) k Hle) in Hk. discriminate.
  Qed.

  Lemma reaches_unique n h t h' t' : reaches_target n h t -> reaches_target n h' t' -> h = h' /\ t = t'.
  Proof.
    intros [Hc Ht] [Hc' Ht'].
    destruct (Nat.lt_trichotomy h h') as [Hlt|[->|Hgt]].
    - rewrite (chain_after_target _ _ _ Hc Ht h' Hlt) in Hc'. discriminate.
    - split; congruence.
    - rewrite (chain_after_target _ _ _ Hc' Ht' h Hgt) in Hc. discriminate.
  Qed.

  Lemma target_missing_exclusive n h t m : reaches_target n h t -> hits_missing n m -> False.
  Proof.
    intros [Hc Ht] Hm. pose proof (hits_missing_none _ _ Hm) as Hn.
    destruct Hm as [s [Hm0 [Hcs [Hss Hg]]]].
    destruct (le_lt_dec m h) as [Hmh|Hmh].
    - rewrite (chain_none_ge _ _ Hn h Hmh) in Hc. discriminate.
    - destruct (Nat.eq_dec (pred m) h) as [E|E].
      + rewrite E in Hcs. congruence.
      + rewrite (chain_after_target _ _ _ Hc Ht (pred m)) in Hcs; [discriminate|lia].
  Qed.

  Lemma missing_unique n m m' : hits_missing n m -> hits_missing n m' -> m = m'.
  Proof.
    intros H H'. pose proof (hits_missing_none _ _ H) as Hn. pose proof (hits_missing_none _ _ H') as Hn'.
    destruct H as [s [Hm0 [Hcs _]]]. destruct H' as [s' [Hm0' [Hcs' _]]].
    destruct (Nat.lt_trichotomy m m') as [Hlt|[E|Hgt]]; [|exact E|].
    - rewrite (chain_none_ge _ _ Hn (pred m')) in Hcs'; [discriminate|lia].
    - rewrite (chain_none_ge _ _ Hn' (pred m)) in Hcs; [discriminate|lia].
  Qed.

  (* ---------------------------------------------------------------- lookups are bounded *)
  Lemma loop_i_spec : forall f fast slow adv,
    let '(r, a, b) := loop_i peqb get f fast slow adv in
    r = loop f fast slow adv /\ a <= f /\ b <= a /\
    (r = RDepth -> a = f) /\
    (forall t, r = ROk t -> chain fast a = Some t) /\
    (r = RNotExist -> a <> 0) /\ (r = RCycle -> a <> 0).
  Proof.
    induction f as [|f IH]; intros fast slow adv; cbn [Model.loop_i Model.loop].
    - repeat split; auto; try discriminate.
    - destruct (n_symlink fast) eqn:Es; cbn [negb].
      2:{ repeat split; auto; try lia; try discriminate. intros t H. injection H as <-. reflexivity. }
      destruct (get (n_target fast)) as [nx|] eqn:Eg.
      2:{ repeat split; auto; try lia; discriminate. }
      assert (Hstep : forall k, chain fast (S k) = chain nx k).
      { intros k. change (S k) with (1 + k). apply chain_shift. cbn. rewrite Es. exact Eg. }
      destruct (peqb (n_path nx) (n_path slow)).
      { repeat split; auto; try lia; discriminate. }
      destruct adv.
      + destruct (get (n_target slow)) as [s'|].
        2:{ repeat split; auto; try lia; discriminate. }
        specialize (IH nx s' false). destruct (loop_i peqb get f nx s' false) as [[r a] b].
        destruct IH as [H1 [H2 [H3 [H4 [H5 _]]]]].
        split; [exact H1|]. split; [lia|]. split; [lia|]. split; [intros H; rewrite (H4 H); reflexivity|].
        split; [intros t H; rewrite Hstep; apply H5; exact H|]. split; intros _; lia.
      + specialize (IH nx slow true). destruct (loop_i peqb get f nx slow true) as [[r a] b].
        destruct IH as [H1 [H2 [H3 [H4 [H5 _]]]]].
        split; [exact H1|]. split; [lia|]. split; [lia|]. split; [intros H; rewrite (H4 H); reflexivity|].
        split; [intros t H; rewrite Hstep; apply H5; exact H|]. split; intros _; lia.
  Qed.

  Lemma resolve_fuel_exact_lemma n maxd :
    let '(r, a, b) := resolve_i peqb get n maxd in
    r = resolve n maxd /\ a <= S maxd /\ b <= a /\
    (r = RDepth -> a = S maxd) /\
    (forall t, r = ROk t -> chain n a = Some t /\ a <= maxd).
  Proof.
    unfold Model.resolve_i, Model.resolve. pose proof (loop_i_spec (S maxd) n n false) as H.
    destruct (loop_i peqb get (S maxd) n n false) as [[r a] b].
    destruct H as [H1 [H2 [H3 [H4 [H5 _]]]]].
    split; [exact H1|]. split; [exact H2|]. split; [exact H3|]. split; [exact H4|].
    intros t Ht. pose proof (H5 t Ht) as Hc. split; [exact Hc|].
    (* an answer after S maxd hops is impossible: the loop returns Ok only at the top of an iteration *)
    rewrite H1 in Ht. destruct (resolve_sound_lemma n maxd t Ht) as [h [Hh [Hch [Hs _]]]].
    destruct (reaches_unique n h t a t (conj Hch Hs) (conj Hc Hs)) as [-> _]. exact Hh.
  Qed.

  (* ---------------------------------------------------------------- one node per path: no false cycle *)
  Hypothesis get_ok : get_consistent get.

  Lemma chain_node_stored n k x :
    get (n_path n) = Some n -> chain n k = Some x -> get (n_path x) = Some x.
  Proof.
    intros Hn Hk. destruct k as [|k].
    - cbn in Hk. congruence.
    - destruct (chain_S_some _ _ _ Hk) as [m [_ [_ Hg]]]. rewrite (get_ok _ _ Hg). exact Hg.
  Qed.

  (* a repeated node makes the chain infinite *)
  Lemma repeat_forever n a b x :
    a < b -> chain n a = Some x -> chain n b = Some x -> forall k, exists y, chain n k = Some y.
  Proof.
    intros Hab Ha Hb k. induction k as [k IH] using lt_wf_ind.
    destruct (le_lt_dec k b) as [Hkb|Hkb].
    - exact (chain_defined_le _ _ _ Hb k Hkb).
    - replace k with (b + (k - b)) by lia. rewrite (chain_shift _ _ _ Hb).
      rewrite <- (chain_shift _ _ _ Ha). apply IH. lia.
  Qed.

  Lemma consistent_distinct_target n h t :
    get (n_path n) = Some n -> reaches_target n h t -> distinct_upto n h.
  Proof.
    intros Hn [Hc Hs] a b x y Hab Hb Ha Hbb Hp.
    assert (x = y).
    { pose proof (chain_node_stored _ _ _ Hn Ha) as E1. pose proof (chain_node_stored _ _ _ Hn Hbb) as E2.
      rewrite Hp in E1. congruence. }
    subst y. destruct (repeat_forever _ _ _ _ Hab Ha Hbb (S h)) as [z Hz].
    rewrite (chain_after_target _ _ _ Hc Hs (S h)) in Hz; [discriminate|lia].
  Qed.

  Lemma consistent_distinct_missing n m :
    get (n_path n) = Some n -> hits_missing n m -> distinct_upto n (pred m).
  Proof.
    intros Hn Hm a b x y Hab Hb Ha Hbb Hp.
    assert (x = y).
    { pose proof (chain_node_stored _ _ _ Hn Ha) as E1. pose proof (chain_node_stored _ _ _ Hn Hbb) as E2.
      rewrite Hp in E1. congruence. }
    subst y. destruct (repeat_forever _ _ _ _ Hab Ha Hbb m) as [z Hz].
    rewrite (hits_missing_none _ _ Hm) in Hz. discriminate.
  Qed.

  Lemma resolve_target_lemma n h t maxd :
    get (n_path n) = Some n -> reaches_target n h t -> h <= maxd -> resolve n maxd = ROk t.
  Proof.
    intros Hn Hr Hle. apply (resolve_target_distinct_lemma n h t maxd Hr Hle).
    exact (consistent_distinct_target n h t Hn Hr).
  Qed.

  Lemma resolve_missing_lemma n m maxd :
    get (n_path n) = Some n -> hits_missing n m -> m <= S maxd -> resolve n maxd = RNotExist.
  Proof.
    intros Hn Hm Hle. apply (resolve_missing_distinct_lemma n m maxd Hm Hle).
    exact (consistent_distinct_missing n m Hn Hm).
  Qed.

  (* ---------------------------------------------------------------- the sentence as written *)
  (* "first non-symlink target when the chain has at most max hops, not found when it reaches a
     missing entry before the hop budget is exhausted, a cycle or depth error otherwise" *)
  Definition strict_property (n : node path) (maxd : nat) (r : result path) : Prop :=
    (forall h t, h <= maxd -> reaches_target n h t -> r = ROk t) /\
    (forall m, m <= maxd -> hits_missing n m -> r = RNotExist) /\
    (~ (exists h t, h <= maxd /\ reaches_target n h t) ->
     ~ (exists m, m <= maxd /\ hits_missing n m) -> r = RCycle \/ r = RDepth).

  Lemma resolve_strict_on_D_lemma n maxd :
    get (n_path n) = Some n ->
    ~ hits_missing n (S maxd) ->
    strict_property n maxd (resolve n maxd).
  Proof.
    intros Hn HD. split; [|split].
    - intros h t Hle Hr. exact (resolve_target_lemma n h t maxd Hn Hr Hle).
    - intros m Hle Hm. apply (resolve_missing_lemma n m maxd Hn Hm). lia.
    - intros H1 H2. apply resolve_otherwise_lemma; [exact H1|].
      intros [m [Hle Hm]]. destruct (Nat.eq_dec m (S maxd)) as [->|Hne]; [exact (HD Hm)|].
      apply H2. exists m. split; [lia|exact Hm].
  Qed.

  (* ---------------------------------------------------------------- Stat / Open *)
  Lemma stat_sound_lemma name maxd t :
    stat peqb get name maxd = ROk t ->
    n_whiteout t = false /\
    exists n h, get name = Some n /\ h <= maxd /\ reaches_target n h t.
  Proof.
    unfold stat. destruct (get name) as [n|] eqn:Eg; [|discriminate].
    destruct (resolve n maxd) as [t'| | |] eqn:Er; try discriminate.
    destruct (n_whiteout t') eqn:Ew; [discriminate|]. intros H. injection H as <-.
    split; [exact Ew|]. destruct (resolve_sound_lemma _ _ _ Er) as [h [H1 [H2 [H3 _]]]].
    exists n, h. repeat split; auto.
  Qed.

  Lemma stat_deleted_lemma name n maxd t :
    get name = Some n -> resolve n maxd = ROk t -> n_whiteout t = true ->
    stat peqb get name maxd = RNotExist.
  Proof. intros Hg Hr Hw. unfold stat. rewrite Hg, Hr, Hw. reflexivity. Qed.

  Lemma open_sound_lemma name maxd t :
    open peqb get name maxd = ROk t ->
    exists n h, get name = Some n /\ h <= maxd /\ reaches_target n h t.
  Proof.
    unfold open. destruct (get name) as [n|] eqn:Eg; [|discriminate]. intros Er.
    destruct (resolve_sound_lemma _ _ _ Er) as [h [H1 [H2 [H3 _]]]].
    exists n, h. repeat split; auto.
  Qed.
  (* ---------------------------------------------------------------- the naive walk *)
  (* [walk] follows the chain without any cycle detection and just counts hops; the resolver
     agrees with its classification *)
  Lemma walk_char n : forall fuel cur hops,
    chain n hops = Some cur ->
    match walk get fuel cur hops with
    | WTarget t h => hops <= h /\ h <= hops + fuel /\ reaches_target n h t
    | WMissing m => hops < m /\ m <= hops + fuel /\ hits_missing n m
    | WLong => exists x, chain n (hops + fuel) = Some x /\ n_symlink x = true
    end.
  Proof.
    induction fuel as [|f IH]; intros cur hops Hc; cbn [walk].
    - destruct (n_symlink cur) eqn:Es; cbn [negb].
      + exists cur. rewrite Nat.add_0_r. auto.
      + repeat split; auto; lia.
    - destruct (n_symlink cur) eqn:Es; cbn [negb].
      2:{ repeat split; auto; lia. }
      destruct (get (n_target cur)) as [nx|] eqn:Eg.
      + assert (Hnx : chain n (S hops) = Some nx) by (rewrite chain_S, Hc, Es; exact Eg).
        specialize (IH nx (S hops) Hnx). destruct (walk get f nx (S hops)).
        * destruct IH as [H1 [H2 H3]]. repeat split; try lia; apply H3.
        * destruct IH as [H1 [H2 H3]]. repeat split; try lia; apply H3.
        * destruct IH as [x Hx]. exists x. replace (hops + S f) with (S hops + f) by lia. exact Hx.
      + split; [lia|]. split; [lia|]. exists cur. cbn [pred]. repeat split; auto.
  Qed.

  Lemma resolve_agrees_with_walk_lemma n maxd :
    get (n_path n) = Some n ->
    match walk get (S maxd) n 0 with
    | WTarget t h => if Nat.leb h maxd then resolve n maxd = ROk t
                     else resolve n maxd = RCycle \/ resolve n maxd = RDepth
    | WMissing m => resolve n maxd = RNotExist
    | WLong => resolve n maxd = RCycle \/ resolve n maxd = RDepth
    end.
  Proof.
    intros Hn. pose proof (walk_char n (S maxd) n 0 eq_refl) as W.
    destruct (walk get (S maxd) n 0) as [t h|m|].
    - destruct W as [_ [Hh Hr]]. destruct (Nat.leb h maxd) eqn:E.
      + apply Nat.leb_le in E. exact (resolve_target_lemma n h t maxd Hn Hr E).
      + apply Nat.leb_gt in E. destruct Hr as [Hc Hs]. apply resolve_otherwise_lemma.
        * intros [h' [t' [Hle [Hc' Hs']]]].
          destruct (chain_before _ _ _ Hc h') as [x [Hx [Hxs _]]]; [lia|]. congruence.
        * intros [m [Hle Hm]]. pose proof (hits_missing_none _ _ Hm) as Hnone.
          rewrite (chain_none_ge _ _ Hnone h) in Hc; [discriminate|lia].
    - destruct W as [_ [Hm1 Hm2]]. apply (resolve_missing_lemma n m maxd Hn Hm2). lia.
    - destruct W as [x [Hx Hxs]]. cbn [plus] in Hx. apply resolve_otherwise_lemma.
      + intros [h' [t' [Hle [Hc' Hs']]]].
        rewrite (chain_after_target _ _ _ Hc' Hs' (S maxd)) in Hx; [discriminate|lia].
      + intros [m [Hle Hm]]. pose proof (hits_missing_none _ _ Hm) as Hnone.
        rewrite (chain_none_ge _ _ Hnone (S maxd) Hle) in Hx. discriminate.
  Qed.
End ResolveProofs.

(* ------------------------------------------------------------------ the boundary, refuted *)
(* A dangling link with max depth 0: the missing entry is found at hop 1 = max+1, i.e. only after the
   hop budget is used up, yet the answer is not-exist rather than a depth error (the lookup comes
   before the depth test). *)
Definition dangling : node nat :=
  {| n_path := 0; n_symlink := true; n_target := 1; n_whiteout := false; n_isdir := false |}.
Definition dangling_get (p : nat) : option (node nat) := if Nat.eqb p 0 then Some dangling else None.

Lemma resolve_strict_refuted_lemma :
  exists (get : nat -> option (node nat)) (n : node nat) (maxd : nat),
    get_consistent get /\ get (n_path n) = Some n /\
    hits_missing get n (S maxd) /\
    resolve Nat.eqb get n maxd = RNotExist /\
    ~ strict_property nat get n maxd (resolve Nat.eqb get n maxd).
Proof.
  exists dangling_get, dangling, 0. split; [|split; [|split; [|split]]].
  - intros p n. unfold dangling_get. destruct (Nat.eqb p 0) eqn:E; [|discriminate].
    apply Nat.eqb_eq in E. intros H. injection H as <-. subst p. reflexivity.
  - reflexivity.
  - exists dangling. cbn. repeat split; auto.
  - reflexivity.
  - intros [_ [_ H3]].
    assert (R : resolve Nat.eqb dangling_get dangling 0 = RNotExist) by reflexivity. rewrite R in H3.
    destruct H3 as [H|H]; try discriminate.
    + intros [h [t [Hle [Hc Hs]]]]. assert (h = 0) by lia. subst h. cbn in Hc. injection Hc as <-. discriminate.
    + intros [m [Hle [s [Hm _]]]]. lia.
Qed.

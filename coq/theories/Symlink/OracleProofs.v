(* C17 - the executable oracle (s_walk / s_expect of Model.v) tied to the declarative chain
   predicates, and through them to the resolver. *)
From Coq Require Import List NArith Bool Arith Lia.
From Scalibr Require Import Symlink.PathSeg Symlink.PathSegProofs Symlink.Model Symlink.Proofs.
Import ListNotations.

Section Oracle.
  Variable t : stable.
  Hypothesis Hwf : stable_wf t.

  Notation get := (sget t).
  Notation chain := (chain get).
  Notation reaches_target := (reaches_target get).
  Notation hits_missing := (hits_missing get).

  Lemma sget_consistent : get_consistent get.
  Proof.
    intros p n. unfold sget. destruct (slookup t p) as [s|]; [|discriminate].
    destruct s; cbn; try discriminate; intros H; injection H as <-; reflexivity.
  Qed.

  Lemma sget_stored p n : get p = Some n -> get (n_path n) = Some n.
  Proof. intros H. rewrite (sget_consistent _ _ H). exact H. Qed.

  (* what a verdict of the oracle means, relative to the chain that starts at n0 *)
  Definition verdict_means (n0 : pnode) (d : nat) (x : expect) : Prop :=
    match x with
    | XTarget q wh => exists h tn, h <= d /\ reaches_target n0 h tn /\ n_path tn = q /\ n_whiteout tn = wh
    | XNotFound => exists m, m <= d /\ hits_missing n0 m
    | XBoundary => hits_missing n0 (S d) \/ exists tn, reaches_target n0 (S d) tn /\ n_whiteout tn = true
    | XError => (forall h tn, reaches_target n0 h tn -> d < h /\ ~ (n_whiteout tn = true /\ h = S d)) /\
                (forall m, hits_missing n0 m -> S d < m)
    | XNotOk => exists m, hits_missing n0 m      (* a link that must not be followed counts as absent *)
    end.

  Lemma s_walk_means n0 d : forall fuel key cur hops c,
    slookup t key = Some cur -> snode_node key cur = Some c -> chain n0 hops = Some c ->
    d + 2 <= fuel + hops ->
    verdict_means n0 d (s_walk t fuel cur hops d).
  Proof.
    induction fuel as [|f IH]; intros key cur hops c Hl Hn Hc Hf.
    - (* out of fuel: only possible beyond the budget *)
      destruct cur as [q wh|tg|]; cbn [s_walk]; [| |discriminate].
      + cbn in Hn. injection Hn as <-.
        assert (Hr : reaches_target n0 hops (plain key false wh)) by (split; [exact Hc|reflexivity]).
        destruct (Nat.leb hops d) eqn:E1; [apply Nat.leb_le in E1; lia|].
        destruct (wh && Nat.eqb hops (S d)) eqn:E2.
        * apply andb_true_iff in E2 as [-> E2]. apply Nat.eqb_eq in E2. lia.
        * cbn [verdict_means]. split.
          -- intros h tn Hr'. destruct (reaches_unique _ get _ _ _ _ _ Hr' Hr) as [-> ->]. split; [lia|]. lia.
          -- intros m Hm. exfalso. exact (target_missing_exclusive _ get _ _ _ _ Hr Hm).
      + cbn in Hn. injection Hn as <-. cbn [verdict_means]. split.
        * intros h tn Hr. pose proof (symlink_before_target _ get _ _ _ _ _ Hc eq_refl Hr). split; lia.
        * intros m Hm. pose proof (symlink_before_missing _ get _ _ _ _ Hc Hm). lia.
    - destruct cur as [q wh|tg|]; cbn [s_walk]; [| |discriminate].
      + cbn in Hn. injection Hn as <-. pose proof (Hwf _ _ _ Hl) as ->.
        assert (Hr : reaches_target n0 hops (plain key false wh)) by (split; [exact Hc|reflexivity]).
        destruct (Nat.leb hops d) eqn:E1.
        * apply Nat.leb_le in E1. exists hops, (plain key false wh). repeat split; auto; apply Hr.
        * apply Nat.leb_gt in E1. destruct (wh && Nat.eqb hops (S d)) eqn:E2.
          -- apply andb_true_iff in E2 as [-> E2]. apply Nat.eqb_eq in E2. subst hops.
             right. exists (plain key false true). split; [exact Hr|reflexivity].
          -- cbn [verdict_means]. split.
             ++ intros h tn Hr'. destruct (reaches_unique _ get _ _ _ _ _ Hr' Hr) as [-> ->]. split; [lia|].
                intros [Hw Hh]. cbn in Hw. subst wh. rewrite (proj2 (Nat.eqb_eq _ _) Hh) in E2. discriminate.
             ++ intros m Hm. exfalso. exact (target_missing_exclusive _ get _ _ _ _ Hr Hm).
      + cbn in Hn. injection Hn as <-.
        set (c := {| n_path := key; n_symlink := true; n_target := tg; n_whiteout := false; n_isdir := false |}) in *.
        destruct (slookup t tg) as [nx|] eqn:El.
        * destruct (snode_node tg nx) as [c'|] eqn:En.
          -- assert (Hc' : chain n0 (S hops) = Some c').
             { rewrite chain_S, Hc. cbn [n_symlink n_target c]. unfold sget. rewrite El. exact En. }
             apply (IH tg nx (S hops) c' El En Hc'). lia.
          -- (* the next entry is a link that must not be followed *)
             destruct nx; cbn in En; try discriminate.
             assert (Hm : hits_missing n0 (S hops)).
             { exists c. cbn [pred]. repeat split; auto. unfold sget. cbn [n_target c]. rewrite El. reflexivity. }
             destruct f; cbn [s_walk verdict_means]; exists (S hops); exact Hm.
        * assert (Hm : hits_missing n0 (S hops)).
          { exists c. cbn [pred]. repeat split; auto. unfold sget. cbn [n_target c]. rewrite El. reflexivity. }
          destruct (Nat.leb (S hops) d) eqn:E1.
          -- apply Nat.leb_le in E1. exists (S hops). split; [exact E1|exact Hm].
          -- apply Nat.leb_gt in E1. destruct (Nat.eqb hops d) eqn:E2.
             ++ apply Nat.eqb_eq in E2. subst hops. left. exact Hm.
             ++ apply Nat.eqb_neq in E2. cbn [verdict_means]. split.
                ** intros h tn Hr. exfalso. exact (target_missing_exclusive _ get _ _ _ _ Hr Hm).
                ** intros m Hm'. rewrite (missing_unique _ get _ _ _ Hm' Hm). lia.
  Qed.

  (* the oracle's verdict, read declaratively *)
  Lemma s_expect_means_lemma p d :
    match s_expect t p d with
    | XNotFound => get p = None \/ exists n, get p = Some n /\ verdict_means n d XNotFound
    | XNotOk => slookup t p = Some SEscape \/ exists n, get p = Some n /\ verdict_means n d XNotOk
    | x => exists n, get p = Some n /\ verdict_means n d x
    end.
  Proof.
    unfold s_expect. destruct (slookup t p) as [cur|] eqn:El.
    2:{ left. unfold sget. rewrite El. reflexivity. }
    destruct (snode_node p cur) as [n|] eqn:En.
    - assert (Hg : get p = Some n) by (unfold sget; rewrite El; exact En).
      pose proof (s_walk_means n d (d + 2) p cur 0 n El En eq_refl) as W.
      assert (Hle : d + 2 <= d + 2 + 0) by lia. specialize (W Hle).
      destruct (s_walk t (d + 2) cur 0 d); eauto.
    - destruct cur; cbn in En; try discriminate. rewrite (Nat.add_comm d 2). cbn [Nat.add s_walk]. left. reflexivity.
  Qed.

  (* ------------------------------------------------------------------ the oracle accepts the resolver *)
  Lemma outcome_eqb_refl o : outcome_eqb o o = true.
  Proof.
    destruct o as [nm wh|c]; cbn.
    - rewrite seg_eqb_refl. destruct wh; reflexivity.
    - destruct c; reflexivity.
  Qed.

  Notation resolve := (resolve path_eqb get).

  Lemma resolve_of_verdict n d x :
    get (n_path n) = Some n -> verdict_means n d x ->
    match x with
    | XTarget q wh => exists tn, resolve n d = ROk tn /\ n_path tn = q /\ n_whiteout tn = wh
    | XNotFound => resolve n d = RNotExist
    | XBoundary => resolve n d = RNotExist \/ resolve n d = RCycle \/ resolve n d = RDepth
    | XError => resolve n d = RCycle \/ resolve n d = RDepth
    | XNotOk => forall tn, resolve n d <> ROk tn
    end.
  Proof.
    intros Hn V. destruct x as [q wh| | | |]; cbn [verdict_means] in V.
    - destruct V as [h [tn [Hh [Hr [Hq Hw]]]]]. exists tn. split; [|auto].
      exact (resolve_target_lemma _ _ path_eqb_spec get sget_consistent n h tn d Hn Hr Hh).
    - destruct V as [m [Hm Hmiss]].
      apply (resolve_missing_lemma _ _ path_eqb_spec get sget_consistent n m d Hn Hmiss). lia.
    - apply resolve_otherwise_lemma; [exact path_eqb_spec| |]; destruct V as [V1 V2].
      + intros [h [tn [Hh Hr]]]. destruct (V1 h tn Hr). lia.
      + intros [m [Hm Hmiss]]. pose proof (V2 m Hmiss). lia.
    - destruct V as [m Hmiss]. intros tn Hr.
      destruct (resolve_sound_lemma _ _ path_eqb_spec get n d tn Hr) as [h [_ [Hc [Hs _]]]].
      exact (target_missing_exclusive _ get _ _ _ _ (conj Hc Hs) Hmiss).
    - destruct V as [Hmiss|[tn [Hr Hw]]].
      + left. exact (resolve_missing_lemma _ _ path_eqb_spec get sget_consistent n (S d) d Hn Hmiss (le_n _)).
      + right. apply resolve_otherwise_lemma; [exact path_eqb_spec| |].
        * intros [h [tn' [Hh Hr']]]. destruct (reaches_unique _ get _ _ _ _ _ Hr' Hr). lia.
        * intros [m [_ Hmiss]]. exact (target_missing_exclusive _ get _ _ _ _ Hr Hmiss).
  Qed.

  Lemma oracle_accepts_resolver_lemma p d :
    stat_meets false (s_expect t p d) (obs_of (stat path_eqb get p d)) = true /\
    open_meets false (s_expect t p d) (obs_of (open path_eqb get p d)) = true.
  Proof.
    pose proof (s_expect_means_lemma p d) as M. unfold stat, open.
    destruct (s_expect t p d) as [q wh| | | |] eqn:Ex.
    - destruct M as [n [Hg V]]. rewrite Hg.
      destruct (resolve_of_verdict n d _ (sget_stored _ _ Hg) V) as [tn [Hr [Hq Hw]]]. rewrite Hr.
      subst q wh. cbn [stat_meets open_meets obs_of].
      destruct (n_whiteout tn) eqn:Ew; cbn [obs_of err_of]; rewrite ?Ew, ?outcome_eqb_refl; split; reflexivity.
    - destruct M as [Hnone|[n [Hg V]]].
      + rewrite Hnone. split; reflexivity.
      + rewrite Hg. rewrite (resolve_of_verdict n d _ (sget_stored _ _ Hg) V). split; reflexivity.
    - destruct M as [n [Hg V]]. rewrite Hg.
      destruct (resolve_of_verdict n d _ (sget_stored _ _ Hg) V) as [-> | ->]; split; reflexivity.
    - destruct M as [Hesc|[n [Hg V]]].
      + unfold sget. rewrite Hesc. cbn. split; reflexivity.
      + rewrite Hg. pose proof (resolve_of_verdict n d _ (sget_stored _ _ Hg) V) as R. cbn beta iota in R.
        destruct (Model.resolve path_eqb get n d) as [tn| | |]; [exfalso; exact (R tn eq_refl)| | |]; split; reflexivity.
    - destruct M as [n [Hg V]]. rewrite Hg.
      destruct (resolve_of_verdict n d _ (sget_stored _ _ Hg) V) as [-> | [-> | ->]]; split; reflexivity.
  Qed.
End Oracle.

(* the oracle tables built from harness images are well formed *)
Lemma slookup_in (t : stable) p s : slookup t p = Some s -> In (p, s) t.
Proof.
  induction t as [|[q m] t IH]; cbn [slookup]; [discriminate|].
  destruct (path_eqb q p) eqn:E.
  - apply path_eqb_spec in E. subst q. intros H. injection H as ->. left. reflexivity.
  - intros H. right. exact (IH H).
Qed.

Lemma s_table_wf_lemma img i : stable_wf (s_table img i).
Proof.
  intros p q wh H. apply slookup_in in H. unfold s_table in H. apply in_flat_map in H as [p' [_ H]].
  destruct (s_get img i p') as [s|] eqn:Eg; [|contradiction]. destruct H as [H|[]]. injection H as -> ->.
  unfold s_get in Eg. destruct (find _ (i_entries img)) as [e|] eqn:Ef.
  - apply find_some in Ef as [_ Hp]. apply path_eqb_spec in Hp. unfold s_entry in Eg.
    destruct (deleted_by e i); [injection Eg as <- _; exact Hp|].
    destruct (Nat.leb (e_layer e) i); [|discriminate].
    destruct (e_kind e) as [| |abs tg]; try (injection Eg as <- _; exact Hp).
    destruct (insideb _); discriminate.
  - destruct p as [|s0 p0]; [injection Eg as <- _; reflexivity|].
    destruct (existsb _ _); [injection Eg as <- _; reflexivity|discriminate].
Qed.

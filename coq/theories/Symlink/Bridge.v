(* C17 <-> C04 bridge.  Image/Fill.v (C04) carries its own copy of the tortoise-and-hare loop
   (Fill.resolve / lookup_resolved / stat), which C04's harness compares with the implementation on
   every chain layer of its general images.  Here that copy is proved equal to Symlink/Model.v's
   resolver run on the lookup function of the same trie, so every C17 theorem (resolve_sound,
   resolve_target_distinct, resolve_otherwise, ...) speaks about the views Fill.load builds, for every
   image and every chain layer.
   What is NOT proved here: that Symlink/Model.v's restricted view construction (raw_get on wf_image)
   equals Fill.load on those shapes; both are compared with the implementation on every run instead. *)
From Coq Require Import List NArith ZArith Bool Arith Lia.
From Scalibr Require Import Image.PathTree Image.Fill Symlink.PathSeg Symlink.General Symlink.Proofs.
Import ListNotations.
Close Scope Z_scope.

Definition lres_to (r : lres) : SM.result str :=
  match r with
  | LNotExist => SM.RNotExist
  | LCycle => SM.RCycle
  | LDepth => SM.RDepth
  | LNode n => SM.ROk (gnode n)
  end.

Lemma str_eqb_spec a b : str_eqb a b = true <-> a = b.
Proof.
  revert b. induction a as [|x a IH]; intros [|y b]; cbn; try (split; [discriminate|discriminate]); [tauto|].
  rewrite andb_true_iff, N.eqb_eq, IH. split; [intros [-> ->]; reflexivity|intros H; injection H; auto].
Qed.

(* k = number of iterations that pass the `depth < 0` test *)
Lemma fill_resolve_eq (t : ftrie) : forall (k fuel : nat) (depth : Z) (node slow : fnode) (adv : bool),
  k = Z.to_nat (depth + 1)%Z -> (-1 <= depth)%Z -> k < fuel ->
  lres_to (Fill.resolve t fuel depth node slow adv) = SM.loop str_eqb (fget t) k (gnode node) (gnode slow) adv.
Proof.
  induction k as [|k IH]; intros fuel depth node slow adv Hk Hd Hf; destruct fuel as [|f]; try lia.
  - assert (depth = -1)%Z by lia. subst depth. reflexivity.
  - cbn [Fill.resolve SM.loop]. assert (Hge : (0 <= depth)%Z) by lia.
    destruct (Z.ltb_spec depth 0); [lia|].
    cbn [gnode SM.n_symlink SM.n_target SM.n_path].
    destruct (fn_is_symlink node); cbn [negb]; [|reflexivity].
    unfold fget at 1. destruct (get_file_node t (fn_target node)) as [node'|]; [|reflexivity].
    cbn [gnode SM.n_path]. destruct (str_eqb (fn_vpath node') (fn_vpath slow)); [reflexivity|].
    destruct adv; cbn [negb].
    + unfold fget at 1. destruct (get_file_node t (fn_target slow)) as [slow'|]; [|reflexivity].
      apply IH; lia.
    + apply IH; lia.
Qed.

Lemma lookup_resolved_eq (t : ftrie) (depth : Z) (p : str) :
  (0 <= depth)%Z ->
  lres_to (lookup_resolved t depth p) = SM.open str_eqb (fget t) p (Z.to_nat depth).
Proof.
  intros Hd. unfold lookup_resolved, SM.open, fget. destruct (get_file_node t p) as [n|]; [|reflexivity].
  unfold SM.resolve. apply fill_resolve_eq; lia.
Qed.

(* C04's Stat on a chain-layer trie, read through the C17 theorems: an Ok answer names the first
   non-symlink of the chain that starts at the queried path, reached within the hop budget, and that
   node is not a whiteout -- for every trie, hence for every view Fill.load builds of every image. *)
Theorem resolve_on_loaded_view_sound : forall cfg im st i (t : ftrie) (depth : Z) (p : str) name mode size,
  load cfg im = Some st -> nth_error (st_chains st) i = Some t ->
  (0 <= depth)%Z ->
  Fill.stat t depth p = SOk name mode size ->
  exists n0 h tn,
    fget t p = Some n0 /\ h <= Z.to_nat depth /\
    SM.reaches_target (fget t) n0 h (gnode tn) /\
    fn_wh tn = false /\ name = name_of (fn_vpath tn) /\ mode = fn_mode tn /\ size = fn_size tn /\
    (forall k, k < h -> exists m, SM.chain (fget t) n0 k = Some m /\ SM.n_symlink m = true).
Proof.
  intros cfg im st i t depth p name mode size _ _ Hd Hs.
  unfold Fill.stat in Hs. pose proof (lookup_resolved_eq t depth p Hd) as E.
  destruct (lookup_resolved t depth p) as [| | |tn]; try discriminate.
  destruct (fn_wh tn) eqn:Ew; [discriminate|]. injection Hs as <- <- <-.
  cbn [lres_to] in E. symmetry in E. unfold SM.open in E.
  destruct (fget t p) as [n0|] eqn:Eg; [|discriminate].
  destruct (resolve_sound_lemma str str_eqb str_eqb_spec (fget t) n0 (Z.to_nat depth) (gnode tn) E) as [h [Hh [Hc [Hsym Hprev]]]].
  exists n0, h, tn. repeat split; auto.
Qed.
Print Assumptions resolve_on_loaded_view_sound.

(* ... and the error classes of C04's lookup are the honest ones of C17 *)
Theorem errors_on_loaded_view_sound : forall (t : ftrie) (depth : Z) (p : str) n0,
  (0 <= depth)%Z -> fget t p = Some n0 ->
  match lookup_resolved t depth p with
  | LNotExist => exists m, m <= S (Z.to_nat depth) /\ SM.hits_missing (fget t) n0 m
  | LCycle => exists a b x y, a < b /\ b <= S (Z.to_nat depth) /\ SM.chain (fget t) n0 a = Some x /\
                              SM.chain (fget t) n0 b = Some y /\ SM.n_path x = SM.n_path y
  | LDepth => forall k, k <= Z.to_nat depth -> exists m, SM.chain (fget t) n0 k = Some m /\ SM.n_symlink m = true
  | LNode _ => True
  end.
Proof.
  intros t depth p n0 Hd Hg. pose proof (lookup_resolved_eq t depth p Hd) as E.
  unfold SM.open in E. rewrite Hg in E. symmetry in E.
  destruct (lookup_resolved t depth p); cbn [lres_to] in E; [| | |exact I].
  - exact (resolve_notexist_sound_lemma str str_eqb str_eqb_spec (fget t) n0 _ E).
  - exact (resolve_cycle_sound_lemma str str_eqb str_eqb_spec (fget t) n0 _ E).
  - exact (resolve_depth_sound_lemma str str_eqb str_eqb_spec (fget t) n0 _ E).
Qed.
Print Assumptions errors_on_loaded_view_sound.

(* completeness over C04's views: when the chain from the queried path reaches a non-symlink within
   the budget and its nodes are pairwise different (one node per path), C04's lookup returns it *)
Theorem target_on_loaded_view : forall (t : ftrie) (depth : Z) (p : str) n0 h (tn : fnode),
  (0 <= depth)%Z -> fget t p = Some n0 ->
  SM.reaches_target (fget t) n0 h (gnode tn) -> h <= Z.to_nat depth ->
  (forall a b x y, a < b -> b <= h -> SM.chain (fget t) n0 a = Some x -> SM.chain (fget t) n0 b = Some y ->
                   SM.n_path x <> SM.n_path y) ->
  lres_to (lookup_resolved t depth p) = SM.ROk (gnode tn).
Proof.
  intros t depth p n0 h tn Hd Hg Hr Hh Hdist. rewrite (lookup_resolved_eq t depth p Hd).
  unfold SM.open. rewrite Hg.
  exact (resolve_target_distinct_lemma str str_eqb str_eqb_spec (fget t) n0 h (gnode tn) _ Hr Hh Hdist).
Qed.
Print Assumptions target_on_loaded_view.

(* Lemmas about the path algebra of PathSeg.v, in particular symlink.TargetOutsideRoot. *)
From Coq Require Import List NArith Bool Arith Lia.
From Scalibr Require Import Symlink.PathSeg.
Import ListNotations.

Lemma seg_eqb_spec a b : seg_eqb a b = true <-> a = b.
Proof.
  revert b. induction a as [|x a IH]; intros [|y b]; cbn; try (split; [discriminate|discriminate]); [tauto|].
  rewrite andb_true_iff, N.eqb_eq, IH. split; [intros [-> ->]; reflexivity|intros H; injection H; auto].
Qed.

Lemma seg_eqb_refl a : seg_eqb a a = true.
Proof. apply seg_eqb_spec. reflexivity. Qed.

Lemma path_eqb_spec p q : path_eqb p q = true <-> p = q.
Proof.
  revert q. induction p as [|x p IH]; intros [|y q]; cbn; try (split; [discriminate|discriminate]); [tauto|].
  rewrite andb_true_iff, seg_eqb_spec, IH. split; [intros [-> ->]; reflexivity|intros H; injection H; auto].
Qed.

Lemma existsb_seg_In m l : existsb (seg_eqb m) l = true <-> In m l.
Proof.
  rewrite existsb_exists. split.
  - intros [x [Hx E]]. apply seg_eqb_spec in E. subst. exact Hx.
  - intros H. exists m. split; [exact H|apply seg_eqb_refl].
Qed.

Lemma skip_not_dotdot s : is_skip s = true -> is_dotdot s = false.
Proof. destruct s as [|a [|b [|c s]]]; cbn; try discriminate; try reflexivity. intros _. rewrite andb_false_r. reflexivity. Qed.

Lemma skip_not_name s : is_skip s = true -> is_name s = false.
Proof. unfold is_name. intros ->. reflexivity. Qed.

Lemma dotdot_not_name s : is_dotdot s = true -> is_name s = false.
Proof. unfold is_name. intros ->. apply andb_false_r. Qed.

Lemma name_cases s : is_skip s = false -> is_dotdot s = false -> is_name s = true.
Proof. unfold is_name. intros -> ->. reflexivity. Qed.

Lemma name_not_skip s : is_name s = true -> is_skip s = false /\ is_dotdot s = false.
Proof. unfold is_name. rewrite andb_true_iff, !negb_true_iff. tauto. Qed.

(* counting *)
Lemma ndd_cons s l : ndd (s :: l) = (if is_dotdot s then 1 else 0) + ndd l.
Proof. unfold ndd. cbn [filter]. destruct (is_dotdot s); reflexivity. Qed.
Lemma nnames_cons s l : nnames (s :: l) = (if is_name s then 1 else 0) + nnames l.
Proof. unfold nnames. cbn [filter]. destruct (is_name s); reflexivity. Qed.

(* "never above the root", with a start depth c *)
Definition inside_from (c : nat) (l : list seg) : Prop :=
  forall k, ndd (firstn k l) <= nnames (firstn k l) + c.

Lemma inside_from_0 l : inside l <-> inside_from 0 l.
Proof. unfold inside, inside_from. split; intros H k; specialize (H k); lia. Qed.

Lemma inside_from_nil c : inside_from c [].
Proof. intros k. rewrite firstn_nil. cbn. lia. Qed.

Lemma inside_from_skip c s l : is_skip s = true -> (inside_from c (s :: l) <-> inside_from c l).
Proof.
  intros Hs. pose proof (skip_not_dotdot _ Hs) as Hd. pose proof (skip_not_name _ Hs) as Hn.
  split; intros H k.
  - specialize (H (S k)). cbn [firstn] in H. rewrite ndd_cons, nnames_cons, Hd, Hn in H. exact H.
  - destruct k as [|k]; [cbn; lia|]. cbn [firstn]. rewrite ndd_cons, nnames_cons, Hd, Hn. apply H.
Qed.

Lemma inside_from_name c s l : is_name s = true -> (inside_from c (s :: l) <-> inside_from (S c) l).
Proof.
  intros Hn. destruct (name_not_skip _ Hn) as [_ Hd].
  split; intros H k.
  - specialize (H (S k)). cbn [firstn] in H. rewrite ndd_cons, nnames_cons, Hd, Hn in H. lia.
  - destruct k as [|k]; [cbn; lia|]. cbn [firstn]. rewrite ndd_cons, nnames_cons, Hd, Hn. specialize (H k). lia.
Qed.

Lemma inside_from_dotdot_0 s l : is_dotdot s = true -> ~ inside_from 0 (s :: l).
Proof.
  intros Hd H. specialize (H 1). cbn [firstn] in H.
  rewrite ndd_cons, nnames_cons, Hd, (dotdot_not_name _ Hd) in H. cbn in H. lia.
Qed.

Lemma inside_from_dotdot_S c s l : is_dotdot s = true -> (inside_from (S c) (s :: l) <-> inside_from c l).
Proof.
  intros Hd. pose proof (dotdot_not_name _ Hd) as Hn.
  split; intros H k.
  - specialize (H (S k)). cbn [firstn] in H. rewrite ndd_cons, nnames_cons, Hd, Hn in H. lia.
  - destruct k as [|k]; [cbn; lia|]. cbn [firstn]. rewrite ndd_cons, nnames_cons, Hd, Hn. specialize (H k). lia.
Qed.

(* ---------------------------------------------------------------- clean_rel *)
Lemma clean_rel_aux_elems x : forall l stack ups,
  In x (snd (clean_rel_aux stack ups l)) -> In x stack \/ In x l.
Proof.
  induction l as [|s r IH]; intros stack ups H; cbn [clean_rel_aux] in H.
  - cbn [snd] in H. left. apply in_rev. exact H.
  - destruct (is_skip s).
    + destruct (IH _ _ H); [left|right; right]; assumption.
    + destruct (is_dotdot s).
      * destruct stack as [|y st].
        -- destruct (IH _ _ H) as [[]|]; right; right; assumption.
        -- destruct (IH _ _ H); [left; right|right; right]; assumption.
      * destruct (IH _ _ H) as [[<-|]|]; [right; left; reflexivity|left; assumption|right; right; assumption].
Qed.

(* the marker sits at the bottom of the stack, [st] above it *)
Lemma marker_survives_iff m : forall l st,
  ~ In m l ->
  (In m (snd (clean_rel_aux (st ++ [m]) 0 l)) <-> inside_from (length st) l).
Proof.
  induction l as [|s r IH]; intros st Hm; cbn [clean_rel_aux].
  - cbn [snd]. split; [intros _; apply inside_from_nil|]. intros _. apply in_rev. rewrite rev_involutive.
    apply in_or_app. right. left. reflexivity.
  - assert (Hr : ~ In m r) by (intros H; apply Hm; right; exact H).
    destruct (is_skip s) eqn:Es.
    + rewrite (inside_from_skip _ _ _ Es). apply IH. exact Hr.
    + destruct (is_dotdot s) eqn:Ed.
      * destruct st as [|y st]; cbn [app length].
        -- split.
           ++ intros H. destruct (clean_rel_aux_elems _ _ _ _ H) as [[]|H']. contradiction.
           ++ intros H. exfalso. exact (inside_from_dotdot_0 _ _ Ed H).
        -- rewrite (inside_from_dotdot_S _ _ _ Ed). apply IH. exact Hr.
      * rewrite (inside_from_name _ _ _ (name_cases _ Es Ed)).
        change (s :: st ++ [m]) with ((s :: st) ++ [m]). apply (IH (s :: st)). exact Hr.
Qed.

Lemma target_outside_root_iff_lemma m vpath abs t :
  fresh m (lexical_input vpath abs t) ->
  (target_outside_root m vpath abs t = false <-> inside (lexical_input vpath abs t)).
Proof.
  intros [Hname Hfresh]. destruct (name_not_skip _ Hname) as [Hs Hd].
  unfold target_outside_root, clean_rel. cbn [clean_rel_aux]. rewrite Hs, Hd.
  rewrite negb_false_iff, existsb_seg_In, inside_from_0.
  exact (marker_survives_iff m _ [] Hfresh).
Qed.

(* ---------------------------------------------------------------- clean_rooted *)
Lemma clean_no_clamp : forall l st ups,
  inside_from (length st) l -> clean_rel_aux st ups l = (ups, clean_rooted_aux st l).
Proof.
  induction l as [|s r IH]; intros st ups H; cbn [clean_rel_aux clean_rooted_aux]; [reflexivity|].
  destruct (is_skip s) eqn:Es.
  - apply IH. apply (inside_from_skip _ _ _ Es). exact H.
  - destruct (is_dotdot s) eqn:Ed.
    + destruct st as [|y st]; [exfalso; exact (inside_from_dotdot_0 _ _ Ed H)|].
      cbn [tl]. apply IH. apply (inside_from_dotdot_S _ _ _ Ed). exact H.
    + apply (IH (s :: st)). apply (inside_from_name _ _ _ (name_cases _ Es Ed)). exact H.
Qed.

Lemma inside_clean_lemma l : inside l -> clean_rel l = (0, clean_rooted l).
Proof. intros H. apply clean_no_clamp. apply inside_from_0. exact H. Qed.

Lemma forallb_tl {A} (f : A -> bool) l : forallb f l = true -> forallb f (tl l) = true.
Proof. destruct l; cbn; [auto|]. rewrite andb_true_iff. tauto. Qed.

Lemma forallb_rev {A} (f : A -> bool) l : forallb f l = true -> forallb f (rev l) = true.
Proof. rewrite !forallb_forall. intros H x Hx. apply H. apply in_rev. exact Hx. Qed.

Lemma clean_rooted_aux_canonical : forall l st,
  forallb is_name st = true -> canonical (clean_rooted_aux st l) = true.
Proof.
  induction l as [|s r IH]; intros st H; cbn [clean_rooted_aux].
  - apply forallb_rev. exact H.
  - destruct (is_skip s) eqn:Es; [apply IH; exact H|].
    destruct (is_dotdot s) eqn:Ed; [apply IH, forallb_tl; exact H|].
    apply IH. cbn [forallb]. rewrite (name_cases _ Es Ed). exact H.
Qed.

Lemma clean_rooted_canonical_lemma l : canonical (clean_rooted l) = true.
Proof. apply clean_rooted_aux_canonical. reflexivity. Qed.

(* on a canonical path clean_rooted is the identity *)
Lemma clean_rooted_aux_names : forall l st,
  forallb is_name l = true -> clean_rooted_aux st l = rev st ++ l.
Proof.
  induction l as [|s r IH]; intros st H; cbn [clean_rooted_aux].
  - rewrite app_nil_r. reflexivity.
  - cbn [forallb] in H. apply andb_true_iff in H as [Hs Hr].
    destruct (name_not_skip _ Hs) as [-> ->]. rewrite (IH _ Hr). cbn [rev]. rewrite <- app_assoc. reflexivity.
Qed.

Lemma clean_rooted_id_lemma l : canonical l = true -> clean_rooted l = l.
Proof. intros H. unfold clean_rooted. rewrite (clean_rooted_aux_names _ [] H). reflexivity. Qed.

(* ---------------------------------------------------------------- insideb *)
Lemma insideb_spec l : insideb l = true <-> inside l.
Proof.
  unfold insideb, inside. rewrite forallb_forall. split.
  - intros H k. destruct (le_lt_dec k (length l)) as [Hk|Hk].
    + apply Nat.leb_le. apply H. apply in_seq. lia.
    + rewrite (firstn_all2 l) by lia. rewrite <- (firstn_all l) at 1 2.
      apply Nat.leb_le. apply H. apply in_seq. lia.
  - intros H k _. apply Nat.leb_le. apply H.
Qed.

Lemma freshb_spec m l : freshb m l = true <-> fresh m l.
Proof.
  unfold freshb, fresh. rewrite andb_true_iff, negb_true_iff.
  split; intros [H1 H2]; (split; [exact H1|]).
  - intros Hin. apply existsb_seg_In in Hin. congruence.
  - destruct (existsb (seg_eqb m) l) eqn:E; [|reflexivity]. apply existsb_seg_In in E. contradiction.
Qed.

(* C17 - Symlink resolution in image views terminates with the right answer.
   Only statements here; proofs are in Proofs.v, PathSegProofs.v, LoadProofs.v.
   Termination is by construction: [resolve] is structural recursion on maxdepth+1 iterations.
   All theorems quantify over every lookup function [get] (every graph, of any size) and every
   maximum depth. *)
From Coq Require Import List NArith Bool Arith.
From Scalibr Require Import Symlink.PathSeg Symlink.PathSegProofs Symlink.Model Symlink.Proofs Symlink.LoadProofs Symlink.OracleProofs.
Import ListNotations.

Section Statements.
  Variable path : Type.
  Variable peqb : path -> path -> bool.
  Hypothesis peqb_spec : forall a b, peqb a b = true <-> a = b.
  Variable get : path -> option (node path).

  (* never the wrong file: an answer is the first non-symlink of the chain, within the budget *)
  Theorem resolve_sound : forall n maxd t,
    resolve peqb get n maxd = ROk t ->
    exists h, h <= maxd /\ chain get n h = Some t /\ n_symlink t = false /\
              forall k, k < h -> exists m, chain get n k = Some m /\ n_symlink m = true.
  Proof. exact (resolve_sound_lemma path peqb peqb_spec get). Qed.

  (* the first non-symlink target is returned when it is at most maxd hops away *)
  Theorem resolve_target : forall n h t maxd,
    get_consistent get -> get (n_path n) = Some n ->
    reaches_target get n h t -> h <= maxd -> resolve peqb get n maxd = ROk t.
  Proof. intros n h t maxd Hc. exact (resolve_target_lemma path peqb peqb_spec get Hc n h t maxd). Qed.

  (* same, with the no-false-cycle premise spelled out instead of "one node per path" *)
  Theorem resolve_target_distinct : forall n h t maxd,
    reaches_target get n h t -> h <= maxd ->
    (forall a b x y, a < b -> b <= h -> chain get n a = Some x -> chain get n b = Some y -> n_path x <> n_path y) ->
    resolve peqb get n maxd = ROk t.
  Proof. exact (resolve_target_distinct_lemma path peqb peqb_spec get). Qed.

  (* not-found when hop m <= maxd+1 finds nothing.  NB the bound is maxd+1, not maxd: the lookup
     precedes the depth test (see resolve_strict_refuted) *)
  Theorem resolve_missing : forall n m maxd,
    get_consistent get -> get (n_path n) = Some n ->
    hits_missing get n m -> m <= S maxd -> resolve peqb get n maxd = RNotExist.
  Proof. intros n m maxd Hc. exact (resolve_missing_lemma path peqb peqb_spec get Hc n m maxd). Qed.

  (* everything else is a cycle or depth error *)
  Theorem resolve_otherwise : forall n maxd,
    ~ (exists h t, h <= maxd /\ reaches_target get n h t) ->
    ~ (exists m, m <= S maxd /\ hits_missing get n m) ->
    resolve peqb get n maxd = RCycle \/ resolve peqb get n maxd = RDepth.
  Proof. exact (resolve_otherwise_lemma path peqb peqb_spec get). Qed.

  (* the error classes are honest *)
  Theorem resolve_notexist_sound : forall n maxd,
    resolve peqb get n maxd = RNotExist -> exists m, m <= S maxd /\ hits_missing get n m.
  Proof. exact (resolve_notexist_sound_lemma path peqb peqb_spec get). Qed.

  Theorem resolve_cycle_sound : forall n maxd,
    resolve peqb get n maxd = RCycle ->
    exists a b x y, a < b /\ b <= S maxd /\ chain get n a = Some x /\ chain get n b = Some y /\ n_path x = n_path y.
  Proof. exact (resolve_cycle_sound_lemma path peqb peqb_spec get). Qed.

  Theorem resolve_depth_sound : forall n maxd,
    resolve peqb get n maxd = RDepth ->
    forall k, k <= maxd -> exists m, chain get n k = Some m /\ n_symlink m = true.
  Proof. exact (resolve_depth_sound_lemma path peqb peqb_spec get). Qed.

  (* the property sentence as written holds whenever the chain does not end in a missing entry
     exactly at hop maxd+1 *)
  Theorem resolve_strict_on_D : forall n maxd,
    get_consistent get -> get (n_path n) = Some n ->
    ~ hits_missing get n (S maxd) ->
    strict_property path get n maxd (resolve peqb get n maxd).
  Proof. intros n maxd Hc. exact (resolve_strict_on_D_lemma path peqb peqb_spec get Hc n maxd). Qed.

  (* Stat / Open *)
  Theorem stat_sound : forall name maxd t,
    stat peqb get name maxd = ROk t ->
    n_whiteout t = false /\ exists n h, get name = Some n /\ h <= maxd /\ reaches_target get n h t.
  Proof. exact (stat_sound_lemma path peqb peqb_spec get). Qed.

  Theorem stat_deleted : forall name n maxd t,
    get name = Some n -> resolve peqb get n maxd = ROk t -> n_whiteout t = true ->
    stat peqb get name maxd = RNotExist.
  Proof. exact (stat_deleted_lemma path peqb get). Qed.

  Theorem open_sound : forall name maxd t,
    open peqb get name maxd = ROk t ->
    exists n h, get name = Some n /\ h <= maxd /\ reaches_target get n h t.
  Proof. exact (open_sound_lemma path peqb peqb_spec get). Qed.
  (* the resolver agrees with the naive hop-counting walk (no cycle detection) on every input;
     the boundary is visible here: a missing entry found by the walk within maxd+1 hops is not-exist *)
  Theorem resolve_agrees_with_walk : forall n maxd,
    get_consistent get -> get (n_path n) = Some n ->
    match walk get (S maxd) n 0 with
    | WTarget t h => if Nat.leb h maxd then resolve peqb get n maxd = ROk t
                     else resolve peqb get n maxd = RCycle \/ resolve peqb get n maxd = RDepth
    | WMissing m => resolve peqb get n maxd = RNotExist
    | WLong => resolve peqb get n maxd = RCycle \/ resolve peqb get n maxd = RDepth
    end.
  Proof. intros n maxd Hc. exact (resolve_agrees_with_walk_lemma path peqb peqb_spec get Hc n maxd). Qed.
  (* bounded work: the instrumented loop returns the same result, follows at most maxd+1 hops (exactly
     maxd+1 when it gives up with a depth error, exactly the length of the chain when it answers) and
     never makes more slow-pointer lookups than hops *)
  Theorem resolve_fuel_exact : forall n maxd,
    let '(r, hops, slow_lookups) := resolve_i peqb get n maxd in
    r = resolve peqb get n maxd /\ hops <= S maxd /\ slow_lookups <= hops /\
    (r = RDepth -> hops = S maxd) /\
    (forall t, r = ROk t -> chain get n hops = Some t /\ hops <= maxd).
  Proof. exact (resolve_fuel_exact_lemma path peqb peqb_spec get). Qed.
End Statements.

Print Assumptions resolve_sound.
Print Assumptions resolve_target.
Print Assumptions resolve_target_distinct.
Print Assumptions resolve_missing.
Print Assumptions resolve_otherwise.
Print Assumptions resolve_notexist_sound.
Print Assumptions resolve_cycle_sound.
Print Assumptions resolve_depth_sound.
Print Assumptions resolve_strict_on_D.
Print Assumptions stat_sound.
Print Assumptions stat_deleted.
Print Assumptions open_sound.
Print Assumptions resolve_agrees_with_walk.
Print Assumptions resolve_fuel_exact.

(* the sentence as written fails at the boundary: a dangling link under max depth 0 needs hop 1 =
   max+1 to find out that the target is missing, and answers not-exist instead of a depth error *)
Theorem resolve_strict_refuted :
  exists (get : nat -> option (node nat)) (n : node nat) (maxd : nat),
    get_consistent get /\ get (n_path n) = Some n /\
    hits_missing get n (S maxd) /\
    resolve Nat.eqb get n maxd = RNotExist /\
    ~ strict_property nat get n maxd (resolve Nat.eqb get n maxd).
Proof. exact resolve_strict_refuted_lemma. Qed.
Print Assumptions resolve_strict_refuted.

(* ---- the executable oracle of the harness ---- *)
(* What a verdict of s_expect means, in the declarative vocabulary of the theorems above, for the
   lookup function [sget t] induced by the oracle's own table t (any table whose plain entries sit
   under their own path; s_table_wf: every table the harness images produce is such). *)
Theorem s_expect_means : forall t p d,
  stable_wf t ->
  match s_expect t p d with
  | XNotFound => sget t p = None \/ exists n, sget t p = Some n /\ verdict_means t n d XNotFound
  | XNotOk => slookup t p = Some SEscape \/ exists n, sget t p = Some n /\ verdict_means t n d XNotOk
  | x => exists n, sget t p = Some n /\ verdict_means t n d x
  end.
Proof. intros t p d H. exact (s_expect_means_lemma t H p d). Qed.
Print Assumptions s_expect_means.

(* ... and the oracle accepts what the (proved) resolver answers on that lookup function: the oracle
   and the theorems speak about the same specification *)
Theorem oracle_accepts_resolver : forall t p d,
  stable_wf t ->
  stat_meets false (s_expect t p d) (obs_of (stat path_eqb (sget t) p d)) = true /\
  open_meets false (s_expect t p d) (obs_of (open path_eqb (sget t) p d)) = true.
Proof. intros t p d H. exact (oracle_accepts_resolver_lemma t H p d). Qed.
Print Assumptions oracle_accepts_resolver.

Theorem s_table_wf : forall img i, stable_wf (s_table img i).
Proof. exact s_table_wf_lemma. Qed.
Print Assumptions s_table_wf.

(* ---- load time: symlink.TargetOutsideRoot and handleSymlink ---- *)
(* with a fresh marker, TargetOutsideRoot is false exactly when the target never climbs above the
   root, read lexically from the link's directory (relative) or from the root (absolute) *)
Theorem target_outside_root_sound : forall m vpath abs t,
  fresh m (lexical_input vpath abs t) ->
  (target_outside_root m vpath abs t = false <-> inside (lexical_input vpath abs t)).
Proof. exact target_outside_root_iff_lemma. Qed.
Print Assumptions target_outside_root_sound.

(* ... and then Clean had nothing to clamp: the stored target is the lexical target *)
Theorem inside_clean : forall l, inside l -> clean_rel l = (0, clean_rooted l).
Proof. exact inside_clean_lemma. Qed.
Print Assumptions inside_clean.

(* every symlink node of every view comes from an entry whose target stays inside the root *)
Theorem loaded_links_inside : forall img kept i p n,
  markers_fresh img ->
  view_get img kept i p = Some n -> n_symlink n = true ->
  exists e abs t, In e (i_entries img) /\ e_kind e = KLink abs t /\ e_name e = p /\
                  inside (lexical_input (e_name e) abs t) /\
                  n_target n = link_target (e_name e) abs t /\
                  canonical (n_target n) = true /\
                  clean_rel (lexical_input (e_name e) abs t) = (0, n_target n).
Proof. exact loaded_links_inside_lemma. Qed.
Print Assumptions loaded_links_inside.

Theorem outside_link_absent : forall img e abs t,
  markers_fresh img -> In e (i_entries img) -> e_kind e = KLink abs t ->
  ~ inside (lexical_input (e_name e) abs t) -> live_node img e = None.
Proof. exact outside_link_absent_lemma. Qed.
Print Assumptions outside_link_absent.

(* every view has one node per path, so resolve_target / resolve_missing apply to it *)
Theorem view_get_consistent : forall img kept i, get_consistent (view_get img kept i).
Proof. exact view_get_consistent_lemma. Qed.
Print Assumptions view_get_consistent.

(* handleSymlink stores the lexical target, for absolute and relative Linknames alike (since the fix
   of abs-target-not-cleaned; no domain restriction left) *)
Theorem stored_target_is_lexical_target : forall name abs t,
  link_target name abs t = clean_rooted (lexical_input name abs t).
Proof. reflexivity. Qed.
Print Assumptions stored_target_is_lexical_target.

(* regression witness of the former finding: /b -> /d/../a resolves to /a *)
Definition ex_abs_img : image :=
  mkI [ mkE [sA] KFile 0 None;
        mkE [sD; sC] KFile 0 None;
        mkE [sB] (KLink true [sD; dotdot; sA]) 0 None ] 1 std_marker.

Example abs_target_cleaned_example :
  wf_image ex_abs_img = true /\
  s_expect (s_table ex_abs_img 0) [sB] 6 = XTarget [sA] false /\
  m_stat ex_abs_img [] 0 [sB] 6 = OOk sA false.
Proof. vm_compute. repeat split. Qed.

(* ---- non-vacuity ---- *)
(* /a -> b, /b -> d/c, /d/c -> ../k/m, /k/m file: three hops *)
Definition ex_chain : image :=
  mkI [ mkE [sA] (KLink false [sB]) 0 None;
        mkE [sB] (KLink true [sD; sC]) 0 None;
        mkE [sD; sC] (KLink false [dotdot; sK; sM]) 0 None;
        mkE [sK; sM] KFile 0 None ] 1 std_marker.

Example chain_example :
  wf_image ex_chain = true /\
  map (m_stat ex_chain [] 0 [sA]) [0; 1; 2; 3; 4] =
  [OErr CDepth; OErr CDepth; OErr CDepth; OOk sM false; OOk sM false].
Proof. vm_compute. split; reflexivity. Qed.

(* the premises of resolve_target are met by that chain: the start node reaches /k/m after 3 hops *)
Example chain_reaches_example :
  exists n t, view_get ex_chain [] 0 [sA] = Some n /\
              reaches_target (view_get ex_chain [] 0) n 3 t /\ n_path t = [sK; sM].
Proof. eexists. eexists. vm_compute. repeat split. Qed.

(* cycle entered after one hop, and a dangling chain *)
Definition ex_cycle : image :=
  mkI [ mkE [sA] (KLink true [sB]) 0 None;
        mkE [sB] (KLink true [sD; sC]) 0 None;
        mkE [sD; sC] (KLink false [dotdot; sB]) 0 None;
        mkE [sD; sE] (KLink false [sK]) 0 None ] 1 std_marker.

Example cycle_example :
  map (m_stat ex_cycle [] 0 [sA]) [0; 1; 2; 3; 6] =
  [OErr CDepth; OErr CDepth; OErr CCycle; OErr CCycle; OErr CCycle] /\
  map (m_stat ex_cycle [] 0 [sD; sE]) [0; 1] = [OErr CNotExist; OErr CNotExist].
Proof. vm_compute. split; reflexivity. Qed.

(* TargetOutsideRoot on escaping and non-escaping spellings *)
Example outside_root_example :
  map (fun t => target_outside_root std_marker [sD; sC] false t)
      [[dotdot; sA]; [dotdot; dotdot; sA]; [sK; dotdot; dotdot; dotdot; sA]; [dotdot]; [[46%N]; sE]] =
  [false; true; true; false; false] /\
  target_outside_root std_marker [sA] true [dotdot; sA] = true.
Proof. vm_compute. split; reflexivity. Qed.

(* C17 - symlink resolution in image views.
   Model of artifact/image/layerscanning/image/layer.go (FS.resolveSymlink, Open, Stat, ReadDir),
   of image.go handleSymlink (target normalisation, outside-root rejection) and of the part of the
   view construction that the symlink harness exercises.  Definitions only (no proofs). *)
From Coq Require Import List NArith Bool Arith.
From Scalibr Require Import Symlink.PathSeg.
Import ListNotations.

(* ------------------------------------------------------------------ nodes, results *)
(* fileNode, projected: virtualPath, mode&ModeSymlink, targetPath, isWhiteout, IsDir *)
Record node {path : Type} := mkNode {
  n_path : path; n_symlink : bool; n_target : path; n_whiteout : bool; n_isdir : bool }.
Arguments node : clear implicits.

Inductive result {path : Type} :=
| ROk (n : node path)
| RNotExist          (* fs.ErrNotExist *)
| RCycle             (* ErrSymlinkCycle *)
| RDepth.            (* ErrSymlinkDepthExceeded *)
Arguments result : clear implicits.

Section Resolve.
  Variable path : Type.
  Variable peqb : path -> path -> bool.
  (* chainfs.getFileNode: the trie holds one *fileNode per path *)
  Variable get : path -> option (node path).

  (* FS.resolveSymlink.  [fuel] = depth+1 = number of loop iterations that pass the `depth < 0`
     test; one iteration, in the Go order:
        if depth < 0 -> ErrSymlinkDepthExceeded            (fuel = 0)
        if !isSymlink -> return node
        node, err = getFileNode(node.targetPath); err -> return err
        if node == slowNode -> ErrSymlinkCycle             (pointer equality = same path: one node per path)
        if advanceSlowNode { slowNode, err = getFileNode(slowNode.targetPath); err -> return err }
        advanceSlowNode = !advanceSlowNode; depth--                                             *)
  Fixpoint loop (fuel : nat) (fast slow : node path) (adv : bool) : result path :=
    match fuel with
    | 0 => RDepth
    | S f =>
        if negb (n_symlink fast) then ROk fast
        else match get (n_target fast) with
             | None => RNotExist
             | Some nx =>
                 if peqb (n_path nx) (n_path slow) then RCycle
                 else if adv then
                        match get (n_target slow) with
                        | None => RNotExist
                        | Some s' => loop f nx s' false
                        end
                      else loop f nx slow true
             end
    end.

  (* resolveSymlink(node, maxSymlinkDepth); Config validation guarantees maxSymlinkDepth >= 0 *)
  Definition resolve (n : node path) (maxdepth : nat) : result path := loop (S maxdepth) n n false.

  (* the same loop, instrumented: second component = number of getFileNode calls made for the fast
     pointer (= hops followed), third = calls made for the slow pointer *)
  Fixpoint loop_i (fuel : nat) (fast slow : node path) (adv : bool) : result path * nat * nat :=
    match fuel with
    | 0 => (RDepth, 0, 0)
    | S f =>
        if negb (n_symlink fast) then (ROk fast, 0, 0)
        else match get (n_target fast) with
             | None => (RNotExist, 1, 0)
             | Some nx =>
                 if peqb (n_path nx) (n_path slow) then (RCycle, 1, 0)
                 else if adv then
                        match get (n_target slow) with
                        | None => (RNotExist, 1, 1)
                        | Some s' => let '(r, a, b) := loop_i f nx s' false in (r, S a, S b)
                        end
                      else let '(r, a, b) := loop_i f nx slow true in (r, S a, b)
             end
    end.
  Definition resolve_i (n : node path) (maxdepth : nat) : result path * nat * nat := loop_i (S maxdepth) n n false.

  (* FS.Stat: getFileNode, resolveSymlink, resolvedNode.Stat() (whiteout -> ErrNotExist) *)
  Definition stat (name : path) (maxdepth : nat) : result path :=
    match get name with
    | None => RNotExist
    | Some n =>
        match resolve n maxdepth with
        | ROk t => if n_whiteout t then RNotExist else ROk t
        | e => e
        end
    end.

  (* FS.Open returns the resolved node itself (also a whiteout node) *)
  Definition open (name : path) (maxdepth : nat) : result path :=
    match get name with
    | None => RNotExist
    | Some n => resolve n maxdepth
    end.

  (* ---------------------------------------------------------------- declarative side *)
  (* the node reached after k hops; None once the chain has ended (target missing, or the previous
     node was not a symlink) *)
  Fixpoint chain (n : node path) (k : nat) : option (node path) :=
    match k with
    | 0 => Some n
    | S k' =>
        match chain n k' with
        | Some m => if n_symlink m then get (n_target m) else None
        | None => None
        end
    end.

  (* after exactly h hops the chain is at the non-symlink t (all earlier nodes are symlinks by the
     definition of chain) *)
  Definition reaches_target (n : node path) (h : nat) (t : node path) : Prop :=
    chain n h = Some t /\ n_symlink t = false.

  (* hop number m (m >= 1) finds nothing *)
  Definition hits_missing (n : node path) (m : nat) : Prop :=
    exists s, m <> 0 /\ chain n (pred m) = Some s /\ n_symlink s = true /\ get (n_target s) = None.

  (* one node per path, and the start node is the one stored under its path *)
  Definition get_consistent : Prop := forall p n, get p = Some n -> n_path n = p.

  (* naive walk used by the executable oracle: no cycle detection, just count hops *)
  Inductive walked :=
  | WTarget (t : node path) (hops : nat)
  | WMissing (hop : nat)
  | WLong.

  Fixpoint walk (fuel : nat) (n : node path) (hops : nat) : walked :=
    if negb (n_symlink n) then WTarget n hops
    else match fuel with
         | 0 => WLong
         | S f => match get (n_target n) with
                  | None => WMissing (S hops)
                  | Some nx => walk f nx (S hops)
                  end
         end.
End Resolve.

Arguments loop {path}.
Arguments resolve {path}.
Arguments loop_i {path}.
Arguments resolve_i {path}.
Arguments stat {path}.
Arguments open {path}.
Arguments chain {path}.
Arguments reaches_target {path}.
Arguments hits_missing {path}.
Arguments get_consistent {path}.
Arguments walk {path}.
Arguments WTarget {path}.
Arguments WMissing {path}.
Arguments WLong {path}.

(* ------------------------------------------------------------------ images of the harness *)
(* The harness builds images from named entries with pairwise different names of one or two
   segments, none a prefix of another; parents are implicit.  An entry is created in layer e_layer
   and, optionally, removed by a whiteout file in a later layer e_del. *)
Inductive kind :=
| KFile
| KDir
| KLink (abs : bool) (t : list seg).   (* tar Linkname: absolute?, segments *)

Record entry := mkE { e_name : list seg; e_kind : kind; e_layer : nat; e_del : option nat }.
Record image := mkI { i_entries : list entry; i_layers : nat; i_marker : seg }.

Definition pnode := node (list seg).

Definition plain (p : list seg) (isdir wh : bool) : pnode :=
  {| n_path := p; n_symlink := false; n_target := []; n_whiteout := wh; n_isdir := isdir |}.

(* image.go handleSymlink: an absolute Linkname becomes path.Clean(target), a relative one
   path.Clean(path.Join(path.Dir(virtualPath), target)) -- both are rooted cleans of the lexical input. *)
Definition link_target (name : list seg) (abs : bool) (t : list seg) : list seg :=
  clean_rooted (lexical_input name abs t).

Definition live_node (img : image) (e : entry) : option pnode :=
  match e_kind e with
  | KFile => Some (plain (e_name e) false false)
  | KDir => Some (plain (e_name e) true false)
  | KLink abs t =>
      if target_outside_root (i_marker img) (e_name e) abs t then None   (* ErrSymlinkPointsOutsideRoot: entry skipped *)
      else Some {| n_path := e_name e; n_symlink := true; n_target := link_target (e_name e) abs t;
                   n_whiteout := false; n_isdir := false |}
  end.

Definition deleted_by (e : entry) (i : nat) : bool :=
  match e_del e with Some j => Nat.leb j i | None => false end.

(* the node stored under the entry's own path in chain layer i, before the final pruning *)
Definition entry_node (img : image) (i : nat) (e : entry) : option pnode :=
  if deleted_by e i then Some (plain (e_name e) false true)     (* whiteout node *)
  else if Nat.leb (e_layer e) i then live_node img e
  else None.

Fixpoint proper_prefix (p q : list seg) : bool :=
  match p, q with
  | [], _ :: _ => true
  | x :: p', y :: q' => seg_eqb x y && proper_prefix p' q'
  | _, _ => false
  end.

(* a tar entry processed in a layer <= i back-fills its parents (populateEmptyDirectoryNodes);
   skipped entries (outside-root links) do not *)
Definition contributes (img : image) (i : nat) (e : entry) : bool :=
  deleted_by e i ||
  (Nat.leb (e_layer e) i && match live_node img e with Some _ => true | None => false end).

Definition implicit_dir (img : image) (i : nat) (p : list seg) : bool :=
  match p with
  | [] => true                                      (* addRootDirectoryToChainLayers *)
  | _ => existsb (fun e => proper_prefix p (e_name e) && contributes img i e) (i_entries img)
  end.

Definition raw_get (img : image) (i : nat) (p : list seg) : option pnode :=
  match find (fun e => path_eqb (e_name e) p) (i_entries img) with
  | Some e => entry_node img i e
  | None => if implicit_dir img i p then Some (plain p true false) else None
  end.

Fixpoint dedup (l : list (list seg)) : list (list seg) :=
  match l with
  | [] => []
  | x :: r => if existsb (path_eqb x) r then dedup r else x :: dedup r
  end.

(* every path that can hold a node: the root, the entry names and their parents *)
Definition candidate_paths (img : image) : list (list seg) :=
  dedup ([] :: flat_map (fun e => [e_name e; dir (e_name e)]) (i_entries img)).

Definition table := list (list seg * pnode).
Fixpoint tlookup (t : table) (p : list seg) : option pnode :=
  match t with
  | [] => None
  | (q, n) :: r => if path_eqb q p then Some n else tlookup r p
  end.

Definition raw_table (img : image) (i : nat) : table :=
  flat_map (fun p => match raw_get img i p with Some n => [(p, n)] | None => [] end) (candidate_paths img).

(* removeUnnecessaryFileNodes on the final chain layer with the default requirer (everything that
   can be stat-ed is required): whiteout nodes are removed unless a required symlink reaches them
   within symlinkDepth hops (`for range symlinkDepth { linkedNode = Get(linkedNode.targetPath) ... }`) *)
Fixpoint marks (t : table) (k : nat) (s : pnode) (p : list seg) : bool :=
  match k with
  | 0 => false
  | S k' =>
      match tlookup t (n_target s) with
      | None => false
      | Some nx => path_eqb (n_path nx) p || (n_symlink nx && marks t k' nx p)
      end
  end.

Definition marked_by (t : table) (d : nat) (starts : table) (p : list seg) : bool :=
  existsb (fun qs => n_symlink (snd qs) && marks t d (snd qs) p) starts.

(* The walk over the trie visits nodes in Go map order and returns early on nodes that are already
   marked, so which whiteouts survive depends on that order (e.g. /s1 -> /s2 -> /w, depth 1).  The
   set of surviving whiteout paths is therefore an observed input [kept] of the final view; the
   model only bounds it: everything marked from a symlink that nobody points to is kept, and nothing
   is kept that no symlink marks. *)
Definition in_paths (l : list (list seg)) (p : list seg) : bool := existsb (path_eqb p) l.

Definition is_final (img : image) (i : nat) : bool := Nat.eqb (S i) (i_layers img).

Definition prune (final : bool) (kept : list (list seg)) (t : table) : table :=
  if final then filter (fun pn => negb (n_whiteout (snd pn)) || in_paths kept (fst pn)) t else t.

Definition view_table (img : image) (kept : list (list seg)) (i : nat) : table :=
  prune (is_final img i) kept (raw_table img i).

Definition whiteout_paths (t : table) : list (list seg) :=
  flat_map (fun pn => if n_whiteout (snd pn) then [fst pn] else []) t.

(* t = unpruned table of the final chain layer *)
Definition kept_upper (t : table) (d : nat) : list (list seg) :=
  filter (marked_by t d t) (whiteout_paths t).

Definition kept_lower (t : table) (d : nat) : list (list seg) :=
  let pointed p := existsb (fun qs => n_symlink (snd qs) && path_eqb (n_target (snd qs)) p) t in
  filter (marked_by t d (filter (fun qs => negb (pointed (fst qs))) t)) (whiteout_paths t).

Definition kept_ok (t : table) (d : nat) (kept : list (list seg)) : bool :=
  forallb (in_paths kept) (kept_lower t d) && forallb (in_paths (kept_upper t d)) kept.

Definition raw_tables (img : image) : list table := map (raw_table img) (seq 0 (i_layers img)).

(* chain layer i of the image; [kept] as above *)
Definition view_get (img : image) (kept : list (list seg)) (i : nat) (p : list seg) : option pnode :=
  tlookup (view_table img kept i) p.

(* GetChildren + the whiteout filter of ReadDir: names of the visible nodes directly below p *)
Definition children_of (t : table) (p : list seg) : list seg :=
  flat_map (fun pn => match fst pn with
                      | [] => []
                      | q => if path_eqb (dir q) p && negb (n_whiteout (snd pn)) then [base q] else []
                      end) t.

(* ------------------------------------------------------------------ observations *)
Inductive eclass := CNotExist | CCycle | CDepth | COther.
Inductive outcome := OOk (nm : seg) (wh : bool) | OErr (c : eclass).
Inductive rdoutcome := RDOk (l : list seg) | RDErr (c : eclass).

Definition eclass_eqb (a b : eclass) : bool :=
  match a, b with
  | CNotExist, CNotExist | CCycle, CCycle | CDepth, CDepth | COther, COther => true
  | _, _ => false
  end.

Definition outcome_eqb (a b : outcome) : bool :=
  match a, b with
  | OOk x w, OOk y v => seg_eqb x y && Bool.eqb w v
  | OErr c, OErr d => eclass_eqb c d
  | _, _ => false
  end.

Definition incl_b (a b : list seg) : bool := forallb (fun x => existsb (seg_eqb x) b) a.
Definition rd_eqb (a b : rdoutcome) : bool :=
  match a, b with
  | RDOk x, RDOk y => Nat.eqb (length x) (length y) && incl_b x y && incl_b y x
  | RDErr c, RDErr d => eclass_eqb c d
  | _, _ => false
  end.

Definition err_of (r : result (list seg)) : eclass :=
  match r with RNotExist => CNotExist | RCycle => CCycle | RDepth => CDepth | ROk _ => COther end.

(* what the harness sees of a Stat / Open result: the base name of the file info (Open: of the
   handle, plus whether Stat on the handle says not-exist) *)
Definition obs_of (r : result (list seg)) : outcome :=
  match r with
  | ROk t => OOk (base (n_path t)) (n_whiteout t)
  | e => OErr (err_of e)
  end.

Definition t_stat (t : table) (p : list seg) (d : nat) : outcome := obs_of (stat path_eqb (tlookup t) p d).
Definition t_open (t : table) (p : list seg) (d : nat) : outcome := obs_of (open path_eqb (tlookup t) p d).
(* FS.ReadDir: resolve, then the children of the resolved node's path (no whiteout test on the node itself) *)
Definition t_readdir (t : table) (p : list seg) (d : nat) : rdoutcome :=
  match open path_eqb (tlookup t) p d with
  | ROk r => RDOk (children_of t (n_path r))
  | e => RDErr (err_of e)
  end.

Definition m_stat (img : image) (kept : list (list seg)) (i : nat) (p : list seg) (d : nat) : outcome :=
  t_stat (view_table img kept i) p d.
Definition m_open (img : image) (kept : list (list seg)) (i : nat) (p : list seg) (d : nat) : outcome :=
  t_open (view_table img kept i) p d.
Definition m_readdir (img : image) (kept : list (list seg)) (i : nat) (p : list seg) (d : nat) : rdoutcome :=
  t_readdir (view_table img kept i) p d.

(* ------------------------------------------------------------------ executable oracle *)
(* The oracle uses neither resolve nor target_outside_root nor the stored targets: it walks the
   chain of *intended* targets (lexically cleaned, also for absolute links) naively and classifies by
   hop count.  A link whose intended target leaves the root lexically must never be followed.
   Whether a deleted entry is still a (whiteout) node or already pruned does not matter to it. *)
Inductive snode :=
| SPlain (p : list seg) (wh : bool)
| SLink (t : list seg)
| SEscape.

Definition s_entry (i : nat) (e : entry) : option snode :=
  if deleted_by e i then Some (SPlain (e_name e) true)
  else if Nat.leb (e_layer e) i then
    match e_kind e with
    | KLink abs t =>
        if insideb (lexical_input (e_name e) abs t)
        then Some (SLink (clean_rooted (lexical_input (e_name e) abs t)))
        else Some SEscape
    | _ => Some (SPlain (e_name e) false)
    end
  else None.

Definition s_contributes (i : nat) (e : entry) : bool :=
  deleted_by e i ||
  (Nat.leb (e_layer e) i &&
   match e_kind e with KLink abs t => insideb (lexical_input (e_name e) abs t) | _ => true end).

Definition s_get (img : image) (i : nat) (p : list seg) : option snode :=
  match find (fun e => path_eqb (e_name e) p) (i_entries img) with
  | Some e => s_entry i e
  | None =>
      match p with
      | [] => Some (SPlain [] false)
      | _ => if existsb (fun e => proper_prefix p (e_name e) && s_contributes i e) (i_entries img)
             then Some (SPlain p false) else None
      end
  end.

Definition stable := list (list seg * snode).
Fixpoint slookup (t : stable) (p : list seg) : option snode :=
  match t with
  | [] => None
  | (q, n) :: r => if path_eqb q p then Some n else slookup r p
  end.
Definition s_table (img : image) (i : nat) : stable :=
  flat_map (fun p => match s_get img i p with Some n => [(p, n)] | None => [] end) (candidate_paths img).

(* the oracle's view as a lookup function of the kind the theorems quantify over: a link that must
   not be followed is absent *)
Definition snode_node (p : list seg) (s : snode) : option pnode :=
  match s with
  | SPlain _ wh => Some (plain p false wh)
  | SLink tg => Some {| n_path := p; n_symlink := true; n_target := tg; n_whiteout := false; n_isdir := false |}
  | SEscape => None
  end.
Definition sget (t : stable) (p : list seg) : option pnode :=
  match slookup t p with Some s => snode_node p s | None => None end.
(* plain entries are stored under their own path *)
Definition stable_wf (t : stable) : Prop := forall p q wh, slookup t p = Some (SPlain q wh) -> q = p.

Inductive expect :=
| XTarget (p : list seg) (wh : bool)   (* first non-symlink, within the hop budget *)
| XNotFound                            (* missing entry reached within the hop budget *)
| XError                               (* cycle or depth error *)
| XNotOk                               (* chain runs into a link that must not be followed: any error *)
| XBoundary.                           (* missing/deleted entry exactly at hop max+1: see resolve_strict_refuted *)

(* hops = number of hops made so far; budget = max depth *)
Fixpoint s_walk (t : stable) (fuel : nat) (cur : snode) (hops budget : nat) : expect :=
  match cur with
  | SPlain p wh => if Nat.leb hops budget then XTarget p wh
                   else if wh && Nat.eqb hops (S budget) then XBoundary   (* deleted entry: pruned or not *)
                   else XError
  | SEscape => XNotOk
  | SLink tg =>
      match fuel with
      | 0 => XError
      | S f =>
          match slookup t tg with
          | None => if Nat.leb (S hops) budget then XNotFound
                    else if Nat.eqb hops budget then XBoundary else XError
          | Some nx => s_walk t f nx (S hops) budget
          end
      end
  end.

Definition s_expect (t : stable) (p : list seg) (d : nat) : expect :=
  match slookup t p with
  | None => XNotFound
  | Some n => s_walk t (d + 2) n 0 d
  end.

Definition is_err (o : outcome) : bool := match o with OErr _ => true | _ => false end.
Definition is_loop_err (o : outcome) : bool :=
  match o with OErr CCycle | OErr CDepth => true | _ => false end.

(* the property sentence, evaluated on an observed Stat outcome.  strict = the sentence as written
   ("not found ... before the hop budget is exhausted, and a cycle or depth error otherwise");
   non-strict leaves the boundary case (missing entry exactly at hop max+1) open. *)
Definition stat_meets (strict : bool) (x : expect) (o : outcome) : bool :=
  match x with
  | XTarget p wh => if wh then outcome_eqb o (OErr CNotExist) else outcome_eqb o (OOk (base p) false)
  | XNotFound => outcome_eqb o (OErr CNotExist)
  | XError => is_loop_err o
  | XNotOk => is_err o
  | XBoundary => if strict then is_loop_err o else is_err o
  end.

(* ... on an observed Open outcome (the handle of a deleted entry answers not-exist on Stat) *)
Definition open_meets (strict : bool) (x : expect) (o : outcome) : bool :=
  match x with
  | XTarget p wh => outcome_eqb o (OOk (base p) wh) || (wh && outcome_eqb o (OErr CNotExist))
  | XNotFound => outcome_eqb o (OErr CNotExist)
  | XError => is_loop_err o
  | XNotOk => is_err o
  | XBoundary => if strict then is_loop_err o else is_err o
  end.

Definition rd_meets (strict : bool) (x : expect) (o : rdoutcome) : bool :=
  match x, o with
  | XTarget _ false, RDOk _ => true
  | XTarget _ true, _ => true
  | XNotFound, RDErr CNotExist => true
  | XError, RDErr CCycle | XError, RDErr CDepth => true
  | XNotOk, RDErr _ => true
  | XBoundary, RDErr CCycle | XBoundary, RDErr CDepth => true
  | XBoundary, RDErr CNotExist => negb strict
  | _, _ => false
  end.

(* absolute link targets written canonically (input-distribution statistic only since the fix of
   abs-target-not-cleaned: handleSymlink now cleans them like relative ones) *)
Definition abs_canonical (img : image) : bool :=
  forallb (fun e => match e_kind e with KLink true t => canonical t | _ => true end) (i_entries img).

(* well-formed harness image: the restricted view model above is only claimed for these *)
Fixpoint pairwise {A} (f : A -> A -> bool) (l : list A) : bool :=
  match l with [] => true | x :: r => forallb (f x) r && pairwise f r end.

Definition wh_prefix (s : seg) : bool :=
  match s with 46%N :: 119%N :: 104%N :: 46%N :: _ => true | _ => false end.

Definition wf_entry (img : image) (e : entry) : bool :=
  match e_name e with [_] | [_; _] => true | _ => false end &&
  forallb (fun s => is_name s && negb (wh_prefix s)) (e_name e) &&
  Nat.ltb (e_layer e) (i_layers img) &&
  match e_del e with Some j => Nat.ltb (e_layer e) j && Nat.ltb j (i_layers img) | None => true end &&
  match e_kind e with
  | KLink abs t => freshb (i_marker img) (lexical_input (e_name e) abs t) &&
                   negb (match t with [] => negb abs | _ => false end)     (* empty Linkname aborts the load *)
  | _ => true
  end.

Definition wf_image (img : image) : bool :=
  forallb (wf_entry img) (i_entries img) &&
  pairwise (fun a b => negb (path_eqb (e_name a) (e_name b)) &&
                       negb (proper_prefix (e_name a) (e_name b)) &&
                       negb (proper_prefix (e_name b) (e_name a))) (i_entries img).

(* ------------------------------------------------------------------ cases *)
Record qobs := mkQ { q_view : nat; q_name : list seg; q_stat : outcome; q_open : outcome; q_rd : rdoutcome }.
Record scase := mkC { c_img : image; c_depth : nat; c_kept : list (list seg); c_obs : list qobs }.

Definition q_model_ok (t : table) (d : nat) (q : qobs) : bool :=
  outcome_eqb (t_stat t (q_name q) d) (q_stat q) &&
  outcome_eqb (t_open t (q_name q) d) (q_open q) &&
  rd_eqb (t_readdir t (q_name q) d) (q_rd q).

(* tabs = one table per chain layer; every observation is checked against the table of its view *)
Definition per_view {T} (tabs : list T) (ok : nat -> T -> qobs -> bool) (c : scase) : bool :=
  forallb (fun vt => forallb (fun q => negb (Nat.eqb (q_view q) (fst vt)) || ok (fst vt) (snd vt) q) (c_obs c))
          (combine (seq 0 (length tabs)) tabs) &&
  forallb (fun q => Nat.ltb (q_view q) (length tabs)) (c_obs c).

(* raw = raw_tables (c_img c), passed in so that it is computed once per image *)
Definition case_obs_ok_with (raw : list table) (c : scase) : bool :=
  let n := i_layers (c_img c) in
  kept_ok (nth (pred n) raw []) (c_depth c) (c_kept c) &&
  per_view raw (fun v t => q_model_ok (prune (Nat.eqb (S v) n) (c_kept c) t) (c_depth c)) c.

Definition case_obs_ok (c : scase) : bool := case_obs_ok_with (raw_tables (c_img c)) c.

Definition case_model_ok (c : scase) : bool := wf_image (c_img c) && case_obs_ok c.

Definition q_spec_ok (strict : bool) (t : stable) (d : nat) (q : qobs) : bool :=
  let x := s_expect t (q_name q) d in
  stat_meets strict x (q_stat q) && open_meets strict x (q_open q) && rd_meets strict x (q_rd q).

Definition s_tables (img : image) : list stable := map (s_table img) (seq 0 (i_layers img)).

Definition case_spec_with (strict : bool) (st : list stable) (c : scase) : bool :=
  per_view st (fun _ t => q_spec_ok strict t (c_depth c)) c.

(* the property as written, on everything *)
Definition case_spec_strict_ok (c : scase) : bool := case_spec_with true (s_tables (c_img c)) c.

(* the property on the domain D: boundary hop excluded *)
Definition case_spec_ok (c : scase) : bool := case_spec_with false (s_tables (c_img c)) c.

(* number of observations that fall on the boundary excluded from the oracle (known finding) *)
Definition case_boundary_count_with (st : list stable) (c : scase) : nat :=
  fold_right (fun vt a =>
    length (filter (fun q => Nat.eqb (q_view q) (fst vt) &&
                             match s_expect (snd vt) (q_name q) (c_depth c) with XBoundary => true | _ => false end)
                   (c_obs c)) + a) 0 (combine (seq 0 (length st)) st).
Definition case_boundary_count (c : scase) : nat := case_boundary_count_with (s_tables (c_img c)) c.

Fixpoint bad_indices {A} (f : A -> bool) (l : list A) (i : nat) : list nat :=
  match l with
  | [] => []
  | x :: l' => if f x then bad_indices f l' (S i) else i :: bad_indices f l' (S i)
  end.

(* ------------------------------------------------------------------ exhaustive stream, compact form *)
(* universe of the exhaustive enumeration: /a /b /d/c /d/e /k/m *)
Definition sA : seg := [97%N]. Definition sB : seg := [98%N]. Definition sC : seg := [99%N].
Definition sD : seg := [100%N]. Definition sE : seg := [101%N]. Definition sK : seg := [107%N].
Definition sM : seg := [109%N].
Definition universe : list (list seg) := [[sA]; [sB]; [sD; sC]; [sD; sE]; [sK; sM]].
Definition std_marker : seg := [109;97;114;107;101;114;45;117;117;105;100]%N.   (* "marker-uuid" *)

Fixpoint common_prefix_len (a b : list seg) : nat :=
  match a, b with
  | x :: a', y :: b' => if seg_eqb x y then S (common_prefix_len a' b') else 0
  | _, _ => 0
  end.

(* the relative Linkname the harness writes for a link at [from] to the entry [to] *)
Definition rel_target (from to : list seg) : list seg :=
  let d := dir from in
  let c := common_prefix_len d to in
  repeat dotdot (length d - c) ++ skipn c to.

(* digit of entry e in the graph index (base 14):
   0 file, 1 dir, 2 missing, 3 deleted by layer 1, 4+j relative link to entry j, 9+j absolute link *)
Definition entry_of_digit (name : list seg) (k : nat) : list entry :=
  match k with
  | 0 => [mkE name KFile 0 None]
  | 1 => [mkE name KDir 0 None]
  | 2 => []
  | 3 => [mkE name KFile 0 (Some 1)]
  | _ => if Nat.ltb k 9
         then [mkE name (KLink false (rel_target name (nth (k - 4) universe []))) 0 None]
         else [mkE name (KLink true (nth (k - 9) universe [])) 0 None]
  end.

Fixpoint decode_entries (names : list (list seg)) (idx : N) : list entry :=
  match names with
  | [] => []
  | nm :: r => entry_of_digit nm (N.to_nat (N.modulo idx 14)) ++ decode_entries r (N.div idx 14)
  end.

Definition decode_graph (idx : N) : image := mkI (decode_entries universe idx) 2 std_marker.

(* observation digits (hex, least significant first), index ((d*2+v)*5+j)*3+op :
   0..4 ok(entry j), 5 not-exist, 6 cycle, 7 depth, 8 other, 9..13 Open handle of the whiteout node of
   entry j-9; for ReadDir 0 = ok, empty listing *)
Definition outcome_of_digit (k : nat) : outcome :=
  match k with
  | 5 => OErr CNotExist | 6 => OErr CCycle | 7 => OErr CDepth
  | _ => if Nat.ltb k 5 then OOk (base (nth k universe [])) false
         else if Nat.leb 9 k && Nat.ltb k 14 then OOk (base (nth (k - 9) universe [])) true
         else OErr COther
  end.
Definition rd_of_digit (k : nat) : rdoutcome :=
  match k with
  | 0 => RDOk [] | 5 => RDErr CNotExist | 6 => RDErr CCycle | 7 => RDErr CDepth | _ => RDErr COther
  end.

(* x_obs: one block of 30 digits per max depth 0..6 *)
Record xcase := mkX { x_idx : N; x_obs : list (list nat) }.

(* consume the digit stream: per view, per entry three digits *)
Fixpoint take_obs (v : nat) (names : list (list seg)) (ds : list nat) : list qobs * list nat :=
  match names with
  | [] => ([], ds)
  | nm :: r =>
      match ds with
      | a :: b :: c :: ds' =>
          let (qs, rest) := take_obs v r ds' in
          (mkQ v nm (outcome_of_digit a) (outcome_of_digit b) (rd_of_digit c) :: qs, rest)
      | _ => ([], [])
      end
  end.

Fixpoint x_cases (img : image) (d : nat) (blocks : list (list nat)) : list scase :=
  match blocks with
  | [] => []
  | ds :: r =>
      let (q0, ds0) := take_obs 0 universe ds in
      let (q1, _) := take_obs 1 universe ds0 in
      let kept := flat_map (fun q => match q_open q with
                                     | OOk nm true => if seg_eqb nm (base (q_name q)) then [q_name q] else []
                                     | _ => []
                                     end) q1 in
      mkC img d kept (q0 ++ q1) :: x_cases img (S d) r
  end.

Definition x_expand (x : xcase) : list scase := x_cases (decode_graph (x_idx x)) 0 (x_obs x).

Definition xcase_model_ok (x : xcase) : bool :=
  let img := decode_graph (x_idx x) in
  let raw := raw_tables img in
  let cs := x_expand x in
  wf_image img && Nat.eqb (length cs) 7 &&
  forallb (fun c => Nat.eqb (length (c_obs c)) 10 && case_obs_ok_with raw c) cs.

Definition xcase_spec_ok (x : xcase) : bool :=
  let img := decode_graph (x_idx x) in
  let st := s_tables img in
  forallb (case_spec_with false st) (x_expand x).

Definition xcase_boundary_count (x : xcase) : nat :=
  let st := s_tables (decode_graph (x_idx x)) in
  fold_right (fun c a => case_boundary_count_with st c + a) 0 (x_expand x).

(* digit names for the generated files *)
Definition h0 := 0. Definition h1 := 1. Definition h2 := 2. Definition h3 := 3. Definition h4 := 4.
Definition h5 := 5. Definition h6 := 6. Definition h7 := 7. Definition h8 := 8. Definition h9 := 9.
Definition ha := 10. Definition hb := 11. Definition hc := 12. Definition hd := 13. Definition he := 14.
Definition hf := 15.

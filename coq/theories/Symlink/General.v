(* C17 on general images: the view construction is the full model of FromV1Image from
   Image/Fill.v (C04: any names, explicit and implicit directories, whiteouts of directories,
   directories replaced by files or links and back, every chain layer), the resolver is
   Symlink/Model.v's [resolve] -- the one the C17 theorems are about -- run on the lookup function of
   each chain layer's trie, and the oracle is Symlink/Model.v's [s_expect] run on a table derived
   from the OCI overlay spec Image/Overlay.v.  Definitions only. *)
From Coq Require Import List NArith ZArith Bool Arith.
From Scalibr Require Import Image.PathTree Image.Fill Image.Overlay Symlink.PathSeg.
From Scalibr Require Symlink.Model.
Module SM := Scalibr.Symlink.Model.
Import ListNotations.

(* ------------------------------------------------------------------ model side *)
Definition gnode (n : fnode) : SM.node str :=
  {| SM.n_path := fn_vpath n; SM.n_symlink := fn_is_symlink n; SM.n_target := fn_target n;
     SM.n_whiteout := fn_wh n; SM.n_isdir := fn_is_dir n |}.

(* chainfs.getFileNode on chain layer t (normalizePath + pathtree.Get), for names and link targets alike *)
Definition fget (t : ftrie) (p : str) : option (SM.node str) :=
  match get_file_node t p with Some n => Some (gnode n) | None => None end.

Definition gerr (r : SM.result str) : SM.eclass :=
  match r with SM.RNotExist => SM.CNotExist | SM.RCycle => SM.CCycle | SM.RDepth => SM.CDepth | SM.ROk _ => SM.COther end.

Definition gobs (r : SM.result str) : SM.outcome :=
  match r with
  | SM.ROk n => SM.OOk (name_of (SM.n_path n)) (SM.n_whiteout n)
  | e => SM.OErr (gerr e)
  end.

Definition g_stat (t : ftrie) (name : str) (d : nat) : SM.outcome := gobs (SM.stat str_eqb (fget t) name d).
Definition g_open (t : ftrie) (name : str) (d : nat) : SM.outcome := gobs (SM.open str_eqb (fget t) name d).
Definition g_readdir (t : ftrie) (name : str) (d : nat) : SM.rdoutcome :=
  match SM.open str_eqb (fget t) name d with
  | SM.ROk r => match list_dir t (SM.n_path r) with
                | Some l => SM.RDOk (map (fun n => name_of (fn_vpath n)) l)
                | None => SM.RDErr SM.CNotExist
                end
  | e => SM.RDErr (gerr e)
  end.

Definition gcfg (d : nat) : config :=
  {| cfg_max_bytes := 1073741824%Z; cfg_depth := Z.of_nat d; cfg_req := None |}.

(* ------------------------------------------------------------------ oracle side *)
(* Linkname -> (absolute?, segments after the leading slash) as Symlink/PathSeg reads it *)
Definition tsplit (t : str) : bool * list seg :=
  if is_abs t then (true, split_slash (tl t)) else (false, split_slash t).

Definition snode_of (k : list seg) (e : sentry) : SM.snode :=
  match se_kind e with
  | SKSym => let (ab, ts) := tsplit (se_target e) in
             let l := lexical_input k ab ts in
             if insideb l then SM.SLink (clean_rooted l) else SM.SEscape
  | _ => SM.SPlain k false
  end.

(* the overlay view as an oracle table: the root plus every entry of the spec view *)
Definition spec_stable (m : fsmap) : SM.stable :=
  ([], SM.SPlain [] false) :: map (fun kv => (fst kv, snode_of (fst kv) (snd kv))) m.

Definition qsegs (name : str) : list seg :=
  match path_segs (normalize_path name) with Some sg => sg | None => [] end.

(* a deleted entry is absent from the overlay; the implementation may still hold its whiteout node in
   a view that is not the last: Open then returns a handle whose Stat says not-exist *)
Definition open_norm (o : SM.outcome) : SM.outcome :=
  match o with SM.OOk _ true => SM.OErr SM.CNotExist | _ => o end.

(* ------------------------------------------------------------------ domain of the oracle *)
(* Image/Overlay's D_weak with its link-target clause replaced: any non-empty target that does not
   leave the root (absolute targets need not be canonical since fix 42f245c4). *)
Definition entry_ok17 (e : entry) : bool :=
  negb (is_abs (e_name e)) &&
  match norm_name (e_name e) with
  | None | Some [] => false
  | Some sg =>
      let b := last sg [] in
      negb (str_eqb b s_opq) && negb (str_eqb b s_wh) &&
      match e_kind e with
      | KDir => negb (has_prefix s_wh b)
      | KReg => true
      | KSym => negb (has_prefix s_wh b) && negb (str_eqb (e_target e) []) &&
                negb (Fill.target_outside_root sg (e_target e))
      | KHard | KOther => false
      end
  end.

Definition D17 (cfg : config) (im : image) : bool :=
  config_valid cfg &&
  forallb (forallb entry_ok17) (im_layers im) &&
  let dl := map (dmembers (cfg_max_bytes cfg)) (im_layers im) in
  forallb layer_ok dl && cross_ok [] dl && final_prune_safe cfg im.

(* ------------------------------------------------------------------ cases *)
Record gq := mkGQ { g_view : nat; g_name : str; g_st : SM.outcome; g_op : SM.outcome; g_rd : SM.rdoutcome }.
Record gcase := mkG { g_img : image; g_depth : nat; g_obs : list gq }.

Definition gq_model_ok (t : ftrie) (d : nat) (q : gq) : bool :=
  SM.outcome_eqb (g_stat t (g_name q) d) (g_st q) &&
  SM.outcome_eqb (g_open t (g_name q) d) (g_op q) &&
  SM.rd_eqb (g_readdir t (g_name q) d) (g_rd q).

(* premise of resolve_target / resolve_missing ("one node per path"), validated on every case: each
   node of each chain layer's trie is stored under its own virtual path *)
Definition stored_under_own_path (t : ftrie) : bool :=
  forallb (fun pn => str_eqb (match fst pn with [] => [slash] | p => walk_path_string p end) (fn_vpath (snd pn))) (walk t).

(* every observation against the trie of its chain layer; when the pruning of the final view depends
   on Go's map order (Fill.load_order_sensitive) the final view is not compared *)
Definition gcase_model_ok (c : gcase) : bool :=
  let cfg := gcfg (g_depth c) in
  match load cfg (g_img c) with
  | None => false
  | Some st =>
      let ts := st_chains st in
      let n := length ts in
      let skip_final := load_order_sensitive cfg (g_img c) in
      forallb stored_under_own_path ts &&
      forallb (fun vt =>
        if skip_final && Nat.eqb (S (fst vt)) n then true
        else forallb (fun q => negb (Nat.eqb (g_view q) (fst vt)) || gq_model_ok (snd vt) (g_depth c) q) (g_obs c))
        (combine (seq 0 n) ts) &&
      forallb (fun q => Nat.ltb (g_view q) n) (g_obs c)
  end.

Definition gq_spec_ok (t : SM.stable) (d : nat) (q : gq) : bool :=
  let x := SM.s_expect t (qsegs (g_name q)) d in
  SM.stat_meets false x (g_st q) && SM.open_meets false x (open_norm (g_op q)).

Definition gcase_spec_ok (c : gcase) : bool :=
  let cfg := gcfg (g_depth c) in
  negb (D17 cfg (g_img c)) ||
  let n := length (init_slots (g_img c)) in
  forallb (fun v =>
    let t := spec_stable (view_spec cfg (g_img c) v) in
    forallb (fun q => negb (Nat.eqb (g_view q) v) || gq_spec_ok t (g_depth c) q) (g_obs c))
    (seq 0 n).

Definition gcase_in_D (c : gcase) : bool := D17 (gcfg (g_depth c)) (g_img c).
Definition gcase_order_sensitive (c : gcase) : bool := load_order_sensitive (gcfg (g_depth c)) (g_img c).

(* short constructor for generated files *)
Definition mkEn (name : str) (k : ekind) (target : str) : entry :=
  {| e_name := name; e_kind := k; e_mode := 420%Z; e_content := match k with KReg => [120%N] | _ => [] end; e_target := target |}.
Definition mkIm (layers : list (list entry)) : image := {| im_layers := layers; im_hist := map (fun _ => false) layers |}.
(* with an explicit config history (EmptyLayer flags); a count mismatch takes initializeChainLayers' fallback *)
Definition mkImH (layers : list (list entry)) (hist : list bool) : image := {| im_layers := layers; im_hist := hist |}.

(* C17 - the load-time half: what handleSymlink lets into a view. *)
From Coq Require Import List NArith Bool Arith Lia.
From Scalibr Require Import Symlink.PathSeg Symlink.PathSegProofs Symlink.Model.
Import ListNotations.

Lemma tlookup_in t p n : tlookup t p = Some n -> In (p, n) t.
Proof.
  induction t as [|[q m] t IH]; cbn [tlookup]; [discriminate|].
  destruct (path_eqb q p) eqn:E.
  - apply path_eqb_spec in E. subst q. intros H. injection H as ->. left. reflexivity.
  - intros H. right. exact (IH H).
Qed.

Lemma prune_subset final kept t x : In x (prune final kept t) -> In x t.
Proof. unfold prune. destruct final; [|auto]. intros H. apply filter_In in H. tauto. Qed.

Lemma raw_table_in img i p n : In (p, n) (raw_table img i) -> raw_get img i p = Some n.
Proof.
  unfold raw_table. intros H. apply in_flat_map in H as [q [_ Hq]].
  destruct (raw_get img i q) as [m|] eqn:E; [|contradiction].
  destruct Hq as [Hq|[]]. injection Hq as -> ->. exact E.
Qed.

Lemma view_get_raw img kept i p n : view_get img kept i p = Some n -> raw_get img i p = Some n.
Proof.
  unfold view_get, view_table. intros H. apply tlookup_in in H. apply prune_subset in H.
  exact (raw_table_in _ _ _ _ H).
Qed.

Lemma raw_get_cases img i p n :
  raw_get img i p = Some n ->
  n_path n = p /\
  (n_symlink n = false \/
   exists e, In e (i_entries img) /\ e_name e = p /\ live_node img e = Some n).
Proof.
  unfold raw_get. destruct (find _ (i_entries img)) as [e|] eqn:Ef.
  - apply find_some in Ef as [Hin Hp]. apply path_eqb_spec in Hp. unfold entry_node.
    destruct (deleted_by e i).
    + intros H. injection H as <-. cbn. split; [exact Hp|left; reflexivity].
    + destruct (Nat.leb (e_layer e) i); [|discriminate]. intros H. split.
      * unfold live_node in H. destruct (e_kind e); try (injection H as <-; exact Hp).
        destruct (target_outside_root _ _ _ _); [discriminate|]. injection H as <-. exact Hp.
      * right. exists e. auto.
  - destruct (implicit_dir img i p); [|discriminate]. intros H. injection H as <-. cbn. auto.
Qed.

(* one node per path in every view: the premise of resolve_target / resolve_missing holds *)
Lemma view_get_consistent_lemma img kept i : get_consistent (view_get img kept i).
Proof. intros p n H. apply view_get_raw in H. apply raw_get_cases in H. tauto. Qed.

Definition markers_fresh (img : image) : Prop :=
  forall e abs t, In e (i_entries img) -> e_kind e = KLink abs t ->
                  fresh (i_marker img) (lexical_input (e_name e) abs t).

Lemma loaded_links_inside_lemma img kept i p n :
  markers_fresh img ->
  view_get img kept i p = Some n -> n_symlink n = true ->
  exists e abs t, In e (i_entries img) /\ e_kind e = KLink abs t /\ e_name e = p /\
                  inside (lexical_input (e_name e) abs t) /\
                  n_target n = link_target (e_name e) abs t /\
                  canonical (n_target n) = true /\
                  clean_rel (lexical_input (e_name e) abs t) = (0, n_target n).
Proof.
  intros Hfresh Hg Hs. apply view_get_raw in Hg. apply raw_get_cases in Hg as [_ [Hns|[e [Hin [Hname Hlive]]]]].
  - congruence.
  - unfold live_node in Hlive. destruct (e_kind e) as [| |abs t] eqn:Ek;
      try (injection Hlive as <-; cbn in Hs; discriminate).
    destruct (target_outside_root (i_marker img) (e_name e) abs t) eqn:Eo; [discriminate|].
    injection Hlive as <-. cbn [n_target].
    pose proof (proj1 (target_outside_root_iff_lemma _ _ _ _ (Hfresh e abs t Hin Ek)) Eo) as Hinside.
    exists e, abs, t. repeat split; auto.
    + apply clean_rooted_canonical_lemma.
    + apply inside_clean_lemma. exact Hinside.
Qed.

(* an entry whose link target climbs above the root is in no view (its path holds no symlink) *)
Lemma outside_link_absent_lemma img e abs t :
  markers_fresh img -> In e (i_entries img) -> e_kind e = KLink abs t ->
  ~ inside (lexical_input (e_name e) abs t) ->
  live_node img e = None.
Proof.
  intros Hfresh Hin Ek Hout. unfold live_node. rewrite Ek.
  destruct (target_outside_root (i_marker img) (e_name e) abs t) eqn:Eo; [reflexivity|].
  exfalso. apply Hout. exact (proj1 (target_outside_root_iff_lemma _ _ _ _ (Hfresh e abs t Hin Ek)) Eo).
Qed.

Lemma wf_image_markers_fresh img : wf_image img = true -> markers_fresh img.
Proof.
  unfold wf_image. rewrite andb_true_iff. intros [H _] e abs t Hin Ek.
  rewrite forallb_forall in H. specialize (H e Hin). unfold wf_entry in H. rewrite Ek in H.
  rewrite !andb_true_iff in H. destruct H as [_ [Hf _]]. apply freshb_spec. exact Hf.
Qed.

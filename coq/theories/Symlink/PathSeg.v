(* Path algebra on segment lists, as far as the symlink code needs it (C17).
   A path string is represented by the list of its "/"-separated segments (bytes as N); an
   absolute path "/a/b" is [a;b], the root "/" is [].  Empty segments (from "//" or a trailing
   "/") and "." / ".." are ordinary list elements until a clean function removes them.
   Definitions only -- lemmas are in PathSegProofs.v. *)
From Coq Require Import List NArith Bool.
Import ListNotations.

Definition seg := list N.

Fixpoint seg_eqb (a b : seg) : bool :=
  match a, b with
  | [], [] => true
  | x :: a', y :: b' => N.eqb x y && seg_eqb a' b'
  | _, _ => false
  end.

Fixpoint path_eqb (p q : list seg) : bool :=
  match p, q with
  | [], [] => true
  | x :: p', y :: q' => seg_eqb x y && path_eqb p' q'
  | _, _ => false
  end.

Definition dotdot : seg := [46%N; 46%N].

(* "" and "." are dropped by path.Clean *)
Definition is_skip (s : seg) : bool :=
  match s with
  | [] => true
  | [c] => N.eqb c 46
  | _ => false
  end.

Definition is_dotdot (s : seg) : bool := seg_eqb s dotdot.

(* an ordinary file name: not "", ".", ".." *)
Definition is_name (s : seg) : bool := negb (is_skip s) && negb (is_dotdot s).

(* path.Clean / filepath.Clean on a RELATIVE path (Go: filepath.Join(markerDir, ...)):
   the stack is kept reversed; [ups] counts the leading ".." elements that survive. *)
Fixpoint clean_rel_aux (stack : list seg) (ups : nat) (l : list seg) : nat * list seg :=
  match l with
  | [] => (ups, rev stack)
  | s :: r =>
      if is_skip s then clean_rel_aux stack ups r
      else if is_dotdot s then
        match stack with
        | [] => clean_rel_aux [] (S ups) r
        | _ :: st => clean_rel_aux st ups r
        end
      else clean_rel_aux (s :: stack) ups r
  end.
Definition clean_rel (l : list seg) : nat * list seg := clean_rel_aux [] 0 l.

(* path.Clean on a ROOTED path "/" ++ join l: ".." at the root is eliminated *)
Fixpoint clean_rooted_aux (stack : list seg) (l : list seg) : list seg :=
  match l with
  | [] => rev stack
  | s :: r =>
      if is_skip s then clean_rooted_aux stack r
      else if is_dotdot s then clean_rooted_aux (tl stack) r
      else clean_rooted_aux (s :: stack) r
  end.
Definition clean_rooted (l : list seg) : list seg := clean_rooted_aux [] l.

(* path.Dir / path.Base of a clean rooted path *)
Definition dir (p : list seg) : list seg := removelast p.
Definition base (p : list seg) : seg := last p [].

(* ---- symlink.TargetOutsideRoot(path, target) ----
   Go:  markerDir := uuid.New().String()
        abs:  !strings.Contains(filepath.Join(markerDir, target), markerDir)
        rel:  !strings.Contains(filepath.Join(markerDir, filepath.Dir(path), target), markerDir)
   [m] is the marker segment.  A target string is (abs, segments after the leading "/" if any). *)
Definition lexical_input (vpath : list seg) (abs : bool) (t : list seg) : list seg :=
  if abs then t else dir vpath ++ t.

Definition target_outside_root (m : seg) (vpath : list seg) (abs : bool) (t : list seg) : bool :=
  negb (existsb (seg_eqb m) (snd (clean_rel (m :: lexical_input vpath abs t)))).

(* ---- declarative side ---- *)
(* number of ".." and of ordinary names in a segment list *)
Definition ndd (l : list seg) : nat := length (filter is_dotdot l).
Definition nnames (l : list seg) : nat := length (filter is_name l).

(* following [l] from the root never climbs above the root: in every prefix there are at least as
   many names as ".." *)
Definition inside (l : list seg) : Prop :=
  forall k, ndd (firstn k l) <= nnames (firstn k l).

Definition insideb (l : list seg) : bool :=
  forallb (fun k => Nat.leb (ndd (firstn k l)) (nnames (firstn k l))) (seq 0 (S (length l))).

(* the marker does not occur among the segments (uuid freshness) and is an ordinary name *)
Definition fresh (m : seg) (l : list seg) : Prop := is_name m = true /\ ~ In m l.
Definition freshb (m : seg) (l : list seg) : bool := is_name m && negb (existsb (seg_eqb m) l).

(* canonical = what clean_rooted returns: only ordinary names *)
Definition canonical (l : list seg) : bool := forallb is_name l.

(* C15: export (converter.ToSPDX23 / ToCDX, from Sbom.v), third-party serialiser . parser as an abstract
   codec, and the library's own SBOM extractors (extractor/filesystem/sbom/{spdx,cdx}) as importers.
   Definitions only. *)
From Coq Require Import List NArith ZArith Bool.
From Scalibr Require Import Convert.Bytes Convert.Generated_PurlTypes Convert.Purl Convert.Pkg Convert.Proto Convert.Sbom.
Import ListNotations.
Open Scope N_scope.

(* what an SBOM extractor returns per kept entry, as far as package URLs are concerned *)
Record imported := { i_name : bytes; i_purl : option purl; i_cpes : list bytes }.

Definition s_cpe23Type := [99;112;101;50;51;84;121;112;101].
Definition s_rdf_cpe23Type := (* "http://spdx.org/rdf/references/cpe23Type" *)
  [104;116;116;112;58;47;47;115;112;100;120;46;111;114;103;47;114;100;102;47;114;101;102;101;114;101;110;99;101;115;47;99;112;101;50;51;84;121;112;101].
Definition s_rdf_purl := (* "http://spdx.org/rdf/references/purl" *)
  [104;116;116;112;58;47;47;115;112;100;120;46;111;114;103;47;114;100;102;47;114;101;102;101;114;101;110;99;101;115;47;112;117;114;108].

Fixpoint filter_some {A} (l : list (option A)) : list A :=
  match l with [] => [] | Some x :: r => x :: filter_some r | None :: r => filter_some r end.

Section Import.
  Variable pparse : bytes -> option purl.      (* packageurl.FromString *)

  (* sbom/spdx: convertSpdxDocToPackage, the loop over one package's external references *)
  Fixpoint spdx_refs_loop (refs : list spdx_ref) (acc : imported) : imported :=
    match refs with
    | [] => acc
    | r :: rest =>
        if beq (xr_type r) s_cpe23Type || beq (xr_type r) s_rdf_cpe23Type then
          spdx_refs_loop rest {| i_name := if is_nil (i_name acc) then xr_locator r else i_name acc;
                                 i_purl := i_purl acc; i_cpes := i_cpes acc ++ [xr_locator r] |}
        else if beq (xr_type r) s_purl || beq (xr_type r) s_rdf_purl then
          match from_string pparse (xr_locator r) with
          | Some p => spdx_refs_loop rest {| i_name := p_name p; i_purl := Some p; i_cpes := i_cpes acc |}
          | None => spdx_refs_loop rest acc   (* rejected purl: only a warning *)
          end
        else spdx_refs_loop rest acc
    end.

  Definition import_spdx_package (s : spdx_pkg) : option imported :=
    let r := spdx_refs_loop (sp_refs s) {| i_name := []; i_purl := None; i_cpes := [] |} in
    match i_purl r, i_cpes r with
    | None, [] => None
    | _, _ => Some r
    end.

  Definition import_spdx (d : spdx_doc) : list imported := filter_some (map import_spdx_package (sd_packages d)).

  (* sbom/cdx: convertComponentToInventory on a flat component list *)
  Definition import_cdx_component (c : cdx_comp) : option imported :=
    let cpes := if is_nil (cc_cpe c) then [] else [cc_cpe c] in
    let p := if is_nil (cc_purl c) then None else from_string pparse (cc_purl c) in
    match p, cpes with
    | None, [] => None
    | _, _ => Some {| i_name := match p with
                                | Some q => if is_nil (cc_name c) then p_name q else cc_name c
                                | None => cc_name c end;
                      i_purl := p; i_cpes := cpes |}
    end.

  Definition import_cdx (cs : list cdx_comp) : list imported := filter_some (map import_cdx_component cs).
End Import.

Definition purls_of (l : list imported) : list purl := filter_some (map i_purl l).

(* ---- what gets exported *)
Definition inv_purls (inv : inventory) : list purl := filter_some (map k_purl inv).
Definition exportable_spdx (inv : inventory) : inventory := filter spdx_exportable inv.
Definition exportable_cdx (inv : inventory) : inventory := inv.

(* the part of a document the importers look at: the codec hypotheses are stated on these views *)
Definition spdx_view (d : spdx_doc) : list (list (bytes * bytes)) :=
  map (fun s => map (fun r => (xr_type r, xr_locator r)) (sp_refs s)) (sd_packages d).
Definition cdx_view (cs : list cdx_comp) : list (bytes * bytes * bytes) :=
  map (fun c => (cc_name c, cc_purl c, cc_cpe c)) cs.

(* domain on which "read back exactly" can hold: the purl prints to something the library's own
   parser accepts (validType) and packageurl-go can parse back *)
Definition importable (p : purl) : bool :=
  valid_type (p_type p) && match norm p with Some _ => true | None => false end.
Definition roundtrip_D (inv : inventory) : bool := forallb importable (inv_purls inv).

(* multiset equality on lists of optional purls *)
Fixpoint remove1 {A} (e : A -> A -> bool) (x : A) (l : list A) : option (list A) :=
  match l with
  | [] => None
  | y :: r => if e x y then Some r else match remove1 e x r with Some r' => Some (y :: r') | None => None end
  end.
Fixpoint ms_eqb {A} (e : A -> A -> bool) (a b : list A) : bool :=
  match a with
  | [] => match b with [] => true | _ => false end
  | x :: a' => match remove1 e x b with Some b' => ms_eqb e a' b' | None => false end
  end.

(* ---- the tag-value codec (tools-golang tagvalue writer . reader) is partial *)
Definition s_Person := [80;101;114;115;111;110].
Definition s_Organization := [79;114;103;97;110;105;122;97;116;105;111;110].
Definition s_text_open := (* "<text>" *) [60;116;101;120;116;62].

(* "PackageSupplier: <type>: <name>" is only read back for the types Person / Organization; a supplier
   without type is written as "PackageSupplier: <name>" (the form NOASSERTION needs) *)
Definition tv_supplier_ok (s : spdx_pkg) : bool :=
  is_nil (sp_supplier s) || is_nil (sp_supplier_type s) ||
  beq (sp_supplier_type s) s_Person || beq (sp_supplier_type s) s_Organization.
Definition tv_supplier_all_ok (d : spdx_doc) : bool := forallb tv_supplier_ok (sd_packages d).

(* single-line values are written raw: a line break or a "<text>" marker inside changes the token stream *)
Definition tv_safe (s : bytes) : bool :=
  negb (existsb (fun c => N.eqb c 10 || N.eqb c 13) s) && negb (contains s_text_open s).
Definition tv_word (s : bytes) : bool := negb (existsb (fun c => N.eqb c 32 || N.eqb c 9) s).
Definition tv_text_safe (d : spdx_doc) : bool :=
  forallb (fun s => tv_safe (sp_name s) && tv_safe (sp_version s) && tv_safe (sp_source_info s) &&
                    forallb (fun r => tv_safe (xr_locator r) && tv_word (xr_locator r)) (sp_refs s)) (sd_packages d).

(* Proofs for C15. *)
From Coq Require Import List NArith ZArith Bool Lia Permutation.
From Scalibr Require Import Convert.Bytes Convert.BytesProofs Convert.Generated_PurlTypes Convert.Purl Convert.Pkg
  Convert.Proto Convert.Sbom Convert.SbomRoundtrip Convert.Proofs.
Import ListNotations.

(* ---- the importers only look at the views *)
Lemma spdx_refs_loop_view pparse refs1 : forall refs2 acc,
  map (fun r => (xr_type r, xr_locator r)) refs1 = map (fun r => (xr_type r, xr_locator r)) refs2 ->
  spdx_refs_loop pparse refs1 acc = spdx_refs_loop pparse refs2 acc.
Proof.
  induction refs1 as [|r1 l1 IH]; intros [|r2 l2] acc H; try discriminate; [reflexivity|].
  cbn [map] in H. injection H as Ht Hl Hrest. cbn [spdx_refs_loop]. rewrite Ht, Hl.
  destruct (beq (xr_type r2) s_cpe23Type || beq (xr_type r2) s_rdf_cpe23Type); [apply IH; exact Hrest|].
  destruct (beq (xr_type r2) s_purl || beq (xr_type r2) s_rdf_purl); [|apply IH; exact Hrest].
  destruct (from_string pparse (xr_locator r2)); apply IH; exact Hrest.
Qed.

Lemma import_spdx_view pparse d1 d2 : spdx_view d1 = spdx_view d2 -> import_spdx pparse d1 = import_spdx pparse d2.
Proof.
  unfold import_spdx, spdx_view. generalize (sd_packages d1) (sd_packages d2).
  intros l1 l2 H. f_equal. revert l2 H.
  induction l1 as [|s1 l1 IH]; intros [|s2 l2] H; try discriminate; [reflexivity|].
  cbn [map] in H. injection H as Hs Hl. cbn [map]. rewrite (IH l2 Hl). f_equal. unfold import_spdx_package.
  rewrite (spdx_refs_loop_view pparse _ _ _ Hs). reflexivity.
Qed.

Lemma import_cdx_component_view pparse x y :
  (cc_name x, cc_purl x, cc_cpe x) = (cc_name y, cc_purl y, cc_cpe y) ->
  import_cdx_component pparse x = import_cdx_component pparse y.
Proof. intro H. injection H as Hn Hp Hc. unfold import_cdx_component. rewrite Hn, Hp, Hc. reflexivity. Qed.

Lemma import_cdx_view pparse c1 c2 : cdx_view c1 = cdx_view c2 ->
  purls_of (import_cdx pparse c1) = purls_of (import_cdx pparse c2).
Proof.
  unfold import_cdx, cdx_view. intro H. do 2 f_equal. revert c2 H.
  induction c1 as [|x l1 IH]; intros [|y l2] H; try discriminate; [reflexivity|].
  cbn [map] in H. injection H as Hn Hp Hc Hl. cbn [map].
  rewrite (import_cdx_component_view pparse x y) by (rewrite Hn, Hp, Hc; reflexivity). rewrite (IH l2 Hl). reflexivity.
Qed.

Section Roundtrip.
  Variable pstring : purl -> bytes.
  Variable pparse : bytes -> option purl.
  Hypothesis codec_law : forall p, law_domain p = true -> pparse (pstring p) = norm p.
  Hypothesis pstring_nonempty : forall p, pstring p <> [].

  Lemma from_string_printed p : law_domain p = true -> from_string pparse (pstring p) = print_parse_model p.
  Proof. intro D. apply (print_parse_eq_model pstring pparse codec_law p D). Qed.

  (* ---- SPDX: what the importer finds in the exported document *)
  Lemma import_exported_package k p :
    law_domain p = true ->
    option_map i_purl (import_spdx_package pparse (to_spdx_package pstring k p)) =
    option_map Some (print_parse_model p).
  Proof.
    intro D. unfold import_spdx_package. cbn [to_spdx_package sp_refs spdx_refs_loop xr_type xr_locator].
    assert (E1 : beq s_purl s_cpe23Type || beq s_purl s_rdf_cpe23Type = false) by reflexivity.
    assert (E2 : beq s_purl s_purl || beq s_purl s_rdf_purl = true) by reflexivity.
    rewrite E1, E2, (from_string_printed p D).
    destruct (print_parse_model p); reflexivity.
  Qed.

  Lemma spdx_loop_import inv : forall n,
    forallb law_domain (inv_purls inv) = true ->
    purls_of (filter_some (map (import_spdx_package pparse) (fst (spdx_loop pstring inv n)))) =
    filter_some (map print_parse_model (inv_purls (exportable_spdx inv))).
  Proof.
    unfold exportable_spdx, inv_purls, purls_of.
    induction inv as [|k r IH]; intros n HD; [reflexivity|].
    cbn [spdx_loop filter map]. unfold spdx_exportable at 1.
    cbn [map filter_some forallb] in HD.
    destruct (k_purl k) as [p|] eqn:Hp.
    - cbn [filter_some forallb] in HD. apply andb_true_iff in HD as [Dp Dr].
      destruct (nonempty (p_name p) && nonempty (p_version p)).
      + specialize (IH (S n) Dr). destruct (spdx_loop pstring r (S n)) as [ps rs]. cbn [fst] in *.
        cbn [map filter_some]. rewrite Hp. cbn [filter_some map].
        pose proof (import_exported_package k p Dp) as E.
        destruct (import_spdx_package pparse (to_spdx_package pstring k p)) as [im|];
          destruct (print_parse_model p) as [q|]; cbn [option_map] in E; try discriminate.
        * injection E as E. cbn [filter_some map]. rewrite E. cbn [filter_some]. rewrite IH. reflexivity.
        * cbn [filter_some]. exact IH.
      + apply IH. exact Dr.
    - apply IH. exact HD.
  Qed.

  Lemma spdx_import_exact_lemma inv d d' :
    forallb law_domain (inv_purls inv) = true ->
    to_spdx pstring inv = Ok d -> spdx_view d' = spdx_view d ->
    purls_of (import_spdx pparse d') = filter_some (map print_parse_model (inv_purls (exportable_spdx inv))).
  Proof.
    intros HD Hd Hv. rewrite (import_spdx_view pparse d' d Hv).
    unfold to_spdx in Hd. destruct (all_have_extractor inv); [|discriminate].
    pose proof (spdx_loop_import inv 1 HD) as L. destruct (spdx_loop pstring inv 1) as [ps rs]. cbn [fst] in L.
    injection Hd as <-. unfold import_spdx. cbn [sd_packages map].
    change (import_spdx_package pparse (main_package)) with (@None imported). cbn [filter_some]. exact L.
  Qed.

  (* ---- CycloneDX *)
  Definition contributed (o : option imported) : list purl :=
    match o with Some im => match i_purl im with Some q => [q] | None => [] end | None => [] end.

  Lemma purls_of_flat {A} (f : A -> option imported) l :
    purls_of (filter_some (map f l)) = flat_map (fun x => contributed (f x)) l.
  Proof.
    unfold purls_of. induction l as [|x l IH]; [reflexivity|]. cbn [map flat_map].
    destruct (f x) as [im|]; cbn [filter_some map contributed]; [|exact IH].
    destruct (i_purl im); cbn [filter_some app]; rewrite IH; reflexivity.
  Qed.

  Lemma back_flat inv :
    filter_some (map print_parse_model (inv_purls inv)) =
    flat_map (fun k => match k_purl k with
                       | Some p => match print_parse_model p with Some q => [q] | None => [] end
                       | None => [] end) inv.
  Proof.
    unfold inv_purls. induction inv as [|k r IH]; [reflexivity|]. cbn [map flat_map filter_some].
    destruct (k_purl k) as [p|]; cbn [filter_some map]; [|exact IH].
    destruct (print_parse_model p); cbn [filter_some app]; rewrite IH; reflexivity.
  Qed.

  Lemma cdx_component_contributed k :
    match k_purl k with Some p => law_domain p = true | None => True end ->
    contributed (import_cdx_component pparse (to_cdx_component pstring k)) =
    match k_purl k with
    | Some p => match print_parse_model p with Some q => [q] | None => [] end
    | None => [] end.
  Proof.
    intro D. unfold import_cdx_component. cbn [to_cdx_component cc_purl cc_cpe cc_name].
    destruct (k_purl k) as [p|].
    - destruct (pstring p) as [|c0 s0] eqn:Es; [exfalso; exact (pstring_nonempty p Es)|].
      cbn [is_nil]. rewrite <- Es, (from_string_printed p D).
      destruct (print_parse_model p) as [q|]; destruct (is_nil (match k_cpes k with c :: _ => c | [] => [] end)); reflexivity.
    - cbn [is_nil]. destruct (is_nil (match k_cpes k with c :: _ => c | [] => [] end)); reflexivity.
  Qed.

  Lemma cdx_import_exported inv :
    forallb law_domain (inv_purls inv) = true ->
    purls_of (import_cdx pparse (map (to_cdx_component pstring) inv)) =
    filter_some (map print_parse_model (inv_purls inv)).
  Proof.
    intro HD. unfold import_cdx. rewrite map_map, purls_of_flat, back_flat.
    unfold inv_purls in HD. induction inv as [|k r IH]; [reflexivity|]. cbn [flat_map].
    cbn [map filter_some] in HD. destruct (k_purl k) as [p|] eqn:Hp.
    - cbn [filter_some forallb] in HD. apply andb_true_iff in HD as [Dp Dr].
      rewrite cdx_component_contributed by (rewrite Hp; exact Dp). rewrite Hp, (IH Dr). reflexivity.
    - rewrite cdx_component_contributed by (rewrite Hp; exact I). rewrite Hp, (IH HD). reflexivity.
  Qed.

  Lemma cdx_import_exact_lemma inv cs cs' :
    forallb law_domain (inv_purls inv) = true ->
    to_cdx pstring inv = Ok cs -> cdx_view cs' = cdx_view cs ->
    purls_of (import_cdx pparse cs') = filter_some (map print_parse_model (inv_purls (exportable_cdx inv))).
  Proof.
    intros HD Hc Hv. rewrite (import_cdx_view pparse cs' cs Hv).
    unfold to_cdx in Hc. destruct (all_have_extractor inv); [|discriminate]. injection Hc as <-.
    apply cdx_import_exported. exact HD.
  Qed.
End Roundtrip.

(* ---- on the domain D everything comes back, normalised *)
Lemma importable_model p : importable p = true -> print_parse_model p = norm p /\ norm p <> None.
Proof.
  unfold importable, print_parse_model. intro H. apply andb_true_iff in H as [V N].
  destruct (norm p) as [q|] eqn:E; [|discriminate].
  rewrite (norm_type _ _ E), valid_type_lower, V. split; [reflexivity|discriminate].
Qed.

Lemma all_importable_back l :
  forallb importable l = true -> map Some (filter_some (map print_parse_model l)) = map norm l.
Proof.
  induction l as [|p l IH]; [reflexivity|]. cbn [forallb map]. intro H. apply andb_true_iff in H as [Hp Hl].
  destruct (importable_model p Hp) as [E N]. rewrite E. destruct (norm p) as [q|]; [|contradiction].
  cbn [filter_some map]. rewrite (IH Hl). reflexivity.
Qed.

Lemma inv_purls_filter f inv l : forallb l (inv_purls inv) = true -> forallb l (inv_purls (filter f inv)) = true.
Proof.
  unfold inv_purls. induction inv as [|k r IH]; [reflexivity|]. cbn [map filter filter_some].
  destruct (k_purl k) as [p|] eqn:Hp; cbn [filter_some forallb]; intro H.
  - apply andb_true_iff in H as [H1 H2]. destruct (f k); [cbn [map filter_some]; rewrite Hp; cbn [filter_some forallb]; rewrite H1|]; apply IH; exact H2.
  - destruct (f k); [cbn [map filter_some]; rewrite Hp; cbn [filter_some]|]; apply IH; exact H.
Qed.

(* the snap witness *)
Definition snap_purl : purl :=
  {| p_type := s_snap; p_ns := []; p_name := [99;111;114;101]%N; p_version := [49;54]%N; p_quals := []; p_subpath := [] |}.
Definition snap_pkg : pkg :=
  {| k_name := [99;111;114;101]%N; k_version := [49;54]%N; k_source := None; k_locations := [[115]%N];
     k_has_extractor := true; k_extractor := [111;115;47;115;110;97;112]%N; k_purl := Some snap_purl; k_ecosystem := [];
     k_annotations := []; k_layer := None; k_cpes := [] |}.

Lemma snap_facts :
  In (p_type snap_purl) emitted_types /\ norm snap_purl = Some snap_purl /\ law_domain snap_purl = true /\
  print_parse_model snap_purl = Some snap_purl /\ spdx_exportable snap_pkg = true.
Proof. vm_compute. repeat split; try reflexivity. tauto. Qed.

(* the tag-value document is never inside the tag-value codec's domain *)
Lemma tv_supplier_never_ok pstring inv d : to_spdx pstring inv = Ok d -> tv_supplier_all_ok d = false.
Proof.
  unfold to_spdx. destruct (all_have_extractor inv); [|discriminate].
  destruct (spdx_loop pstring inv 1) as [ps rs]. intro H. injection H as <-.
  unfold tv_supplier_all_ok. cbn [sd_packages forallb]. reflexivity.
Qed.

(* ---- the property statements (Props_C15.v only restates them) *)
Lemma sbom_roundtrip_spdx_on_D_lemma :
  forall (pstring : purl -> bytes) (pparse : bytes -> option purl),
    (forall p, law_domain p = true -> pparse (pstring p) = norm p) ->
    forall inv d d',
      forallb law_domain (inv_purls inv) = true -> roundtrip_D inv = true ->
      to_spdx pstring inv = Ok d -> spdx_view d' = spdx_view d ->
      Permutation (map Some (purls_of (import_spdx pparse d'))) (map norm (inv_purls (exportable_spdx inv))).
Proof.
  intros pstring pparse L inv d d' HL HD Hd Hv.
  rewrite (spdx_import_exact_lemma pstring pparse L inv d d' HL Hd Hv).
  rewrite all_importable_back; [reflexivity|]. apply inv_purls_filter. exact HD.
Qed.

Lemma sbom_roundtrip_cdx_on_D_lemma :
  forall (pstring : purl -> bytes) (pparse : bytes -> option purl),
    (forall p, law_domain p = true -> pparse (pstring p) = norm p) ->
    (forall p, pstring p <> []) ->
    forall inv cs cs',
      forallb law_domain (inv_purls inv) = true -> roundtrip_D inv = true ->
      to_cdx pstring inv = Ok cs -> cdx_view cs' = cdx_view cs ->
      Permutation (map Some (purls_of (import_cdx pparse cs'))) (map norm (inv_purls (exportable_cdx inv))).
Proof.
  intros pstring pparse L N inv cs cs' HL HD Hc Hv.
  rewrite (cdx_import_exact_lemma pstring pparse L N inv cs cs' HL Hc Hv).
  rewrite all_importable_back; [reflexivity|exact HD].
Qed.

Lemma emitted_inventories_in_D_lemma : forall inv,
  (forall p, In p (inv_purls inv) -> In (p_type p) emitted_types /\ norm p <> None) ->
  roundtrip_D inv = true.
Proof.
  intros inv H. unfold roundtrip_D. apply forallb_forall. intros p Hp. destruct (H p Hp) as [Ht Hn].
  unfold importable. rewrite (emitted_types_valid_lemma _ Ht). destruct (norm p); [reflexivity|contradiction].
Qed.

(* Lemmas about the byte-string functions of Bytes.v. *)
From Coq Require Import List NArith Bool Lia.
From Scalibr Require Import Convert.Bytes.
Import ListNotations.
Open Scope N_scope.

Lemma beq_refl a : beq a a = true.
Proof. induction a as [|x a IH]; simpl; [reflexivity|]. rewrite N.eqb_refl. exact IH. Qed.

Lemma beq_eq a : forall b, beq a b = true <-> a = b.
Proof.
  induction a as [|x a IH]; intros [|y b]; simpl; split; intro H; try reflexivity; try discriminate.
  - apply andb_true_iff in H as [H1 H2]. apply N.eqb_eq in H1. apply IH in H2. subst. reflexivity.
  - inversion H; subst. rewrite N.eqb_refl. apply IH. reflexivity.
Qed.

Lemma beq_neq a b : beq a b = false <-> a <> b.
Proof.
  split; intro H.
  - intro E. apply beq_eq in E. congruence.
  - destruct (beq a b) eqn:E; [apply beq_eq in E; contradiction|reflexivity].
Qed.

(* ---- bcmp is a strict total order on byte strings *)
Lemma bcmp_antisym a : forall b, bcmp b a = CompOpp (bcmp a b).
Proof.
  induction a as [|x a IH]; intros [|y b]; simpl; try reflexivity.
  rewrite (N.compare_antisym x y). destruct (N.compare x y); simpl; auto.
Qed.

Lemma bcmp_eq a : forall b, bcmp a b = Eq <-> a = b.
Proof.
  induction a as [|x a IH]; intros [|y b]; simpl; split; intro H; try reflexivity; try discriminate.
  - destruct (N.compare x y) eqn:E; try discriminate. apply N.compare_eq_iff in E. apply IH in H. subst. reflexivity.
  - inversion H; subst. rewrite N.compare_refl. apply IH. reflexivity.
Qed.

Lemma bcmp_lt_trans a : forall b c, bcmp a b = Lt -> bcmp b c = Lt -> bcmp a c = Lt.
Proof.
  induction a as [|x a IH]; intros [|y b] [|z c]; simpl; intros H1 H2; try discriminate; try reflexivity.
  destruct (N.compare x y) eqn:E1; try discriminate.
  - apply N.compare_eq_iff in E1. subst y. destruct (N.compare x z) eqn:E2; try discriminate; try reflexivity.
    eapply IH; eassumption.
  - destruct (N.compare y z) eqn:E2; try discriminate.
    + apply N.compare_eq_iff in E2. subst z. rewrite E1. reflexivity.
    + apply N.compare_lt_iff in E1. apply N.compare_lt_iff in E2.
      assert (H : x < z) by (eapply N.lt_trans; eassumption). apply N.compare_lt_iff in H. rewrite H. reflexivity.
Qed.

(* ---- lower-casing *)
Lemma is_upper_range c : is_upper c = true <-> 65 <= c /\ c <= 90.
Proof. unfold is_upper. rewrite andb_true_iff, !N.leb_le. tauto. Qed.

Lemma is_upper_shift c : is_upper c = true -> is_upper (c + 32) = false.
Proof.
  intro H. apply is_upper_range in H. destruct (is_upper (c + 32)) eqn:E; [|reflexivity].
  apply is_upper_range in E. lia.
Qed.

Lemma lower_byte_idem c : lower_byte (lower_byte c) = lower_byte c.
Proof.
  unfold lower_byte. destruct (is_upper c) eqn:E.
  - rewrite (is_upper_shift c E). reflexivity.
  - rewrite E. reflexivity.
Qed.

Lemma to_lower_idem s : to_lower (to_lower s) = to_lower s.
Proof. unfold to_lower. rewrite map_map. apply map_ext. intro c. apply lower_byte_idem. Qed.

Lemma lower_byte_slash c : N.eqb (lower_byte c) slash = N.eqb c slash.
Proof.
  unfold lower_byte, slash. destruct (is_upper c) eqn:E; [|reflexivity].
  apply is_upper_range in E.
  destruct (N.eqb_spec (c + 32) 47), (N.eqb_spec c 47); try reflexivity; lia.
Qed.

Lemma to_lower_nil s : is_nil (to_lower s) = is_nil s.
Proof. destruct s; reflexivity. Qed.

Lemma to_lower_app a b : to_lower (a ++ b) = to_lower a ++ to_lower b.
Proof. apply map_app. Qed.

(* ---- Split / Join on '/' *)
Definition noslash (s : bytes) : bool := forallb (fun c => negb (N.eqb c slash)) s.

Lemma segs_not_nil s : segs s <> [].
Proof. induction s as [|c r IH]; simpl; [discriminate|]. destruct (N.eqb c slash); [discriminate|]. destruct (segs r); discriminate. Qed.

Lemma segs_noslash s : Forall (fun x => noslash x = true) (segs s).
Proof.
  induction s as [|c r IH]; simpl.
  - constructor; [reflexivity|constructor].
  - destruct (N.eqb c slash) eqn:E.
    + constructor; [reflexivity|exact IH].
    + destruct (segs r) as [|h t]; [constructor; [simpl; rewrite E; reflexivity|constructor]|].
      inversion IH; subst. constructor; [simpl; rewrite E; simpl; assumption|assumption].
Qed.

Lemma segs_single x : noslash x = true -> segs x = [x].
Proof.
  induction x as [|c r IH]; simpl; intro H; [reflexivity|].
  apply andb_true_iff in H as [H1 H2]. apply negb_true_iff in H1. rewrite H1, (IH H2). reflexivity.
Qed.

Lemma segs_app_slash x rest : noslash x = true -> segs (x ++ slash :: rest) = x :: segs rest.
Proof.
  induction x as [|c r IH]; simpl; intro H.
  - reflexivity.
  - apply andb_true_iff in H as [H1 H2]. apply negb_true_iff in H1. rewrite H1, (IH H2). reflexivity.
Qed.

Lemma segs_join l : l <> [] -> Forall (fun x => noslash x = true) l -> segs (join l) = l.
Proof.
  induction l as [|x l IH]; intros Hne HF; [contradiction|].
  inversion HF as [|? ? Hx HF']; subst.
  destruct l as [|y l'].
  - simpl. apply segs_single. exact Hx.
  - change (join (x :: y :: l')) with (x ++ slash :: join (y :: l')).
    rewrite segs_app_slash by exact Hx. rewrite IH; [reflexivity|discriminate|exact HF'].
Qed.

Lemma segs_lower s : segs (to_lower s) = map to_lower (segs s).
Proof.
  induction s as [|c r IH]; [reflexivity|].
  cbn [to_lower map segs]. change (map lower_byte r) with (to_lower r).
  rewrite lower_byte_slash. destruct (N.eqb c slash).
  - rewrite IH. reflexivity.
  - rewrite IH. destruct (segs r); reflexivity.
Qed.

Lemma join_lower l : join (map to_lower l) = to_lower (join l).
Proof.
  induction l as [|x l IH]; [reflexivity|].
  destruct l as [|y l']; [reflexivity|].
  change (join (x :: y :: l')) with (x ++ slash :: join (y :: l')).
  change (map to_lower (x :: y :: l')) with (to_lower x :: map to_lower (y :: l')).
  change (join (to_lower x :: map to_lower (y :: l'))) with (to_lower x ++ slash :: join (map to_lower (y :: l'))).
  rewrite IH, to_lower_app. reflexivity.
Qed.

Lemma filter_map_comm {A B} (f : B -> bool) (g : A -> B) l : filter f (map g l) = map g (filter (fun x => f (g x)) l).
Proof. induction l as [|x l IH]; simpl; [reflexivity|]. destruct (f (g x)); simpl; rewrite IH; reflexivity. Qed.

Lemma filter_idem {A} (f : A -> bool) l : filter f (filter f l) = filter f l.
Proof. induction l as [|x l IH]; simpl; [reflexivity|]. destruct (f x) eqn:E; simpl; [rewrite E, IH; reflexivity|exact IH]. Qed.

Lemma filter_all {A} (f : A -> bool) l : forallb f l = true -> filter f l = l.
Proof. induction l as [|x l IH]; simpl; intro H; [reflexivity|]. apply andb_true_iff in H as [H1 H2]. rewrite H1, (IH H2). reflexivity. Qed.

Lemma map_id_on {A} (f : A -> A) l : (forall x, In x l -> f x = x) -> map f l = l.
Proof. induction l as [|x l IH]; simpl; intro H; [reflexivity|]. rewrite H by (left; reflexivity). rewrite IH; [reflexivity|]. intros y Hy. apply H. right. exact Hy. Qed.

(* ---- Trim "/" *)
Definition no_lead (u : bytes) : Prop := match u with c :: _ => N.eqb c slash = false | [] => True end.

Lemma trim_left_no_lead s : no_lead (trim_left s).
Proof. induction s as [|c r IH]; simpl; [exact I|]. destruct (N.eqb c slash) eqn:E; [exact IH|simpl; exact E]. Qed.

Lemma trim_left_id u : no_lead u -> trim_left u = u.
Proof. destruct u as [|c r]; simpl; intro H; [reflexivity|]. rewrite H. reflexivity. Qed.

Lemma trim_right_no_lead u : no_lead u -> no_lead (trim_right u).
Proof.
  destruct u as [|c r]; simpl; intro H; [exact I|].
  destruct (trim_right r); [rewrite H; simpl; exact H|simpl; exact H].
Qed.

Lemma trim_right_cons c r :
  trim_right (c :: r) = match trim_right r with [] => if N.eqb c slash then [] else [c] | r' => c :: r' end.
Proof. reflexivity. Qed.

Lemma trim_right_idem u : trim_right (trim_right u) = trim_right u.
Proof.
  induction u as [|c r IH]; [reflexivity|]. rewrite trim_right_cons.
  destruct (trim_right r) as [|d r'] eqn:E.
  - destruct (N.eqb c slash) eqn:Ec; [reflexivity|]. rewrite trim_right_cons. simpl. rewrite Ec. reflexivity.
  - rewrite trim_right_cons, IH. reflexivity.
Qed.

Lemma trim_slash_idem s : trim_slash (trim_slash s) = trim_slash s.
Proof.
  unfold trim_slash.
  rewrite (trim_left_id (trim_right (trim_left s))) by (apply trim_right_no_lead, trim_left_no_lead).
  apply trim_right_idem.
Qed.

Lemma In_segs_trim_left s x : In x (segs (trim_left s)) -> In x (segs s).
Proof.
  induction s as [|c r IH]; [auto|]. cbn [trim_left]. destruct (N.eqb c slash) eqn:E; [|auto].
  intro H. cbn [segs]. rewrite E. right. apply IH. exact H.
Qed.

Lemma segs_app_sep u v : segs (u ++ slash :: v) = segs u ++ segs v.
Proof.
  induction u as [|c r IH]; [reflexivity|].
  cbn [app segs]. destruct (N.eqb c slash).
  - rewrite IH. reflexivity.
  - rewrite IH. destruct (segs r) as [|h t] eqn:E; [exfalso; eapply segs_not_nil; exact E|]. reflexivity.
Qed.

Lemma trim_right_decomp s : exists n, s = trim_right s ++ repeat slash n.
Proof.
  induction s as [|c r [n IH]]; [exists 0%nat; reflexivity|].
  cbn [trim_right]. destruct (trim_right r) as [|d r'] eqn:E.
  - simpl in IH. destruct (N.eqb c slash) eqn:Ec.
    + apply N.eqb_eq in Ec. subst c. exists (S n). simpl. rewrite IH at 1. reflexivity.
    + exists n. simpl. rewrite IH at 1. reflexivity.
  - exists n. simpl. rewrite IH at 1. reflexivity.
Qed.

Lemma In_segs_trim_right s x : In x (segs (trim_right s)) -> In x (segs s).
Proof.
  destruct (trim_right_decomp s) as [n E]. intro H. rewrite E.
  destruct n as [|m]; [simpl; rewrite app_nil_r; exact H|].
  cbn [repeat]. rewrite segs_app_sep. apply in_or_app. left. exact H.
Qed.

Lemma In_segs_trim_slash s x : In x (segs (trim_slash s)) -> In x (segs s).
Proof. unfold trim_slash. intro H. apply In_segs_trim_left, In_segs_trim_right. exact H. Qed.

(* ---- strings.Contains *)
Lemma has_prefix_app l b : has_prefix l (l ++ b) = true.
Proof. induction l as [|x l IH]; simpl; [reflexivity|]. rewrite N.eqb_refl. exact IH. Qed.

Lemma contains_here l b : contains l (l ++ b) = true.
Proof. destruct (l ++ b) eqn:E; simpl; rewrite <- E, has_prefix_app; reflexivity. Qed.

Lemma contains_self l : contains l l = true.
Proof. rewrite <- (app_nil_r l) at 2. apply contains_here. Qed.

Lemma contains_app_r l a b : contains l b = true -> contains l (a ++ b) = true.
Proof.
  induction a as [|x a IH]; simpl; intro H; [exact H|].
  rewrite (IH H). apply orb_true_r.
Qed.

Lemma contains_cons l x b : contains l b = true -> contains l (x :: b) = true.
Proof. intro H. simpl. rewrite H. apply orb_true_r. Qed.

Lemma has_prefix_app_l l a b : has_prefix l a = true -> has_prefix l (a ++ b) = true.
Proof.
  revert a. induction l as [|x l IH]; intros a H; [reflexivity|].
  destruct a as [|y a]; simpl in *; [discriminate|].
  apply andb_true_iff in H as [H1 H2]. rewrite H1. simpl. apply IH. exact H2.
Qed.

Lemma contains_app_l l a b : contains l a = true -> contains l (a ++ b) = true.
Proof.
  induction a as [|x a IH]; intro H.
  - simpl in H. rewrite orb_false_r in H. destruct l; [|discriminate]. destruct b; reflexivity.
  - cbn [contains] in H. apply orb_true_iff in H as [H|H].
    + pose proof (has_prefix_app_l l (x :: a) b H) as P. cbn [app] in P. cbn [app contains]. rewrite P. reflexivity.
    + cbn [app contains]. rewrite (IH H). apply orb_true_r.
Qed.

(* What a generated C14 cases file is evaluated with: one case = one inventory run through the real
   ToPURL/Ecosystem (inputs of the model), purl.FromString(p.String()) twice, packageindex,
   proto.ScanResultToProto, converter.ToSPDX23 and converter.ToCDX. No proofs. *)
From Coq Require Import List NArith ZArith Bool.
From Scalibr Require Import Convert.Bytes Convert.Generated_PurlTypes Convert.Generated_ProtoMeta Convert.Purl Convert.Pkg
  Convert.Index Convert.Proto Convert.Sbom.
Import ListNotations.

Record pkg_obs := {
  o_pkg : pkg;
  o_purl_str : bytes;            (* p.String() of the package's purl; [] without purl *)
  o_rt1 : option purl;           (* purl.FromString(p.String()) *)
  o_rt2 : option purl;           (* the same again on the result *)
  o_meta : option meta_type;     (* dynamic type of Package.Metadata (None = nil) *)
  o_proto_case : option bytes;   (* oneof case set in the result proto's metadata field *)
  o_specific : list nat;         (* GetSpecific(p.Name, p.Type), as positions *)
  o_of_type : list nat }.        (* GetAllOfType(p.Type), positions, sorted *)

Record ccase := {
  c_emitted : bool;             (* packages came out of a built-in extractor's Extract *)
  c_pkgs : list pkg_obs;
  c_index_panics : bool;
  c_proto : outcome (list proto_pkg);
  c_spdx : outcome spdx_doc;
  c_cdx : outcome (list cdx_comp) }.

Definition case_inv (c : ccase) : inventory := map o_pkg (c_pkgs c).

(* the third-party printer on this case: the strings the real String() returned *)
Definition case_pstring (c : ccase) (p : purl) : bytes :=
  match find (fun o => opt_eqb purl_eqb (k_purl (o_pkg o)) (Some p)) (c_pkgs c) with
  | Some o => o_purl_str o
  | None => []
  end.

(* ---- correspondence, one flag per modelled function *)
Definition rt_model_ok (o : pkg_obs) : bool :=
  match k_purl (o_pkg o) with
  | None => true
  | Some p =>
      (* the law is only checked where the model's lower-casing is Go's (see Purl.law_checked_domain) *)
      (negb (law_checked_domain p) || opt_eqb purl_eqb (o_rt1 o) (print_parse_model p)) &&
      match o_rt1 o with
      | Some q => negb (law_checked_domain q) || opt_eqb purl_eqb (o_rt2 o) (print_parse_model q)
      | None => match o_rt2 o with None => true | Some _ => false end
      end
  end.

Definition index_model_ok (c : ccase) : bool :=
  match index_new (case_inv c) with
  | Panic => c_index_panics c
  | Ok m =>
      negb (c_index_panics c) &&
      forallb (fun o => match k_purl (o_pkg o) with
                        | None => true
                        | Some p => nat_list_eqb (get_specific m (p_name p) (p_type p)) (o_specific o) &&
                                    nat_list_eqb (sort_nat (get_all_of_type m (p_type p))) (o_of_type o)
                        end) (c_pkgs c)
  end.

Definition model_flags (c : ccase) : list bool :=
  [ forallb rt_model_ok (c_pkgs c);
    index_model_ok c;
    outcome_eqb (list_eqb proto_pkg_eqb) (packages_to_proto (case_pstring c) (case_inv c)) (c_proto c);
    outcome_eqb spdx_doc_eqb (to_spdx (case_pstring c) (case_inv c)) (c_spdx c);
    outcome_eqb (list_eqb cdx_comp_eqb) (to_cdx (case_pstring c) (case_inv c)) (c_cdx c);
    (* setProtoMetadata dispatch (only observable when the proto conversion did not panic) *)
    match c_proto c with
    | Ok _ => forallb (fun o => opt_eqb beq (set_proto_metadata_case (o_meta o)) (o_proto_case o)) (c_pkgs c)
    | Panic => true end ].

(* ---- oracle: the property, evaluated on the implementation's own outputs. Claimed for inventories of
   emitted packages (every package has its extractor); the known-finding domains restrict single clauses. *)
(* acceptance is claimed for packages built-in extractors emit (outside the known-finding types);
   idempotence whenever the first parse succeeded *)
Definition rt_spec_ok (emitted : bool) (o : pkg_obs) : bool :=
  match k_purl (o_pkg o) with
  | None => true
  | Some p =>
      match o_rt1 o with
      | Some _ => opt_eqb purl_eqb (o_rt2 o) (o_rt1 o)
      | None => negb emitted || known_unparseable p
      end
  end.

Fixpoint index_spec_from (l : list pkg_obs) (i : nat) : bool :=
  match l with
  | [] => true
  | o :: r => (match k_purl (o_pkg o) with
               | None => true
               | Some _ => mem_nat i (o_specific o) && mem_nat i (o_of_type o)
               end) && index_spec_from r (S i)
  end.

Definition spec_flags (c : ccase) : list bool :=
  let inv := case_inv c in
  if negb (all_have_extractor inv) then [true; true; true; true; true; true] else
  [ negb (c_emitted c) || forallb wf_emitted_D inv;
    forallb (rt_spec_ok (c_emitted c)) (c_pkgs c);
    negb (c_index_panics c) && index_spec_from (c_pkgs c) 0;
    match c_proto c with
    | Ok rs => zip_ok (fun k r => negb (layer_in_int32 k) || proto_spec_ok (case_pstring c) k r) inv rs
    | Panic => false end;
    match c_spdx c with Ok d => spdx_spec_ok (case_pstring c) spdx_locs_D inv d | Panic => false end;
    match c_cdx c with Ok cs => cdx_spec_ok (case_pstring c) inv cs | Panic => false end ].

Definition all_true (l : list bool) : bool := forallb (fun b => b) l.
Definition case_model_ok (c : ccase) : bool := all_true (model_flags c).
Definition case_spec_ok (c : ccase) : bool := all_true (spec_flags c).

(* bit mask of the failing flags, for the report *)
Fixpoint mask_from (l : list bool) (w : N) : N :=
  match l with [] => 0%N | b :: r => ((if b then 0 else w) + mask_from r (2 * w))%N end.

Fixpoint bad_from {A} (ok : A -> bool) (l : list A) (i : N) : list N :=
  match l with [] => [] | x :: r => if ok x then bad_from ok r (i + 1)%N else i :: bad_from ok r (i + 1)%N end.
Definition bad_indices {A} (ok : A -> bool) (l : list A) : list N := bad_from ok l 0%N.
Definition bad_masks {A} (flags : A -> list bool) (l : list A) : list N :=
  map (fun c => mask_from (flags c) 1%N) (filter (fun c => negb (all_true (flags c))) l).

(* counts used for the evidence *)
Definition count_pkgs (l : list ccase) : N := N.of_nat (length (flat_map c_pkgs l)).
Definition count_outside_D (l : list ccase) : N :=
  N.of_nat (length (filter (fun o => match k_purl (o_pkg o) with Some p => known_unparseable p | None => false end)
                           (flat_map c_pkgs l))).
Definition count_law_checked (l : list ccase) : N :=
  N.of_nat (length (filter (fun o => match k_purl (o_pkg o) with Some p => law_checked_domain p | None => false end)
                           (flat_map c_pkgs l))).
Definition count_more_than_two_locations (l : list ccase) : N :=
  N.of_nat (length (filter (fun o => negb (at_most_two_locations (o_pkg o))) (flat_map c_pkgs l))).

(* extractor.Package as the converters see it. The 58 extractor-specific ToPURL / Ecosystem
   functions are not modelled: their results on a package are part of the input
   (k_purl, k_ecosystem), observed by the harness on the real extractor. *)
From Coq Require Import List NArith ZArith Bool.
From Scalibr Require Import Convert.Bytes Convert.Purl.
Import ListNotations.

Inductive outcome (A : Type) : Type := Ok (a : A) | Panic.
Arguments Ok {A} a.
Arguments Panic {A}.

Record layer := { l_index : Z; l_diffid : bytes; l_command : bytes; l_base : bool }.

Record pkg := {
  k_name : bytes;
  k_version : bytes;
  k_source : option (bytes * bytes);     (* SourceCode: repo, commit *)
  k_locations : list bytes;
  k_has_extractor : bool;                (* pkg.Extractor != nil ("set by the core library") *)
  k_extractor : bytes;                   (* pkg.Extractor.Name() *)
  k_purl : option purl;                  (* pkg.Extractor.ToPURL(pkg) *)
  k_ecosystem : bytes;                   (* pkg.Extractor.Ecosystem(pkg) *)
  k_annotations : list Z;
  k_layer : option layer;
  k_cpes : list bytes                    (* converter.extractCPEs(pkg): CPEs of the two SBOM metadata types *)
}.

Definition inventory := list pkg.

Definition set_layer (k : pkg) (l : option layer) : pkg :=
  {| k_name := k_name k; k_version := k_version k; k_source := k_source k;
     k_locations := k_locations k; k_has_extractor := k_has_extractor k;
     k_extractor := k_extractor k; k_purl := k_purl k; k_ecosystem := k_ecosystem k;
     k_annotations := k_annotations k; k_layer := l; k_cpes := k_cpes k |}.

(* a nil Extractor makes ToPURL / Ecosystem / Name dereference nil: every converter starts with it *)
Definition all_have_extractor (inv : inventory) : bool := forallb k_has_extractor inv.

(* well-formedness the property asks of every emitted package *)
Definition wf_emitted (k : pkg) : bool := nonempty (k_name k) && negb (match k_locations k with [] => true | _ => false end).

(* extractors known to emit packages without any location (known findings; oracle domain) *)
Definition s_dotnet_pe : bytes := [100;111;116;110;101;116;47;112;101]%N.
Definition s_chrome_extensions : bytes := [99;104;114;111;109;101;47;101;120;116;101;110;115;105;111;110;115]%N.
Definition known_no_location_extractors : list bytes := [s_dotnet_pe; s_chrome_extensions].
Definition wf_emitted_D (k : pkg) : bool :=
  nonempty (k_name k) &&
  (negb (match k_locations k with [] => true | _ => false end) || one_of (k_extractor k) known_no_location_extractors).

Definition layer_in_int32 (k : pkg) : bool :=
  match k_layer k with
  | None => true
  | Some l => (Z.leb (-2147483648) (l_index l) && Z.ltb (l_index l) 2147483648)%Z
  end.

Definition blist_eqb (a b : list bytes) : bool := list_eqb beq a b.

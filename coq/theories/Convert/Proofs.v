(* Proofs for C14. *)
From Coq Require Import List NArith ZArith Bool Lia Permutation Arith.
From Scalibr Require Import Lib.SortSearch Convert.Bytes Convert.BytesProofs Convert.Generated_PurlTypes Convert.Generated_ProtoMeta Convert.Purl
  Convert.Pkg Convert.Index Convert.Proto Convert.Sbom.
Import ListNotations.

Lemma forallb_In_bool {A} (f : A -> bool) l : forallb f l = true -> forall x, In x l -> f x = true.
Proof. intros H x Hx. rewrite forallb_forall in H. exact (H x Hx). Qed.

(* ================================================================ purl types (finite, regenerated tables) *)
Lemma emitted_types_valid_lemma : forall t, In t emitted_types -> valid_type t = true.
Proof.
  assert (H : forallb valid_type emitted_types = true) by (vm_compute; reflexivity).
  intros t Ht. exact (forallb_In_bool _ _ H t Ht).
Qed.

(* setProtoMetadata clause table vs. the metadata types extractor sources store (both regenerated) *)
Lemma emitted_metadata_has_case_on_D_lemma :
  forall t, In t emitted_metadata_types -> in_D_meta t = true -> proto_case_of t <> None.
Proof.
  assert (H : forallb (fun t => negb (in_D_meta t) || match proto_case_of t with Some _ => true | None => false end)
                      emitted_metadata_types = true) by (vm_compute; reflexivity).
  intros t Ht HD. pose proof (forallb_In_bool _ _ H t Ht) as E. cbv beta in E. rewrite HD in E. simpl in E.
  destruct (proto_case_of t); [discriminate|discriminate].
Qed.

Lemma emitted_metadata_has_case_refuted_lemma :
  exists t, In t emitted_metadata_types /\ proto_case_of t = None.
Proof. exists (s_osv_DepGroupMetadata, false). split; [vm_compute; tauto|vm_compute; reflexivity]. Qed.

(* the exclusion list is exact: every listed type is emitted and has no clause *)
Lemma known_no_proto_case_exact :
  forallb (fun t => existsb (meta_type_eqb t) emitted_metadata_types &&
                    match proto_case_of t with None => true | Some _ => false end) known_no_proto_case = true.
Proof. vm_compute. reflexivity. Qed.

Lemma valid_type_lower t : valid_type (to_lower t) = valid_type t.
Proof.
  unfold valid_type. assert (E : valid_type_lowercases = true) by reflexivity. rewrite E.
  rewrite to_lower_idem. reflexivity.
Qed.

(* ================================================================ the normal form is a fixed point *)
Open Scope N_scope.

Lemma is_alpha_lower c : is_alpha (lower_byte c) = is_alpha c.
Proof.
  unfold lower_byte. destruct (is_upper c) eqn:E; [|reflexivity].
  unfold is_alpha. rewrite E. simpl. rewrite (is_upper_shift c E). simpl.
  apply is_upper_range in E. unfold is_lower. apply andb_true_iff. rewrite !N.leb_le. lia.
Qed.

Lemma eqb_lower_const c k : (k < 65 \/ 90 < k) -> (k < 97 \/ 122 < k) -> N.eqb (lower_byte c) k = N.eqb c k.
Proof.
  intros H1 H2. unfold lower_byte. destruct (is_upper c) eqn:E; [|reflexivity].
  apply is_upper_range in E. destruct (N.eqb_spec (c + 32) k), (N.eqb_spec c k); try reflexivity; lia.
Qed.

Lemma is_digit_lower c : is_digit (lower_byte c) = is_digit c.
Proof.
  unfold lower_byte. destruct (is_upper c) eqn:E; [|reflexivity].
  apply is_upper_range in E. unfold is_digit.
  destruct (N.leb_spec 48 (c + 32)), (N.leb_spec (c + 32) 57), (N.leb_spec 48 c), (N.leb_spec c 57); simpl; try reflexivity; lia.
Qed.

Lemma key_first_lower c : key_first (lower_byte c) = key_first c.
Proof. unfold key_first. rewrite is_alpha_lower, !eqb_lower_const by lia. reflexivity. Qed.

Lemma key_rest_lower c : key_rest (lower_byte c) = key_rest c.
Proof. unfold key_rest. rewrite key_first_lower, is_digit_lower. reflexivity. Qed.

Lemma key_pattern_lower k : key_pattern (to_lower k) = key_pattern k.
Proof.
  destruct k as [|c r]; [reflexivity|]. cbn [to_lower map key_pattern]. rewrite key_first_lower. f_equal.
  induction r as [|d r IH]; [reflexivity|]. cbn [map forallb]. rewrite key_rest_lower, IH. reflexivity.
Qed.

(* qcmp is a strict order on keys *)
Lemma qcmp_antisym a b : qcmp b a = CompOpp (qcmp a b).
Proof. apply bcmp_antisym. Qed.
Lemma qcmp_lt_trans a b c : qcmp a b = Lt -> qcmp b c = Lt -> qcmp a c = Lt.
Proof. apply bcmp_lt_trans. Qed.

Fixpoint wsorted (l : list (bytes * bytes)) : bool :=
  match l with
  | x :: ((y :: _) as r) => leb qcmp x y && wsorted r
  | _ => true
  end.

Lemma leb_total x y : leb qcmp x y = false -> leb qcmp y x = true.
Proof. unfold leb. rewrite (qcmp_antisym x y). destruct (qcmp x y); simpl; congruence. Qed.

Lemma wsorted_cons_insert y x l :
  leb qcmp y x = true -> wsorted (y :: l) = true -> wsorted (insert qcmp x l) = true -> wsorted (y :: insert qcmp x l) = true.
Proof.
  intros Hyx Hyl Hins. destruct l as [|z l']; simpl in *.
  - rewrite Hyx. reflexivity.
  - apply andb_true_iff in Hyl as [Hyz Hzl]. destruct (leb qcmp x z).
    + rewrite Hyx. simpl. exact Hins.
    + rewrite Hyz. simpl. exact Hins.
Qed.

Lemma insert_wsorted x l : wsorted l = true -> wsorted (insert qcmp x l) = true.
Proof.
  induction l as [|y l IH]; intro H; [reflexivity|].
  cbn [insert]. destruct (leb qcmp x y) eqn:E.
  - cbn [wsorted]. rewrite E. simpl. exact H.
  - apply wsorted_cons_insert; [apply leb_total; exact E|exact H|].
    apply IH. destruct l; [reflexivity|]. simpl in H. apply andb_true_iff in H as [_ H]. exact H.
Qed.

Lemma isort_wsorted l : wsorted (isort qcmp l) = true.
Proof. induction l as [|x l IH]; [reflexivity|]. simpl. apply insert_wsorted. exact IH. Qed.

Lemma wsorted_strict l : wsorted l = true -> adjacent_dup l = false -> ssorted qcmp l = true.
Proof.
  induction l as [|x l IH]; intros HW HD; [reflexivity|].
  destruct l as [|y r]; [reflexivity|].
  cbn [wsorted] in HW. apply andb_true_iff in HW as [Hxy HW].
  cbn [adjacent_dup] in HD. apply orb_false_iff in HD as [Hk HD].
  specialize (IH HW HD). cbn [ssorted] in IH |- *. apply andb_true_iff in IH as [Gy Sr].
  assert (Lxy : ltb qcmp x y = true).
  { unfold leb in Hxy. unfold ltb. destruct (qcmp x y) eqn:E; [|reflexivity|discriminate].
    unfold qcmp in E. apply bcmp_eq in E. apply beq_neq in Hk. contradiction. }
  apply andb_true_iff. split; [|apply andb_true_iff; split; assumption].
  cbn [all_gt]. rewrite Lxy. simpl.
  apply all_gt_In. intros z Hz. rewrite all_gt_In in Gy.
  eapply (ltb_trans qcmp qcmp_lt_trans); [exact Lxy|apply Gy; exact Hz].
Qed.

Lemma norm_quals_fixed qs0 qs : norm_quals qs0 = Some qs -> norm_quals qs = Some qs.
Proof.
  unfold norm_quals. destruct (forallb key_ok qs0) eqn:K; simpl; [|discriminate].
  set (l := map lowerkey (filter has_value qs0)).
  destruct (adjacent_dup (isort qcmp l)) eqn:D; [discriminate|].
  intro H. injection H as <-.
  assert (P : Permutation l (isort qcmp l)) by apply isort_perm.
  (* facts about the elements of l *)
  assert (Hl : forall x, In x l -> key_ok x = true /\ has_value x = true /\ lowerkey x = x).
  { intros x Hx. unfold l in Hx. apply in_map_iff in Hx as [y [<- Hy]]. apply filter_In in Hy as [Hy1 Hy2].
    pose proof (forallb_In_bool _ _ K y Hy1) as Ky. unfold key_ok, has_value, lowerkey in *. simpl.
    rewrite key_pattern_lower, to_lower_idem. auto. }
  assert (Hs : forall x, In x (isort qcmp l) -> key_ok x = true /\ has_value x = true /\ lowerkey x = x).
  { intros x Hx. apply Hl. eapply Permutation_in; [apply Permutation_sym; exact P|exact Hx]. }
  assert (K2 : forallb key_ok (isort qcmp l) = true) by (apply forallb_forall; intros x Hx; apply Hs; exact Hx).
  rewrite K2. simpl.
  rewrite (filter_all has_value) by (apply forallb_forall; intros x Hx; apply Hs; exact Hx).
  rewrite (map_id_on lowerkey) by (intros x Hx; apply Hs; exact Hx).
  assert (S : isort qcmp (isort qcmp l) = isort qcmp l).
  { apply (isort_unique qcmp qcmp_antisym qcmp_lt_trans); [reflexivity|].
    apply wsorted_strict; [apply isort_wsorted|exact D]. }
  rewrite S, D. reflexivity.
Qed.

(* namespace *)
Lemma nonempty_lower x : nonempty (to_lower x) = nonempty x.
Proof. destruct x; reflexivity. Qed.

Lemma clean_ns_lower s : clean_ns (to_lower s) = to_lower (clean_ns s).
Proof.
  unfold clean_ns. rewrite segs_lower, filter_map_comm, join_lower.
  f_equal. f_equal. apply filter_ext. intro x. apply nonempty_lower.
Qed.

Lemma clean_ns_idem s : clean_ns (clean_ns s) = clean_ns s.
Proof.
  unfold clean_ns. destruct (filter nonempty (segs s)) as [|x l] eqn:E; [reflexivity|].
  rewrite segs_join.
  - rewrite <- E, filter_idem. reflexivity.
  - discriminate.
  - rewrite <- E. apply Forall_forall. intros y Hy. apply filter_In in Hy as [Hy _].
    pose proof (segs_noslash s) as F. rewrite Forall_forall in F. apply F. exact Hy.
Qed.

Lemma adjust_ns_fixed t ns : adjust_ns t (clean_ns (adjust_ns t (clean_ns ns))) = adjust_ns t (clean_ns ns).
Proof.
  unfold adjust_ns. destruct (lowers_ns t).
  - rewrite clean_ns_lower, clean_ns_idem, to_lower_idem. reflexivity.
  - apply clean_ns_idem.
Qed.

(* name *)
Lemma u2d_lower_byte c : lower_byte (if N.eqb (lower_byte (if N.eqb c 95 then 45 else c)) 95 then 45 else lower_byte (if N.eqb c 95 then 45 else c))
                         = lower_byte (if N.eqb c 95 then 45 else c).
Proof.
  destruct (N.eqb_spec c 95) as [->|Hc].
  - reflexivity.
  - rewrite eqb_lower_const by lia. destruct (N.eqb_spec c 95); [contradiction|]. apply lower_byte_idem.
Qed.

Lemma pypi_name_idem n : to_lower (underscore_to_dash (to_lower (underscore_to_dash n))) = to_lower (underscore_to_dash n).
Proof.
  unfold to_lower, underscore_to_dash. rewrite !map_map. apply map_ext. intro c. apply u2d_lower_byte.
Qed.

Lemma adjust_name_fixed t n qs : adjust_name t (adjust_name t n qs) qs = adjust_name t n qs.
Proof.
  unfold adjust_name. destruct (lowers_name t); [apply to_lower_idem|].
  destruct (beq t s_pypi); [apply pypi_name_idem|].
  destruct (beq t s_mlflow); [|reflexivity].
  destruct (qlookup s_repository_url qs) as [repo|]; [|reflexivity].
  destruct (contains s_azureml repo); [reflexivity|].
  destruct (contains s_databricks repo); [apply to_lower_idem|reflexivity].
Qed.

Lemma adjust_name_nil t n qs : is_nil (adjust_name t n qs) = is_nil n.
Proof.
  unfold adjust_name. destruct (lowers_name t); [apply to_lower_nil|].
  destruct (beq t s_pypi); [destruct n; reflexivity|].
  destruct (beq t s_mlflow); [|reflexivity].
  destruct (qlookup s_repository_url qs) as [repo|]; [|reflexivity].
  destruct (contains s_azureml repo); [reflexivity|].
  destruct (contains s_databricks repo); [apply to_lower_nil|reflexivity].
Qed.

Lemma adjust_version_fixed t v : adjust_version t (adjust_version t v) = adjust_version t v.
Proof. unfold adjust_version. destruct (beq t s_huggingface); [apply to_lower_idem|reflexivity]. Qed.

Lemma bad_subpath_trim s : bad_subpath s = false -> bad_subpath (trim_slash s) = false.
Proof.
  unfold bad_subpath. intro H. destruct (existsb is_dot_seg (segs (trim_slash s))) eqn:E; [|reflexivity].
  apply existsb_exists in E as [x [Hx Hd]]. apply In_segs_trim_slash in Hx.
  assert (existsb is_dot_seg (segs s) = true) by (apply existsb_exists; exists x; auto). congruence.
Qed.

Lemma type_pattern_lower_fixed t : to_lower (to_lower t) = to_lower t.
Proof. apply to_lower_idem. Qed.

Lemma norm_fixed p q : norm p = Some q -> norm q = Some q.
Proof.
  unfold norm at 1.
  destruct (type_pattern (to_lower (p_type p))) eqn:T; simpl; [|discriminate].
  destruct (norm_quals (p_quals p)) as [qs|] eqn:Q; [|discriminate].
  destruct (is_nil (p_name p)) eqn:N; [discriminate|].
  destruct (bad_subpath (p_subpath p)) eqn:B; [discriminate|].
  match goal with |- (if custom_ok ?r then _ else _) = _ -> _ => set (q0 := r) end.
  destruct (custom_ok q0) eqn:C; [|discriminate].
  intro H. injection H as <-.
  unfold norm. cbn [q0 p_type p_ns p_name p_version p_quals p_subpath].
  rewrite to_lower_idem, T. simpl.
  rewrite (norm_quals_fixed _ _ Q).
  rewrite adjust_name_nil, N.
  rewrite (bad_subpath_trim _ B).
  rewrite adjust_ns_fixed, adjust_name_fixed, adjust_version_fixed, trim_slash_idem.
  fold q0. rewrite C. reflexivity.
Qed.

Lemma norm_type p q : norm p = Some q -> p_type q = to_lower (p_type p).
Proof.
  unfold norm.
  destruct (type_pattern (to_lower (p_type p))); simpl; [|discriminate].
  destruct (norm_quals (p_quals p)); [|discriminate].
  destruct (is_nil (p_name p)); [discriminate|].
  destruct (bad_subpath (p_subpath p)); [discriminate|].
  match goal with |- (if custom_ok ?r then _ else _) = _ -> _ => destruct (custom_ok r) end; [|discriminate].
  intro H. injection H as <-. reflexivity.
Qed.

(* ================================================================ the law's domain is closed under norm *)
Lemma ascii_lower s : ascii (to_lower s) = ascii s.
Proof.
  unfold ascii, to_lower. induction s as [|c r IH]; [reflexivity|]. cbn [map forallb]. rewrite IH. f_equal.
  unfold lower_byte. destruct (is_upper c) eqn:E; [|reflexivity].
  apply is_upper_range in E. destruct (N.ltb_spec (c + 32) 128), (N.ltb_spec c 128); try reflexivity; lia.
Qed.

Lemma ascii_app a b : ascii (a ++ b) = ascii a && ascii b.
Proof. apply forallb_app. Qed.

Lemma ascii_segs s : ascii s = true -> forallb ascii (segs s) = true.
Proof.
  induction s as [|c r IH]; [reflexivity|]. cbn [ascii forallb]. intro H. apply andb_true_iff in H as [Hc Hr].
  specialize (IH Hr). cbn [segs]. destruct (N.eqb c slash); [exact IH|].
  destruct (segs r) as [|h t]; [cbn; rewrite Hc; reflexivity|].
  cbn [forallb] in IH |- *. apply andb_true_iff in IH as [Hh Ht]. cbn [ascii forallb]. unfold ascii in Hh. rewrite Hc, Hh, Ht. reflexivity.
Qed.

Lemma ascii_join l : forallb ascii l = true -> ascii (join l) = true.
Proof.
  induction l as [|x l IH]; [reflexivity|]. cbn [forallb]. intro H. apply andb_true_iff in H as [Hx Hl].
  destruct l as [|y l']; [exact Hx|].
  change (join (x :: y :: l')) with (x ++ slash :: join (y :: l')).
  rewrite ascii_app, Hx. cbn [ascii forallb]. specialize (IH Hl). unfold ascii in IH. rewrite IH. reflexivity.
Qed.

Lemma forallb_filter {A} (f g : A -> bool) l : forallb f l = true -> forallb f (filter g l) = true.
Proof.
  induction l as [|x l IH]; [reflexivity|]. cbn [forallb filter]. intro H. apply andb_true_iff in H as [Hx Hl].
  destruct (g x); [cbn [forallb]; rewrite Hx|]; apply IH; exact Hl.
Qed.

Lemma ascii_clean_ns s : ascii s = true -> ascii (clean_ns s) = true.
Proof. intro H. unfold clean_ns. apply ascii_join, forallb_filter, ascii_segs. exact H. Qed.

Lemma ascii_u2d s : ascii (underscore_to_dash s) = ascii s.
Proof.
  unfold ascii, underscore_to_dash. induction s as [|c r IH]; [reflexivity|]. cbn [map forallb]. rewrite IH. f_equal.
  destruct (N.eqb_spec c 95) as [->|]; reflexivity.
Qed.

Lemma ascii_adjust_name t n qs : ascii n = true -> ascii (adjust_name t n qs) = true.
Proof.
  intro H. unfold adjust_name. destruct (lowers_name t); [rewrite ascii_lower; exact H|].
  destruct (beq t s_pypi); [rewrite ascii_lower, ascii_u2d; exact H|].
  destruct (beq t s_mlflow); [|exact H].
  destruct (qlookup s_repository_url qs) as [repo|]; [|exact H].
  destruct (contains s_azureml repo); [exact H|].
  destruct (contains s_databricks repo); [rewrite ascii_lower; exact H|exact H].
Qed.

Lemma orb_impl_true (a b c : bool) : (b = true -> c = true) -> negb a || b = true -> negb a || c = true.
Proof. destruct a; simpl; auto. Qed.

Lemma law_domain_closed p q : law_domain p = true -> norm p = Some q -> law_domain q = true.
Proof.
  intros HD HN. pose proof (norm_type _ _ HN) as Ht. revert HN. unfold norm.
  destruct (type_pattern (to_lower (p_type p))); simpl; [|discriminate].
  destruct (norm_quals (p_quals p)) as [qs|]; [|discriminate].
  destruct (is_nil (p_name p)); [discriminate|].
  destruct (bad_subpath (p_subpath p)); [discriminate|].
  match goal with |- (if custom_ok ?r then _ else _) = _ -> _ => destruct (custom_ok r) end; [|discriminate].
  intro H. injection H as <-. clear Ht.
  unfold law_domain, touched_ok in *. cbn [p_type p_ns p_name p_version].
  rewrite to_lower_idem.
  apply andb_true_iff in HD as [HD Hv]. apply andb_true_iff in HD as [HD Hn]. apply andb_true_iff in HD as [Hty Hns].
  rewrite ascii_lower, Hty. simpl.
  apply andb_true_iff; split; [apply andb_true_iff; split|].
  - revert Hns. apply orb_impl_true. intro A. unfold adjust_ns.
    destruct (lowers_ns (to_lower (p_type p))); [rewrite ascii_lower|]; apply ascii_clean_ns; exact A.
  - revert Hn. apply orb_impl_true. apply ascii_adjust_name.
  - revert Hv. apply orb_impl_true. intro A. unfold adjust_version.
    destruct (beq (to_lower (p_type p)) s_huggingface); [rewrite ascii_lower|]; exact A.
Qed.

(* ================================================================ purl.go on top of packageurl-go *)
Section CodecLaws.
  Variable pstring : purl -> bytes.
  Variable pparse : bytes -> option purl.
  (* packageurl-go: parsing what it printed yields the normal form (or the error) of Purl.norm, wherever the
     model's ASCII lower-casing is Go's strings.ToLower *)
  Hypothesis codec_law : forall p, law_domain p = true -> pparse (pstring p) = norm p.

  Lemma print_parse_eq_model p : law_domain p = true -> print_parse pstring pparse p = print_parse_model p.
  Proof. intro D. unfold print_parse, from_string, to_string, print_parse_model. rewrite (codec_law p D). reflexivity. Qed.

  Lemma print_parse_idempotent p q :
    law_domain p = true -> print_parse pstring pparse p = Some q -> print_parse pstring pparse q = Some q.
  Proof.
    intro D. rewrite (print_parse_eq_model p D). unfold print_parse_model.
    destruct (norm p) as [q'|] eqn:E; [|discriminate].
    destruct (valid_type (p_type q')) eqn:V; [|discriminate].
    intro H. injection H as ->.
    rewrite (print_parse_eq_model q (law_domain_closed p q D E)). unfold print_parse_model.
    rewrite (norm_fixed _ _ E), V. reflexivity.
  Qed.

  Lemma print_parse_accepts p q :
    law_domain p = true -> norm p = Some q -> valid_type (p_type p) = true -> print_parse pstring pparse p = Some q.
  Proof.
    intros D E V. rewrite (print_parse_eq_model p D). unfold print_parse_model. rewrite E.
    rewrite (norm_type _ _ E), valid_type_lower, V. reflexivity.
  Qed.

  Lemma print_parse_rejects_invalid_type p :
    law_domain p = true -> valid_type (p_type p) = false -> print_parse pstring pparse p = None.
  Proof.
    intros D V. rewrite (print_parse_eq_model p D). unfold print_parse_model.
    destruct (norm p) as [q|] eqn:E; [|reflexivity].
    rewrite (norm_type _ _ E), valid_type_lower, V. reflexivity.
  Qed.
End CodecLaws.

(* ================================================================ package index *)
Close Scope N_scope.

Lemma beq_spec a b : reflect (a = b) (beq a b).
Proof. destruct (beq a b) eqn:E; constructor; [apply beq_eq; exact E|apply beq_neq; exact E]. Qed.

Lemma nm_get_append n n' i m :
  nm_get n (nm_append n' i m) = if beq n n' then nm_get n m ++ [i] else nm_get n m.
Proof.
  induction m as [|[n'' l] r IH]; cbn [nm_append nm_get].
  - destruct (beq_spec n n'); reflexivity.
  - destruct (beq_spec n' n'') as [->|Hn]; cbn [nm_get].
    + destruct (beq_spec n n''); reflexivity.
    + rewrite IH. destruct (beq_spec n n'') as [->|Hn2]; [|reflexivity].
      destruct (beq_spec n'' n'); [subst; contradiction|reflexivity].
Qed.

Lemma tm_get_append t t' n i m :
  tm_get t (tm_append t' n i m) = if beq t t' then nm_append n i (tm_get t m) else tm_get t m.
Proof.
  induction m as [|[t'' nm] r IH]; cbn [tm_append tm_get].
  - destruct (beq_spec t t'); reflexivity.
  - destruct (beq_spec t' t'') as [->|Ht]; cbn [tm_get].
    + destruct (beq_spec t t''); reflexivity.
    + rewrite IH. destruct (beq_spec t t'') as [->|Ht2]; [|reflexivity].
      destruct (beq_spec t'' t'); [subst; contradiction|reflexivity].
Qed.

Lemma get_specific_append m t' n' i n t :
  get_specific (tm_append t' n' i m) n t =
  if beq t t' && beq n n' then get_specific m n t ++ [i] else get_specific m n t.
Proof.
  unfold get_specific. rewrite tm_get_append. destruct (beq t t'); simpl; [|reflexivity].
  apply nm_get_append.
Qed.

Lemma get_specific_build inv : forall i m n t,
  get_specific (index_build inv i m) n t = get_specific m n t ++ positions_from (has_type_name t n) inv i.
Proof.
  induction inv as [|k r IH]; intros i m n t; cbn [index_build positions_from].
  - rewrite app_nil_r. reflexivity.
  - unfold has_type_name at 1. destruct (k_purl k) as [p|].
    + rewrite IH, get_specific_append.
      destruct (beq t (p_type p) && beq n (p_name p)); [rewrite <- app_assoc; reflexivity|reflexivity].
    + apply IH.
Qed.

Lemma index_get_specific_exact_lemma inv m n t :
  index_new inv = Ok m -> get_specific m n t = spec_specific inv n t.
Proof.
  unfold index_new. destruct (all_have_extractor inv); [|discriminate].
  intro H. injection H as <-. rewrite get_specific_build. reflexivity.
Qed.

Lemma concat_snd_nm_append n i nm :
  Permutation (concat (map snd (nm_append n i nm))) (concat (map snd nm) ++ [i]).
Proof.
  induction nm as [|[n' l] r IH]; cbn [nm_append].
  - reflexivity.
  - destruct (beq n n'); cbn [map snd concat].
    + rewrite <- !app_assoc. apply Permutation_app_head. apply Permutation_app_comm.
    + rewrite <- app_assoc. apply Permutation_app_head. exact IH.
Qed.

Lemma get_all_of_type_append m t' n' i t :
  Permutation (get_all_of_type (tm_append t' n' i m) t)
              (if beq t t' then get_all_of_type m t ++ [i] else get_all_of_type m t).
Proof.
  unfold get_all_of_type. rewrite tm_get_append. destruct (beq t t'); [|reflexivity].
  apply concat_snd_nm_append.
Qed.

Lemma get_all_of_type_build inv : forall i m t,
  Permutation (get_all_of_type (index_build inv i m) t) (get_all_of_type m t ++ positions_from (has_type t) inv i).
Proof.
  induction inv as [|k r IH]; intros i m t; cbn [index_build positions_from].
  - rewrite app_nil_r. reflexivity.
  - unfold has_type at 1. destruct (k_purl k) as [p|].
    + rewrite IH. rewrite get_all_of_type_append.
      destruct (beq t (p_type p)); [rewrite <- app_assoc; reflexivity|reflexivity].
    + apply IH.
Qed.

Lemma index_get_all_of_type_exact_lemma inv m t :
  index_new inv = Ok m -> Permutation (get_all_of_type m t) (spec_of_type inv t).
Proof.
  unfold index_new. destruct (all_have_extractor inv); [|discriminate].
  intro H. injection H as <-. rewrite get_all_of_type_build. reflexivity.
Qed.

Lemma positions_from_In f inv : forall i j k,
  nth_error inv j = Some k -> f k = true -> In (i + j) (positions_from f inv i).
Proof.
  induction inv as [|x r IH]; intros i j k Hn Hf; [destruct j; discriminate|].
  destruct j as [|j]; cbn [nth_error positions_from] in *.
  - injection Hn as ->. rewrite Hf, Nat.add_0_r. left. reflexivity.
  - replace (i + S j) with (S i + j) by lia. destruct (f x); [right|]; eapply IH; eassumption.
Qed.

Lemma index_returns_package_lemma inv m i k p :
  index_new inv = Ok m -> nth_error inv i = Some k -> k_purl k = Some p ->
  In i (get_specific m (p_name p) (p_type p)) /\ In i (get_all_of_type m (p_type p)).
Proof.
  intros Hm Hn Hp. split.
  - rewrite (index_get_specific_exact_lemma _ _ _ _ Hm). unfold spec_specific.
    apply (positions_from_In _ inv 0 i k Hn). unfold has_type_name. rewrite Hp, !beq_refl. reflexivity.
  - eapply Permutation_in; [apply Permutation_sym, (index_get_all_of_type_exact_lemma _ _ _ Hm)|].
    unfold spec_of_type. apply (positions_from_In _ inv 0 i k Hn). unfold has_type. rewrite Hp, beq_refl. reflexivity.
Qed.

Lemma index_panics_iff inv : index_new inv = Panic <-> all_have_extractor inv = false.
Proof. unfold index_new. destruct (all_have_extractor inv); split; intro; congruence. Qed.

(* ================================================================ record maps *)
Lemma list_eqb_refl {A} (e : A -> A -> bool) l : (forall x, e x x = true) -> list_eqb e l l = true.
Proof. intro H. induction l as [|x l IH]; simpl; [reflexivity|]. rewrite H, IH. reflexivity. Qed.

Lemma qeq_refl x : qeq x x = true.
Proof. unfold qeq. rewrite !beq_refl. reflexivity. Qed.

Lemma blist_eqb_refl l : blist_eqb l l = true.
Proof. apply list_eqb_refl. apply beq_refl. Qed.

Lemma wrap32_small z : (-2147483648 <= z < 2147483648)%Z -> wrap32 z = z.
Proof. intro H. unfold wrap32. rewrite Z.mod_small by lia. lia. Qed.

Section RecordMaps.
  Variable pstring : purl -> bytes.

  Lemma proto_preserves_lemma k r :
    layer_in_int32 k = true -> package_to_proto pstring k = Ok r -> proto_spec_ok pstring k r = true.
  Proof.
    unfold package_to_proto. intros HL. destruct (k_has_extractor k); [|discriminate].
    intro H. injection H as <-. unfold proto_spec_ok. cbn [pr_name pr_version pr_locations pr_purl pr_layer].
    rewrite !beq_refl, blist_eqb_refl. simpl.
    assert (P : purl_preserved pstring (k_purl k) (option_map (purl_to_proto pstring) (k_purl k)) = true).
    { destruct (k_purl k) as [p|]; [|reflexivity]. simpl. rewrite !beq_refl, (list_eqb_refl qeq) by apply qeq_refl. reflexivity. }
    rewrite P. simpl.
    unfold layer_in_int32 in HL. destruct (k_layer k) as [l|]; [|reflexivity]. simpl.
    apply andb_true_iff in HL as [H1 H2]. apply Z.leb_le in H1. apply Z.ltb_lt in H2.
    rewrite wrap32_small by lia. rewrite Z.eqb_refl, !beq_refl, Bool.eqb_reflx. reflexivity.
  Qed.

  Lemma proto_no_panic_lemma k : k_has_extractor k = true -> exists r, package_to_proto pstring k = Ok r.
  Proof. unfold package_to_proto. intros ->. eexists. reflexivity. Qed.

  Lemma packages_to_proto_panics_iff inv : packages_to_proto pstring inv = Panic <-> all_have_extractor inv = false.
  Proof.
    unfold all_have_extractor. induction inv as [|k r IH]; cbn [packages_to_proto forallb].
    - split; discriminate.
    - unfold package_to_proto at 1. destruct (k_has_extractor k); simpl.
      + destruct (packages_to_proto pstring r); split; intro H; try discriminate; try (apply IH in H; discriminate).
        * apply IH. reflexivity.
        * reflexivity.
      + split; reflexivity.
  Qed.

  Lemma packages_to_proto_preserves inv : forall rs,
    forallb layer_in_int32 inv = true -> packages_to_proto pstring inv = Ok rs ->
    zip_ok (proto_spec_ok pstring) inv rs = true.
  Proof.
    induction inv as [|k r IH]; intros rs HL H; cbn [packages_to_proto] in H.
    - injection H as <-. reflexivity.
    - cbn [forallb] in HL. apply andb_true_iff in HL as [HL1 HL2].
      destruct (package_to_proto pstring k) as [x|] eqn:E; [|discriminate].
      destruct (packages_to_proto pstring r) as [xs|] eqn:E2; [|discriminate].
      injection H as <-. cbn [zip_ok]. rewrite (proto_preserves_lemma k x HL1 E), (IH xs HL2 eq_refl). reflexivity.
  Qed.

  (* ---- SPDX *)
  Ltac solve_contains :=
    first [ apply contains_self
          | apply contains_here
          | solve [apply contains_app_l; solve_contains]
          | solve [apply contains_app_r; solve_contains] ].

  Lemma source_info_extractor k : contains (k_extractor k) (source_info k) = true.
  Proof.
    unfold source_info. destruct (k_locations k) as [|l0 [|l1 r]]; solve_contains.
  Qed.

  Lemma source_info_locations k : forallb (fun l => contains l (source_info k)) (firstn 2 (k_locations k)) = true.
  Proof.
    unfold source_info. destruct (k_locations k) as [|l0 [|l1 r]]; cbn [firstn forallb].
    - reflexivity.
    - rewrite andb_true_r. solve_contains.
    - rewrite andb_true_r. apply andb_true_iff. split; solve_contains.
  Qed.

  Lemma spdx_locs_D_holds k p : spdx_locs_D k (to_spdx_package pstring k p) = true.
  Proof.
    unfold spdx_locs_D, all_locations_mentioned, first_two_locations_mentioned, at_most_two_locations.
    cbn [to_spdx_package sp_source_info].
    pose proof (source_info_locations k) as H.
    destruct (k_locations k) as [|l0 [|l1 [|l2 r]]]; cbn [length Nat.leb]; exact H.
  Qed.

  Lemma spdx_record_holds k p :
    k_purl k = Some p -> spdx_record_ok pstring spdx_locs_D k (to_spdx_package pstring k p) = true.
  Proof.
    intro Hp. unfold spdx_record_ok. rewrite Hp, spdx_locs_D_holds.
    cbn [to_spdx_package sp_name sp_version sp_refs sp_source_info xr_type xr_locator].
    rewrite !beq_refl, source_info_extractor. reflexivity.
  Qed.

  Lemma spdx_loop_spec inv : forall n,
    zip_ok (spdx_record_ok pstring spdx_locs_D) (filter spdx_exportable inv) (fst (spdx_loop pstring inv n)) = true.
  Proof.
    induction inv as [|k r IH]; intro n; cbn [spdx_loop filter]; [reflexivity|].
    unfold spdx_exportable at 1. destruct (k_purl k) as [p|] eqn:Hp; [|apply IH].
    destruct (nonempty (p_name p) && nonempty (p_version p)); [|apply IH].
    specialize (IH (S n)). destruct (spdx_loop pstring r (S n)) as [ps rs]. cbn [fst zip_ok] in *.
    rewrite (spdx_record_holds k p Hp), IH. reflexivity.
  Qed.

  Lemma spdx_loop_length inv : forall n,
    length (fst (spdx_loop pstring inv n)) = length (filter spdx_exportable inv).
  Proof.
    induction inv as [|k r IH]; intro n; cbn [spdx_loop filter]; [reflexivity|].
    unfold spdx_exportable at 1. destruct (k_purl k) as [p|]; [|apply IH].
    destruct (nonempty (p_name p) && nonempty (p_version p)); [|apply IH].
    specialize (IH (S n)). destruct (spdx_loop pstring r (S n)) as [ps rs]. cbn [fst length] in *. rewrite IH. reflexivity.
  Qed.

  Lemma spdx_preserves_lemma inv d :
    to_spdx pstring inv = Ok d -> spdx_spec_ok pstring spdx_locs_D inv d = true.
  Proof.
    unfold to_spdx. destruct (all_have_extractor inv); [|discriminate].
    pose proof (spdx_loop_spec inv 1) as H. destruct (spdx_loop pstring inv 1) as [ps rs]. cbn [fst] in H.
    intro E. injection E as <-. unfold spdx_spec_ok. cbn [sd_packages main_package sp_name sp_refs].
    rewrite beq_refl, H. reflexivity.
  Qed.

  Lemma spdx_exact_skips_lemma inv d :
    to_spdx pstring inv = Ok d -> length (sd_packages d) = S (length (filter spdx_exportable inv)).
  Proof.
    unfold to_spdx. destruct (all_have_extractor inv); [|discriminate].
    pose proof (spdx_loop_length inv 1) as H. destruct (spdx_loop pstring inv 1) as [ps rs]. cbn [fst] in H.
    intro E. injection E as <-. cbn [sd_packages length]. rewrite H. reflexivity.
  Qed.

  Lemma to_spdx_panics_iff inv : to_spdx pstring inv = Panic <-> all_have_extractor inv = false.
  Proof.
    unfold to_spdx. destruct (all_have_extractor inv); [|split; reflexivity].
    destruct (spdx_loop pstring inv 1). split; discriminate.
  Qed.

  (* ---- CycloneDX *)
  Lemma cdx_record_holds k : cdx_record_ok pstring k (to_cdx_component pstring k) = true.
  Proof.
    unfold cdx_record_ok, to_cdx_component. cbn [cc_name cc_version cc_purl cc_occurrences].
    rewrite !beq_refl. simpl. destruct (k_locations k); [reflexivity|apply blist_eqb_refl].
  Qed.

  Lemma cdx_preserves_lemma inv cs : to_cdx pstring inv = Ok cs -> cdx_spec_ok pstring inv cs = true.
  Proof.
    unfold to_cdx. destruct (all_have_extractor inv); [|discriminate]. intro H. injection H as <-.
    unfold cdx_spec_ok. induction inv as [|k r IH]; [reflexivity|]. cbn [map zip_ok]. rewrite cdx_record_holds, IH. reflexivity.
  Qed.

  Lemma to_cdx_panics_iff inv : to_cdx pstring inv = Panic <-> all_have_extractor inv = false.
  Proof. unfold to_cdx. destruct (all_have_extractor inv); split; intro; congruence. Qed.

  Lemma sbom_ignore_layer_lemma k l :
    to_cdx_component pstring (set_layer k l) = to_cdx_component pstring k /\
    forall p, to_spdx_package pstring (set_layer k l) p = to_spdx_package pstring k p.
  Proof. split; [reflexivity|intro p; reflexivity]. Qed.
End RecordMaps.

(* the full-strength SPDX statement (every location is in the record) fails: three locations *)
Definition wit_purl : purl :=
  {| p_type := [103;101;110;101;114;105;99]%N; p_ns := []; p_name := [110]%N; p_version := [49]%N; p_quals := []; p_subpath := [] |}.
Definition wit_pkg : pkg :=
  {| k_name := [110]%N; k_version := [49]%N; k_source := None;
     k_locations := [[97]%N; [98]%N; [122]%N];   (* "a", "b", "z" *)
     k_has_extractor := true; k_extractor := [120]%N; k_purl := Some wit_purl; k_ecosystem := [];
     k_annotations := []; k_layer := None; k_cpes := [] |}.

Lemma spdx_locations_refuted_lemma :
  exists inv d, to_spdx (fun _ => []) inv = Ok d /\ spdx_spec_ok (fun _ => []) all_locations_mentioned inv d = false.
Proof. exists [wit_pkg]. eexists. split; [vm_compute; reflexivity|vm_compute; reflexivity]. Qed.

Lemma converters_panic_iff_lemma : forall pstring inv,
  (index_new inv = Panic <-> all_have_extractor inv = false) /\
  (packages_to_proto pstring inv = Panic <-> all_have_extractor inv = false) /\
  (to_spdx pstring inv = Panic <-> all_have_extractor inv = false) /\
  (to_cdx pstring inv = Panic <-> all_have_extractor inv = false).
Proof.
  intros pstring inv. repeat split;
    first [apply index_panics_iff | apply packages_to_proto_panics_iff | apply to_spdx_panics_iff | apply to_cdx_panics_iff].
Qed.

(* C15 - SBOMs the library writes can be read back by the library. Statements only. *)
From Coq Require Import List NArith ZArith Bool Permutation.
From Scalibr Require Import Convert.Bytes Convert.Generated_PurlTypes Convert.Purl Convert.Pkg Convert.Proto Convert.Sbom
  Convert.SbomRoundtrip Convert.Proofs Convert.SbomRoundtripProofs.
Import ListNotations.

(* Premises shared by the theorems (third-party code, never axioms):
   L  packageurl-go:  pparse (pstring p) = norm p  wherever the lower-cased fields are ASCII (law_domain)
   N  a printed purl is never the empty string
   C  the serialiser . parser pair of the format returns a document d' with the same view as the
      written document d (the reference types/locators per package, resp. name/purl/cpe per component);
      validated per case and per format by decoding every written file. *)

(* SPDX 2.3, any format whose codec satisfies C: the scan finds exactly the purls of the exported packages
   (purl present, purl name and version non-empty) that the library's own FromString accepts, normalised *)
Theorem spdx_import_exact :
  forall (pstring : purl -> bytes) (pparse : bytes -> option purl),
    (forall p, law_domain p = true -> pparse (pstring p) = norm p) ->
    forall inv d d',
      forallb law_domain (inv_purls inv) = true ->
      to_spdx pstring inv = Ok d -> spdx_view d' = spdx_view d ->
      purls_of (import_spdx pparse d') = filter_some (map print_parse_model (inv_purls (exportable_spdx inv))).
Proof. exact spdx_import_exact_lemma. Qed.
Print Assumptions spdx_import_exact.

Theorem cdx_import_exact :
  forall (pstring : purl -> bytes) (pparse : bytes -> option purl),
    (forall p, law_domain p = true -> pparse (pstring p) = norm p) ->
    (forall p, pstring p <> []) ->
    forall inv cs cs',
      forallb law_domain (inv_purls inv) = true ->
      to_cdx pstring inv = Ok cs -> cdx_view cs' = cdx_view cs ->
      purls_of (import_cdx pparse cs') = filter_some (map print_parse_model (inv_purls (exportable_cdx inv))).
Proof. exact cdx_import_exact_lemma. Qed.
Print Assumptions cdx_import_exact.

(* The property: the purls read back are, as a multiset, the normal forms of the exported ones -- on the
   domain D: every purl of the inventory has a type purl.validType accepts and a normal form *)
Theorem sbom_roundtrip_spdx_on_D :
  forall (pstring : purl -> bytes) (pparse : bytes -> option purl),
    (forall p, law_domain p = true -> pparse (pstring p) = norm p) ->
    forall inv d d',
      forallb law_domain (inv_purls inv) = true -> roundtrip_D inv = true ->
      to_spdx pstring inv = Ok d -> spdx_view d' = spdx_view d ->
      Permutation (map Some (purls_of (import_spdx pparse d'))) (map norm (inv_purls (exportable_spdx inv))).
Proof. exact sbom_roundtrip_spdx_on_D_lemma. Qed.
Print Assumptions sbom_roundtrip_spdx_on_D.

Theorem sbom_roundtrip_cdx_on_D :
  forall (pstring : purl -> bytes) (pparse : bytes -> option purl),
    (forall p, law_domain p = true -> pparse (pstring p) = norm p) ->
    (forall p, pstring p <> []) ->
    forall inv cs cs',
      forallb law_domain (inv_purls inv) = true -> roundtrip_D inv = true ->
      to_cdx pstring inv = Ok cs -> cdx_view cs' = cdx_view cs ->
      Permutation (map Some (purls_of (import_cdx pparse cs'))) (map norm (inv_purls (exportable_cdx inv))).
Proof. exact sbom_roundtrip_cdx_on_D_lemma. Qed.
Print Assumptions sbom_roundtrip_cdx_on_D.

(* D is implied by: every purl type is one the built-in extractors emit and packageurl-go can parse the
   printed purl back -- this is where C14's table theorem (emitted_types_valid, full strength) enters *)
Theorem emitted_inventories_in_D : forall inv,
  (forall p, In p (inv_purls inv) -> In (p_type p) emitted_types /\ norm p <> None) ->
  roundtrip_D inv = true.
Proof. exact emitted_inventories_in_D_lemma. Qed.
Print Assumptions emitted_inventories_in_D.

(* SPDX tag-value: the document ToSPDX23 builds is never inside the domain of the tag-value codec -- every
   package, starting with the synthetic main package, carries supplier type NOASSERTION, which the writer
   prints as "PackageSupplier: NOASSERTION: NOASSERTION" and the reader rejects. No tag-value export of
   the library can be read back, for any inventory. *)
Theorem spdx_tagvalue_export_unreadable : forall pstring inv d,
  to_spdx pstring inv = Ok d -> tv_supplier_all_ok d = false.
Proof. exact tv_supplier_never_ok. Qed.
Print Assumptions spdx_tagvalue_export_unreadable.

(* ---------------------------------------------------------------- non-vacuity *)
Definition mk (p : option purl) : pkg :=
  {| k_name := [110]%N; k_version := [49]%N; k_source := None; k_locations := [[108]%N]; k_has_extractor := true;
     k_extractor := [120]%N; k_purl := p; k_ecosystem := []; k_annotations := []; k_layer := None; k_cpes := [] |}.
Definition pu (t n v : bytes) : purl := {| p_type := t; p_ns := []; p_name := n; p_version := v; p_quals := []; p_subpath := [] |}.
Definition ex_inv15 : inventory :=
  [ mk (Some (pu [78;80;77]%N [70;111;111]%N [49]%N));      (* pkg:NPM/Foo@1 : normalised to npm/foo *)
    mk None;
    mk (Some (pu [100;101;98]%N [122]%N []%N));             (* deb, empty version: not exported to SPDX *)
    mk (Some (pu [78;80;77]%N [70;111;111]%N [49]%N)) ].    (* duplicate *)

(* a concrete third-party pair satisfying the premises on this inventory is not needed: the theorem's
   right-hand side is computed here to show D holds and the expected multiset is non-trivial *)
Example roundtrip_example :
  roundtrip_D ex_inv15 = true /\ forallb law_domain (inv_purls ex_inv15) = true /\
  map norm (inv_purls (exportable_spdx ex_inv15)) =
    [Some (pu [110;112;109]%N [102;111;111]%N [49]%N); Some (pu [110;112;109]%N [102;111;111]%N [49]%N)] /\
  length (inv_purls (exportable_cdx ex_inv15)) = 3.
Proof. vm_compute. repeat split; reflexivity. Qed.

(* regression: the os/snap package that used to be dropped on import is inside D now *)
Example snap_inside_D : roundtrip_D [snap_pkg] = true /\ importable snap_purl = true /\ In (p_type snap_purl) emitted_types.
Proof. vm_compute. repeat split; try reflexivity. tauto. Qed.

(* Byte strings (Go `string` = list of bytes) and the few string functions the converters use.
   Definitions only; proofs are in BytesProofs.v. *)
From Coq Require Import List NArith Bool.
Import ListNotations.
Open Scope N_scope.

Definition bytes := list N.

Fixpoint beq (a b : bytes) : bool :=
  match a, b with
  | [], [] => true
  | x :: a', y :: b' => N.eqb x y && beq a' b'
  | _, _ => false
  end.

Fixpoint bcmp (a b : bytes) : comparison :=
  match a, b with
  | [], [] => Eq
  | [], _ :: _ => Lt
  | _ :: _, [] => Gt
  | x :: a', y :: b' => match N.compare x y with Eq => bcmp a' b' | c => c end
  end.

Definition is_nil (a : bytes) : bool := match a with [] => true | _ => false end.

Definition is_upper (c : N) : bool := N.leb 65 c && N.leb c 90.
Definition is_lower (c : N) : bool := N.leb 97 c && N.leb c 122.
Definition is_digit (c : N) : bool := N.leb 48 c && N.leb c 57.
Definition is_alpha (c : N) : bool := is_upper c || is_lower c.

(* strings.ToLower restricted to what it does on ASCII letters; bytes >= 128 are left alone
   (the harness keeps non-ASCII letters with case mappings out of the lower-cased fields). *)
Definition lower_byte (c : N) : N := if is_upper c then c + 32 else c.
Definition to_lower (s : bytes) : bytes := map lower_byte s.

Definition slash : N := 47.

(* strings.Split(s, "/") *)
Fixpoint segs (s : bytes) : list bytes :=
  match s with
  | [] => [[]]
  | c :: r =>
      if N.eqb c slash then [] :: segs r
      else match segs r with
           | [] => [[c]]
           | h :: t => (c :: h) :: t
           end
  end.

(* strings.Join(l, "/") *)
Fixpoint join (l : list bytes) : bytes :=
  match l with
  | [] => []
  | [x] => x
  | x :: l' => x ++ slash :: join l'
  end.

Definition nonempty (s : bytes) : bool := negb (is_nil s).

(* strings.Trim(s, "/") *)
Fixpoint trim_left (s : bytes) : bytes :=
  match s with
  | c :: r => if N.eqb c slash then trim_left r else s
  | [] => []
  end.
Fixpoint trim_right (s : bytes) : bytes :=
  match s with
  | [] => []
  | c :: r => match trim_right r with
              | [] => if N.eqb c slash then [] else [c]
              | r' => c :: r'
              end
  end.
Definition trim_slash (s : bytes) : bytes := trim_right (trim_left s).

(* strings.ReplaceAll(s, "_", "-") *)
Definition underscore_to_dash (s : bytes) : bytes := map (fun c => if N.eqb c 95 then 45 else c) s.

(* strings.Contains *)
Fixpoint has_prefix (p s : bytes) : bool :=
  match p, s with
  | [], _ => true
  | x :: p', y :: s' => N.eqb x y && has_prefix p' s'
  | _ :: _, [] => false
  end.
Fixpoint contains (sub s : bytes) : bool :=
  has_prefix sub s || match s with [] => false | _ :: s' => contains sub s' end.

(* decimal printing (fmt %d of a non-negative int), with explicit fuel *)
Fixpoint dec_fuel (fuel : nat) (n : N) (acc : bytes) : bytes :=
  match fuel with
  | O => acc
  | S f => let d := 48 + N.modulo n 10 in
           let q := N.div n 10 in
           if N.eqb q 0 then d :: acc else dec_fuel f q (d :: acc)
  end.
Definition decimal (n : N) : bytes := dec_fuel 40 n [].

(* Length in bytes of the first rune of s as Go's utf8.DecodeRune sees it (invalid encodings have width 1). *)
Definition is_cont (c : N) : bool := N.leb 128 c && N.leb c 191.
Definition in_range (lo hi c : N) : bool := N.leb lo c && N.leb c hi.
Definition rune_width (s : bytes) : nat :=
  match s with
  | [] => 0%nat
  | c :: r =>
      if N.ltb c 128 then 1%nat
      else if in_range 194 223 c then
        match r with c1 :: _ => if is_cont c1 then 2%nat else 1%nat | _ => 1%nat end
      else if in_range 224 239 c then
        match r with
        | c1 :: c2 :: _ =>
            let lo := if N.eqb c 224 then 160 else 128 in
            let hi := if N.eqb c 237 then 159 else 191 in
            if in_range lo hi c1 && is_cont c2 then 3%nat else 1%nat
        | _ => 1%nat
        end
      else if in_range 240 244 c then
        match r with
        | c1 :: c2 :: c3 :: _ =>
            let lo := if N.eqb c 240 then 144 else 128 in
            let hi := if N.eqb c 244 then 143 else 191 in
            if in_range lo hi c1 && is_cont c2 && is_cont c3 then 4%nat else 1%nat
        | _ => 1%nat
        end
      else 1%nat
  end.

(* regexp.MustCompile(`[^a-zA-Z0-9.-]`).ReplaceAllString(id, "-"): every rune outside the class
   becomes one '-' (fuel = length of the string). *)
Definition spdx_id_char (c : N) : bool := is_alpha c || is_digit c || N.eqb c 46 || N.eqb c 45.
Fixpoint replace_invalid_fuel (fuel : nat) (s : bytes) : bytes :=
  match fuel with
  | O => []
  | S f =>
      match s with
      | [] => []
      | c :: r =>
          if N.ltb c 128 then (if spdx_id_char c then c else 45) :: replace_invalid_fuel f r
          else 45 :: replace_invalid_fuel f (skipn (rune_width s) s)
      end
  end.
Definition replace_spdx_id_invalid (s : bytes) : bytes := replace_invalid_fuel (length s) s.

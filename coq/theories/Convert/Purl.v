(* Model of purl/purl.go (validType, String, FromString) and of the normal form that
   packageurl-go v0.1.2 produces when a printed package URL is parsed back
   (ToString drops empty namespace segments; FromString ends with Normalize).
   Definitions only. *)
From Coq Require Import List NArith Bool.
From Scalibr Require Import Lib.SortSearch Convert.Bytes Convert.Generated_PurlTypes.
Import ListNotations.
Open Scope N_scope.

Record purl := {
  p_type : bytes; p_ns : bytes; p_name : bytes; p_version : bytes;
  p_quals : list (bytes * bytes); p_subpath : bytes }.

(* ---- purl/purl.go: validType (table regenerated from the source on every run) *)
Definition valid_type (t : bytes) : bool :=
  let t' := if valid_type_lowercases then to_lower t else t in
  existsb (beq t') valid_type_keys.

(* ---- packageurl-go: patterns *)
Definition type_first (c : N) : bool := is_alpha c || N.eqb c 46 || N.eqb c 45 || N.eqb c 43.
Definition type_rest (c : N) : bool := type_first c || is_digit c.
Definition type_pattern (t : bytes) : bool :=
  match t with [] => false | c :: r => type_first c && forallb type_rest r end.

Definition key_first (c : N) : bool := is_alpha c || N.eqb c 46 || N.eqb c 45 || N.eqb c 95.
Definition key_rest (c : N) : bool := key_first c || is_digit c.
Definition key_pattern (k : bytes) : bool :=
  match k with [] => false | c :: r => key_first c && forallb key_rest r end.

(* ---- qualifiers: parseQualifiers + Qualifiers.Normalize *)
Definition qcmp (a b : bytes * bytes) : comparison := bcmp (fst a) (fst b).

Fixpoint adjacent_dup (l : list (bytes * bytes)) : bool :=
  match l with
  | a :: ((b :: _) as l') => beq (fst a) (fst b) || adjacent_dup l'
  | _ => false
  end.

Definition key_ok (q : bytes * bytes) : bool := key_pattern (fst q).
Definition has_value (q : bytes * bytes) : bool := nonempty (snd q).
Definition lowerkey (q : bytes * bytes) : bytes * bytes := (to_lower (fst q), snd q).

Definition norm_quals (qs : list (bytes * bytes)) : option (list (bytes * bytes)) :=
  (* parseQualifiers validates the key as printed, Normalize the lower-cased key: the pattern is
     closed under lower-casing, so one test *)
  if negb (forallb key_ok qs) then None else
  let sorted := isort qcmp (map lowerkey (filter has_value qs)) in
  if adjacent_dup sorted then None else Some sorted.

Fixpoint qlookup (k : bytes) (qs : list (bytes * bytes)) : option bytes :=
  match qs with
  | [] => None
  | (k', v) :: r => if beq k k' then Some v else qlookup k r
  end.

(* ---- type specific adjustments *)
Definition s_alpm := [97;108;112;109]. Definition s_apk := [97;112;107].
Definition s_bitbucket := [98;105;116;98;117;99;107;101;116].
Definition s_bitnami := [98;105;116;110;97;109;105].
Definition s_composer := [99;111;109;112;111;115;101;114].
Definition s_deb := [100;101;98]. Definition s_github := [103;105;116;104;117;98].
Definition s_golang := [103;111;108;97;110;103]. Definition s_npm := [110;112;109].
Definition s_rpm := [114;112;109]. Definition s_qpkg := [113;112;107;103].
Definition s_pypi := [112;121;112;105]. Definition s_mlflow := [109;108;102;108;111;119].
Definition s_huggingface := [104;117;103;103;105;110;103;102;97;99;101].
Definition s_conan := [99;111;110;97;110]. Definition s_swift := [115;119;105;102;116].
Definition s_cran := [99;114;97;110].
Definition s_channel := [99;104;97;110;110;101;108].
Definition s_repository_url := [114;101;112;111;115;105;116;111;114;121;95;117;114;108].
Definition s_azureml := [97;122;117;114;101;109;108].
Definition s_databricks := [100;97;116;97;98;114;105;99;107;115].

Definition one_of (t : bytes) (l : list bytes) : bool := existsb (beq t) l.

Definition lowers_ns (t : bytes) : bool :=
  one_of t [s_alpm; s_apk; s_bitbucket; s_composer; s_deb; s_github; s_golang; s_npm; s_rpm; s_qpkg].
Definition lowers_name (t : bytes) : bool :=
  one_of t [s_alpm; s_apk; s_bitbucket; s_bitnami; s_composer; s_deb; s_github; s_golang; s_npm].

Definition adjust_ns (t ns : bytes) : bytes := if lowers_ns t then to_lower ns else ns.

Definition adjust_name (t name : bytes) (qs : list (bytes * bytes)) : bytes :=
  if lowers_name t
  then to_lower name
  else if beq t s_pypi then to_lower (underscore_to_dash name)
  else if beq t s_mlflow then
    match qlookup s_repository_url qs with
    | Some repo => if contains s_azureml repo then name
                   else if contains s_databricks repo then to_lower name else name
    | None => name
    end
  else name.

Definition adjust_version (t v : bytes) : bytes :=
  if beq t s_huggingface then to_lower v else v.

Definition custom_ok (p : purl) : bool :=
  if beq (p_type p) s_conan then
    match qlookup s_channel (p_quals p) with
    | Some v => if nonempty (p_ns p) then nonempty v else is_nil v
    | None => is_nil (p_ns p)
    end
  else if beq (p_type p) s_swift then nonempty (p_ns p) && nonempty (p_version p)
  else if beq (p_type p) s_cran then nonempty (p_version p)
  else true.

Definition clean_ns (ns : bytes) : bytes := join (filter nonempty (segs ns)).

Definition is_dot_seg (s : bytes) : bool := beq s [46] || beq s [46; 46].
Definition bad_subpath (s : bytes) : bool := existsb is_dot_seg (segs s).

(* what packageurl.FromString(p.ToString()) returns; None = an error *)
Definition norm (p : purl) : option purl :=
  let t := to_lower (p_type p) in
  if negb (type_pattern t) then None else
  match norm_quals (p_quals p) with
  | None => None
  | Some qs =>
      if is_nil (p_name p) then None else
      if bad_subpath (p_subpath p) then None else
      let q := {| p_type := t;
                  p_ns := adjust_ns t (clean_ns (p_ns p));
                  p_name := adjust_name t (p_name p) qs;
                  p_version := adjust_version t (p_version p);
                  p_quals := qs;
                  p_subpath := trim_slash (p_subpath p) |} in
      if custom_ok q then Some q else None
  end.

(* ---- where the model's lower-casing (ASCII letters only) coincides with Go's strings.ToLower.
   Go lower-cases with the Unicode tables and rewrites invalid UTF-8 to U+FFFD; the model's to_lower is
   exact on ASCII strings. law_domain: every field that norm lower-cases for this type is ASCII. *)
Definition ascii (s : bytes) : bool := forallb (fun c => N.ltb c 128) s.
Definition touched_ok (ok : bytes -> bool) (p : purl) : bool :=
  let t := to_lower (p_type p) in
  ascii (p_type p) &&
  (negb (lowers_ns t) || ok (p_ns p)) &&
  (negb (lowers_name t || beq t s_pypi || beq t s_mlflow) || ok (p_name p)) &&
  (negb (beq t s_huggingface) || ok (p_version p)).
Definition law_domain (p : purl) : bool := touched_ok ascii p.

(* the wider set on which the harness still checks the law: valid UTF-8 made of ASCII and runes from
   blocks without upper-case letters (Latin-1 punctuation, combining marks, general punctuation, CJK,
   kana, Hangul, emoji) *)
Fixpoint caseless_fuel (fuel : nat) (s : bytes) : bool :=
  match fuel with
  | O => true
  | S f =>
      match s with
      | [] => true
      | c :: r =>
          if N.ltb c 128 then caseless_fuel f r
          else
            let w := rune_width s in
            let ok :=
              match w, s with
              | 2%nat, a :: b :: _ => N.eqb a 194 || N.eqb a 204 || (N.eqb a 205 && N.leb b 175)
              | 3%nat, a :: b :: _ =>
                  (N.eqb a 226 && (N.eqb b 128 || N.eqb b 129)) || in_range 227 233 a || in_range 235 237 a
              | 4%nat, a :: b :: _ => N.eqb a 240 && N.eqb b 159
              | _, _ => false
              end in
            ok && caseless_fuel f (skipn w s)
      end
  end.
Definition caseless (s : bytes) : bool := caseless_fuel (length s) s.
Definition law_checked_domain (p : purl) : bool := touched_ok caseless p.

Definition qeq (a b : bytes * bytes) : bool := beq (fst a) (fst b) && beq (snd a) (snd b).
Fixpoint list_eqb {A} (e : A -> A -> bool) (a b : list A) : bool :=
  match a, b with
  | [], [] => true
  | x :: a', y :: b' => e x y && list_eqb e a' b'
  | _, _ => false
  end.
Definition purl_eqb (a b : purl) : bool :=
  beq (p_type a) (p_type b) && beq (p_ns a) (p_ns b) && beq (p_name a) (p_name b) &&
  beq (p_version a) (p_version b) && list_eqb qeq (p_quals a) (p_quals b) &&
  beq (p_subpath a) (p_subpath b).
Definition opt_eqb {A} (e : A -> A -> bool) (a b : option A) : bool :=
  match a, b with Some x, Some y => e x y | None, None => true | _, _ => false end.

(* ---- purl/purl.go on top of the third-party printer/parser *)
Section Codec.
  Variable pstring : purl -> bytes.          (* packageurl-go PackageURL.ToString *)
  Variable pparse : bytes -> option purl.    (* packageurl.FromString *)

  Definition to_string (p : purl) : bytes := pstring p.
  Definition from_string (s : bytes) : option purl :=
    match pparse s with
    | None => None
    | Some p => if valid_type (p_type p) then Some p else None
    end.
  Definition print_parse (p : purl) : option purl := from_string (to_string p).
End Codec.

(* the same composition with the third-party pair replaced by its law *)
Definition print_parse_model (p : purl) : option purl :=
  match norm p with
  | None => None
  | Some q => if valid_type (p_type q) then Some q else None
  end.

Definition s_snap : bytes := [115;110;97;112].
(* known finding: a pkg:cran purl without version (r/renvlock on an entry lacking "Version") is rejected by
   packageurl-go's type-specific rule "cran: version is required" *)
Definition known_unparseable (p : purl) : bool := beq (to_lower (p_type p)) s_cran && is_nil (p_version p).

(* Model of binary/proto/proto.go: packageToProto (without the metadata oneof) and the package
   part of ScanResultToProto. *)
From Coq Require Import List NArith ZArith Bool.
From Scalibr Require Import Convert.Bytes Convert.Purl Convert.Pkg Convert.Generated_ProtoMeta.
Import ListNotations.

Record proto_purl := {
  pp_purl : bytes; pp_type : bytes; pp_ns : bytes; pp_name : bytes; pp_version : bytes;
  pp_quals : list (bytes * bytes); pp_subpath : bytes }.
Record proto_layer := { pl_index : Z; pl_diffid : bytes; pl_command : bytes; pl_base : bool }.
Record proto_pkg := {
  pr_name : bytes; pr_version : bytes; pr_source : option (bytes * bytes);
  pr_purl : option proto_purl; pr_ecosystem : bytes; pr_locations : list bytes;
  pr_extractor : bytes; pr_annotations : list Z; pr_layer : option proto_layer }.

(* ---- setProtoMetadata: which oneof case the type switch selects for the dynamic type of Package.Metadata.
   A Go type switch takes the first clause whose type is identical to the dynamic type (pointer-to-T and T differ).
   The clause table is regenerated from binary/proto/proto.go on every run. None = no clause: the proto
   carries no metadata. *)
Definition meta_type := (bytes * bool)%type.      (* package path ++ "." ++ type name, is-pointer *)
Fixpoint case_lookup (t : meta_type) (l : list (bytes * bool * bytes)) : option bytes :=
  match l with
  | [] => None
  | (n, p, c) :: r => if beq (fst t) n && Bool.eqb (snd t) p then Some c else case_lookup t r
  end.
Definition proto_case_of (t : meta_type) : option bytes := case_lookup t proto_cases.
(* nil metadata: the switch has no nil clause *)
Definition set_proto_metadata_case (m : option meta_type) : option bytes :=
  match m with None => None | Some t => proto_case_of t end.

(* metadata types that extractor sources store into Package.Metadata but setProtoMetadata has no clause for
   (known on the current tree; the finite theorem every_emitted_metadata_type_has_proto_case_on_D excludes exactly these) *)
Definition s_javalockfile_Metadata : bytes := (* extractor/filesystem/language/java/javalockfile.Metadata *)
  [101;120;116;114;97;99;116;111;114;47;102;105;108;101;115;121;115;116;101;109;47;108;97;110;103;117;97;103;101;47;106;97;118;97;47;106;97;118;97;108;111;99;107;102;105;108;101;46;77;101;116;97;100;97;116;97]%N.
Definition s_osv_DepGroupMetadata : bytes := (* extractor/filesystem/osv.DepGroupMetadata *)
  [101;120;116;114;97;99;116;111;114;47;102;105;108;101;115;121;115;116;101;109;47;111;115;118;46;68;101;112;71;114;111;117;112;77;101;116;97;100;97;116;97]%N.
Definition s_netports_Metadata : bytes := (* extractor/standalone/os/netports.Metadata *)
  [101;120;116;114;97;99;116;111;114;47;115;116;97;110;100;97;108;111;110;101;47;111;115;47;110;101;116;112;111;114;116;115;46;77;101;116;97;100;97;116;97]%N.
Definition known_no_proto_case : list meta_type :=
  [ (s_javalockfile_Metadata, false);   (* java/pomxmlnet stores the struct by value; the clause is for the pointer *)
    (s_osv_DepGroupMetadata, false);    (* lockfile extractors' dependency-group metadata *)
    (s_netports_Metadata, true) ].      (* standalone os/netports *)
Definition meta_type_eqb (a b : meta_type) : bool := beq (fst a) (fst b) && Bool.eqb (snd a) (snd b).
Definition in_D_meta (t : meta_type) : bool := negb (existsb (meta_type_eqb t) known_no_proto_case).

(* int32(x) for a Go int *)
Definition wrap32 (z : Z) : Z := ((z + 2147483648) mod 4294967296 - 2147483648)%Z.

Definition annotation_to_proto (a : Z) : Z :=
  (if Z.eqb a 1 then 1 else if Z.eqb a 2 then 2 else if Z.eqb a 3 then 3 else 0)%Z.

Section Proto.
  Variable pstring : purl -> bytes.

  Definition purl_to_proto (p : purl) : proto_purl :=
    {| pp_purl := pstring p; pp_type := p_type p; pp_ns := p_ns p; pp_name := p_name p;
       pp_version := p_version p; pp_quals := p_quals p; pp_subpath := p_subpath p |}.

  Definition layer_to_proto (l : layer) : proto_layer :=
    {| pl_index := wrap32 (l_index l); pl_diffid := l_diffid l; pl_command := l_command l; pl_base := l_base l |}.

  Definition package_to_proto (k : pkg) : outcome proto_pkg :=
    if k_has_extractor k then
      Ok {| pr_name := k_name k; pr_version := k_version k; pr_source := k_source k;
            pr_purl := option_map purl_to_proto (k_purl k);
            pr_ecosystem := k_ecosystem k; pr_locations := k_locations k;
            pr_extractor := k_extractor k;
            pr_annotations := map annotation_to_proto (k_annotations k);
            pr_layer := option_map layer_to_proto (k_layer k) |}
    else Panic.

  Fixpoint packages_to_proto (inv : inventory) : outcome (list proto_pkg) :=
    match inv with
    | [] => Ok []
    | k :: r =>
        match package_to_proto k with
        | Panic => Panic
        | Ok x => match packages_to_proto r with Panic => Panic | Ok xs => Ok (x :: xs) end
        end
    end.

  (* ---- spec: the fields the property names are carried over verbatim *)
  Definition purl_preserved (p : option purl) (pp : option proto_purl) : bool :=
    match p, pp with
    | None, None => true
    | Some p, Some pp =>
        beq (pp_purl pp) (pstring p) && beq (pp_type pp) (p_type p) && beq (pp_ns pp) (p_ns p) &&
        beq (pp_name pp) (p_name p) && beq (pp_version pp) (p_version p) &&
        list_eqb qeq (pp_quals pp) (p_quals p) && beq (pp_subpath pp) (p_subpath p)
    | _, _ => false
    end.
  Definition layer_preserved (l : option layer) (pl : option proto_layer) : bool :=
    match l, pl with
    | None, None => true
    | Some l, Some pl =>
        Z.eqb (pl_index pl) (l_index l) && beq (pl_diffid pl) (l_diffid l) &&
        beq (pl_command pl) (l_command l) && Bool.eqb (pl_base pl) (l_base l)
    | _, _ => false
    end.
  Definition proto_spec_ok (k : pkg) (r : proto_pkg) : bool :=
    beq (pr_name r) (k_name k) && beq (pr_version r) (k_version k) &&
    blist_eqb (pr_locations r) (k_locations k) &&
    purl_preserved (k_purl k) (pr_purl r) && layer_preserved (k_layer k) (pr_layer r).
End Proto.

(* equality of observed and predicted records (correspondence) *)
Definition pair_eqb (a b : bytes * bytes) : bool := qeq a b.
Definition proto_purl_eqb (a b : proto_purl) : bool :=
  beq (pp_purl a) (pp_purl b) && beq (pp_type a) (pp_type b) && beq (pp_ns a) (pp_ns b) &&
  beq (pp_name a) (pp_name b) && beq (pp_version a) (pp_version b) &&
  list_eqb qeq (pp_quals a) (pp_quals b) && beq (pp_subpath a) (pp_subpath b).
Definition proto_layer_eqb (a b : proto_layer) : bool :=
  Z.eqb (pl_index a) (pl_index b) && beq (pl_diffid a) (pl_diffid b) &&
  beq (pl_command a) (pl_command b) && Bool.eqb (pl_base a) (pl_base b).
Definition proto_pkg_eqb (a b : proto_pkg) : bool :=
  beq (pr_name a) (pr_name b) && beq (pr_version a) (pr_version b) &&
  opt_eqb pair_eqb (pr_source a) (pr_source b) && opt_eqb proto_purl_eqb (pr_purl a) (pr_purl b) &&
  beq (pr_ecosystem a) (pr_ecosystem b) && blist_eqb (pr_locations a) (pr_locations b) &&
  beq (pr_extractor a) (pr_extractor b) && list_eqb Z.eqb (pr_annotations a) (pr_annotations b) &&
  opt_eqb proto_layer_eqb (pr_layer a) (pr_layer b).
Definition outcome_eqb {A} (e : A -> A -> bool) (a b : outcome A) : bool :=
  match a, b with Ok x, Ok y => e x y | Panic, Panic => true | _, _ => false end.

(* C14 - every emitted package is well-formed and convertible. Statements only; proofs in Proofs.v. *)
From Coq Require Import List NArith ZArith Bool Permutation.
From Scalibr Require Import Convert.Bytes Convert.Generated_PurlTypes Convert.Generated_ProtoMeta Convert.Purl Convert.Pkg Convert.Index
  Convert.Proto Convert.Sbom Convert.Proofs.
Import ListNotations.

(* ---------------------------------------------------------------- accepted purl types *)
(* every purl type a built-in extractor references is accepted by purl.validType (both tables regenerated from
   the Go sources on every run; full strength since `fix: purl.validType accepts snap`) *)
Theorem emitted_types_valid : forall t, In t emitted_types -> valid_type t = true.
Proof. exact emitted_types_valid_lemma. Qed.
Print Assumptions emitted_types_valid.

Theorem valid_type_case_insensitive : forall t, valid_type (to_lower t) = valid_type t.
Proof. exact valid_type_lower. Qed.
Print Assumptions valid_type_case_insensitive.

(* ---------------------------------------------------------------- print / parse *)
(* the normal form packageurl-go parses a printed URL to is a fixed point, for every package URL *)
Theorem norm_idempotent : forall p q, norm p = Some q -> norm q = Some q.
Proof. exact norm_fixed. Qed.
Print Assumptions norm_idempotent.

(* purl.FromString(p.String()): whatever third-party printer/parser pair satisfies the stated law,
   printing then parsing is idempotent (accepted or not). law_domain p: the fields packageurl-go lower-cases
   for p's type are ASCII -- there the model's lower-casing is Go's strings.ToLower (Unicode case tables and
   the U+FFFD rewrite of invalid UTF-8 are not modelled); the domain is closed under norm. *)
Theorem law_domain_closed_under_norm : forall p q, law_domain p = true -> norm p = Some q -> law_domain q = true.
Proof. exact law_domain_closed. Qed.
Print Assumptions law_domain_closed_under_norm.

Theorem purl_roundtrip_idempotent :
  forall (pstring : purl -> bytes) (pparse : bytes -> option purl),
    (forall p, law_domain p = true -> pparse (pstring p) = norm p) ->
    forall p q, law_domain p = true -> print_parse pstring pparse p = Some q -> print_parse pstring pparse q = Some q.
Proof. exact print_parse_idempotent. Qed.
Print Assumptions purl_roundtrip_idempotent.

(* ... and a URL that packageurl-go can normalise is accepted iff its type is in validType *)
Theorem purl_roundtrip_accepts :
  forall (pstring : purl -> bytes) (pparse : bytes -> option purl),
    (forall p, law_domain p = true -> pparse (pstring p) = norm p) ->
    forall p q, law_domain p = true -> norm p = Some q -> valid_type (p_type p) = true -> print_parse pstring pparse p = Some q.
Proof. exact print_parse_accepts. Qed.
Print Assumptions purl_roundtrip_accepts.

Theorem purl_roundtrip_rejects_invalid_type :
  forall (pstring : purl -> bytes) (pparse : bytes -> option purl),
    (forall p, law_domain p = true -> pparse (pstring p) = norm p) ->
    forall p, law_domain p = true -> valid_type (p_type p) = false -> print_parse pstring pparse p = None.
Proof. exact print_parse_rejects_invalid_type. Qed.
Print Assumptions purl_roundtrip_rejects_invalid_type.

(* ---------------------------------------------------------------- package index *)
Theorem index_returns_package : forall inv m i k p,
  index_new inv = Ok m -> nth_error inv i = Some k -> k_purl k = Some p ->
  In i (get_specific m (p_name p) (p_type p)) /\ In i (get_all_of_type m (p_type p)).
Proof. exact index_returns_package_lemma. Qed.
Print Assumptions index_returns_package.

(* GetSpecific returns exactly the packages with that purl type and name, in inventory order *)
Theorem index_get_specific_exact : forall inv m n t,
  index_new inv = Ok m -> get_specific m n t = spec_specific inv n t.
Proof. exact index_get_specific_exact_lemma. Qed.
Print Assumptions index_get_specific_exact.

(* GetAllOfType: exactly the packages of that purl type, in some (map iteration) order *)
Theorem index_get_all_of_type_exact : forall inv m t,
  index_new inv = Ok m -> Permutation (get_all_of_type m t) (spec_of_type inv t).
Proof. exact index_get_all_of_type_exact_lemma. Qed.
Print Assumptions index_get_all_of_type_exact.

(* ---------------------------------------------------------------- result proto *)
Theorem proto_preserves : forall pstring k r,
  layer_in_int32 k = true -> package_to_proto pstring k = Ok r -> proto_spec_ok pstring k r = true.
Proof. exact proto_preserves_lemma. Qed.
Print Assumptions proto_preserves.

Theorem proto_preserves_inventory : forall pstring inv rs,
  forallb layer_in_int32 inv = true -> packages_to_proto pstring inv = Ok rs ->
  zip_ok (proto_spec_ok pstring) inv rs = true.
Proof. exact packages_to_proto_preserves. Qed.
Print Assumptions proto_preserves_inventory.

(* setProtoMetadata: every metadata type that extractor sources store into Package.Metadata has a clause in the
   type switch (both tables regenerated from the Go sources on every run: a metadata struct added without a
   clause, or a dropped clause, breaks this at proof time). FALSE at full strength on the current tree: *)
Theorem every_emitted_metadata_type_has_proto_case_refuted :
  exists t, In t emitted_metadata_types /\ proto_case_of t = None.
Proof. exact emitted_metadata_has_case_refuted_lemma. Qed.
Print Assumptions every_emitted_metadata_type_has_proto_case_refuted.

(* ... and holds outside exactly three types (javalockfile.Metadata stored by value by java/pomxmlnet,
   osv.DepGroupMetadata, standalone netports.Metadata), each of which is emitted and has no clause *)
Theorem every_emitted_metadata_type_has_proto_case_on_D :
  forall t, In t emitted_metadata_types -> in_D_meta t = true -> proto_case_of t <> None.
Proof. exact emitted_metadata_has_case_on_D_lemma. Qed.
Print Assumptions every_emitted_metadata_type_has_proto_case_on_D.

Theorem metadata_exclusions_exact :
  forallb (fun t => existsb (meta_type_eqb t) emitted_metadata_types &&
                    match proto_case_of t with None => true | Some _ => false end) known_no_proto_case = true.
Proof. exact known_no_proto_case_exact. Qed.
Print Assumptions metadata_exclusions_exact.

(* ---------------------------------------------------------------- SPDX 2.3 *)
(* one record per package that has a purl with non-empty name and version (the exact filter), in order,
   carrying the purl verbatim, its name and version, the extractor name and the locations on the domain
   "at most two locations" (otherwise the first two) *)
Theorem spdx_preserves_on_D : forall pstring inv d,
  to_spdx pstring inv = Ok d -> spdx_spec_ok pstring spdx_locs_D inv d = true.
Proof. exact spdx_preserves_lemma. Qed.
Print Assumptions spdx_preserves_on_D.

Theorem spdx_exact_skips : forall pstring inv d,
  to_spdx pstring inv = Ok d -> length (sd_packages d) = S (length (filter spdx_exportable inv)).
Proof. exact spdx_exact_skips_lemma. Qed.
Print Assumptions spdx_exact_skips.

(* "every location is in the record" fails beyond two locations *)
Theorem spdx_locations_refuted :
  exists inv d, to_spdx (fun _ => []) inv = Ok d /\ spdx_spec_ok (fun _ => []) all_locations_mentioned inv d = false.
Proof. exact spdx_locations_refuted_lemma. Qed.
Print Assumptions spdx_locations_refuted.

(* ---------------------------------------------------------------- CycloneDX *)
Theorem cdx_preserves : forall pstring inv cs, to_cdx pstring inv = Ok cs -> cdx_spec_ok pstring inv cs = true.
Proof. exact cdx_preserves_lemma. Qed.
Print Assumptions cdx_preserves.

(* neither SBOM record depends on the layer details: they are not preserved by SPDX / CycloneDX export *)
Theorem sbom_records_ignore_layer_details : forall pstring k l,
  to_cdx_component pstring (set_layer k l) = to_cdx_component pstring k /\
  forall p, to_spdx_package pstring (set_layer k l) p = to_spdx_package pstring k p.
Proof. exact sbom_ignore_layer_lemma. Qed.
Print Assumptions sbom_records_ignore_layer_details.

(* ---------------------------------------------------------------- panics *)
(* the converters panic exactly when some package has no Extractor (never for emitted packages) *)
Theorem converters_panic_iff_nil_extractor : forall pstring inv,
  (index_new inv = Panic <-> all_have_extractor inv = false) /\
  (packages_to_proto pstring inv = Panic <-> all_have_extractor inv = false) /\
  (to_spdx pstring inv = Panic <-> all_have_extractor inv = false) /\
  (to_cdx pstring inv = Panic <-> all_have_extractor inv = false).
Proof. exact converters_panic_iff_lemma. Qed.
Print Assumptions converters_panic_iff_nil_extractor.

(* ---------------------------------------------------------------- non-vacuity *)
Definition ex_purl : purl :=
  {| p_type := [80;121;80;105]; p_ns := [47;65;47;47;66;47]; p_name := [65;95;98]; p_version := [49;46;48];
     p_quals := [([66], [49]); ([97], []); ([65], [50])]; p_subpath := [47;97;47;98;47] |}%N.
Definition ex_norm : purl :=
  {| p_type := [112;121;112;105]; p_ns := [65;47;66]; p_name := [97;45;98]; p_version := [49;46;48];
     p_quals := [([97], [50]); ([98], [49])]; p_subpath := [97;47;98] |}%N.

(* a package URL that really changes under normalisation, is accepted, and is a fixed point afterwards *)
Example norm_example : norm ex_purl = Some ex_norm /\ norm ex_norm = Some ex_norm /\ valid_type (p_type ex_purl) = true /\ law_domain ex_purl = true.
Proof. vm_compute. repeat split; reflexivity. Qed.

Definition ex_pkg (name : bytes) (locs : list bytes) (p : option purl) : pkg :=
  {| k_name := name; k_version := [49]%N; k_source := None; k_locations := locs; k_has_extractor := true;
     k_extractor := [111;115;47;100;112;107;103]%N; k_purl := p; k_ecosystem := []; k_annotations := [1%Z; 9%Z];
     k_layer := Some {| l_index := 3; l_diffid := [100]%N; l_command := [82;85;78]%N; l_base := true |}; k_cpes := [] |}.
Definition ex_inv : inventory :=
  [ ex_pkg [120]%N [[108;49]%N] (Some ex_norm); ex_pkg [121]%N [] None;
    ex_pkg [122]%N [[108;49]%N; [108;50]%N] (Some ex_norm);
    ex_pkg [119]%N [[108]%N] (Some {| p_type := [100;101;98]%N; p_ns := []; p_name := [119]%N; p_version := []; p_quals := []; p_subpath := [] |}) ].

(* the index finds both packages sharing a purl, skips the purl-less one; SPDX keeps 2 of 4 (nil purl and
   empty version skipped) plus the main package; CycloneDX keeps all 4; nothing panics *)
Example conversions_example :
  (match index_new ex_inv with Ok m => get_specific m [97;45;98]%N [112;121;112;105]%N | Panic => [] end) = [0; 2] /\
  (match to_spdx (fun _ => [112]%N) ex_inv with Ok d => length (sd_packages d) | Panic => 0 end) = 3 /\
  (match to_cdx (fun _ => [112]%N) ex_inv with Ok cs => length cs | Panic => 0 end) = 4 /\
  (match packages_to_proto (fun _ => [112]%N) ex_inv with Ok rs => length rs | Panic => 0 end) = 4 /\
  forallb layer_in_int32 ex_inv = true.
Proof. vm_compute. repeat split; reflexivity. Qed.

Example panic_example :
  to_cdx (fun _ => []) [set_layer (ex_pkg [120]%N [] None) None;
                        {| k_name := []; k_version := []; k_source := None; k_locations := []; k_has_extractor := false;
                           k_extractor := []; k_purl := None; k_ecosystem := []; k_annotations := []; k_layer := None; k_cpes := [] |}]
  = Panic.
Proof. vm_compute. reflexivity. Qed.

(* Model of converter/converter.go: ToSPDX23 and ToCDX, package part. Random UUIDs and the
   time stamp are projected away: an SPDX element id is kept as its deterministic prefix, and
   relationships refer to packages by position. *)
From Coq Require Import List NArith ZArith Bool.
From Scalibr Require Import Convert.Bytes Convert.Purl Convert.Pkg.
Import ListNotations.
Open Scope N_scope.

Record spdx_ref := { xr_category : bytes; xr_type : bytes; xr_locator : bytes }.
Record spdx_pkg := {
  sp_name : bytes; sp_id_prefix : bytes; sp_version : bytes;
  sp_supplier : bytes; sp_supplier_type : bytes; sp_download : bytes;
  sp_source_info : bytes; sp_refs : list spdx_ref }.
Inductive rel_end := RDoc | RPkg (i : nat) | RNoAssertion | ROther.
Record spdx_rel := { r_a : rel_end; r_b : rel_end; r_kind : bytes }.
Record spdx_doc := { sd_packages : list spdx_pkg; sd_rels : list spdx_rel }.

Record cdx_comp := {
  cc_type : bytes; cc_name : bytes; cc_version : bytes; cc_purl : bytes; cc_cpe : bytes;
  cc_occurrences : option (list bytes) }.

(* string constants (ASCII) *)
Definition s_NOASSERTION := [78;79;65;83;83;69;82;84;73;79;78].
Definition s_main := [109;97;105;110].
Definition s_zero := [48].
Definition s_main_prefix := (* "SPDXRef-Package-main-" *)
  [83;80;68;88;82;101;102;45;80;97;99;107;97;103;101;45;109;97;105;110;45].
Definition s_pkg_prefix := (* "SPDXRef-Package-" *)
  [83;80;68;88;82;101;102;45;80;97;99;107;97;103;101;45].
Definition s_identified := (* "Identified by the " *)
  [73;100;101;110;116;105;102;105;101;100;32;98;121;32;116;104;101;32].
Definition s_extractor := (* " extractor" *) [32;101;120;116;114;97;99;116;111;114].
Definition s_from := (* " from " *) [32;102;114;111;109;32].
Definition s_locations_including := (* " locations, including " *)
  [32;108;111;99;97;116;105;111;110;115;44;32;105;110;99;108;117;100;105;110;103;32].
Definition s_and := (* " and " *) [32;97;110;100;32].
Definition s_PACKAGE_MANAGER := [80;65;67;75;65;71;69;45;77;65;78;65;71;69;82].
Definition s_purl := [112;117;114;108].
Definition s_DESCRIBES := [68;69;83;67;82;73;66;69;83].
Definition s_CONTAINS := [67;79;78;84;65;73;78;83].
Definition s_library := [108;105;98;114;97;114;121].

Definition source_info (k : pkg) : bytes :=
  let base := s_identified ++ k_extractor k ++ s_extractor in
  match k_locations k with
  | [] => base
  | [l] => base ++ s_from ++ l
  | l0 :: l1 :: _ =>
      base ++ s_from ++ decimal (N.of_nat (length (k_locations k))) ++ s_locations_including ++ l0 ++ s_and ++ l1
  end.

(* the packages ToSPDX23 does not skip: purl present, purl name and version non-empty *)
Definition spdx_exportable (k : pkg) : bool :=
  match k_purl k with
  | None => false
  | Some p => nonempty (p_name p) && nonempty (p_version p)
  end.

Section Sbom.
  Variable pstring : purl -> bytes.

  Definition main_package : spdx_pkg :=
    {| sp_name := s_main; sp_id_prefix := s_main_prefix; sp_version := s_zero;
       sp_supplier := s_NOASSERTION; sp_supplier_type := s_NOASSERTION; sp_download := s_NOASSERTION;
       sp_source_info := []; sp_refs := [] |}.

  Definition to_spdx_package (k : pkg) (p : purl) : spdx_pkg :=
    {| sp_name := p_name p;
       sp_id_prefix := s_pkg_prefix ++ replace_spdx_id_invalid (p_name p) ++ [45];
       sp_version := p_version p;
       sp_supplier := s_NOASSERTION; sp_supplier_type := s_NOASSERTION; sp_download := s_NOASSERTION;
       sp_source_info := source_info k;
       sp_refs := [ {| xr_category := s_PACKAGE_MANAGER; xr_type := s_purl; xr_locator := pstring p |} ] |}.

  (* the loop body; n = number of SPDX packages appended so far (main package included) *)
  Fixpoint spdx_loop (inv : inventory) (n : nat) : list spdx_pkg * list spdx_rel :=
    match inv with
    | [] => ([], [])
    | k :: r =>
        match k_purl k with
        | Some p =>
            if nonempty (p_name p) && nonempty (p_version p) then
              let (ps, rs) := spdx_loop r (S n) in
              (to_spdx_package k p :: ps,
               {| r_a := RPkg 0; r_b := RPkg n; r_kind := s_CONTAINS |} ::
               {| r_a := RPkg n; r_b := RNoAssertion; r_kind := s_CONTAINS |} :: rs)
            else spdx_loop r n
        | None => spdx_loop r n
        end
    end.

  Definition to_spdx (inv : inventory) : outcome spdx_doc :=
    if all_have_extractor inv then
      let (ps, rs) := spdx_loop inv 1 in
      Ok {| sd_packages := main_package :: ps;
            sd_rels := {| r_a := RDoc; r_b := RPkg 0; r_kind := s_DESCRIBES |} :: rs |}
    else Panic.

  Definition to_cdx_component (k : pkg) : cdx_comp :=
    {| cc_type := s_library; cc_name := k_name k; cc_version := k_version k;
       cc_purl := match k_purl k with Some p => pstring p | None => [] end;
       cc_cpe := match k_cpes k with c :: _ => c | [] => [] end;
       cc_occurrences := match k_locations k with [] => None | ls => Some ls end |}.

  Definition to_cdx (inv : inventory) : outcome (list cdx_comp) :=
    if all_have_extractor inv then Ok (map to_cdx_component inv) else Panic.

  (* ---- specs, stated on an observed document *)

  (* SPDX: one record per exportable package, in order, after the synthetic main package; it carries the
     package URL verbatim (as the only external reference), the URL's name and version, the extractor
     name and the locations inside the free-text source info. *)
  Definition spdx_record_ok (locs_ok : pkg -> spdx_pkg -> bool) (k : pkg) (s : spdx_pkg) : bool :=
    match k_purl k with
    | None => false
    | Some p =>
        beq (sp_name s) (p_name p) && beq (sp_version s) (p_version p) &&
        match sp_refs s with
        | [r] => beq (xr_type r) s_purl && beq (xr_locator r) (pstring p)
        | _ => false
        end &&
        contains (k_extractor k) (sp_source_info s) && locs_ok k s
    end.
  Definition all_locations_mentioned (k : pkg) (s : spdx_pkg) : bool :=
    forallb (fun l => contains l (sp_source_info s)) (k_locations k).
  (* the part that holds for every package: the first two locations *)
  Definition first_two_locations_mentioned (k : pkg) (s : spdx_pkg) : bool :=
    forallb (fun l => contains l (sp_source_info s)) (firstn 2 (k_locations k)).

  Fixpoint zip_ok {A B} (f : A -> B -> bool) (a : list A) (b : list B) : bool :=
    match a, b with
    | [], [] => true
    | x :: a', y :: b' => f x y && zip_ok f a' b'
    | _, _ => false
    end.

  Definition spdx_spec_ok (locs_ok : pkg -> spdx_pkg -> bool) (inv : inventory) (d : spdx_doc) : bool :=
    match sd_packages d with
    | [] => false
    | m :: ps => beq (sp_name m) s_main && match sp_refs m with [] => true | _ => false end
                 && zip_ok (spdx_record_ok locs_ok) (filter spdx_exportable inv) ps
    end.

  (* CycloneDX: one component per package, in order, with name, version, package URL and all locations *)
  Definition cdx_record_ok (k : pkg) (c : cdx_comp) : bool :=
    beq (cc_name c) (k_name k) && beq (cc_version c) (k_version k) &&
    beq (cc_purl c) (match k_purl k with Some p => pstring p | None => [] end) &&
    blist_eqb (match cc_occurrences c with Some l => l | None => [] end) (k_locations k).
  Definition cdx_spec_ok (inv : inventory) (cs : list cdx_comp) : bool := zip_ok cdx_record_ok inv cs.
End Sbom.

(* at most two locations: the domain on which the SPDX record mentions every location *)
Definition at_most_two_locations (k : pkg) : bool := Nat.leb (length (k_locations k)) 2.
Definition spdx_locs_D (k : pkg) (s : spdx_pkg) : bool :=
  if at_most_two_locations k then all_locations_mentioned k s else first_two_locations_mentioned k s.

(* correspondence equalities *)
Definition spdx_ref_eqb (a b : spdx_ref) : bool :=
  beq (xr_category a) (xr_category b) && beq (xr_type a) (xr_type b) && beq (xr_locator a) (xr_locator b).
Definition spdx_pkg_eqb (a b : spdx_pkg) : bool :=
  beq (sp_name a) (sp_name b) && beq (sp_id_prefix a) (sp_id_prefix b) && beq (sp_version a) (sp_version b) &&
  beq (sp_supplier a) (sp_supplier b) && beq (sp_supplier_type a) (sp_supplier_type b) &&
  beq (sp_download a) (sp_download b) && beq (sp_source_info a) (sp_source_info b) &&
  list_eqb spdx_ref_eqb (sp_refs a) (sp_refs b).
Definition rel_end_eqb (a b : rel_end) : bool :=
  match a, b with
  | RDoc, RDoc | RNoAssertion, RNoAssertion | ROther, ROther => true
  | RPkg i, RPkg j => Nat.eqb i j
  | _, _ => false
  end.
Definition spdx_rel_eqb (a b : spdx_rel) : bool :=
  rel_end_eqb (r_a a) (r_a b) && rel_end_eqb (r_b a) (r_b b) && beq (r_kind a) (r_kind b).
Definition spdx_doc_eqb (a b : spdx_doc) : bool :=
  list_eqb spdx_pkg_eqb (sd_packages a) (sd_packages b) && list_eqb spdx_rel_eqb (sd_rels a) (sd_rels b).
Definition cdx_comp_eqb (a b : cdx_comp) : bool :=
  beq (cc_type a) (cc_type b) && beq (cc_name a) (cc_name b) && beq (cc_version a) (cc_version b) &&
  beq (cc_purl a) (cc_purl b) && beq (cc_cpe a) (cc_cpe b) &&
  opt_eqb blist_eqb (cc_occurrences a) (cc_occurrences b).

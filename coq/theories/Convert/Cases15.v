(* Evaluation of generated C15 cases: one case = one inventory exported with the real ToSPDX23 / ToCDX, written
   with spdx.Write23 / cdx.Write in every format and scanned back with the real SBOM extractors. *)
From Coq Require Import List NArith ZArith Bool.
From Scalibr Require Import Convert.Bytes Convert.Generated_PurlTypes Convert.Purl Convert.Pkg Convert.Proto
  Convert.Sbom Convert.SbomRoundtrip.
Import ListNotations.

Record scase := {
  q_pkgs : list (pkg * bytes);               (* package, String() of its purl *)
  q_spdx : list (option (list purl));        (* SPDX json, yaml: purls found by the scan; None = write or scan failed *)
  q_spdx_tv : option (list purl);            (* SPDX tag-value *)
  q_cdx : list (option (list purl));         (* per CycloneDX format (json, xml) *)
  q_codec_ok : bool }.                       (* decoded documents carry the encoded reference / purl fields *)

Definition q_inv (c : scase) : inventory := map fst (q_pkgs c).

Definition q_pstring (c : scase) (p : purl) : bytes :=
  match find (fun o => opt_eqb purl_eqb (k_purl (fst o)) (Some p)) (q_pkgs c) with
  | Some o => snd o | None => [] end.
(* packageurl.FromString on the strings of this case, through its law *)
Definition q_pparse (c : scase) (s : bytes) : option purl :=
  match find (fun o => match k_purl (fst o) with Some _ => beq (snd o) s | None => false end) (q_pkgs c) with
  | Some o => match k_purl (fst o) with Some p => norm p | None => None end
  | None => None end.

Definition model_spdx (c : scase) : option (list purl) :=
  match to_spdx (q_pstring c) (q_inv c) with
  | Ok d => Some (purls_of (import_spdx (q_pparse c) d))
  | Panic => None end.
Definition model_cdx (c : scase) : option (list purl) :=
  match to_cdx (q_pstring c) (q_inv c) with
  | Ok cs => Some (purls_of (import_cdx (q_pparse c) cs))
  | Panic => None end.

Definition obs_eq (m o : option (list purl)) : bool :=
  match m, o with Some a, Some b => ms_eqb purl_eqb a b | None, None => true | _, _ => false end.

(* tag-value: when the texts are safe for the (unescaped) tag-value syntax, the scan fails iff a supplier line
   cannot be read back; otherwise the model makes no prediction *)
Inductive prediction := Predict (o : option (list purl)) | NoPrediction.
Definition model_spdx_tv (c : scase) : prediction :=
  match to_spdx (q_pstring c) (q_inv c) with
  | Ok d => if negb (tv_text_safe d) then NoPrediction   (* the token stream itself is unpredictable: a "<text>" in a
                                                             name can swallow the following lines, supplier lines included *)
            else if tv_supplier_all_ok d then Predict (Some (purls_of (import_spdx (q_pparse c) d)))
            else Predict None
  | Panic => Predict None end.

Definition case_law_checked (c : scase) : bool := forallb law_checked_domain (inv_purls (q_inv c)).

Definition case_model_ok (c : scase) : bool :=
  negb (case_law_checked c) ||
  forallb (obs_eq (model_spdx c)) (q_spdx c) && forallb (obs_eq (model_cdx c)) (q_cdx c) &&
  match model_spdx_tv c with Predict m => obs_eq m (q_spdx_tv c) | NoPrediction => true end.

(* oracle: on the domain D the scan returns exactly the normal forms of the exported purls *)
Definition expected (l : list purl) : list (option purl) := map norm l.
Definition spec_eq (want : list (option purl)) (o : option (list purl)) : bool :=
  match o with Some got => ms_eqb (opt_eqb purl_eqb) want (map Some got) | None => false end.
Definition case_in_D (c : scase) : bool := all_have_extractor (q_inv c) && roundtrip_D (q_inv c) && case_law_checked c.
Definition case_spec_ok (c : scase) : bool :=
  negb (case_in_D c) ||
  (q_codec_ok c &&
   forallb (spec_eq (expected (inv_purls (exportable_spdx (q_inv c))))) (q_spdx c) &&
   forallb (spec_eq (expected (inv_purls (exportable_cdx (q_inv c))))) (q_cdx c) &&
   (* tag-value: claimed on the sub-domain where the document is inside the codec's domain (known finding:
      never the case on the current tree, every document carries the NOASSERTION supplier type) *)
   match to_spdx (q_pstring c) (q_inv c) with
   | Ok d => negb (tv_supplier_all_ok d && tv_text_safe d) ||
             spec_eq (expected (inv_purls (exportable_spdx (q_inv c)))) (q_spdx_tv c)
   | Panic => true end).

Fixpoint bad_from {A} (ok : A -> bool) (l : list A) (i : N) : list N :=
  match l with [] => [] | x :: r => if ok x then bad_from ok r (i + 1)%N else i :: bad_from ok r (i + 1)%N end.
Definition bad_indices {A} (ok : A -> bool) (l : list A) : list N := bad_from ok l 0%N.
Definition count_in_D (l : list scase) : N := N.of_nat (length (filter case_in_D l)).
Definition count_law_checked (l : list scase) : N := N.of_nat (length (filter case_law_checked l)).
Definition count_tv_readable (l : list scase) : N :=
  N.of_nat (length (filter (fun c => match to_spdx (q_pstring c) (q_inv c) with Ok d => tv_supplier_all_ok d | Panic => false end) l)).
Definition count_exportable (l : list scase) : N :=
  N.of_nat (length (filter (fun c => negb (match inv_purls (exportable_spdx (q_inv c)) with [] => true | _ => false end)) l)).

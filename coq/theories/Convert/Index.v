(* Model of packageindex/package_index.go. Packages are identified by their position in the
   slice given to New (pointer identity in Go). The two-level Go map is an association list;
   Go's map iteration order only matters for GetAll / GetAllOfType, whose result order is
   therefore unspecified (compared as sorted lists / up to permutation). *)
From Coq Require Import List NArith Bool Arith.
From Scalibr Require Import Convert.Bytes Convert.Purl Convert.Pkg.
Import ListNotations.

Definition name_map := list (bytes * list nat).
Definition type_map := list (bytes * name_map).

Fixpoint nm_append (n : bytes) (i : nat) (m : name_map) : name_map :=
  match m with
  | [] => [(n, [i])]
  | (n', l) :: r => if beq n n' then (n', l ++ [i]) :: r else (n', l) :: nm_append n i r
  end.

Fixpoint tm_append (t n : bytes) (i : nat) (m : type_map) : type_map :=
  match m with
  | [] => [(t, [(n, [i])])]
  | (t', nm) :: r => if beq t t' then (t', nm_append n i nm) :: r else (t', nm) :: tm_append t n i r
  end.

(* New: one pass over the packages; a nil purl is skipped; a nil Extractor panics *)
Fixpoint index_build (inv : inventory) (i : nat) (m : type_map) : type_map :=
  match inv with
  | [] => m
  | k :: r =>
      match k_purl k with
      | None => index_build r (S i) m
      | Some p => index_build r (S i) (tm_append (p_type p) (p_name p) i m)
      end
  end.

Definition index_new (inv : inventory) : outcome type_map :=
  if all_have_extractor inv then Ok (index_build inv 0 []) else Panic.

Fixpoint nm_get (n : bytes) (m : name_map) : list nat :=
  match m with [] => [] | (n', l) :: r => if beq n n' then l else nm_get n r end.
Fixpoint tm_get (t : bytes) (m : type_map) : name_map :=
  match m with [] => [] | (t', nm) :: r => if beq t t' then nm else tm_get t r end.

Definition get_specific (m : type_map) (name t : bytes) : list nat := nm_get name (tm_get t m).
(* order = one possible map iteration order *)
Definition get_all_of_type (m : type_map) (t : bytes) : list nat := concat (map snd (tm_get t m)).
Definition get_all (m : type_map) : list nat := concat (map (fun e => concat (map snd (snd e))) m).

(* ---- spec: plain filters over the inventory *)
Fixpoint positions_from (f : pkg -> bool) (inv : inventory) (i : nat) : list nat :=
  match inv with
  | [] => []
  | k :: r => if f k then i :: positions_from f r (S i) else positions_from f r (S i)
  end.
Definition has_type_name (t n : bytes) (k : pkg) : bool :=
  match k_purl k with Some p => beq t (p_type p) && beq n (p_name p) | None => false end.
Definition has_type (t : bytes) (k : pkg) : bool :=
  match k_purl k with Some p => beq t (p_type p) | None => false end.
Definition spec_specific (inv : inventory) (name t : bytes) : list nat := positions_from (has_type_name t name) inv 0.
Definition spec_of_type (inv : inventory) (t : bytes) : list nat := positions_from (has_type t) inv 0.

Definition mem_nat (i : nat) (l : list nat) : bool := existsb (Nat.eqb i) l.

Fixpoint insert_nat (x : nat) (l : list nat) : list nat :=
  match l with [] => [x] | y :: r => if Nat.leb x y then x :: l else y :: insert_nat x r end.
Definition sort_nat (l : list nat) : list nat := fold_right insert_nat [] l.
Definition nat_list_eqb (a b : list nat) : bool := list_eqb Nat.eqb a b.

(* C05 - proofs about trace (PopulateLayerDetails) and history alignment. *)
From Coq Require Import List NArith Bool Arith Lia.
From Scalibr Require Import Trace.Model.
Import ListNotations.

(* ------------------------------------------------------------------ views *)
Definition step (o : op) (acc : option (list N)) : option (list N) :=
  match o with Keep => acc | Write c => Some c | Delete => None end.

Lemma view_upto_app l o acc : view_upto (l ++ [o]) acc = step o (view_upto l acc).
Proof.
  revert acc. induction l as [|x l IH]; intros acc; cbn.
  - destruct o; reflexivity.
  - destruct x; apply IH.
Qed.

Lemma firstn_S_nth {A} (l : list A) (d : A) i : i < length l -> firstn (S i) l = firstn i l ++ [nth i l d].
Proof.
  revert i. induction l as [|x l IH]; intros i H; cbn in H; [lia|].
  destruct i as [|i]; [reflexivity|].
  change (firstn (S (S i)) (x :: l)) with (x :: firstn (S i) l).
  change (firstn (S i) (x :: l)) with (x :: firstn i l). cbn [nth]. rewrite (IH i) by lia. reflexivity.
Qed.

Lemma view_0 ops : 0 < length ops -> view ops 0 = step (op_at ops 0) None.
Proof.
  intros H. unfold view, op_at. destruct ops as [|o ops]; [cbn in H; lia|]. cbn. destruct o; reflexivity.
Qed.

Lemma view_S ops i : S i < length ops -> view ops (S i) = step (op_at ops (S i)) (view ops i).
Proof.
  intros H. unfold view, op_at. rewrite (firstn_S_nth ops Keep (S i) H). apply view_upto_app.
Qed.

Lemma view_keep_run ops i : forall j, i <= j -> j < length ops ->
  (forall x, i < x -> x <= j -> op_at ops x = Keep) -> view ops j = view ops i.
Proof.
  induction j as [|j IH]; intros Hij Hj HK.
  - replace i with 0 by lia. reflexivity.
  - destruct (Nat.eq_dec i (S j)) as [->|Hne]; [reflexivity|].
    rewrite (view_S ops j Hj), (HK (S j)) by lia. cbn [step]. apply IH; [lia|lia|].
    intros x H1 H2. apply HK; lia.
Qed.



(* ------------------------------------------------------------------ origin, over abstract views *)
Section WalkProofs.
  Variable vw : nat -> option (list N).
  Variable ex : nat -> bool.
  Variable n : nat.

  Notation present := (present vw).
  Notation origin := (origin vw n).
  Notation is_origin := (is_origin vw n).

  Lemma present_from_spec p L :
    present_from vw n p L = true <-> (forall j, L <= j -> j < n -> present p j = true).
  Proof.
    unfold present_from. rewrite forallb_forall. split.
    - intros H j H1 H2. apply H. apply in_seq. lia.
    - intros H j Hj. apply in_seq in Hj. apply H; lia.
  Qed.

  Lemma find_seq_first (f : nat -> bool) L : forall m s,
    s <= L -> L < s + m -> (forall x, s <= x -> x < L -> f x = false) -> f L = true ->
    find f (seq s m) = Some L.
  Proof.
    induction m as [|m IH]; intros s H1 H2 H3 H4; [lia|]. cbn [seq find].
    destruct (Nat.eq_dec s L) as [->|Hne]; [rewrite H4; reflexivity|].
    rewrite (H3 s) by lia. apply IH; try lia; auto. intros x Hx1 Hx2. apply H3; lia.
  Qed.

  Lemma origin_unique_lemma p L : is_origin p L -> origin p = L.
  Proof.
    intros [HL [Hfrom Hprev]]. unfold Model.origin.
    rewrite (find_seq_first (present_from vw n p) L n 0); auto; try lia.
    - intros x _ Hx. destruct (present_from vw n p x) eqn:E; [|reflexivity].
      exfalso. rewrite present_from_spec in E. destruct Hprev as [->|Habs]; [lia|].
      rewrite (E (pred L)) in Habs; [discriminate|lia|lia].
    - apply present_from_spec. exact Hfrom.
  Qed.

  Lemma origin_correct_lemma p :
    0 < n -> present p (pred n) = true ->
    is_origin p (origin p) /\
    (forall L', (forall j, L' <= j -> j < n -> present p j = true) -> origin p <= L').
  Proof.
    intros Hn Hlast.
    assert (Hex : exists L, is_origin p L).
    { assert (G : forall k, k < n ->
                   (forall j, k <= j -> j < n -> present p j = true) -> exists L, is_origin p L).
      { induction k as [|k IH]; intros Hk Hall.
        - exists 0. split; [exact Hk|]. split; [exact Hall|left; reflexivity].
        - destruct (present p k) eqn:E.
          + apply IH; [lia|]. intros j H1 H2. destruct (Nat.eq_dec j k) as [->|]; [exact E|apply Hall; lia].
          + exists (S k). split; [exact Hk|]. split; [exact Hall|right; exact E]. }
      apply (G (pred n)); [lia|]. intros j H1 H2. replace j with (pred n) by lia. exact Hlast. }
    destruct Hex as [L HL]. rewrite (origin_unique_lemma _ _ HL). split; [exact HL|].
    intros L' HL'. destruct HL as [HLn [_ [->|Habs]]]; [lia|].
    destruct (le_lt_dec L L') as [|Hlt]; [assumption|]. rewrite (HL' (pred L)) in Habs; [discriminate|lia|lia].
  Qed.

  (* ---------------------------------------------------------------- the loop *)
  Definition cache_ok (loc : N) (c : cache) : Prop :=
    forall i v, cache_get c loc i = Some v -> v = content (vw i).

  Lemma cache_put_ok loc c i :
    cache_ok loc c -> cache_ok loc (cache_put c loc i (content (vw i))).
  Proof.
    intros H j v. unfold cache_put. cbn [cache_get]. rewrite N.eqb_refl. cbn [andb].
    destruct (Nat.eqb i j) eqn:E.
    - apply Nat.eqb_eq in E. subst j. intros G. injection G as <-. reflexivity.
    - apply H.
  Qed.

  Hypothesis Hskip : skip_sound vw ex n.
  Hypothesis Hnc : no_cancel vw n.

  Notation walk := (walk vw ex).

  Lemma walk_correct loc p : forall k last c,
    cache_ok loc c ->
    k <= last -> last < n ->
    (forall j, last <= j -> j < n -> present p j = true) ->
    (forall j, k <= j -> j < last -> j <> 0 /\ vw j = vw (pred j)) ->
    fst (fst (walk loc p k last c false)) = origin p /\
    cache_ok loc (snd (fst (walk loc p k last c false))) /\
    snd (walk loc p k last c false) = false.
  Proof.
    induction k as [|i IH]; intros last c Hc Hkl Hlast Hpres Hrunk.
    - cbn [Model.walk fst snd]. split; [|split; [exact Hc|reflexivity]]. symmetry. apply origin_unique_lemma.
      destruct (Nat.eq_dec last 0) as [->|Hne].
      + split; [exact Hlast|]. split; [intros j _ Hj; apply Hpres; lia|left; reflexivity].
      + exfalso. destruct (Hrunk 0) as [H0 _]; [lia|lia|]. apply H0. reflexivity.
    - (* the layers strictly between i and last were skipped: their views equal view i *)
      assert (Hrun : forall j, i <= j -> j < last -> vw j = vw i).
      { induction j as [|j IHj]; intros H1 H2.
        - replace i with 0 by lia. reflexivity.
        - destruct (Nat.eq_dec i (S j)) as [->|Hne]; [reflexivity|].
          destruct (Hrunk (S j)) as [_ E]; [lia|lia|]. rewrite E. cbn [pred]. apply IHj; lia. }
      assert (Hdecide :
        let c' := cache_put c loc i (content (vw i)) in
        let r := if mem p (content (vw i)) then walk loc p i i c' false else (last, c', false) in
        fst (fst r) = origin p /\ cache_ok loc (snd (fst r)) /\ snd r = false).
      { cbn zeta. pose proof (cache_put_ok loc c i Hc) as Hc'.
        destruct (mem p (content (vw i))) eqn:Em.
        - apply IH; auto; try lia.
          intros j H1 H2. destruct (le_lt_dec last j) as [|Hlt]; [apply Hpres; assumption|].
          unfold Model.present. rewrite (Hrun j H1 Hlt). exact Em.
        - cbn [fst snd]. split; [|split; [exact Hc'|reflexivity]]. symmetry. apply origin_unique_lemma.
          split; [exact Hlast|]. split; [exact Hpres|]. right.
          unfold Model.present. rewrite (Hrun (pred last)) by lia. exact Em. }
      cbn [Model.walk]. destruct (cache_get c loc i) as [old|] eqn:Eg.
      + rewrite (Hc i old Eg). exact Hdecide.
      + destruct (vw i) as [cont|] eqn:Ev.
        * destruct (ex i) eqn:Ee.
          -- rewrite (Hnc i cont) by (auto; lia). cbn [content] in Hdecide. exact Hdecide.
          -- (* the skip branch *)
             destruct (Hskip i) as [Hi0 Hprev]; [lia|exact Ee|rewrite Ev; discriminate|].
             apply IH; auto; try lia.
             intros j H1 H2. destruct (Nat.eq_dec j i) as [->|]; [split; [exact Hi0|exact Hprev]|apply Hrunk; lia].
        * cbn [content] in Hdecide. exact Hdecide.
  Qed.
End WalkProofs.

Lemma walk_eq_origin_lemma vw ex n loc p c :
  skip_sound vw ex n -> no_cancel vw n ->
  cache_ok vw loc c -> 0 < n -> present vw p (pred n) = true ->
  fst (fst (walk vw ex loc p (pred n) (pred n) c false)) = origin vw n p /\
  cache_ok vw loc (snd (fst (walk vw ex loc p (pred n) (pred n) c false))) /\
  snd (walk vw ex loc p (pred n) (pred n) c false) = false.
Proof.
  intros Hs Hnc Hc Hn Hp. apply (walk_correct vw ex n Hs Hnc); auto; try lia.
  intros j H1 H2. replace j with (pred n) by lia. exact Hp.
Qed.

Lemma no_cancel_b vw n :
  forallb (fun i => match vw i with Some c => negb (mem cancel_marker c) | None => true end) (seq 0 n) = true ->
  no_cancel vw n.
Proof.
  rewrite forallb_forall. intros H i cont Hi Hv. specialize (H i). rewrite Hv in H.
  apply negb_true_iff. apply H. apply in_seq. lia.
Qed.

(* the walk for one location only adds cache entries for that location *)
Lemma walk_other_loc vw ex loc p loc' : loc <> loc' -> forall k last c cn j,
  cache_get (snd (fst (walk vw ex loc p k last c cn))) loc' j = cache_get c loc' j.
Proof.
  intros Hne. induction k as [|i IH]; intros last c cn j; cbn [walk]; [reflexivity|].
  assert (Hput : forall v, cache_get (cache_put c loc i v) loc' j = cache_get c loc' j).
  { intros v. unfold cache_put. cbn [cache_get]. destruct (N.eqb_spec loc loc'); [contradiction|reflexivity]. }
  assert (Hdecide : forall old cn',
    cache_get (snd (fst (if mem p old then walk vw ex loc p i i (cache_put c loc i old) cn' else (last, cache_put c loc i old, cn')))) loc' j
    = cache_get c loc' j).
  { intros old cn'. destruct (mem p old); [rewrite IH|cbn [fst snd]]; apply Hput. }
  destruct (cache_get c loc i); [apply Hdecide|].
  destruct (vw i); [|apply Hdecide].
  destruct (ex i); [|apply IH].
  destruct cn; [reflexivity|apply Hdecide].
Qed.

Lemma forallb_ext_in_local {A} (f g : A -> bool) l : (forall x, In x l -> f x = g x) -> forallb f l = forallb g l.
Proof.
  induction l as [|x l IH]; intros H; [reflexivity|]. cbn [forallb].
  rewrite (H x) by (left; reflexivity). rewrite IH; [reflexivity|]. intros y Hy. apply H. right. exact Hy.
Qed.

(* presence, origin and is_origin only look at the views below n *)
Lemma origin_ext vw vw' n p : (forall i, i < n -> vw i = vw' i) -> origin vw n p = origin vw' n p.
Proof.
  intros H. unfold origin. f_equal.
  assert (E : forall L, In L (seq 0 n) -> present_from vw n p L = present_from vw' n p L).
  { intros L HL. unfold present_from. apply forallb_ext_in_local. intros j Hj. apply in_seq in Hj.
    unfold present. rewrite H by lia. reflexivity. }
  clear H. induction (seq 0 n) as [|x l IH]; [reflexivity|]. cbn [find].
  rewrite (E x) by (left; reflexivity). destruct (present_from vw' n p x); [reflexivity|].
  apply IH. intros L HL. apply E. right. exact HL.
Qed.

(* ------------------------------------------------------------------ whole-file histories *)
Lemma skip_sound_ops ops extra :
  skip_sound (view ops) (fun i => diff ops i || extra i) (length ops).
Proof.
  intros i Hi He Hv. apply orb_false_iff in He as [Hd _].
  assert (Hop : op_at ops i = Keep).
  { unfold diff in Hd. destruct (op_at ops i) eqn:Eo; [reflexivity|discriminate|].
    exfalso. apply Hv. destruct i as [|i'].
    - rewrite view_0 by lia. rewrite Eo. reflexivity.
    - rewrite view_S by lia. rewrite Eo. reflexivity. }
  destruct i as [|i'].
  - exfalso. apply Hv. rewrite view_0 by lia. rewrite Hop. reflexivity.
  - split; [discriminate|]. rewrite view_S by lia. rewrite Hop. reflexivity.
Qed.

Lemma trace_one_correct ops extra loc p c :
  cache_ok (view ops) loc c -> 0 < length ops -> present (view ops) p (pred (length ops)) = true ->
  no_cancel (view ops) (length ops) ->
  fst (fst (trace_one ops extra loc p c)) = origin (view ops) (length ops) p /\
  cache_ok (view ops) loc (snd (fst (trace_one ops extra loc p c))).
Proof.
  intros Hc Hn Hp Hnc. unfold trace_one.
  destruct (walk_correct (view ops) (fun i => diff ops i || extra i) (length ops) (skip_sound_ops ops extra) Hnc
              loc p (pred (length ops)) (pred (length ops)) c Hc) as [H1 [H2 _]]; auto; try lia.
  intros j H1 H2. replace j with (pred (length ops)) by lia. exact Hp.
Qed.

(* ------------------------------------------------------------------ images *)
Lemma lops_length h loc : length (lops_of h loc) = length h.
Proof. unfold lops_of. apply map_length. Qed.

Lemma fold_left_app_one {A B} (f : A -> B -> A) l x a : fold_left f (l ++ [x]) a = f (fold_left f l a) x.
Proof. rewrite fold_left_app. reflexivity. Qed.

Lemma lstate_0 h loc : 0 < length h -> lstate h loc 0 = lstep SNone (nth 0 (lops_of h loc) LKeep).
Proof.
  intros H. unfold lstate. rewrite <- (lops_length h loc) in H. destruct (lops_of h loc); [cbn in H; lia|]. reflexivity.
Qed.

Lemma lstate_S h loc i : S i < length h -> lstate h loc (S i) = lstep (lstate h loc i) (nth (S i) (lops_of h loc) LKeep).
Proof.
  intros H. unfold lstate. rewrite <- (lops_length h loc) in H.
  rewrite (firstn_S_nth (lops_of h loc) LKeep (S i) H). apply fold_left_app_one.
Qed.

Lemma nth_lops h loc i : i < length h -> nth i (lops_of h loc) LKeep = assoc_op (cl_ops (nth i h (mkCL 0 0 true []))) loc.
Proof.
  intros H. unfold lops_of. rewrite (nth_indep _ LKeep (assoc_op (cl_ops (mkCL 0 0 true [])) loc)) by (rewrite map_length; exact H).
  apply (map_nth (fun L => assoc_op (cl_ops L) loc)).
Qed.

Lemma link_free_nth h loc i : link_free h loc = true -> forall t, nth i (lops_of h loc) LKeep <> LLink t.
Proof.
  unfold link_free. rewrite forallb_forall. intros H t E.
  destruct (le_lt_dec (length (lops_of h loc)) i) as [Hge|Hlt].
  - rewrite nth_overflow in E by exact Hge. discriminate.
  - specialize (H _ (nth_In _ LKeep Hlt)). rewrite E in H. discriminate.
Qed.

Lemma link_free_state h loc : link_free h loc = true -> forall i, i < length h -> forall t, lstate h loc i <> SSym t.
Proof.
  intros Hlf. induction i as [|i IH]; intros Hi t.
  - rewrite lstate_0 by lia. pose proof (link_free_nth h loc 0 Hlf) as Hn.
    destruct (nth 0 (lops_of h loc) LKeep) eqn:E; cbn; try discriminate. exfalso. exact (Hn t0 eq_refl).
  - rewrite lstate_S by lia. pose proof (link_free_nth h loc (S i) Hlf) as Hn.
    destruct (nth (S i) (lops_of h loc) LKeep) eqn:E; cbn; try discriminate.
    + apply IH. lia.
    + exfalso. exact (Hn t0 eq_refl).
Qed.

(* the premise of the general theorem holds when the first location is never a symbolic link *)
Lemma skip_sound_image h locs :
  link_free h (primary locs) = true -> locs <> [] ->
  skip_sound (lview h (primary locs)) (lexist h locs) (length h).
Proof.
  intros Hlf Hne i Hi He Hv. destruct locs as [|loc rest]; [contradiction|]. cbn [primary hd] in *.
  unfold lexist in He. cbn [existsb] in He. apply orb_false_iff in He as [He _].
  rewrite <- (nth_lops h loc i Hi) in He.
  pose proof (link_free_nth h loc i Hlf) as Hnl.
  assert (Hop : nth i (lops_of h loc) LKeep = LKeep \/ nth i (lops_of h loc) LKeep = LDelete).
  { destruct (nth i (lops_of h loc) LKeep) eqn:E; auto; [discriminate|exfalso; exact (Hnl t eq_refl)]. }
  destruct i as [|i'].
  - exfalso. apply Hv. unfold lview. rewrite lstate_0 by lia. destruct Hop as [Hop | Hop]; rewrite Hop; reflexivity.
  - split; [discriminate|]. cbn [pred]. destruct Hop as [Hop | Hop].
    + unfold lview. rewrite lstate_S by lia. rewrite Hop. cbn [lstep].
      pose proof (link_free_state h loc Hlf i') as Hs. destruct (lstate h loc i') eqn:E; try reflexivity.
      exfalso. apply (Hs ltac:(lia) t). reflexivity.
    + exfalso. apply Hv. unfold lview. rewrite lstate_S by lia. rewrite Hop. reflexivity.
Qed.

Definition cache_ok_all (h : list clayer) (c : cache) : Prop := forall loc, cache_ok (lview h loc) loc c.

Definition pkg_ok (h : list clayer) (lp : pkgref) : Prop :=
  fst lp <> [] /\ link_free h (primary (fst lp)) = true /\
  present (lview h (primary (fst lp))) (snd lp) (pred (length h)) = true /\
  no_cancel (lview h (primary (fst lp))) (length h).

Lemma trace_all_correct h : forall pkgs c,
  cache_ok_all h c -> 0 < length h ->
  (forall lp, In lp pkgs -> pkg_ok h lp) ->
  trace_all h pkgs c false = map (fun lp => origin (lview h (primary (fst lp))) (length h) (snd lp)) pkgs.
Proof.
  induction pkgs as [|[locs p] r IH]; intros c Hc Hn Hin; [reflexivity|].
  cbn [trace_all map fst snd].
  destruct (Hin (locs, p) (or_introl eq_refl)) as [Hne [Hlf [Hp Hnc]]]. cbn [fst snd] in *.
  destruct (walk_correct (lview h (primary locs)) (lexist h locs) (length h) (skip_sound_image h locs Hlf Hne) Hnc
              (primary locs) p (pred (length h)) (pred (length h)) c (Hc (primary locs))) as [Ho [Hc' Hcn]]; try lia.
  { intros j H1 H2. replace j with (pred (length h)) by lia. exact Hp. }
  destruct (walk (lview h (primary locs)) (lexist h locs) (primary locs) p (pred (length h)) (pred (length h)) c false)
    as [[o c'] cn] eqn:Et. cbn [fst snd] in Ho, Hc', Hcn. subst cn.
  rewrite Ho. f_equal. apply IH; auto.
  - intros loc'. destruct (N.eq_dec (primary locs) loc') as [<-|Hneq]; [exact Hc'|].
    intros i v Hg. apply (Hc loc' i v). rewrite <- Hg.
    pose proof (walk_other_loc (lview h (primary locs)) (lexist h locs) (primary locs) p loc' Hneq
      (pred (length h)) (pred (length h)) c false i) as W.
    rewrite Et in W. cbn [fst snd] in W. symmetry. exact W.
  - intros lp H. apply Hin. right. exact H.
Qed.

(* for a location that is never a link, the view is the overlay of its whole-file operations *)
Lemma ops_of_length h loc : length (ops_of h loc) = length h.
Proof. unfold ops_of. rewrite map_length. apply lops_length. Qed.

Lemma lview_link_free h loc : link_free h loc = true -> forall i, i < length h -> lview h loc i = view (ops_of h loc) i.
Proof.
  intros Hlf.
  assert (G : forall i, i < length h ->
            match lstate h loc i with SNone => view (ops_of h loc) i = None | SFile c => view (ops_of h loc) i = Some c | SSym _ => False end).
  { induction i as [|i IH]; intros Hi.
    - rewrite lstate_0 by lia. rewrite view_0 by (rewrite ops_of_length; lia). unfold op_at, ops_of.
      rewrite (nth_indep _ Keep (strip LKeep)) by (rewrite map_length, lops_length; lia). rewrite map_nth.
      pose proof (link_free_nth h loc 0 Hlf) as Hn.
      destruct (nth 0 (lops_of h loc) LKeep) eqn:E; cbn; try reflexivity. exact (Hn t eq_refl).
    - rewrite lstate_S by lia. rewrite view_S by (rewrite ops_of_length; lia). unfold op_at, ops_of.
      rewrite (nth_indep _ Keep (strip LKeep)) by (rewrite map_length, lops_length; lia). rewrite map_nth.
      pose proof (link_free_nth h loc (S i) Hlf) as Hn. specialize (IH ltac:(lia)).
      destruct (nth (S i) (lops_of h loc) LKeep) eqn:E; cbn [lstep strip step]; try reflexivity.
      + fold (ops_of h loc). exact IH.
      + exact (Hn t eq_refl). }
  intros i Hi. specialize (G i Hi). unfold lview. destruct (lstate h loc i); [symmetry; exact G|symmetry; exact G|contradiction].
Qed.

(* ------------------------------------------------------------------ corollaries *)
(* a package written by layer c, absent just before, present ever after, is attributed to c
   whatever happened earlier (removed and re-added: the re-adder) *)
Lemma readded_lemma vw n p c :
  c < n ->
  (c = 0 \/ present vw p (pred c) = false) ->
  (forall j, c <= j -> j < n -> present vw p j = true) ->
  origin vw n p = c.
Proof. intros H1 H2 H3. apply origin_unique_lemma. split; [exact H1|split; [exact H3|exact H2]]. Qed.

(* inserting a layer that does not touch the file (all-Keep, e.g. an empty layer) at position k *)
Definition insert_at {A} (k : nat) (x : A) (l : list A) : list A := firstn k l ++ x :: skipn k l.
Definition bump (k L : nat) : nat := if Nat.ltb L k then L else S L.

Lemma insert_at_length {A} k (x : A) l : length (insert_at k x l) = S (length l).
Proof.
  unfold insert_at. rewrite app_length. cbn [length]. rewrite firstn_length, skipn_length. lia.
Qed.

Lemma nth_insert_lt {A} k (x d : A) l i : i < k -> k <= length l -> nth i (insert_at k x l) d = nth i l d.
Proof.
  intros H1 H2. unfold insert_at. rewrite app_nth1 by (rewrite firstn_length; lia).
  rewrite <- (firstn_skipn k l) at 2. rewrite app_nth1 by (rewrite firstn_length; lia). reflexivity.
Qed.

Lemma nth_insert_eq {A} k (x d : A) l : k <= length l -> nth k (insert_at k x l) d = x.
Proof.
  intros H. unfold insert_at. rewrite app_nth2 by (rewrite firstn_length; lia).
  rewrite firstn_length. replace (k - Nat.min k (length l)) with 0 by lia. reflexivity.
Qed.

Lemma nth_insert_gt {A} k (x d : A) l i : k <= i -> k <= length l -> nth (S i) (insert_at k x l) d = nth i l d.
Proof.
  intros H1 H2. unfold insert_at. rewrite app_nth2 by (rewrite firstn_length; lia).
  rewrite firstn_length. replace (S i - Nat.min k (length l)) with (S (i - k)) by lia. cbn [nth].
  rewrite <- (firstn_skipn k l) at 2. rewrite app_nth2 by (rewrite firstn_length; lia).
  rewrite firstn_length. f_equal. lia.
Qed.

Lemma view_insert_keep ops k : k <= length ops ->
  forall j, j < S (length ops) ->
  view (insert_at k Keep ops) j =
  if Nat.ltb j k then view ops j else match j with 0 => None | S j' => view ops j' end.
Proof.
  intros Hk. pose proof (insert_at_length k Keep ops) as Hlen.
  induction j as [|j IH]; intros Hj.
  - rewrite view_0 by lia. unfold op_at. destruct (Nat.ltb 0 k) eqn:E.
    + apply Nat.ltb_lt in E. rewrite nth_insert_lt by lia. rewrite view_0 by lia. reflexivity.
    + apply Nat.ltb_ge in E. assert (k = 0) by lia. subst k. rewrite nth_insert_eq by lia. reflexivity.
  - rewrite view_S by lia. rewrite IH by lia. unfold op_at.
    destruct (Nat.ltb (S j) k) eqn:E1.
    + apply Nat.ltb_lt in E1. assert (E2 : Nat.ltb j k = true) by (apply Nat.ltb_lt; lia). rewrite E2.
      rewrite nth_insert_lt by lia. rewrite view_S by lia. reflexivity.
    + apply Nat.ltb_ge in E1. destruct (Nat.eq_dec k (S j)) as [->|Hne].
      * assert (E2 : Nat.ltb j (S j) = true) by (apply Nat.ltb_lt; lia). rewrite E2.
        rewrite nth_insert_eq by lia. reflexivity.
      * assert (E2 : Nat.ltb j k = false) by (apply Nat.ltb_ge; lia). rewrite E2.
        rewrite nth_insert_gt by lia. destruct j as [|j'].
        -- assert (k = 0) by lia. subst k. rewrite view_0 by lia. reflexivity.
        -- rewrite view_S by lia. reflexivity.
Qed.

Lemma untouched_layer_lemma ops p k :
  0 < length ops -> k <= length ops -> present (view ops) p (pred (length ops)) = true ->
  origin (view (insert_at k Keep ops)) (S (length ops)) p = bump k (origin (view ops) (length ops) p).
Proof.
  intros Hn Hk Hp. destruct (origin_correct_lemma (view ops) (length ops) p Hn Hp) as [[HL [Hfrom Hprev]] _].
  set (L := origin (view ops) (length ops) p) in *.
  assert (Hpres : forall j, j < S (length ops) ->
            present (view (insert_at k Keep ops)) p j =
            if Nat.ltb j k then present (view ops) p j else match j with 0 => false | S j' => present (view ops) p j' end).
  { intros j Hj. unfold present. rewrite (view_insert_keep ops k Hk j Hj).
    destruct (Nat.ltb j k); [reflexivity|]. destruct j; reflexivity. }
  apply origin_unique_lemma. unfold bump. destruct (Nat.ltb L k) eqn:ELk.
  - apply Nat.ltb_lt in ELk. split; [lia|]. split.
    + intros j H1 H2. rewrite Hpres by lia. destruct (Nat.ltb j k) eqn:E.
      * apply Hfrom; [exact H1|]. apply Nat.ltb_lt in E. lia.
      * apply Nat.ltb_ge in E. destruct j as [|j']; [lia|]. apply Hfrom; lia.
    + destruct Hprev as [->|Habs]; [left; reflexivity|right].
      rewrite Hpres by lia. assert (E : Nat.ltb (pred L) k = true) by (apply Nat.ltb_lt; lia). rewrite E. exact Habs.
  - apply Nat.ltb_ge in ELk. split; [lia|]. split.
    + intros j H1 H2. rewrite Hpres by lia. assert (E : Nat.ltb j k = false) by (apply Nat.ltb_ge; lia). rewrite E.
      destruct j as [|j']; [lia|]. apply Hfrom; lia.
    + right. cbn [pred]. rewrite Hpres by lia. destruct (Nat.ltb L k) eqn:E.
      * apply Nat.ltb_lt in E. lia.
      * destruct L as [|L']; [reflexivity|]. destruct Hprev as [H0|Habs]; [discriminate|exact Habs].
Qed.

Lemma lops_of_insert h k L loc :
  lops_of (insert_at k L h) loc = insert_at k (assoc_op (cl_ops L) loc) (lops_of h loc).
Proof. unfold lops_of, insert_at. rewrite map_app. cbn [map]. rewrite firstn_map, skipn_map. reflexivity. Qed.

Lemma ops_of_insert h k L loc :
  assoc_op (cl_ops L) loc = LKeep -> ops_of (insert_at k L h) loc = insert_at k Keep (ops_of h loc).
Proof.
  intros HK. unfold ops_of. rewrite lops_of_insert, HK. unfold insert_at. rewrite map_app. cbn [map strip].
  rewrite firstn_map, skipn_map. reflexivity.
Qed.

Lemma link_free_insert h k L loc :
  assoc_op (cl_ops L) loc = LKeep -> link_free h loc = true -> link_free (insert_at k L h) loc = true.
Proof.
  intros HK. unfold link_free. rewrite lops_of_insert, HK, !forallb_forall. intros H x Hx.
  unfold insert_at in Hx. apply in_app_or in Hx as [Hx|[<-|Hx]]; [|reflexivity|].
  - apply H. rewrite <- (firstn_skipn k (lops_of h loc)). apply in_or_app. left. exact Hx.
  - apply H. rewrite <- (firstn_skipn k (lops_of h loc)). apply in_or_app. right. exact Hx.
Qed.

Lemma nth_bump {A} k (x d : A) l o : k <= length l -> nth (bump k o) (insert_at k x l) d = nth o l d.
Proof.
  intros Hk. unfold bump. destruct (Nat.ltb o k) eqn:E.
  - apply Nat.ltb_lt in E. apply nth_insert_lt; assumption.
  - apply Nat.ltb_ge in E. apply nth_insert_gt; assumption.
Qed.

Lemma untouched_image_lemma h k L loc p :
  0 < length h -> k <= length h ->
  assoc_op (cl_ops L) loc = LKeep -> link_free h loc = true ->
  present (lview h loc) p (pred (length h)) = true ->
  origin (lview (insert_at k L h) loc) (length (insert_at k L h)) p = bump k (origin (lview h loc) (length h) p).
Proof.
  intros Hn Hk HK Hlf Hp.
  pose proof (link_free_insert h k L loc HK Hlf) as Hlf'.
  rewrite (origin_ext _ (view (ops_of (insert_at k L h) loc)) _ p (lview_link_free _ loc Hlf')).
  rewrite (origin_ext _ (view (ops_of h loc)) _ p (lview_link_free _ loc Hlf)).
  rewrite (ops_of_insert h k L loc HK), insert_at_length, <- (ops_of_length h loc).
  apply untouched_layer_lemma; rewrite ?ops_of_length; auto.
  unfold present in *. rewrite <- (lview_link_free h loc Hlf) by lia. exact Hp.
Qed.

(* ------------------------------------------------------------------ history alignment *)
Lemma align_loop_valid : forall hist v1,
  length v1 = nonempty_count hist ->
  exists l, align_loop hist v1 = Some l /\ length l = length hist /\
    (forall k e, nth_error hist k = Some e ->
       exists d, nth_error l k = Some (he_cmd e, d, he_empty e) /\
                 (he_empty e = true -> d = 0%N) /\
                 (he_empty e = false ->
                    nth_error v1 (nonempty_count (firstn k hist)) = Some d)).
Proof.
  induction hist as [|e r IH]; intros v1 Hlen.
  - cbn in Hlen. destruct v1; [|discriminate]. exists []. cbn. repeat split; auto.
    intros k e H. destruct k; discriminate.
  - unfold nonempty_count in Hlen. cbn [filter] in Hlen. cbn [align_loop].
    destruct (he_empty e) eqn:Ee; cbn [negb] in Hlen.
    + destruct (IH v1 Hlen) as [l [Hl [Hlen' Hk]]]. rewrite Hl. exists ((he_cmd e, 0%N, true) :: l).
      split; [reflexivity|]. split; [cbn; lia|]. intros k e' H. destruct k as [|k].
      * cbn in H. injection H as <-. exists 0%N. rewrite Ee. repeat split; auto. discriminate.
      * cbn [nth_error] in H. destruct (Hk k e' H) as [d [H1 [H2 H3]]]. exists d. cbn [nth_error].
        split; [exact H1|]. split; [exact H2|]. intros Hne. specialize (H3 Hne).
        unfold nonempty_count in *. cbn [firstn filter]. rewrite Ee. cbn [negb]. exact H3.
    + cbn [length] in Hlen. destruct v1 as [|d v1]; [discriminate|]. injection Hlen as Hlen.
      destruct (IH v1 Hlen) as [l [Hl [Hlen' Hk]]]. rewrite Hl. exists ((he_cmd e, d, false) :: l).
      split; [reflexivity|]. split; [cbn; lia|]. intros k e' H. destruct k as [|k].
      * cbn in H. injection H as <-. exists d. rewrite Ee. repeat split; auto. discriminate.
      * cbn [nth_error] in H. destruct (Hk k e' H) as [d' [H1 [H2 H3]]]. exists d'. cbn [nth_error].
        split; [exact H1|]. split; [exact H2|]. intros Hne. specialize (H3 Hne).
        unfold nonempty_count in *. cbn [firstn filter]. rewrite Ee. cbn [negb length nth_error]. exact H3.
Qed.

Lemma align_history_lemma hist v1 :
  (length v1 = nonempty_count hist ->
   exists l, align hist v1 = Some l /\ length l = length hist /\
     (forall k e, nth_error hist k = Some e ->
        exists d, nth_error l k = Some (he_cmd e, d, he_empty e) /\
                  (he_empty e = true -> d = 0%N) /\
                  (he_empty e = false -> nth_error v1 (nonempty_count (firstn k hist)) = Some d))) /\
  (length v1 <> nonempty_count hist ->
   align hist v1 = Some (map (fun d => (0%N, d, false)) v1)).
Proof.
  unfold align. split; intros H.
  - rewrite (proj2 (Nat.eqb_eq _ _) H). apply align_loop_valid. exact H.
  - rewrite (proj2 (Nat.eqb_neq _ _) H). reflexivity.
Qed.

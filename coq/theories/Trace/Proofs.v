(* C05 - proofs about trace (PopulateLayerDetails) and history alignment. *)
From Coq Require Import List NArith Bool Arith Lia.
From Scalibr Require Import Trace.Model.
Import ListNotations.

(* ------------------------------------------------------------------ views *)
Definition step (o : op) (acc : option (list N)) : option (list N) :=
  match o with Keep => acc | Write c => Some c | Delete => None end.

Lemma view_upto_app l o acc : view_upto (l ++ [o]) acc = step o (view_upto l acc).
Proof.
  revert acc. induction l as [|x l IH]; intros acc; cbn.
  - destruct o; reflexivity.
  - destruct x; apply IH.
Qed.

Lemma firstn_S_nth {A} (l : list A) (d : A) i : i < length l -> firstn (S i) l = firstn i l ++ [nth i l d].
Proof.
  revert i. induction l as [|x l IH]; intros i H; cbn in H; [lia|].
  destruct i as [|i]; [reflexivity|].
  change (firstn (S (S i)) (x :: l)) with (x :: firstn (S i) l).
  change (firstn (S i) (x :: l)) with (x :: firstn i l). cbn [nth]. rewrite (IH i) by lia. reflexivity.
Qed.

Lemma view_0 ops : 0 < length ops -> view ops 0 = step (op_at ops 0) None.
Proof.
  intros H. unfold view, op_at. destruct ops as [|o ops]; [cbn in H; lia|]. cbn. destruct o; reflexivity.
Qed.

Lemma view_S ops i : S i < length ops -> view ops (S i) = step (op_at ops (S i)) (view ops i).
Proof.
  intros H. unfold view, op_at. rewrite (firstn_S_nth ops Keep (S i) H). apply view_upto_app.
Qed.

Lemma view_keep_run ops i : forall j, i <= j -> j < length ops ->
  (forall x, i < x -> x <= j -> op_at ops x = Keep) -> view ops j = view ops i.
Proof.
  induction j as [|j IH]; intros Hij Hj HK.
  - replace i with 0 by lia. reflexivity.
  - destruct (Nat.eq_dec i (S j)) as [->|Hne]; [reflexivity|].
    rewrite (view_S ops j Hj), (HK (S j)) by lia. cbn [step]. apply IH; [lia|lia|].
    intros x H1 H2. apply HK; lia.
Qed.

Lemma present_view_eq ops p i j : view ops i = view ops j -> present ops p i = present ops p j.
Proof. unfold present. intros ->. reflexivity. Qed.

(* ------------------------------------------------------------------ origin *)
Lemma present_from_spec ops p L :
  present_from ops p L = true <-> (forall j, L <= j -> j < length ops -> present ops p j = true).
Proof.
  unfold present_from. rewrite forallb_forall. split.
  - intros H j H1 H2. apply H. apply in_seq. lia.
  - intros H j Hj. apply in_seq in Hj. apply H; lia.
Qed.

Lemma find_seq_first (f : nat -> bool) L : forall n s,
  s <= L -> L < s + n -> (forall x, s <= x -> x < L -> f x = false) -> f L = true ->
  find f (seq s n) = Some L.
Proof.
  induction n as [|n IH]; intros s H1 H2 H3 H4; [lia|]. cbn [seq find].
  destruct (Nat.eq_dec s L) as [->|Hne]; [rewrite H4; reflexivity|].
  rewrite (H3 s) by lia. apply IH; try lia; auto. intros x Hx1 Hx2. apply H3; lia.
Qed.

Lemma origin_unique_lemma ops p L : is_origin ops p L -> origin ops p = L.
Proof.
  intros [HL [Hfrom Hprev]]. unfold origin.
  rewrite (find_seq_first (present_from ops p) L (length ops) 0); auto; try lia.
  - intros x _ Hx. destruct (present_from ops p x) eqn:E; [|reflexivity].
    exfalso. rewrite present_from_spec in E. destruct Hprev as [->|Habs]; [lia|].
    rewrite (E (pred L)) in Habs; [discriminate|lia|lia].
  - apply present_from_spec. exact Hfrom.
Qed.

Lemma origin_correct_lemma ops p :
  0 < length ops -> present ops p (pred (length ops)) = true ->
  is_origin ops p (origin ops p) /\
  (forall L', (forall j, L' <= j -> j < length ops -> present ops p j = true) -> origin ops p <= L').
Proof.
  intros Hn Hlast.
  (* the least L with present_from exists because pred n qualifies *)
  assert (Hex : exists L, is_origin ops p L).
  { assert (G : forall k, k < length ops ->
                 (forall j, k <= j -> j < length ops -> present ops p j = true) -> exists L, is_origin ops p L).
    { induction k as [|k IH]; intros Hk Hall.
      - exists 0. split; [exact Hk|]. split; [exact Hall|left; reflexivity].
      - destruct (present ops p k) eqn:E.
        + apply IH; [lia|]. intros j H1 H2. destruct (Nat.eq_dec j k) as [->|]; [exact E|apply Hall; lia].
        + exists (S k). split; [exact Hk|]. split; [exact Hall|right; exact E]. }
    apply (G (pred (length ops))); [lia|]. intros j H1 H2. replace j with (pred (length ops)) by lia. exact Hlast. }
  destruct Hex as [L HL]. rewrite (origin_unique_lemma _ _ _ HL). split; [exact HL|].
  intros L' HL'. destruct HL as [HLn [_ [->|Habs]]]; [lia|].
  destruct (le_lt_dec L L') as [|Hlt]; [assumption|]. rewrite (HL' (pred L)) in Habs; [discriminate|lia|lia].
Qed.

(* ------------------------------------------------------------------ the loop *)
Definition cache_ok (ops : list op) (loc : N) (c : cache) : Prop :=
  forall i v, cache_get c loc i = Some v -> v = content (view ops i).

Lemma cache_put_ok ops loc c i :
  cache_ok ops loc c -> cache_ok ops loc (cache_put c loc i (content (view ops i))).
Proof.
  intros H j v. unfold cache_put. cbn [cache_get]. rewrite N.eqb_refl. cbn [andb].
  destruct (Nat.eqb i j) eqn:E.
  - apply Nat.eqb_eq in E. subst j. intros G. injection G as <-. reflexivity.
  - apply H.
Qed.

Lemma walk_correct ops loc p : forall k last c,
  cache_ok ops loc c ->
  k <= last -> last < length ops ->
  (forall j, last <= j -> j < length ops -> present ops p j = true) ->
  (forall j, k <= j -> j < last -> op_at ops j = Keep) ->
  (k < last -> view ops k <> None) ->
  fst (walk ops loc p k last c) = origin ops p /\ cache_ok ops loc (snd (walk ops loc p k last c)).
Proof.
  induction k as [|i IH]; intros last c Hc Hkl Hlast Hpres Hkeep Hsome.
  - cbn [walk fst snd]. split; [|exact Hc]. symmetry. apply origin_unique_lemma.
    destruct (Nat.eq_dec last 0) as [->|Hne].
    + split; [exact Hlast|]. split; [intros j _ Hj; apply Hpres; lia|left; reflexivity].
    + exfalso. apply Hsome; [lia|]. rewrite view_0 by lia. rewrite (Hkeep 0) by lia. reflexivity.
  - (* everything strictly between i and last is Keep, so those views equal view i *)
    assert (Hrun : forall j, i <= j -> j < last -> view ops j = view ops i).
    { intros j H1 H2. apply view_keep_run; [exact H1|lia|]. intros x Hx1 Hx2. apply Hkeep; lia. }
    (* what happens once oldPackages = content (view i) has been obtained *)
    assert (Hdecide :
      let c' := cache_put c loc i (content (view ops i)) in
      let r := if mem p (content (view ops i)) then walk ops loc p i i c' else (last, c') in
      fst r = origin ops p /\ cache_ok ops loc (snd r)).
    { cbn zeta. pose proof (cache_put_ok ops loc c i Hc) as Hc'.
      destruct (mem p (content (view ops i))) eqn:Em.
      - apply IH; auto; try lia.
        + intros j H1 H2. destruct (le_lt_dec last j) as [|Hlt]; [apply Hpres; assumption|].
          unfold present. rewrite (Hrun j H1 Hlt). exact Em.
      - cbn [fst snd]. split; [|exact Hc']. symmetry. apply origin_unique_lemma.
        split; [exact Hlast|]. split; [exact Hpres|]. right.
        unfold present. rewrite (Hrun (pred last)) by lia. exact Em. }
    cbn [walk]. destruct (cache_get c loc i) as [old|] eqn:Eg.
    + rewrite (Hc i old Eg). exact Hdecide.
    + destruct (view ops i) as [cont|] eqn:Ev.
      * destruct (diff ops i) eqn:Ed.
        -- cbn [content] in Hdecide. exact Hdecide.
        -- (* the skip branch: the layer's own diff does not hold the file, the view does *)
           assert (Hop : op_at ops i = Keep).
           { unfold diff in Ed. destruct (op_at ops i) eqn:Eo; [reflexivity|discriminate|].
             exfalso. destruct i as [|i'].
             - rewrite view_0 in Ev by lia. rewrite Eo in Ev. discriminate.
             - rewrite view_S in Ev by lia. rewrite Eo in Ev. discriminate. }
           apply IH; auto; try lia.
           ++ intros j H1 H2. destruct (Nat.eq_dec j i) as [->|]; [exact Hop|apply Hkeep; lia].
           ++ intros _ Hnone. congruence.
      * cbn [content] in Hdecide. exact Hdecide.
Qed.

Lemma trace_one_correct ops loc p c :
  cache_ok ops loc c -> 0 < length ops -> present ops p (pred (length ops)) = true ->
  fst (trace_one ops loc p c) = origin ops p /\ cache_ok ops loc (snd (trace_one ops loc p c)).
Proof.
  intros Hc Hn Hp. unfold trace_one. apply walk_correct; auto; try lia.
  intros j H1 H2. replace j with (pred (length ops)) by lia. exact Hp.
Qed.

(* ------------------------------------------------------------------ all packages, shared cache *)
Definition cache_ok_all (h : list clayer) (c : cache) : Prop :=
  forall loc, cache_ok (ops_of h loc) loc c.

Lemma cache_get_other c loc loc' i v : loc <> loc' -> cache_get (cache_put c loc i v) loc' = cache_get c loc'.
Proof. intros Hne. unfold cache_put. cbn [cache_get]. destruct (N.eqb_spec loc loc'); [contradiction|reflexivity]. Qed.

(* the walk for one location only adds entries for that location *)
Lemma walk_other_loc ops loc p loc' : loc <> loc' -> forall k last c j,
  cache_get (snd (walk ops loc p k last c)) loc' j = cache_get c loc' j.
Proof.
  intros Hne. induction k as [|i IH]; intros last c j; cbn [walk]; [reflexivity|].
  assert (Hput : forall v, cache_get (cache_put c loc i v) loc' j = cache_get c loc' j).
  { intros v. unfold cache_put. cbn [cache_get]. destruct (N.eqb_spec loc loc'); [contradiction|reflexivity]. }
  assert (Hdecide : forall old,
    cache_get (snd (if mem p old then walk ops loc p i i (cache_put c loc i old) else (last, cache_put c loc i old))) loc' j
    = cache_get c loc' j).
  { intros old. destruct (mem p old); [rewrite IH|cbn [snd]]; apply Hput. }
  destruct (cache_get c loc i); [apply Hdecide|].
  destruct (view ops i); [|apply Hdecide].
  destruct (diff ops i); [apply Hdecide|apply IH].
Qed.

Lemma trace_all_correct h : forall pkgs c,
  cache_ok_all h c -> 0 < length h ->
  (forall loc p, In (loc, p) pkgs -> present (ops_of h loc) p (pred (length h)) = true) ->
  trace_all h pkgs c = map (fun lp => origin (ops_of h (fst lp)) (snd lp)) pkgs.
Proof.
  induction pkgs as [|[loc p] r IH]; intros c Hc Hn Hin; [reflexivity|].
  cbn [trace_all map fst snd].
  assert (Hlen : length (ops_of h loc) = length h) by (unfold ops_of; apply map_length).
  destruct (trace_one_correct (ops_of h loc) loc p c (Hc loc)) as [Ho Hc'].
  { rewrite Hlen. exact Hn. }
  { rewrite Hlen. apply Hin. left. reflexivity. }
  destruct (trace_one (ops_of h loc) loc p c) as [o c'] eqn:Et. cbn [fst snd] in Ho, Hc'.
  rewrite Ho. f_equal. apply IH; auto.
  - intros loc'. destruct (N.eq_dec loc loc') as [<-|Hne]; [exact Hc'|].
    intros i v Hg. apply (Hc loc' i v). rewrite <- Hg.
    unfold trace_one in Et. pose proof (walk_other_loc (ops_of h loc) loc p loc' Hne
      (pred (length (ops_of h loc))) (pred (length (ops_of h loc))) c i) as W.
    rewrite Et in W. cbn [snd] in W. symmetry. exact W.
  - intros loc' p' H. apply Hin. right. exact H.
Qed.

(* ------------------------------------------------------------------ corollaries *)
(* a package written by layer c, absent just before, present ever after, is attributed to c
   whatever happened earlier (removed and re-added: the re-adder) *)
Lemma readded_lemma ops p c :
  c < length ops ->
  (c = 0 \/ present ops p (pred c) = false) ->
  (forall j, c <= j -> j < length ops -> present ops p j = true) ->
  origin ops p = c.
Proof. intros H1 H2 H3. apply origin_unique_lemma. split; [exact H1|split; [exact H3|exact H2]]. Qed.

(* inserting a layer that does not touch the file (all-Keep, e.g. an empty layer) at position k *)
Definition insert_at {A} (k : nat) (x : A) (l : list A) : list A := firstn k l ++ x :: skipn k l.
Definition bump (k L : nat) : nat := if Nat.ltb L k then L else S L.

Lemma insert_at_length {A} k (x : A) l : length (insert_at k x l) = S (length l).
Proof.
  unfold insert_at. rewrite app_length. cbn [length]. rewrite firstn_length, skipn_length. lia.
Qed.

Lemma nth_insert_lt {A} k (x d : A) l i : i < k -> k <= length l -> nth i (insert_at k x l) d = nth i l d.
Proof.
  intros H1 H2. unfold insert_at. rewrite app_nth1 by (rewrite firstn_length; lia).
  rewrite <- (firstn_skipn k l) at 2. rewrite app_nth1 by (rewrite firstn_length; lia). reflexivity.
Qed.

Lemma nth_insert_eq {A} k (x d : A) l : k <= length l -> nth k (insert_at k x l) d = x.
Proof.
  intros H. unfold insert_at. rewrite app_nth2 by (rewrite firstn_length; lia).
  rewrite firstn_length. replace (k - Nat.min k (length l)) with 0 by lia. reflexivity.
Qed.

Lemma nth_insert_gt {A} k (x d : A) l i : k <= i -> k <= length l -> nth (S i) (insert_at k x l) d = nth i l d.
Proof.
  intros H1 H2. unfold insert_at. rewrite app_nth2 by (rewrite firstn_length; lia).
  rewrite firstn_length. replace (S i - Nat.min k (length l)) with (S (i - k)) by lia. cbn [nth].
  rewrite <- (firstn_skipn k l) at 2. rewrite app_nth2 by (rewrite firstn_length; lia).
  rewrite firstn_length. f_equal. lia.
Qed.

Lemma view_insert_keep ops k : k <= length ops ->
  forall j, j < S (length ops) ->
  view (insert_at k Keep ops) j =
  if Nat.ltb j k then view ops j else match j with 0 => None | S j' => view ops j' end.
Proof.
  intros Hk. pose proof (insert_at_length k Keep ops) as Hlen.
  induction j as [|j IH]; intros Hj.
  - rewrite view_0 by lia. unfold op_at. destruct (Nat.ltb 0 k) eqn:E.
    + apply Nat.ltb_lt in E. rewrite nth_insert_lt by lia. rewrite view_0 by lia. reflexivity.
    + apply Nat.ltb_ge in E. assert (k = 0) by lia. subst k. rewrite nth_insert_eq by lia. reflexivity.
  - rewrite view_S by lia. rewrite IH by lia. unfold op_at.
    destruct (Nat.ltb (S j) k) eqn:E1.
    + apply Nat.ltb_lt in E1. assert (E2 : Nat.ltb j k = true) by (apply Nat.ltb_lt; lia). rewrite E2.
      rewrite nth_insert_lt by lia. rewrite view_S by lia. reflexivity.
    + apply Nat.ltb_ge in E1. destruct (Nat.eq_dec k (S j)) as [->|Hne].
      * assert (E2 : Nat.ltb j (S j) = true) by (apply Nat.ltb_lt; lia). rewrite E2.
        rewrite nth_insert_eq by lia. reflexivity.
      * assert (E2 : Nat.ltb j k = false) by (apply Nat.ltb_ge; lia). rewrite E2.
        rewrite nth_insert_gt by lia. destruct j as [|j'].
        -- assert (k = 0) by lia. subst k. rewrite view_0 by lia. reflexivity.
        -- rewrite view_S by lia. reflexivity.
Qed.

Lemma untouched_layer_lemma ops p k :
  0 < length ops -> k <= length ops -> present ops p (pred (length ops)) = true ->
  origin (insert_at k Keep ops) p = bump k (origin ops p).
Proof.
  intros Hn Hk Hp. destruct (origin_correct_lemma ops p Hn Hp) as [[HL [Hfrom Hprev]] _].
  set (L := origin ops p) in *. pose proof (insert_at_length k Keep ops) as Hlen.
  assert (Hpres : forall j, j < S (length ops) ->
            present (insert_at k Keep ops) p j =
            if Nat.ltb j k then present ops p j else match j with 0 => false | S j' => present ops p j' end).
  { intros j Hj. unfold present. rewrite (view_insert_keep ops k Hk j Hj).
    destruct (Nat.ltb j k); [reflexivity|]. destruct j; reflexivity. }
  apply origin_unique_lemma. unfold bump. destruct (Nat.ltb L k) eqn:ELk.
  - apply Nat.ltb_lt in ELk. split; [lia|]. split.
    + intros j H1 H2. rewrite Hpres by lia. destruct (Nat.ltb j k) eqn:E.
      * apply Hfrom; [exact H1|]. apply Nat.ltb_lt in E. lia.
      * apply Nat.ltb_ge in E. destruct j as [|j']; [lia|]. apply Hfrom; lia.
    + destruct Hprev as [->|Habs]; [left; reflexivity|right].
      rewrite Hpres by lia. assert (E : Nat.ltb (pred L) k = true) by (apply Nat.ltb_lt; lia). rewrite E. exact Habs.
  - apply Nat.ltb_ge in ELk. split; [lia|]. split.
    + intros j H1 H2. rewrite Hpres by lia. assert (E : Nat.ltb j k = false) by (apply Nat.ltb_ge; lia). rewrite E.
      destruct j as [|j']; [lia|]. apply Hfrom; lia.
    + right. cbn [pred]. rewrite Hpres by lia. destruct (Nat.ltb L k) eqn:E.
      * apply Nat.ltb_lt in E. lia.
      * destruct L as [|L']; [reflexivity|]. destruct Hprev as [H0|Habs]; [discriminate|exact Habs].
Qed.

Lemma ops_of_insert h k L loc :
  assoc_op (cl_ops L) loc = Keep -> ops_of (insert_at k L h) loc = insert_at k Keep (ops_of h loc).
Proof.
  intros HK. unfold ops_of, insert_at. rewrite map_app. cbn [map]. rewrite HK, firstn_map, skipn_map. reflexivity.
Qed.

Lemma nth_bump {A} k (x d : A) l o : k <= length l -> nth (bump k o) (insert_at k x l) d = nth o l d.
Proof.
  intros Hk. unfold bump. destruct (Nat.ltb o k) eqn:E.
  - apply Nat.ltb_lt in E. apply nth_insert_lt; assumption.
  - apply Nat.ltb_ge in E. apply nth_insert_gt; assumption.
Qed.

(* ------------------------------------------------------------------ history alignment *)
Lemma align_loop_valid : forall hist v1,
  length v1 = nonempty_count hist ->
  exists l, align_loop hist v1 = Some l /\ length l = length hist /\
    (forall k e, nth_error hist k = Some e ->
       exists d, nth_error l k = Some (he_cmd e, d, he_empty e) /\
                 (he_empty e = true -> d = 0%N) /\
                 (he_empty e = false ->
                    nth_error v1 (nonempty_count (firstn k hist)) = Some d)).
Proof.
  induction hist as [|e r IH]; intros v1 Hlen.
  - cbn in Hlen. destruct v1; [|discriminate]. exists []. cbn. repeat split; auto.
    intros k e H. destruct k; discriminate.
  - unfold nonempty_count in Hlen. cbn [filter] in Hlen. cbn [align_loop].
    destruct (he_empty e) eqn:Ee; cbn [negb] in Hlen.
    + destruct (IH v1 Hlen) as [l [Hl [Hlen' Hk]]]. rewrite Hl. exists ((he_cmd e, 0%N, true) :: l).
      split; [reflexivity|]. split; [cbn; lia|]. intros k e' H. destruct k as [|k].
      * cbn in H. injection H as <-. exists 0%N. rewrite Ee. repeat split; auto. discriminate.
      * cbn [nth_error] in H. destruct (Hk k e' H) as [d [H1 [H2 H3]]]. exists d. cbn [nth_error].
        split; [exact H1|]. split; [exact H2|]. intros Hne. specialize (H3 Hne).
        unfold nonempty_count in *. cbn [firstn filter]. rewrite Ee. cbn [negb]. exact H3.
    + cbn [length] in Hlen. destruct v1 as [|d v1]; [discriminate|]. injection Hlen as Hlen.
      destruct (IH v1 Hlen) as [l [Hl [Hlen' Hk]]]. rewrite Hl. exists ((he_cmd e, d, false) :: l).
      split; [reflexivity|]. split; [cbn; lia|]. intros k e' H. destruct k as [|k].
      * cbn in H. injection H as <-. exists d. rewrite Ee. repeat split; auto. discriminate.
      * cbn [nth_error] in H. destruct (Hk k e' H) as [d' [H1 [H2 H3]]]. exists d'. cbn [nth_error].
        split; [exact H1|]. split; [exact H2|]. intros Hne. specialize (H3 Hne).
        unfold nonempty_count in *. cbn [firstn filter]. rewrite Ee. cbn [negb length nth_error]. exact H3.
Qed.

Lemma align_history_lemma hist v1 :
  (length v1 = nonempty_count hist ->
   exists l, align hist v1 = Some l /\ length l = length hist /\
     (forall k e, nth_error hist k = Some e ->
        exists d, nth_error l k = Some (he_cmd e, d, he_empty e) /\
                  (he_empty e = true -> d = 0%N) /\
                  (he_empty e = false -> nth_error v1 (nonempty_count (firstn k hist)) = Some d))) /\
  (length v1 <> nonempty_count hist ->
   align hist v1 = Some (map (fun d => (0%N, d, false)) v1)).
Proof.
  unfold align. split; intros H.
  - rewrite (proj2 (Nat.eqb_eq _ _) H). apply align_loop_valid. exact H.
  - rewrite (proj2 (Nat.eqb_neq _ _) H). reflexivity.
Qed.

(* C05 - packages are attributed to the layer that introduced them.
   Model of artifact/image/layerscanning/trace/trace.go (PopulateLayerDetails) and of
   image.go initializeChainLayers / validateHistory.  Definitions only (no proofs). *)
From Coq Require Import List NArith Bool Arith.
Import ListNotations.

Definition mem (p : N) (l : list N) : bool := existsb (N.eqb p) l.
Definition content (v : option (list N)) : list N := match v with Some c => c | None => [] end.

(* ------------------------------------------------------------------ the cache *)
(* locationIndexToPackages: map[locationAndIndex][]*extractor.Package, as an association list *)
Definition cache := list ((N * nat) * list N).
Fixpoint cache_get (c : cache) (loc : N) (i : nat) : option (list N) :=
  match c with
  | [] => None
  | ((l, j), v) :: r => if N.eqb l loc && Nat.eqb j i then Some v else cache_get r loc i
  end.
Definition cache_put (c : cache) (loc : N) (i : nat) (v : list N) : cache := ((loc, i), v) :: c.

(* package key 0 is reserved: a line that makes the harness extractor cancel the scan context *)
Definition cancel_marker : N := 0%N.

(* ------------------------------------------------------------------ the loop, over abstract views *)
Section Walk.
  (* what the package's first location shows in the image-up-to-layer view i:
     None = Stat says not-exist, Some c = the package keys extraction of that view yields *)
  Variable view : nat -> option (list N).
  (* filesExistInLayer(chainLayers[i], pkg.Locations): layer i's own tree holds a stat-able node for
     one of the package's locations *)
  Variable exist : nat -> bool.

  Definition present (p : N) (i : nat) : bool := mem p (content (view i)).

  (* the loop `for i := len(chainLayers) - 2; i >= 0; i--` for one package; k = i+1 layers still to
     visit, last = lastScannedLayerIndex, cancelled = the scan context is already cancelled.
       cached                      -> oldPackages = cached
       view-i Stat not-exist       -> oldPackages = []
       filesExistInLayer(layer i)  -> oldPackages, err = filesystem.Run(view i);  err -> break
       otherwise                   -> continue        (no cache entry, lastScanned unchanged)
       cache[(loc,i)] = oldPackages
       package not in oldPackages  -> origin = lastScanned, stop
       lastScanned = i
     falling off the end, or break -> layer 0
     filesystem.Run fails iff the context is cancelled when it starts (handleFile checks ctx.Err()
     first); an extractor that cancels the context while it reads a file still delivers that file. *)
  Fixpoint walk (loc p : N) (k last : nat) (c : cache) (cancelled : bool) : nat * cache * bool :=
    match k with
    | 0 => (0, c, cancelled)
    | S i =>
        let decide (old : list N) (cn : bool) :=
          let c' := cache_put c loc i old in
          if mem p old then walk loc p i i c' cn else (last, c', cn) in
        match cache_get c loc i with
        | Some old => decide old cancelled
        | None =>
            match view i with
            | None => decide [] cancelled
            | Some cont =>
                if exist i then
                  if cancelled then (0, c, true)                         (* Run error: break *)
                  else decide cont (mem cancel_marker cont)
                else walk loc p i last c cancelled
            end
        end
    end.

  (* ---------------------------------------------------------------- spec *)
  (* n = number of chain layers.  The earliest L such that the package is present in every view L .. n-1 *)
  Definition present_from (n : nat) (p : N) (L : nat) : bool := forallb (present p) (seq L (n - L)).

  Definition origin (n : nat) (p : N) : nat :=
    match find (present_from n p) (seq 0 n) with
    | Some L => L
    | None => pred n       (* not in the final view: never asked *)
    end.

  (* declarative reading: present in every view from L to the last one, and L is the first layer or
     the package is not in the view just before L (presence-from-L is upward closed in L, so this is
     the least such L; origin_correct proves minimality separately) *)
  Definition is_origin (n : nat) (p : N) (L : nat) : Prop :=
    L < n /\
    (forall j, L <= j -> j < n -> present p j = true) /\
    (L = 0 \/ present p (pred L) = false).

  (* a layer whose own tree holds none of the package's files leaves the view of the first location
     unchanged, and is not the first layer when that view shows a file *)
  Definition skip_sound (n : nat) : Prop :=
    forall i, i < n -> exist i = false -> view i <> None -> i <> 0 /\ view i = view (pred i).

  (* no run of the extractor cancels the context *)
  Definition no_cancel (n : nat) : Prop :=
    forall i cont, i < n -> view i = Some cont -> mem cancel_marker cont = false.
End Walk.

(* ------------------------------------------------------------------ whole-file operations on one location *)
Inductive op :=
| Keep                      (* the layer's tar does not mention the file *)
| Write (c : list N)        (* the tar holds the file; c = the package keys its lines yield *)
| Delete.                   (* the tar holds a whiteout for the file *)

Section OneLocation.
  Variable ops : list op.     (* index = chain layer *)

  Definition op_at (i : nat) : op := nth i ops Keep.

  Fixpoint view_upto (l : list op) (acc : option (list N)) : option (list N) :=
    match l with
    | [] => acc
    | Keep :: r => view_upto r acc
    | Write c :: r => view_upto r (Some c)
    | Delete :: r => view_upto r None
    end.
  (* content of the file in the image-up-to-layer view i (None = no such file) *)
  Definition view (i : nat) : option (list N) := view_upto (firstn (S i) ops) None.

  Definition diff (i : nat) : bool := match op_at i with Write _ => true | _ => false end.
End OneLocation.

(* trace of one package whose first location has the whole-file history ops; extra i = one of its
   other locations is written by layer i *)
Definition trace_one (ops : list op) (extra : nat -> bool) (loc p : N) (c : cache) : nat * cache * bool :=
  let n := length ops in
  walk (view ops) (fun i => diff ops i || extra i) loc p (pred n) (pred n) c false.

(* ------------------------------------------------------------------ images *)
(* what a layer does to a location: as above, or it puts a symbolic link there *)
Inductive lop :=
| LKeep
| LWrite (c : list N)
| LDelete
| LLink (t : N).            (* symlink to the location t *)

(* a chain layer: build command id, diff-ID id (0 = none: empty layer), operations per location *)
Record clayer := mkCL { cl_cmd : N; cl_diff : N; cl_empty : bool; cl_ops : list (N * lop) }.

Fixpoint assoc_op (l : list (N * lop)) (loc : N) : lop :=
  match l with
  | [] => LKeep
  | (k, o) :: r => if N.eqb k loc then o else assoc_op r loc
  end.

Definition lops_of (h : list clayer) (loc : N) : list lop := map (fun L => assoc_op (cl_ops L) loc) h.

Inductive fstate := SNone | SFile (c : list N) | SSym (t : N).
Definition lstep (acc : fstate) (o : lop) : fstate :=
  match o with LKeep => acc | LWrite c => SFile c | LDelete => SNone | LLink t => SSym t end.
Definition lstate (h : list clayer) (loc : N) (i : nat) : fstate :=
  fold_left lstep (firstn (S i) (lops_of h loc)) SNone.

(* Stat + extraction of loc in the chain-layer view i: a link is followed (the harness only links to
   regular files; a link to anything else shows nothing) *)
Definition lview (h : list clayer) (loc : N) (i : nat) : option (list N) :=
  match lstate h loc i with
  | SNone => None
  | SFile c => Some c
  | SSym t => match lstate h t i with SFile c => Some c | _ => None end
  end.

(* filesExistInLayer: Stat on layer i's OWN tree, whose FS has MaxSymlinkDepth 0 -- a symlink node
   never stats successfully there (depth error, or not-exist when the target is in another layer) *)
Definition lexist (h : list clayer) (locs : list N) (i : nat) : bool :=
  existsb (fun l => match assoc_op (cl_ops (nth i h (mkCL 0 0 true []))) l with LWrite _ => true | _ => false end) locs.

(* a reported package: its locations (first one = where it was extracted) and its key *)
Definition pkgref := (list N * N)%type.
Definition primary (locs : list N) : N := hd 0%N locs.

(* PopulateLayerDetails over inventory.Packages (in the given order), one shared cache, one context *)
Fixpoint trace_all (h : list clayer) (pkgs : list pkgref) (c : cache) (cancelled : bool) : list nat :=
  match pkgs with
  | [] => []
  | (locs, p) :: r =>
      let n := length h in
      let '(o, c', cn) := walk (lview h (primary locs)) (lexist h locs) (primary locs) p (pred n) (pred n) c cancelled in
      o :: trace_all h r c' cn
  end.

(* the location's history consists of whole-file operations only *)
Definition link_free (h : list clayer) (loc : N) : bool :=
  forallb (fun o => match o with LLink _ => false | _ => true end) (lops_of h loc).

Definition strip (o : lop) : op :=
  match o with LKeep => Keep | LWrite c => Write c | LDelete => Delete | LLink _ => Keep end.
Definition ops_of (h : list clayer) (loc : N) : list op := map strip (lops_of h loc).

(* ------------------------------------------------------------------ history alignment *)
(* image.go initializeChainLayers: v1 layers (diff ids) + config history -> chain layers *)
Record hentry := mkH { he_empty : bool; he_cmd : N }.

Definition nonempty_count (hist : list hentry) : nat := length (filter (fun e => negb (he_empty e)) hist).

(* the main loop over the history; None = "config history contains more non-empty layers than expected" *)
Fixpoint align_loop (hist : list hentry) (v1 : list N) : option (list (N * N * bool)) :=   (* cmd, diff, empty *)
  match hist with
  | [] => Some (map (fun d => (0%N, d, false)) v1)          (* remaining v1 layers, no command *)
  | e :: r =>
      if he_empty e then
        match align_loop r v1 with Some l => Some ((he_cmd e, 0%N, true) :: l) | None => None end
      else
        match v1 with
        | [] => None
        | d :: v1' => match align_loop r v1' with Some l => Some ((he_cmd e, d, false) :: l) | None => None end
        end
  end.

Definition align (hist : list hentry) (v1 : list N) : option (list (N * N * bool)) :=
  if Nat.eqb (length v1) (nonempty_count hist)       (* validateHistory *)
  then align_loop hist v1
  else Some (map (fun d => (0%N, d, false)) v1).

(* ------------------------------------------------------------------ cases *)
(* a generated image: history entries and v1 layers (diff id, ops); observed per package:
   Locations as reported (ScanResult keeps the file the package was read from first and sorts the rest,
   since fix 57324273), the file it was read from (the harness extractor records it), package key, LayerDetails.Index, diff id, command, InBaseImage *)
Record vlayer := mkVL { vl_diff : N; vl_ops : list (N * lop) }.
Record pobs := mkP { po_locs : list N; po_src : N; po_pkg : N; po_index : nat; po_diff : N; po_cmd : N; po_inbase : bool }.
Record tcase := mkT { t_hist : list hentry; t_v1 : list vlayer; t_obs : list pobs }.

(* chain layers of the case: aligned metadata + the ops of the v1 layer that feeds them *)
Fixpoint attach (meta : list (N * N * bool)) (v1 : list vlayer) : list clayer :=
  match meta with
  | [] => []
  | (cmd, d, true) :: r => mkCL cmd d true [] :: attach r v1
  | (cmd, d, false) :: r =>
      match v1 with
      | [] => mkCL cmd d false [] :: attach r []
      | L :: v1' => mkCL cmd d false (vl_ops L) :: attach r v1'
      end
  end.

Definition chain_layers (c : tcase) : option (list clayer) :=
  match align (t_hist c) (map vl_diff (t_v1 c)) with
  | Some meta => Some (attach meta (t_v1 c))
  | None => None
  end.

Definition details (h : list clayer) (i : nat) : nat * N * N :=
  let L := nth i h (mkCL 0 0 true []) in (i, cl_diff L, cl_cmd L).

Definition obs_details (o : pobs) : nat * N * N := (po_index o, po_diff o, po_cmd o).

Definition det_eqb (a b : nat * N * N) : bool :=
  match a, b with (i, d, c), (j, e, f) => Nat.eqb i j && N.eqb d e && N.eqb c f end.

(* the packages reported for the final view, in the order the implementation processed them *)
Definition case_pkgs (c : tcase) : list pkgref := map (fun o => (po_locs o, po_pkg o)) (t_obs c).

(* every reported package is in the final view ... *)
Definition reported_ok (h : list clayer) (c : tcase) : bool :=
  forallb (fun o => mem (po_pkg o) (content (lview h (po_src o) (pred (length h)))) &&
                    N.eqb (primary (po_locs o)) (po_src o)) (t_obs c).

(* ... and every package of the final view of every regular file is reported *)
Definition all_locs (h : list clayer) : list N := flat_map (fun L => map fst (cl_ops L)) h.

Definition all_reported (h : list clayer) (c : tcase) : bool :=
  forallb (fun loc =>
    match lstate h loc (pred (length h)) with
    | SFile cont =>
        forallb (fun p => N.eqb p cancel_marker ||
                          existsb (fun o => N.eqb (po_src o) loc && N.eqb (po_pkg o) p) (t_obs c)) cont
    | _ => true
    end) (all_locs h).

(* well-formed harness image: links point at locations that are never links themselves *)
Definition links_flat (h : list clayer) : bool :=
  forallb (fun L => forallb (fun lo => match snd lo with LLink t => link_free h t | _ => true end) (cl_ops L)) h.

Definition case_model_ok (c : tcase) : bool :=
  match chain_layers c with
  | None => false
  | Some h =>
      links_flat h && reported_ok h c && all_reported h c &&
      forallb (fun o => negb (po_inbase o)) (t_obs c) &&        (* trace.go sets InBaseImage: false, always *)
      let idx := trace_all h (case_pkgs c) [] false in
      Nat.eqb (length idx) (length (t_obs c)) &&
      forallb (fun io => det_eqb (details h (fst io)) (obs_details (snd io))) (combine idx (t_obs c))
  end.

(* the property, evaluated on what the implementation returned: the layer it names is the origin
   computed by brute force over the views, and diff id / command are those of that layer.  Claimed on
   the domain D: the package's first location (the file it was read from) is never a symbolic link,
   and no scan context is cancelled (cases outside D are only compared with the model). *)
Definition pkg_in_D (h : list clayer) (o : pobs) : bool := link_free h (primary (po_locs o)).

Definition case_cancels (h : list clayer) : bool :=
  existsb (fun L => existsb (fun lo => match snd lo with LWrite c => mem cancel_marker c | _ => false end) (cl_ops L)) h.

(* "same package URL at the same location": the location is the file the package was read from *)
Definition pkg_spec_ok (h : list clayer) (o : pobs) : bool :=
  det_eqb (details h (origin (lview h (po_src o)) (length h) (po_pkg o))) (obs_details o).

Definition case_spec_ok (c : tcase) : bool :=
  match chain_layers c with
  | None => false
  | Some h => case_cancels h || forallb (fun o => negb (pkg_in_D h o) || pkg_spec_ok h o) (t_obs c)
  end.

(* the property as written, on everything (used to replay known findings) *)
Definition case_spec_strict_ok (c : tcase) : bool :=
  match chain_layers c with
  | None => false
  | Some h => forallb (pkg_spec_ok h) (t_obs c)
  end.

Definition case_outside_D (c : tcase) : nat :=
  match chain_layers c with
  | None => 0
  | Some h => if case_cancels h then length (t_obs c) else length (filter (fun o => negb (pkg_in_D h o)) (t_obs c))
  end.

Fixpoint bad_indices {A} (f : A -> bool) (l : list A) (i : nat) : list nat :=
  match l with
  | [] => []
  | x :: l' => if f x then bad_indices f l' (S i) else i :: bad_indices f l' (S i)
  end.

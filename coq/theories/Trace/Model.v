(* C05 - packages are attributed to the layer that introduced them.
   Model of artifact/image/layerscanning/trace/trace.go (PopulateLayerDetails) and of
   image.go initializeChainLayers / validateHistory.  Definitions only (no proofs). *)
From Coq Require Import List NArith Bool Arith.
Import ListNotations.

(* what one layer does to one package-list file *)
Inductive op :=
| Keep                      (* the layer's tar does not mention the file *)
| Write (c : list N)        (* the tar holds the file; c = the package keys (purl ids) its lines yield *)
| Delete.                   (* the tar holds a whiteout for the file *)

(* ------------------------------------------------------------------ one location *)
(* ops : list op, index = chain layer *)
Section OneLocation.
  Variable ops : list op.

  Definition op_at (i : nat) : op := nth i ops Keep.

  (* content of the file in the image-up-to-layer view i (None = no such file) *)
  Fixpoint view_upto (l : list op) (acc : option (list N)) : option (list N) :=
    match l with
    | [] => acc
    | Keep :: r => view_upto r acc
    | Write c :: r => view_upto r (Some c)
    | Delete :: r => view_upto r None
    end.
  Definition view (i : nat) : option (list N) := view_upto (firstn (S i) ops) None.

  (* filesExistInLayer: the layer's own tree holds a stat-able node for the file *)
  Definition diff (i : nat) : bool := match op_at i with Write _ => true | _ => false end.

  Definition mem (p : N) (l : list N) : bool := existsb (N.eqb p) l.
  Definition content (v : option (list N)) : list N := match v with Some c => c | None => [] end.
  Definition present (p : N) (i : nat) : bool := mem p (content (view i)).
End OneLocation.

(* ------------------------------------------------------------------ the cache and the loop *)
(* locationIndexToPackages: map[locationAndIndex][]*extractor.Package, as an association list *)
Definition cache := list ((N * nat) * list N).
Fixpoint cache_get (c : cache) (loc : N) (i : nat) : option (list N) :=
  match c with
  | [] => None
  | ((l, j), v) :: r => if N.eqb l loc && Nat.eqb j i then Some v else cache_get r loc i
  end.
Definition cache_put (c : cache) (loc : N) (i : nat) (v : list N) : cache := ((loc, i), v) :: c.

(* the loop `for i := len(chainLayers) - 2; i >= 0; i--` for one package; k = i+1 layers still to
   visit, last = lastScannedLayerIndex.  Returns the attributed index and the cache.
     cached                      -> oldPackages = cached
     view-i Stat not-exist       -> oldPackages = []
     filesExistInLayer(layer i)  -> oldPackages = extract(view i)
     otherwise                   -> continue           (no cache entry, lastScanned unchanged)
     cache[(loc,i)] = oldPackages
     package not in oldPackages  -> origin = lastScanned, stop
     lastScanned = i
   falling off the end           -> layer 0 *)
Fixpoint walk (ops : list op) (loc p : N) (k last : nat) (c : cache) : nat * cache :=
  match k with
  | 0 => (0, c)
  | S i =>
      let decide (old : list N) :=
        let c' := cache_put c loc i old in
        if mem p old then walk ops loc p i i c' else (last, c') in
      match cache_get c loc i with
      | Some old => decide old
      | None =>
          match view ops i with
          | None => decide []
          | Some cont => if diff ops i then decide cont else walk ops loc p i last c
          end
      end
  end.

Definition trace_one (ops : list op) (loc p : N) (c : cache) : nat * cache :=
  let n := length ops in walk ops loc p (pred n) (pred n) c.

(* ------------------------------------------------------------------ several locations *)
(* a chain layer: build command id, diff-ID id (0 = none: empty layer), ops per location *)
Record clayer := mkCL { cl_cmd : N; cl_diff : N; cl_empty : bool; cl_ops : list (N * op) }.

Fixpoint assoc_op (l : list (N * op)) (loc : N) : op :=
  match l with
  | [] => Keep
  | (k, o) :: r => if N.eqb k loc then o else assoc_op r loc
  end.

Definition ops_of (h : list clayer) (loc : N) : list op := map (fun L => assoc_op (cl_ops L) loc) h.

(* PopulateLayerDetails over inventory.Packages (in the given order), one shared cache *)
Fixpoint trace_all (h : list clayer) (pkgs : list (N * N)) (c : cache) : list nat :=
  match pkgs with
  | [] => []
  | (loc, p) :: r =>
      let (o, c') := trace_one (ops_of h loc) loc p c in
      o :: trace_all h r c'
  end.

(* ------------------------------------------------------------------ spec *)
(* the earliest L such that the package is present in every view L .. n-1 *)
Definition present_from (ops : list op) (p : N) (L : nat) : bool :=
  forallb (present ops p) (seq L (length ops - L)).

Definition origin (ops : list op) (p : N) : nat :=
  match find (present_from ops p) (seq 0 (length ops)) with
  | Some L => L
  | None => pred (length ops)       (* not in the final view: never asked *)
  end.

(* declarative reading: present in every view from L to the last one, and L is the first layer or
   the package is not in the view just before L (presence-from-L is upward closed in L, so this is
   the least such L; origin_correct proves minimality separately) *)
Definition is_origin (ops : list op) (p : N) (L : nat) : Prop :=
  L < length ops /\
  (forall j, L <= j -> j < length ops -> present ops p j = true) /\
  (L = 0 \/ present ops p (pred L) = false).

(* ------------------------------------------------------------------ history alignment *)
(* image.go initializeChainLayers: v1 layers (diff ids) + config history -> chain layers *)
Record hentry := mkH { he_empty : bool; he_cmd : N }.

Definition nonempty_count (hist : list hentry) : nat := length (filter (fun e => negb (he_empty e)) hist).

(* the main loop over the history; None = "config history contains more non-empty layers than expected" *)
Fixpoint align_loop (hist : list hentry) (v1 : list N) : option (list (N * N * bool)) :=   (* cmd, diff, empty *)
  match hist with
  | [] => Some (map (fun d => (0%N, d, false)) v1)          (* remaining v1 layers, no command *)
  | e :: r =>
      if he_empty e then
        match align_loop r v1 with Some l => Some ((he_cmd e, 0%N, true) :: l) | None => None end
      else
        match v1 with
        | [] => None
        | d :: v1' => match align_loop r v1' with Some l => Some ((he_cmd e, d, false) :: l) | None => None end
        end
  end.

Definition align (hist : list hentry) (v1 : list N) : option (list (N * N * bool)) :=
  if Nat.eqb (length v1) (nonempty_count hist)       (* validateHistory *)
  then align_loop hist v1
  else Some (map (fun d => (0%N, d, false)) v1).

(* which v1 layer index feeds chain layer k (None for empty layers) *)
Fixpoint v1_index_of (l : list (N * N * bool)) (k : nat) (next : nat) : option nat :=
  match l with
  | [] => None
  | (_, _, e) :: r =>
      match k with
      | 0 => if e then None else Some next
      | S k' => v1_index_of r k' (if e then next else S next)
      end
  end.

(* ------------------------------------------------------------------ cases *)
(* a generated image: history entries and v1 layers (diff id, ops); observed per package:
   location, package key, LayerDetails.Index, diff id, command *)
Record vlayer := mkVL { vl_diff : N; vl_ops : list (N * op) }.
Record pobs := mkP { po_loc : N; po_pkg : N; po_index : nat; po_diff : N; po_cmd : N }.
Record tcase := mkT { t_hist : list hentry; t_v1 : list vlayer; t_obs : list pobs }.

(* chain layers of the case: aligned metadata + the ops of the v1 layer that feeds them *)
Fixpoint attach (meta : list (N * N * bool)) (v1 : list vlayer) : list clayer :=
  match meta with
  | [] => []
  | (cmd, d, true) :: r => mkCL cmd d true [] :: attach r v1
  | (cmd, d, false) :: r =>
      match v1 with
      | [] => mkCL cmd d false [] :: attach r []
      | L :: v1' => mkCL cmd d false (vl_ops L) :: attach r v1'
      end
  end.

Definition chain_layers (c : tcase) : option (list clayer) :=
  match align (t_hist c) (map vl_diff (t_v1 c)) with
  | Some meta => Some (attach meta (t_v1 c))
  | None => None
  end.

Definition details (h : list clayer) (i : nat) : nat * N * N :=
  let L := nth i h (mkCL 0 0 true []) in (i, cl_diff L, cl_cmd L).

Definition obs_details (o : pobs) : nat * N * N := (po_index o, po_diff o, po_cmd o).

Definition det_eqb (a b : nat * N * N) : bool :=
  match a, b with (i, d, c), (j, e, f) => Nat.eqb i j && N.eqb d e && N.eqb c f end.

(* the packages reported for the final view, in the order the implementation processed them *)
Definition case_pkgs (c : tcase) : list (N * N) := map (fun o => (po_loc o, po_pkg o)) (t_obs c).

(* every reported package is in the final view, and every package of the final view is reported
   (as a multiset per location this is the extractor's business; membership is what trace needs) *)
Definition reported_ok (h : list clayer) (c : tcase) : bool :=
  forallb (fun o => present (ops_of h (po_loc o)) (po_pkg o) (pred (length h))) (t_obs c).

Definition all_locs (h : list clayer) : list N := flat_map (fun L => map fst (cl_ops L)) h.

Definition all_reported (h : list clayer) (c : tcase) : bool :=
  forallb (fun loc =>
    forallb (fun p => existsb (fun o => N.eqb (po_loc o) loc && N.eqb (po_pkg o) p) (t_obs c))
            (content (view (ops_of h loc) (pred (length h)))))
    (all_locs h).

Definition case_model_ok (c : tcase) : bool :=
  match chain_layers c with
  | None => false
  | Some h =>
      reported_ok h c && all_reported h c &&
      let idx := trace_all h (case_pkgs c) [] in
      Nat.eqb (length idx) (length (t_obs c)) &&
      forallb (fun io => det_eqb (details h (fst io)) (obs_details (snd io))) (combine idx (t_obs c))
  end.

(* the property, evaluated on what the implementation returned: the layer it names is the origin
   computed by brute force, and diff id / command are those of that layer *)
Definition case_spec_ok (c : tcase) : bool :=
  match chain_layers c with
  | None => false
  | Some h =>
      forallb (fun o => det_eqb (details h (origin (ops_of h (po_loc o)) (po_pkg o))) (obs_details o)) (t_obs c)
  end.

Fixpoint bad_indices {A} (f : A -> bool) (l : list A) (i : nat) : list nat :=
  match l with
  | [] => []
  | x :: l' => if f x then bad_indices f l' (S i) else i :: bad_indices f l' (S i)
  end.

(* non-triviality (DESIGN section 14): >= 2 layers touch the file and >= 1 package changes presence *)
Definition touches (ops : list op) : nat := length (filter (fun o => match o with Keep => false | _ => true end) ops).
Definition changes_presence (ops : list op) (p : N) : bool :=
  existsb (fun i => negb (Bool.eqb (present ops p i) (present ops p (S i)))) (seq 0 (pred (length ops))).

(* C05 - Packages are attributed to the layer that introduced them.
   Only statements here; proofs are in Proofs.v.
   Two levels:
   - abstract: the loop of PopulateLayerDetails over ANY sequence of views [vw] and ANY layer-diff test
     [ex] (filesExistInLayer), under the one premise the skip branch relies on (skip_sound);
   - images: histories of arbitrary length over any number of files, each layer keeping, writing,
     deleting or sym-linking each location, empty layers, packages with several locations, the same
     package key in several files, any processing order, one shared (location, layer) cache. *)
From Coq Require Import List NArith Bool Arith.
From Scalibr Require Import Trace.Model Trace.Proofs.
Import ListNotations.

(* the specification value is what the sentence says: present in every view from L to the last,
   L the first layer or the package absent just before L, and no smaller L has the first property *)
Theorem origin_correct : forall vw n p,
  0 < n -> present vw p (pred n) = true ->
  is_origin vw n p (origin vw n p) /\
  (forall L', (forall j, L' <= j -> j < n -> present vw p j = true) -> origin vw n p <= L').
Proof. exact origin_correct_lemma. Qed.
Print Assumptions origin_correct.

Theorem origin_unique : forall vw n p L, is_origin vw n p L -> origin vw n p = L.
Proof. exact origin_unique_lemma. Qed.
Print Assumptions origin_unique.

(* the loop, abstractly: whenever skipping is sound and nothing cancels the context, the walk from
   the last layer returns the origin, keeps the cache truthful and leaves the context alive *)
Theorem walk_eq_origin : forall vw ex n loc p c,
  skip_sound vw ex n -> no_cancel vw n ->
  cache_ok vw loc c -> 0 < n -> present vw p (pred n) = true ->
  fst (fst (walk vw ex loc p (pred n) (pred n) c false)) = origin vw n p /\
  cache_ok vw loc (snd (fst (walk vw ex loc p (pred n) (pred n) c false))) /\
  snd (walk vw ex loc p (pred n) (pred n) c false) = false.
Proof. exact walk_eq_origin_lemma. Qed.
Print Assumptions walk_eq_origin.

(* one package of a whole-file history; extra = layers that write one of its other locations *)
Theorem trace_one_eq_origin : forall ops extra loc p c,
  cache_ok (view ops) loc c -> 0 < length ops -> present (view ops) p (pred (length ops)) = true ->
  no_cancel (view ops) (length ops) ->
  fst (fst (trace_one ops extra loc p c)) = origin (view ops) (length ops) p /\
  cache_ok (view ops) loc (snd (fst (trace_one ops extra loc p c))).
Proof. exact trace_one_correct. Qed.
Print Assumptions trace_one_eq_origin.

(* the whole inventory of an image, in any order, with the shared cache starting empty.
   pkg_ok = the package has a location, its first location (the file it was read from: ScanResult keeps
   it first) is never a symbolic link (domain D), it is in the final view, and no extraction of that location cancels the scan context. *)
Theorem trace_eq_origin_on_D : forall h pkgs,
  0 < length h ->
  (forall lp, In lp pkgs -> pkg_ok h lp) ->
  trace_all h pkgs [] false = map (fun lp => origin (lview h (primary (fst lp))) (length h) (snd lp)) pkgs.
Proof.
  intros h pkgs Hn Hin. apply trace_all_correct; auto.
  intros loc i v H. discriminate.
Qed.
Print Assumptions trace_eq_origin_on_D.

(* ... and on D the views are the overlay of the location's whole-file operations *)
Theorem view_of_regular_location : forall h loc,
  link_free h loc = true -> forall i, i < length h -> lview h loc i = view (ops_of h loc) i.
Proof. exact lview_link_free. Qed.
Print Assumptions view_of_regular_location.

(* Outside D the statement fails.  A package read through a symbolic link (ScanConfig.ReadSymlinks):
   layer 0 writes file 1 = {7}, layer 1 links location 2 -> 1, layers 2 and 3 do not touch either.
   The package (location 2, key 7) is in views 1, 2, 3, so its origin is layer 1; but filesExistInLayer
   stats the link on the layer's own tree with symlink depth 0, which always fails, so every layer is
   skipped until view 0 says not-exist and the package lands on lastScanned = the LAST layer. *)
Definition ex_link_image : list clayer :=
  [ mkCL 1 11 false [(1, LWrite [7])]; mkCL 2 12 false [(2, LLink 1)]; mkCL 3 13 false []; mkCL 4 14 false [] ]%N.

Theorem symlinked_location_refuted :
  exists h locs p,
    locs <> [] /\ present (lview h (primary locs)) p (pred (length h)) = true /\
    no_cancel (lview h (primary locs)) (length h) /\
    link_free h (primary locs) = false /\
    origin (lview h (primary locs)) (length h) p = 1 /\
    trace_all h [(locs, p)] [] false = [3].
Proof.
  exists ex_link_image, [2%N], 7%N. split; [discriminate|]. split; [reflexivity|]. split.
  - apply no_cancel_b. vm_compute. reflexivity.
  - vm_compute. repeat split.
Qed.
Print Assumptions symlinked_location_refuted.

(* Regression of the fixed finding multi-location-package-traced-through-sorted-first-location: package 1
   is read from file 2 (written by layer 1) and also names file 3.  Since fix 57324273 ScanResult keeps
   the source file first ([2; 3]) and the trace lands on layer 1; traced through [3; 2], as before the
   fix, it landed on the last (empty) layer. *)
Definition ex_two_locations_image : list clayer :=
  [ mkCL 1 11 false [(2, LDelete); (3, LWrite [2; 1])]; mkCL 2 12 false [(2, LWrite [1]); (3, LWrite [2])];
    mkCL 3 0 true [] ]%N.

Example two_locations_example :
  origin (lview ex_two_locations_image 2%N) 3 1%N = 1 /\
  trace_all ex_two_locations_image [([2; 3]%N, 1%N)] [] false = [1] /\
  trace_all ex_two_locations_image [([3; 2]%N, 1%N)] [] false = [2].
Proof. vm_compute. repeat split. Qed.

(* removed and re-added: attributed to the re-adding layer c, whatever happened before *)
Theorem readded_attributed_to_readder : forall vw n p c,
  c < n ->
  (c = 0 \/ present vw p (pred c) = false) ->
  (forall j, c <= j -> j < n -> present vw p j = true) ->
  origin vw n p = c.
Proof. exact readded_lemma. Qed.
Print Assumptions readded_attributed_to_readder.

(* a layer that does not touch the file (in particular an empty layer), inserted anywhere, shifts
   indices but leaves the attributed layer the same *)
Theorem untouched_layers_irrelevant : forall h k L loc p (d : clayer),
  0 < length h -> k <= length h ->
  assoc_op (cl_ops L) loc = LKeep -> link_free h loc = true ->
  present (lview h loc) p (pred (length h)) = true ->
  origin (lview (insert_at k L h) loc) (length (insert_at k L h)) p = bump k (origin (lview h loc) (length h) p) /\
  nth (origin (lview (insert_at k L h) loc) (length (insert_at k L h)) p) (insert_at k L h) d =
  nth (origin (lview h loc) (length h) p) h d.
Proof.
  intros h k L loc p d Hn Hk HK Hlf Hp.
  pose proof (untouched_image_lemma h k L loc p Hn Hk HK Hlf Hp) as E.
  split; [exact E|]. rewrite E. apply nth_bump. exact Hk.
Qed.
Print Assumptions untouched_layers_irrelevant.

(* history alignment (initializeChainLayers / validateHistory) *)
Theorem align_history : forall hist v1,
  (length v1 = nonempty_count hist ->
   exists l, align hist v1 = Some l /\ length l = length hist /\
     (forall k e, nth_error hist k = Some e ->
        exists d, nth_error l k = Some (he_cmd e, d, he_empty e) /\
                  (he_empty e = true -> d = 0%N) /\
                  (he_empty e = false -> nth_error v1 (nonempty_count (firstn k hist)) = Some d))) /\
  (length v1 <> nonempty_count hist ->
   align hist v1 = Some (map (fun d => (0%N, d, false)) v1)).
Proof. exact align_history_lemma. Qed.
Print Assumptions align_history.

(* ---- non-vacuity ---- *)
(* file 7: layer0 writes {1,2}; layer1 empty/untouched; layer2 deletes; layer3 writes {2,3};
   layer4 untouched; layer5 rewrites {2,3,4} *)
Definition ex_ops : list op := [Write [1;2]; Keep; Delete; Write [2;3]; Keep; Write [2;3;4]]%N.

Example origin_example :
  map (origin (view ex_ops) 6) [2; 3; 4]%N = [3; 3; 5] /\
  map (fun p => fst (fst (trace_one ex_ops (fun _ => false) 7%N p []))) [2; 3; 4]%N = [3; 3; 5].
Proof. vm_compute. split; reflexivity. Qed.

(* the skip branch and the cache are exercised: after tracing package 2 the cache holds entries for
   layers 3 and 2 only (4 was skipped); a second location written by layer 4 un-skips that layer *)
Example cache_example :
  map fst (snd (fst (trace_one ex_ops (fun _ => false) 7%N 2%N []))) = [(7%N, 2); (7%N, 3)] /\
  map fst (snd (fst (trace_one ex_ops (fun i => Nat.eqb i 4) 7%N 2%N []))) = [(7%N, 2); (7%N, 3); (7%N, 4)] /\
  trace_all [ mkCL 1 11 false [(7, LWrite [1;2])]; mkCL 2 0 true []; mkCL 3 12 false [(7, LDelete)];
              mkCL 4 13 false [(7, LWrite [2;3]); (8, LWrite [2])]; mkCL 5 14 false [(8, LWrite [2;9])];
              mkCL 6 15 false [(7, LWrite [2;3;4])] ]%N
            [([7],2); ([8;7],2); ([7;8],3); ([7],4); ([8],9)]%N [] false = [3; 3; 3; 5; 4].
Proof. vm_compute. repeat split. Qed.

(* Outside the property's quantifier, stated for the record: when filesystem.Run fails in the middle of
   the backwards walk (the scan context was cancelled) the loop breaks and the package is attributed
   to layer 0, although it was introduced by layer 2.  Here the extraction of view 1 (marker key 0)
   cancels the context; the first package is still traced correctly, every later extraction fails. *)
Example run_error_attributes_to_layer_0 :
  let h := [ mkCL 1 11 false [(1, LWrite [5])]; mkCL 2 12 false [(1, LWrite [0; 5]); (2, LWrite [5])];
             mkCL 3 13 false [(1, LWrite [5; 6]); (2, LWrite [5; 6])]; mkCL 4 14 false [] ]%N in
  trace_all h [([1], 6); ([2], 6)]%N [] false = [2; 0] /\
  origin (lview h 2%N) 4 6%N = 2.
Proof. vm_compute. split; reflexivity. Qed.

Example align_example :
  align [mkH false 1; mkH true 2; mkH false 3; mkH true 4]%N [11; 12]%N =
    Some [(1, 11, false); (2, 0, true); (3, 12, false); (4, 0, true)]%N /\
  align [mkH false 1; mkH true 2]%N [11; 12]%N = Some [(0, 11, false); (0, 12, false)]%N.
Proof. vm_compute. split; reflexivity. Qed.

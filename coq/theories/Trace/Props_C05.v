(* C05 - Packages are attributed to the layer that introduced them.
   Only statements here; proofs are in Proofs.v.  Histories are arbitrary lists of per-location
   operations Keep | Write content | Delete (any length, any interleaving, any number of packages
   per file, any number of files, any processing order of the packages). *)
From Coq Require Import List NArith Bool Arith.
From Scalibr Require Import Trace.Model Trace.Proofs.
Import ListNotations.

(* the specification value is what the sentence says: present in every view from L to the last,
   L the first layer or the package absent just before L, and no smaller L has the first property *)
Theorem origin_correct : forall ops p,
  0 < length ops -> present ops p (pred (length ops)) = true ->
  is_origin ops p (origin ops p) /\
  (forall L', (forall j, L' <= j -> j < length ops -> present ops p j = true) -> origin ops p <= L').
Proof. exact origin_correct_lemma. Qed.
Print Assumptions origin_correct.

Theorem origin_unique : forall ops p L, is_origin ops p L -> origin ops p = L.
Proof. exact origin_unique_lemma. Qed.
Print Assumptions origin_unique.

(* one package, any cache whose entries are what extraction of that view yields *)
Theorem trace_one_eq_origin : forall ops loc p c,
  cache_ok ops loc c -> 0 < length ops -> present ops p (pred (length ops)) = true ->
  fst (trace_one ops loc p c) = origin ops p /\ cache_ok ops loc (snd (trace_one ops loc p c)).
Proof. exact trace_one_correct. Qed.
Print Assumptions trace_one_eq_origin.

(* the whole inventory, in any order, with the shared (location, layer) cache starting empty *)
Theorem trace_eq_origin : forall h pkgs,
  0 < length h ->
  (forall loc p, In (loc, p) pkgs -> present (ops_of h loc) p (pred (length h)) = true) ->
  trace_all h pkgs [] = map (fun lp => origin (ops_of h (fst lp)) (snd lp)) pkgs.
Proof.
  intros h pkgs Hn Hin. apply trace_all_correct; auto.
  intros loc i v H. discriminate.
Qed.
Print Assumptions trace_eq_origin.

(* removed and re-added: attributed to the re-adding layer c, whatever happened before *)
Theorem readded_attributed_to_readder : forall ops p c,
  c < length ops ->
  (c = 0 \/ present ops p (pred c) = false) ->
  (forall j, c <= j -> j < length ops -> present ops p j = true) ->
  origin ops p = c.
Proof. exact readded_lemma. Qed.
Print Assumptions readded_attributed_to_readder.

(* a layer that does not touch the file (in particular an empty layer), inserted anywhere, shifts
   indices but leaves the attributed layer the same *)
Theorem untouched_layers_irrelevant : forall h k L loc p (d : clayer),
  0 < length h -> k <= length h ->
  assoc_op (cl_ops L) loc = Keep ->
  present (ops_of h loc) p (pred (length h)) = true ->
  origin (ops_of (insert_at k L h) loc) p = bump k (origin (ops_of h loc) p) /\
  nth (origin (ops_of (insert_at k L h) loc) p) (insert_at k L h) d = nth (origin (ops_of h loc) p) h d.
Proof.
  intros h k L loc p d Hn Hk HK Hp.
  assert (Hlen : length (ops_of h loc) = length h) by (unfold ops_of; apply map_length).
  assert (E : origin (ops_of (insert_at k L h) loc) p = bump k (origin (ops_of h loc) p)).
  { rewrite (ops_of_insert h k L loc HK). apply untouched_layer_lemma; rewrite ?Hlen; auto. }
  split; [exact E|]. rewrite E. apply nth_bump. exact Hk.
Qed.
Print Assumptions untouched_layers_irrelevant.

(* history alignment (initializeChainLayers / validateHistory) *)
Theorem align_history : forall hist v1,
  (length v1 = nonempty_count hist ->
   exists l, align hist v1 = Some l /\ length l = length hist /\
     (forall k e, nth_error hist k = Some e ->
        exists d, nth_error l k = Some (he_cmd e, d, he_empty e) /\
                  (he_empty e = true -> d = 0%N) /\
                  (he_empty e = false -> nth_error v1 (nonempty_count (firstn k hist)) = Some d))) /\
  (length v1 <> nonempty_count hist ->
   align hist v1 = Some (map (fun d => (0%N, d, false)) v1)).
Proof. exact align_history_lemma. Qed.
Print Assumptions align_history.

(* ---- non-vacuity ---- *)
(* file 7: layer0 writes {1,2}; layer1 empty/untouched; layer2 deletes; layer3 writes {2,3};
   layer4 untouched; layer5 rewrites {2,3,4} *)
Definition ex_ops : list op := [Write [1;2]; Keep; Delete; Write [2;3]; Keep; Write [2;3;4]]%N.

Example origin_example :
  map (origin ex_ops) [2; 3; 4]%N = [3; 3; 5] /\
  map (fun p => fst (trace_one ex_ops 7%N p [])) [2; 3; 4]%N = [3; 3; 5].
Proof. vm_compute. split; reflexivity. Qed.

(* the skip branch and the cache are exercised: after tracing package 2 the cache holds entries for
   layers 3 and 2 only (4 was skipped), and tracing 3 next reuses them *)
Example cache_example :
  map fst (snd (trace_one ex_ops 7%N 2%N [])) = [(7%N, 2); (7%N, 3)] /\
  trace_all [ mkCL 1 11 false [(7, Write [1;2])]; mkCL 2 0 true []; mkCL 3 12 false [(7, Delete)];
              mkCL 4 13 false [(7, Write [2;3]); (8, Write [2])]; mkCL 5 14 false [(8, Write [2;9])];
              mkCL 6 15 false [(7, Write [2;3;4])] ]%N
            [(7,2); (8,2); (7,3); (7,4); (8,9)]%N [] = [3; 3; 3; 5; 4].
Proof. vm_compute. split; reflexivity. Qed.

Example align_example :
  align [mkH false 1; mkH true 2; mkH false 3; mkH true 4]%N [11; 12]%N =
    Some [(1, 11, false); (2, 0, true); (3, 12, false); (4, 0, true)]%N /\
  align [mkH false 1; mkH true 2]%N [11; 12]%N = Some [(0, 11, false); (0, 12, false)]%N.
Proof. vm_compute. split; reflexivity. Qed.
